/- Text helpers of the line protocol (parsing/printing of moves, entries, numbers). Not part of any theorem. -/
import Flounder.Model.Transposition

namespace Driver
open Flounder

def pieceName : Piece → String
  | .pawn => "P" | .knight => "N" | .bishop => "B" | .rook => "R" | .queen => "Q" | .king => "K"
def kindName : MoveType → String
  | .quiet => "q" | .capture => "c" | .enPassant => "e" | .castle => "k" | .promotion => "p"
def parsePiece : String → Option Piece
  | "P" => some .pawn | "N" => some .knight | "B" => some .bishop | "R" => some .rook
  | "Q" => some .queen | "K" => some .king | _ => none
def parseKind : String → Option MoveType
  | "q" => some .quiet | "c" => some .capture | "e" => some .enPassant | "k" => some .castle
  | "p" => some .promotion | _ => none

def mvText (m : Move) : String :=
  s!"{m.src}:{m.dst}:{pieceName m.piece}:{kindName m.kind}"
def optMvText : Option Move → String
  | some m => mvText m | none => "-"

def parseMv (s : String) : Option Move :=
  match s.splitOn ":" with
  | [a, b, p, k] => do
    let a ← a.toNat?; let b ← b.toNat?; let p ← parsePiece p; let k ← parseKind k
    pure { src := a, dst := b, piece := p, kind := k }
  | _ => none
/-- `-` is `None`; outer option = parse failure. -/
def parseOptMv (s : String) : Option (Option Move) :=
  if s == "-" then some none else (parseMv s).map some

def boundsName : Bounds → String
  | .exact => "E" | .lower => "L" | .upper => "U"
def parseBounds : String → Option Bounds
  | "E" => some .exact | "L" => some .lower | "U" => some .upper | _ => none

def entryText : Option Entry → String
  | none => "none"
  | some e => s!"{e.hashKey.toNat} {e.eval} {optMvText e.bestMove} {e.depth} {boundsName e.bounds}"

def parseU64 (s : String) : Option UInt64 := do
  let n ← s.toNat?
  if n < 2^64 then some n.toUInt64 else none

end Driver

namespace Driver
open Flounder

def boardText (b : Board) : String :=
  let mask := (if b.castle.wk then 1 else 0) + (if b.castle.wq then 2 else 0) +
              (if b.castle.bk then 4 else 0) + (if b.castle.bq then 8 else 0)
  let ep := match b.ep with | some s => toString s | none => "-"
  let side := match b.active with | .white => "w" | .black => "b"
  s!"{b.pawns.toNat},{b.knights.toNat},{b.bishops.toNat},{b.rooks.toNat},{b.queens.toNat},{b.kings.toNat},{b.white.toNat},{b.black.toNat},{side},{mask},{ep},{b.halfmove},{b.fullmove}"

def parseBoard (s : String) : Option Board :=
  match s.splitOn "," with
  | [p, n, b, r, q, k, w, bl, side, mask, ep, half, full] => do
    let p ← parseU64 p; let n ← parseU64 n; let b ← parseU64 b; let r ← parseU64 r
    let q ← parseU64 q; let k ← parseU64 k; let w ← parseU64 w; let bl ← parseU64 bl
    let side ← (match side with | "w" => some Color.white | "b" => some Color.black | _ => none)
    let mask ← mask.toNat?
    let ep ← (if ep == "-" then some none else ep.toNat?.map some)
    let half ← half.toNat?; let full ← full.toNat?
    pure { pawns := p, knights := n, bishops := b, rooks := r, queens := q, kings := k, white := w,
           black := bl, active := side,
           castle := ⟨mask % 2 == 1, (mask / 2) % 2 == 1, (mask / 4) % 2 == 1, (mask / 8) % 2 == 1⟩,
           ep := ep, halfmove := half, fullmove := full }
  | _ => none

end Driver
