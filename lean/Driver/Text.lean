/- Text helpers of the line protocol (parsing/printing of moves, entries, numbers). Not part of any theorem. -/
import Flounder.Model.Transposition

namespace Driver
open Flounder

def pieceName : Piece → String
  | .pawn => "P" | .knight => "N" | .bishop => "B" | .rook => "R" | .queen => "Q" | .king => "K"
def kindName : MoveType → String
  | .quiet => "q" | .capture => "c" | .enPassant => "e" | .castle => "k" | .promotion => "p"
def parsePiece : String → Option Piece
  | "P" => some .pawn | "N" => some .knight | "B" => some .bishop | "R" => some .rook
  | "Q" => some .queen | "K" => some .king | _ => none
def parseKind : String → Option MoveType
  | "q" => some .quiet | "c" => some .capture | "e" => some .enPassant | "k" => some .castle
  | "p" => some .promotion | _ => none

def mvText (m : Move) : String :=
  s!"{m.src}:{m.dst}:{pieceName m.piece}:{kindName m.kind}"
def optMvText : Option Move → String
  | some m => mvText m | none => "-"

def parseMv (s : String) : Option Move :=
  match s.splitOn ":" with
  | [a, b, p, k] => do
    let a ← a.toNat?; let b ← b.toNat?; let p ← parsePiece p; let k ← parseKind k
    pure { src := a, dst := b, piece := p, kind := k }
  | _ => none
/-- `-` is `None`; outer option = parse failure. -/
def parseOptMv (s : String) : Option (Option Move) :=
  if s == "-" then some none else (parseMv s).map some

def boundsName : Bounds → String
  | .exact => "E" | .lower => "L" | .upper => "U"
def parseBounds : String → Option Bounds
  | "E" => some .exact | "L" => some .lower | "U" => some .upper | _ => none

def entryText : Option Entry → String
  | none => "none"
  | some e => s!"{e.hashKey.toNat} {e.eval} {optMvText e.bestMove} {e.depth} {boundsName e.bounds}"

def parseU64 (s : String) : Option UInt64 := do
  let n ← s.toNat?
  if n < 2^64 then some n.toUInt64 else none

end Driver
