/-
  Line-protocol driver: one operation per input line, exactly one output line per operation:
      M:<answer of the MODEL>[\tS:<answer of the SPEC>]
  The harness (Rust, real engine in-process) produces the same operations and the implementation's
  answers; ./check diffs them (impl vs M = tie, impl vs S = the property itself).  `S:?` = no spec
  for this operation.
-/
import Driver.Text
import Flounder.Spec.Map
import Flounder.Spec.Position
import Flounder.Model.Eval
import Flounder.Model.Go

open Flounder Driver

structure St where
  tt : TT := {}
  ttLog : List Entry := []
  evaluator : Evaluator := {}
  zkeys : Array UInt64 := Array.replicate 837 0
  zgood : Bool := false

def both (m s : String) : String := s!"M:{m}\tS:{s}"
def modelOnly (m : String) : String := s!"M:{m}"

/-- the key table as functions over the flat array sent by the harness
    (layout: [color][piece][square] (768), white-to-move, [color][side] (4), ep[square] (64)). -/
def zkeysOf (a : Array UInt64) : ZKeys :=
  { piece := fun c p s => a.getD (c.index * 384 + p.index * 64 + s) 0
    whiteToMove := a.getD 768 0
    castle := fun c side => a.getD (769 + c.index * 2 + side) 0
    ep := fun s => a.getD (773 + s) 0 }

/-- `KeysGood`: all 837 keys non-zero and pairwise distinct. -/
def keysGood (a : Array UInt64) : Bool :=
  let l := a.toList
  let srt := l.mergeSort (fun x y => decide (x ≤ y))
  l.all (· != 0) && (srt.zip (srt.drop 1)).all (fun (x, y) => x != y)

/-- spec of a well-formed clock command: the mover's own pair values, looked up directly. -/
def ownClock (side : Color) (toks : List String) : Nat × Nat :=
  let tkey := if side = .white then "wtime" else "btime"
  let ikey := if side = .white then "winc" else "binc"
  let rec find (k : String) (l : List String) (acc : Nat) : Nat :=
    match l with
    | a :: b :: rest => find k rest (if a = k then (Flounder.parseU64 b.toList).getD 0 else acc)
    | _ => acc
  (find tkey toks 0, find ikey toks 0)

def fitsText (budget own : Nat) : String :=
  if budget ≤ own ∧ (own = 0 ∨ budget < own) then "fits" else "exceeds"

def zobPair (st : St) (a b : String) : St × String :=
  match parseBoard a, parseBoard b with
  | some a, some b =>
    let k := zkeysOf st.zkeys
    let m := if hash k a = hash k b then "same" else "differ"
    -- the property: equal exactly when the same position (the harness sends pairs that are either the
    -- same position or differ in ONE component, where `KeysGood` makes "differ" certain)
    (st, both m (if Spec.samePosition a b then "same" else "differ"))
  | _, _ => (st, modelOnly "bad-op")

def step (st : St) (line : String) : St × String :=
  let toks := (line.trimAscii.toString.splitOn " ").filter (· ≠ "")
  match toks with
  | "case" :: _ => (st, both "ok" "ok")
  | ["tt.new"] => ({ st with tt := {}, ttLog := [] }, both "ok" "ok")
  | ["tt.store", k, ev, mv, d, b] =>
    match Driver.parseU64 k, ev.toInt?, parseOptMv mv, d.toNat?, parseBounds b with
    | some k, some ev, some mv, some d, some b =>
      ({ st with tt := st.tt.store k ev mv d b,
                 ttLog := Spec.mkEntry k ev mv d b :: st.ttLog }, both "ok" "ok")
    | _, _, _, _, _ => (st, modelOnly "bad-op")
  | ["tt.get", k] =>
    match Driver.parseU64 k with
    | some k => (st, both (entryText (st.tt.retrieve k)) (entryText (Spec.logGet st.ttLog k)))
    | none => (st, modelOnly "bad-op")
  -- ---------------------------------------------------------------- C14
  | ["eval", b] =>
    match parseBoard b with
    | some b =>
      let (v, e) := evaluate st.evaluator b
      ({ st with evaluator := e }, both (toString v) "?")
    | none => (st, modelOnly "bad-op")
  | ["eval.rel", b] =>
    match parseBoard b with
    | some b =>
      let (v, e1) := evaluate st.evaluator b
      let (f, e2) := evaluate e1 (Spec.flipSide b)
      let (m, e3) := evaluate e2 (Spec.mirror b)
      ({ st with evaluator := e3 }, both s!"{v} {f} {m}" s!"{evalFn b} {-(evalFn b)} {evalFn b}")
    | none => (st, modelOnly "bad-op")
  -- ---------------------------------------------------------------- C11
  | "zob.keys" :: ks =>
    match ks.mapM Driver.parseU64 with
    | some l =>
      if l.length = 837 then
        let a := l.toArray
        let good := keysGood a
        ({ st with zkeys := a, zgood := good }, both "ok" (if good then "ok" else "keys-not-good"))
      else (st, modelOnly "bad-op")
    | none => (st, modelOnly "bad-op")
  | ["zob.hash", b] =>
    match parseBoard b with
    | some b =>
      let k := zkeysOf st.zkeys
      (st, both (toString (hash k b).toNat) (toString (Spec.hashSpec k b).toNat))
    | none => (st, modelOnly "bad-op")
  | ["zob.same", a, b] => zobPair st a b
  | ["zob.diff", a, b] => zobPair st a b
  -- ---------------------------------------------------------------- C12
  | "go.params" :: side :: rest =>
    let c := if side = "w" then Color.white else Color.black
    let g := goParams c (rest.map String.toList)
    let t := match g.timeLimit with | some ms => toString ms | none => "none"
    (st, both s!"{g.depth} {t}" "?")
  | "go.pair" :: side :: rest =>
    let c := if side = "w" then Color.white else Color.black
    let a := rest.takeWhile (· ≠ "|")
    let b := (rest.dropWhile (· ≠ "|")).drop 1
    let ga := goParams c (a.map String.toList)
    let gb := goParams c (b.map String.toList)
    let fit (g : GoParams) (toks : List String) : String :=
      match g.timeLimit with
      | some ms => fitsText ms (ownClock c (toks.drop 1)).1
      | none => "fits"
    let same := if ga.timeLimit = gb.timeLimit then "same" else "differ"
    (st, both s!"{same} {fit ga a} {fit gb b}" "same fits fits")
  | _ => (st, modelOnly "bad-op")

partial def loop (h : IO.FS.Stream) (out : IO.FS.Stream) (st : St) : IO Unit := do
  let line ← h.getLine
  if line.isEmpty then return ()
  let (st', o) := step st line
  out.putStrLn o
  loop h out st'

def main : IO Unit := do
  let stdin ← IO.getStdin
  let stdout ← IO.getStdout
  loop stdin stdout {}
  stdout.flush
