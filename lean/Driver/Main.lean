/-
  Line-protocol driver: one operation per input line, exactly one output line per operation:
      M:<answer of the MODEL>[\tS:<answer of the SPEC>]
  The harness (Rust, real engine in-process) produces the same operations and the implementation's
  answers; ./check diffs them (impl vs M = tie, impl vs S = the property itself).  `S:?` = no spec
  for this operation.
-/
import Driver.Text
import Flounder.Spec.Map
import Flounder.Spec.Position
import Flounder.Model.Eval
import Flounder.Model.Go
import Flounder.Model.MoveGen
import Flounder.Spec.Chess
import Flounder.Spec.Geometry
import Flounder.Spec.Minimax
import Flounder.Spec.Budget
import Flounder.Model.Engine
import Flounder.Lemmas.C01Interfaces

open Flounder Driver

/-- deterministic "random" keys for the model when it runs without the engine's real draw (splitmix64). -/
def defaultKeysFrom (seed : UInt64) : Array UInt64 := Id.run do
  let mut a : Array UInt64 := #[]
  let mut x : UInt64 := seed
  for _ in [0:837] do
    x := x + 0x9E3779B97F4A7C15
    let mut z := x
    z := (z ^^^ (z >>> 30)) * 0xBF58476D1CE4E5B9
    z := (z ^^^ (z >>> 27)) * 0x94D049BB133111EB
    a := a.push (z ^^^ (z >>> 31))
  return a
def defaultKeys : Array UInt64 := defaultKeysFrom 12345

structure St where
  mg : MoveGenerator
  tt : TT := {}
  ttLog : List Entry := []
  evaluator : Evaluator := {}
  zkeys : Array UInt64 := Array.replicate 837 0
  zgood : Bool := false
  -- search / engine
  skeys : Array UInt64 := defaultKeys           -- keys of the in-process searcher under test
  search : SearchState := {}
  eng : Engine := {}
  engKeys : Array (Array UInt64) := #[defaultKeys]   -- key table per `Searcher::new()` draw of the engine
  specHist : List String := []
  specPos : Option Spec.Pos := none     -- the position the RULES prescribe after the last eng.pos (none: start board or a move was not legal)
  vmemo : Std.HashMap String (Option Int) := {}        -- memo of Spec.V per (position, depth)                  -- spec-side game history of the last position command (position texts, no counters)

def both (m s : String) : String := s!"M:{m}\tS:{s}"
def modelOnly (m : String) : String := s!"M:{m}"

/-- the key table as functions over the flat array sent by the harness
    (layout: [color][piece][square] (768), white-to-move, [color][side] (4), ep[square] (64)). -/
def zkeysOf (a : Array UInt64) : ZKeys :=
  { piece := fun c p s => a.getD (c.index * 384 + p.index * 64 + s) 0
    whiteToMove := a.getD 768 0
    castle := fun c side => a.getD (769 + c.index * 2 + side) 0
    ep := fun s => a.getD (773 + s) 0 }

/-- `KeysGood`: all 837 keys non-zero and pairwise distinct. -/
def keysGood (a : Array UInt64) : Bool :=
  let l := a.toList
  let srt := l.mergeSort (fun x y => decide (x ≤ y))
  l.all (· != 0) && (srt.zip (srt.drop 1)).all (fun (x, y) => x != y)

/-- spec of a well-formed clock command: the mover's own pair values, looked up directly. -/
def ownClock (side : Color) (toks : List String) : Nat × Nat :=
  let tkey := if side = .white then "wtime" else "btime"
  let ikey := if side = .white then "winc" else "binc"
  let rec find (k : String) (l : List String) (acc : Nat) : Nat :=
    match l with
    | a :: b :: rest => find k rest (if a = k then (Flounder.parseU64 b.toList).getD 0 else acc)
    | _ => acc
  (find tkey toks 0, find ikey toks 0)

def fitsText (budget own : Nat) : String :=
  if budget ≤ own ∧ (own = 0 ∨ budget < own) then "fits" else "exceeds"

def zobPair (st : St) (a b : String) : St × String :=
  match parseBoard a, parseBoard b with
  | some a, some b =>
    let k := zkeysOf st.zkeys
    let m := if hash k a = hash k b then "same" else "differ"
    -- the property: equal exactly when the same position (the harness sends pairs that are either the
    -- same position or differ in ONE component, where `KeysGood` makes "differ" certain)
    (st, both m (if Spec.samePosition a b then "same" else "differ"))
  | _, _ => (st, modelOnly "bad-op")

def sortedMoves (l : List Move) : String :=
  " ".intercalate ((l.map mvText).mergeSort (fun a b => decide (a ≤ b)))
def orderedMoves (l : List Move) : String := " ".intercalate (l.map mvText)

/-- board text of a spec position (counters are not part of a position: taken from the input board). -/
def posText (p : Spec.Pos) (half full : Nat) : String :=
  let bbOf (f : Spec.Man → Bool) : Nat :=
    (List.range 64).foldl (fun acc s => match p.board s with
      | some m => if f m then acc + 2^s else acc
      | none => acc) 0
  let pc (q : Piece) := bbOf (fun m => m.2 == q)
  let mask := (if p.castle.wk then 1 else 0) + (if p.castle.wq then 2 else 0) +
              (if p.castle.bk then 4 else 0) + (if p.castle.bq then 8 else 0)
  let ep := match p.ep with | some s => toString s | none => "-"
  let side := match p.turn with | .white => "w" | .black => "b"
  s!"{pc .pawn},{pc .knight},{pc .bishop},{pc .rook},{pc .queen},{pc .king},{bbOf (fun m => m.1 == .white)},{bbOf (fun m => m.1 == .black)},{side},{mask},{ep},{half},{full}"

def parseLimit (s : String) : Option Limit :=
  if s == "none" then some .none
  else match s.splitOn ":" with
    | ["nodes", n] => n.toNat?.map Limit.nodes
    | ["polls", n] => n.toNat?.map Limit.polls
    | _ => none

/-- order-independent digest of a transposition table: entry count and a 64-bit checksum. -/
def ttDigest (t : TT) : String :=
  let mvCode (m : Option Move) : UInt64 := match m with
    | none => 0
    | some m => (m.src * 64 + m.dst + 4096 * m.piece.index + 32768 * (match m.kind with
        | .quiet => 0 | .capture => 1 | .enPassant => 2 | .castle => 3 | .promotion => 4) + 1).toUInt64
  let bCode (b : Bounds) : UInt64 := match b with | .exact => 1 | .lower => 2 | .upper => 3
  let sum := t.table.fold (fun (acc : UInt64) k e =>
    acc + (k * 31 + e.hashKey * 17 + (Int.toNat (e.eval + 4294967296)).toUInt64 * 1000003 + mvCode e.bestMove * 7919 +
           e.depth.toUInt64 * 104729 + bCode e.bounds * 1299709)) 0
  s!"{t.table.size} {sum.toNat}"

def posKey (b : Board) : String :=
  boardText { b with halfmove := 0, fullmove := 0 }

def scoreClass (v : Int) : Int := Spec.clampClass v

def linesText (ls : List (List Char)) : String := "|".intercalate (ls.map String.ofList)

def outcomeText : Outcome → String
  | .running => "running" | .exited n => s!"exit{n}" | .panicked => "panic" | .outOfFuel => "model-out-of-fuel"

/-- node budget of one reference evaluation (Spec/Budget.lean: `none` when exhausted, never a wrong value). -/
def SPEC_BUDGET : Nat := 8000

def specVb (G : Game Board) (d : Nat) (b : Board) : Option Int := (Spec.Vb G 2000 d b SPEC_BUDGET).1
def specQb (G : Game Board) (b : Board) : Option Int := (Spec.Qb G 2000 b SPEC_BUDGET).1

/-- memoised reference minimax value (plain minimax is exponential; the same roots are judged many times). -/
def specV (st : St) (G : Game Board) (d : Nat) (b : Board) : St × Option Int :=
  let key := s!"{d}:{posKey b}"
  match st.vmemo[key]? with
  | some v => (st, v)
  | none =>
    let v := specVb G d b
    ({ st with vmemo := st.vmemo.insert key v }, v)

def step (st : St) (line : String) : St × String :=
  let toks := (line.trimAscii.toString.splitOn " ").filter (· ≠ "")
  match toks with
  | "case" :: _ => (st, both "ok" "ok")
  | ["impl.viafen", _] => (st, both "ok" "ok")   -- how the IMPLEMENTATION side builds its boards (through its FEN reader); nothing for the model to do
  | ["tt.new"] => ({ st with tt := {}, ttLog := [] }, both "ok" "ok")
  | ["tt.store", k, ev, mv, d, b] =>
    match Driver.parseU64 k, ev.toInt?, parseOptMv mv, d.toNat?, parseBounds b with
    | some k, some ev, some mv, some d, some b =>
      ({ st with tt := st.tt.store k ev mv d b,
                 ttLog := Spec.mkEntry k ev mv d b :: st.ttLog }, both "ok" "ok")
    | _, _, _, _, _ => (st, modelOnly "bad-op")
  | ["tt.fill", k0, n, d] =>
    match Driver.parseU64 k0, n.toNat?, d.toNat? with
    | some k0, some n, some d =>
      let rec go (i : Nat) (fuel : Nat) (tt : TT) (log : List Entry) : TT × List Entry :=
        match fuel with
        | 0 => (tt, log)
        | fuel + 1 =>
          let k := k0 + i.toUInt64
          let ev : Int := ((i % 1000 : Nat) : Int)
          go (i + 1) fuel (tt.store k ev none d .exact) (Spec.mkEntry k ev none d .exact :: log)
      let (tt, log) := go 0 n st.tt st.ttLog
      ({ st with tt := tt, ttLog := log }, both "ok" "ok")
    | _, _, _ => (st, modelOnly "bad-op")
  | ["tt.get", k] =>
    match Driver.parseU64 k with
    | some k => (st, both (entryText (st.tt.retrieve k)) (entryText (Spec.logGet st.ttLog k)))
    | none => (st, modelOnly "bad-op")
  -- ---------------------------------------------------------------- C10
  | ["c10.slide", pc, sq, occ] =>
    match parsePiece pc, sq.toNat?, Driver.parseU64 occ with
    | some pc, some sq, some occ =>
      let bbOf (f : Nat → Bool) : Nat := (List.range 64).foldl (fun acc t => if f t then acc + 2^t else acc) 0
      let sp := match pc with
        | .rook => bbOf (Spec.sliderReach false occ sq)
        | .bishop => bbOf (Spec.sliderReach true occ sq)
        | _ => bbOf (fun t => Spec.sliderReach false occ sq t || Spec.sliderReach true occ sq t)
      (st, both (toString (st.mg.lookup.slidingMoves sq occ pc).toNat) (toString sp))
    | _, _, _ => (st, modelOnly "bad-op")
  | ["c10.leaper", sq] =>
    match sq.toNat? with
    | some sq =>
      let bbOf (f : Nat → Bool) : Nat := (List.range 64).foldl (fun acc t => if f t then acc + 2^t else acc) 0
      (st, both s!"{(st.mg.lookup.nonSlidingMoves sq .knight).toNat} {(st.mg.lookup.nonSlidingMoves sq .king).toNat}"
                s!"{bbOf (Spec.knightStep sq)} {bbOf (Spec.kingStep sq)}")
    | none => (st, modelOnly "bad-op")
  | ["c10.between", a, b] =>
    match a.toNat?, b.toNat? with
    | some a, some b =>
      let bbOf (f : Nat → Bool) : Nat := (List.range 64).foldl (fun acc t => if f t then acc + 2^t else acc) 0
      (st, both s!"{(st.mg.lookup.between a b true).toNat} {(st.mg.lookup.between a b false).toNat}"
                s!"{bbOf (Spec.onSegment a b)} {bbOf (Spec.onLine a b)}")
    | _, _ => (st, modelOnly "bad-op")
  | ["c10.mask", pc, sq] =>   -- relevant-occupancy mask, magic number, relevant bits (model tie of the table build inputs)
    match parsePiece pc, sq.toNat? with
    | some pc, some sq =>
      let bishop := pc == .bishop
      (st, both s!"{(attackMask bishop sq 0 false).toNat} {(magicOf bishop sq).toNat} {relevantBits bishop sq}" "?")
    | _, _ => (st, modelOnly "bad-op")
  -- ---------------------------------------------------------------- C01 / C02 / C17
  | ["c01.iface", b] =>   -- executable sanity check of the proof interfaces (Lemmas/C01Interfaces.lean) on one board
    match parseBoard b with
    | some b =>
      if !(Spec.valid b) then (st, both "invalid" "?") else
      let g := st.mg
      let p := Spec.abs b
      let att := (List.range 64).all fun t => (List.range 64).all fun s =>
        hasSq (g.attacksTo b t) s ==
          (match Spec.absBoard b s with
           | some (c, pc) => c == b.active.other && Spec.manAttacks (Spec.liftKing (Spec.absBoard b) b.active) c pc s t
           | none => false)
      let cands := Spec.candidates p
      let pl := g.pseudoLegalMoves b
      let geo := cands.filter (Spec.pseudoGeom p)
      let pe := sortedMoves pl == sortedMoves geo && (pl.eraseDups.length == pl.length)
      let ks := MoveGenerator.kingSquare b
      let fe := geo.all fun m =>
        g.isLegal b m (g.attacksTo b ks) (g.getPinnedPieces b ks) ks == (Spec.castleSafe p m && Spec.kingSafeAfter p m)
      let ps := cands.all fun m => Spec.pseudo p m == (Spec.pseudoGeom p m && Spec.castleSafe p m)
      (st, both s!"att={att} pseudo={pe} filter={fe} split={ps}" "att=true pseudo=true filter=true split=true")
    | none => (st, modelOnly "bad-op")
  | ["gen", b] =>      -- generated moves in generation ORDER (model tie only)
    match parseBoard b with
    | some b => (st, both (orderedMoves (st.mg.generateMoves b)) "?")
    | none => (st, modelOnly "bad-op")
  | ["legal", b] =>    -- the SET of generated moves (sorted, duplicates kept) against the rules
    match parseBoard b with
    | some b =>
      let sp := if Spec.valid b then sortedMoves (Spec.legalMoves (Spec.abs b)) else "?"
      (st, both (sortedMoves (st.mg.generateMoves b)) sp)
    | none => (st, modelOnly "bad-op")
  | ["incheck", b] =>
    match parseBoard b with
    | some b =>
      let sp := if Spec.valid b then toString (Spec.inCheck (Spec.abs b)) else "?"
      (st, both (toString (st.mg.isInCheck b)) sp)
    | none => (st, modelOnly "bad-op")
  | ["qmoves", b] =>
    match parseBoard b with
    | some b =>
      let sp := if Spec.valid b then
          let p := Spec.abs b
          let ms := Spec.legalMoves p
          sortedMoves (ms.filter (Spec.tactical p))
        else "?"
      (st, both (sortedMoves (st.mg.generateQuiescenceMoves b)) sp)
    | none => (st, modelOnly "bad-op")
  | ["qstress", _, _, _] => (st, both "ok" "?")   -- interrupted searches before an observation: nothing the selection may depend on
  | ["qset", b] =>
    match parseBoard b with
    | some b =>
      let sp := if Spec.valid b then
          let p := Spec.abs b
          let ms := Spec.legalMoves p
          sortedMoves (if Spec.inCheck p then ms else ms.filter (Spec.tactical p))
        else "?"
      (st, both (sortedMoves (st.mg.quiescenceMoveSet b)) sp)
    | none => (st, modelOnly "bad-op")
  | ["play", b, m] =>
    match parseBoard b, parseMv m with
    | some b, some m =>
      let mt := match b.makeMove m with | some nb => boardText nb | none => "panic"
      let sp := if Spec.valid b && Spec.legal (Spec.abs b) m then posText (Spec.play (Spec.abs b) m) b.halfmove b.fullmove else "?"
      (st, both mt sp)
    | _, _ => (st, modelOnly "bad-op")
  | ["valid", b] =>
    match parseBoard b with
    | some b => (st, both (toString (Spec.valid b)) (toString (Spec.valid b)))
    | none => (st, modelOnly "bad-op")
  -- ---------------------------------------------------------------- C14
  | ["eval", b] =>
    match parseBoard b with
    | some b =>
      let (v, e) := evaluate st.evaluator b
      ({ st with evaluator := e }, both (toString v) "?")
    | none => (st, modelOnly "bad-op")
  | ["eval.judge", b, score] =>
    -- C14 magnitude: the score the implementation reported for a board with at most 16 men a side (one king each) lies strictly
    -- inside the search window (INFINITY is re-extracted from search.rs on every run)
    match parseBoard b, score.toInt? with
    | some b, some v =>
      let menOK := [Color.white, Color.black].all fun c =>
        (Piece.all.map (fun p => countOnes (b.bb c p))).sum ≤ 16 && countOnes (b.bb c .king) == 1
      if !menOK then (st, both "ok" "?")
      else if Gen.NEGATIVE_INFINITY < v && v < Gen.INFINITY then (st, both "ok" "ok")
      else (st, both "ok" s!"SCORE-OUTSIDE-SEARCH-WINDOW score={v} window=({Gen.NEGATIVE_INFINITY},{Gen.INFINITY})")
    | _, _ => (st, modelOnly "bad-op")
  | ["eval.rel", b] =>
    match parseBoard b with
    | some b =>
      let (v, e1) := evaluate st.evaluator b
      let (f, e2) := evaluate e1 (Spec.flipSide b)
      let (m, e3) := evaluate e2 (Spec.mirror b)
      ({ st with evaluator := e3 }, both s!"{v} {f} {m}" s!"{evalFn b} {-(evalFn b)} {evalFn b}")
    | none => (st, modelOnly "bad-op")
  -- ---------------------------------------------------------------- C11
  | "zob.keys" :: ks =>
    match ks.mapM Driver.parseU64 with
    | some l =>
      if l.length = 837 then
        let a := l.toArray
        let good := keysGood a
        ({ st with zkeys := a, zgood := good }, both "ok" (if good then "ok" else "keys-not-good"))
      else (st, modelOnly "bad-op")
    | none => (st, modelOnly "bad-op")
  | ["zob.hash", b] =>
    match parseBoard b with
    | some b =>
      let k := zkeysOf st.zkeys
      (st, both (toString (hash k b).toNat) (toString (Spec.hashSpec k b).toNat))
    | none => (st, modelOnly "bad-op")
  | ["zob.same", a, b] => zobPair st a b
  | ["zob.diff", a, b] => zobPair st a b
  -- ---------------------------------------------------------------- search (C05 C06 C07 C08 C03 C13)
  | "s.new" :: ks =>
    match ks.mapM Driver.parseU64 with
    | some l => if l.length = 837 then ({ st with skeys := l.toArray, search := {} }, both "ok" "?") else (st, modelOnly "bad-op")
    | none => (st, modelOnly "bad-op")
  | ["s.keysgood"] =>
    -- the keys installed by the preceding `s.new` are the ones the engine really drew: non-zero and pairwise distinct?
    let ks := st.skeys.toList
    let sorted := ks.mergeSort (fun a b => decide (a ≤ b))
    let distinct : Bool := (sorted.zip (sorted.drop 1)).all (fun ab => ab.1 != ab.2)
    let good : Bool := ks.all (fun k => k != 0) && distinct
    (st, both (if good then "good" else "BAD") "good")
  | ["s.go", b, d, lim] =>
    match parseBoard b, d.toNat?, parseLimit lim with
    | some b, some d, some lim =>
      let G := chessGame st.mg (zkeysOf st.skeys)
      match findBestMove G 100000 b d lim { st.search with deeperHits := 0, sameDepthHits := 0 } with
      | (some (score, mv), s) =>
        ({ st with search := s },
         both s!"{score} {optMvText mv} nodes={s.nodes} polls={s.polls} deeper={s.deeperHits} same={s.sameDepthHits} afterstop={s.nodesAfterStop} rep={s.rep.length} tt={ttDigest s.tt}" "?")
      | (none, s) => ({ st with search := s }, both "?" "?")
    | _, _, _ => (st, modelOnly "bad-op")
  | ["s.value", b, d, implMv] =>   -- fresh searcher, completed search: value and move against plain minimax
    match parseBoard b, d.toNat?, parseOptMv implMv with
    | some b, some d, some implMv =>
      let G := chessGame st.mg (zkeysOf st.skeys)
      let (m, reused) := match findBestMove G 100000 b d .none {} with
        | (some (score, mv), s) => (s!"{scoreClass score} {if mv = implMv then "same-move" else "other-move:" ++ optMvText mv} deeper={s.deeperHits}", s.deeperHits)
        | (none, _) => ("?", 0)
      -- the property compares with plain minimax only when no record cached by a DEEPER search was reused (from depth 4 on a
      -- position can be met again closer to the root than where it was first stored); such cases are tied to the model, not judged
      let sp := if reused > 0 then "?" else match specVb G d b with
        | some v =>
          let attains := match implMv with
            | some mv => (G.moves b).contains mv &&
                (match specVb G (d - 1) (G.play b mv) with
                 | some c => scoreClass (-c) == scoreClass v
                 | none => false)
            | none => (G.moves b).isEmpty
          s!"{scoreClass v} {if attains then "same-move" else "move-does-not-attain-value"} deeper=0"
        | none => "?"
      (st, both m sp)
    | _, _, _ => (st, modelOnly "bad-op")
  | "s.judge" :: b :: what :: args =>
    match parseBoard b with
    | some b =>
      let G := chessGame st.mg (zkeysOf st.skeys)
      let p := Spec.abs b
      let legalMs := Spec.legalMoves p
      let mates (m : Move) : Bool := Spec.isMate (Spec.play p m)
      let allowsMate1 (m : Move) : Bool :=
        let q := Spec.play p m
        (Spec.legalMoves q).any fun r => Spec.isMate (Spec.play q r)
      let verdict : String := match what, args with
        | "value", [_, _, _] => "handled-below"
        | "legal", [mv] =>
          (match parseOptMv mv with
           | some (some m) => if legalMs.contains m then "ok" else "ILLEGAL-BESTMOVE"
           | some none => if legalMs.isEmpty then "ok" else "NO-MOVE-BUT-LEGAL-MOVES-EXIST"
           | none => "bad-op")
        | "mate1", [mv] =>
          (match parseOptMv mv with
           | some (some m) => if legalMs.any mates then (if mates m then "ok" else "MATE-IN-ONE-NOT-PLAYED") else "ok"
           | some none => if legalMs.any mates then "MATE-IN-ONE-NOT-PLAYED" else "ok"
           | none => "bad-op")
        | "depthmono", [before, after] =>
          -- C15 at the level of the search: the record kept for a position never becomes shallower
          (match before.toNat?, after.toNat? with
           | none, _ => if before == "none" then "ok" else "bad-op"
           | some d0, some d1 => if d0 ≤ d1 then "ok" else s!"SHALLOWER-RECORD-REPLACED-DEEPER before={d0} after={d1}"
           | some d0, none => s!"DEEPER-RECORD-LOST before={d0} after={after}")
        | "safe", [mv] =>
          (match parseOptMv mv with
           | some (some m) =>
             if legalMs.any (fun x => !allowsMate1 x) then (if allowsMate1 m then "ALLOWS-AVOIDABLE-MATE-IN-ONE" else "ok") else "ok"
           | some none => "ok"
           | none => "bad-op")
        | _, _ => "bad-op"
      if what == "value" then
        match args with
        | [d, score, mv] =>
          (match d.toNat?, score.toInt?, parseOptMv mv with
           | some d, some score, some mv =>
             let (st, v?) := specV st G d b
             (match v? with
              | some v =>
                let (st, attains) := match mv with
                  | some m =>
                    if (G.moves b).contains m then
                      let (st, c?) := specV st G (d - 1) (G.play b m)
                      (st, match c? with | some c => scoreClass (-c) == scoreClass v | none => false)
                    else (st, false)
                  | none => (st, (G.moves b).isEmpty)
                (st, both "ok" (if scoreClass score == scoreClass v && attains then "ok"
                  else s!"VALUE-MISMATCH minimax={v} reported={score} move-attains={attains}"))
              | none => (st, both "ok" "?"))
           | _, _, _ => (st, modelOnly "bad-op"))
        | _ => (st, modelOnly "bad-op")
      else (st, both "ok" verdict)
    | none => (st, modelOnly "bad-op")
  | ["s.afterstop"] => (st, both (toString st.search.nodesAfterStop) "0")
  | ["s.ttdepth", b] =>   -- depth of the record currently kept for this position (none if there is none)
    match parseBoard b with
    | some b =>
      let G := chessGame st.mg (zkeysOf st.skeys)
      let m := match st.search.tt.retrieve (G.hash b) with
        | some e => toString e.depth
        | none => "none"
      (st, both m "?")
    | none => (st, modelOnly "bad-op")
  | ["s.fresh", b, d] =>
    match parseBoard b, d.toNat? with
    | some b, some d =>
      let G := chessGame st.mg (zkeysOf st.skeys)
      match findBestMove G 100000 b d .none {} with
      | (some (score, mv), s) => (st, both s!"{score} {optMvText mv} deeper={s.deeperHits} nodes={s.nodes}" "?")
      | (none, _) => (st, both "?" "?")
    | _, _ => (st, modelOnly "bad-op")
  | ["s.qval", b] =>
    match parseBoard b with
    | some b =>
      let G := chessGame st.mg (zkeysOf st.skeys)
      let m := match quiesce G 100000 b Gen.NEGATIVE_INFINITY Gen.INFINITY {} with
        | (some v, _) => toString v | (none, _) => "?"
      let sp := match specQb G b with
        | some v => toString (if v ≥ Gen.INFINITY then Gen.INFINITY else if v ≤ Gen.NEGATIVE_INFINITY then
            (if v = -Gen.CHECKMATE_SCORE then v else Gen.NEGATIVE_INFINITY) else v)
        | none => "?"
      (st, both m sp)
    | none => (st, modelOnly "bad-op")
  | ["s.ttclaim", b] =>   -- the cached record for this position, audited against minimax
    match parseBoard b with
    | some b =>
      let G := chessGame st.mg (zkeysOf st.skeys)
      let e := st.search.tt.retrieve (G.hash b)
      let txt (e : Entry) := s!"{e.eval} {optMvText e.bestMove} {e.depth} {boundsName e.bounds}"
      match e with
      | none => (st, both "none" "?")
      | some e =>
        let (st, v?) := specV st G e.depth b
        let sp := match v? with
          | none => "?"
          | some v =>
            let vc := scoreClass v
            let ec := scoreClass e.eval
            let okv := match e.bounds with
              | .exact => ec == vc
              | .lower => ec ≤ vc
              | .upper => vc ≤ ec
            let okm := match e.bestMove with | some m => (G.moves b).contains m | none => true
            if okv && okm then txt e else s!"FALSE-CLAIM minimax={v} entry={txt e}"
        (st, both (txt e) sp)
    | none => (st, modelOnly "bad-op")
  | ["s.order", b, tt, ply] =>   -- order_moves / order_captures as permutations (model tie; spec: same multiset)
    match parseBoard b, parseOptMv tt, ply.toNat? with
    | some b, some tt, some ply =>
      let G := chessGame st.mg (zkeysOf st.skeys)
      let ms := G.moves b
      let o := orderMoves G st.search b ms tt ply
      let c := orderCaptures G b ms
      (st, both s!"{orderedMoves o} / {orderedMoves c}" "?")
    | _, _, _ => (st, modelOnly "bad-op")
  -- ---------------------------------------------------------------- engine in-process (C04 C09)
  | "eng.new" :: ks =>
    match ks.mapM Driver.parseU64 with
    | some l => if l.length = 837 then ({ st with eng := {}, engKeys := #[l.toArray], specHist := [] }, both "ok" "?") else (st, modelOnly "bad-op")
    | none => (st, modelOnly "bad-op")
  | "eng.keys" :: ks =>
    -- the key table the engine's current searcher uses (reported by the harness after a ucinewgame)
    match ks.mapM Driver.parseU64 with
    | some l =>
      if l.length = 837 then
        let i := st.eng.newGames
        let ek := if i < st.engKeys.size then st.engKeys.set! i l.toArray
                  else (st.engKeys ++ Array.replicate (i - st.engKeys.size) defaultKeys).push l.toArray
        ({ st with engKeys := ek }, both "ok" "?")
      else (st, modelOnly "bad-op")
    | none => (st, modelOnly "bad-op")
  | "eng.pos" :: start :: rest =>
    -- eng.pos <start board> <mv>* | <the position command line>
    match parseBoard start with
    | some sb =>
      let mvs := (rest.takeWhile (· ≠ "|")).mapM parseMv
      let cmd := (rest.dropWhile (· ≠ "|")).drop 1
      match mvs with
      | some mvs =>
        let ctx : EngineCtx := { mg := st.mg, keys := fun i => zkeysOf (st.engKeys.getD i defaultKeys) }
        let (_, e', oc) := Engine.handleCommand ctx st.eng (cmd.map String.toList)
        let repx := e'.search.rep.foldl (· ^^^ ·) (0 : UInt64)
        let m := s!"{outcomeText oc} {boardText e'.board} rep={e'.search.rep.length}:{repx.toNat}"
        -- spec: play the moves by the rules from the start position
        let (sp, hist) := Id.run do
          let mut p := Spec.abs sb
          let mut hist : List String := []
          let mut ok := Spec.valid sb
          for mv in mvs do
            if ok && Spec.legal p mv then
              hist := posText p 0 0 :: hist
              p := Spec.play p mv
            else ok := false
          return (if ok then some p else none, hist)
        match sp with
        | some p =>
          -- the repetition stack is not part of the position property: compare board only (counters from FEN kept by engine)
          ({ st with eng := e', specHist := hist, specPos := some p },
           both m s!"running {posText p e'.board.halfmove e'.board.fullmove} rep={e'.search.rep.length}:{repx.toNat}")
        | none => ({ st with eng := e', specHist := [], specPos := none }, both m "?")
      | none => (st, modelOnly "bad-op")
    | none => (st, modelOnly "bad-op")
  | ["eng.go", d] =>
    -- a depth-limited search on the ENGINE's own searcher (table, killers, history heuristic and the game history recorded by
    -- the position command): model tie incl. node count
    match d.toNat? with
    | some d =>
      let k := zkeysOf (st.engKeys.getD st.eng.newGames defaultKeys)
      let G := chessGame st.mg k
      match findBestMove G 100000 st.eng.board d .none st.eng.search with
      | (some (score, mv), s) => ({ st with eng := { st.eng with search := s } }, both s!"{score} {optMvText mv} nodes={s.nodes} rep={s.rep.length}" "?")
      | (none, s) => ({ st with eng := { st.eng with search := s } }, both "?" "?")
    | none => (st, modelOnly "bad-op")
  | ["eng.golim", d, lim] =>
    -- a search on the engine's own searcher (game history in place) cut off by a deadline: model tie incl. the history record
    match d.toNat?, parseLimit lim with
    | some d, some lim =>
      let k := zkeysOf (st.engKeys.getD st.eng.newGames defaultKeys)
      let G := chessGame st.mg k
      match findBestMove G 100000 st.eng.board d lim st.eng.search with
      | (some (score, mv), s) =>
        let repx := s.rep.foldl (· ^^^ ·) (0 : UInt64)
        ({ st with eng := { st.eng with search := s } }, both s!"{score} {optMvText mv} nodes={s.nodes} rep={s.rep.length}:{repx.toNat}" "?")
      | (none, s) => ({ st with eng := { st.eng with search := s } }, both "?" "?")
    | _, _ => (st, modelOnly "bad-op")
  | ["eng.rep"] =>
    let repx := st.eng.search.rep.foldl (· ^^^ ·) (0 : UInt64)
    (st, both s!"{st.eng.search.rep.length}:{repx.toNat}" "?")
  | ["eng.repsame", before, after] =>
    -- C06: the engine's record of the game history after a search cut off by the clock is exactly what it was before
    (st, both "ok" (if before == after then "ok" else s!"GAME-HISTORY-RECORD-CHANGED-BY-A-CUT-OFF-SEARCH before={before} after={after}"))
  | ["eng.deeper"] =>
    -- cumulative count of probes answered from a record DEEPER than requested, on the engine's own searcher (tie)
    (st, both (toString st.eng.search.deeperHits) "?")
  | ["eng.judged", d, score, deeper] =>
    -- C09 at the level of the search, any depth (theorem Props/C09Search.lean: find_best_move_value_history): after a position
    -- command on an engine whose table was empty, a completed depth-d search that reused no deeper record reports the value of
    -- the minimax tree in which every position that occurred at least twice in (history given with the command + the position
    -- searched) is a leaf worth 0 below the root — compared as won/lost beyond the window
    match d.toNat?, score.toInt?, deeper.toNat?, st.specPos with
    | some d, some reported, some 0, some root =>
      let k := zkeysOf (st.engKeys.getD st.eng.newGames defaultKeys)
      let G := chessGame st.mg k
      let stack := posText root 0 0 :: st.specHist
      let drawn (q : Board) : Bool := decide ((stack.filter (· == posText (Spec.abs q) 0 0)).length ≥ 2)
      match (Spec.Vdb G drawn 2000 d true st.eng.board SPEC_BUDGET).1 with
      | some v =>
        if scoreClass v == scoreClass reported then (st, both "ok" "ok")
        else (st, both "ok" s!"DEPTH-{d}-VALUE-WITH-GAME-HISTORY expected={v} reported={reported}")
      | none => (st, both "ok" "?")
    | some _, some _, some _, _ => (st, both "ok" "?")   -- a deeper record was reused: outside the property, tied to the model only
    | _, _, _, _ => (st, modelOnly "bad-op")
  | ["eng.judgelegal", mv] =>
    -- C03 through the engine's own position command: the move the engine answered must be legal BY THE RULES in the position
    -- the rules prescribe for the last position command (the engine's own board is not consulted)
    match st.specPos, parseOptMv mv with
    | some p, some (some m) => (st, both "ok" (if (Spec.legalMoves p).contains m then "ok" else "ILLEGAL-BESTMOVE"))
    | some p, some none => (st, both "ok" (if (Spec.legalMoves p).isEmpty then "ok" else "NO-MOVE-BUT-LEGAL-MOVES-EXIST"))
    | _, _ => (st, both "ok" "?")
  | ["eng.judge1", score] =>
    -- C09 at the level of the search: the value a depth-1 search from a fresh table must report for the current position is
    --   max over the legal moves m of (0 if the successor occurred at least twice in the game given with the last position
    --   command, else minus its quiescence value)  — compared as won/lost beyond the window
    match score.toInt? with
    | some reported =>
      let b := st.eng.board
      let k := zkeysOf (st.engKeys.getD st.eng.newGames defaultKeys)
      let G := chessGame st.mg k
      let p := Spec.abs b
      let ms := Spec.legalMoves p
      if ms.isEmpty then (st, both "ok" "?")
      else
        let vals : List (Option Int) := ms.map fun m =>
          let q := Spec.play p m
          let cnt := (st.specHist.filter (· == posText q 0 0)).length
          if cnt ≥ 2 then some 0
          else match (b.makeMove m) with
            | some b' => (specQb G b').map (fun v => -v)
            | none => none
        if vals.any (·.isNone) then (st, both "ok" "?")
        else
          let best := (vals.filterMap id).foldl max (-Gen.CHECKMATE_SCORE)
          let nrep := (ms.filter fun m => (st.specHist.filter (· == posText (Spec.play p m) 0 0)).length ≥ 2).length
          if scoreClass best == scoreClass reported then (st, both "ok" "ok")
          else (st, both "ok" s!"DEPTH-1-VALUE-WITH-REPETITIONS expected={best} reported={reported} successors-that-are-third-occurrences={nrep}")
    | none => (st, modelOnly "bad-op")
  | ["eng.isdraw", b] =>
    match parseBoard b with
    | some b =>
      let k := zkeysOf (st.engKeys.getD st.eng.newGames defaultKeys)
      let m := st.eng.search.isRepetition (hash k b)
      let cnt := (st.specHist.filter (· == posText (Spec.abs b) 0 0)).length
      (st, both (toString m) (toString (decide (cnt ≥ 2))))
    | none => (st, modelOnly "bad-op")
  -- ---------------------------------------------------------------- black-box transcripts (C16 C03 C13)
  | ["spec.legaluci", b] =>   -- UCI texts of the legal moves by the RULES (for judging black-box bestmove lines)
    match parseBoard b with
    | some b =>
      let uci (m : Move) : String :=
        let sq (s : Nat) : String := String.ofList [Char.ofNat (97 + s % 8), Char.ofNat (49 + s / 8)]
        sq m.src ++ sq m.dst ++ (if m.kind == .promotion then
          (match m.piece with | .knight => "n" | .bishop => "b" | .rook => "r" | .queen => "q" | _ => "") else "")
      let l := ((Spec.legalMoves (Spec.abs b)).map uci).mergeSort (fun a b => decide (a ≤ b))
      (st, both "?" (" ".intercalate l))
    | none => (st, modelOnly "bad-op")
  | "uci.run" :: _ =>
    -- uci.run <line>;;<line>;;...   (raw text after the op name; lines may contain any spacing)
    let raw := (line.trimAscii.toString.drop 8).toString
    let lines := (raw.splitOn ";;").map String.toList
    let ctx : EngineCtx := { mg := st.mg, keys := fun i => zkeysOf (defaultKeysFrom (1000 + i.toUInt64)) }
    let (out, oc) := Engine.uciLoop ctx lines {}
    (st, both s!"{linesText out} => {outcomeText oc}" "?")
  | "uci.golegal" :: _ =>
    -- uci.golegal <line>;;<line>;;...  for every `go` the script executes: the UCI texts of the moves that are legal BY THE RULES
    -- in the position the preceding position commands prescribe (boards come from the model's make-move, proved equal to the
    -- rules' successor on valid boards; no search is run).  Output: one `|`-separated group per go.
    let raw := (line.trimAscii.toString.drop 12).toString
    let lines := (raw.splitOn ";;").map String.toList
    let ctx : EngineCtx := { mg := st.mg, keys := fun i => zkeysOf (defaultKeysFrom (1000 + i.toUInt64)) }
    let uci (m : Move) : String :=
      let sq (s : Nat) : String := String.ofList [Char.ofNat (97 + s % 8), Char.ofNat (49 + s / 8)]
      sq m.src ++ sq m.dst ++ (if m.kind == .promotion then
        (match m.piece with | .knight => "n" | .bishop => "b" | .rook => "r" | .queen => "q" | _ => "") else "")
    let rec walk (ls : List (List Char)) (e : Engine) (acc : List String) (fuel : Nat) : List String :=
      match fuel, ls with
      | 0, _ => acc
      | _, [] => acc
      | fuel + 1, l :: rest =>
        let parts := splitWs l
        match parts with
        | [] => walk rest e acc fuel
        | cmd :: _ =>
          if cmd = kwGo then
            let legal := ((Spec.legalMoves (Spec.abs e.board)).map uci).mergeSort (fun a b => decide (a ≤ b))
            walk rest e ((if Spec.valid e.board then " ".intercalate legal else "?") :: acc) fuel
          else if cmd = kwQuit then acc
          else
            let (_, e', oc) := Engine.handleCommand ctx e parts
            match oc with
            | .running => walk rest e' acc fuel
            | _ => acc
    let groups := (walk lines {} [] (lines.length + 1)).reverse
    (st, both "?" ("|".intercalate groups))
  -- ---------------------------------------------------------------- C12
  | "go.params" :: side :: rest =>
    let c := if side = "w" then Color.white else Color.black
    let g := goParams c (rest.map String.toList)
    let t := match g.timeLimit with | some ms => toString ms | none => "none"
    (st, both s!"{g.depth} {t}" "?")
  | "go.pair" :: side :: rest =>
    let c := if side = "w" then Color.white else Color.black
    let a := rest.takeWhile (· ≠ "|")
    let b := (rest.dropWhile (· ≠ "|")).drop 1
    let ga := goParams c (a.map String.toList)
    let gb := goParams c (b.map String.toList)
    let fit (g : GoParams) (toks : List String) : String :=
      match g.timeLimit with
      | some ms => fitsText ms (ownClock c (toks.drop 1)).1
      | none =>
        -- no time limit at all: fine only when the command does not name the mover's own clock
        if toks.contains (if c = .white then "wtime" else "btime") then "unlimited" else "fits"
    let same := if ga.timeLimit = gb.timeLimit then "same" else "differ"
    (st, both s!"{same} {fit ga a} {fit gb b}" "same fits fits")
  | _ => (st, modelOnly "bad-op")

partial def loop (h : IO.FS.Stream) (out : IO.FS.Stream) (st : St) : IO Unit := do
  let line ← h.getLine
  if line.isEmpty then return ()
  let (st', o) := step st line
  out.putStrLn o
  loop h out st'

def main : IO Unit := do
  let stdin ← IO.getStdin
  let stdout ← IO.getStdout
  loop stdin stdout { mg := MoveGenerator.new }
  stdout.flush
