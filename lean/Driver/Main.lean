/-
  Line-protocol driver: one operation per input line, exactly one output line per operation:
      M:<answer of the MODEL>[\tS:<answer of the SPEC>]
  The harness (Rust, real engine in-process) produces the same operations and the implementation's
  answers; ./check diffs them (impl vs M = tie, impl vs S = the property itself).  `S:?` = no spec
  for this operation.
-/
import Driver.Text
import Flounder.Spec.Map
import Flounder.Spec.Position
import Flounder.Model.Eval
import Flounder.Model.Go
import Flounder.Model.MoveGen
import Flounder.Spec.Chess
import Flounder.Spec.Geometry

open Flounder Driver

structure St where
  mg : MoveGenerator
  tt : TT := {}
  ttLog : List Entry := []
  evaluator : Evaluator := {}
  zkeys : Array UInt64 := Array.replicate 837 0
  zgood : Bool := false

def both (m s : String) : String := s!"M:{m}\tS:{s}"
def modelOnly (m : String) : String := s!"M:{m}"

/-- the key table as functions over the flat array sent by the harness
    (layout: [color][piece][square] (768), white-to-move, [color][side] (4), ep[square] (64)). -/
def zkeysOf (a : Array UInt64) : ZKeys :=
  { piece := fun c p s => a.getD (c.index * 384 + p.index * 64 + s) 0
    whiteToMove := a.getD 768 0
    castle := fun c side => a.getD (769 + c.index * 2 + side) 0
    ep := fun s => a.getD (773 + s) 0 }

/-- `KeysGood`: all 837 keys non-zero and pairwise distinct. -/
def keysGood (a : Array UInt64) : Bool :=
  let l := a.toList
  let srt := l.mergeSort (fun x y => decide (x ≤ y))
  l.all (· != 0) && (srt.zip (srt.drop 1)).all (fun (x, y) => x != y)

/-- spec of a well-formed clock command: the mover's own pair values, looked up directly. -/
def ownClock (side : Color) (toks : List String) : Nat × Nat :=
  let tkey := if side = .white then "wtime" else "btime"
  let ikey := if side = .white then "winc" else "binc"
  let rec find (k : String) (l : List String) (acc : Nat) : Nat :=
    match l with
    | a :: b :: rest => find k rest (if a = k then (Flounder.parseU64 b.toList).getD 0 else acc)
    | _ => acc
  (find tkey toks 0, find ikey toks 0)

def fitsText (budget own : Nat) : String :=
  if budget ≤ own ∧ (own = 0 ∨ budget < own) then "fits" else "exceeds"

def zobPair (st : St) (a b : String) : St × String :=
  match parseBoard a, parseBoard b with
  | some a, some b =>
    let k := zkeysOf st.zkeys
    let m := if hash k a = hash k b then "same" else "differ"
    -- the property: equal exactly when the same position (the harness sends pairs that are either the
    -- same position or differ in ONE component, where `KeysGood` makes "differ" certain)
    (st, both m (if Spec.samePosition a b then "same" else "differ"))
  | _, _ => (st, modelOnly "bad-op")

def sortedMoves (l : List Move) : String :=
  " ".intercalate ((l.map mvText).mergeSort (fun a b => decide (a ≤ b)))
def orderedMoves (l : List Move) : String := " ".intercalate (l.map mvText)

/-- board text of a spec position (counters are not part of a position: taken from the input board). -/
def posText (p : Spec.Pos) (half full : Nat) : String :=
  let bbOf (f : Spec.Man → Bool) : Nat :=
    (List.range 64).foldl (fun acc s => match p.board s with
      | some m => if f m then acc + 2^s else acc
      | none => acc) 0
  let pc (q : Piece) := bbOf (fun m => m.2 == q)
  let mask := (if p.castle.wk then 1 else 0) + (if p.castle.wq then 2 else 0) +
              (if p.castle.bk then 4 else 0) + (if p.castle.bq then 8 else 0)
  let ep := match p.ep with | some s => toString s | none => "-"
  let side := match p.turn with | .white => "w" | .black => "b"
  s!"{pc .pawn},{pc .knight},{pc .bishop},{pc .rook},{pc .queen},{pc .king},{bbOf (fun m => m.1 == .white)},{bbOf (fun m => m.1 == .black)},{side},{mask},{ep},{half},{full}"

def step (st : St) (line : String) : St × String :=
  let toks := (line.trimAscii.toString.splitOn " ").filter (· ≠ "")
  match toks with
  | "case" :: _ => (st, both "ok" "ok")
  | ["tt.new"] => ({ st with tt := {}, ttLog := [] }, both "ok" "ok")
  | ["tt.store", k, ev, mv, d, b] =>
    match Driver.parseU64 k, ev.toInt?, parseOptMv mv, d.toNat?, parseBounds b with
    | some k, some ev, some mv, some d, some b =>
      ({ st with tt := st.tt.store k ev mv d b,
                 ttLog := Spec.mkEntry k ev mv d b :: st.ttLog }, both "ok" "ok")
    | _, _, _, _, _ => (st, modelOnly "bad-op")
  | ["tt.get", k] =>
    match Driver.parseU64 k with
    | some k => (st, both (entryText (st.tt.retrieve k)) (entryText (Spec.logGet st.ttLog k)))
    | none => (st, modelOnly "bad-op")
  -- ---------------------------------------------------------------- C10
  | ["c10.slide", pc, sq, occ] =>
    match parsePiece pc, sq.toNat?, Driver.parseU64 occ with
    | some pc, some sq, some occ =>
      let bbOf (f : Nat → Bool) : Nat := (List.range 64).foldl (fun acc t => if f t then acc + 2^t else acc) 0
      let sp := match pc with
        | .rook => bbOf (Spec.sliderReach false occ sq)
        | .bishop => bbOf (Spec.sliderReach true occ sq)
        | _ => bbOf (fun t => Spec.sliderReach false occ sq t || Spec.sliderReach true occ sq t)
      (st, both (toString (st.mg.lookup.slidingMoves sq occ pc).toNat) (toString sp))
    | _, _, _ => (st, modelOnly "bad-op")
  | ["c10.leaper", sq] =>
    match sq.toNat? with
    | some sq =>
      let bbOf (f : Nat → Bool) : Nat := (List.range 64).foldl (fun acc t => if f t then acc + 2^t else acc) 0
      (st, both s!"{(st.mg.lookup.nonSlidingMoves sq .knight).toNat} {(st.mg.lookup.nonSlidingMoves sq .king).toNat}"
                s!"{bbOf (Spec.knightStep sq)} {bbOf (Spec.kingStep sq)}")
    | none => (st, modelOnly "bad-op")
  | ["c10.between", a, b] =>
    match a.toNat?, b.toNat? with
    | some a, some b =>
      let bbOf (f : Nat → Bool) : Nat := (List.range 64).foldl (fun acc t => if f t then acc + 2^t else acc) 0
      (st, both s!"{(st.mg.lookup.between a b true).toNat} {(st.mg.lookup.between a b false).toNat}"
                s!"{bbOf (Spec.onSegment a b)} {bbOf (Spec.onLine a b)}")
    | _, _ => (st, modelOnly "bad-op")
  | ["c10.mask", pc, sq] =>   -- relevant-occupancy mask, magic number, relevant bits (model tie of the table build inputs)
    match parsePiece pc, sq.toNat? with
    | some pc, some sq =>
      let bishop := pc == .bishop
      (st, both s!"{(attackMask bishop sq 0 false).toNat} {(magicOf bishop sq).toNat} {relevantBits bishop sq}" "?")
    | _, _ => (st, modelOnly "bad-op")
  -- ---------------------------------------------------------------- C01 / C02 / C17
  | ["gen", b] =>      -- generated moves in generation ORDER (model tie only)
    match parseBoard b with
    | some b => (st, both (orderedMoves (st.mg.generateMoves b)) "?")
    | none => (st, modelOnly "bad-op")
  | ["legal", b] =>    -- the SET of generated moves (sorted, duplicates kept) against the rules
    match parseBoard b with
    | some b =>
      let sp := if Spec.valid b then sortedMoves (Spec.legalMoves (Spec.abs b)) else "?"
      (st, both (sortedMoves (st.mg.generateMoves b)) sp)
    | none => (st, modelOnly "bad-op")
  | ["incheck", b] =>
    match parseBoard b with
    | some b =>
      let sp := if Spec.valid b then toString (Spec.inCheck (Spec.abs b)) else "?"
      (st, both (toString (st.mg.isInCheck b)) sp)
    | none => (st, modelOnly "bad-op")
  | ["qmoves", b] =>
    match parseBoard b with
    | some b =>
      let sp := if Spec.valid b then
          let p := Spec.abs b
          let ms := Spec.legalMoves p
          sortedMoves (ms.filter (Spec.tactical p))
        else "?"
      (st, both (sortedMoves (st.mg.generateQuiescenceMoves b)) sp)
    | none => (st, modelOnly "bad-op")
  | ["qset", b] =>
    match parseBoard b with
    | some b =>
      let sp := if Spec.valid b then
          let p := Spec.abs b
          let ms := Spec.legalMoves p
          sortedMoves (if Spec.inCheck p then ms else ms.filter (Spec.tactical p))
        else "?"
      (st, both (sortedMoves (st.mg.quiescenceMoveSet b)) sp)
    | none => (st, modelOnly "bad-op")
  | ["play", b, m] =>
    match parseBoard b, parseMv m with
    | some b, some m =>
      let mt := match b.makeMove m with | some nb => boardText nb | none => "panic"
      let sp := if Spec.valid b && Spec.legal (Spec.abs b) m then posText (Spec.play (Spec.abs b) m) b.halfmove b.fullmove else "?"
      (st, both mt sp)
    | _, _ => (st, modelOnly "bad-op")
  | ["valid", b] =>
    match parseBoard b with
    | some b => (st, both (toString (Spec.valid b)) (toString (Spec.valid b)))
    | none => (st, modelOnly "bad-op")
  -- ---------------------------------------------------------------- C14
  | ["eval", b] =>
    match parseBoard b with
    | some b =>
      let (v, e) := evaluate st.evaluator b
      ({ st with evaluator := e }, both (toString v) "?")
    | none => (st, modelOnly "bad-op")
  | ["eval.rel", b] =>
    match parseBoard b with
    | some b =>
      let (v, e1) := evaluate st.evaluator b
      let (f, e2) := evaluate e1 (Spec.flipSide b)
      let (m, e3) := evaluate e2 (Spec.mirror b)
      ({ st with evaluator := e3 }, both s!"{v} {f} {m}" s!"{evalFn b} {-(evalFn b)} {evalFn b}")
    | none => (st, modelOnly "bad-op")
  -- ---------------------------------------------------------------- C11
  | "zob.keys" :: ks =>
    match ks.mapM Driver.parseU64 with
    | some l =>
      if l.length = 837 then
        let a := l.toArray
        let good := keysGood a
        ({ st with zkeys := a, zgood := good }, both "ok" (if good then "ok" else "keys-not-good"))
      else (st, modelOnly "bad-op")
    | none => (st, modelOnly "bad-op")
  | ["zob.hash", b] =>
    match parseBoard b with
    | some b =>
      let k := zkeysOf st.zkeys
      (st, both (toString (hash k b).toNat) (toString (Spec.hashSpec k b).toNat))
    | none => (st, modelOnly "bad-op")
  | ["zob.same", a, b] => zobPair st a b
  | ["zob.diff", a, b] => zobPair st a b
  -- ---------------------------------------------------------------- C12
  | "go.params" :: side :: rest =>
    let c := if side = "w" then Color.white else Color.black
    let g := goParams c (rest.map String.toList)
    let t := match g.timeLimit with | some ms => toString ms | none => "none"
    (st, both s!"{g.depth} {t}" "?")
  | "go.pair" :: side :: rest =>
    let c := if side = "w" then Color.white else Color.black
    let a := rest.takeWhile (· ≠ "|")
    let b := (rest.dropWhile (· ≠ "|")).drop 1
    let ga := goParams c (a.map String.toList)
    let gb := goParams c (b.map String.toList)
    let fit (g : GoParams) (toks : List String) : String :=
      match g.timeLimit with
      | some ms => fitsText ms (ownClock c (toks.drop 1)).1
      | none => "fits"
    let same := if ga.timeLimit = gb.timeLimit then "same" else "differ"
    (st, both s!"{same} {fit ga a} {fit gb b}" "same fits fits")
  | _ => (st, modelOnly "bad-op")

partial def loop (h : IO.FS.Stream) (out : IO.FS.Stream) (st : St) : IO Unit := do
  let line ← h.getLine
  if line.isEmpty then return ()
  let (st', o) := step st line
  out.putStrLn o
  loop h out st'

def main : IO Unit := do
  let stdin ← IO.getStdin
  let stdout ← IO.getStdout
  loop stdin stdout { mg := MoveGenerator.new }
  stdout.flush
