/-
  Line-protocol driver: one operation per input line, exactly one output line per operation:
      M:<answer of the MODEL>[\tS:<answer of the SPEC>]
  The harness (Rust, real engine in-process) produces the same operations and the implementation's
  answers; ./check diffs them (impl vs M = tie, impl vs S = the property itself).
-/
import Driver.Text
import Flounder.Spec.Map

open Flounder Driver

structure St where
  tt : TT := {}
  ttLog : List Entry := []

def both (m s : String) : String := s!"M:{m}\tS:{s}"
def modelOnly (m : String) : String := s!"M:{m}"

def step (st : St) (line : String) : St × String :=
  let toks := (line.trimAscii.toString.splitOn " ").filter (· ≠ "")
  match toks with
  | ["tt.new"] => ({ st with tt := {}, ttLog := [] }, both "ok" "ok")
  | ["tt.store", k, ev, mv, d, b] =>
    match parseU64 k, ev.toInt?, parseOptMv mv, d.toNat?, parseBounds b with
    | some k, some ev, some mv, some d, some b =>
      ({ st with tt := st.tt.store k ev mv d b,
                 ttLog := Spec.mkEntry k ev mv d b :: st.ttLog }, both "ok" "ok")
    | _, _, _, _, _ => (st, modelOnly "bad-op")
  | ["tt.get", k] =>
    match parseU64 k with
    | some k => (st, both (entryText (st.tt.retrieve k)) (entryText (Spec.logGet st.ttLog k)))
    | none => (st, modelOnly "bad-op")
  | _ => (st, modelOnly "bad-op")

partial def loop (h : IO.FS.Stream) (out : IO.FS.Stream) (st : St) : IO Unit := do
  let line ← h.getLine
  if line.isEmpty then return ()
  let (st', o) := step st line
  out.putStrLn o
  loop h out st'

def main : IO Unit := do
  let stdin ← IO.getStdin
  let stdout ← IO.getStdout
  loop stdin stdout {}
  stdout.flush
