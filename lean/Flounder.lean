import Flounder.Model.Basic
