/-
  C10 in specification form: what the attack and line tables must contain, stated with the same
  geometric vocabulary as the rules (Spec/Chess.lean).  `LookupExact l` is the interface between the
  table proof (Props/C10) and the move-generation proof (Props/C01): the former establishes it for
  `LookupTable.init`, the latter assumes nothing else about the tables.
-/
import Flounder.Model.Lookup
import Flounder.Spec.Chess

namespace Flounder.Spec
open Flounder

/-- `t` is reached from `s` by a rook-like (`diag = false`) or bishop-like (`diag = true`) slider on a
    board whose occupied squares are `occ`: aligned, distinct, every square strictly between is free.
    The target square itself may be occupied ("up to and including the first blocker"). -/
def sliderReach (diag : Bool) (occ : UInt64) (s t : Nat) : Bool :=
  (if diag then diagonal s t else orthogonal s t) &&
    (strictlyBetween s t).all fun u => !hasSq occ u

def knightStep (s t : Nat) : Bool :=
  let dr := absDiff (rank s) (rank t); let df := absDiff (file s) (file t)
  (dr == 1 && df == 2) || (dr == 2 && df == 1)

def kingStep (s t : Nat) : Bool :=
  s != t && absDiff (rank s) (rank t) ≤ 1 && absDiff (file s) (file t) ≤ 1

def aligned (s t : Nat) : Bool := orthogonal s t || diagonal s t

/-- `u` lies on the closed segment from `s` to `t` (both ends included); `s`, `t` aligned and distinct. -/
def onSegment (s t u : Nat) : Bool :=
  aligned s t && (u == s || u == t || (strictlyBetween s t).contains u)

/-- `u` lies on the whole line (edge to edge) through the aligned, distinct squares `s` and `t`. -/
def onLine (s t u : Nat) : Bool :=
  aligned s t && (u == s || u == t ||
    (if orthogonal s t then
       (rank s == rank t && rank u == rank s) || (file s == file t && file u == file s)
     else
       -- same diagonal or same anti-diagonal as both s and t
       ((rank u + file s == rank s + file u) && (rank t + file s == rank s + file t)) ||
       ((rank u + file u == rank s + file s) && (rank t + file t == rank s + file s))))

/-- **the tables are exact** (C10, for every square, every occupancy, every pair). -/
structure LookupExact (l : LookupTable) : Prop where
  rook : ∀ (s t : Nat) (occ : UInt64), s < 64 → t < 64 →
    hasSq (l.slidingMoves s occ .rook) t = sliderReach false occ s t
  bishop : ∀ (s t : Nat) (occ : UInt64), s < 64 → t < 64 →
    hasSq (l.slidingMoves s occ .bishop) t = sliderReach true occ s t
  queen : ∀ (s t : Nat) (occ : UInt64), s < 64 → t < 64 →
    hasSq (l.slidingMoves s occ .queen) t = (sliderReach false occ s t || sliderReach true occ s t)
  knight : ∀ (s t : Nat), s < 64 → t < 64 → hasSq (l.nonSlidingMoves s .knight) t = knightStep s t
  king : ∀ (s t : Nat), s < 64 → t < 64 → hasSq (l.nonSlidingMoves s .king) t = kingStep s t
  segment : ∀ (s t u : Nat), s < 64 → t < 64 → u < 64 → hasSq (l.between s t true) u = onSegment s t u
  line : ∀ (s t u : Nat), s < 64 → t < 64 → u < 64 → hasSq (l.between s t false) u = onLine s t u

end Flounder.Spec
