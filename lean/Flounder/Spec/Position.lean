/-
  Spec-level notions about boards that several properties share: "same position" (everything but the
  two counters), the side-flipped board, the colour-mirrored board, the list of Zobrist features.
-/
import Flounder.Model.Zobrist

namespace Flounder.Spec
open Flounder

/-- two boards are the same *position*: placement, side, rights, ep square (counters excluded). -/
def samePosition (a b : Board) : Prop :=
  a.pawns = b.pawns ∧ a.knights = b.knights ∧ a.bishops = b.bishops ∧ a.rooks = b.rooks ∧
  a.queens = b.queens ∧ a.kings = b.kings ∧ a.white = b.white ∧ a.black = b.black ∧
  a.active = b.active ∧ a.castle = b.castle ∧ a.ep = b.ep

instance (a b : Board) : Decidable (samePosition a b) := by unfold samePosition; infer_instance

/-- only the side to move differs. -/
def flipSide (b : Board) : Board := { b with active := b.active.other }

/-- bitboard built from a list of squares. -/
def ofSquares (l : List Nat) : UInt64 := l.foldl setBit 0

/-- ranks reversed: square `s` goes to `s ^^^ 56`. -/
def mirrorBB (bb : UInt64) : UInt64 := ofSquares ((squaresOf bb).map (· ^^^ 56))

/-- the mirrored position: ranks reversed, colours exchanged, side exchanged, rights exchanged. -/
def mirror (b : Board) : Board :=
  { pawns := mirrorBB b.pawns, knights := mirrorBB b.knights, bishops := mirrorBB b.bishops,
    rooks := mirrorBB b.rooks, queens := mirrorBB b.queens, kings := mirrorBB b.kings,
    white := mirrorBB b.black, black := mirrorBB b.white, active := b.active.other,
    castle := ⟨b.castle.bk, b.castle.bq, b.castle.wk, b.castle.wq⟩,
    ep := b.ep.map (· ^^^ 56), halfmove := b.halfmove, fullmove := b.fullmove }

/-- a Zobrist feature of a position. -/
inductive Feature where
  | man (c : Color) (p : Piece) (s : Nat)
  | whiteToMove
  | right (c : Color) (side : Nat)
  | epSquare (s : Nat)
  deriving DecidableEq, Repr

def ZKeys.key (k : ZKeys) : Feature → UInt64
  | .man c p s => k.piece c p s
  | .whiteToMove => k.whiteToMove
  | .right c side => k.castle c side
  | .epSquare s => k.ep s

/-- the features present in a board (the men are listed square by square). -/
def features (b : Board) : List Feature :=
  (List.range 64).flatMap (fun s =>
    [Color.white, Color.black].flatMap fun c =>
      Piece.all.filterMap fun p => if hasSq (b.bb c p) s then some (Feature.man c p s) else none)
  ++ (if b.active = .white then [Feature.whiteToMove] else [])
  ++ (if b.castle.wk then [Feature.right .white 0] else [])
  ++ (if b.castle.wq then [Feature.right .white 1] else [])
  ++ (if b.castle.bk then [Feature.right .black 0] else [])
  ++ (if b.castle.bq then [Feature.right .black 1] else [])
  ++ (match b.ep with | some s => [Feature.epSquare s] | none => [])

/-- what a Zobrist hash is: the XOR of the keys of the features present. -/
def hashSpec (k : ZKeys) (b : Board) : UInt64 :=
  (features b).foldl (fun h f => h ^^^ ZKeys.key k f) 0

end Flounder.Spec
