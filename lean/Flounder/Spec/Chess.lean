/-
  The rules of chess on a mailbox board — the meaning of "legal move", "successor position", "check",
  "mate".  Short, declarative, independent of every bitboard trick of the engine; executable so that the
  driver can run it as the third party of the correspondence.  Moves are the engine's own 4-tuple
  (`src`, `dst`, `piece`, `kind`; `piece` of a promotion is the PROMOTED piece).
-/
import Flounder.Model.Basic

namespace Flounder.Spec
open Flounder

abbrev Man := Color × Piece

/-- a position: who stands where, who moves, which castling rights remain, the en-passant square. -/
structure Pos where
  board : Nat → Option Man
  turn : Color
  castle : Castle
  ep : Option Nat

def rank (s : Nat) : Nat := s / 8
def file (s : Nat) : Nat := s % 8
def sq (r f : Nat) : Nat := r * 8 + f
def absDiff (a b : Nat) : Nat := if a ≤ b then b - a else a - b

def squares : List Nat := List.range 64

/-- next square from `s` towards `t` along a rank, file or diagonal. -/
def stepToward (s t : Nat) : Nat :=
  let r := if rank t > rank s then rank s + 1 else if rank t < rank s then rank s - 1 else rank s
  let f := if file t > file s then file s + 1 else if file t < file s then file s - 1 else file s
  sq r f

/-- `s` and `t` are distinct and on a common rank or file. -/
def orthogonal (s t : Nat) : Bool := s != t && (rank s == rank t || file s == file t)
/-- `s` and `t` are distinct and on a common diagonal. -/
def diagonal (s t : Nat) : Bool := s != t && absDiff (rank s) (rank t) == absDiff (file s) (file t)

/-- squares strictly between two aligned squares (walk of at most 7 steps). -/
def strictlyBetween (s t : Nat) : List Nat :=
  let rec go : Nat → Nat → List Nat
    | 0, _ => []
    | n + 1, cur => let nxt := stepToward cur t; if nxt == t then [] else nxt :: go n nxt
  go 7 s

/-- every square strictly between `s` and `t` is empty. -/
def pathClear (bd : Nat → Option Man) (s t : Nat) : Bool :=
  (strictlyBetween s t).all fun u => (bd u).isNone

/-- does a man `(c, p)` standing on `s` attack square `t` (geometry + open lines; nothing about whose turn). -/
def manAttacks (bd : Nat → Option Man) (c : Color) (p : Piece) (s t : Nat) : Bool :=
  match p with
  | .pawn =>
    absDiff (file s) (file t) == 1 &&
      (match c with | .white => rank t == rank s + 1 | .black => rank t + 1 == rank s)
  | .knight =>
    let dr := absDiff (rank s) (rank t); let df := absDiff (file s) (file t)
    (dr == 1 && df == 2) || (dr == 2 && df == 1)
  | .king => s != t && absDiff (rank s) (rank t) ≤ 1 && absDiff (file s) (file t) ≤ 1
  | .bishop => diagonal s t && pathClear bd s t
  | .rook => orthogonal s t && pathClear bd s t
  | .queen => (diagonal s t || orthogonal s t) && pathClear bd s t

/-- some man of colour `c` attacks square `t`. -/
def attacked (bd : Nat → Option Man) (c : Color) (t : Nat) : Bool :=
  squares.any fun s => match bd s with
    | some (c', p) => c' == c && manAttacks bd c p s t
    | none => false

def kingSquares (bd : Nat → Option Man) (c : Color) : List Nat :=
  squares.filter fun s => bd s == some (c, .king)

/-- the side `c` is in check. -/
def inCheckOf (bd : Nat → Option Man) (c : Color) : Bool :=
  (kingSquares bd c).any fun k => attacked bd c.other k

def inCheck (p : Pos) : Bool := inCheckOf p.board p.turn

def kingHome : Color → Nat | .white => 4 | .black => 60
def rookHome : Color → Bool → Nat
  | .white, true => 7 | .white, false => 0 | .black, true => 63 | .black, false => 56
def hasRight (cs : Castle) : Color → Bool → Bool
  | .white, true => cs.wk | .white, false => cs.wq | .black, true => cs.bk | .black, false => cs.bq
def lastRank : Color → Nat | .white => 7 | .black => 0
def pawnHomeRank : Color → Nat | .white => 1 | .black => 6
/-- the square one step forward for a pawn of colour `c`. -/
def forward (c : Color) (s : Nat) : Nat := match c with | .white => s + 8 | .black => s - 8

/-- the placement after move `m` by the side to move. -/
def playBoard (p : Pos) (m : Move) : Nat → Option Man :=
  let c := p.turn
  let placed : Piece := m.piece   -- moving piece, or the promoted piece
  fun s =>
    if s = m.dst then some (c, placed)
    else if s = m.src then none
    else if m.kind = .enPassant ∧ s = (match c with | .white => m.dst - 8 | .black => m.dst + 8) then none
    else if m.kind = .castle ∧ s = rookHome c (file m.dst == 6) then none
    else if m.kind = .castle ∧ s = (if file m.dst == 6 then m.dst - 1 else m.dst + 1) then some (c, .rook)
    else p.board s

/-- a castling right survives a move unless the king's or that rook's home square is vacated or captured on. -/
def keepsRight (m : Move) (c : Color) (kingSide : Bool) : Bool :=
  m.src != kingHome c && m.src != rookHome c kingSide && m.dst != rookHome c kingSide

/-- **the successor position** prescribed by the rules. -/
def play (p : Pos) (m : Move) : Pos :=
  let c := p.turn
  let keep (col : Color) (ks : Bool) : Bool := hasRight p.castle col ks && keepsRight m col ks
  let movedPawn := p.board m.src == some (c, .pawn)
  { board := playBoard p m
    turn := c.other
    castle := ⟨keep .white true, keep .white false, keep .black true, keep .black false⟩
    ep := if movedPawn && absDiff m.src m.dst == 16 then some (forward c m.src) else none }

/-- geometry and occupancy conditions of a move, before king safety ("pseudo-legal"). -/
def pseudo (p : Pos) (m : Move) : Bool :=
  let c := p.turn
  let bd := p.board
  m.src < 64 && m.dst < 64 &&
  match bd m.src with
  | none => false
  | some (c', pc) =>
    c' == c &&
    match m.kind with
    | .quiet =>
      m.piece == pc && (bd m.dst).isNone &&
      (match pc with
       | .pawn =>
         rank m.dst != lastRank c &&
         (m.dst == forward c m.src ||
          (rank m.src == pawnHomeRank c && m.dst == forward c (forward c m.src) && (bd (forward c m.src)).isNone)) &&
         file m.src == file m.dst
       | _ => manAttacks bd c pc m.src m.dst)
    | .capture =>
      m.piece == pc && (match bd m.dst with | some (c2, _) => c2 == c.other | none => false) &&
      manAttacks bd c pc m.src m.dst && !(pc == .pawn && rank m.dst == lastRank c)
    | .enPassant =>
      m.piece == .pawn && pc == .pawn && p.ep == some m.dst && manAttacks bd c .pawn m.src m.dst
    | .promotion =>
      pc == .pawn && rank m.dst == lastRank c &&
      (m.piece == .knight || m.piece == .bishop || m.piece == .rook || m.piece == .queen) &&
      ((m.dst == forward c m.src && file m.src == file m.dst && (bd m.dst).isNone) ||
       (manAttacks bd c .pawn m.src m.dst && (match bd m.dst with | some (c2, _) => c2 == c.other | none => false)))
    | .castle =>
      m.piece == .king && pc == .king && m.src == kingHome c &&
      (m.dst == kingHome c + 2 || m.dst + 2 == kingHome c) &&
      (let ks := m.dst == kingHome c + 2
       hasRight p.castle c ks &&
       bd (rookHome c ks) == some (c, .rook) &&
       pathClear bd m.src (rookHome c ks) &&
       -- not in check, does not pass through or land on an attacked square
       !attacked bd c.other m.src &&
       !attacked bd c.other (if ks then m.src + 1 else m.src - 1) &&
       !attacked bd c.other m.dst)

/-- **legal**: pseudo-legal and the mover's king is not attacked afterwards. -/
def legal (p : Pos) (m : Move) : Bool :=
  pseudo p m && !inCheckOf (play p m).board p.turn

/-- candidate moves: every (src, dst, piece, kind) that could conceivably be a move. -/
def candidates (p : Pos) : List Move :=
  squares.flatMap fun s =>
    match p.board s with
    | some (c, pc) =>
      if c == p.turn then
        squares.flatMap fun t =>
          if pc == .pawn then
            [⟨s, t, .pawn, .quiet⟩, ⟨s, t, .pawn, .capture⟩, ⟨s, t, .pawn, .enPassant⟩] ++
            Piece.promotions.map fun q => ⟨s, t, q, .promotion⟩
          else if pc == .king then
            [⟨s, t, .king, .quiet⟩, ⟨s, t, .king, .capture⟩, ⟨s, t, .king, .castle⟩]
          else [⟨s, t, pc, .quiet⟩, ⟨s, t, pc, .capture⟩]
      else []
    | none => []

/-- **the legal moves** of a position (no duplicates by construction of `candidates`). -/
def legalMoves (p : Pos) : List Move := (candidates p).filter (legal p)

def isMate (p : Pos) : Bool := inCheck p && (legalMoves p).isEmpty
def isStalemate (p : Pos) : Bool := !inCheck p && (legalMoves p).isEmpty

/-- something is taken by `m` (ordinary capture, en passant, or a promotion onto an occupied square). -/
def captures (p : Pos) (m : Move) : Bool := (p.board m.dst).isSome || m.kind == .enPassant
/-- the moves examined past the horizon when not in check: captures, promotions, checks. -/
def tactical (p : Pos) (m : Move) : Bool :=
  captures p m || m.kind == .promotion || inCheck (play p m)

/-- abstraction of an engine board: the man on a square is decided by the colour and piece bitboards. -/
def absBoard (b : Board) : Nat → Option Man := fun s =>
  match b.getColorAt s, b.getPieceAt s with
  | some c, some p => some (c, p)
  | _, _ => none

def abs (b : Board) : Pos :=
  { board := absBoard b, turn := b.active, castle := b.castle, ep := b.ep }

/-- internal consistency of the eight bitboards: every square is in at most one piece board and at most
    one colour board, and in a piece board iff in a colour board. -/
def consistent (b : Board) : Bool :=
  squares.all fun s =>
    let np := (Piece.all.filter fun p => hasSq (b.bbPiece p) s).length
    let nc := ([Color.white, Color.black].filter fun c => hasSq (b.bbColor c) s).length
    np ≤ 1 && nc ≤ 1 && np == nc

/-- **the quantifier "valid position"** of the properties (DESIGN.md 4.1). -/
def valid (b : Board) : Bool :=
  let p := abs b
  consistent b &&
  (kingSquares p.board .white).length == 1 && (kingSquares p.board .black).length == 1 &&
  (squares.all fun s => !((rank s == 0 || rank s == 7) && (match p.board s with | some (_, .pawn) => true | _ => false))) &&
  !inCheckOf p.board p.turn.other &&
  ([Color.white, Color.black].all fun c => [true, false].all fun ks =>
    !hasRight p.castle c ks || (p.board (kingHome c) == some (c, .king) && p.board (rookHome c ks) == some (c, .rook))) &&
  (match p.ep with
   | none => true
   | some e =>
     e < 64 && rank e == (match p.turn with | .white => 5 | .black => 2) && (p.board e).isNone &&
     p.board (match p.turn with | .white => e - 8 | .black => e + 8) == some (p.turn.other, .pawn) &&
     (p.board (match p.turn with | .white => e + 8 | .black => e - 8)).isNone)

end Flounder.Spec
