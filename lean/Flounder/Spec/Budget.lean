/-
  Budgeted evaluation of the reference values `Spec.Q` / `Spec.V` (Spec/Minimax.lean), for the compiled driver.

  The reference tree of a position is finite (Lemmas/QSpec.lean) but it is an UNPRUNED minimax tree and can be
  astronomically large.  `Qb` / `Vb` are the same recursions with a node budget threaded through: every node
  costs one unit, and when the budget is exhausted the answer is `none` ("not computed"), never a value.
  `Lemmas/QBudget.lean` proves that whenever they return a value it IS the reference value
  (`Qb_sound`, `Vb_sound`), so the oracle the correspondence runs is the function the theorems speak about.
-/
import Flounder.Spec.Minimax
import Flounder.Spec.MinimaxDraw

namespace Flounder.Spec
open Flounder Gen

variable {P : Type} (G : Game P)

/-- `Q` with a node budget: (value if computed within the budget, budget left). -/
def Qb : Nat → P → Nat → Option Int × Nat
  | 0, _, b => (none, b)
  | fuel + 1, p, b =>
    if b = 0 then (none, 0)
    else
      let b := b - 1
      let inCheck := G.inCheck p
      let moves := if inCheck then G.moves p else G.qmoves p
      if moves.isEmpty && inCheck then (some (-CHECKMATE_SCORE), b)
      else
        moves.foldl (fun (acc : Option Int × Nat) m =>
          match acc with
          | (none, b) => (none, b)
          | (some a, b) =>
            if qRelevant G p (G.play p m) then
              match Qb fuel (G.play p m) b with
              | (some v, b') => (some (max a (-v)), b')
              | (none, b') => (none, b')
            else if fuel == 0 then (none, b) else (some a, b)) (some (G.eval p), b)

/-- `V` with a node budget (shared by the whole tree, leaves included). -/
def Vb (qfuel : Nat) : Nat → P → Nat → Option Int × Nat
  | 0, p, b => Qb G qfuel p b
  | d + 1, p, b =>
    match G.moves p with
    | [] => (if G.inCheck p then some (-CHECKMATE_SCORE + ((d + 1 : Nat) : Int)) else some 0, b)
    | m :: ms =>
      match Vb qfuel d (G.play p m) b with
      | (none, b) => (none, b)
      | (some v0, b) =>
        ms.foldl (fun (acc : Option Int × Nat) mv =>
          match acc with
          | (none, b) => (none, b)
          | (some a, b) =>
            match Vb qfuel d (G.play p mv) b with
            | (some v, b') => (some (max a (-v)), b')
            | (none, b') => (none, b')) (some (-v0), b)

/-- `Vd` (minimax with a fixed draw predicate, Spec/MinimaxDraw.lean) with a node budget. -/
def Vdb (drawn : P → Bool) (qfuel : Nat) : Nat → Bool → P → Nat → Option Int × Nat
  | 0, root, p, b => if !root && drawn p then (some 0, b) else Qb G qfuel p b
  | d + 1, root, p, b =>
    if !root && drawn p then (some 0, b)
    else
      match G.moves p with
      | [] => (if G.inCheck p then some (-CHECKMATE_SCORE + ((d + 1 : Nat) : Int)) else some 0, b)
      | m :: ms =>
        match Vdb drawn qfuel d false (G.play p m) b with
        | (none, b) => (none, b)
        | (some v0, b) =>
          ms.foldl (fun (acc : Option Int × Nat) mv =>
            match acc with
            | (none, b) => (none, b)
            | (some a, b) =>
              match Vdb drawn qfuel d false (G.play p mv) b with
              | (some v, b') => (some (max a (-v)), b')
              | (none, b') => (none, b')) (some (-v0), b)

end Flounder.Spec
