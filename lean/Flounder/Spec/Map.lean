/-
  Specification of the transposition table: the simplest possible thing, a function from keys to
  optional records, with "deepest wins, ties replace".
-/
import Flounder.Model.Transposition

namespace Flounder.Spec

/-- abstract table. -/
abbrev MapSpec := UInt64 → Option Entry

def MapSpec.empty : MapSpec := fun _ => none

/-- a store is accepted iff there is nothing for the key or what is there is not deeper. -/
def accepts (f : MapSpec) (k : UInt64) (depth : Nat) : Bool :=
  match f k with
  | none => true
  | some prev => decide (prev.depth ≤ depth)

def storeSpec (f : MapSpec) (k : UInt64) (e : Entry) : MapSpec :=
  if accepts f k e.depth then fun k' => if k' = k then some e else f k' else f

/-- The same spec as *data* (what the driver executes): the log of all stores so far, newest first;
    the visible record for `k` is decided by walking the log.  `Props/C15.lean: storeSpec_log`
    proves it equal to `storeSpec` folded over the log. -/
def logGet : List Entry → UInt64 → Option Entry
  | [], _ => none
  | e :: rest, k =>
    if e.hashKey = k then
      match logGet rest k with
      | none => some e
      | some prev => if prev.depth ≤ e.depth then some e else some prev
    else logGet rest k

/-- operations of the table's API. -/
inductive Op where
  | store (key : UInt64) (eval : Int) (mv : Option Move) (depth : Nat) (bounds : Bounds)
  | retrieve (key : UInt64)

def mkEntry (key : UInt64) (eval : Int) (mv : Option Move) (depth : Nat) (bounds : Bounds) : Entry :=
  { hashKey := key, eval, bestMove := mv, depth, bounds }

/-- run the spec: state and the list of answers to the `retrieve`s (oldest first). -/
def runSpec : MapSpec → List Op → MapSpec × List (Option Entry)
  | f, [] => (f, [])
  | f, .store k ev mv d b :: ops => runSpec (storeSpec f k (mkEntry k ev mv d b)) ops
  | f, .retrieve k :: ops =>
    let (f', outs) := runSpec f ops
    (f', f k :: outs)

/-- run the model (the code) on the same operations. -/
def runModel : TT → List Op → TT × List (Option Entry)
  | t, [] => (t, [])
  | t, .store k ev mv d b :: ops => runModel (t.store k ev mv d b) ops
  | t, .retrieve k :: ops =>
    let (t', outs) := runModel t ops
    (t', t.retrieve k :: outs)

end Flounder.Spec
