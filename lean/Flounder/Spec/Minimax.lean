/-
  Reference semantics of the search: plain minimax (negamax form) with no pruning, no ordering, no
  table.  `Q` is the quiescence value the engine's leaves are scored with (stand-pat, then every move of
  the quiescence selection that can change the value; fail-hard clamping is NOT part of it), `Qplain` the
  same without the restriction (every move; usually an infinite tree), `V d` the depth-limited value.
-/
import Flounder.Model.Search

namespace Flounder.Spec
open Flounder Gen

variable {P : Type} (G : Game P)

/-- PLAIN quiescence minimax with fuel (`none` = the tree is deeper than the fuel): stand-pat, then EVERY
    move of the quiescence selection.  On a real chess position this tree is almost always infinite
    (perpetual checks), so `Qplain` is `none` for every fuel there; it is kept as the yardstick the
    reference value `Q` below is compared with (`Lemmas/QSpec.lean`: `Qplain_agrees`). -/
def Qplain : Nat → P → Option Int
  | 0, _ => none
  | fuel + 1, p =>
    let inCheck := G.inCheck p
    let moves := if inCheck then G.moves p else G.qmoves p
    if moves.isEmpty && inCheck then some (-CHECKMATE_SCORE)
    else
      moves.foldl (fun acc m =>
        match acc, Qplain fuel (G.play p m) with
        | some a, some v => some (max a (-v))
        | _, _ => none) (some (G.eval p))

/-- the plain quiescence tree of `p` is finite (some fuel suffices). -/
def QplainFinite (p : P) : Prop := ∃ n, (Qplain G n p).isSome

/-- the side to move at `p` is checkmated as far as quiescence can see (the test at the top of
    `search_until_quiet`). -/
def qMated (p : P) : Bool := (if G.inCheck p then G.moves p else G.qmoves p).isEmpty && G.inCheck p

/-- the child `c` reached by a move from `p` can change the value of `p`: it is a mate, or the move strictly
    improves the mover's static score (otherwise `-Q c ≤ -eval c ≤ eval p`, the stand-pat value of `p`). -/
def qRelevant (p c : P) : Bool := qMated G c || decide (G.eval p < -(G.eval c))

/-- the reference quiescence value: stand-pat minimax that only descends into the children that can
    matter (`qRelevant`); `none` = the tree is deeper than the fuel.  A child that cannot matter is not
    evaluated, but it is still a node of the tree (a leaf: the engine visits it and returns at once), so it
    needs one unit of fuel like every other leaf — this keeps "`Q n p` is defined ⇒ `quiesce` answers with
    fuel `n`" exact.  Wherever the plain tree is finite this IS the plain value (`Qplain_agrees`); it solves
    the plain stand-pat minimax equations wherever it is defined (`Q_ge_standpat`, `Q_ge_child`,
    `Q_attained`), and it is defined on every position of a game with a quiescence rank (`Q_total`). -/
def Q : Nat → P → Option Int
  | 0, _ => none
  | fuel + 1, p =>
    let inCheck := G.inCheck p
    let moves := if inCheck then G.moves p else G.qmoves p
    if moves.isEmpty && inCheck then some (-CHECKMATE_SCORE)
    else
      moves.foldl (fun acc m =>
        if qRelevant G p (G.play p m) then
          match acc, Q fuel (G.play p m) with
          | some a, some v => some (max a (-v))
          | _, _ => none
        else if fuel == 0 then none else acc) (some (G.eval p))

/-- the (relevant) quiescence tree of `p` is finite (some fuel suffices). -/
def QFinite (p : P) : Prop := ∃ n, (Q G n p).isSome

/-- depth-limited minimax over `Q` with the engine's terminal scores. -/
def V (qfuel : Nat) : Nat → P → Option Int
  | 0, p => Q G qfuel p
  | d + 1, p =>
    match G.moves p with
    | [] => if G.inCheck p then some (-CHECKMATE_SCORE + ((d + 1 : Nat) : Int)) else some 0
    | m :: ms =>
      ms.foldl (fun acc mv =>
        match acc, V qfuel d (G.play p mv) with
        | some a, some v => some (max a (-v))
        | _, _ => none) ((V qfuel d (G.play p m)).map (fun v => -v))

/-- scores beyond the window are compared as won / lost. -/
def clampClass (v : Int) : Int :=
  if v ≥ INFINITY then INFINITY else if v ≤ NEGATIVE_INFINITY then NEGATIVE_INFINITY else v

end Flounder.Spec
