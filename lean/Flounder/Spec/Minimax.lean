/-
  Reference semantics of the search: plain minimax (negamax form) with no pruning, no ordering, no
  table.  `Q` is the quiescence value the engine's leaves are scored with (stand-pat, then every move of
  the quiescence selection, fail-hard clamping is NOT part of it), `V d` the depth-limited value.
-/
import Flounder.Model.Search

namespace Flounder.Spec
open Flounder Gen

variable {P : Type} (G : Game P)

/-- quiescence minimax with fuel (`none` = the tree is deeper than the fuel). -/
def Q : Nat → P → Option Int
  | 0, _ => none
  | fuel + 1, p =>
    let inCheck := G.inCheck p
    let moves := if inCheck then G.moves p else G.qmoves p
    if moves.isEmpty && inCheck then some (-CHECKMATE_SCORE)
    else
      moves.foldl (fun acc m =>
        match acc, Q fuel (G.play p m) with
        | some a, some v => some (max a (-v))
        | _, _ => none) (some (G.eval p))

/-- the quiescence tree of `p` is finite (some fuel suffices). -/
def QFinite (p : P) : Prop := ∃ n, (Q G n p).isSome

/-- depth-limited minimax over `Q` with the engine's terminal scores. -/
def V (qfuel : Nat) : Nat → P → Option Int
  | 0, p => Q G qfuel p
  | d + 1, p =>
    match G.moves p with
    | [] => if G.inCheck p then some (-CHECKMATE_SCORE + ((d + 1 : Nat) : Int)) else some 0
    | m :: ms =>
      ms.foldl (fun acc mv =>
        match acc, V qfuel d (G.play p mv) with
        | some a, some v => some (max a (-v))
        | _, _ => none) ((V qfuel d (G.play p m)).map (fun v => -v))

/-- scores beyond the window are compared as won / lost. -/
def clampClass (v : Int) : Int :=
  if v ≥ INFINITY then INFINITY else if v ≤ NEGATIVE_INFINITY then NEGATIVE_INFINITY else v

end Flounder.Spec
