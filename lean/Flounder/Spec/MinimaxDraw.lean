/-
  Reference semantics of a search WITH a game history: depth-limited minimax in which every position that
  counts as a repetition (a fixed predicate `drawn`, in the engine: "the hash stands at least twice on the
  repetition stack", the stack being the recorded game history plus the root) is a leaf of value 0 when it is
  met BELOW the root.  The test comes before everything else (also at the horizon, also before the terminal
  test), exactly where `negamax` has it; quiescence (`Spec.Q`) knows no repetitions, as in the engine.
-/
import Flounder.Spec.Minimax

namespace Flounder.Spec
open Flounder Gen

variable {P : Type} (G : Game P)

/-- depth-limited minimax with a fixed draw predicate: a `drawn` position met BELOW the root is worth 0
    (checked before anything else, also at the horizon); otherwise as `Spec.V`.  `root = true` only for the
    position searched. -/
def Vd (drawn : P → Bool) (qfuel : Nat) : Nat → Bool → P → Option Int
  | 0, root, p => if !root && drawn p then some 0 else Q G qfuel p
  | d + 1, root, p =>
    if !root && drawn p then some 0
    else
      match G.moves p with
      | [] => if G.inCheck p then some (-CHECKMATE_SCORE + ((d + 1 : Nat) : Int)) else some 0
      | m :: ms =>
        ms.foldl (fun acc mv =>
          match acc, Vd drawn qfuel d false (G.play p mv) with
          | some a, some v => some (max a (-v))
          | _, _ => none) ((Vd drawn qfuel d false (G.play p m)).map (fun v => -v))

/-- the definition in one piece: the draw test first, then the depth. -/
theorem Vd_eq (drawn : P → Bool) (qfuel : Nat) (d : Nat) (root : Bool) (p : P) :
    Vd G drawn qfuel d root p =
      if !root && drawn p then some 0
      else match d with
        | 0 => Q G qfuel p
        | d + 1 =>
          match G.moves p with
          | [] => if G.inCheck p then some (-CHECKMATE_SCORE + ((d + 1 : Nat) : Int)) else some 0
          | m :: ms =>
            ms.foldl (fun acc mv =>
              match acc, Vd G drawn qfuel d false (G.play p mv) with
              | some a, some v => some (max a (-v))
              | _, _ => none) ((Vd G drawn qfuel d false (G.play p m)).map (fun v => -v)) := by
  cases d <;> rw [Vd]

/-- the draw predicate of a repetition stack `R` (most recent first; in `negamax`: `s.rep`, constant during
    a search): the hash of the position occurs at least twice. -/
def drawnOn (R : List UInt64) (q : P) : Bool := decide (2 ≤ R.count (G.hash q))

/-- sanity: without draws this is `Spec.V`, at the root and below. -/
theorem Vd_no_draw (qf : Nat) : ∀ (d : Nat) (r : Bool) (p : P), Vd G (fun _ => false) qf d r p = V G qf d p := by
  intro d
  induction d with
  | zero => intro r p; simp [Vd, V]
  | succ d ih =>
    intro r p
    rw [Vd, V]
    simp only [Bool.and_false, Bool.false_eq_true, ↓reduceIte]
    cases G.moves p with
    | nil => rfl
    | cons m ms =>
      simp only [ih]
      rfl

end Flounder.Spec
