/-
  Search with a game history, part 1: order-free reading of the reference value `Spec.Vd`
  (Spec/MinimaxDraw.lean) — the head test, unfolding at a node where the test does not fire, children,
  fuel monotonicity — and the link between a repetition stack and its draw predicate `Spec.drawnOn`.
-/
import Flounder.Spec.MinimaxDraw
import Flounder.Lemmas.SearchSpec

namespace Flounder.Search
open Flounder Gen

/-- a fold of `foldStep` started at the negated value of a first move: every move of `m :: ms` has a value,
    each negated value is a lower bound, one attains the result. -/
theorem foldl_first_some (g : Move → Option Int) (m : Move) (ms : List Move) (v : Int)
    (h : ms.foldl (foldStep g) ((g m).map (fun v => -v)) = some v) :
    (∀ m' ∈ m :: ms, ∃ x, g m' = some x) ∧
    (∀ m' ∈ m :: ms, ∀ x, g m' = some x → -x ≤ v) ∧
    (∃ m' ∈ m :: ms, ∃ x, g m' = some x ∧ -x = v) := by
  cases h0 : g m with
  | none => rw [h0] at h; simp only [Option.map_none] at h; rw [foldl_none] at h; cases h
  | some x0 =>
    rw [h0] at h
    simp only [Option.map_some] at h
    obtain ⟨h1, h2, h3, h4⟩ := foldl_some _ _ _ _ h
    refine ⟨?_, ?_, ?_⟩
    · intro m' hm'
      rcases List.mem_cons.1 hm' with e | e
      · subst e; exact ⟨x0, h0⟩
      · exact h1 _ e
    · intro m' hm' y hy
      rcases List.mem_cons.1 hm' with e | e
      · subst e; rw [h0] at hy; cases hy; exact h2
      · exact h3 _ e _ hy
    · rcases h4 with e | ⟨m', hm', y, hy, e⟩
      · exact ⟨m, List.mem_cons_self, x0, h0, e.symm⟩
      · exact ⟨m', List.mem_cons_of_mem _ hm', y, hy, e⟩

/-- converse: the fold has a value as soon as every move has one. -/
theorem foldl_first_isSome (g : Move → Option Int) (m : Move) (ms : List Move)
    (h : ∀ m' ∈ m :: ms, ∃ x, g m' = some x) :
    ∃ v, ms.foldl (foldStep g) ((g m).map (fun v => -v)) = some v := by
  obtain ⟨x0, hx0⟩ := h m List.mem_cons_self
  rw [hx0]
  simp only [Option.map_some]
  exact foldl_isSome _ _ _ (fun m' hm' => h m' (List.mem_cons_of_mem _ hm'))

/-- a fold over children that are all worth 0 is 0. -/
theorem foldl_all_zero (g : Move → Option Int) (ms : List Move) (h : ∀ m ∈ ms, g m = some 0) :
    ms.foldl (foldStep g) (some 0) = some 0 := by
  induction ms with
  | nil => rfl
  | cons m ms ih =>
    have : foldStep g (some 0) m = some 0 := by simp [foldStep, h m List.mem_cons_self]
    rw [List.foldl_cons, this]
    exact ih (fun m' hm' => h m' (List.mem_cons_of_mem _ hm'))

section drawspec
variable {P : Type} (G : Game P) (drawn : P → Bool)

/-! ### equations -/

theorem Vd_zero (qf : Nat) (root : Bool) (p : P) :
    Spec.Vd G drawn qf 0 root p = if (!root && drawn p) = true then some 0 else Spec.Q G qf p := by
  rw [Spec.Vd]

theorem Vd_succ (qf d : Nat) (root : Bool) (p : P) :
    Spec.Vd G drawn qf (d + 1) root p =
      if (!root && drawn p) = true then some 0
      else
        match G.moves p with
        | [] => if G.inCheck p then some (-CHECKMATE_SCORE + ((d + 1 : Nat) : Int)) else some 0
        | m :: ms =>
          ms.foldl (foldStep (fun mv => Spec.Vd G drawn qf d false (G.play p mv)))
            ((Spec.Vd G drawn qf d false (G.play p m)).map (fun v => -v)) := by
  rw [Spec.Vd]; rfl

/-- **a repetition below the root is worth 0**, at every depth. -/
theorem Vd_drawn (qf d : Nat) (p : P) (h : drawn p = true) : Spec.Vd G drawn qf d false p = some 0 := by
  cases d with
  | zero => rw [Vd_zero, h]; rfl
  | succ d => rw [Vd_succ, h]; rfl

/-- where the test does not fire (the root, or a position that is no repetition) the value is the value of
    the position taken as a root. -/
theorem Vd_live (qf d : Nat) (root : Bool) (p : P) (h : (root || !drawn p) = true) :
    Spec.Vd G drawn qf d root p = Spec.Vd G drawn qf d true p := by
  cases root with
  | true => rfl
  | false =>
    have hd : drawn p = false := by simpa using h
    cases d with
    | zero => rw [Vd_zero, Vd_zero, hd]; rfl
    | succ d => rw [Vd_succ, Vd_succ, hd]; rfl

/-- the head of `negamax`, on the specification side. -/
theorem Vd_head (qf d ply : Nat) (p : P) :
    ((decide (ply > 0) && drawn p) = true → Spec.Vd G drawn qf d (decide (ply = 0)) p = some 0) ∧
    ((decide (ply > 0) && drawn p) = false →
      Spec.Vd G drawn qf d (decide (ply = 0)) p = Spec.Vd G drawn qf d true p) := by
  cases ply with
  | zero => exact ⟨fun h => by simp at h, fun _ => rfl⟩
  | succ n =>
    refine ⟨fun h => ?_, fun h => ?_⟩
    · have hd : drawn p = true := by simpa using h
      have : decide (n + 1 = 0) = false := by simp
      rw [this]; exact Vd_drawn G drawn qf d p hd
    · have hd : drawn p = false := by simpa using h
      exact Vd_live G drawn qf d _ p (by simp [hd])

theorem Vd_root_zero (qf : Nat) (p : P) : Spec.Vd G drawn qf 0 true p = Spec.Q G qf p := by
  rw [Vd_zero]; rfl

theorem Vd_root_succ_nil (qf d : Nat) (p : P) (h : G.moves p = []) :
    Spec.Vd G drawn qf (d + 1) true p =
      if G.inCheck p then some (-CHECKMATE_SCORE + ((d + 1 : Nat) : Int)) else some 0 := by
  rw [Vd_succ, h]; rfl

theorem Vd_root_succ_cons (qf d : Nat) (p : P) (m : Move) (ms : List Move) (h : G.moves p = m :: ms) :
    Spec.Vd G drawn qf (d + 1) true p =
      ms.foldl (foldStep (fun mv => Spec.Vd G drawn qf d false (G.play p mv)))
        ((Spec.Vd G drawn qf d false (G.play p m)).map (fun v => -v)) := by
  rw [Vd_succ, h]; rfl

/-- **depth 1, spelled out**: the value of a root with moves is the maximum over its moves of 0 where the
    successor is a repetition and minus the successor's quiescence value elsewhere. -/
theorem Vd_one_cons (qf : Nat) (p : P) (m : Move) (ms : List Move) (h : G.moves p = m :: ms) :
    Spec.Vd G drawn qf 1 true p =
      ms.foldl (foldStep (fun mv => if drawn (G.play p mv) = true then some 0 else Spec.Q G qf (G.play p mv)))
        ((if drawn (G.play p m) = true then some 0 else Spec.Q G qf (G.play p m)).map (fun v => -v)) := by
  have hf : (fun mv => Spec.Vd G drawn qf 0 false (G.play p mv)) =
      (fun mv => if drawn (G.play p mv) = true then some 0 else Spec.Q G qf (G.play p mv)) := by
    funext mv; rw [Vd_zero]; rfl
  rw [Vd_root_succ_cons G drawn qf 0 p m ms h, hf, Vd_zero]
  rfl

/-- a node with moves where the test does not fire: every child has a value (as a non-root), each is a
    lower bound, one attains `v`. -/
theorem Vd_children (qf d : Nat) (p : P) (v : Int) (hm : G.moves p ≠ [])
    (h : Spec.Vd G drawn qf (d + 1) true p = some v) :
    (∀ m ∈ G.moves p, ∃ x, Spec.Vd G drawn qf d false (G.play p m) = some x) ∧
    (∀ m ∈ G.moves p, ∀ x, Spec.Vd G drawn qf d false (G.play p m) = some x → -x ≤ v) ∧
    (∃ m ∈ G.moves p, ∃ x, Spec.Vd G drawn qf d false (G.play p m) = some x ∧ -x = v) := by
  cases hms : G.moves p with
  | nil => exact absurd hms hm
  | cons m ms =>
    rw [Vd_root_succ_cons G drawn qf d p m ms hms] at h
    exact foldl_first_some _ m ms v h

/-- converse of `Vd_children`. -/
theorem Vd_isSome (qf d : Nat) (p : P)
    (h : ∀ m ∈ G.moves p, ∃ x, Spec.Vd G drawn qf d false (G.play p m) = some x) :
    ∃ v, Spec.Vd G drawn qf (d + 1) true p = some v := by
  cases hms : G.moves p with
  | nil =>
    rw [Vd_root_succ_nil G drawn qf d p hms]
    split <;> exact ⟨_, rfl⟩
  | cons m ms =>
    rw [Vd_root_succ_cons G drawn qf d p m ms hms]
    exact foldl_first_isSome _ m ms (fun m' hm' => h m' (by rw [hms]; exact hm'))

/-- **every move repeats**: a node (depth ≥ 1) with moves all of whose successors are repetitions is
    worth 0 — no quiescence value is involved. -/
theorem Vd_all_children_drawn (qf d : Nat) (p : P) (hm : G.moves p ≠ [])
    (h : ∀ m ∈ G.moves p, drawn (G.play p m) = true) : Spec.Vd G drawn qf (d + 1) true p = some 0 := by
  cases hms : G.moves p with
  | nil => exact absurd hms hm
  | cons m ms =>
    have h0 : ∀ m' ∈ m :: ms, Spec.Vd G drawn qf d false (G.play p m') = some 0 :=
      fun m' hm' => Vd_drawn G drawn qf d _ (h m' (by rw [hms]; exact hm'))
    rw [Vd_root_succ_cons G drawn qf d p m ms hms, h0 m List.mem_cons_self]
    exact foldl_all_zero _ ms (fun m' hm' => h0 m' (List.mem_cons_of_mem _ hm'))

/-- a node with a move into a repetition is worth at least 0. -/
theorem Vd_nonneg_of_child_drawn (qf d : Nat) (p : P) (v : Int) (m : Move) (hm : m ∈ G.moves p)
    (hd : drawn (G.play p m) = true) (h : Spec.Vd G drawn qf (d + 1) true p = some v) : 0 ≤ v := by
  have hne : G.moves p ≠ [] := fun e => by rw [e] at hm; cases hm
  have := (Vd_children G drawn qf d p v hne h).2.1 m hm 0 (Vd_drawn G drawn qf d _ hd)
  omega

/-- more quiescence fuel never changes a value. -/
theorem Vd_mono (n m d : Nat) (root : Bool) (p : P) (v : Int) (h : Spec.Vd G drawn n d root p = some v)
    (hnm : n ≤ m) : Spec.Vd G drawn m d root p = some v := by
  induction d generalizing root p v with
  | zero =>
    rw [Vd_zero] at h ⊢
    split
    · rename_i hc; rw [if_pos hc] at h; exact h
    · rename_i hc; rw [if_neg hc] at h; exact Q_mono G n m p v h hnm
  | succ d ih =>
    rw [Vd_succ] at h ⊢
    split
    · rename_i hc; rw [if_pos hc] at h; exact h
    · rename_i hc
      rw [if_neg hc] at h
      cases hms : G.moves p with
      | nil => rw [hms] at h; exact h
      | cons m0 ms =>
        rw [hms] at h
        simp only at h ⊢
        obtain ⟨hall, _, _⟩ := foldl_first_some _ m0 ms v h
        rw [← h]
        obtain ⟨x0, hx0⟩ := hall m0 List.mem_cons_self
        rw [hx0, ih _ _ _ hx0]
        apply foldl_congr
        intro mv hmv
        obtain ⟨x, hx⟩ := hall mv (List.mem_cons_of_mem _ hmv)
        rw [hx]
        exact ih _ _ x hx

/-- the value only depends on the draw predicate through the positions reached. -/
theorem Vd_congr_drawn (drawn' : P → Bool) (hd : ∀ q, drawn q = drawn' q) (qf d : Nat) (root : Bool) (p : P) :
    Spec.Vd G drawn qf d root p = Spec.Vd G drawn' qf d root p := by
  have : drawn = drawn' := funext hd
  rw [this]

end drawspec

/-! ### the repetition stack and its draw predicate -/

section stack
variable {P : Type} (G : Game P)

theorem isRepetition_eq_count (s : SearchState) (h : UInt64) :
    s.isRepetition h = decide (2 ≤ s.rep.count h) := by
  unfold SearchState.isRepetition
  rw [List.count, List.countP_eq_length_filter]

/-- **`is_repetition` on a state carrying the stack `R` is the draw predicate of `R`.** -/
theorem isRepetition_drawnOn (R : List UInt64) (s : SearchState) (hs : s.rep = R) (q : P) :
    s.isRepetition (G.hash q) = Spec.drawnOn G R q := by
  rw [isRepetition_eq_count, hs]; rfl

/-- nothing is a repetition on a stack without a double entry — in particular on the empty stack and on
    the stack holding only the root. -/
theorem drawnOn_nil (q : P) : Spec.drawnOn G [] q = false := by
  simp [Spec.drawnOn]

theorem drawnOn_single (k : UInt64) (q : P) : Spec.drawnOn G [k] q = false := by
  unfold Spec.drawnOn
  simp only [decide_eq_false_iff_not]
  have := List.count_le_length (a := G.hash q) (l := [k])
  simp only [List.length_singleton] at this
  omega

/-- a position that stands twice in the history is a repetition on the searched stack (root pushed). -/
theorem drawnOn_push {R : List UInt64} {q : P} (k : UInt64) (h : 2 ≤ R.count (G.hash q)) :
    Spec.drawnOn G (k :: R) q = true := by
  unfold Spec.drawnOn
  simp only [decide_eq_true_eq]
  have := List.count_le_count_cons (a := G.hash q) (b := k) (l := R)
  omega

end stack

end Flounder.Search
