/-
  C05 helpers, part 7: out-of-fuel is impossible.  Whenever the reference value exists with fuel
  `qf ≤ qfuel`, `quiesce` / `negamax` return `some _` — for every table, window, stack and deadline
  (no `NoStop` assumption): the pruned search only visits a subtree of the reference tree, plus children
  that cannot matter, where it returns at the stand-pat test.
-/
import Flounder.Lemmas.SearchContract

namespace Flounder.Search
open Flounder Gen

section total
variable {P : Type} (G : Game P)

theorem quiesceLoop_some (rec : P → Int → Int → SearchState → Option Int × SearchState) (p : P) (β : Int) :
    ∀ (rest : List Move) (α : Int) (s : SearchState),
      (∀ m ∈ rest, ∀ a b s', ∃ r, (rec (G.play p m) a b s').1 = some r) →
      ∃ r, (quiesceLoop G rec p β rest α s).1 = some r := by
  intro rest
  induction rest with
  | nil => intro α s _; exact ⟨α, rfl⟩
  | cons mv rest ih =>
    intro α s h
    rw [quiesceLoop_cons]
    split
    · exact ⟨α, rfl⟩
    · obtain ⟨r, hr⟩ := h mv List.mem_cons_self (-β) (-α) (polled s)
      rcases hres : rec (G.play p mv) (-β) (-α) (polled s) with ⟨ro, s2⟩
      rw [hres] at hr
      simp only at hr
      subst hr
      simp only
      split
      · exact ⟨β, rfl⟩
      · exact ih _ _ (fun m hm => h m (List.mem_cons_of_mem _ hm))

/-- `quiesceLoop_some`, carrying the invariant `e ≤ α` (the accumulator only grows): the recursive call
    only has to answer for the windows `(-β, -a)` with `e ≤ a`. -/
theorem quiesceLoop_some_ge (rec : P → Int → Int → SearchState → Option Int × SearchState) (p : P)
    (β e : Int) :
    ∀ (rest : List Move) (α : Int) (s : SearchState), e ≤ α →
      (∀ m ∈ rest, ∀ a s', e ≤ a → ∃ r, (rec (G.play p m) (-β) (-a) s').1 = some r) →
      ∃ r, (quiesceLoop G rec p β rest α s).1 = some r := by
  intro rest
  induction rest with
  | nil => intro α s _ _; exact ⟨α, rfl⟩
  | cons mv rest ih =>
    intro α s hα h
    rw [quiesceLoop_cons]
    split
    · exact ⟨α, rfl⟩
    · obtain ⟨r, hr⟩ := h mv List.mem_cons_self α (polled s) hα
      rcases hres : rec (G.play p mv) (-β) (-α) (polled s) with ⟨ro, s2⟩
      rw [hres] at hr
      simp only at hr
      subst hr
      simp only
      split
      · exact ⟨β, rfl⟩
      · exact ih _ _ (by omega) (fun m hm => h m (List.mem_cons_of_mem _ hm))

theorem quiesce_some (n : Nat) : ∀ (fuel : Nat) (p : P) (α β q : Int) (s : SearchState),
    Spec.Q G n p = some q → n ≤ fuel → ∃ r, (quiesce G fuel p α β s).1 = some r := by
  induction n with
  | zero => intro fuel p α β q s h; cases h
  | succ n ih =>
    intro fuel p α β q s hq hfuel
    obtain ⟨f, rfl⟩ : ∃ f, fuel = f + 1 := ⟨fuel - 1, by omega⟩
    have hperm := orderCaptures_perm G p (qList G p)
    rw [quiesce_succ, perm_isEmpty hperm]
    cases hm : ((qList G p).isEmpty && G.inCheck p)
    · simp only [Bool.false_eq_true, ↓reduceIte]
      obtain ⟨hz, hex, _, _, _⟩ := Q_children G n p q hm hq
      split
      · exact ⟨β, rfl⟩
      · apply quiesceLoop_some_ge G (quiesce G f) p β (G.eval p)
        · omega
        · intro m hm' a s' ha
          have hmem := hperm.mem_iff.1 hm'
          cases hrel : qRel G p m
          · -- a child that cannot matter returns at its stand-pat test
            have hn0 := hz m hmem hrel
            obtain ⟨f', rfl⟩ : ∃ f', f = f' + 1 := ⟨f - 1, by omega⟩
            obtain ⟨hnm, hle⟩ := qRel_false G hrel
            rw [quiesce_standpat G f' _ (-β) (-a) s' hnm (by omega)]
            exact ⟨_, rfl⟩
          · obtain ⟨x, hx⟩ := hex m hmem hrel
            exact ih f (G.play p m) (-β) (-a) x s' hx (by omega)
    · exact ⟨_, rfl⟩

theorem negamaxLoop_some (rec : P → Nat → Int → Int → SearchState → Option SearchResult × SearchState)
    (p : P) (depth ply : Nat) (β : Int) :
    ∀ (rest : List Move) (acc : LoopAcc) (s : SearchState),
      (∀ m ∈ rest, ∀ pl a b s', ∃ r, (rec (G.play p m) pl a b s').1 = some r) →
      ∃ r, (negamaxLoop G rec p depth ply β rest acc s).1 = some r := by
  intro rest
  induction rest with
  | nil => intro acc s _; exact ⟨acc, rfl⟩
  | cons mv rest ih =>
    intro acc s h
    rw [negamaxLoop_cons]
    split
    · exact ⟨acc, rfl⟩
    · obtain ⟨r, hr⟩ := h mv List.mem_cons_self (ply + 1) (-β) (-acc.alpha) (polled s)
      rcases hres : rec (G.play p mv) (ply + 1) (-β) (-acc.alpha) (polled s) with ⟨ro, s2⟩
      rw [hres] at hr
      simp only at hr
      subst hr
      simp only
      split
      · exact ⟨_, rfl⟩
      · exact ih _ _ (fun m hm => h m (List.mem_cons_of_mem _ hm))

theorem finishNode_fst (p : P) (d1 : Nat) (α β : Int) (acc : LoopAcc) (s : SearchState) :
    (finishNode G p d1 α β acc s).1 = some acc.best := by
  unfold finishNode; split <;> rfl

/-- **no fuel exhaustion**: `negamax` answers whenever the reference value exists. -/
theorem negamax_some (qf qfuel : Nat) (hq : qf ≤ qfuel) :
    ∀ (d : Nat) (p : P) (ply : Nat) (α β : Int) (s : SearchState) (v : Int),
      Spec.V G qf d p = some v → ∃ r, (negamax G qfuel d p ply α β s).1 = some r := by
  intro d
  induction d with
  | zero =>
    intro p ply α β s v hv
    rw [negamax_zero]
    split
    · exact ⟨_, rfl⟩
    · rcases hp : probeTT G s.incrementNodes p 0 α β with ⟨ro, mvv, s1⟩
      cases ro with
      | some r => exact ⟨r, rfl⟩
      | none =>
        simp only
        unfold leafResult
        obtain ⟨r, hr⟩ := quiesce_some G qf qfuel p α β v s1 hv hq
        rcases hqr : quiesce G qfuel p α β s1 with ⟨qo, s2⟩
        rw [hqr] at hr
        simp only at hr
        subst hr
        exact ⟨_, rfl⟩
  | succ d ih =>
    intro p ply α β s v hv
    rw [negamax_succ]
    split
    · exact ⟨_, rfl⟩
    · rcases hp : probeTT G s.incrementNodes p (d + 1) α β with ⟨ro, mvv, s1⟩
      cases ro with
      | some r => exact ⟨r, rfl⟩
      | none =>
        simp only
        cases hms : G.moves p with
        | nil =>
          rw [innerResult_nil G _ d p ply α β mvv s1 hms]
          split <;> exact ⟨_, rfl⟩
        | cons m0 tl =>
          have hne : G.moves p ≠ [] := by rw [hms]; simp
          obtain ⟨hex, _, _⟩ := V_children G qf d p v hne hv
          rw [innerResult_cons G _ d p ply α β mvv s1 m0 tl hms]
          have hperm := orderMoves_perm G s1 p (G.moves p) mvv ply
          obtain ⟨acc, hacc⟩ := negamaxLoop_some G (negamax G qfuel d) p (d + 1) ply β
            (orderMoves G s1 p (G.moves p) mvv ply)
            ⟨α, ⟨NEGATIVE_INFINITY, some ((orderMoves G s1 p (G.moves p) mvv ply).headD m0)⟩⟩ s1
            (fun m hm pl a b s' => by
              obtain ⟨x, hx⟩ := hex m (hperm.mem_iff.1 hm)
              exact ih (G.play p m) pl a b s' x hx)
          rcases hl : negamaxLoop G (negamax G qfuel d) p (d + 1) ply β
            (orderMoves G s1 p (G.moves p) mvv ply)
            ⟨α, ⟨NEGATIVE_INFINITY, some ((orderMoves G s1 p (G.moves p) mvv ply).headD m0)⟩⟩ s1 with ⟨ro, s2⟩
          rw [hl] at hacc
          simp only at hacc
          subst hacc
          simp only
          exact ⟨_, finishNode_fst G p (d + 1) α β acc s2⟩

end total
end Flounder.Search
