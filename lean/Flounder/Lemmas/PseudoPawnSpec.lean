/-
  C01 layer L3 (b), mailbox side: the pawn clauses of `pseudoGeom` (quiet, capture, en passant, promotion)
  rewritten as "exists source and target square with the step relation of the engine's shift direction".
  No bitboards here apart from the step relations `pushTo` / `capWest` / `capEast`.
-/
import Flounder.Lemmas.C01Interfaces
import Flounder.Lemmas.PseudoExtract

namespace Flounder.Spec
open Flounder

/-! ### `pseudoGeom` and `pseudo` -/

theorem pseudo_src {p : Pos} {m : Move} (h : pseudo p m = true) :
    m.src < 64 ∧ m.dst < 64 ∧ ∃ pc, p.board m.src = some (p.turn, pc) := by
  unfold pseudo at h
  simp only [Bool.and_eq_true, decide_eq_true_eq] at h
  obtain ⟨⟨hs, hd⟩, h⟩ := h
  split at h
  · cases h
  · rename_i c' pc' hsrc
    simp only [Bool.and_eq_true, beq_iff_eq] at h
    obtain ⟨h1, _⟩ := h
    subst h1
    exact ⟨hs, hd, pc', hsrc⟩

/-- away from castling the geometric part is all of `pseudo`. -/
theorem pseudoGeom_eq_pseudo (p : Pos) (m : Move) (hk : m.kind ≠ .castle) : pseudoGeom p m = pseudo p m := by
  cases hps : pseudo p m with
  | false =>
    obtain ⟨s, t, pc, k⟩ := m
    cases k <;> first | exact absurd rfl hk | skip
    all_goals
      simp only [pseudoGeom, hps]
      cases p.board s with
      | none => simp
      | some x => obtain ⟨c', q⟩ := x; simp
  | true =>
    obtain ⟨hs, hd, q, hq⟩ := pseudo_src hps
    obtain ⟨s, t, pc, k⟩ := m
    cases k <;> first | exact absurd rfl hk | skip
    all_goals
      simp only [pseudoGeom, hps]
      simp only [] at hs hd hq
      simp [hs, hd, hq]

/-! ### pawn arithmetic -/

/-- the rank a pawn promotes from. -/
def preLast : Color → Nat | .white => 6 | .black => 1
/-- the rank a pawn passes on its double step (`rank3` of `PawnDirection`). -/
def thirdRank : Color → Nat | .white => 2 | .black => 5

theorem pushTo_iff_forward {c : Color} {s t : Nat} (h0 : rank s ≠ 0) (h7 : rank s ≠ 7) (hs : s < 64) :
    pushTo c s t ↔ t < 64 ∧ t = forward c s := by
  unfold rank at h0 h7
  cases c <;> simp only [pushTo, forward] <;> omega

theorem pushTo_file {c : Color} {s t : Nat} (h : pushTo c s t) : file s = file t := by
  unfold file
  cases c <;> simp only [pushTo] at h <;> omega

theorem pushTo_lastRank {c : Color} {s t : Nat} (h : pushTo c s t) :
    rank t = lastRank c ↔ rank s = preLast c := by
  unfold rank at *
  cases c <;> simp only [pushTo] at h <;> simp only [lastRank, preLast] <;> omega

theorem pawnAttacks_iff {bd : Nat → Option Man} {c : Color} {s t : Nat} :
    manAttacks bd c .pawn s t = true ↔ capWest c s t ∨ capEast c s t := by
  unfold manAttacks
  simp only [Bool.and_eq_true, beq_iff_eq]
  unfold absDiff file rank
  cases c <;> simp only [capWest, capEast, beq_iff_eq] <;> split <;> omega

theorem capWest_lastRank {c : Color} {s t : Nat} (h : capWest c s t) :
    rank t = lastRank c ↔ rank s = preLast c := by
  unfold rank at *
  cases c <;> simp only [capWest] at h <;> simp only [lastRank, preLast] <;> omega

theorem capEast_lastRank {c : Color} {s t : Nat} (h : capEast c s t) :
    rank t = lastRank c ↔ rank s = preLast c := by
  unfold rank at *
  cases c <;> simp only [capEast] at h <;> simp only [lastRank, preLast] <;> omega

theorem push_ne_west {c : Color} {s t : Nat} (h1 : pushTo c s t) (h2 : capWest c s t) : False := by
  cases c <;> simp only [pushTo, capWest] at h1 h2 <;> omega
theorem push_ne_east {c : Color} {s t : Nat} (h1 : pushTo c s t) (h2 : capEast c s t) : False := by
  cases c <;> simp only [pushTo, capEast] at h1 h2 <;> omega
theorem west_ne_east {c : Color} {s t : Nat} (h1 : capWest c s t) (h2 : capEast c s t) : False := by
  cases c <;> simp only [capWest, capEast] at h1 h2 <;> omega

/-- a double step through `u`: the mailbox reading. -/
theorem double_iff {c : Color} {s u t : Nat} (hs : s < 64) :
    (u < 64 ∧ t < 64 ∧ pushTo c s u ∧ pushTo c u t ∧ rank u = thirdRank c) ↔
      (t < 64 ∧ rank s = pawnHomeRank c ∧ u = forward c s ∧ t = forward c (forward c s)) := by
  unfold rank at *
  cases c <;> simp only [pushTo, forward, thirdRank, pawnHomeRank] <;> omega

/-! ### the pawn move shapes (what each `extract_*` call of the four pawn generators yields) -/

section shapes
variable (bd : Nat → Option Man) (c : Color)

/-- a single push of a pawn not on the promotion rank. -/
def IsPush (m : Move) : Prop :=
  ∃ s t, s < 64 ∧ t < 64 ∧ bd s = some (c, .pawn) ∧ rank s ≠ preLast c ∧ bd t = none ∧ pushTo c s t ∧
    m = ⟨s, t, .pawn, .quiet⟩

/-- a double push through the empty square `u` on the third rank. -/
def IsDouble (m : Move) : Prop :=
  ∃ s u t, s < 64 ∧ u < 64 ∧ t < 64 ∧ bd s = some (c, .pawn) ∧ rank s ≠ preLast c ∧ bd u = none ∧ pushTo c s u ∧
    rank u = thirdRank c ∧ bd t = none ∧ pushTo c u t ∧ m = ⟨s, t, .pawn, .quiet⟩

/-- a pawn capture in direction `R` (`capWest c` / `capEast c`) not from the promotion rank. -/
def IsPawnCap (R : Nat → Nat → Prop) (m : Move) : Prop :=
  ∃ s t, s < 64 ∧ t < 64 ∧ bd s = some (c, .pawn) ∧ rank s ≠ preLast c ∧ (∃ q, bd t = some (c.other, q)) ∧ R s t ∧
    m = ⟨s, t, .pawn, .capture⟩

/-- an en-passant capture in direction `R` onto the en-passant square. -/
def IsEp (ep : Option Nat) (R : Nat → Nat → Prop) (m : Move) : Prop :=
  ∃ s t, s < 64 ∧ t < 64 ∧ bd s = some (c, .pawn) ∧ ep = some t ∧ R s t ∧ m = ⟨s, t, .pawn, .enPassant⟩

/-- a promotion by pushing. -/
def IsPromoPush (m : Move) : Prop :=
  ∃ s t, s < 64 ∧ t < 64 ∧ bd s = some (c, .pawn) ∧ rank s = preLast c ∧ bd t = none ∧ pushTo c s t ∧
    ∃ q, q ∈ Piece.promotions ∧ m = ⟨s, t, q, .promotion⟩

/-- a promotion by capturing in direction `R`. -/
def IsPromoCap (R : Nat → Nat → Prop) (m : Move) : Prop :=
  ∃ s t, s < 64 ∧ t < 64 ∧ bd s = some (c, .pawn) ∧ rank s = preLast c ∧ (∃ q, bd t = some (c.other, q)) ∧ R s t ∧
    ∃ q, q ∈ Piece.promotions ∧ m = ⟨s, t, q, .promotion⟩

end shapes

/-! ### `pseudo` for the four pawn kinds, as equivalences -/

theorem enemy_match_iff {bd : Nat → Option Man} {c : Color} {t : Nat} :
    (match bd t with | some (c2, _) => c2 == c.other | none => false) = true ↔ ∃ q, bd t = some (c.other, q) := by
  cases h : bd t with
  | none => simp
  | some x =>
    obtain ⟨c2, q⟩ := x
    simp only [beq_iff_eq, Option.some.injEq, Prod.mk.injEq]
    constructor
    · rintro rfl; exact ⟨q, rfl, rfl⟩
    · rintro ⟨_, h1, _⟩; exact h1

theorem pseudo_pawn_quiet_iff {p : Pos} {s t : Nat} {pc : Piece} (hbs : p.board s = some (p.turn, .pawn)) :
    pseudo p ⟨s, t, pc, .quiet⟩ = true ↔
      s < 64 ∧ t < 64 ∧ pc = .pawn ∧ p.board t = none ∧ rank t ≠ lastRank p.turn ∧ file s = file t ∧
      (t = forward p.turn s ∨
        (rank s = pawnHomeRank p.turn ∧ t = forward p.turn (forward p.turn s) ∧ p.board (forward p.turn s) = none)) := by
  constructor
  · intro h
    obtain ⟨h1, h2, h3, h4, h5⟩ := pseudo_quiet h
    have hp : pc = .pawn := by rw [hbs] at h3; cases h3; rfl
    obtain ⟨h6, h7, h8⟩ := h5 hp
    exact ⟨h1, h2, hp, h4, h6, h7, h8⟩
  · rintro ⟨h1, h2, rfl, h4, h5, h6, h7⟩
    unfold pseudo
    simp only [hbs, h1, h2, h4, h6, decide_true, Bool.true_and, beq_self_eq_true, Option.isNone_none,
      Bool.and_true, Bool.and_eq_true, bne_iff_ne, ne_eq, Bool.or_eq_true, beq_iff_eq,
      Option.isNone_iff_eq_none]
    refine ⟨h5, ?_⟩
    rcases h7 with h7 | ⟨h7, h8, h9⟩
    · exact Or.inl h7
    · exact Or.inr ⟨⟨h7, h8⟩, h9⟩

theorem pseudo_pawn_capture_iff {p : Pos} {s t : Nat} {pc : Piece} (hbs : p.board s = some (p.turn, .pawn)) :
    pseudo p ⟨s, t, pc, .capture⟩ = true ↔
      s < 64 ∧ t < 64 ∧ pc = .pawn ∧ (∃ q, p.board t = some (p.turn.other, q)) ∧
      manAttacks p.board p.turn .pawn s t = true ∧ rank t ≠ lastRank p.turn := by
  constructor
  · intro h
    obtain ⟨h1, h2, h3, h4, h5, h6⟩ := pseudo_capture h
    have hp : pc = .pawn := by rw [hbs] at h3; cases h3; rfl
    subst hp
    exact ⟨h1, h2, rfl, h4, h5, fun h => h6 ⟨rfl, h⟩⟩
  · rintro ⟨h1, h2, rfl, h4, h5, h6⟩
    unfold pseudo
    simp only [hbs, h1, h2, h5, decide_true, Bool.true_and, beq_self_eq_true, Bool.and_true,
      Bool.and_eq_true, Bool.not_eq_true', beq_eq_false_iff_ne, ne_eq]
    exact ⟨enemy_match_iff.2 h4, h6⟩

theorem pseudo_enPassant_iff {p : Pos} {s t : Nat} {pc : Piece} :
    pseudo p ⟨s, t, pc, .enPassant⟩ = true ↔
      s < 64 ∧ t < 64 ∧ pc = .pawn ∧ p.board s = some (p.turn, .pawn) ∧ p.ep = some t ∧
      manAttacks p.board p.turn .pawn s t = true := by
  constructor
  · exact pseudo_enPassant
  · rintro ⟨h1, h2, rfl, h4, h5, h6⟩
    unfold pseudo
    simp [h1, h2, h4, h5, h6]

theorem pseudo_promotion_iff {p : Pos} {s t : Nat} {pc : Piece} :
    pseudo p ⟨s, t, pc, .promotion⟩ = true ↔
      s < 64 ∧ t < 64 ∧ p.board s = some (p.turn, .pawn) ∧ rank t = lastRank p.turn ∧
      pc ∈ Piece.promotions ∧
      ((t = forward p.turn s ∧ file s = file t ∧ p.board t = none) ∨
       (manAttacks p.board p.turn .pawn s t = true ∧ ∃ q, p.board t = some (p.turn.other, q))) := by
  constructor
  · intro h
    obtain ⟨h1, h2, h3, h4, h5, h6⟩ := pseudo_promotion h
    refine ⟨h1, h2, h3, h4, ?_, h6⟩
    simp only [Piece.promotions, List.mem_cons, List.not_mem_nil, or_false]
    exact h5
  · rintro ⟨h1, h2, h3, h4, h5, h6⟩
    simp only [Piece.promotions, List.mem_cons, List.not_mem_nil, or_false] at h5
    unfold pseudo
    simp only [h1, h2, h3, h4, decide_true, Bool.true_and, beq_self_eq_true, Bool.and_eq_true,
      Bool.or_eq_true, beq_iff_eq, Option.isNone_iff_eq_none]
    refine ⟨?_, ?_⟩
    · rcases h5 with h | h | h | h
      · exact Or.inl (Or.inl (Or.inl h))
      · exact Or.inl (Or.inl (Or.inr h))
      · exact Or.inl (Or.inr h)
      · exact Or.inr h
    · rcases h6 with ⟨h6, h7, h8⟩ | ⟨h6, h7⟩
      · exact Or.inl ⟨⟨h6, h7⟩, h8⟩
      · exact Or.inr ⟨h6, enemy_match_iff.2 h7⟩

/-! ### the four pawn clauses of `pseudoGeom` in shape form -/

theorem home_ne_preLast (c : Color) {s : Nat} (h : rank s = pawnHomeRank c) : rank s ≠ preLast c := by
  cases c <;> simp only [pawnHomeRank, preLast] at * <;> omega

theorem double_not_last {c : Color} {s u t : Nat} (h1 : pushTo c s u) (h2 : pushTo c u t)
    (h3 : rank u = thirdRank c) : rank t ≠ lastRank c := by
  unfold rank at *
  cases c <;> simp only [pushTo, thirdRank, lastRank] at * <;> omega

/-- quiet pawn moves: single or double push. -/
theorem pseudoGeom_pawn_quiet {p : Pos} (V : ValidPos p) (m : Move) :
    (pseudoGeom p m = true ∧ m.kind = .quiet ∧ m.piece = .pawn) ↔
      (IsPush p.board p.turn m ∨ IsDouble p.board p.turn m) := by
  constructor
  · obtain ⟨s, t, pc, k⟩ := m
    rintro ⟨h, hk, hp⟩
    simp only [] at hk hp
    subst hk hp
    rw [pseudoGeom_eq_pseudo _ _ (by simp)] at h
    have hbs := (pseudo_quiet h).2.2.1
    obtain ⟨hs, ht, _, hbt, hr, hf, hstep⟩ := (pseudo_pawn_quiet_iff hbs).1 h
    obtain ⟨h0, h7⟩ := V.nopawn s _ hs hbs
    rcases hstep with hst | ⟨hhome, hst, hmid⟩
    · left
      have hp := (pushTo_iff_forward h0 h7 hs).2 ⟨ht, hst⟩
      exact ⟨s, t, hs, ht, hbs, fun h => hr ((pushTo_lastRank hp).2 h), hbt, hp, rfl⟩
    · right
      obtain ⟨hu, _, hp1, hp2, hr3⟩ := (double_iff (u := forward p.turn s) hs).2 ⟨ht, hhome, rfl, hst⟩
      exact ⟨s, forward p.turn s, t, hs, hu, ht, hbs, home_ne_preLast _ hhome, hmid, hp1, hr3, hbt, hp2, rfl⟩
  · rintro (⟨s, t, hs, ht, hbs, hr, hbt, hp, rfl⟩ | ⟨s, u, t, hs, hu, ht, hbs, hr, hbu, hp1, hr3, hbt, hp2, rfl⟩)
    · refine ⟨?_, rfl, rfl⟩
      rw [pseudoGeom_eq_pseudo _ _ (by simp)]
      obtain ⟨h0, h7⟩ := V.nopawn s _ hs hbs
      exact (pseudo_pawn_quiet_iff hbs).2 ⟨hs, ht, rfl, hbt, fun h => hr ((pushTo_lastRank hp).1 h), pushTo_file hp,
        Or.inl ((pushTo_iff_forward h0 h7 hs).1 hp).2⟩
    · refine ⟨?_, rfl, rfl⟩
      rw [pseudoGeom_eq_pseudo _ _ (by simp)]
      obtain ⟨_, hhome, hu', ht'⟩ := (double_iff hs).1 ⟨hu, ht, hp1, hp2, hr3⟩
      exact (pseudo_pawn_quiet_iff hbs).2 ⟨hs, ht, rfl, hbt, double_not_last hp1 hp2 hr3,
        (pushTo_file hp1).trans (pushTo_file hp2), Or.inr ⟨hhome, ht', by rw [← hu']; exact hbu⟩⟩

/-- pawn captures (not onto the last rank). -/
theorem pseudoGeom_pawn_capture {p : Pos} (m : Move) :
    (pseudoGeom p m = true ∧ m.kind = .capture ∧ m.piece = .pawn) ↔
      (IsPawnCap p.board p.turn (capWest p.turn) m ∨ IsPawnCap p.board p.turn (capEast p.turn) m) := by
  constructor
  · obtain ⟨s, t, pc, k⟩ := m
    rintro ⟨h, hk, hp⟩
    simp only [] at hk hp
    subst hk hp
    rw [pseudoGeom_eq_pseudo _ _ (by simp)] at h
    have hbs := (pseudo_capture h).2.2.1
    obtain ⟨hs, ht, _, hen, hatt, hr⟩ := (pseudo_pawn_capture_iff hbs).1 h
    rcases pawnAttacks_iff.1 hatt with hw | he
    · exact Or.inl ⟨s, t, hs, ht, hbs, fun h => hr ((capWest_lastRank hw).2 h), hen, hw, rfl⟩
    · exact Or.inr ⟨s, t, hs, ht, hbs, fun h => hr ((capEast_lastRank he).2 h), hen, he, rfl⟩
  · rintro (⟨s, t, hs, ht, hbs, hr, hen, hw, rfl⟩ | ⟨s, t, hs, ht, hbs, hr, hen, he, rfl⟩)
    · refine ⟨?_, rfl, rfl⟩
      rw [pseudoGeom_eq_pseudo _ _ (by simp)]
      exact (pseudo_pawn_capture_iff hbs).2 ⟨hs, ht, rfl, hen, pawnAttacks_iff.2 (Or.inl hw),
        fun h => hr ((capWest_lastRank hw).1 h)⟩
    · refine ⟨?_, rfl, rfl⟩
      rw [pseudoGeom_eq_pseudo _ _ (by simp)]
      exact (pseudo_pawn_capture_iff hbs).2 ⟨hs, ht, rfl, hen, pawnAttacks_iff.2 (Or.inr he),
        fun h => hr ((capEast_lastRank he).1 h)⟩

/-- en-passant captures. -/
theorem pseudoGeom_enPassant {p : Pos} (m : Move) :
    (pseudoGeom p m = true ∧ m.kind = .enPassant) ↔
      (IsEp p.board p.turn p.ep (capWest p.turn) m ∨ IsEp p.board p.turn p.ep (capEast p.turn) m) := by
  constructor
  · obtain ⟨s, t, pc, k⟩ := m
    rintro ⟨h, hk⟩
    simp only [] at hk
    subst hk
    rw [pseudoGeom_eq_pseudo _ _ (by simp)] at h
    obtain ⟨hs, ht, rfl, hbs, hep, hatt⟩ := pseudo_enPassant_iff.1 h
    rcases pawnAttacks_iff.1 hatt with hw | he
    · exact Or.inl ⟨s, t, hs, ht, hbs, hep, hw, rfl⟩
    · exact Or.inr ⟨s, t, hs, ht, hbs, hep, he, rfl⟩
  · rintro (⟨s, t, hs, ht, hbs, hep, hw, rfl⟩ | ⟨s, t, hs, ht, hbs, hep, he, rfl⟩)
    · refine ⟨?_, rfl⟩
      rw [pseudoGeom_eq_pseudo _ _ (by simp)]
      exact pseudo_enPassant_iff.2 ⟨hs, ht, rfl, hbs, hep, pawnAttacks_iff.2 (Or.inl hw)⟩
    · refine ⟨?_, rfl⟩
      rw [pseudoGeom_eq_pseudo _ _ (by simp)]
      exact pseudo_enPassant_iff.2 ⟨hs, ht, rfl, hbs, hep, pawnAttacks_iff.2 (Or.inr he)⟩

/-- promotions: by push, or by capture to either side. -/
theorem pseudoGeom_promotion {p : Pos} (V : ValidPos p) (m : Move) :
    (pseudoGeom p m = true ∧ m.kind = .promotion) ↔
      (IsPromoPush p.board p.turn m ∨ IsPromoCap p.board p.turn (capWest p.turn) m ∨
        IsPromoCap p.board p.turn (capEast p.turn) m) := by
  constructor
  · obtain ⟨s, t, pc, k⟩ := m
    rintro ⟨h, hk⟩
    simp only [] at hk
    subst hk
    rw [pseudoGeom_eq_pseudo _ _ (by simp)] at h
    obtain ⟨hs, ht, hbs, hr, hq, hstep⟩ := pseudo_promotion_iff.1 h
    obtain ⟨h0, h7⟩ := V.nopawn s _ hs hbs
    rcases hstep with ⟨hst, _, hbt⟩ | ⟨hatt, hen⟩
    · have hp := (pushTo_iff_forward h0 h7 hs).2 ⟨ht, hst⟩
      exact Or.inl ⟨s, t, hs, ht, hbs, (pushTo_lastRank hp).1 hr, hbt, hp, pc, hq, rfl⟩
    · rcases pawnAttacks_iff.1 hatt with hw | he
      · exact Or.inr (Or.inl ⟨s, t, hs, ht, hbs, (capWest_lastRank hw).1 hr, hen, hw, pc, hq, rfl⟩)
      · exact Or.inr (Or.inr ⟨s, t, hs, ht, hbs, (capEast_lastRank he).1 hr, hen, he, pc, hq, rfl⟩)
  · rintro (⟨s, t, hs, ht, hbs, hr, hbt, hp, q, hq, rfl⟩ | ⟨s, t, hs, ht, hbs, hr, hen, hw, q, hq, rfl⟩ |
      ⟨s, t, hs, ht, hbs, hr, hen, he, q, hq, rfl⟩)
    · refine ⟨?_, rfl⟩
      rw [pseudoGeom_eq_pseudo _ _ (by simp)]
      obtain ⟨h0, h7⟩ := V.nopawn s _ hs hbs
      exact pseudo_promotion_iff.2 ⟨hs, ht, hbs, (pushTo_lastRank hp).2 hr, hq,
        Or.inl ⟨((pushTo_iff_forward h0 h7 hs).1 hp).2, pushTo_file hp, hbt⟩⟩
    · refine ⟨?_, rfl⟩
      rw [pseudoGeom_eq_pseudo _ _ (by simp)]
      exact pseudo_promotion_iff.2 ⟨hs, ht, hbs, (capWest_lastRank hw).2 hr, hq,
        Or.inr ⟨pawnAttacks_iff.2 (Or.inl hw), hen⟩⟩
    · refine ⟨?_, rfl⟩
      rw [pseudoGeom_eq_pseudo _ _ (by simp)]
      exact pseudo_promotion_iff.2 ⟨hs, ht, hbs, (capEast_lastRank he).2 hr, hq,
        Or.inr ⟨pawnAttacks_iff.2 (Or.inr he), hen⟩⟩

end Flounder.Spec
