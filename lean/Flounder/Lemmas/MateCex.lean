/-
  C08 helpers, part 4: toy games.

  * `evGame` — why `mate_in_one_played_of` needs `EvalBound`: the root has a non-mating capture `evA`
    into a quiet position whose static evaluation is -40000 for the side to move there, and a mating
    capture `evB`.  The quiescence leaf of `evA` returns `max(-32767, -40000) = -32767` (fail-hard
    against the lower window end), the root sees `32767 ≥ beta` and cuts before `evB` is looked at.
  * totality of `iterate` / `findBestMove` (`findBestMove_some`), used by the non-vacuity examples.
  The table is a `Std.HashMap`, which the kernel cannot evaluate, so runs are replayed with the
  equation lemmas (as in SearchCex.lean).
-/
import Flounder.Lemmas.MatePlayed

namespace Flounder.Search
open Flounder Gen

section total
variable {P : Type} (G : Game P)

/-- `iterate` never reports out-of-fuel when the reference values of the searched depths exist. -/
theorem iterate_some (qf qfuel : Nat) (hq : qf ≤ qfuel) (p : P) (D : Nat)
    (hV : ∀ d, d ≤ D → ∃ v, Spec.V G qf d p = some v) :
    ∀ (n cur : Nat) (best : Int × Option Move) (s : SearchState),
      ∃ b, (iterate G qfuel p D n cur best s).1 = some b := by
  intro n
  induction n with
  | zero => intro cur best s; exact ⟨best, rfl⟩
  | succ n ih =>
    intro cur best s
    rw [iterate_succ]
    split
    · exact ⟨best, rfl⟩
    · rename_i hle
      split
      · exact ⟨best, rfl⟩
      · obtain ⟨v, hv⟩ := hV cur (by omega)
        obtain ⟨r, hr⟩ := negamax_some G qf qfuel hq cur p 0 NEGATIVE_INFINITY INFINITY
          (pushed G p (polled s)) v hv
        rw [searchPosition_eq]
        rcases hn : negamax G qfuel cur p 0 NEGATIVE_INFINITY INFINITY (pushed G p (polled s)) with ⟨ro, s2⟩
        rw [hn] at hr
        simp only at hr
        subst hr
        simp only
        split
        · exact ih _ _ _
        · exact ih _ _ _

theorem findBestMove_some (qf qfuel : Nat) (hq : qf ≤ qfuel) (p : P) (D : Nat)
    (hV : ∀ d, d ≤ D → ∃ v, Spec.V G qf d p = some v) (limit : Limit) (s : SearchState) :
    ∃ b, (findBestMove G qfuel p D limit s).1 = some b := by
  rw [findBestMove_eq]
  obtain ⟨b, hb⟩ := iterate_some G qf qfuel hq p D hV D 1 (NEGATIVE_INFINITY, none) (started limit s)
  rcases hit : iterate G qfuel p D D 1 (NEGATIVE_INFINITY, none) (started limit s) with ⟨ro, s2⟩
  rw [hit] at hb
  simp only at hb
  subst hb
  rcases b with ⟨sc, _ | m⟩
  · exact ⟨_, rfl⟩
  · exact ⟨_, rfl⟩

/-- a depth-1 `find_best_move` without a deadline hands back the root result of its only iteration. -/
theorem findBestMove_one_none (qfuel : Nat) (p : P) (s : SearchState) (r : SearchResult) (m : Move)
    (hr : (searchPosition G qfuel p 1 (polled (started .none s))).1 = some r)
    (hm : r.bestMove = some m) :
    (findBestMove G qfuel p 1 .none s).1 = some (r.score, some m) := by
  rw [findBestMove_eq, iterate_succ]
  have h0 : stopFlag (started .none s) = false := rfl
  rw [if_neg (by omega), h0]
  simp only [Bool.false_eq_true, ↓reduceIte]
  have hF := searchPosition_frame G qfuel p 1 (polled (started .none s))
  rcases hsp : searchPosition G qfuel p 1 (polled (started .none s)) with ⟨ro, s2⟩
  rw [hsp] at hr hF
  simp only at hr
  subst hr
  simp only
  have hl : s2.limit = .none := (hF.calm rfl rfl).1
  have hsf : stopFlag s2 = false := by simp [stopFlag, hl]
  rw [hsf]
  simp only [Bool.not_false, ↓reduceIte, iterate_zero, hm]

end total

/-! ### `EvalBound` cannot be dropped -/

def evA : Move := ⟨0, 1, .pawn, .capture⟩
def evB : Move := ⟨0, 2, .pawn, .capture⟩

/-- 0 --evA--> 1 (quiet, no moves, evaluation -40000);  0 --evB--> 2 (mated). -/
def evGame : Game Nat where
  moves := fun p => if p = 0 then [evA, evB] else []
  qmoves := fun _ => []
  play := fun _ m => if m = evA then 1 else 2
  inCheck := fun p => p = 2
  eval := fun p => if p = 1 then -40000 else 0
  hash := fun p => p.toUInt64
  pieceAt := fun _ _ => some .pawn

theorem ev_order (s : SearchState) : orderMoves evGame s 0 [evA, evB] none 0 = [evA, evB] := by
  unfold orderMoves
  apply List.mergeSort_of_pairwise
  simp only [List.pairwise_cons, List.mem_cons, List.mem_nil_iff, or_false, forall_eq,
    List.Pairwise.nil, and_true, decide_eq_true_eq]
  have : orderKey evGame s 0 none 0 evA = orderKey evGame s 0 none 0 evB := by
    simp [orderKey, captureScore, evGame, evA, evB]
  exact ⟨Int.le_of_eq this, fun _ h => h.elim⟩

theorem ev_leaf (s : SearchState) :
    leafResult evGame 1 1 (-INFINITY) (- NEGATIVE_INFINITY) s = (some ⟨-32767, none⟩, s.incrementNodes) := by
  unfold leafResult
  rw [quiesce_succ]
  have h1 : qList evGame 1 = [] := rfl
  rw [h1, orderCaptures_nil]
  have h3 : evGame.eval 1 = -40000 := rfl
  rw [h3, quiesceLoop_nil]
  have h4 : max (-INFINITY) (-40000 : Int) = -32767 := by decide
  have h5 : ¬ ((-40000 : Int) ≥ - NEGATIVE_INFINITY) := by decide
  simp [evGame, h4, h5]

/-- the root search of depth 1 on an empty table without a deadline answers the NON-mating `evA`. -/
theorem ev_run (s : SearchState) (ht : ∀ k, s.tt.retrieve k = none) (hr : s.rep = [evGame.hash 0])
    (hl : s.limit = .none) :
    (negamax evGame 1 1 0 0 NEGATIVE_INFINITY INFINITY s).1 = some ⟨32767, some evA⟩ := by
  rw [negamax_succ_miss evGame 1 0 0 0 _ _ s (by simp [SearchState.isRepetition, hr]) (ht _)]
  rw [innerResult_cons evGame _ 0 0 0 _ _ none _ evA [evB] rfl]
  have h1 : evGame.moves 0 = [evA, evB] := rfl
  rw [h1, ev_order, negamaxLoop_cons]
  have h3 : stopFlag s.incrementNodes = false := by simp [stopFlag, SearchState.incrementNodes, hl]
  rw [h3]
  simp only [Bool.false_eq_true, ↓reduceIte]
  have h4 : evGame.play 0 evA = 1 := rfl
  rw [h4, Nat.zero_add,
    negamax_zero_miss evGame 1 1 1 _ _ (polled s.incrementNodes)
      (by simp [SearchState.isRepetition, polled, SearchState.incrementNodes, hr, evGame]) (ht _),
    ev_leaf]
  simp only
  have h7 : max NEGATIVE_INFINITY (- (-32767 : Int)) ≥ INFINITY := by decide
  rw [if_pos h7]
  simp only
  rw [finishNode_fst]
  rfl

theorem ev_findBestMove :
    (findBestMove evGame 1 0 1 .none {}).1 = some (32767, some evA) := by
  have h := ev_run (pushed evGame 0 (polled (started .none {})))
    (fun k => retrieve_of_get_none _ _ (tt_empty_get k)) rfl rfl
  exact findBestMove_one_none evGame 1 0 {} ⟨32767, some evA⟩ evA (by rw [searchPosition_eq]; exact h) rfl

theorem ev_completed : (findBestMove evGame 1 0 1 .none {}).2.stopSeen = false := by
  rw [findBestMove_snd]
  exact ((iterate_frame evGame 1 0 1 1 1 _ (started .none {})).calm rfl rfl).2

/-! ### a toy game meeting every hypothesis (non-vacuity) -/

/-- `evGame` with evaluation 0: 0 --evA--> 1 (quiet, no moves);  0 --evB--> 2 (mated). -/
def okGame : Game Nat := { evGame with eval := fun _ => 0 }

theorem ok_evalBound : EvalBound okGame := fun _ => by simp [okGame, INFINITY]

theorem ok_no_collision : ∀ m, m ∈ okGame.moves 0 → okGame.hash (okGame.play 0 m) ≠ okGame.hash 0 := by
  decide

theorem ok_mate : evB ∈ okGame.moves 0 ∧ Mated okGame (okGame.play 0 evB) :=
  ⟨List.mem_cons_of_mem _ List.mem_cons_self, by decide⟩

theorem ok_only_mate : ∀ m, m ∈ okGame.moves 0 → Mated okGame (okGame.play 0 m) → m = evB := by decide

theorem ok_values : ∀ d, d ≤ 3 → ∃ v, Spec.V okGame 1 d 0 = some v := by
  intro d hd
  have h : ∀ d, d ≤ 3 → (Spec.V okGame 1 d 0).isSome = true := by decide
  exact Option.isSome_iff_exists.1 (h d hd)

/-- a depth-3 search of `okGame` without a deadline completes and answers. -/
theorem ok_run : ∃ score mv s', findBestMove okGame 1 0 3 .none {} = (some (score, mv), s') ∧
    s'.stopSeen = false := by
  obtain ⟨⟨score, mv⟩, hb⟩ := findBestMove_some okGame 1 1 (Nat.le_refl _) 0 3 ok_values .none {}
  refine ⟨score, mv, (findBestMove okGame 1 0 3 .none {}).2, ?_, ?_⟩
  · rw [← hb]
  · rw [findBestMove_snd]
    exact ((iterate_frame okGame 1 0 3 3 1 _ (started .none {})).calm rfl rfl).2

end Flounder.Search
