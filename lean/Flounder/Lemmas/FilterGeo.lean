/-
  C01, legality filter (layer F1): geometric lemmas on squares, extracted from the kernel-evaluated
  checkers of `FilterGeoChk*.lean`.
-/
import Flounder.Lemmas.FilterGeoChk1
import Flounder.Lemmas.FilterGeoChk2
import Flounder.Lemmas.FilterGeoChk3
import Flounder.Lemmas.FilterGeoChk40
import Flounder.Lemmas.FilterGeoChk41
import Flounder.Lemmas.FilterGeoChk42
import Flounder.Lemmas.FilterGeoChk43
import Flounder.Lemmas.SpecValid

namespace Flounder.Spec.NonKing
open Flounder

theorem squares_all {P : Nat → Bool} (h : squares.all P = true) {s : Nat} (hs : s < 64) : P s = true :=
  List.all_eq_true.1 h s (mem_squares.2 hs)

/-! ### symmetry -/

theorem diagonal_symm {s t : Nat} (hs : s < 64) (ht : t < 64) : diagonal s t = diagonal t s := by
  have h := squares_all (squares_all chkSymAl_ok hs) ht
  simp only [Bool.and_eq_true, beq_iff_eq] at h
  exact h.1

theorem orthogonal_symm {s t : Nat} (hs : s < 64) (ht : t < 64) : orthogonal s t = orthogonal t s := by
  have h := squares_all (squares_all chkSymAl_ok hs) ht
  simp only [Bool.and_eq_true, beq_iff_eq] at h
  exact h.2

theorem aligned_symm {s t : Nat} (hs : s < 64) (ht : t < 64) : aligned s t = aligned t s := by
  unfold aligned
  rw [diagonal_symm hs ht, orthogonal_symm hs ht]

theorem aligned_of_diagonal {s t : Nat} (h : diagonal s t = true) : aligned s t = true := by
  unfold aligned; rw [h]; simp

theorem aligned_of_orthogonal {s t : Nat} (h : orthogonal s t = true) : aligned s t = true := by
  unfold aligned; rw [h]; simp

/-! ### one aligned pair -/

theorem geoPair_of {a k : Nat} (ha : a < 64) (hk : k < 64) (h : aligned a k = true) : geoPair a k = true := by
  have h1 := squares_all (squares_all chkPair_ok ha) hk
  rw [h] at h1
  simpa using h1

theorem seg_rev {a k : Nat} (ha : a < 64) (hk : k < 64) (h : aligned a k = true) :
    strictlyBetween k a = (strictlyBetween a k).reverse := by
  have h1 := geoPair_of ha hk h
  unfold geoPair at h1
  simp only [Bool.and_eq_true, beq_iff_eq] at h1
  exact h1.1

theorem seg_mem_symm {a k : Nat} (ha : a < 64) (hk : k < 64) (h : aligned a k = true) {u : Nat} :
    u ∈ strictlyBetween k a ↔ u ∈ strictlyBetween a k := by
  rw [seg_rev ha hk h, List.mem_reverse]

theorem seg_facts {a k : Nat} (ha : a < 64) (hk : k < 64) (h : aligned a k = true) {u : Nat}
    (hu : u ∈ strictlyBetween a k) :
    u ≠ a ∧ u ≠ k ∧ aligned u k = true ∧ stepToward k u = stepToward k a := by
  have h1 := geoPair_of ha hk h
  unfold geoPair at h1
  simp only [Bool.and_eq_true, List.all_eq_true] at h1
  have h2 := h1.2 u hu
  simp only [bne_iff_ne, ne_eq, beq_iff_eq] at h2
  exact ⟨h2.1.1.1, h2.1.1.2, h2.1.2, h2.2⟩

/-! ### nested segments -/

theorem geoPair2_of {a k : Nat} (ha : a < 64) (hk : k < 64) (h : aligned a k = true) : geoPair2 a k = true := by
  have h1 := squares_all (squares_all chkPair2_ok ha) hk
  rw [h] at h1
  simpa using h1

theorem seg_nested {a k : Nat} (ha : a < 64) (hk : k < 64) (h : aligned a k = true) {s d : Nat}
    (hs : s ∈ strictlyBetween a k) (hd : d ∈ strictlyBetween s k) :
    d ∈ strictlyBetween a k ∧ s ∈ strictlyBetween d a := by
  have h1 := geoPair2_of ha hk h
  unfold geoPair2 at h1
  simp only [List.all_eq_true, Bool.and_eq_true] at h1
  have h2 := (h1 s hs).1 d hd
  rw [List.contains_iff_mem, List.contains_iff_mem] at h2
  exact h2

theorem seg_col {a k : Nat} (ha : a < 64) (hk : k < 64) (h : aligned a k = true) {s d : Nat}
    (hs : s ∈ strictlyBetween a k) (hd : d = a ∨ d ∈ strictlyBetween a k) (hne : d ≠ s) :
    onLine d s k = true := by
  have h1 := geoPair2_of ha hk h
  unfold geoPair2 at h1
  simp only [List.all_eq_true, Bool.and_eq_true] at h1
  have h2 := (h1 s hs).2 d (by rcases hd with hd | hd; rw [hd]; exact List.mem_cons_self; exact List.mem_cons_of_mem _ hd)
  simp only [Bool.or_eq_true, beq_iff_eq] at h2
  rcases h2 with h2 | h2
  · exact absurd h2 hne
  · exact h2

/-! ### two squares beyond a common square -/

theorem same_dir {k x y : Nat} (hk : k < 64) (hx : x < 64) (hy : y < 64) (ax : aligned x k = true)
    (ay : aligned y k = true) (hd : stepToward k x = stepToward k y) :
    x = y ∨ x ∈ strictlyBetween y k ∨ y ∈ strictlyBetween x k := by
  have h1 := squares_all (squares_all chkFork_ok hk) hx
  rw [ax] at h1
  simp only [Bool.not_true, Bool.false_or] at h1
  have h2 := squares_all h1 hy
  rw [ay, hd] at h2
  simpa [List.contains_iff_mem, or_assoc] using h2

theorem seg_fork {a a' k d : Nat} (ha : a < 64) (ha' : a' < 64) (hk : k < 64) (h : aligned a k = true)
    (h' : aligned a' k = true) (hd : d ∈ strictlyBetween a k) (hd' : d ∈ strictlyBetween a' k) :
    a = a' ∨ a ∈ strictlyBetween a' k ∨ a' ∈ strictlyBetween a k := by
  apply same_dir hk ha ha' h h'
  rw [← (seg_facts ha hk h hd).2.2.2, ← (seg_facts ha' hk h' hd').2.2.2]

/-! ### three collinear squares -/

theorem chkTri_all {k : Nat} (hk : k < 64) :
    (squares.all fun s => !aligned s k ||
      squares.all fun d => !onLine d s k ||
        (d == k || (strictlyBetween s k).contains d || (strictlyBetween s d).contains k ||
          (aligned d k && (strictlyBetween d k).contains s))) = true := by
  have key : ∀ lo, chkTri lo 16 = true → lo ≤ k → k < lo + 16 → _ := fun lo h h1 h2 =>
    List.all_eq_true.1 h k (List.mem_range'_1.2 ⟨h1, h2⟩)
  by_cases h1 : k < 16
  · exact key 0 chkTri_ok0 (by omega) (by omega)
  · by_cases h2 : k < 32
    · exact key 16 chkTri_ok1 (by omega) (by omega)
    · by_cases h3 : k < 48
      · exact key 32 chkTri_ok2 (by omega) (by omega)
      · exact key 48 chkTri_ok3 (by omega) (by omega)

theorem collinear_cases {k s d : Nat} (hk : k < 64) (hs : s < 64) (hd : d < 64) (h : aligned s k = true)
    (hl : onLine d s k = true) :
    d = k ∨ d ∈ strictlyBetween s k ∨ k ∈ strictlyBetween s d ∨
      (aligned d k = true ∧ s ∈ strictlyBetween d k) := by
  have h1 := squares_all (chkTri_all hk) hs
  rw [h] at h1
  simp only [Bool.not_true, Bool.false_or] at h1
  have h2 := squares_all h1 hd
  rw [hl] at h2
  simpa [List.contains_iff_mem, or_assoc] using h2

/-! ### leapers -/

theorem knight_not_aligned {a k : Nat} (ha : a < 64) (hk : k < 64) (h : knightStep a k = true) :
    aligned a k = false := by
  have h1 := squares_all (squares_all chkLeap_ok ha) hk
  rw [h] at h1
  simp only [Bool.and_eq_true, Bool.not_true, Bool.false_or, Bool.not_eq_true'] at h1
  exact h1.1.1.1

theorem kingStep_seg_nil {a k : Nat} (ha : a < 64) (hk : k < 64) (h : kingStep a k = true) :
    strictlyBetween a k = [] := by
  have h1 := squares_all (squares_all chkLeap_ok ha) hk
  rw [h] at h1
  simp only [Bool.and_eq_true, Bool.not_true, Bool.false_or, List.isEmpty_iff] at h1
  exact h1.1.1.2

theorem pawn_kingStep (bd : Nat → Option Man) (c : Color) {a k : Nat} (ha : a < 64) (hk : k < 64)
    (h : manAttacks bd c .pawn a k = true) : kingStep a k = true := by
  have h1 := squares_all (squares_all chkLeap_ok ha) hk
  simp only [Bool.and_eq_true, Bool.or_eq_true, Bool.not_eq_true'] at h1
  have e : ∀ c, manAttacks bd c .pawn a k = manAttacks (fun _ => none) c .pawn a k := fun _ => rfl
  rw [e] at h
  cases c
  · rcases h1.1.2 with h2 | h2
    · rw [h] at h2; cases h2
    · exact h2
  · rcases h1.2 with h2 | h2
    · rw [h] at h2; cases h2
    · exact h2

/-! ### en passant -/

theorem ep_not_aligned_white (bd : Nat → Option Man) {d k : Nat} (hd : d < 64) (hk : k < 64)
    (h : manAttacks bd .black .pawn (d - 8) k = true) : aligned d k = false := by
  have h1 := squares_all (squares_all chkEp_ok hd) hk
  have e : manAttacks bd .black .pawn (d - 8) k = manAttacks (fun _ => none) .black .pawn (d - 8) k := rfl
  rw [e] at h
  simp only [Bool.and_eq_true, Bool.or_eq_true, Bool.not_eq_true'] at h1
  rcases h1.1 with h2 | h2
  · rw [h] at h2; cases h2
  · exact h2

theorem ep_not_aligned_black (bd : Nat → Option Man) {d k : Nat} (hd : d < 64) (hk : k < 64)
    (h : manAttacks bd .white .pawn (d + 8) k = true) : aligned d k = false := by
  have h1 := squares_all (squares_all chkEp_ok hd) hk
  have e : manAttacks bd .white .pawn (d + 8) k = manAttacks (fun _ => none) .white .pawn (d + 8) k := rfl
  rw [e] at h
  simp only [Bool.and_eq_true, Bool.or_eq_true, Bool.not_eq_true'] at h1
  rcases h1.2 with h2 | h2
  · rw [h] at h2; cases h2
  · exact h2

/-! ### pawn pushes -/

theorem push_facts {s : Nat} (hs : s < 64) :
    strictlyBetween s (s + 8) = [] ∧ (8 ≤ s → strictlyBetween s (s - 8) = []) ∧
    strictlyBetween s (s + 16) = [s + 8] ∧ (16 ≤ s → strictlyBetween s (s - 16) = [s - 8]) := by
  have h1 := squares_all chkPush_ok hs
  simp only [Bool.and_eq_true, Bool.or_eq_true, decide_eq_true_eq, List.isEmpty_iff, beq_iff_eq] at h1
  obtain ⟨⟨⟨h1, h2⟩, h3⟩, h4⟩ := h1
  refine ⟨h1, fun h => ?_, h3, fun h => ?_⟩
  · rcases h2 with h2 | h2
    · omega
    · exact h2
  · rcases h4 with h4 | h4
    · omega
    · exact h4

end Flounder.Spec.NonKing
