/-
  C06 helpers: an INTERRUPTED search keeps the transposition table sound.

  `negamax_ok_ranked` (Lemmas/SearchContract.lean) shows that a COMPLETED run (final `stopSeen = false`)
  returns a correct result and leaves a sound table.  Here the table part is extended to EVERY run —
  completed, interrupted at any poll, out of quiescence fuel:

    * a node stores only after its own post-loop poll answered `false`;
    * the oracle is monotone (`Stop.StopMono`: once a poll has answered `true`, every later poll does),
      so at that moment no poll of the node's run has answered `true`: the node's run is a completed run
      and `innerResult_ok_ranked` says that the stored record is a true claim;
    * in every other case the node itself stores nothing and the table is what its children left.

  `PresOKR` is the induction hypothesis ("whatever happens, the table stays sound"); it is proved for
  `negamax` by induction on the depth, calling the completed-run contract `RecOKR` on the nodes whose
  post-loop poll answered `false`.  The same argument lifts to `searchPosition`, `iterate` (its `.exact`
  root store is guarded by the poll `stop2`) and `findBestMove`.
-/
import Flounder.Lemmas.SearchIterate
import Flounder.Lemmas.StopTrace

namespace Flounder.Search
open Flounder Gen

/-! ### the monotone oracle, in the vocabulary of this development -/

theorem limitStop_eq_stopFlag (s : SearchState) : Stop.limitStop s = stopFlag s := rfl

theorem StopMono.polled {s : SearchState} (h : Stop.StopMono s) : Stop.StopMono (polled s) := h.poll

/-- under the monotone-oracle invariant a poll that answers `false` proves that no poll has answered
    `true` so far. -/
theorem StopMono.not_seen {s : SearchState} (h : Stop.StopMono s) (hf : stopFlag s = false) :
    s.stopSeen = false := by
  cases hs : s.stopSeen with
  | false => rfl
  | true =>
    have : stopFlag s = true := h hs
    rw [hf] at this; cases this

section mono
variable {P : Type} (G : Game P)

/-- `StopMono` is an invariant of every primitive step (no guard needed). -/
theorem monoHypTop :
    Stop.HypTop G (fun _ => True) (fun _ _ => True) (fun _ => True) Stop.StopMono where
  closed_m := fun _ _ _ _ => trivial
  closed_q := fun _ _ _ _ => trivial
  q_none := fun _ => trivial
  q_move := fun _ _ _ _ => trivial
  gd_poll := fun _ _ _ => trivial
  gd_enter := fun _ _ => trivial
  gd_frame := fun _ _ _ _ => trivial
  poll := fun _ h => h.poll
  enter := fun _ h _ => h.enter
  frame := fun _ _ _ _ _ h => h.congr rfl rfl rfl rfl
  probe := fun _ _ _ _ _ _ => trivial
  store := fun _ _ _ _ _ _ h _ _ _ => h.congr rfl rfl rfl rfl
  rep := fun _ _ h => h.congr rfl rfl rfl rfl
  gd_rep := fun _ _ _ => trivial
  info := fun _ _ h => h.congr rfl rfl rfl rfl

theorem negamax_stopMono (qfuel d : Nat) (p : P) (ply : Nat) (α β : Int) (s : SearchState)
    (h : Stop.StopMono s) : Stop.StopMono (negamax G qfuel d p ply α β s).2 :=
  (Stop.negamax_inv (monoHypTop G).toHyp qfuel d p ply α β s trivial h trivial).1

theorem negamaxLoop_stopMono (rec : P → Nat → Int → Int → SearchState → Option SearchResult × SearchState)
    (hrecM : ∀ q ply a b s, Stop.StopMono s → Stop.StopMono (rec q ply a b s).2)
    (p : P) (depth ply : Nat) (β : Int) (ms : List Move) (acc : LoopAcc) (s : SearchState)
    (hms : ∀ m ∈ ms, m ∈ G.moves p) (h : Stop.StopMono s) :
    Stop.StopMono (negamaxLoop G rec p depth ply β ms acc s).2 :=
  (Stop.negamaxLoop_inv (monoHypTop G).toHyp rec (fun q pl a b s' _ hI _ => hrecM q pl a b s' hI) p trivial
    depth ply β ms acc s hms trivial h).1

theorem searchPosition_stopMono (qfuel : Nat) (p : P) (depth : Nat) (s : SearchState)
    (h : Stop.StopMono s) : Stop.StopMono (searchPosition G qfuel p depth s).2 :=
  (Stop.searchPosition_inv (monoHypTop G) qfuel p depth s trivial h trivial).1

theorem iterate_stopMono (qfuel : Nat) (p : P) (maxDepth n cur : Nat) (best : Int × Option Move)
    (s : SearchState) (h : Stop.StopMono s) :
    Stop.StopMono (iterate G qfuel p maxDepth n cur best s).2 :=
  (Stop.iterate_inv (monoHypTop G) qfuel p trivial maxDepth n cur best s trivial h).1

end mono

section pres
variable {P : Type} (G : Game P)
variable {c : Int → Int} {qf : Nat}

/-- "whatever happens, the table stays sound": the statement proved for `negamax d` below, as a
    hypothesis on the recursive call of the move loop.  No assumption on how the run ends. -/
def PresOKR (c : Int → Int) (N U : P → Prop) (qf d : Nat)
    (rec : P → Nat → Int → Int → SearchState → Option SearchResult × SearchState) : Prop :=
  ∀ (p : P) (ply : Nat) (α β : Int) (s : SearchState) (v : Int),
    N p → TTSound G c U qf s.tt → RepOK s → Stop.StopMono s → Spec.V G qf d p = some v →
    NEGATIVE_INFINITY ≤ α → α < β → β ≤ INFINITY →
    (rec p ply α β s).2.deeperHits = s.deeperHits →
    TTSound G c U qf (rec p ply α β s).2.tt

/-- the move loop: every child keeps the table sound, the loop itself stores nothing. -/
theorem negamaxLoop_ttsound {N U : P → Prop}
    (rec : P → Nat → Int → Int → SearchState → Option SearchResult × SearchState) (d : Nat)
    (hrecF : ∀ q ply a b s, Frame s (rec q ply a b s).2)
    (hrecM : ∀ q ply a b s, Stop.StopMono s → Stop.StopMono (rec q ply a b s).2)
    (hrecP : PresOKR G c N U qf d rec)
    (p : P) (hch : ∀ m ∈ G.moves p, N (G.play p m)) (depth ply : Nat) (β : Int) (hβ : β ≤ INFINITY) :
    ∀ (rest : List Move) (acc : LoopAcc) (s : SearchState),
      (∀ m ∈ rest, m ∈ G.moves p) →
      (∀ m ∈ rest, ∃ x, Spec.V G qf d (G.play p m) = some x) →
      NEGATIVE_INFINITY ≤ acc.alpha → acc.alpha < β →
      TTSound G c U qf s.tt → RepOK s → Stop.StopMono s →
      (negamaxLoop G rec p depth ply β rest acc s).2.deeperHits = s.deeperHits →
      TTSound G c U qf (negamaxLoop G rec p depth ply β rest acc s).2.tt := by
  intro rest
  induction rest with
  | nil => intro acc s _ _ _ _ hT _ _ _; exact hT
  | cons mv rest ih =>
    intro acc s hmem hex hα hαβ hT hR hM hdh
    have hni := negInf_eq
    have hin := inf_eq
    rw [negamaxLoop_cons] at hdh ⊢
    rcases Bool.eq_false_or_eq_true (stopFlag s) with hsf | hsf
    · rw [hsf]
      simp only [↓reduceIte]
      exact hT
    · rw [hsf] at hdh ⊢
      simp only [Bool.false_eq_true, ↓reduceIte] at hdh ⊢
      have hmv : mv ∈ G.moves p := hmem mv List.mem_cons_self
      obtain ⟨x, hx⟩ := hex mv List.mem_cons_self
      have hM1 : Stop.StopMono (polled s) := StopMono.polled hM
      have hP := hrecP (G.play p mv) (ply + 1) (-β) (-acc.alpha) (polled s) x (hch mv hmv) hT
        (hR.of_rep rfl) hM1 hx (by omega) (by omega) (by omega)
      have hF := hrecF (G.play p mv) (ply + 1) (-β) (-acc.alpha) (polled s)
      have hM2 := hrecM (G.play p mv) (ply + 1) (-β) (-acc.alpha) (polled s) hM1
      have hLF := fun a s' => negamaxLoop_frame G rec hrecF p depth ply β rest a s'
      rcases hres : rec (G.play p mv) (ply + 1) (-β) (-acc.alpha) (polled s) with ⟨ro, s2⟩
      rw [hres] at hdh hP hF hM2
      have h1 : s.deeperHits ≤ s2.deeperHits := hF.deeper
      cases ro with
      | none => exact hP hdh
      | some r =>
        simp only at hdh hP hM2 ⊢
        by_cases hcut : max acc.alpha (-r.score) ≥ β
        · rw [if_pos hcut] at hdh ⊢
          have f := qframe_cut s2 mv ply depth
          simp only
          rw [f.tt]
          exact hP (by rw [← f.deeper]; exact hdh)
        · rw [if_neg hcut] at hdh ⊢
          have f := hLF ⟨max acc.alpha (-r.score),
            if -r.score > acc.best.score then ⟨-r.score, some mv⟩ else acc.best⟩ s2
          have h2 := f.deeper
          have h3 : s2.deeperHits = s.deeperHits := by omega
          exact ih _ s2 (fun m hm => hmem m (List.mem_cons_of_mem _ hm))
            (fun m hm => hex m (List.mem_cons_of_mem _ hm))
            (by simp only; omega) (by simp only; omega) (hP h3)
            (hR.of_rep (by rw [hF.rep]; rfl)) hM2 (by rw [hdh, h3])

/-- the final state of `finishNode`. -/
theorem finishNode_stopSeen (p : P) (d1 : Nat) (α β : Int) (acc : LoopAcc) (s : SearchState) :
    (finishNode G p d1 α β acc s).2.stopSeen = (s.stopSeen || stopFlag s) := by
  unfold finishNode; split <;> rfl

theorem finishNode_deeper (p : P) (d1 : Nat) (α β : Int) (acc : LoopAcc) (s : SearchState) :
    (finishNode G p d1 α β acc s).2.deeperHits = s.deeperHits := by
  unfold finishNode; split <;> rfl

theorem finishNode_tt_of_stop (p : P) (d1 : Nat) (α β : Int) (acc : LoopAcc) (s : SearchState)
    (h : stopFlag s = true) : (finishNode G p d1 α β acc s).2.tt = s.tt := by
  unfold finishNode; rw [if_pos h]; rfl

/-- an inner node after a table miss, EVERY outcome: the table stays sound.  If the node's own poll
    answered `false`, the node's whole run was a completed one (monotone oracle) and the stored record is
    the one of `innerResult_ok_ranked`; otherwise the node stores nothing. -/
theorem innerResult_ttsound {N U : P → Prop} (hc : Clamp c) (hinj : HashInj G U)
    (rec : P → Nat → Int → Int → SearchState → Option SearchResult × SearchState) (d : Nat)
    (hrecF : ∀ q ply a b s, Frame s (rec q ply a b s).2)
    (hrecM : ∀ q ply a b s, Stop.StopMono s → Stop.StopMono (rec q ply a b s).2)
    (hrec : RecOKR G c N U qf d rec) (hrecP : PresOKR G c N U qf d rec)
    (p : P) (ply : Nat) (α β : Int) (ttMove : Option Move) (s : SearchState) (v : Int)
    (hSp : U p) (hch : ∀ m ∈ G.moves p, N (G.play p m))
    (hT : TTSound G c U qf s.tt) (hR : RepOK s) (hM : Stop.StopMono s)
    (hv : Spec.V G qf (d + 1) p = some v)
    (hα : NEGATIVE_INFINITY ≤ α) (hαβ : α < β) (hβ : β ≤ INFINITY)
    (hdh : (innerResult G rec d p ply α β ttMove s).2.deeperHits = s.deeperHits) :
    TTSound G c U qf (innerResult G rec d p ply α β ttMove s).2.tt := by
  cases hfin : (innerResult G rec d p ply α β ttMove s).2.stopSeen with
  | false =>
    -- a completed run of this node
    have hs : s.stopSeen = false := (innerResult_frame G rec hrecF d p ply α β ttMove s).noStop hfin
    obtain ⟨_, _, _, hT'⟩ := innerResult_ok_ranked G hc hinj rec d hrecF hrec p ply α β ttMove s v hSp hch
      hT hR hv hα hαβ hβ hs hfin hdh
    exact hT'
  | true =>
    cases hms : G.moves p with
    | nil =>
      rw [innerResult_nil G rec d p ply α β ttMove s hms]
      split <;> exact hT
    | cons m0 tl =>
      have hne : G.moves p ≠ [] := by rw [hms]; simp
      obtain ⟨hex, _, _⟩ := V_children G qf d p v hne hv
      rw [innerResult_cons G rec d p ply α β ttMove s m0 tl hms] at hfin hdh ⊢
      have hperm := orderMoves_perm G s p (G.moves p) ttMove ply
      generalize orderMoves G s p (G.moves p) ttMove ply = ordered at hfin hdh hperm ⊢
      have hLF := negamaxLoop_frame G rec hrecF p (d + 1) ply β ordered
        ⟨α, ⟨NEGATIVE_INFINITY, some (ordered.headD m0)⟩⟩ s
      have hLM := negamaxLoop_stopMono G rec hrecM p (d + 1) ply β ordered
        ⟨α, ⟨NEGATIVE_INFINITY, some (ordered.headD m0)⟩⟩ s (fun m hm => hperm.mem_iff.1 hm) hM
      have hLP := negamaxLoop_ttsound G rec d hrecF hrecM hrecP p hch (d + 1) ply β hβ ordered
        ⟨α, ⟨NEGATIVE_INFINITY, some (ordered.headD m0)⟩⟩ s
        (fun m hm => hperm.mem_iff.1 hm) (fun m hm => hex m (hperm.mem_iff.1 hm)) hα hαβ hT hR hM
      rcases hl : negamaxLoop G rec p (d + 1) ply β ordered
        ⟨α, ⟨NEGATIVE_INFINITY, some (ordered.headD m0)⟩⟩ s with ⟨ro, s2⟩
      rw [hl] at hfin hdh hLF hLM hLP
      cases ro with
      | none => exact hLP hdh
      | some acc =>
        simp only at hfin hdh hLF hLM hLP ⊢
        rw [finishNode_stopSeen] at hfin
        rw [finishNode_deeper] at hdh
        cases hsf : stopFlag s2 with
        | true =>
          rw [finishNode_tt_of_stop G p (d + 1) α β acc s2 hsf]
          exact hLP hdh
        | false =>
          -- the poll answered false although a poll has answered true before: impossible
          have := StopMono.not_seen hLM hsf
          rw [this, hsf] at hfin
          cases hfin

/-- **every run of `negamax` keeps the table sound** (ranked form, abstract score view). -/
theorem negamax_ttsound {S : Nat → P → Prop} (hc : Clamp c) (hr : Ranked G S)
    (hinj : HashInj G (Ranked.U S)) (qfuel : Nat) (hq : qf ≤ qfuel) :
    ∀ d, PresOKR G c (S d) (Ranked.U S) qf d (negamax G qfuel d) := by
  intro d
  induction d with
  | zero =>
    intro p ply α β s v hSp hT hR hM hv hα hαβ hβ hdh
    rw [negamax_zero]
    split
    · exact hT
    · rcases hp : probeTT G s.incrementNodes p 0 α β with ⟨ro, mvv, s1⟩
      rcases probeTT_cases G s.incrementNodes p 0 α β with ⟨h1, h2⟩ | ⟨e, he, hde, h1, hb, h2⟩
      all_goals rw [hp] at h1 h2
      all_goals simp only at h1 h2
      all_goals subst h1
      all_goals subst h2
      all_goals simp only
      · rw [(leafResult_qframe G qfuel p α β s.incrementNodes).tt]; exact hT
      · rw [counted_tt]; exact hT
  | succ d ih =>
    intro p ply α β s v hSp hT hR hM hv hα hαβ hβ hdh
    rw [negamax_succ] at hdh ⊢
    split
    · exact hT
    · rename_i hrep
      rw [if_neg hrep] at hdh
      rcases hp : probeTT G s.incrementNodes p (d + 1) α β with ⟨ro, mvv, s1⟩
      rcases probeTT_cases G s.incrementNodes p (d + 1) α β with ⟨h1, h2⟩ | ⟨e, he, hde, h1, hb, h2⟩
      all_goals rw [hp] at h1 h2 hdh
      all_goals simp only at h1 h2
      all_goals subst h1
      all_goals subst h2
      all_goals simp only at hdh ⊢
      · exact innerResult_ttsound G hc hinj (negamax G qfuel d) d (negamax_frame G qfuel d)
          (negamax_stopMono G qfuel d) (negamax_ok_ranked G hc hr hinj qfuel hq d) ih p ply α β mvv
          s.incrementNodes v (Ranked.mem_U hSp) (fun m hm => hr.step d p m hSp hm) hT (hR.of_rep rfl)
          hM.enter hv hα hαβ hβ hdh
      · rw [counted_tt]; exact hT

/-! ### `searchPosition`, `iterate`, `findBestMove` -/

theorem searchPosition_ttsound {S : Nat → P → Prop} (hc : Clamp c) (hr : Ranked G S)
    (hinj : HashInj G (Ranked.U S)) (qfuel : Nat) (hq : qf ≤ qfuel) (p : P) (depth : Nat)
    (s : SearchState) (v : Int) (hSp : S depth p)
    (hT : TTSound G c (Ranked.U S) qf s.tt) (hrep : s.rep = []) (hM : Stop.StopMono s)
    (hv : Spec.V G qf depth p = some v)
    (hdh : (searchPosition G qfuel p depth s).2.deeperHits = s.deeperHits) :
    TTSound G c (Ranked.U S) qf (searchPosition G qfuel p depth s).2.tt := by
  rw [searchPosition_eq] at hdh ⊢
  have hR : RepOK (pushed G p s) := repOK_single (G.hash p) _ (by simp [pushed, hrep])
  exact negamax_ttsound G hc hr hinj qfuel hq depth p 0 NEGATIVE_INFINITY INFINITY (pushed G p s) v hSp hT hR
    (hM.congr rfl rfl rfl rfl) hv (Int.le_refl _) (by decide) (Int.le_refl _) hdh

/-- the record `iterate` caches after a completed iteration. -/
theorem rootEntry_ok (p : P) (cur : Nat) (v : Int) (r : SearchResult)
    (hv : Spec.V G qf cur p = some v)
    (hres : ResultOK G c qf cur p NEGATIVE_INFINITY INFINITY v r) (hexact : c r.score = c v) :
    EntryOK G c qf p ⟨G.hash p, r.score, r.bestMove, cur, .exact⟩ := by
  refine ⟨?_, ?_, ?_, fun h => hres.move h, fun _ a b k m x hk hm hx => hres.pv a b k hk m x hm hx⟩
  · intro v' hv' _
    simp only at hv' ⊢
    rw [hv] at hv'; cases hv'; exact hexact
  · intro _ _ hb'; cases hb'
  · intro _ _ hb'; cases hb'

/-- **every run of the iteration loop keeps the table sound.**  The root result is cached only after the
    poll `stop2` answered `false`, i.e. (monotone oracle) after a completed root search. -/
theorem iterate_ttsound {S : Nat → P → Prop} (hc : Clamp c) (hr : Ranked G S)
    (hinj : HashInj G (Ranked.U S)) (qfuel : Nat) (hq : qf ≤ qfuel) (p : P) (maxDepth : Nat)
    (hSp : S maxDepth p) :
    ∀ (n cur : Nat) (best : Int × Option Move) (s : SearchState),
      (∀ d, cur ≤ d → d ≤ maxDepth → ∃ v, Spec.V G qf d p = some v) →
      RootExact G c qf cur maxDepth p →
      TTSound G c (Ranked.U S) qf s.tt → s.rep = [] → Stop.StopMono s →
      (iterate G qfuel p maxDepth n cur best s).2.deeperHits = s.deeperHits →
      TTSound G c (Ranked.U S) qf (iterate G qfuel p maxDepth n cur best s).2.tt := by
  intro n
  induction n with
  | zero => intro cur best s _ _ hT _ _ _; exact hT
  | succ n ih =>
    intro cur best s hV hRE hT hrep hM hdh
    rw [iterate_succ] at hdh ⊢
    by_cases hle : cur > maxDepth
    · rw [if_pos hle]; exact hT
    · rw [if_neg hle] at hdh ⊢
      rcases Bool.eq_false_or_eq_true (stopFlag s) with hsf | hsf
      · rw [hsf]
        simp only [↓reduceIte]
        exact hT
      · rw [hsf] at hdh ⊢
        simp only [Bool.false_eq_true, ↓reduceIte] at hdh ⊢
        have hs1 : (polled s).stopSeen = false := by
          simp [polled, StopMono.not_seen hM hsf, hsf]
        have hM1 : Stop.StopMono (polled s) := StopMono.polled hM
        obtain ⟨v, hv⟩ := hV cur (Nat.le_refl _) (by omega)
        have hSc : S cur p := hr.le (by omega) hSp
        have hSP := searchPosition_ok_ranked G hc hr hinj qfuel hq p cur (polled s) v hSc hT hrep hv hs1
        have hPP := searchPosition_ttsound G hc hr hinj qfuel hq p cur (polled s) v hSc hT hrep hM1 hv
        have hSF := searchPosition_frame G qfuel p cur (polled s)
        have hSM := searchPosition_stopMono G qfuel p cur (polled s) hM1
        have hIF := iterate_frame G qfuel p maxDepth n (cur + 1)
        rcases hsp : searchPosition G qfuel p cur (polled s) with ⟨ro, s2⟩
        rw [hsp] at hSP hPP hSF hSM hdh
        have h0 : s.deeperHits ≤ s2.deeperHits := hSF.deeper
        have hrep2 : s2.rep = [] := by rw [hSF.rep]; exact hrep
        cases ro with
        | none => exact hPP hdh
        | some r =>
          simp only at hSP hPP hSF hSM hdh ⊢
          rcases Bool.eq_false_or_eq_true (stopFlag s2) with hsf2 | hsf2
          · rw [hsf2] at hdh ⊢
            simp only [Bool.not_true, Bool.false_eq_true, ↓reduceIte] at hdh ⊢
            have f := hIF best (polled s2)
            have h2 : s2.deeperHits ≤ (iterate G qfuel p maxDepth n (cur + 1) best (polled s2)).2.deeperHits :=
              f.deeper
            have h3 : s2.deeperHits = s.deeperHits := by omega
            exact ih (cur + 1) best (polled s2) (fun d hd hd' => hV d (by omega) hd')
              (fun d v' hd hd' => hRE d v' (by omega) hd') (hPP h3) hrep2 (StopMono.polled hSM)
              (by rw [hdh]; exact h3.symm)
          · rw [hsf2] at hdh ⊢
            simp only [Bool.not_false, ↓reduceIte] at hdh ⊢
            have hs2 : s2.stopSeen = false := StopMono.not_seen hSM hsf2
            have f := hIF (r.score, r.bestMove) (cached G p cur r (polled s2))
            have h2 : s2.deeperHits ≤
                (iterate G qfuel p maxDepth n (cur + 1) (r.score, r.bestMove)
                  (cached G p cur r (polled s2))).2.deeperHits := f.deeper
            have h3 : s2.deeperHits = s.deeperHits := by omega
            obtain ⟨r', hr', hres, hT2, _⟩ := hSP hs2 h3
            simp only [Option.some.injEq] at hr'
            subst hr'
            have hexact : c r.score = c v := hRE cur v (Nat.le_refl _) (by omega) hv r.score hres.contract
            have hE := rootEntry_ok G p cur v r hv hres hexact
            have hM3 : Stop.StopMono (cached G p cur r (polled s2)) :=
              (StopMono.polled hSM).congr rfl rfl rfl rfl
            exact ih (cur + 1) (r.score, r.bestMove) (cached G p cur r (polled s2))
              (fun d hd hd' => hV d (by omega) hd')
              (fun d v' hd hd' => hRE d v' (by omega) hd')
              (ttSound_store G hinj hT2 p (Ranked.mem_U hSp) _ _ _ _ hE) hrep2 hM3
              (by rw [hdh]; exact h3.symm)

theorem started_stopMono (limit : Limit) (s : SearchState) : Stop.StopMono (started limit s) :=
  Stop.StopMono.of_not_seen rfl

theorem findBestMove_rep (qfuel : Nat) (p : P) (D : Nat) (limit : Limit) (s : SearchState) :
    (findBestMove G qfuel p D limit s).2.rep = s.rep := by
  rw [findBestMove_snd, (iterate_frame G qfuel p D D 1 _ (started limit s)).rep]
  rfl

/-- **every run of `findBestMove` keeps the table sound** (abstract view; the root store needs
    `RootExact`, which holds for the class view unconditionally). -/
theorem findBestMove_ttsound {S : Nat → P → Prop} (hc : Clamp c) (hr : Ranked G S)
    (hinj : HashInj G (Ranked.U S)) (qfuel : Nat) (hq : qf ≤ qfuel) (p : P) (D : Nat) (hSp : S D p)
    (limit : Limit) (s : SearchState)
    (hV : ∀ d, 1 ≤ d → d ≤ D → ∃ v, Spec.V G qf d p = some v)
    (hRE : RootExact G c qf 1 D p)
    (hT : TTSound G c (Ranked.U S) qf s.tt) (hrep : s.rep = [])
    (hdh : (findBestMove G qfuel p D limit s).2.deeperHits = s.deeperHits) :
    TTSound G c (Ranked.U S) qf (findBestMove G qfuel p D limit s).2.tt ∧
    (findBestMove G qfuel p D limit s).2.rep = [] := by
  refine ⟨?_, by rw [findBestMove_rep]; exact hrep⟩
  rw [findBestMove_snd] at hdh ⊢
  exact iterate_ttsound G hc hr hinj qfuel hq p D hSp D 1 (NEGATIVE_INFINITY, none) (started limit s) hV hRE
    hT hrep (started_stopMono limit s) hdh

/-- with the won/lost view a full-window contract is an equality of views. -/
theorem rootExact_clampClass (lo hi : Nat) (p : P) : RootExact G Spec.clampClass qf lo hi p := by
  intro d w _ _ _ r hc
  have h1 := clampClass_range w
  have h2 := clampClass_range r
  have hni := negInf_eq
  have hin := inf_eq
  by_cases a : Spec.clampClass r ≤ NEGATIVE_INFINITY
  · have := hc.1 a; omega
  · by_cases b : Spec.clampClass r ≥ INFINITY
    · have := hc.2.1 b; omega
    · exact hc.2.2 (by omega) (by omega)

end pres
end Flounder.Search
