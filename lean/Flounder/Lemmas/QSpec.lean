/-
  The reference quiescence value `Spec.Q` is total and meaningful.

  `Spec.Qplain` is the plain stand-pat minimax over EVERY move of the quiescence selection; its tree is
  infinite on almost every real chess position (perpetual checks), so a hypothesis `Qplain … = some _`
  excludes most positions.  `Spec.Q` only descends into the children that can matter (`Spec.qRelevant`:
  the child is mated, or the move strictly improves the mover's static score).  This file shows that
  nothing is lost and totality is gained:

  * `Qplain_agrees`  wherever the plain tree is finite, `Q` IS the plain minimax value (same fuel);
  * `Q_ge_standpat`, `Q_ge_child`, `Q_attained`, `Q_mated`
                     wherever `Q` is defined it solves the plain stand-pat minimax equations — the bound
                     `Q_ge_child` holds for ALL moves, relevant or not;
  * `Q_det`          the value does not depend on the fuel;
  * `Q_le_Qfree`, `Qfree_le_Q`
                     charging one unit of fuel for a skipped child (as `Q` does, to match the engine's node
                     count) changes no value and costs at most one unit;
  * `Q_total`, `V_total`
                     `Q` (hence `V`) is defined on every position of a game with a quiescence rank
                     (`QRank`, Lemmas/QTermDefs.lean), with fuel `ρ p + 2` — the same constant as the
                     engine's own termination bound (`quiesce_terminates`), and sharp for the same reason
                     (`QTermExample.perp_Q_one`).
-/
import Flounder.Lemmas.SearchSpec
import Flounder.Lemmas.QTermDefs

namespace Flounder.Spec
open Flounder Gen Flounder.Search

variable {P : Type} (G : Game P)

/-! ### the plain value, where it exists -/

/-- a non-mated position's plain value is at least its static score. -/
theorem Qplain_ge_eval (n : Nat) (p : P) (v : Int) (hnm : qMated G p = false)
    (h : Qplain G n p = some v) : G.eval p ≤ v := by
  cases n with
  | zero => cases h
  | succ n =>
    rw [Qplain_succ, ← qMated_eq, hnm] at h
    exact (foldl_some _ _ _ _ h).2.1

/-- folding every move or only the relevant ones gives the same value, when the skipped moves are worth at
    most `e ≤ a` and the child values agree on the relevant ones. -/
theorem foldl_filter_agree (g g' : Move → Option Int) (rel : Move → Bool) (e : Int) (ms : List Move)
    (a q : Int) (hea : e ≤ a)
    (hrel : ∀ m ∈ ms, rel m = true → ∀ x, g m = some x → g' m = some x)
    (hnr : ∀ m ∈ ms, rel m = false → ∀ x, g m = some x → -x ≤ e)
    (h : ms.foldl (foldStep g) (some a) = some q) :
    (ms.filter rel).foldl (foldStep g') (some a) = some q := by
  induction ms generalizing a with
  | nil => exact h
  | cons m ms ih =>
    rw [List.foldl_cons] at h
    cases hg : g m with
    | none =>
      have : foldStep g (some a) m = none := by simp [foldStep, hg]
      rw [this, foldl_none] at h; cases h
    | some x =>
      have hs : foldStep g (some a) m = some (max a (-x)) := by simp [foldStep, hg]
      rw [hs] at h
      have hrel' : ∀ m' ∈ ms, rel m' = true → ∀ x, g m' = some x → g' m' = some x :=
        fun m' hm' => hrel m' (List.mem_cons_of_mem _ hm')
      have hnr' : ∀ m' ∈ ms, rel m' = false → ∀ x, g m' = some x → -x ≤ e :=
        fun m' hm' => hnr m' (List.mem_cons_of_mem _ hm')
      cases hr : rel m
      · have hx := hnr m List.mem_cons_self hr x hg
        have hmax : max a (-x) = a := by omega
        rw [hmax] at h
        rw [List.filter_cons_of_neg (by simp [hr])]
        exact ih a hea hrel' hnr' h
      · have hg' := hrel m List.mem_cons_self hr x hg
        rw [List.filter_cons_of_pos hr, List.foldl_cons]
        have hs' : foldStep g' (some a) m = some (max a (-x)) := by simp [foldStep, hg']
        rw [hs']
        exact ih _ (by omega) hrel' hnr' h

/-- **wherever the plain quiescence tree is finite, `Q` is the plain minimax value** (same fuel). -/
theorem Qplain_agrees (n : Nat) : ∀ (p : P) (q : Int), Qplain G n p = some q → Q G n p = some q := by
  induction n with
  | zero => intro p q h; cases h
  | succ n ih =>
    intro p q h
    rw [Qplain_succ] at h
    rw [Q_succ]
    cases hm : ((qList G p).isEmpty && G.inCheck p)
    · rw [hm] at h
      simp only [Bool.false_eq_true, ↓reduceIte] at h ⊢
      have hex := (foldl_some _ _ _ _ h).1
      have hn0 : ∀ m ∈ qList G p, n ≠ 0 := by
        intro m hmem hn
        obtain ⟨x, hx⟩ := hex m hmem
        rw [hn, Qplain_zero] at hx; cases hx
      rw [relFold_of _ _ _ _ _ (fun m hmem _ => by simpa using hn0 m hmem)]
      apply foldl_filter_agree (fun m => Qplain G n (G.play p m)) _ (qRel G p) (G.eval p) _ _ _
        (Int.le_refl _) ?_ ?_ h
      · intro m _ _ x hx
        exact ih _ x hx
      · intro m _ hr x hx
        obtain ⟨hnm, hle⟩ := qRel_false G hr
        have := Qplain_ge_eval G n _ x hnm hx
        omega
    · rw [hm] at h
      simpa using h

/-! ### `Q` solves the plain stand-pat minimax equations wherever it is defined -/

/-- the value does not depend on the fuel. -/
theorem Q_det (n n' : Nat) (p : P) (a b : Int) (h : Q G n p = some a) (h' : Q G n' p = some b) : a = b := by
  have h1 := Q_mono G n (max n n') p a h (by omega)
  have h2 := Q_mono G n' (max n n') p b h' (by omega)
  rw [h1] at h2
  exact Option.some.inj h2

/-- a mated position is worth `-CHECKMATE_SCORE`. -/
theorem Q_mated (n : Nat) (p : P) (h : qMated G p = true) : Q G (n + 1) p = some (-CHECKMATE_SCORE) := by
  rw [Q_succ, ← qMated_eq, h]; rfl

theorem not_qMated {p : P} (h : qMated G p = false) : ((qList G p).isEmpty && G.inCheck p) = false := by
  rw [← qMated_eq]; exact h

/-- stand-pat: a non-mated position is worth at least its static score. -/
theorem Q_ge_standpat (n : Nat) (p : P) (q : Int) (hnm : qMated G p = false) (h : Q G n p = some q) :
    G.eval p ≤ q := by
  cases n with
  | zero => cases h
  | succ n => exact (Q_children G n p q (not_qMated G hnm) h).2.2.1

/-- every move is a lower bound — relevant or not, and whatever fuel the child value was computed with. -/
theorem Q_ge_child (n : Nat) (p : P) (q : Int) (hnm : qMated G p = false) (h : Q G n p = some q) :
    ∀ m ∈ qList G p, ∀ n' v, Q G n' (G.play p m) = some v → -v ≤ q := by
  intro m hmem n' v hv
  cases n with
  | zero => cases h
  | succ n =>
    obtain ⟨_, hex, hev, hub, _⟩ := Q_children G n p q (not_qMated G hnm) h
    cases hr : qRel G p m
    · obtain ⟨hcm, hle⟩ := qRel_false G hr
      have := Q_ge_standpat G n' _ v hcm hv
      omega
    · obtain ⟨x, hx⟩ := hex m hmem hr
      have := hub m hmem hr x hx
      have := Q_det G n' n _ v x hv hx
      omega

/-- the value is attained: by the stand-pat or by a move. -/
theorem Q_attained (n : Nat) (p : P) (q : Int) (hnm : qMated G p = false) (h : Q G n p = some q) :
    q = G.eval p ∨ ∃ m ∈ qList G p, ∃ v, Q G (n - 1) (G.play p m) = some v ∧ q = -v := by
  cases n with
  | zero => cases h
  | succ n =>
    obtain ⟨_, _, _, _, hach⟩ := Q_children G n p q (not_qMated G hnm) h
    rcases hach with e | ⟨m, hmem, _, x, hx, e⟩
    · exact Or.inl e
    · exact Or.inr ⟨m, hmem, x, hx, e.symm⟩

/-- the three together: `q` is the greatest of the stand-pat and the negated child values, over ALL moves
    whose child has a value (every relevant child has one). -/
theorem Q_is_minimax (n : Nat) (p : P) (q : Int) (hnm : qMated G p = false) (h : Q G n p = some q) :
    G.eval p ≤ q ∧ (∀ m ∈ qList G p, ∀ n' v, Q G n' (G.play p m) = some v → -v ≤ q) ∧
    (q = G.eval p ∨ ∃ m ∈ qList G p, ∃ v, Q G (n - 1) (G.play p m) = some v ∧ q = -v) :=
  ⟨Q_ge_standpat G n p q hnm h, Q_ge_child G n p q hnm h, Q_attained G n p q hnm h⟩

/-! ### fuel accounting: a skipped child costs one unit, and that is the only difference

  `Spec.Q` asks for one unit of fuel for a child it skips (the child is a node the engine visits).  `Qfree`
  is the same recursion with skipped children for free.  The two have the same values; `Qfree` may be
  defined with one unit less, never more — but "`Qfree n p` is defined ⇒ `quiesce` answers with fuel `n`"
  is FALSE (`QTermExample`: `Qfree perpGame 1 p = some 0`, `perp_one_fuel`), which is why the reference is
  `Q`: every statement `Spec.Q G qf p = some q → qf ≤ fuel → …` of C05 keeps its form. -/

/-- `Q` with skipped children costing no fuel (comparison only). -/
def Qfree : Nat → P → Option Int
  | 0, _ => none
  | fuel + 1, p =>
    if (qList G p).isEmpty && G.inCheck p then some (-CHECKMATE_SCORE)
    else ((qList G p).filter (qRel G p)).foldl
      (foldStep (fun m => Qfree fuel (G.play p m))) (some (G.eval p))

theorem Qfree_succ (n : Nat) (p : P) :
    Qfree G (n + 1) p =
      if (qList G p).isEmpty && G.inCheck p then some (-CHECKMATE_SCORE)
      else ((qList G p).filter (qRel G p)).foldl
        (foldStep (fun m => Qfree G n (G.play p m))) (some (G.eval p)) := rfl

/-- a fold value survives replacing the child values by ones that extend them. -/
theorem foldl_congr_some (g g' : Move → Option Int) (ms : List Move) (a q : Int)
    (hgg : ∀ m ∈ ms, ∀ x, g m = some x → g' m = some x)
    (h : ms.foldl (foldStep g) (some a) = some q) : ms.foldl (foldStep g') (some a) = some q := by
  rw [← h]
  apply foldl_congr
  intro m hm
  obtain ⟨x, hx⟩ := (foldl_some _ _ _ _ h).1 m hm
  rw [hx, hgg m hm x hx]

theorem Q_le_Qfree (n : Nat) : ∀ (p : P) (q : Int), Q G n p = some q → Qfree G n p = some q := by
  induction n with
  | zero => intro p q h; cases h
  | succ n ih =>
    intro p q h
    rw [Q_succ] at h
    rw [Qfree_succ]
    split
    · rename_i hc; rw [if_pos hc] at h; exact h
    · rename_i hc
      rw [if_neg hc] at h
      exact foldl_congr_some _ _ _ _ _ (fun m _ x hx => ih _ x hx) (relFold_some _ _ _ _ _ _ h).2

theorem Qfree_le_Q (n : Nat) : ∀ (p : P) (q : Int), Qfree G n p = some q → Q G (n + 1) p = some q := by
  induction n with
  | zero => intro p q h; cases h
  | succ n ih =>
    intro p q h
    rw [Qfree_succ] at h
    rw [Q_succ_succ]
    split
    · rename_i hc; rw [if_pos hc] at h; exact h
    · rename_i hc
      rw [if_neg hc] at h
      exact foldl_congr_some _ _ _ _ _ (fun m _ x hx => ih _ x hx) h

/-! ### totality from a rank -/

variable {S : P → Prop} {ρ : P → Nat}

theorem Q_total_step (hR : QRank G S ρ) (k : Nat)
    (hprev : ∀ c, S c → ρ c < k → ∃ q, Q G (k + 1) c = some q) (p : P) (hp : S p) (hk : ρ p ≤ k) :
    ∃ q, Q G (k + 2) p = some q := by
  cases hm : qMated G p
  · apply Q_isSome G (k + 1) p (not_qMated G hm) (fun _ _ _ => by omega)
    intro m hmem hr
    rw [qRel_eq] at hr
    cases hcm : qMated G (G.play p m)
    · rw [hcm] at hr
      simp only [Bool.false_or, decide_eq_true_eq] at hr
      have := hR.decreases p hp m hmem hr
      exact hprev _ (hR.closed p hp m hmem) (by omega)
    · exact ⟨_, Q_mated G k _ hcm⟩
  · exact ⟨_, Q_mated G (k + 1) p hm⟩

theorem Q_total_aux (hR : QRank G S ρ) : ∀ (k : Nat) (p : P), S p → ρ p ≤ k → ∃ q, Q G (k + 2) p = some q := by
  intro k
  induction k with
  | zero => intro p hp hk; exact Q_total_step G hR 0 (fun _ _ h => by omega) p hp hk
  | succ k ih =>
    intro p hp hk
    exact Q_total_step G hR (k + 1) (fun c hc h => ih c hc (by omega)) p hp hk

/-- **the reference quiescence value exists on every position of a ranked game**, with `ρ p + 2` units of
    fuel (the engine's own bound, `quiesce_terminates`). -/
theorem Q_total (hR : QRank G S ρ) (p : P) (hp : S p) : ∃ q, Q G (ρ p + 2) p = some q :=
  Q_total_aux G hR (ρ p) p hp (Nat.le_refl _)

theorem QFinite_of_rank (hR : QRank G S ρ) (p : P) (hp : S p) : QFinite G p := by
  obtain ⟨q, hq⟩ := Q_total G hR p hp
  exact ⟨ρ p + 2, by rw [hq]; rfl⟩

/-- with a uniform bound on the rank, one fuel serves every position. -/
theorem Q_total_bound (hR : QRank G S ρ) (B : Nat) (hB : ∀ p, S p → ρ p ≤ B) (p : P) (hp : S p) :
    ∃ q, Q G (B + 2) p = some q := by
  obtain ⟨q, hq⟩ := Q_total G hR p hp
  exact ⟨q, Q_mono G _ _ p q hq (by have := hB p hp; omega)⟩

/-- **the depth-limited reference value exists** at every depth, on every position of a ranked game that is
    closed under the generated moves. -/
theorem V_total (hR : QRank G S ρ) (hM : MovesClosed G S) (B : Nat) (hB : ∀ p, S p → ρ p ≤ B) :
    ∀ (d : Nat) (p : P), S p → ∃ v, V G (B + 2) d p = some v := by
  intro d
  induction d with
  | zero => intro p hp; exact Q_total_bound G hR B hB p hp
  | succ d ih =>
    intro p hp
    cases hms : G.moves p with
    | nil =>
      rw [V_succ_nil G _ d p hms]
      split <;> exact ⟨_, rfl⟩
    | cons m0 ms =>
      have hmem : ∀ m ∈ m0 :: ms, m ∈ G.moves p := fun m h => by rw [hms]; exact h
      rw [V_succ_cons G _ d p m0 ms hms]
      obtain ⟨x0, hx0⟩ := ih (G.play p m0) (hM p hp m0 (hmem m0 List.mem_cons_self))
      rw [hx0]
      simp only [Option.map_some]
      exact foldl_isSome _ _ _ (fun m hm => ih _ (hM p hp m (hmem m (List.mem_cons_of_mem _ hm))))

end Flounder.Spec
