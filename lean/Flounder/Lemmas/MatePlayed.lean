/-
  C08 helpers, part 3: a mate in one is played (direct argument, no alpha-beta contract).

  Invariant of the iterations of `iterate` that completed (`IterInv`): the table holds records under
  the root key only; after iteration `cur - 1 ≥ 1` that record is `⟨hash p, sc, some m, cur - 1, exact⟩`
  with `m` a mating move, and `best = (sc, some m)`; the repetition stack is empty; history scores
  are within `i32`.
  * iteration 1 (`loop_first`): every child is a quiescence leaf; a non-mating child scores below
    `INFINITY` (stand-pat bound), a mating child scores `CHECKMATE_SCORE` and cuts.
  * iteration `d + 2` (`loop_tt`): the table move is first (`orderMoves_tt_first`), its child is mated,
    misses the table (`hnc`) and scores `CHECKMATE_SCORE - (d + 1) ≥ INFINITY`: immediate cut.
-/
import Flounder.Lemmas.MateBasic

namespace Flounder.Search
open Flounder Gen

section played
variable {P : Type} (G : Game P)

theorem polled_stop_true (s : SearchState) (h : stopFlag s = true) : (polled s).stopSeen = true := by
  simp [polled, h]

/-- iteration 1: the move loop of the root over quiescence leaves stops at the first mating move. -/
theorem loop_first (hE : EvalBound G) (qfuel : Nat) (p : P) :
    ∀ (rest : List Move) (acc : LoopAcc) (s : SearchState) (acc' : LoopAcc) (s' : SearchState),
      (∀ k, s.tt.retrieve k = none) → s.rep = [G.hash p] → HistOK s →
      (∃ m ∈ rest, Mated G (G.play p m)) →
      acc.alpha < INFINITY → acc.best.score < INFINITY →
      negamaxLoop G (negamax G qfuel 0) p 1 0 INFINITY rest acc s = (some acc', s') →
      s'.stopSeen = false →
      (∃ m ∈ rest, Mated G (G.play p m) ∧ acc'.best = ⟨CHECKMATE_SCORE, some m⟩) ∧
        s'.tt = s.tt ∧ HistOK s' := by
  intro rest
  induction rest with
  | nil =>
    intro acc s acc' s' _ _ _ hex
    obtain ⟨m, hm, _⟩ := hex
    cases hm
  | cons mv rest ih =>
    intro acc s acc' s' ht hrep hH hex hα hb hrun hfin
    have hin := inf_eq
    have hcm : CHECKMATE_SCORE = 2147482647 := rfl
    rw [negamaxLoop_cons] at hrun
    by_cases hsf : stopFlag s = true
    · rw [if_pos hsf] at hrun
      cases hrun
      rw [polled_stop_true s hsf] at hfin; cases hfin
    · rw [if_neg hsf] at hrun
      have hchild := negamax_zero_miss G qfuel (G.play p mv) (0 + 1) (-INFINITY) (-acc.alpha) (polled s)
        (isRepetition_single (polled s) (G.hash p) _ hrep) (ht _)
      rw [hchild] at hrun
      unfold leafResult at hrun
      have hQF := quiesce_frame G qfuel (G.play p mv) (-INFINITY) (-acc.alpha) (polled s).incrementNodes
      have hQH := quiesce_history G qfuel (G.play p mv) (-INFINITY) (-acc.alpha) (polled s).incrementNodes
      rcases hq : quiesce G qfuel (G.play p mv) (-INFINITY) (-acc.alpha) (polled s).incrementNodes
        with ⟨qo, s2⟩
      rw [hq] at hrun hQF hQH
      simp only at hQH
      have htt2 : s2.tt = s.tt := hQF.tt
      have hrep2 : s2.rep = [G.hash p] := by rw [hQF.rep]; exact hrep
      have hH2 : HistOK s2 := histOK_of_history hH hQH
      cases qo with
      | none => cases hrun
      | some v =>
        simp only at hrun
        by_cases hmated : Mated G (G.play p mv)
        · -- the mating move: cutoff
          have hv : v = -CHECKMATE_SCORE := by
            cases qfuel with
            | zero => rw [quiesce_zero] at hq; cases hq
            | succ f => rw [quiesce_mated G f _ _ _ _ hmated] at hq; cases hq; rfl
          subst hv
          have hcut : max acc.alpha (- -CHECKMATE_SCORE) ≥ INFINITY := by omega
          rw [if_pos hcut] at hrun
          have hgt : - -CHECKMATE_SCORE > acc.best.score := by omega
          rw [if_pos hgt] at hrun
          cases hrun
          refine ⟨⟨mv, List.mem_cons_self, hmated, ?_⟩, ?_, histOK_cut hH2 mv 0 1⟩
          · simp only [Int.neg_neg]
          · rw [(qframe_cut s2 mv 0 1).tt]; exact htt2
        · -- a non-mating move: its score stays below INFINITY
          have hlb := quiesce_lb G qfuel _ _ _ _ v s2 hmated hq
          have hev := (hE (G.play p mv)).1
          have hsc : -v < INFINITY := by
            rcases hlb with e | e <;> omega
          have hncut : ¬ max acc.alpha (-v) ≥ INFINITY := by omega
          rw [if_neg hncut] at hrun
          have hex' : ∃ m ∈ rest, Mated G (G.play p m) := by
            obtain ⟨m, hm, hmm⟩ := hex
            rcases List.mem_cons.1 hm with e | e
            · subst e; exact absurd hmm hmated
            · exact ⟨m, e, hmm⟩
          obtain ⟨⟨m, hm, hmm, hbest⟩, htt', hH'⟩ := ih _ s2 acc' s'
            (fun k => by rw [htt2]; exact ht k) hrep2 hH2 hex'
            (by simp only; omega) (by simp only; split <;> (try simp only) <;> omega) hrun hfin
          exact ⟨⟨m, List.mem_cons_of_mem _ hm, hmm, hbest⟩, htt'.trans htt2, hH'⟩

/-- iteration `d + 2`: the table move `m` (a mating move) is first and cuts at once. -/
theorem loop_tt (qfuel d : Nat) (p : P) (m : Move) (tl : List Move) (first : Option Move)
    (s : SearchState) (acc' : LoopAcc) (s' : SearchState)
    (hDb : ((d + 1 : Nat) : Int) + INFINITY ≤ CHECKMATE_SCORE)
    (hm : Mated G (G.play p m)) (ht : s.tt.retrieve (G.hash (G.play p m)) = none)
    (hrep : s.rep = [G.hash p]) (hH : HistOK s)
    (hrun : negamaxLoop G (negamax G qfuel d) p (d + 1) 0 INFINITY (m :: tl)
      ⟨NEGATIVE_INFINITY, ⟨NEGATIVE_INFINITY, first⟩⟩ s = (some acc', s'))
    (hfin : s'.stopSeen = false) :
    acc'.best = ⟨CHECKMATE_SCORE - (d : Int), some m⟩ ∧ s'.tt = s.tt ∧ HistOK s' := by
  have hin := inf_eq
  have hni := negInf_eq
  rw [negamaxLoop_cons] at hrun
  by_cases hsf : stopFlag s = true
  · rw [if_pos hsf] at hrun
    cases hrun
    rw [polled_stop_true s hsf] at hfin; cases hfin
  · rw [if_neg hsf] at hrun
    obtain ⟨h1, h2, h3⟩ := negamax_mated G qfuel d (G.play p m) (0 + 1) (-INFINITY) (- NEGATIVE_INFINITY)
      (polled s) hm (isRepetition_single (polled s) (G.hash p) _ hrep) ht
    simp only at hrun
    rcases hc : negamax G qfuel d (G.play p m) (0 + 1) (-INFINITY) (- NEGATIVE_INFINITY) (polled s)
      with ⟨ro, s2⟩
    rw [hc] at hrun h1 h2 h3
    simp only at h1 h2 h3
    cases ro with
    | none => cases hrun
    | some r =>
      simp only at hrun
      have hr := h3 r rfl
      have hcut : max NEGATIVE_INFINITY (-r.score) ≥ INFINITY := by
        rw [hr]; push_cast at hDb; omega
      rw [if_pos hcut] at hrun
      have hgt : -r.score > NEGATIVE_INFINITY := by
        rw [hr]; push_cast at hDb; omega
      rw [if_pos hgt] at hrun
      cases hrun
      have hH2 : HistOK s2 := histOK_of_history hH h2
      refine ⟨?_, ?_, histOK_cut hH2 m 0 (d + 1)⟩
      · simp only [hr, SearchResult.mk.injEq, and_true]; omega
      · rw [(qframe_cut s2 m 0 (d + 1)).tt]; exact h1

/-- the end of a completed inner node. -/
theorem finishNode_completed (p : P) (d1 : Nat) (α β : Int) (acc : LoopAcc) (s : SearchState)
    (r : SearchResult) (s' : SearchState) (hrun : finishNode G p d1 α β acc s = (some r, s'))
    (hfin : s'.stopSeen = false) :
    r = acc.best ∧ s.stopSeen = false ∧ s'.history = s.history ∧
    s'.tt = s.tt.store (G.hash p) acc.best.score acc.best.bestMove d1 (determineBound acc.best.score α β) := by
  unfold finishNode at hrun
  by_cases hsf : stopFlag s = true
  · rw [if_pos hsf] at hrun
    cases hrun
    rw [polled_stop_true s hsf] at hfin; cases hfin
  · rw [if_neg hsf] at hrun
    cases hrun
    refine ⟨rfl, ?_, rfl, rfl⟩
    have : (polled s).stopSeen = false := hfin
    exact (qframe_polled s).noStop this

/-- the root table: records under the root key `K` only, of depth at most `d`. -/
def RootTab (K : UInt64) (d : Nat) (t : TT) : Prop :=
  (∀ k, k ≠ K → t.table[k]? = none) ∧ ∀ prev, t.table[K]? = some prev → prev.depth ≤ d

theorem rootTab_store {K : UInt64} {d : Nat} {t : TT} (h : RootTab K d t) (ev : Int) (mv : Option Move)
    (b : Bounds) : RootTab K d (t.store K ev mv d b) :=
  ⟨fun k hk => by rw [store_get_other t K ev mv d b k hk]; exact h.1 k hk,
    store_depth_le t K ev mv d b h.2⟩

/-- **one root search** of depth `cur ≥ 1` in a state satisfying the iteration invariant: the answer
    is a mating move; the table still only knows the root. -/
theorem root_mate (hE : EvalBound G) (qfuel : Nat) (p : P) (cur : Nat)
    (hnc : 2 ≤ cur → ∀ m, m ∈ G.moves p → G.hash (G.play p m) ≠ G.hash p)
    (hmate : ∃ m, m ∈ G.moves p ∧ Mated G (G.play p m))
    (hDb : (cur : Int) + INFINITY ≤ CHECKMATE_SCORE) (s : SearchState)
    (hrep : s.rep = [G.hash p]) (hH : HistOK s) (hoth : ∀ k, k ≠ G.hash p → s.tt.table[k]? = none)
    (hroot : (cur = 1 ∧ s.tt.table[G.hash p]? = none) ∨
      (2 ≤ cur ∧ ∃ sc m, s.tt.table[G.hash p]? = some ⟨G.hash p, sc, some m, cur - 1, .exact⟩ ∧
        m ∈ G.moves p ∧ Mated G (G.play p m)))
    (r : SearchResult) (s' : SearchState)
    (hrun : negamax G qfuel cur p 0 NEGATIVE_INFINITY INFINITY s = (some r, s'))
    (hfin : s'.stopSeen = false) :
    (∃ m, r.bestMove = some m ∧ m ∈ G.moves p ∧ Mated G (G.play p m)) ∧ HistOK s' ∧
      RootTab (G.hash p) cur s'.tt ∧ (cur = 1 → r.score = CHECKMATE_SCORE) := by
  obtain ⟨mm, hmm, hmmM⟩ := hmate
  obtain ⟨m0, tl0, hms⟩ : ∃ m0 tl0, G.moves p = m0 :: tl0 := by
    cases h : G.moves p with
    | nil => rw [h] at hmm; cases hmm
    | cons a l => exact ⟨a, l, rfl⟩
  rcases hroot with ⟨hc1, hnone⟩ | ⟨hc2, sc, m, hent, hmem, hmM⟩
  · -- iteration 1: empty table
    subst hc1
    have ht : ∀ k, s.tt.retrieve k = none := by
      intro k
      apply retrieve_of_get_none
      by_cases hk : k = G.hash p
      · rw [hk]; exact hnone
      · exact hoth k hk
    rw [negamax_succ_miss G qfuel 0 p 0 _ _ s (isRepetition_single s (G.hash p) _ hrep) (ht _),
      innerResult_cons G _ 0 p 0 _ _ none _ m0 tl0 hms] at hrun
    have hperm := orderMoves_perm G s.incrementNodes p (G.moves p) none 0
    generalize orderMoves G s.incrementNodes p (G.moves p) none 0 = ordered at hrun hperm
    rcases hl : negamaxLoop G (negamax G qfuel 0) p (0 + 1) 0 INFINITY ordered
      ⟨NEGATIVE_INFINITY, ⟨NEGATIVE_INFINITY, some (ordered.headD m0)⟩⟩ s.incrementNodes with ⟨ro, s2⟩
    rw [hl] at hrun
    cases ro with
    | none => cases hrun
    | some acc' =>
      simp only at hrun
      obtain ⟨hr, hs2, hhist, htt⟩ := finishNode_completed G p (0 + 1) _ _ acc' s2 r s' hrun hfin
      obtain ⟨⟨m, hm, hmM, hbest⟩, htt2, hH2⟩ := loop_first G hE qfuel p ordered _ s.incrementNodes acc' s2
        ht hrep hH ⟨mm, hperm.mem_iff.2 hmm, hmmM⟩ (show NEGATIVE_INFINITY < INFINITY by decide)
        (show NEGATIVE_INFINITY < INFINITY by decide) hl hs2
      refine ⟨⟨m, by rw [hr, hbest], hperm.mem_iff.1 hm, hmM⟩, histOK_of_history hH2 hhist, ?_,
        fun _ => by rw [hr, hbest]⟩
      rw [htt, htt2]
      apply rootTab_store
      exact ⟨hoth, fun prev hp => by
        have : s.incrementNodes.tt.table[G.hash p]? = none := hnone
        rw [this] at hp; cases hp⟩
  · -- iteration d + 2: the root record of the previous iteration
    obtain ⟨d, rfl⟩ : ∃ d, cur = d + 2 := ⟨cur - 2, by omega⟩
    have hret : s.tt.retrieve (G.hash p) = some ⟨G.hash p, sc, some m, d + 2 - 1, .exact⟩ :=
      retrieve_of_get_some _ _ _ hent rfl
    rw [negamax_succ_shallow G qfuel (d + 1) p _ _ s _ hret (by simp only; omega),
      innerResult_cons G _ (d + 1) p 0 _ _ _ _ m0 tl0 hms] at hrun
    simp only at hrun
    obtain ⟨tl, hord⟩ := orderMoves_tt_first G s.incrementNodes hH p (G.moves p) m hmem 0
    rw [hord] at hrun
    rcases hl : negamaxLoop G (negamax G qfuel (d + 1)) p (d + 1 + 1) 0 INFINITY (m :: tl)
      ⟨NEGATIVE_INFINITY, ⟨NEGATIVE_INFINITY, some ((m :: tl).headD m0)⟩⟩ s.incrementNodes with ⟨ro, s2⟩
    rw [hl] at hrun
    cases ro with
    | none => cases hrun
    | some acc' =>
      simp only at hrun
      obtain ⟨hr, hs2, hhist, htt⟩ := finishNode_completed G p (d + 1 + 1) _ _ acc' s2 r s' hrun hfin
      have htc : s.incrementNodes.tt.retrieve (G.hash (G.play p m)) = none :=
        retrieve_of_get_none _ _ (hoth _ (hnc (by omega) m hmem))
      obtain ⟨hbest, htt2, hH2⟩ := loop_tt G qfuel (d + 1) p m tl _ s.incrementNodes acc' s2
        (by push_cast at hDb ⊢; omega) hmM htc hrep hH hl hs2
      refine ⟨⟨m, by rw [hr, hbest], hmem, hmM⟩, histOK_of_history hH2 hhist, ?_, fun h => by omega⟩
      rw [htt, htt2]
      apply rootTab_store
      exact ⟨hoth, fun prev hp => by
        have : s.incrementNodes.tt.table[G.hash p]? = s.tt.table[G.hash p]? := rfl
        rw [this, hent] at hp; cases hp; simp only; omega⟩

/-! ### the iteration loop -/

/-- the state between two iterations; `cur` is the depth about to be searched. -/
structure IterInv (p : P) (cur : Nat) (best : Int × Option Move) (s : SearchState) : Prop where
  rep : s.rep = []
  hist : HistOK s
  others : ∀ k, k ≠ G.hash p → s.tt.table[k]? = none
  root1 : cur = 1 → s.tt.table[G.hash p]? = none
  rootS : 2 ≤ cur → ∃ sc m, s.tt.table[G.hash p]? = some ⟨G.hash p, sc, some m, cur - 1, .exact⟩ ∧
    m ∈ G.moves p ∧ Mated G (G.play p m) ∧ best = (sc, some m)

theorem iterate_mate (hE : EvalBound G) (qfuel : Nat) (p : P)
    (hnc : ∀ m, m ∈ G.moves p → G.hash (G.play p m) ≠ G.hash p)
    (hmate : ∃ m, m ∈ G.moves p ∧ Mated G (G.play p m))
    (D : Nat) (hDb : (D : Int) + INFINITY ≤ CHECKMATE_SCORE) :
    ∀ (n cur : Nat) (best : Int × Option Move) (s : SearchState) (b : Int × Option Move)
      (s' : SearchState),
      1 ≤ cur → cur + n = D + 1 → (cur = 1 → 1 ≤ n) → IterInv G p cur best s → s.stopSeen = false →
      iterate G qfuel p D n cur best s = (some b, s') → s'.stopSeen = false →
      ∃ sc m, b = (sc, some m) ∧ m ∈ G.moves p ∧ Mated G (G.play p m) := by
  intro n
  induction n with
  | zero =>
    intro cur best s b s' h1 hcn hn1 hI _ hrun _
    rw [iterate_zero] at hrun
    cases hrun
    have h2 : 2 ≤ cur := by
      rcases Nat.lt_or_ge cur 2 with h | h
      · have := hn1 (by omega); omega
      · exact h
    obtain ⟨sc, m, _, hm, hmM, hb⟩ := hI.rootS h2
    exact ⟨sc, m, hb, hm, hmM⟩
  | succ n ih =>
    intro cur best s b s' h1 hcn _ hI hs hrun hfin
    rw [iterate_succ] at hrun
    have hle : ¬ cur > D := by omega
    rw [if_neg hle] at hrun
    by_cases hsf : stopFlag s = true
    · rw [if_pos hsf] at hrun
      cases hrun
      rw [polled_stop_true s hsf] at hfin; cases hfin
    · rw [if_neg hsf] at hrun
      rw [searchPosition_eq] at hrun
      have hNF := negamax_frame G qfuel cur p 0 NEGATIVE_INFINITY INFINITY (pushed G p (polled s))
      rcases hn : negamax G qfuel cur p 0 NEGATIVE_INFINITY INFINITY (pushed G p (polled s)) with ⟨ro, s2⟩
      rw [hn] at hrun hNF
      simp only at hrun
      cases ro with
      | none => cases hrun
      | some r =>
        simp only at hrun
        -- the state after the pop
        generalize hs3 : ({ s2 with rep := s2.rep.drop 1 } : SearchState) = s3 at hrun
        have hstop3 : s3.stopSeen = s2.stopSeen := by rw [← hs3]
        have hIF := iterate_frame G qfuel p D n (cur + 1)
        by_cases hsf2 : stopFlag s3 = true
        · -- a stop right after the search: the run is not completed
          rw [if_neg (by rw [hsf2]; decide)] at hrun
          have f := hIF best (polled s3)
          rw [hrun] at f
          have := f.stop (polled_stop_true s3 hsf2)
          rw [this] at hfin; cases hfin
        · have hsf2' : stopFlag s3 = false := by
            cases h : stopFlag s3
            · rfl
            · exact absurd h hsf2
          rw [hsf2'] at hrun
          simp only [Bool.not_false, ↓reduceIte] at hrun
          have f := hIF (r.score, r.bestMove) (cached G p cur r (polled s3))
          rw [hrun] at f
          have hc3 : (cached G p cur r (polled s3)).stopSeen = false := f.noStop hfin
          have hs3f : s3.stopSeen = false := (cached_qframe_polled G p cur r s3).noStop hc3
          have hs2f : s2.stopSeen = false := by rw [← hstop3]; exact hs3f
          -- the root search
          have hroot : (cur = 1 ∧ (pushed G p (polled s)).tt.table[G.hash p]? = none) ∨
              (2 ≤ cur ∧ ∃ sc m, (pushed G p (polled s)).tt.table[G.hash p]? =
                some ⟨G.hash p, sc, some m, cur - 1, .exact⟩ ∧ m ∈ G.moves p ∧ Mated G (G.play p m)) := by
            rcases Nat.lt_or_ge cur 2 with h | h
            · left; exact ⟨by omega, hI.root1 (by omega)⟩
            · right
              obtain ⟨sc, m, he, hm, hmM, _⟩ := hI.rootS h
              exact ⟨h, sc, m, he, hm, hmM⟩
          obtain ⟨⟨m, hrm, hm, hmM⟩, hH2, hRT, _⟩ := root_mate G hE qfuel p cur (fun _ => hnc) hmate
            (by have : (cur : Int) ≤ (D : Int) := by omega
                omega)
            (pushed G p (polled s)) (by simp [pushed, polled, hI.rep]) hI.hist hI.others hroot r s2 hn hs2f
          have hrep3 : s3.rep = [] := by
            rw [← hs3]
            simp only
            rw [hNF.rep]
            simp [pushed, polled, hI.rep]
          have hI' : IterInv G p (cur + 1) (r.score, r.bestMove) (cached G p cur r (polled s3)) := by
            have htt3 : s3.tt = s2.tt := by rw [← hs3]
            have hh3 : s3.history = s2.history := by rw [← hs3]
            refine ⟨hrep3, histOK_of_history hH2 hh3, ?_, fun h => by omega, fun _ => ?_⟩
            · intro k hk
              show ((polled s3).tt.store (G.hash p) r.score r.bestMove cur .exact).table[k]? = none
              rw [store_get_other _ _ _ _ _ _ k hk]
              show s3.tt.table[k]? = none
              rw [htt3]; exact hRT.1 k hk
            · refine ⟨r.score, m, ?_, hm, hmM, by rw [hrm]⟩
              show ((polled s3).tt.store (G.hash p) r.score r.bestMove cur .exact).table[G.hash p]? = _
              rw [store_get_self _ _ _ _ _ _ (by
                intro prev hp
                have : (polled s3).tt = s2.tt := htt3
                rw [this] at hp
                exact hRT.2 prev hp), hrm]
              simp
          exact ih (cur + 1) _ _ b s' (by omega) (by omega) (fun h => by omega) hI' hc3 hrun hfin

/-- **a mate in one is played** — in terms of `Mated`. -/
theorem findBestMove_mate (hE : EvalBound G) (qfuel : Nat) (p : P)
    (hnc : ∀ m, m ∈ G.moves p → G.hash (G.play p m) ≠ G.hash p)
    (hmate : ∃ m, m ∈ G.moves p ∧ Mated G (G.play p m))
    (D : Nat) (hD : 1 ≤ D) (hDb : (D : Int) + INFINITY ≤ CHECKMATE_SCORE) (limit : Limit)
    (score : Int) (mv : Option Move) (s' : SearchState)
    (hrun : findBestMove G qfuel p D limit {} = (some (score, mv), s')) (hfin : s'.stopSeen = false) :
    ∃ m, mv = some m ∧ m ∈ G.moves p ∧ Mated G (G.play p m) := by
  rw [findBestMove_eq] at hrun
  rcases hit : iterate G qfuel p D D 1 (NEGATIVE_INFINITY, none) (started limit {}) with ⟨ro, s2⟩
  rw [hit] at hrun
  have hs2 : s2 = s' := by
    rcases ro with _ | ⟨sc, _ | m⟩ <;> simp only at hrun <;> cases hrun <;> rfl
  subst hs2
  have hI : IterInv G p 1 (NEGATIVE_INFINITY, none) (started limit {}) := by
    refine ⟨rfl, ?_, fun k _ => tt_empty_get k, fun _ => tt_empty_get _, fun h => by omega⟩
    exact histOK_ageHistory (histOK_of_history histOK_fresh rfl)
  cases ro with
  | none => cases hrun
  | some b =>
    obtain ⟨sc, m, hb, hm, hmM⟩ := iterate_mate G hE qfuel p hnc hmate D hDb D 1 _ _ b s2
      (Nat.le_refl _) (by omega) (fun _ => hD) hI rfl hit hfin
    subst hb
    simp only at hrun
    cases hrun
    exact ⟨m, rfl, hm, hmM⟩

end played
end Flounder.Search
