/-
  Termination rank of the quiescence search for chess.

  `search_until_quiet` has no depth limit.  A child node gets past its stand-pat test only when the move strictly
  improved the MOVER's static score (`Search.QRank.decreases`), so the recursion depth is bounded by a rank that
  decreases along exactly those moves:

      qRank b = (men b + pawns b) * QW + (QC − (X white b + X black b)).toNat

  where `X d b = op(b) * O d b + eg(b) * E d b` is the (undivided) tapered table total of colour `d`'s men
  (`sideX`), so that `evalFn b = (X active − X other).tdiv 24` (`evalFn_eq`).

    * a capture, an en-passant capture or a promotion strictly decreases `men + pawns` (`qFirst`), and the second
      component always stays below `QW` on good boards;
    * a quiet move or castling changes neither `men + pawns`, nor the game phase, nor anything of the side that
      did not move; so "the mover's score strictly improved" means `X mover` strictly increased, and the second
      component strictly decreases.

  Layers: Lemmas/QTermSums.lean (the quantities as sums over the mailbox), Lemmas/QTermMove.lean (what a move
  does to such sums), this file (evaluation, bounds, the rank).
-/
import Flounder.Lemmas.QTermMove
import Flounder.Lemmas.QTermDefs

namespace Flounder.Chess
open Flounder Flounder.Spec Flounder.Search Flounder.Props.C04 Gen

/-! ### the evaluation as a difference of two side values -/

/-- `opening_phase` of eval.rs. -/
def opPhase (b : Board) : Int := min (phaseOf b) PHASE_CAP

/-- tapered (undivided) table total of one colour's men:
    `opening_phase * Σ PST_open + endgame_phase * Σ PST_end`. -/
def sideX (b : Board) (c : Color) : Int :=
  sideTotal OPENING_TABLES b c * opPhase b + sideTotal ENDGAME_TABLES b c * (PHASE_TOTAL - opPhase b)

/-- **the static score** is the truncated 24th of (side to move's value − other side's value). -/
theorem evalFn_eq (b : Board) : evalFn b = (sideX b b.active - sideX b b.active.other).tdiv 24 := by
  unfold evalFn taper
  simp only [gamephase_eq, accumulate_opening, accumulate_endgame, sum_dOpening, sum_dEndgame]
  show (_ : Int).tdiv 24 = _
  congr 1
  unfold sideX opPhase
  simp only [Int.sub_mul]
  omega

theorem tdiv24_eq (x : Int) : x.tdiv 24 = if 0 ≤ x then x / 24 else -((-x) / 24) := by
  split
  · rename_i h; exact Int.tdiv_eq_ediv_of_nonneg h
  · have e : x = -(-x) := by omega
    rw [e, Int.neg_tdiv, Int.tdiv_eq_ediv_of_nonneg (by omega)]
    simp

/-- truncating division by 24 is monotone. -/
theorem lt_of_tdiv24_lt {a b : Int} (h : a.tdiv 24 < b.tdiv 24) : a < b := by
  rw [tdiv24_eq a, tdiv24_eq b] at h
  split at h <;> split at h <;> omega

/-- "the move strictly improved the mover's static score", read on the undivided side values. -/
theorem improve_sideX {b b' : Board} (ha : b'.active = b.active.other) (h : evalFn b < -(evalFn b')) :
    sideX b b.active - sideX b b.active.other < sideX b' b.active - sideX b' b.active.other := by
  rw [evalFn_eq b, evalFn_eq b', ha, Color.other_other, ← Int.neg_tdiv] at h
  have := lt_of_tdiv24_lt h
  omega

/-! ### bounds on good boards -/

theorem opening_lo : 15 * nkMin OPENING_TABLES + kMin OPENING_TABLES = -65 := by decide +kernel
theorem opening_hi : 15 * nkMax OPENING_TABLES + kMax OPENING_TABLES = 16296 := by decide +kernel
theorem endgame_lo : 15 * nkMin ENDGAME_TABLES + kMin ENDGAME_TABLES = -74 := by decide +kernel
theorem endgame_hi : 15 * nkMax ENDGAME_TABLES + kMax ENDGAME_TABLES = 14955 := by decide +kernel

theorem phaseOf_nonneg (b : Board) : 0 ≤ phaseOf b := by
  rw [← gamephase_eq]; exact gamephase_nonneg b

theorem opPhase_bounds (b : Board) : 0 ≤ opPhase b ∧ opPhase b ≤ 24 := by
  have := phaseOf_nonneg b
  have e : PHASE_CAP = 24 := by decide
  unfold opPhase
  rw [e]
  omega

/-- on a good board each side's tapered total lies in `[24 · (−74), 24 · 16296]`. -/
theorem sideX_bounds {b : Board} (h : Good b) (c : Color) : -1776 ≤ sideX b c ∧ sideX b c ≤ 391104 := by
  have h1 := sideTotal_bounds opening_tableOK b c (king_count_of_valid h.1 c) (h.2 c)
  have h2 := sideTotal_bounds endgame_tableOK b c (king_count_of_valid h.1 c) (h.2 c)
  rw [opening_lo, opening_hi] at h1
  rw [endgame_lo, endgame_hi] at h2
  obtain ⟨p0, p24⟩ := opPhase_bounds b
  have e : PHASE_TOTAL = 24 := by decide
  unfold sideX
  rw [e]
  have q0 : 0 ≤ 24 - opPhase b := by omega
  have a1 := Int.mul_le_mul_of_nonneg_right h1.1 p0
  have a2 := Int.mul_le_mul_of_nonneg_right h1.2 p0
  have a3 := Int.mul_le_mul_of_nonneg_right h2.1 q0
  have a4 := Int.mul_le_mul_of_nonneg_right h2.2 q0
  generalize sideTotal OPENING_TABLES b c * opPhase b = u at *
  generalize sideTotal ENDGAME_TABLES b c * (24 - opPhase b) = v at *
  omega

/-! ### the rank -/

/-- an upper bound of `sideX b white + sideX b black` on good boards. -/
def QC : Int := 782208
/-- one more than the range of the second component. -/
def QW : Nat := 785761

/-- **the termination rank of the quiescence search**: (men + pawns, lexicographically before) how far the two
    sides' tapered table totals are below their maximum. -/
def qRank (b : Board) : Nat :=
  qFirst b * QW + (QC - (sideX b .white + sideX b .black)).toNat

/-- an explicit bound of the rank on good boards. -/
def QRANK_BOUND : Nat := 49502942

theorem second_bounds {b : Board} (h : Good b) :
    0 ≤ QC - (sideX b .white + sideX b .black) ∧ QC - (sideX b .white + sideX b .black) < (QW : Int) := by
  have := sideX_bounds h .white
  have := sideX_bounds h .black
  unfold QC QW
  omega

theorem qFirst_le {b : Board} (h : Good b) : qFirst b ≤ 62 := by
  have hw := h.2 .white
  have hb := h.2 .black
  have kw := king_count_of_valid h.1 .white
  have kb := king_count_of_valid h.1 .black
  unfold qFirst
  simp only [menCount, Piece.all, List.map_cons, List.map_nil, List.sum_cons, List.sum_nil] at hw hb ⊢
  omega

/-- **the rank is bounded on the boards that can occur.** -/
theorem qRank_le (b : Board) (h : Good b) : qRank b ≤ QRANK_BOUND := by
  have h1 := qFirst_le h
  have h2 := second_bounds h
  unfold qRank QRANK_BOUND
  unfold QW at h2 ⊢
  omega

/-! ### the moves quiescence follows -/

theorem qList_subset (k : ZKeys) (b : Board) {m : Move} (h : m ∈ qList (cg k) b) : m ∈ (cg k).moves b := by
  unfold qList at h
  split at h
  · exact h
  · exact qmoves_subset k b h

theorem sideX_eq_of {b b' : Board} (c : Color) (hp : phaseOf b' = phaseOf b)
    (ho : sideTotal OPENING_TABLES b' c = sideTotal OPENING_TABLES b c)
    (he : sideTotal ENDGAME_TABLES b' c = sideTotal ENDGAME_TABLES b c) : sideX b' c = sideX b c := by
  unfold sideX opPhase
  rw [hp, ho, he]

theorem sideX_sum (b : Board) (c : Color) :
    sideX b .white + sideX b .black = sideX b c + sideX b c.other := by
  cases c <;> simp only [Color.other] <;> omega

/-- **the rank decreases along every quiescence move that strictly improves the mover's static score.** -/
theorem qRank_decreases (k : ZKeys) (b : Board) (hb : Good b) (m : Move) (hm : m ∈ (cg k).moves b)
    (himp : evalFn b < -(evalFn ((cg k).play b m))) : qRank ((cg k).play b m) < qRank b := by
  have hl : Spec.legal (Spec.abs b) m = true := (mem_moves_iff k hb.1 m).1 hm
  obtain ⟨_, hv', hag⟩ := play_legal k hb.1 hl
  have hb' : Good ((cg k).play b m) := good_play_moves k b m hb hm
  generalize (cg k).play b m = b' at *
  obtain ⟨hc, hvp⟩ := (valid_iff b).1 hb.1
  obtain ⟨hc', _⟩ := (valid_iff b').1 hv'
  obtain ⟨pc, hf⟩ := playFacts hvp (legal_pseudo hl)
  have hagree : Agree (absBoard b') (playBoard (Spec.abs b) m) := hag.1
  have hact : b'.active = b.active.other := hag.2.1
  have hs' := second_bounds hb'
  have hs := second_bounds hb
  -- men + pawns, on the mailbox
  have f' : ((qFirst b' : Nat) : Int) = wsum mw (playBoard (Spec.abs b) m) := by
    rw [qFirst_sq hc']; exact wsum_congr mw hagree
  have f : ((qFirst b : Nat) : Int) = wsum mw (Spec.abs b).board := qFirst_sq hc
  by_cases hk : m.kind = .quiet ∨ m.kind = .castle
  · -- nothing is taken and nothing promoted: the mover's side value strictly increased
    have e1 : qFirst b' = qFirst b := by
      have := wsum_play_eq mw hf hk
      omega
    have hp : phaseOf b' = phaseOf b := by
      rw [phaseOf_sq hc', phaseOf_sq hc]
      exact (wsum_congr mph hagree).trans (wsum_play_eq mph hf hk)
    have ht : ∀ T, sideTotal T b' b.active.other = sideTotal T b b.active.other := by
      intro T
      rw [sideTotal_sq hc', sideTotal_sq hc]
      apply sum_map_congr
      intro s hs
      rw [hagree s (mem_squares.1 hs)]
      exact mval_other_play_eq T hf hk s
    have e2 : sideX b' b.active.other = sideX b b.active.other := sideX_eq_of _ hp (ht _) (ht _)
    have h3 := improve_sideX hact himp
    have s1 := sideX_sum b b.active
    have s2 := sideX_sum b' b.active
    unfold qRank
    rw [e1]
    omega
  · -- a man or a pawn disappears
    have hk' : m.kind = .capture ∨ m.kind = .enPassant ∨ m.kind = .promotion := by
      cases hkd : m.kind <;> simp [hkd] at hk ⊢
    have h1 := mw_play_lt hf hk'
    have h2 : qFirst b' + 1 ≤ qFirst b := by omega
    have h3 : (qFirst b' + 1) * QW ≤ qFirst b * QW := Nat.mul_le_mul_right _ h2
    rw [Nat.add_mul, Nat.one_mul] at h3
    unfold qRank
    omega

/-- **the chess termination rank.** -/
theorem chess_qrank (k : ZKeys) : Search.QRank (cg k) Good qRank where
  closed := fun b hb m hm => good_play_moves k b m hb (qList_subset k b hm)
  decreases := fun b hb m hm himp => qRank_decreases k b hb m (qList_subset k b hm) himp

/-- `Good` is closed under every generated move. -/
theorem good_movesClosed (k : ZKeys) : Search.MovesClosed (cg k) Good :=
  fun b hb m hm => good_play_moves k b m hb hm

/-! ### non-vacuity -/

/-- the invariant is inhabited … -/
example : Good Board.startpos := good_startpos

/-- … the rank of the start position (informative). -/
theorem qRank_startpos : qRank Board.startpos = 38311920 := by decide +kernel

example : qRank Board.startpos ≤ QRANK_BOUND := qRank_le _ good_startpos
example : qRank Board.startpos ≤ QRANK_BOUND := by decide +kernel

end Flounder.Chess
