/-
  C08 helpers, part 1: the table move is searched FIRST.

  * a strictly minimal element of a list is the head of its merge sort (`mergeSort_head_of_strict_min`);
  * `HistOK` — every history score is `≤ i32Max` (true for the fresh table, kept by `record_cutoff`,
    which saturates, and by `age`), hence the ordering key of every move other than the table move
    is strictly above `ORDER_TT = i32::MIN`;
  * `orderMoves_tt_first` — with a table move `m ∈ ms` the ordered list is `m :: _`.
-/
import Flounder.Lemmas.SearchBasic

namespace Flounder.Search
open Flounder Gen

/-! ### merge sort puts a strictly minimal element first -/

theorem mergeSort_head_of_strict_min {α : Type} (key : α → Int) (l : List α) (x : α) (hx : x ∈ l)
    (hmin : ∀ y ∈ l, y ≠ x → key x < key y) :
    ∃ tl, l.mergeSort (fun a b => decide (key a ≤ key b)) = x :: tl := by
  have hperm := List.mergeSort_perm l (fun a b => decide (key a ≤ key b))
  have hsorted : List.Pairwise (fun a b => decide (key a ≤ key b) = true)
      (l.mergeSort (fun a b => decide (key a ≤ key b))) := by
    apply List.pairwise_mergeSort
    · intro a b c h1 h2
      simp only [decide_eq_true_eq] at h1 h2 ⊢
      omega
    · intro a b
      simp only [Bool.or_eq_true, decide_eq_true_eq]
      omega
  generalize l.mergeSort (fun a b => decide (key a ≤ key b)) = sorted at hperm hsorted
  cases sorted with
  | nil =>
    have := hperm.mem_iff.2 hx
    cases this
  | cons h tl =>
    by_cases e : h = x
    · subst e; exact ⟨tl, rfl⟩
    · exfalso
      have hh : h ∈ l := hperm.mem_iff.1 List.mem_cons_self
      have hlt := hmin h hh e
      have hxs : x ∈ h :: tl := hperm.mem_iff.2 hx
      rcases List.mem_cons.1 hxs with e' | e'
      · exact e e'.symm
      · have := (List.pairwise_cons.1 hsorted).1 x e'
        simp only [decide_eq_true_eq] at this
        omega

/-! ### history scores stay within `i32` -/

/-- every history score is at most `i32::MAX`. -/
def HistOK (s : SearchState) : Prop := ∀ i, s.history.getD i 0 ≤ SearchState.i32Max

theorem i32Max_eq : SearchState.i32Max = 2147483647 := rfl

theorem histOK_of_history {s s' : SearchState} (h : HistOK s) (e : s'.history = s.history) : HistOK s' := by
  intro i; rw [e]; exact h i

theorem histOK_fresh : HistOK ({} : SearchState) := by
  intro i
  show (Array.replicate 4096 (0 : Int)).getD i 0 ≤ _
  rw [Array.getD_eq_getD_getElem?, Array.getElem?_replicate]
  split <;> simp [i32Max_eq]

theorem tdiv2_le (v : Int) (h : v ≤ 2147483647) : v.tdiv 2 ≤ 2147483647 := by
  rcases Int.le_total 0 v with h0 | h0
  · rw [Int.tdiv_eq_ediv_of_nonneg h0]; omega
  · have : v.tdiv 2 ≤ 0 := by
      have h1 : v.tdiv 2 = -((-v).tdiv 2) := by rw [Int.neg_tdiv, Int.neg_neg]
      rw [h1, Int.tdiv_eq_ediv_of_nonneg (by omega)]
      omega
    omega

theorem histOK_ageHistory {s : SearchState} (h : HistOK s) : HistOK s.ageHistory := by
  intro i
  show (s.history.map (fun v => v.tdiv 2)).getD i 0 ≤ _
  have hi := h i
  rw [Array.getD_eq_getD_getElem?] at hi ⊢
  rw [Array.getElem?_map]
  cases hg : s.history[i]? with
  | none => simp [i32Max_eq]
  | some v =>
    rw [hg] at hi
    simp only [Option.getD_some, Option.map_some, i32Max_eq] at hi ⊢
    exact tdiv2_le v hi

theorem histOK_recordCutoff {s : SearchState} (h : HistOK s) (mv : Move) (d : Nat) :
    HistOK (s.recordCutoff mv d) := by
  intro i
  unfold SearchState.recordCutoff
  simp only
  have hi := h i
  rw [Array.getD_eq_getD_getElem?] at hi ⊢
  rw [Array.getElem?_setIfInBounds]
  split
  · split
    · simp only [Option.getD_some]
      split
      · exact Int.le_refl _
      · omega
    · simp [i32Max_eq]
  · exact hi

theorem storeKiller_history (s : SearchState) (mv : Move) (ply : Nat) :
    (s.storeKiller mv ply).history = s.history := by
  unfold SearchState.storeKiller
  split
  · simp only []
    split <;> rfl
  · rfl

theorem storeKiller_tt (s : SearchState) (mv : Move) (ply : Nat) : (s.storeKiller mv ply).tt = s.tt :=
  (qframe_storeKiller s mv ply).tt

/-- the state change at a beta cutoff keeps the history bound. -/
theorem histOK_cut {s : SearchState} (h : HistOK s) (mv : Move) (ply depth : Nat) :
    HistOK (if mv.kind = MoveType.quiet then (s.storeKiller mv ply).recordCutoff mv depth else s) := by
  split
  · exact histOK_recordCutoff (histOK_of_history h (storeKiller_history s mv ply)) mv depth
  · exact h

/-! ### the ordering key -/

theorem getD_le_of_all (l : List Int) (b : Int) (hb : 0 ≤ b) (h : ∀ x ∈ l, x ≤ b) (j : Nat) :
    l.getD j 0 ≤ b := by
  rw [List.getD_eq_getElem?_getD]
  cases hg : l[j]? with
  | none => simpa using hb
  | some v =>
    simp only [Option.getD_some]
    exact h v (List.mem_of_getElem? hg)

theorem mvvLva_le (i j : Nat) : (MVV_LVA_SCORES.getD i []).getD j 0 ≤ 55 := by
  apply getD_le_of_all _ 55 (by decide)
  rw [List.getD_eq_getElem?_getD]
  cases hg : MVV_LVA_SCORES[i]? with
  | none => simp
  | some row =>
    simp only [Option.getD_some]
    have hrow : row ∈ MVV_LVA_SCORES := List.mem_of_getElem? hg
    have : ∀ r ∈ MVV_LVA_SCORES, ∀ x ∈ r, x ≤ 55 := by decide
    exact this row hrow

section key
variable {P : Type} (G : Game P)

theorem orderKey_tt (s : SearchState) (p : P) (ply : Nat) (m : Move) :
    orderKey G s p (some m) ply m = ORDER_TT := by
  unfold orderKey; rw [if_pos rfl]

/-- every move other than the table move has a key strictly above `ORDER_TT = i32::MIN`. -/
theorem orderKey_gt_tt (s : SearchState) (hH : HistOK s) (p : P) (tt : Option Move) (ply : Nat) (y : Move)
    (hy : tt ≠ some y) : ORDER_TT < orderKey G s p tt ply y := by
  unfold orderKey
  rw [if_neg hy]
  have hTT : ORDER_TT = -2147483648 := rfl
  split
  · rename_i score hsc
    have hle : score ≤ 55 := by
      split at hsc
      · unfold captureScore at hsc
        split at hsc
        · cases hsc; exact mvvLva_le _ _
        · cases hsc
      · cases hsc
    have : ORDER_CAPTURE_BASE = 1000 := rfl
    omega
  · split
    · decide
    · split
      · decide
      · split
        · have := hH (y.src * 64 + y.dst)
          unfold SearchState.historyScore
          rw [i32Max_eq] at this
          omega
        · decide

/-- **the table move is tried first.** -/
theorem orderMoves_tt_first (s : SearchState) (hH : HistOK s) (p : P) (ms : List Move) (m : Move)
    (hm : m ∈ ms) (ply : Nat) : ∃ tl, orderMoves G s p ms (some m) ply = m :: tl := by
  unfold orderMoves
  apply mergeSort_head_of_strict_min (fun a => orderKey G s p (some m) ply a) ms m hm
  intro y _ hne
  rw [orderKey_tt]
  exact orderKey_gt_tt G s hH p (some m) ply y (fun e => hne (Option.some.inj e).symm)

end key
end Flounder.Search
