/-
  XOR-sums over two duplicate-free lists differ by the XOR-sum over their symmetric difference;
  the feature list of a board is duplicate-free.
-/
import Mathlib.Data.List.Nodup
import Flounder.Lemmas.XorHash

namespace Flounder
open Flounder.Spec

/-- symmetric difference of two lists (elements of exactly one of them). -/
def symmDiff {α : Type} [DecidableEq α] (l m : List α) : List α :=
  l.filter (fun a => decide (a ∉ m)) ++ m.filter (fun a => decide (a ∉ l))

theorem mem_symmDiff {α : Type} [DecidableEq α] (l m : List α) (a : α) :
    a ∈ symmDiff l m ↔ (a ∈ l ∧ a ∉ m) ∨ (a ∈ m ∧ a ∉ l) := by
  simp [symmDiff]

theorem xsum_split {α : Type} (l : List α) (p : α → Bool) (f : α → UInt64) :
    xsum l f = xsum (l.filter p) f ^^^ xsum (l.filter (fun a => !p a)) f := by
  rw [xsum_filter, xsum_filter, ← xsum_xor]
  apply xsum_congr; intro a _
  cases p a <;> simp

theorem xor_cancel_right (x y c : UInt64) : x ^^^ c ^^^ (y ^^^ c) = x ^^^ y := by
  rw [show x ^^^ c ^^^ (y ^^^ c) = x ^^^ y ^^^ (c ^^^ c) by ac_rfl]; simp

/-- **XOR of two XOR-sums = XOR-sum over the symmetric difference** (duplicate-free lists). -/
theorem xsum_symmDiff {α : Type} [DecidableEq α] (l m : List α) (hl : l.Nodup) (hm : m.Nodup)
    (f : α → UInt64) : xsum l f ^^^ xsum m f = xsum (symmDiff l m) f := by
  have h1 := xsum_split l (fun a => decide (a ∉ m)) f
  have h2 := xsum_split m (fun a => decide (a ∉ l)) f
  have hp : (l.filter (fun a => !decide (a ∉ m))).Perm (m.filter (fun a => !decide (a ∉ l))) := by
    rw [List.perm_ext_iff_of_nodup (hl.filter _) (hm.filter _)]
    intro a; simp only [List.mem_filter]; simp; tauto
  rw [h1, h2, xsum_perm hp, symmDiff, xsum_append, xor_cancel_right]

/-! ### the feature list is duplicate-free -/

theorem Piece.all_nodup : Piece.all.Nodup := by decide

/-- the men listed for square `s`. -/
def menAt (b : Board) (s : Nat) : List Feature :=
  [Color.white, Color.black].flatMap fun c =>
    Piece.all.filterMap fun p => if hasSq (b.bb c p) s then some (Feature.man c p s) else none

theorem mem_menAt (b : Board) (s : Nat) (f : Feature) :
    f ∈ menAt b s ↔ ∃ c p, hasSq (b.bb c p) s = true ∧ f = Feature.man c p s := by
  unfold menAt
  simp only [List.mem_flatMap, List.mem_filterMap]
  constructor
  · rintro ⟨c, _, p, _, h⟩
    refine ⟨c, p, ?_⟩
    split at h
    · next hh => exact ⟨hh, by injection h with h; exact h.symm⟩
    · cases h
  · rintro ⟨c, p, hh, rfl⟩
    exact ⟨c, by cases c <;> simp, p, by cases p <;> simp [Piece.all], by simp [hh]⟩

theorem menAt_nodup (b : Board) (s : Nat) : (menAt b s).Nodup := by
  unfold menAt
  rw [List.nodup_flatMap]
  constructor
  · intro c _
    apply List.Nodup.filterMap _ Piece.all_nodup
    intro p p' f h1 h2
    split at h1 <;> split at h2 <;> simp at h1 h2
    rw [← h2] at h1; injection h1
  · simp only [List.pairwise_cons, List.mem_cons,
      Function.onFun, List.Pairwise.nil, and_true, false_imp_iff, implies_true,
      List.mem_nil_iff, forall_eq_or_imp]
    intro f h1 h2
    simp only [List.mem_filterMap] at h1 h2
    obtain ⟨p, _, h1⟩ := h1
    obtain ⟨p', _, h2⟩ := h2
    split at h1 <;> split at h2 <;> simp at h1 h2
    rw [← h2] at h1; injection h1 with hc; cases hc

/-- all men of the board. -/
def menList (b : Board) : List Feature := (List.range 64).flatMap (menAt b)

theorem mem_menList (b : Board) (f : Feature) :
    f ∈ menList b ↔ ∃ c p s, s < 64 ∧ hasSq (b.bb c p) s = true ∧ f = Feature.man c p s := by
  unfold menList
  simp only [List.mem_flatMap, List.mem_range, mem_menAt]
  constructor
  · rintro ⟨s, hs, c, p, h, rfl⟩; exact ⟨c, p, s, hs, h, rfl⟩
  · rintro ⟨c, p, s, hs, h, rfl⟩; exact ⟨s, hs, c, p, h, rfl⟩

theorem menList_nodup (b : Board) : (menList b).Nodup := by
  unfold menList
  rw [List.nodup_flatMap]
  refine ⟨fun s _ => menAt_nodup b s, ?_⟩
  apply List.Pairwise.imp _ (List.nodup_range (n := 64))
  intro s t hst f h1 h2
  rw [mem_menAt] at h1 h2
  obtain ⟨_, _, _, rfl⟩ := h1
  obtain ⟨_, _, _, h⟩ := h2
  injection h with _ _ h3
  exact hst h3

/-- position of a feature's component in the feature list. -/
def _root_.Flounder.Spec.Feature.kind : Feature → Nat
  | .man _ _ _ => 0
  | .whiteToMove => 1
  | .right .white 0 => 2
  | .right .white _ => 3
  | .right .black 0 => 4
  | .right .black _ => 5
  | .epSquare _ => 6

theorem nodup_append_kind (l m : List Feature) (n : Nat) (hl : l.Nodup) (hm : m.Nodup)
    (h1 : ∀ a ∈ l, a.kind < n) (h2 : ∀ a ∈ m, a.kind = n) :
    (l ++ m).Nodup ∧ ∀ a ∈ l ++ m, a.kind < n + 1 := by
  constructor
  · rw [List.nodup_append]
    refine ⟨hl, hm, ?_⟩
    intro a ha b hb hab
    have := h1 a ha; have := h2 b hb; subst hab; omega
  · intro a ha
    rcases List.mem_append.mp ha with h | h
    · have := h1 a h; omega
    · have := h2 a h; omega

theorem features_eq (b : Board) : features b = menList b
    ++ (if b.active = .white then [Feature.whiteToMove] else [])
    ++ (if b.castle.wk then [Feature.right .white 0] else [])
    ++ (if b.castle.wq then [Feature.right .white 1] else [])
    ++ (if b.castle.bk then [Feature.right .black 0] else [])
    ++ (if b.castle.bq then [Feature.right .black 1] else [])
    ++ (match b.ep with | some s => [Feature.epSquare s] | none => []) := rfl

theorem features_nodup (b : Board) : (features b).Nodup := by
  rw [features_eq]
  have h0 : (menList b).Nodup ∧ ∀ a ∈ menList b, a.kind < 1 := by
    refine ⟨menList_nodup b, ?_⟩
    intro a ha
    rw [mem_menList] at ha
    obtain ⟨_, _, _, _, _, rfl⟩ := ha
    simp [Feature.kind]
  have h1 := nodup_append_kind _ (if b.active = .white then [Feature.whiteToMove] else []) 1 h0.1
    (by split <;> simp) h0.2 (by split <;> simp [Feature.kind])
  have h2 := nodup_append_kind _ (if b.castle.wk then [Feature.right .white 0] else []) 2 h1.1
    (by split <;> simp) h1.2 (by split <;> simp [Feature.kind])
  have h3 := nodup_append_kind _ (if b.castle.wq then [Feature.right .white 1] else []) 3 h2.1
    (by split <;> simp) h2.2 (by split <;> simp [Feature.kind])
  have h4 := nodup_append_kind _ (if b.castle.bk then [Feature.right .black 0] else []) 4 h3.1
    (by split <;> simp) h3.2 (by split <;> simp [Feature.kind])
  have h5 := nodup_append_kind _ (if b.castle.bq then [Feature.right .black 1] else []) 5 h4.1
    (by split <;> simp) h4.2 (by split <;> simp [Feature.kind])
  have h6 := nodup_append_kind _ (match b.ep with | some s => [Feature.epSquare s] | none => []) 6 h5.1
    (by split <;> simp) h5.2 (by split <;> simp [Feature.kind])
  exact h6.1

theorem mem_ite_singleton {α : Type} (c : Prop) [Decidable c] (x a : α) :
    a ∈ (if c then [x] else []) ↔ c ∧ a = x := by
  split <;> simp [*]

theorem mem_ep_list (e : Option Nat) (a : Feature) :
    a ∈ (match e with | some s => [Feature.epSquare s] | none => []) ↔ ∃ s, e = some s ∧ a = .epSquare s := by
  cases e <;> simp

/-- which features a board has. -/
theorem mem_features (b : Board) (f : Feature) : f ∈ features b ↔
    match f with
    | .man c p s => s < 64 ∧ hasSq (b.bb c p) s = true
    | .whiteToMove => b.active = .white
    | .right .white 0 => b.castle.wk = true
    | .right .white 1 => b.castle.wq = true
    | .right .black 0 => b.castle.bk = true
    | .right .black 1 => b.castle.bq = true
    | .right _ _ => False
    | .epSquare s => b.ep = some s := by
  rw [features_eq]
  simp only [List.mem_append, mem_menList, mem_ite_singleton, mem_ep_list]
  cases f with
  | man c p s =>
    simp only [reduceCtorEq, and_false, or_false, exists_false]
    constructor
    · rintro ⟨c', p', s', h1, h2, h⟩; injection h with h3 h4 h5; subst h3 h4 h5; exact ⟨h1, h2⟩
    · rintro ⟨h1, h2⟩; exact ⟨c, p, s, h1, h2, rfl⟩
  | whiteToMove => simp
  | right c side =>
    cases c <;> rcases side with _ | _ | side <;> simp
  | epSquare s =>
    simp only [reduceCtorEq, and_false, or_false, exists_false, false_or, Feature.epSquare.injEq]
    constructor
    · rintro ⟨t, h1, h2⟩; rw [h1, h2]
    · intro h; exact ⟨s, h, rfl⟩

end Flounder
