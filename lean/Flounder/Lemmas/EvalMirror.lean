/-
  Bit-level facts about `Spec.mirrorBB` / `Spec.mirror` and the invariance of the per-side sums of the
  evaluation under the mirror.  Used by Props/C14Sym.lean (`eval_mirror`).
-/
import Flounder.Lemmas.EvalSum
import Flounder.Lemmas.Bits
import Flounder.Spec.Position

namespace Flounder
open Gen Spec

/-! ### `ofSquares` and `mirrorBB`, bit by bit -/

theorem hasSq_foldl_setBit (l : List Nat) (a : UInt64) (s : Nat) (hl : ∀ t ∈ l, t < 64) (hs : s < 64) :
    hasSq (l.foldl setBit a) s = (hasSq a s || decide (s ∈ l)) := by
  induction l generalizing a with
  | nil => simp
  | cons t ts ih =>
    have ht : t < 64 := hl t (by simp)
    rw [List.foldl_cons, ih _ (fun u hu => hl u (by simp [hu])), hasSq_setBit a t s ht hs]
    by_cases h : t = s
    · simp [h]
    · have h' : ¬ s = t := fun e => h e.symm
      simp [h, h']

theorem hasSq_ofSquares (l : List Nat) (s : Nat) (hl : ∀ t ∈ l, t < 64) (hs : s < 64) :
    hasSq (ofSquares l) s = decide (s ∈ l) := by
  unfold ofSquares; rw [hasSq_foldl_setBit l 0 s hl hs]; simp

theorem xor56_xor56 (s : Nat) : (s ^^^ 56) ^^^ 56 = s := by
  rw [Nat.xor_assoc, Nat.xor_self, Nat.xor_zero]

/-- square `s` is in the mirrored bitboard iff `s ^^^ 56` is in the original. -/
theorem hasSq_mirrorBB (bb : UInt64) (s : Nat) (hs : s < 64) :
    hasSq (mirrorBB bb) s = hasSq bb (s ^^^ 56) := by
  unfold mirrorBB
  rw [hasSq_ofSquares _ s (by
    intro t ht
    simp only [List.mem_map] at ht
    obtain ⟨u, hu, rfl⟩ := ht
    exact xor56_lt (mem_squaresOf_lt hu)) hs]
  have hs' : s ^^^ 56 < 64 := xor56_lt hs
  cases h : hasSq bb (s ^^^ 56)
  · simp only [decide_eq_false_iff_not, List.mem_map, not_exists, not_and]
    intro u hu hus
    subst hus
    rw [xor56_xor56] at h
    have := (mem_squaresOf.mp hu).2
    simp [h] at this
  · simp only [decide_eq_true_eq, List.mem_map]
    exact ⟨s ^^^ 56, mem_squaresOf.mpr ⟨hs', h⟩, xor56_xor56 s⟩

theorem mirrorBB_and (x y : UInt64) : mirrorBB (x &&& y) = mirrorBB x &&& mirrorBB y := by
  apply bb_ext
  intro s hs
  rw [hasSq_and _ _ _ hs, hasSq_mirrorBB _ _ hs, hasSq_mirrorBB _ _ hs, hasSq_mirrorBB _ _ hs,
    hasSq_and _ _ _ (xor56_lt hs)]

theorem mirrorBB_mirrorBB (x : UInt64) : mirrorBB (mirrorBB x) = x := by
  apply bb_ext
  intro s hs
  rw [hasSq_mirrorBB _ _ hs, hasSq_mirrorBB _ _ (xor56_lt hs), xor56_xor56]

/-- the mirrored board's (colour, piece) bitboard is the mirror of the other colour's. -/
theorem mirror_bb (b : Board) (c : Color) (p : Piece) :
    (mirror b).bb c p = mirrorBB (b.bb c.other p) := by
  cases c <;> cases p <;> simp only [Board.bb, mirror, Board.bbPiece, Board.bbColor, Color.other, mirrorBB_and]

theorem squaresOf_mirrorBB (bb : UInt64) :
    squaresOf (mirrorBB bb) = (List.range 64).filter (fun s => hasSq bb (s ^^^ 56)) := by
  unfold squaresOf
  apply List.filter_congr
  intro s hs
  exact hasSq_mirrorBB bb s (List.mem_range.mp hs)

/-! ### sums over a mirrored bitboard -/

theorem range64_xor56_perm : ((List.range 64).map (· ^^^ 56)).Perm (List.range 64) := by decide

/-- re-indexing a sum over the squares by the rank flip. -/
theorem sum_filter_xor56 (P : Nat → Bool) (g : Nat → Int) :
    (((List.range 64).filter (fun s => P (s ^^^ 56))).map (fun s => g (s ^^^ 56))).sum =
      (((List.range 64).filter P).map g).sum := by
  have h1 : ((List.range 64).filter (fun s => P (s ^^^ 56))).map (fun s => g (s ^^^ 56)) =
      ((((List.range 64).map (· ^^^ 56)).filter P).map g) := by
    rw [List.filter_map, List.map_map]; rfl
  rw [h1]
  exact perm_sum_int ((range64_xor56_perm.filter P).map g)

theorem sum_filter_xor56' (P : Nat → Bool) (g : Nat → Int) :
    (((List.range 64).filter (fun s => P (s ^^^ 56))).map g).sum =
      (((List.range 64).filter P).map (fun s => g (s ^^^ 56))).sum := by
  rw [← sum_filter_xor56 P (fun s => g (s ^^^ 56))]
  simp only [xor56_xor56]

theorem sum_squaresOf_mirrorBB (bb : UInt64) (g : Nat → Int) :
    ((squaresOf (mirrorBB bb)).map (fun s => g (s ^^^ 56))).sum = ((squaresOf bb).map g).sum := by
  rw [squaresOf_mirrorBB]; exact sum_filter_xor56 (hasSq bb) g

theorem sum_squaresOf_mirrorBB' (bb : UInt64) (g : Nat → Int) :
    ((squaresOf (mirrorBB bb)).map g).sum = ((squaresOf bb).map (fun s => g (s ^^^ 56))).sum := by
  rw [squaresOf_mirrorBB]; exact sum_filter_xor56' (hasSq bb) g

/-- mirroring preserves the population count. -/
theorem countOnes_mirrorBB (bb : UInt64) : countOnes (mirrorBB bb) = countOnes bb := by
  have h := sum_squaresOf_mirrorBB' bb (fun _ => 1)
  have e : ∀ l : List Nat, (l.map (fun _ => (1 : Int))).sum = l.length := by
    intro l; induction l with
    | nil => rfl
    | cons x xs ih => simp only [List.map_cons, List.sum_cons, ih, List.length_cons]; omega
  rw [e, e] at h
  unfold countOnes; omega

/-! ### the per-side sums of the evaluation -/

theorem sideVal_mirror (T : List (List Int)) (b : Board) (c : Color) (p : Piece) :
    sideVal T (mirror b) c.other 56 p = sideVal T b c 56 p := by
  unfold sideVal
  rw [mirror_bb, Color.other_other]
  cases c
  · -- c = white: the mirrored men are black (no flip); the original ones are flipped
    exact sum_squaresOf_mirrorBB' (b.bb .white p) (fun s => pst T p.index s)
  · exact sum_squaresOf_mirrorBB (b.bb .black p) (fun s => pst T p.index s)

theorem sideCnt_mirror (b : Board) (c : Color) (p : Piece) :
    sideCnt (mirror b) c.other p = sideCnt b c p := by
  unfold sideCnt
  rw [mirror_bb, Color.other_other]
  exact sum_squaresOf_mirrorBB' (b.bb c p) (fun _ => PHASE_INCREMENTS.getD p.index 0)

theorem dOpening_mirror (b : Board) (c : Color) (p : Piece) :
    dOpening (mirror b) c.other p = dOpening b c p := by
  simp only [dOpening, FLIP_PLAYER_eq, FLIP_OPP_eq, sideVal_mirror]

theorem dEndgame_mirror (b : Board) (c : Color) (p : Piece) :
    dEndgame (mirror b) c.other p = dEndgame b c p := by
  simp only [dEndgame, FLIP_PLAYER_eq, FLIP_OPP_eq, sideVal_mirror]

theorem dPhase_mirror (b : Board) (c : Color) (p : Piece) :
    dPhase (mirror b) c.other p = dPhase b c p := by
  simp only [dPhase, sideCnt_mirror]

/-- the accumulators of the mirrored board are those of the original. -/
theorem accumulate_mirror (b : Board) : accumulate (mirror b) = accumulate b := by
  rw [accumulate_eq, accumulate_eq b]
  show ({ gamephase := (Piece.all.map (dPhase (mirror b) b.active.other)).sum,
          opening := (Piece.all.map (dOpening (mirror b) b.active.other)).sum,
          endgame := (Piece.all.map (dEndgame (mirror b) b.active.other)).sum } : Evaluator) = _
  simp only [Piece.all, List.map_cons, List.map_nil, dOpening_mirror, dEndgame_mirror, dPhase_mirror]

end Flounder
