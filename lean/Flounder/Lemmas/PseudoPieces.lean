/-
  C01, layer L3 (non-pawn pieces): `generate_pseudo_legal_moves(board, piece)` produces exactly the
  geometrically possible quiet moves and captures of `piece`, each once.
-/
import Flounder.Lemmas.C01Interfaces
import Flounder.Lemmas.BitIter
namespace Flounder.Spec
open Flounder Flounder.MoveGenerator

/-- the destination bitboard the generator computes for a piece standing on `sq`. -/
def piecesDest (g : MoveGenerator) (b : Board) (piece : Piece) (sq : Nat) : UInt64 :=
  match piece with
  | .knight | .king => g.lookup.nonSlidingMoves sq piece
  | _ => g.lookup.slidingMoves sq b.bbAll piece

theorem pieces_gen_eq (g : MoveGenerator) (b : Board) (piece : Piece) :
    g.generatePseudoLegalMoves b piece =
      (squaresOf (b.bb b.active piece)).flatMap fun sq =>
        extractMoves (piecesDest g b piece sq &&& b.bbEmpty) sq piece .quiet ++
        extractMoves (piecesDest g b piece sq &&& b.bbColor b.active.other) sq piece .capture := rfl

theorem pieces_mem_extractMoves {bb : UInt64} {s : Nat} {piece : Piece} {kind : MoveType} {m : Move} :
    m ∈ extractMoves bb s piece kind ↔ ∃ t, t < 64 ∧ hasSq bb t = true ∧ m = ⟨s, t, piece, kind⟩ := by
  unfold extractMoves
  rw [List.mem_map]
  constructor
  · rintro ⟨t, ht, rfl⟩
    rw [mem_squaresOf] at ht
    exact ⟨t, ht.1, ht.2, rfl⟩
  · rintro ⟨t, ht, hb, rfl⟩
    exact ⟨t, (mem_squaresOf _ _).2 ⟨ht, hb⟩, rfl⟩

/-- the occupancy-bitboard form of "open line" is the mailbox form. -/
theorem pieces_sliderReach {b : Board} (hb : consistent b = true) (diag : Bool) {s t : Nat}
    (hs : s < 64) (ht : t < 64) :
    sliderReach diag b.bbAll s t =
      ((if diag then diagonal s t else orthogonal s t) && pathClear (absBoard b) s t) := by
  unfold sliderReach pathClear
  congr 1
  apply all_congr_mem
  intro u hu
  rw [hasSq_bbAll hb (strictlyBetween_lt hs ht hu)]
  cases absBoard b u <;> rfl

theorem pieces_dest_spec {g : MoveGenerator} (hl : LookupExact g.lookup) {b : Board}
    (hb : consistent b = true) {piece : Piece} (hp : piece ≠ .pawn) (c : Color) {s t : Nat}
    (hs : s < 64) (ht : t < 64) :
    hasSq (piecesDest g b piece s) t = manAttacks (absBoard b) c piece s t := by
  cases piece with
  | pawn => exact absurd rfl hp
  | knight => exact hl.knight s t hs ht
  | king => exact hl.king s t hs ht
  | bishop =>
    show hasSq (g.lookup.slidingMoves s b.bbAll .bishop) t = _
    rw [hl.bishop s t _ hs ht, pieces_sliderReach hb true hs ht]; rfl
  | rook =>
    show hasSq (g.lookup.slidingMoves s b.bbAll .rook) t = _
    rw [hl.rook s t _ hs ht, pieces_sliderReach hb false hs ht]; rfl
  | queen =>
    show hasSq (g.lookup.slidingMoves s b.bbAll .queen) t = _
    rw [hl.queen s t _ hs ht, pieces_sliderReach hb true hs ht, pieces_sliderReach hb false hs ht]
    show _ = ((diagonal s t || orthogonal s t) && pathClear (absBoard b) s t)
    cases diagonal s t <;> cases orthogonal s t <;> cases pathClear (absBoard b) s t <;> rfl

/-- membership in the generator, in terms of bit tests. -/
theorem pieces_mem_gen {g : MoveGenerator} {b : Board} {piece : Piece} {m : Move} :
    m ∈ g.generatePseudoLegalMoves b piece ↔
      ∃ s t, s < 64 ∧ t < 64 ∧ hasSq (b.bb b.active piece) s = true ∧
        hasSq (piecesDest g b piece s) t = true ∧
        ((hasSq b.bbEmpty t = true ∧ m = ⟨s, t, piece, .quiet⟩) ∨
         (hasSq (b.bbColor b.active.other) t = true ∧ m = ⟨s, t, piece, .capture⟩)) := by
  rw [pieces_gen_eq, List.mem_flatMap]
  constructor
  · rintro ⟨s, hs, hm⟩
    rw [mem_squaresOf] at hs
    rw [List.mem_append, pieces_mem_extractMoves, pieces_mem_extractMoves] at hm
    rcases hm with ⟨t, ht, hd, rfl⟩ | ⟨t, ht, hd, rfl⟩
    · rw [hasSq_and _ _ _ ht, Bool.and_eq_true] at hd
      exact ⟨s, t, hs.1, ht, hs.2, hd.1, Or.inl ⟨hd.2, rfl⟩⟩
    · rw [hasSq_and _ _ _ ht, Bool.and_eq_true] at hd
      exact ⟨s, t, hs.1, ht, hs.2, hd.1, Or.inr ⟨hd.2, rfl⟩⟩
  · rintro ⟨s, t, hs, ht, hps, hd, h⟩
    refine ⟨s, (mem_squaresOf _ _).2 ⟨hs, hps⟩, ?_⟩
    rw [List.mem_append, pieces_mem_extractMoves, pieces_mem_extractMoves]
    rcases h with ⟨he, rfl⟩ | ⟨he, rfl⟩
    · refine Or.inl ⟨t, ht, ?_, rfl⟩
      rw [hasSq_and _ _ _ ht, hd, he]; rfl
    · refine Or.inr ⟨t, ht, ?_, rfl⟩
      rw [hasSq_and _ _ _ ht, hd, he]; rfl

/-- `pseudoGeom` of a quiet move of a non-pawn piece. -/
theorem pieces_pseudoGeom_quiet (p : Pos) {piece : Piece} (hp : piece ≠ .pawn) (s t : Nat) :
    pseudoGeom p ⟨s, t, piece, .quiet⟩ = true ↔
      s < 64 ∧ t < 64 ∧ p.board s = some (p.turn, piece) ∧ p.board t = none ∧
        manAttacks p.board p.turn piece s t = true := by
  simp only [pseudoGeom, pseudo]
  cases h : p.board s with
  | none => simp
  | some x =>
    obtain ⟨c', pc⟩ := x
    by_cases hc : c' = p.turn
    · by_cases hpc : piece = pc
      · subst hc; subst hpc
        cases piece <;> first | exact absurd rfl hp | simp [Option.isNone_iff_eq_none, and_assoc]
      · simp [hpc, Ne.symm hpc]
    · simp [hc]

/-- `pseudoGeom` of a capture by a non-pawn piece. -/
theorem pieces_pseudoGeom_capture (p : Pos) {piece : Piece} (hp : piece ≠ .pawn) (s t : Nat) :
    pseudoGeom p ⟨s, t, piece, .capture⟩ = true ↔
      s < 64 ∧ t < 64 ∧ p.board s = some (p.turn, piece) ∧ (∃ q, p.board t = some (p.turn.other, q)) ∧
        manAttacks p.board p.turn piece s t = true := by
  simp only [pseudoGeom, pseudo]
  cases h : p.board s with
  | none => simp
  | some x =>
    obtain ⟨c', pc⟩ := x
    by_cases hc : c' = p.turn
    · by_cases hpc : piece = pc
      · subst hc; subst hpc
        cases ht : p.board t with
        | none => simp
        | some y =>
          obtain ⟨c2, q⟩ := y
          cases piece <;> first | exact absurd rfl hp | simp [and_assoc]
      · simp [hpc, Ne.symm hpc]
    · simp [hc]

/-- the leaper/slider generator for a non-pawn piece produces exactly the geometrically possible quiet moves and captures of that piece. -/
theorem mem_generatePseudoLegalMoves {g : MoveGenerator} (hl : LookupExact g.lookup) {b : Board}
    (hv : valid b = true) {piece : Piece} (hp : piece ≠ .pawn) (m : Move) :
    m ∈ g.generatePseudoLegalMoves b piece ↔
      pseudoGeom (abs b) m = true ∧ m.piece = piece ∧ (m.kind = .quiet ∨ m.kind = .capture) := by
  have hb : consistent b = true := ((valid_iff b).1 hv).1
  rw [pieces_mem_gen]
  constructor
  · rintro ⟨s, t, hs, ht, hps, hd, h⟩
    rw [hasSq_bb hb hs] at hps
    rw [pieces_dest_spec hl hb hp b.active hs ht] at hd
    rcases h with ⟨he, rfl⟩ | ⟨he, rfl⟩
    · refine ⟨?_, rfl, Or.inl rfl⟩
      rw [pieces_pseudoGeom_quiet _ hp]
      rw [hasSq_bbEmpty hb ht, Option.isNone_iff_eq_none] at he
      exact ⟨hs, ht, hps, he, hd⟩
    · refine ⟨?_, rfl, Or.inr rfl⟩
      rw [pieces_pseudoGeom_capture _ hp]
      rw [hasSq_bbColor hb ht] at he
      exact ⟨hs, ht, hps, he, hd⟩
  · rintro ⟨hg, hpc, hk⟩
    obtain ⟨s, t, pc, k⟩ := m
    simp only at hpc hk
    subst hpc
    rcases hk with rfl | rfl
    · rw [pieces_pseudoGeom_quiet _ hp] at hg
      obtain ⟨hs, ht, hps, he, hd⟩ := hg
      refine ⟨s, t, hs, ht, (hasSq_bb hb hs).2 hps, ?_, Or.inl ⟨?_, rfl⟩⟩
      · rw [pieces_dest_spec hl hb hp b.active hs ht]; exact hd
      · rw [hasSq_bbEmpty hb ht, Option.isNone_iff_eq_none]; exact he
    · rw [pieces_pseudoGeom_capture _ hp] at hg
      obtain ⟨hs, ht, hps, he, hd⟩ := hg
      refine ⟨s, t, hs, ht, (hasSq_bb hb hs).2 hps, ?_, Or.inr ⟨?_, rfl⟩⟩
      · rw [pieces_dest_spec hl hb hp b.active hs ht]; exact hd
      · exact (hasSq_bbColor hb ht).2 he

theorem pieces_nodup_extractMoves (bb : UInt64) (s : Nat) (piece : Piece) (kind : MoveType) :
    (extractMoves bb s piece kind).Nodup := by
  unfold extractMoves List.Nodup
  rw [List.pairwise_map]
  exact (squaresOf_nodup bb).imp fun {a c} hne heq => hne (by injection heq)

theorem nodup_generatePseudoLegalMoves (g : MoveGenerator) (b : Board) (piece : Piece) :
    (g.generatePseudoLegalMoves b piece).Nodup := by
  rw [pieces_gen_eq]
  unfold List.Nodup
  rw [List.pairwise_flatMap]
  constructor
  · intro s _
    rw [List.pairwise_append]
    refine ⟨pieces_nodup_extractMoves _ _ _ _, pieces_nodup_extractMoves _ _ _ _, ?_⟩
    intro x hx y hy
    rw [pieces_mem_extractMoves] at hx hy
    obtain ⟨_, _, _, rfl⟩ := hx
    obtain ⟨_, _, _, rfl⟩ := hy
    intro h; injection h with _ _ _ h4; cases h4
  · refine (squaresOf_nodup _).imp ?_
    intro s s' hne x hx y hy
    have hx' : x.src = s := by
      rw [List.mem_append, pieces_mem_extractMoves, pieces_mem_extractMoves] at hx
      rcases hx with ⟨_, _, _, rfl⟩ | ⟨_, _, _, rfl⟩ <;> rfl
    have hy' : y.src = s' := by
      rw [List.mem_append, pieces_mem_extractMoves, pieces_mem_extractMoves] at hy
      rcases hy with ⟨_, _, _, rfl⟩ | ⟨_, _, _, rfl⟩ <;> rfl
    intro h
    apply hne
    rw [← hx', ← hy', h]

#print axioms Flounder.Spec.mem_generatePseudoLegalMoves
#print axioms Flounder.Spec.nodup_generatePseudoLegalMoves

end Flounder.Spec
