/-
  C01, legality filter (layers F4–F5): en passant and the assembly
  `filter_nonking`: for every non-king, non-castling pseudo-legal move on a valid board the engine's
  `is_legal_non_king_move` (with the checkers and pins of the position) = "the king is safe afterwards".
-/
import Flounder.Lemmas.FilterOrdinary

namespace Flounder.Spec.NonKing
open Flounder Flounder.MoveGenerator

/-! ### the king square -/

/-- on a valid board `king_square` is the unique square of the mover's king. -/
theorem kingCtx_of_valid {b : Board} (hv : valid b = true) : KingCtx b (kingSquare b) := by
  obtain ⟨hc, hp⟩ := (valid_iff b).1 hv
  obtain ⟨k, hk, hking, huniq⟩ := hp.king b.active
  change absBoard b k = some (b.active, .king) at hking
  have hbit : hasSq (b.bb b.active .king) k = true := (hasSq_bb hc hk).2 hking
  have hne : b.bb b.active .king ≠ 0 := by
    intro e
    rw [e, hasSq_zero] at hbit
    cases hbit
  obtain ⟨h1, h2, _⟩ := trailingZeros_spec _ hne
  have e : kingSquare b = k := huniq _ h1 ((hasSq_bb hc h1).1 h2)
  rw [e]
  exact ⟨hc, hk, hking, huniq⟩

/-- `kingSquare_facts` in the form announced in the interface. -/
theorem kingSquare_facts {b : Board} (hv : valid b = true) :
    kingSquare b < 64 ∧ absBoard b (kingSquare b) = some (b.active, .king) ∧
      kingSquares (absBoard b) b.active = [kingSquare b] := by
  have h := kingCtx_of_valid hv
  refine ⟨h.hk, h.king, ?_⟩
  have hlen : (kingSquares (absBoard b) b.active).length = 1 :=
    kingSquares_length_eq_one.2 ⟨_, h.hk, h.king, h.uniq⟩
  match hl : kingSquares (absBoard b) b.active, hlen with
  | [x], _ =>
    have : x ∈ kingSquares (absBoard b) b.active := by rw [hl]; simp
    obtain ⟨h1, h2⟩ := mem_kingSquares.1 this
    rw [h.uniq x h1 h2]

theorem inCheckOf_eq_attacked {bd : Nat → Option Man} {c : Color} {k : Nat} (hk : k < 64)
    (hking : bd k = some (c, .king)) (huniq : ∀ x, x < 64 → bd x = some (c, .king) → x = k) :
    inCheckOf bd c = attacked bd c.other k := by
  rw [Bool.eq_iff_iff]
  unfold inCheckOf
  rw [List.any_eq_true]
  constructor
  · rintro ⟨x, hx, hatt⟩
    obtain ⟨h1, h2⟩ := mem_kingSquares.1 hx
    rw [← huniq x h1 h2]; exact hatt
  · intro hatt
    exact ⟨k, mem_kingSquares.2 ⟨hk, hking⟩, hatt⟩

/-- after a non-king move the mover's king is still the only one, on `k`. -/
theorem MoveCtx.inCheck_after {bd bd' : Nat → Option Man} {c : Color} {k s d : Nat} (h : MoveCtx bd bd' c k s d)
    (huniq : ∀ x, x < 64 → bd x = some (c, .king) → x = k) (hq : bd' d ≠ some (c, .king)) :
    inCheckOf bd' c = attacked bd' c.other k := by
  apply inCheckOf_eq_attacked h.hk
  · rw [h.ao k h.hk (Ne.symm h.sk) (Ne.symm h.dk)]; exact h.king
  · intro x hx hb
    by_cases e1 : x = d
    · rw [e1] at hb; exact absurd hb hq
    · by_cases e2 : x = s
      · rw [e2, h.as] at hb; cases hb
      · rw [h.ao x hx e2 e1] at hb
        exact huniq x hx hb

/-! ### pseudo-legal moves along a line have a free path -/

theorem pseudo_of_pseudoGeom {p : Pos} {m : Move} (hc : m.kind ≠ .castle) (h : pseudoGeom p m = true) :
    pseudo p m = true := by
  unfold pseudoGeom at h
  simp only [Bool.and_eq_true] at h
  obtain ⟨_, h⟩ := h
  split at h
  · cases h
  · simp only [Bool.and_eq_true] at h
    obtain ⟨_, h⟩ := h
    exact h

theorem attack_path {bd : Nat → Option Man} {c : Color} {pc : Piece} {s d : Nat} (hs : s < 64) (hd : d < 64)
    (hatt : manAttacks bd c pc s d = true) (hal : aligned s d = true) : pathClear bd s d = true := by
  cases hsl : isSlider pc
  · unfold pathClear
    rw [leaper_seg hsl hs hd hatt hal]
    rfl
  · rw [manAttacks_slider hsl, Bool.and_eq_true] at hatt
    exact hatt.2

theorem pseudo_quiet_attack {p : Pos} {s d : Nat} {pc : Piece} (h : pseudo p ⟨s, d, pc, .quiet⟩ = true)
    (hp : pc ≠ .pawn) : manAttacks p.board p.turn pc s d = true := by
  unfold pseudo at h
  simp only [Bool.and_eq_true] at h
  obtain ⟨_, h⟩ := h
  split at h
  · cases h
  · rename_i c' pc' hsrc
    simp only [Bool.and_eq_true, beq_iff_eq] at h
    obtain ⟨h1, ⟨h2, _⟩, h4⟩ := h
    subst h1 h2
    cases pc <;> first | exact absurd rfl hp | exact h4

theorem push_path {p : Pos} (hv : ValidPos p) {s d : Nat} (hs : s < 64) (hsrc : p.board s = some (p.turn, .pawn))
    (hd : d = forward p.turn s) : pathClear p.board s d = true := by
  have hr := (hv.nopawn s p.turn hs hsrc).1
  unfold pathClear
  have : strictlyBetween s d = [] := by
    rw [hd]
    unfold forward
    cases p.turn
    · exact (push_facts hs).1
    · exact (push_facts hs).2.1 (by unfold rank at hr; omega)
  rw [this]; rfl

theorem double_path {p : Pos} {s d : Nat} (hs : s < 64) (hr : rank s = pawnHomeRank p.turn)
    (hd : d = forward p.turn (forward p.turn s)) (hmid : p.board (forward p.turn s) = none) :
    pathClear p.board s d = true := by
  rw [pathClear_iff]
  revert hr hd hmid
  unfold forward pawnHomeRank rank
  cases p.turn <;> simp only [] <;> intro hr hd hmid u hu
  · rw [hd, show s + 8 + 8 = s + 16 by omega, (push_facts hs).2.2.1] at hu
    rw [List.mem_singleton.1 hu]; exact hmid
  · rw [hd, show s - 8 - 8 = s - 16 by omega, (push_facts hs).2.2.2 (by omega)] at hu
    rw [List.mem_singleton.1 hu]; exact hmid

/-- every pseudo-legal non-castling move that runs along a line has a free path. -/
theorem pseudo_path {p : Pos} (hv : ValidPos p) {m : Move} (h : pseudo p m = true) (hc : m.kind ≠ .castle)
    (hal : aligned m.src m.dst = true) : pathClear p.board m.src m.dst = true := by
  obtain ⟨s, d, mp, kind⟩ := m
  cases kind
  · -- quiet
    obtain ⟨hs, hd, hsrc, _, hpawn⟩ := pseudo_quiet h
    by_cases hp : mp = .pawn
    · obtain ⟨_, _, h3⟩ := hpawn hp
      subst hp
      rcases h3 with h3 | ⟨h3, h4, h5⟩
      · exact push_path hv hs hsrc h3
      · exact double_path hs h3 h4 h5
    · exact attack_path hs hd (pseudo_quiet_attack h hp) hal
  · -- capture
    obtain ⟨hs, hd, _, _, hatt, _⟩ := pseudo_capture h
    exact attack_path hs hd hatt hal
  · -- en passant
    obtain ⟨hs, hd, _, _, _, hatt⟩ := pseudo_enPassant h
    exact attack_path hs hd hatt hal
  · exact absurd rfl hc
  · -- promotion
    obtain ⟨hs, hd, hsrc, _, _, hmode⟩ := pseudo_promotion h
    rcases hmode with ⟨h1, _, _⟩ | ⟨hatt, _⟩
    · exact push_path hv hs hsrc h1
    · exact attack_path hs hd hatt hal

/-! ### ordinary (non en-passant) moves -/

theorem isLegalNonKingMove_ordinary (g : MoveGenerator) (b : Board) (m : Move) (chk pin : UInt64) (k : Nat)
    (he : m.kind ≠ .enPassant) (hc : m.kind ≠ .castle) :
    g.isLegalNonKingMove b m chk pin k =
      (if countOnes chk > 1 then false else isLegalOrdinary g m chk pin k) := by
  unfold isLegalNonKingMove
  simp only [if_neg he, if_neg hc]

theorem isLegalNonKingMove_ep (g : MoveGenerator) (b : Board) (m : Move) (chk pin : UInt64) (k : Nat)
    (he : m.kind = .enPassant) :
    g.isLegalNonKingMove b m chk pin k =
      (if countOnes chk > 1 then false else g.isLegalEnPassant b m k) := by
  unfold isLegalNonKingMove
  simp only [if_pos he]

/-- the `MoveCtx` of a pseudo-legal non-king, non-castling, non-en-passant move. -/
theorem moveCtx_ordinary {b : Board} {k : Nat} (h : KingCtx b k) {m : Move} {pc : Piece}
    (hf : PlayFacts (abs b) m pc) (hnk : m.piece ≠ .king) (he : m.kind ≠ .enPassant) (hc : m.kind ≠ .castle) :
    MoveCtx (absBoard b) (playBoard (abs b) m) b.active k m.src m.dst := by
  have hpc : pc ≠ .king := fun e => hnk (hf.king_iff.2 e)
  refine {
    hk := h.hk, hs := hf.hs, hd := hf.hd, king := h.king, src := ⟨pc, hf.src⟩
    sk := ?_, dst := ?_, ad := ⟨m.piece, playBoard_dst _ _⟩, as := playBoard_src _ _ hf.src_ne_dst, ao := ?_ }
  · intro e
    have := hf.src
    change absBoard b m.src = some (b.active, pc) at this
    rw [e, h.king] at this
    exact hpc (congrArg Prod.snd (Option.some.inj this)).symm
  · rcases hf.dst with h1 | ⟨q, h1, _⟩
    · exact Or.inl h1
    · exact Or.inr ⟨q, h1⟩
  · intro x _ h1 h2
    exact playBoard_other _ _ h2 h1 (fun hh => he hh.1) (fun hh => hc hh.1) (fun hh => hc hh.1)

theorem filter_ordinary {g : MoveGenerator} (hl : LookupExact g.lookup) (hAtt : AttacksToSpec g) (b : Board)
    (hv : valid b = true) (m : Move) (hp : pseudo (abs b) m = true) (hnk : m.piece ≠ .king)
    (he : m.kind ≠ .enPassant) (hc : m.kind ≠ .castle) :
    g.isLegalNonKingMove b m (g.attacksTo b (kingSquare b)) (g.getPinnedPieces b (kingSquare b)) (kingSquare b) =
      kingSafeAfter (abs b) m := by
  have h := kingCtx_of_valid hv
  obtain ⟨_, hvp⟩ := (valid_iff b).1 hv
  obtain ⟨pc, hf⟩ := playFacts hvp hp
  have hctx := moveCtx_ordinary h hf hnk he hc
  rw [isLegalNonKingMove_ordinary g b m _ _ _ he hc,
    ordinary_ok hl hAtt h hctx (pseudo_path hvp hp hc)]
  unfold kingSafeAfter
  show _ = !inCheckOf (playBoard (abs b) m) b.active
  rw [hctx.inCheck_after h.uniq (by
    rw [playBoard_dst]
    intro e
    exact hnk (congrArg Prod.snd (Option.some.inj e)))]

/-! ### en passant -/

/-- removing a man that is not on the segment keeps an attack. -/
theorem manAttacks_remove {bd : Nat → Option Man} {c : Color} {p : Piece} {a k v : Nat}
    (h : manAttacks bd c p a k = true) :
    manAttacks (fun x => if x = v then none else bd x) c p a k = true := by
  cases hsl : isSlider p
  · rw [manAttacks_leaper hsl _ bd]; exact h
  · rw [manAttacks_slider hsl, Bool.and_eq_true, pathClear_iff] at h ⊢
    refine ⟨h.1, fun u hu => ?_⟩
    show (if u = v then none else bd u) = none
    split
    · rfl
    · exact h.2 u hu

theorem filter_enPassant {g : MoveGenerator} (hl : LookupExact g.lookup) (hAtt : AttacksToSpec g) (b : Board)
    (hv : valid b = true) (m : Move) (hp : pseudo (abs b) m = true) (he : m.kind = .enPassant) :
    g.isLegalNonKingMove b m (g.attacksTo b (kingSquare b)) (g.getPinnedPieces b (kingSquare b)) (kingSquare b) =
      kingSafeAfter (abs b) m := by
  have h := kingCtx_of_valid hv
  obtain ⟨hcons, hvp⟩ := (valid_iff b).1 hv
  obtain ⟨pc, hf⟩ := playFacts hvp hp
  obtain ⟨hpc, hmp⟩ := hf.pieceEp he
  subst hpc
  obtain ⟨hv64, hvic⟩ := hf.epCap he
  change capSq b.active m.dst < 64 at hv64
  change absBoard b (capSq b.active m.dst) = some (b.active.other, .pawn) at hvic
  have hdn : absBoard b m.dst = none := hf.dstEmpty (Or.inr (Or.inl he))
  have hsrc : absBoard b m.src = some (b.active, .pawn) := hf.src
  have hsd := hf.src_ne_dst
  generalize hk : kingSquare b = k at h ⊢
  generalize hvdef : capSq b.active m.dst = v at hv64 hvic
  -- the board without the victim
  let b' := b.removePiece b.active.other .pawn v
  have hact : b'.active = b.active := removePiece_active _ _ _ _
  have hcons' : consistent b' = true := consistent_removePiece hcons hv64 hvic
  have habs' : ∀ x, x < 64 → absBoard b' x = if x = v then none else absBoard b x :=
    fun x hx => absBoard_removePiece hcons hv64 hvic hx
  have hkv : k ≠ v := by
    intro e
    have := h.king
    rw [e, hvic] at this
    exact Color.other_ne _ (congrArg Prod.fst (Option.some.inj this))
  have hsv : m.src ≠ v := by
    intro e
    rw [e, hvic] at hsrc
    exact Color.other_ne _ (congrArg Prod.fst (Option.some.inj hsrc))
  have h' : KingCtx b' k := by
    refine ⟨hcons', h.hk, ?_, ?_⟩
    · rw [hact, habs' k h.hk, if_neg hkv]; exact h.king
    · intro x hx hb
      rw [hact, habs' x hx] at hb
      split at hb
      · cases hb
      · exact h.uniq x hx hb
  -- the move on that board
  have hctx : MoveCtx (absBoard b') (playBoard (abs b) m) b.active k m.src m.dst := by
    refine {
      hk := h.hk, hs := hf.hs, hd := hf.hd, king := by rw [habs' k h.hk, if_neg hkv]; exact h.king
      src := ⟨.pawn, by rw [habs' _ hf.hs, if_neg hsv]; exact hsrc⟩
      sk := ?_, dst := Or.inl ?_, ad := ⟨m.piece, playBoard_dst _ _⟩, as := playBoard_src _ _ hsd, ao := ?_ }
    · intro e
      rw [e, h.king] at hsrc
      cases hsrc
    · rw [habs' _ hf.hd]
      split
      · rfl
      · exact hdn
    · intro x hx h1 h2
      rw [playBoard_eq, if_neg h2, if_neg h1, habs' x hx]
      have e1 : capSq (abs b).turn m.dst = v := hvdef
      rw [e1]
      by_cases hxv : x = v
      · rw [if_pos ⟨he, hxv⟩, if_pos hxv]
      · rw [if_neg (fun hh => hxv hh.2), if_neg hxv, if_neg (fun hh => by rw [he] at hh; cases hh.1),
          if_neg (fun hh => by rw [he] at hh; cases hh.1)]
        rfl
  have hatt : manAttacks (absBoard b) b.active .pawn m.src m.dst = true := (pseudo_enPassant (p := abs b)
    (s := m.src) (d := m.dst) (pc := m.piece) (by
      have : (⟨m.src, m.dst, m.piece, .enPassant⟩ : Move) = m := by rw [← he]
      rw [this]; exact hp)).2.2.2.2.2
  have hpath : aligned m.src m.dst = true → pathClear (absBoard b') m.src m.dst = true := by
    intro _
    unfold pathClear
    rw [kingStep_seg_nil hf.hs hf.hd (pawn_kingStep _ _ hf.hs hf.hd hatt)]
    rfl
  -- the engine's en-passant test on that board
  have hcode : g.isLegalEnPassant b m k =
      (if countOnes (g.attacksTo b' k) > 1 then false
       else isLegalOrdinary g ⟨m.src, m.dst, .pawn, .capture⟩ (g.attacksTo b' k) (g.getPinnedPieces b' k) k) := by
    subst hvdef; rfl
  have hinner := ordinary_ok hl hAtt h' (mv := ⟨m.src, m.dst, .pawn, .capture⟩) (bd' := playBoard (abs b) m)
    (by rw [hact]; exact hctx) hpath
  rw [hact] at hinner
  have hsafe : kingSafeAfter (abs b) m = !attacked (playBoard (abs b) m) b.active.other k := by
    unfold kingSafeAfter
    show (!inCheckOf (playBoard (abs b) m) b.active) = _
    rw [hctx.inCheck_after (by
      intro x hx hb
      rw [habs' x hx] at hb
      split at hb
      · cases hb
      · exact h.uniq x hx hb) (by
      rw [playBoard_dst, hmp]
      intro e
      cases e)]
  rw [isLegalNonKingMove_ep g b m _ _ _ he, hcode, hinner, hsafe]
  by_cases h2 : countOnes (g.attacksTo b k) > 1
  · -- double check on the original board: no en-passant capture helps
    rw [if_pos h2]
    obtain ⟨a1, a2, ha1, ha2, hne, hb1, hb2⟩ := countOnes_two h2
    obtain ⟨p1, m1, t1⟩ := (checkers_iff hAtt h ha1).1 hb1
    obtain ⟨p2, m2, t2⟩ := (checkers_iff hAtt h ha2).1 hb2
    have key : ∀ a a2' p p2', a < 64 → a2' < 64 → a ≠ a2' → a ≠ v →
        absBoard b a = some (b.active.other, p) → manAttacks (absBoard b) b.active.other p a k = true →
        absBoard b a2' = some (b.active.other, p2') → manAttacks (absBoard b) b.active.other p2' a2' k = true →
        attacked (playBoard (abs b) m) b.active.other k = true := by
      intro a a2' p p2' ha ha2' hne hav hm ht hm2' ht2'
      have c1 : hctx.Chk a p := ⟨by rw [habs' a ha, if_neg hav]; exact hm, by
        have := manAttacks_remove (v := v) ht
        rw [show absBoard b' = fun x => absBoard b' x from rfl]
        rw [manAttacks_congr (bd' := fun x => if x = v then none else absBoard b x) (fun x hx => habs' x hx) _ _ ha h.hk]
        exact this⟩
      by_cases hav2' : a2' = v
      · -- the other checker is the victim pawn: `a` survives, the capturing pawn cannot block it
        rw [hctx.attacked_after_iff]
        refine ⟨a, ha, p, hctx.src_of_chk c1, ?_, ?_⟩
        · intro e
          rw [e, hdn] at hm; cases hm
        · intro hsl hd
          have hg : aligned a k = true := by
            rw [manAttacks_slider hsl, Bool.and_eq_true] at ht
            exact sliderGeom_aligned ht.1
          have hdk := (seg_facts ha h.hk hg hd).2.2.1
          have hp2' : p2' = .pawn := by
            rw [hav2', hvic] at hm2'
            exact (congrArg Prod.snd (Option.some.inj hm2')).symm
          rw [hp2', hav2', ← hvdef] at ht2'
          have : aligned m.dst k = false := by
            revert ht2'
            unfold capSq
            cases b.active
            · exact ep_not_aligned_white _ hf.hd h.hk
            · exact ep_not_aligned_black _ hf.hd h.hk
          rw [this] at hdk; cases hdk
      · have c2 : hctx.Chk a2' p2' := ⟨by rw [habs' a2' ha2', if_neg hav2']; exact hm2', by
          have := manAttacks_remove (v := v) ht2'
          rw [manAttacks_congr (bd' := fun x => if x = v then none else absBoard b x) (fun x hx => habs' x hx) _ _ ha2' h.hk]
          exact this⟩
        exact hctx.attacked_of_two_chk ha ha2' hne c1 c2
    have hatk : attacked (playBoard (abs b) m) b.active.other k = true := by
      by_cases e : a1 = v
      · exact key a2 a1 p2 p1 ha2 ha1 (Ne.symm hne) (fun e2 => hne (e.trans e2.symm)) m2 t2 m1 t1
      · exact key a1 a2 p1 p2 ha1 ha2 hne e m1 t1 m2 t2
    rw [hatk]; rfl
  · rw [if_neg h2]

end Flounder.Spec.NonKing

namespace Flounder.Spec
open Flounder Flounder.MoveGenerator Flounder.Spec.NonKing

/-! ### assembly -/

/-- **F5: the legality filter for non-king moves is exact.** -/
theorem filter_nonking {g : MoveGenerator} (hl : LookupExact g.lookup) (hAtt : AttacksToSpec g) (b : Board)
    (hv : valid b = true) (m : Move) (hp : pseudoGeom (abs b) m = true)
    (hk : ¬ (m.piece = .king ∧ m.kind ≠ .castle)) (hc : m.kind ≠ .castle) :
    g.isLegalNonKingMove b m (g.attacksTo b (kingSquare b)) (g.getPinnedPieces b (kingSquare b)) (kingSquare b) =
      kingSafeAfter (abs b) m := by
  have hp' := pseudo_of_pseudoGeom hc hp
  by_cases he : m.kind = .enPassant
  · exact filter_enPassant hl hAtt b hv m hp' he
  · exact filter_ordinary hl hAtt b hv m hp' (fun e => hk ⟨e, hc⟩) he hc

/-- the same in the shape of `FilterExact` (the instance of it for non-king, non-castling moves). -/
theorem filter_nonking_isLegal {g : MoveGenerator} (hl : LookupExact g.lookup) (hAtt : AttacksToSpec g) (b : Board)
    (hv : valid b = true) (m : Move) (hp : pseudoGeom (abs b) m = true)
    (hk : ¬ (m.piece = .king ∧ m.kind ≠ .castle)) (hc : m.kind ≠ .castle) :
    g.isLegal b m (g.attacksTo b (kingSquare b)) (g.getPinnedPieces b (kingSquare b)) (kingSquare b) =
      (castleSafe (abs b) m && kingSafeAfter (abs b) m) := by
  have h1 : (decide (m.piece = .king) && m.kind != .castle) = false := by
    cases hd : decide (m.piece = .king)
    · rfl
    · exact absurd ⟨of_decide_eq_true hd, hc⟩ hk
  have h2 : castleSafe (abs b) m = true := by
    unfold castleSafe
    have : (m.kind != .castle) = true := by rw [bne_iff_ne]; exact hc
    rw [this]; rfl
  unfold isLegal
  rw [h1, h2, Bool.true_and]
  exact filter_nonking hl hAtt b hv m hp hk hc

end Flounder.Spec
