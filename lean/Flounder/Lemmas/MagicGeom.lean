/-
  C10 — geometric characterisation of the blocked ray walks:
  `hasSq (attackMask diag s occ true) t = Spec.sliderReach diag occ s t` for all squares and occupancies.
  Symbolic part: a ray walk reaches `t` iff `t` is on the ray and the squares before it are free.
  Finite part (64 × 64 × 2, kernel): the squares before `t` on its ray are `Spec.strictlyBetween s t`.
-/
import Flounder.Lemmas.MagicSound
import Flounder.Spec.Geometry

namespace Flounder.MagicProof
open Flounder Flounder.Gen Flounder.Spec

def reachIn : List Nat → UInt64 → Nat → Bool
  | [], _, _ => false
  | u :: rest, occ, t => decide (u = t) || (!hasSq occ u && reachIn rest occ t)

theorem hasSq_rayWalkU (occ : UInt64) (t : Nat) (ht : t < 64) : ∀ (R : List Nat), (∀ u ∈ R, u < 64) →
    hasSq (rayWalkU R occ) t = reachIn R occ t := by
  intro R
  induction R with
  | nil => intro _; simp [rayWalkU, reachIn]
  | cons u rest ih =>
    intro hR
    have hu : u < 64 := hR u List.mem_cons_self
    have ih' := ih (fun v hv => hR v (List.mem_cons_of_mem _ hv))
    simp only [rayWalkU, reachIn, hasSq_or _ _ _ ht, hasSq_sqBB u t hu ht]
    cases hb : hasSq occ u
    · simp [ih']
    · simp

/-- the squares of a ray before `t`, if `t` is on the ray. -/
def pathTo : List Nat → Nat → Option (List Nat)
  | [], _ => none
  | u :: rest, t => if u = t then some [] else (pathTo rest t).map (u :: ·)

def clearB (occ : UInt64) (p : Option (List Nat)) : Bool :=
  match p with
  | none => false
  | some pre => pre.all fun v => !hasSq occ v

theorem reachIn_eq (occ : UInt64) (t : Nat) : ∀ (R : List Nat),
    reachIn R occ t = clearB occ (pathTo R t) := by
  intro R
  induction R with
  | nil => rfl
  | cons u rest ih =>
    simp only [reachIn, pathTo]
    by_cases hut : u = t
    · simp [hut, clearB]
    · rw [ih]
      cases hp : pathTo rest t <;> simp [hut, clearB]

def alignedB (diag : Bool) (s t : Nat) : Bool := if diag then diagonal s t else orthogonal s t

def geomCheck (diag : Bool) (s t : Nat) : Bool :=
  let R := raysOf diag s
  let ps := [pathTo R.1 t, pathTo R.2.1 t, pathTo R.2.2.1 t, pathTo R.2.2.2 t].filterMap id
  if alignedB diag s t then ps == [strictlyBetween s t] else ps == []

def raysInRange (diag : Bool) (s : Nat) : Bool :=
  let R := raysOf diag s
  R.1.all (· < 64) && R.2.1.all (· < 64) && R.2.2.1.all (· < 64) && R.2.2.2.all (· < 64)

def geomCheckSq (diag : Bool) (s : Nat) : Bool :=
  raysInRange diag s && (List.range 64).all fun t => geomCheck diag s t

theorem geom_sound (diag : Bool) (s t : Nat) (ht : t < 64) (hr : raysInRange diag s = true)
    (hg : geomCheck diag s t = true) (occ : UInt64) :
    hasSq (attackMask diag s occ true) t = sliderReach diag occ s t := by
  unfold raysInRange at hr
  simp only [Bool.and_eq_true, List.all_eq_true, decide_eq_true_eq] at hr
  obtain ⟨⟨⟨hr1, hr2⟩, hr3⟩, hr4⟩ := hr
  rw [attackMask_block]
  simp only [hasSq_or _ _ _ ht, hasSq_rayWalkU occ t ht _ hr1, hasSq_rayWalkU occ t ht _ hr2,
    hasSq_rayWalkU occ t ht _ hr3, hasSq_rayWalkU occ t ht _ hr4, reachIn_eq]
  dsimp only [geomCheck] at hg
  have hsr : sliderReach diag occ s t =
      (alignedB diag s t && (strictlyBetween s t).all fun u => !hasSq occ u) := rfl
  rw [hsr]
  generalize pathTo (raysOf diag s).1 t = p1 at hg ⊢
  generalize pathTo (raysOf diag s).2.1 t = p2 at hg ⊢
  generalize pathTo (raysOf diag s).2.2.1 t = p3 at hg ⊢
  generalize pathTo (raysOf diag s).2.2.2 t = p4 at hg ⊢
  cases ha : alignedB diag s t <;> simp only [ha, if_true, Bool.false_eq_true, if_false] at hg <;>
    cases p1 <;> cases p2 <;> cases p3 <;> cases p4 <;> simp [clearB] at hg ⊢ <;> rw [hg]

end Flounder.MagicProof
