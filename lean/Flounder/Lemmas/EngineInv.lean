/-
  C03 at the level of the whole engine, part 1: the engine invariant and its preservation by every command.

  (a) abstract game: the table invariant `C03.TTMoveOK G U tt` (every move the table holds for a position of `U`
      is a generated move of that position) for a set `U` that is LARGER than the horizon of the search being
      run — all the boards a whole session hashes — is preserved by `findBestMove` from any root whose horizon
      lies in `U`, under the hypothesis `MovesDet G U`: two positions of `U` with the same hash have the same
      generated moves (as sets).  This is weaker than injectivity of the hash on `U` (`movesDet_of_inj`), and it is the
      form that is satisfiable for chess sessions that meet the same placement with different move counters
      (the Zobrist hash ignores the two counters, `C13.hash_ignores_counters`; the move generator ignores them
      too, `generateMoves_ignores_counters`).
  (b) chess: `EngOK ctx U e` — the current board is valid and the table of the current searcher holds only
      generated (= rules-legal) moves for the boards of `U`; true of the initial engine (`engOK_init`) and
      preserved by every command (`handleCommand_engOK`): `uci`/`isready`/`quit`/unknown/blank (state unchanged),
      `ucinewgame` (fresh table, start position), `position` (table untouched, new board valid), `go` (any
      limit, completed / interrupted / out of fuel).
  (c) what one command prints (`handleCommand_out`): a `go` that returns prints lines not starting with
      `bestmove` followed by exactly one correct `bestmove` line; every other command prints no line starting
      with `bestmove`.
-/
import Flounder.Props.ChessSearch

namespace Flounder.EngineInv
open Flounder Gen Flounder.Search Flounder.Stop Flounder.Chess Flounder.Engine Flounder.KeySim
open Flounder.Lemmas.Uci Flounder.Lemmas.UciPosition Flounder.Props

/-! ## (a) abstract game -/

section abstract
variable {P : Type} (G : Game P)

/-- two positions of `U` with the same hash have the same generated moves (as sets). -/
def MovesDet (U : P → Prop) : Prop :=
  ∀ p q, U p → U q → G.hash p = G.hash q → ∀ m, m ∈ G.moves p ↔ m ∈ G.moves q

/-- implied by injectivity of the hash on `U`. -/
theorem movesDet_of_inj {U : P → Prop} (h : HashInjOn G U) : MovesDet G U :=
  fun p q hp hq e m => by rw [h p q hp hq e]

theorem MovesDet.mono {U V : P → Prop} (h : MovesDet G U) (hVU : ∀ p, V p → U p) : MovesDet G V :=
  fun p q hp hq e => h p q (hVU p hp) (hVU q hq) e

theorem ttMoveOK_mono {U V : P → Prop} {tt : TT} (h : C03.TTMoveOK G U tt) (hVU : ∀ p, V p → U p) :
    C03.TTMoveOK G V tt := fun p hp e he m hm => h p (hVU p hp) e he m hm

/-- storing a generated move of `p ∈ U` keeps the invariant on `U`. -/
theorem ttMoveOK_store_det {U : P → Prop} (hd : MovesDet G U) {tt : TT} (h : C03.TTMoveOK G U tt) {p : P}
    (hS : U p) (ev : Int) {mv : Option Move} (hmv : C03.Legal G p mv) (d : Nat) (b : Bounds) :
    C03.TTMoveOK G U (tt.store (G.hash p) ev mv d b) := by
  intro q hq e he m hm
  rcases C03.retrieve_store_cases tt _ ev mv d b _ e he with ⟨hk, rfl⟩ | hold
  · exact (hd q p hq hS hk m).2 (hmv m hm)
  · exact h q hq e hold m hm

/-- the invariant as a `HypTopR` (cf. `C03.ttHypR`, which asks for injectivity). -/
theorem ttHypR_det {S : Nat → P → Prop} (hr : Ranked G S) (hd : MovesDet G (Ranked.U S)) :
    HypTopR G S (C03.Legal G) (fun _ => True) (fun s => C03.TTMoveOK G (Ranked.U S) s.tt) where
  ranked := hr
  q_none := fun _ _ h => by cases h
  q_move := fun _ _ _ hm m' h => by cases h; exact hm
  gd_poll := fun _ _ _ => trivial
  gd_enter := fun _ _ => trivial
  gd_frame := fun _ _ _ _ => trivial
  poll := fun _ h => h
  enter := fun _ h _ => h
  frame := fun _ _ _ _ _ h => h
  probe := fun _ p e h hS he => h p hS e he
  store := fun _ _ ev _ d b h hS _ hmv => ttMoveOK_store_det G hd h hS ev hmv d b
  rep := fun _ _ h => h
  gd_rep := fun _ _ _ => trivial
  info := fun _ _ h => h

/-- a ranked family extended by a set `U` of positions of remaining depth 0 only (they have no children to
    account for): still ranked. -/
def ext (S : Nat → P → Prop) (U : P → Prop) : Nat → P → Prop := fun d q => S d q ∨ (d = 0 ∧ U q)

theorem ext_ranked {S : Nat → P → Prop} (hr : Ranked G S) (U : P → Prop) : Ranked G (ext S U) where
  step := by
    intro d p m hp hm
    rcases hp with hp | ⟨h0, _⟩
    · exact Or.inl (hr.step d p m hp hm)
    · omega
  anti := by
    intro d p hp
    rcases hp with hp | ⟨h0, _⟩
    · exact Or.inl (hr.anti d p hp)
    · omega

theorem ext_U {S : Nat → P → Prop} {U : P → Prop} (hSU : ∀ d q, S d q → U q) (q : P) :
    Ranked.U (ext S U) q ↔ U q := by
  constructor
  · rintro ⟨d, h | ⟨_, h⟩⟩
    · exact hSU d q h
    · exact h
  · intro h
    exact ⟨0, Or.inr ⟨rfl, h⟩⟩

/-- **the session form of C03's table invariant and answer theorem.**  `U` any set of positions with
    `MovesDet G U` that contains the positions within `D` plies of `root`; the table holds only generated moves
    for the positions of `U`.  Then after `findBestMove … root D` — any limit, completed, interrupted or out of
    fuel — it still does, and the reported move is a generated move of the root, one being reported whenever
    the root has one. -/
theorem findBestMove_session {U : P → Prop} (hd : MovesDet G U) (root : P) (D : Nat)
    (hW : ∀ q, Search.Within G root D q → U q) (qfuel : Nat) (limit : Limit) (s : SearchState)
    (h : C03.TTMoveOK G U s.tt) :
    C03.TTMoveOK G U (findBestMove G qfuel root D limit s).2.tt ∧
    ∀ score mv s', findBestMove G qfuel root D limit s = (some (score, mv), s') →
      (∀ m, mv = some m → m ∈ G.moves root) ∧ (G.moves root ≠ [] → mv ≠ none) := by
  have hSU : ∀ d q, horizon G root D d q → U q := fun d q hq => hW q (hq.2.mono (Nat.sub_le _ _))
  have hr := ext_ranked G (horizon_ranked G root D) U
  have hU := ext_U (S := horizon G root D) hSU
  have hd' : MovesDet G (Ranked.U (ext (horizon G root D) U)) := hd.mono G (fun p hp => (hU p).1 hp)
  have h' : C03.TTMoveOK G (Ranked.U (ext (horizon G root D) U)) s.tt := ttMoveOK_mono G h (fun p hp => (hU p).1 hp)
  have H := ttHypR_det G hr hd'
  have hroot : ext (horizon G root D) U D root := Or.inl (horizon_root G root D)
  constructor
  · have := findBestMove_inv_ranked H qfuel root D hroot limit s h'
    exact ttMoveOK_mono G this (fun p hp => (hU p).2 hp)
  · intro score mv s' hres
    exact C03.bestmove_of_iterate G qfuel root D limit s score mv s' hres
      (iterate_inv_ranked H qfuel root D hroot D 1 (NEGATIVE_INFINITY, none) (resetState limit s)
        (fun _ h => by cases h) h').2

end abstract

/-! ## (b) chess: the engine invariant -/

/-- for every key draw: two boards of `U` with the same hash have the same generated moves. -/
def KeysFaithful (keys : Nat → ZKeys) (U : Board → Prop) : Prop := ∀ i, MovesDet (cg (keys i)) U

/-- for every key draw: the hash separates the boards of `U`. -/
def KeysInjective (keys : Nat → ZKeys) (U : Board → Prop) : Prop :=
  ∀ i p q, U p → U q → hash (keys i) p = hash (keys i) q → p = q

/-- for every key draw: two boards of `U` with the same hash are the same position up to the move counters. -/
def KeysInjectiveUpToCounters (keys : Nat → ZKeys) (U : Board → Prop) : Prop :=
  ∀ i p q, U p → U q → hash (keys i) p = hash (keys i) q → C04.PosAgree (Spec.abs p) (Spec.abs q)

theorem KeysInjective.faithful {keys : Nat → ZKeys} {U : Board → Prop} (h : KeysInjective keys U) :
    KeysFaithful keys U := fun i => movesDet_of_inj (cg (keys i)) (h i)

theorem KeysInjective.upToCounters {keys : Nat → ZKeys} {U : Board → Prop} (h : KeysInjective keys U) :
    KeysInjectiveUpToCounters keys U := fun i p q hp hq e => by
  rw [h i p q hp hq e]; exact C04.PosAgree.refl _

/-- on valid boards "same position up to the counters" gives the same legal = generated moves. -/
theorem KeysInjectiveUpToCounters.faithful {keys : Nat → ZKeys} {U : Board → Prop}
    (h : KeysInjectiveUpToCounters keys U) (hval : ∀ q, U q → Spec.valid q = true) : KeysFaithful keys U := by
  intro i p q hp hq e m
  rw [mem_moves_iff (keys i) (hval p hp) m, mem_moves_iff (keys i) (hval q hq) m,
    C04.legal_congr (h i p q hp hq e) m]

theorem KeysFaithful.mono {keys : Nat → ZKeys} {U V : Board → Prop} (h : KeysFaithful keys U)
    (hVU : ∀ q, V q → U q) : KeysFaithful keys V := fun i => (h i).mono _ hVU

/-- **the engine invariant**: the current board is valid and the table of the current searcher (key draw
    number `e.newGames`) holds, for every board of `U`, only generated moves of that board. -/
structure EngOK (ctx : EngineCtx) (U : Board → Prop) (e : Engine) : Prop where
  valid : Spec.valid e.board = true
  table : C03.TTMoveOK (cg (ctx.keys e.newGames)) U e.search.tt

/-- read through the rules: every move the table holds for a board of `U` that is valid is legal there. -/
theorem EngOK.table_legal {ctx : EngineCtx} {U : Board → Prop} {e : Engine} (h : EngOK ctx U e) (q : Board)
    (hq : U q) (hv : Spec.valid q = true) (en : Entry)
    (he : e.search.tt.retrieve (hash (ctx.keys e.newGames) q) = some en) (m : Move) (hm : en.bestMove = some m) :
    Spec.legal (Spec.abs q) m = true :=
  (mem_moves_iff (ctx.keys e.newGames) hv m).1 (h.table q hq en he m hm)

theorem valid_startpos : Spec.valid Board.startpos = true := good_startpos.valid

/-- the initial engine satisfies the invariant (for every `U`). -/
theorem engOK_init (ctx : EngineCtx) (U : Board → Prop) : EngOK ctx U {} :=
  ⟨valid_startpos, C03.ttMoveOK_empty _ U⟩

/-! ### lines that do / do not start with `bestmove` -/

/-- the line does not start with `bestmove`. -/
def NotBm (l : List Char) : Prop := (str "bestmove").isPrefixOf l = false

/-- `l` is a correct answer to a `go` on board `b`: `bestmove <text of a rules-legal move>`, or `bestmove 0000`
    when the rules allow no move. -/
def AnswerFor (b : Board) (l : List Char) : Prop :=
  (∃ m, Spec.legal (Spec.abs b) m = true ∧ l = str "bestmove " ++ m.toAlgebraic) ∨
  (l = str "bestmove 0000" ∧ ∀ m, Spec.legal (Spec.abs b) m = false)

theorem notBm_infoLine (d : Nat) (sc : Int) (n : Nat) (pv : Option Move) : NotBm (infoLine d sc n pv) := by
  have := ChessSearch.infoLine_not_bestmove d sc n pv
  unfold NotBm
  cases h : (str "bestmove").isPrefixOf (infoLine d sc n pv) with
  | false => rfl
  | true => exact absurd h this

theorem notBm_handshake : NotBm lineIdName ∧ NotBm lineIdAuthor ∧ NotBm lineUciok ∧ NotBm lineReadyok ∧
    NotBm lineFenErr ∧ NotBm lineFenDefault := by
  unfold NotBm; decide

/-- a correct answer does start with `bestmove`. -/
theorem AnswerFor.isBm {b : Board} {l : List Char} (h : AnswerFor b l) : (str "bestmove").isPrefixOf l = true := by
  have e1 : str "bestmove " = str "bestmove" ++ [' '] := by decide
  have e2 : str "bestmove 0000" = str "bestmove" ++ str " 0000" := by decide
  rcases h with ⟨m, _, rfl⟩ | ⟨rfl, _⟩
  · rw [e1, List.append_assoc]; exact List.isPrefixOf_iff_prefix.2 (List.prefix_append _ _)
  · rw [e2]; exact List.isPrefixOf_iff_prefix.2 (List.prefix_append _ _)

/-- `0000` is answered exactly when the board has no legal move … -/
theorem AnswerFor.zero_iff {b : Board} {l : List Char} (h : AnswerFor b l) :
    l = str "bestmove 0000" ↔ ∀ m, Spec.legal (Spec.abs b) m = false := by
  constructor
  · intro hl
    rcases h with ⟨m, _, rfl⟩ | ⟨_, hno⟩
    · rw [ChessSearch.bestmove0000_eq] at hl
      exact absurd (List.append_cancel_left hl) (ChessSearch.toAlgebraic_ne_0000 m)
    · exact hno
  · intro hno
    rcases h with ⟨m, hm, _⟩ | ⟨hl, _⟩
    · rw [hno m] at hm; cases hm
    · exact hl

/-- … that is, at checkmate or stalemate. -/
theorem AnswerFor.zero_iff_mate_or_stalemate {b : Board} {l : List Char} (h : AnswerFor b l) :
    l = str "bestmove 0000" ↔ (Spec.isMate (Spec.abs b) = true ∨ Spec.isStalemate (Spec.abs b) = true) :=
  h.zero_iff.trans (Spec.no_legal_iff_mate_or_stalemate _)

/-! ### `go` -/

/-- **`go` preserves the invariant and answers correctly.**  `U` contains the boards within the parsed depth of
    the current board.  Whatever the limit (also the instrumentation `nextLimit`): the invariant holds
    afterwards, the board is unchanged, and either the command returns and prints lines not starting with
    `bestmove` followed by exactly one correct `bestmove` line, or the MODEL ran out of quiescence fuel and
    nothing is printed. -/
theorem handleGo_spec (ctx : EngineCtx) (hmg : ctx.mg = MoveGenerator.new) {U : Board → Prop}
    (hk : KeysFaithful ctx.keys U) {e : Engine} (h : EngOK ctx U e) (parts : List Tok)
    (hV : ∀ q, Search.Within (rulesGame ctx.mg) e.board (goParams e.board.active parts).depth q → U q) :
    EngOK ctx U (handleGo ctx e parts).2.1 ∧ (handleGo ctx e parts).2.1.board = e.board ∧
    (((handleGo ctx e parts).2.2 = .running ∧ ∃ infos l, (handleGo ctx e parts).1 = infos ++ [l] ∧
        (∀ x ∈ infos, NotBm x) ∧ AnswerFor e.board l) ∨
      ((handleGo ctx e parts).2.2 = .outOfFuel ∧ (handleGo ctx e parts).1 = [])) := by
  have hW : ∀ q, Search.Within (cg (ctx.keys e.newGames)) e.board (goParams e.board.active parts).depth q → U q :=
    fun q hq => hV q (by rw [hmg]; exact within_congr (chess_sameRules _ _ _) hq)
  obtain ⟨hT, hA⟩ := findBestMove_session (cg (ctx.keys e.newGames)) (hk e.newGames) e.board
    (goParams e.board.active parts).depth hW ctx.qfuel (goLimit e parts) e.search h.table
  rw [handleGo_eq, hmg]
  rcases hres : findBestMove (chessGame MoveGenerator.new (ctx.keys e.newGames)) ctx.qfuel e.board
      (goParams e.board.active parts).depth (goLimit e parts) e.search with ⟨ro, s'⟩
  rw [hres] at hT
  cases ro with
  | none => exact ⟨⟨h.valid, hT⟩, rfl, Or.inr ⟨rfl, rfl⟩⟩
  | some r =>
    obtain ⟨score, mv⟩ := r
    obtain ⟨hleg, hsome⟩ := hA score mv s' hres
    refine ⟨⟨h.valid, hT⟩, rfl, Or.inl ⟨rfl, _, _, rfl, ?_, ?_⟩⟩
    · intro x hx
      obtain ⟨y, _, rfl⟩ := List.mem_map.1 hx
      exact notBm_infoLine _ _ _ _
    · cases mv with
      | some m => exact Or.inl ⟨m, (mem_moves_iff (ctx.keys e.newGames) h.valid m).1 (hleg m rfl), rfl⟩
      | none =>
        refine Or.inr ⟨rfl, (moves_nil_iff (ctx.keys e.newGames) h.valid).1 ?_⟩
        cases hm : (cg (ctx.keys e.newGames)).moves e.board with
        | nil => rfl
        | cons a l => exact absurd rfl (hsome (by rw [hm]; exact List.cons_ne_nil _ _))

/-! ### `position` -/

/-- the base board of a `position` command (start position, or the board the FEN fields parse to) is valid.
    Only a FEN that parses (`fenToBoard … = .ok b`) gives this any content: see `baseValid_of_not_fen`. -/
def BaseValid (parts : List Tok) : Prop := ∀ out b, positionBase parts = some (out, b) → Spec.valid b = true

/-- a `position` command that is not `position fen …` always has a valid base board. -/
theorem baseValid_of_not_fen (parts : List Tok) (h : parts.getD 1 [] ≠ kwFen) : BaseValid parts := by
  intro out b hb
  unfold positionBase at hb
  by_cases h1 : parts.length < 2
  · rw [if_pos h1] at hb; cases hb
  · rw [if_neg h1] at hb
    by_cases h2 : parts.getD 1 [] = kwStartpos
    · rw [if_pos h2] at hb
      simp only [Option.some.injEq, Prod.mk.injEq] at hb
      rw [← hb.2]; exact valid_startpos
    · rw [if_neg h2, if_neg h] at hb; cases hb

/-- a FEN that does not parse falls back to the start position: valid. What remains is the `.ok` case. -/
theorem baseValid_iff (parts : List Tok) :
    BaseValid parts ↔ (2 ≤ parts.length → parts.getD 1 [] = kwFen → 8 ≤ parts.length →
      ∀ b, fenToBoard ((parts.drop 2).take 6) = .ok b → Spec.valid b = true) := by
  have hsf : kwStartpos ≠ kwFen := by decide
  constructor
  · intro h h1 h3 h4 b hf
    refine h [] b ?_
    unfold positionBase
    have h2 : parts.getD 1 [] ≠ kwStartpos := by rw [h3]; exact hsf.symm
    rw [if_neg (by omega), if_neg h2, if_pos h3, if_neg (by omega), hf]
  · intro h out b hb
    by_cases h3 : parts.getD 1 [] = kwFen
    · unfold positionBase at hb
      have h2 : parts.getD 1 [] ≠ kwStartpos := by rw [h3]; exact hsf.symm
      by_cases h1 : parts.length < 2
      · rw [if_pos h1] at hb; cases hb
      · rw [if_neg h1, if_neg h2, if_pos h3] at hb
        by_cases h4 : parts.length < 8
        · rw [if_pos h4] at hb; cases hb
        · rw [if_neg h4] at hb
          cases hf : fenToBoard ((parts.drop 2).take 6) with
          | ok b0 =>
            rw [hf] at hb
            simp only [Option.some.injEq, Prod.mk.injEq] at hb
            rw [← hb.2]; exact h (by omega) h3 (by omega) b0 hf
          | err =>
            rw [hf] at hb
            simp only [Option.some.injEq, Prod.mk.injEq] at hb
            rw [← hb.2]; exact valid_startpos
          | panic => rw [hf] at hb; cases hb
          | undef => rw [hf] at hb; cases hb
    · exact baseValid_of_not_fen parts h3 out b hb

/-- the lines printed while the base board is built. -/
theorem positionBase_out (parts : List Tok) (out : List (List Char)) (b : Board)
    (h : positionBase parts = some (out, b)) : out = [] ∨ out = [lineFenErr, lineFenDefault] := by
  unfold positionBase at h
  by_cases h1 : parts.length < 2
  · rw [if_pos h1] at h; cases h
  · rw [if_neg h1] at h
    by_cases h2 : parts.getD 1 [] = kwStartpos
    · rw [if_pos h2] at h
      simp only [Option.some.injEq, Prod.mk.injEq] at h
      exact Or.inl h.1.symm
    · rw [if_neg h2] at h
      by_cases h3 : parts.getD 1 [] = kwFen
      · rw [if_pos h3] at h
        by_cases h4 : parts.length < 8
        · rw [if_pos h4] at h; cases h
        · rw [if_neg h4] at h
          cases hf : fenToBoard ((parts.drop 2).take 6) with
          | ok b0 => rw [hf] at h; simp only [Option.some.injEq, Prod.mk.injEq] at h; exact Or.inl h.1.symm
          | err => rw [hf] at h; simp only [Option.some.injEq, Prod.mk.injEq] at h; exact Or.inr h.1.symm
          | panic => rw [hf] at h; cases h
          | undef => rw [hf] at h; cases h
      · rw [if_neg h3] at h; cases h

/-- replaying move tokens from a valid board (each resolved against the generated = rules-legal moves) passes
    through valid boards only and ends on a valid board. -/
theorem replay_valid (ts : List Tok) : ∀ (b : Board), Spec.valid b = true → ∀ past fin,
    replay MoveGenerator.new ts b = some (past, fin) → Spec.valid fin = true ∧ ∀ q ∈ past, Spec.valid q = true := by
  induction ts with
  | nil =>
    intro b hv past fin h
    simp only [replay, Option.some.injEq, Prod.mk.injEq] at h
    obtain ⟨rfl, rfl⟩ := h
    exact ⟨hv, fun q hq => by cases hq⟩
  | cons t ts ih =>
    intro b hv past fin h
    simp only [replay] at h
    cases hr : resolve MoveGenerator.new b t with
    | none => rw [hr] at h; cases h
    | some m =>
      rw [hr] at h
      simp only at h
      have hmem : m ∈ (cg KeySim.noKeys).moves b := List.mem_of_find?_eq_some hr
      obtain ⟨hmk, hv', _⟩ := play_spec KeySim.noKeys hv hmem
      rw [hmk] at h
      simp only at h
      cases hrec : replay MoveGenerator.new ts ((cg KeySim.noKeys).play b m) with
      | none => rw [hrec] at h; cases h
      | some pf =>
        obtain ⟨past', fin'⟩ := pf
        rw [hrec] at h
        simp only [Option.some.injEq, Prod.mk.injEq] at h
        obtain ⟨rfl, rfl⟩ := h
        obtain ⟨hf, hp⟩ := ih _ hv' past' fin' hrec
        refine ⟨hf, fun q hq => ?_⟩
        rcases List.mem_cons.1 hq with rfl | hq
        · exact hv
        · exact hp q hq

/-- **`position` preserves the invariant** (table untouched; new board valid) and prints at most the two FEN
    error lines. -/
theorem handlePosition_spec (ctx : EngineCtx) (hmg : ctx.mg = MoveGenerator.new) {U : Board → Prop} {e : Engine}
    (h : EngOK ctx U e) (parts : List Tok) (hb : BaseValid parts) :
    EngOK ctx U (handlePosition ctx e parts).2.1 ∧ ∀ x ∈ (handlePosition ctx e parts).1, NotBm x := by
  cases hbase : positionBase parts with
  | none =>
    obtain ⟨oc, hoc⟩ := handlePosition_no_base parts hbase
    rw [hoc]
    exact ⟨h, fun x hx => by cases hx⟩
  | some ob =>
    obtain ⟨out, b0⟩ := ob
    have hv0 := hb out b0 hbase
    have hout : ∀ x ∈ out, NotBm x := by
      intro x hx
      rcases positionBase_out parts out b0 hbase with rfl | rfl
      · cases hx
      · simp only [List.mem_cons, List.not_mem_nil, or_false] at hx
        rcases hx with rfl | rfl
        · exact notBm_handshake.2.2.2.2.1
        · exact notBm_handshake.2.2.2.2.2
    rw [handlePosition_of_base _ _ _ _ _ hbase]
    unfold positionResult
    cases hm : movesAfter parts with
    | none => exact ⟨⟨hv0, h.table⟩, hout⟩
    | some ts =>
      dsimp only
      rw [hmg]
      cases hr : replay MoveGenerator.new ts b0 with
      | none => exact ⟨h, hout⟩
      | some pf =>
        obtain ⟨past, fin⟩ := pf
        exact ⟨⟨(replay_valid ts b0 hv0 past fin hr).1, h.table⟩, hout⟩

/-! ### one command -/

/-- the command is a `go` (first token `go`). -/
def isGo (parts : List Tok) : Bool :=
  match parts with
  | [] => false
  | cmd :: _ => cmd == kwGo

/-- the command is a `position` (first token `position`). -/
def isPosition (parts : List Tok) : Bool :=
  match parts with
  | [] => false
  | cmd :: _ => cmd == kwPosition

/-- what `handleCommand` does, command by command, under the invariant. -/
theorem handleCommand_spec (ctx : EngineCtx) (hmg : ctx.mg = MoveGenerator.new) {U : Board → Prop}
    (hk : KeysFaithful ctx.keys U) {e : Engine} (h : EngOK ctx U e) (parts : List Tok)
    (hV : ∀ q, cmdBoards ctx.mg parts e.board q → U q) (hb : isPosition parts = true → BaseValid parts) :
    EngOK ctx U (handleCommand ctx e parts).2.1 ∧
    (isGo parts = true → (handleCommand ctx e parts).2.2 = .running →
      ∃ infos l, (handleCommand ctx e parts).1 = infos ++ [l] ∧ (∀ x ∈ infos, NotBm x) ∧ AnswerFor e.board l) ∧
    (¬ (isGo parts = true ∧ (handleCommand ctx e parts).2.2 = .running) →
      ∀ x ∈ (handleCommand ctx e parts).1, NotBm x) := by
  unfold cmdBoards at hV
  unfold handleCommand
  cases parts with
  | nil => exact ⟨h, (fun hg => by cases hg), fun _ x hx => by cases hx⟩
  | cons cmd tl =>
    simp only at hV ⊢
    have hgo : isGo (cmd :: tl) = (cmd == kwGo) := rfl
    have hpos : isPosition (cmd :: tl) = (cmd == kwPosition) := rfl
    rw [hgo]
    rw [hpos] at hb
    by_cases c1 : cmd = kwUci
    · rw [if_pos c1]
      have : (cmd == kwGo) = false := by rw [c1]; decide
      rw [this]
      refine ⟨h, (fun hg => by cases hg), fun _ x hx => ?_⟩
      simp only [List.mem_cons, List.not_mem_nil, or_false] at hx
      rcases hx with rfl | rfl | rfl
      · exact notBm_handshake.1
      · exact notBm_handshake.2.1
      · exact notBm_handshake.2.2.1
    · simp only [c1, if_false] at hV ⊢
      by_cases c2 : cmd = kwIsready
      · rw [if_pos c2]
        have : (cmd == kwGo) = false := by rw [c2]; decide
        rw [this]
        refine ⟨h, (fun hg => by cases hg), fun _ x hx => ?_⟩
        simp only [List.mem_cons, List.not_mem_nil, or_false] at hx
        rw [hx]; exact notBm_handshake.2.2.2.1
      · simp only [c2, if_false] at hV ⊢
        by_cases c3 : cmd = kwUcinewgame
        · rw [if_pos c3]
          have : (cmd == kwGo) = false := by rw [c3]; decide
          rw [this]
          exact ⟨⟨valid_startpos, C03.ttMoveOK_empty _ U⟩, (fun hg => by cases hg), fun _ x hx => by cases hx⟩
        · simp only [c3, if_false] at hV ⊢
          by_cases c4 : cmd = kwPosition
          · simp only [c4, if_true] at hV ⊢
            have : (kwPosition == kwGo) = false := by decide
            rw [this]
            obtain ⟨p1, p2⟩ := handlePosition_spec ctx hmg h (kwPosition :: tl) (by rw [c4] at hb; exact hb (by decide))
            exact ⟨p1, (fun hg => by cases hg), fun _ => p2⟩
          · simp only [c4, if_false] at hV ⊢
            by_cases c5 : cmd = kwGo
            · simp only [c5, if_true] at hV ⊢
              obtain ⟨g1, _, g3⟩ := handleGo_spec ctx hmg hk h (kwGo :: tl) hV
              refine ⟨g1, fun _ hrun => ?_, fun hn x hx => ?_⟩
              · rcases g3 with ⟨_, g⟩ | ⟨hf, _⟩
                · exact g
                · rw [hf] at hrun; cases hrun
              · rcases g3 with ⟨hr, _⟩ | ⟨_, ho⟩
                · exact absurd ⟨by decide, hr⟩ hn
                · rw [ho] at hx; cases hx
            · simp only [c5, if_false] at hV ⊢
              have : (cmd == kwGo) = false := by simpa using c5
              rw [this]
              by_cases c6 : cmd = kwQuit
              · rw [if_pos c6]; exact ⟨h, (fun hg => by cases hg), fun _ x hx => by cases hx⟩
              · rw [if_neg c6]; exact ⟨h, (fun hg => by cases hg), fun _ x hx => by cases hx⟩

/-- **every command preserves the invariant** (whatever its outcome). -/
theorem handleCommand_engOK (ctx : EngineCtx) (hmg : ctx.mg = MoveGenerator.new) {U : Board → Prop}
    (hk : KeysFaithful ctx.keys U) {e : Engine} (h : EngOK ctx U e) (parts : List Tok)
    (hV : ∀ q, cmdBoards ctx.mg parts e.board q → U q) (hb : isPosition parts = true → BaseValid parts) :
    EngOK ctx U (handleCommand ctx e parts).2.1 :=
  (handleCommand_spec ctx hmg hk h parts hV hb).1

theorem handleGo_board (ctx : EngineCtx) (e : Engine) (parts : List Tok) :
    (handleGo ctx e parts).2.1.board = e.board := by
  rw [handleGo_eq]
  rcases findBestMove (chessGame ctx.mg (ctx.keys e.newGames)) ctx.qfuel e.board
      (goParams e.board.active parts).depth (goLimit e parts) e.search with ⟨ro, s'⟩
  cases ro with
  | none => rfl
  | some r => rfl

theorem handlePosition_board (ctx : EngineCtx) (e : Engine) (parts : List Tok) :
    (handlePosition ctx e parts).2.1.board = positionNext ctx.mg parts e.board := by
  unfold positionNext
  cases hb : positionBase parts with
  | none => rw [handlePosition_of_no_base ctx e parts hb]
  | some ob =>
    obtain ⟨out, b0⟩ := ob
    rw [handlePosition_of_base _ _ _ _ _ hb]
    unfold positionResult
    cases hm : movesAfter parts with
    | none => rfl
    | some ts =>
      dsimp only
      cases hr : replay ctx.mg ts b0 with
      | none => rfl
      | some pf => rfl

/-- the current board after a command (whatever its outcome) is `cmdNext` of the board before: the position last
    set. -/
theorem handleCommand_board (ctx : EngineCtx) (e : Engine) (parts : List Tok) :
    (handleCommand ctx e parts).2.1.board = cmdNext ctx.mg parts e.board := by
  unfold handleCommand
  unfold cmdNext
  cases parts with
  | nil => rfl
  | cons cmd tl =>
    simp only
    by_cases c1 : cmd = kwUci
    · rw [if_pos c1, if_pos c1]
    · simp only [c1, if_false]
      by_cases c2 : cmd = kwIsready
      · rw [if_pos c2, if_pos c2]
      · simp only [c2, if_false]
        by_cases c3 : cmd = kwUcinewgame
        · rw [if_pos c3, if_pos c3]
        · simp only [c3, if_false]
          by_cases c4 : cmd = kwPosition
          · simp only [c4, if_true]
            exact handlePosition_board ctx e _
          · simp only [c4, if_false]
            by_cases c5 : cmd = kwGo
            · simp only [c5, if_true]
              exact handleGo_board ctx e _
            · simp only [c5, if_false]
              by_cases c6 : cmd = kwQuit
              · rw [if_pos c6]
              · rw [if_neg c6]

end Flounder.EngineInv
