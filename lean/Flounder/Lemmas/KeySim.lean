/-
  C13 helpers, part 1: the simulation relation between two runs of the search that differ ONLY in the
  hash function (`Game.hash` = the Zobrist key table drawn at start-up).

  * `SameRules G₁ G₂` — the two games agree on every field except `hash`.
  * `Sim G₁ G₂ U s₁ s₂` — the two search states are "the same up to renaming of hash keys": the tables are
    well-formed and answer alike THROUGH every position of `U`, the repetition stacks are the images of one
    list of positions of `U`, every other field is equal.
  * primitive steps: polling, node counting, killers/history, `isRepetition`, `probeTT`, `TT.store`,
    move ordering, quiescence (which never touches hash, table or stack).
-/
import Flounder.Lemmas.Ranked
import Flounder.Lemmas.SearchIterate

namespace Flounder.KeySim
open Flounder Gen Flounder.Search

variable {P : Type}

/-- the two games agree on everything except the hash. -/
structure SameRules (G₁ G₂ : Game P) : Prop where
  moves : G₁.moves = G₂.moves
  qmoves : G₁.qmoves = G₂.qmoves
  play : G₁.play = G₂.play
  inCheck : G₁.inCheck = G₂.inCheck
  eval : G₁.eval = G₂.eval
  pieceAt : G₁.pieceAt = G₂.pieceAt

theorem SameRules.refl (G : Game P) : SameRules G G := ⟨rfl, rfl, rfl, rfl, rfl, rfl⟩
theorem SameRules.symm {G₁ G₂ : Game P} (h : SameRules G₁ G₂) : SameRules G₂ G₁ :=
  ⟨h.moves.symm, h.qmoves.symm, h.play.symm, h.inCheck.symm, h.eval.symm, h.pieceAt.symm⟩

/-- a family ranked for one game is ranked for every game with the same rules. -/
theorem SameRules.ranked {G₁ G₂ : Game P} (h : SameRules G₁ G₂) {S : Nat → P → Prop} (hS : Ranked G₁ S) :
    Ranked G₂ S where
  step := by
    intro d p m hp hm
    rw [← h.moves] at hm
    rw [← h.play]
    exact hS.step d p m hp hm
  anti := hS.anti

/-! ### table entries without their key -/

/-- an entry without its `hashKey`: what the search reads from a key-verified entry. -/
def strip (e : Entry) : Int × Option Move × Nat × Bounds := (e.eval, e.bestMove, e.depth, e.bounds)

/-- every record sits under its own key (true of the empty table; `store` only inserts `⟨k, …⟩` under `k`).
    Needed because `TT.store` looks at the RAW map while `TT.retrieve` verifies the key. -/
def TableWF (t : TT) : Prop := ∀ (k : UInt64) (e : Entry), t.table[k]? = some e → e.hashKey = k

theorem tableWF_empty : TableWF {} := by
  intro k e h
  simp at h

theorem retrieve_empty (k : UInt64) : ({} : TT).retrieve k = none := by
  simp [TT.retrieve]

theorem retrieve_of_wf {t : TT} (h : TableWF t) (k : UInt64) : t.retrieve k = t.table[k]? := by
  unfold TT.retrieve
  cases hk : t.table[k]? with
  | none => rfl
  | some e =>
    have := h k e hk
    simp [this]

theorem tableWF_insert {t : TT} (h : TableWF t) (k : UInt64) (ev : Int) (mv : Option Move) (d : Nat)
    (b : Bounds) : TableWF { table := t.table.insert k ⟨k, ev, mv, d, b⟩ } := by
  intro k' e he
  simp only [Std.HashMap.getElem?_insert] at he
  split at he
  · rename_i hk
    cases he
    simpa using hk
  · exact h k' e he

theorem tableWF_store {t : TT} (h : TableWF t) (k : UInt64) (ev : Int) (mv : Option Move) (d : Nat)
    (b : Bounds) : TableWF (t.store k ev mv d b) := by
  unfold TT.store
  split
  · exact tableWF_insert h k ev mv d b
  · split
    · exact tableWF_insert h k ev mv d b
    · exact h

/-- what a lookup sees after a store into a well-formed table. -/
theorem retrieve_store_wf {t : TT} (h : TableWF t) (k k' : UInt64) (ev : Int) (mv : Option Move) (d : Nat)
    (b : Bounds) :
    (t.store k ev mv d b).retrieve k' =
      if k' = k then
        (match t.retrieve k with
         | none => some ⟨k, ev, mv, d, b⟩
         | some prev => if prev.depth ≤ d then some ⟨k, ev, mv, d, b⟩ else some prev)
      else t.retrieve k' := by
  have ins : ({ table := t.table.insert k ⟨k, ev, mv, d, b⟩ } : TT).retrieve k' =
      if k' = k then some ⟨k, ev, mv, d, b⟩ else t.retrieve k' := by
    by_cases hk : k' = k
    · subst hk; simp [TT.retrieve]
    · have : ¬ (k = k') := fun h => hk h.symm
      simp [TT.retrieve, Std.HashMap.getElem?_insert, this, hk]
  rw [retrieve_of_wf h k]
  unfold TT.store
  cases hk : t.table[k]? with
  | none =>
    simp only
    rw [ins]
  | some prev =>
    simp only
    by_cases hd : prev.depth ≤ d
    · rw [if_pos hd, if_pos hd, ins]
    · rw [if_neg hd, if_neg hd]
      by_cases hkk : k' = k
      · subst hkk
        rw [if_pos rfl, retrieve_of_wf h, hk]
      · rw [if_neg hkk]

/-! ### the relation -/

/-- `s` with another table and another repetition stack. -/
def withTR (s : SearchState) (t : TT) (r : List UInt64) : SearchState := { s with tt := t, rep := r }

theorem withTR_self (s : SearchState) : withTR s s.tt s.rep = s := rfl
theorem withTR_tt (s : SearchState) (t : TT) (r : List UInt64) : (withTR s t r).tt = t := rfl
theorem withTR_rep (s : SearchState) (t : TT) (r : List UInt64) : (withTR s t r).rep = r := rfl
theorem withTR_withTR (s : SearchState) (t t' : TT) (r r' : List UInt64) :
    withTR (withTR s t r) t' r' = withTR s t' r' := rfl

section rel
variable (G₁ G₂ : Game P) (U : P → Prop)

/-- the tables answer alike through every position of `U`. -/
def TablesAgree (t₁ t₂ : TT) : Prop :=
  ∀ p, U p → (t₁.retrieve (G₁.hash p)).map strip = (t₂.retrieve (G₂.hash p)).map strip

/-- the repetition stacks are the images of one list of positions of `U`. -/
def RepsAgree (r₁ r₂ : List UInt64) : Prop :=
  ∃ ps : List P, (∀ q ∈ ps, U q) ∧ r₁ = ps.map G₁.hash ∧ r₂ = ps.map G₂.hash

/-- the simulation relation between the search state of the run with `G₁.hash` and the run with `G₂.hash`. -/
structure Sim (s₁ s₂ : SearchState) : Prop where
  wf₁ : TableWF s₁.tt
  wf₂ : TableWF s₂.tt
  agree : TablesAgree G₁ G₂ U s₁.tt s₂.tt
  rep : RepsAgree G₁ G₂ U s₁.rep s₂.rep
  killers : s₁.killers = s₂.killers
  history : s₁.history = s₂.history
  nodes : s₁.nodes = s₂.nodes
  polls : s₁.polls = s₂.polls
  limit : s₁.limit = s₂.limit
  stopSeen : s₁.stopSeen = s₂.stopSeen
  nodesAfterStop : s₁.nodesAfterStop = s₂.nodesAfterStop
  deeperHits : s₁.deeperHits = s₂.deeperHits
  sameDepthHits : s₁.sameDepthHits = s₂.sameDepthHits
  info : s₁.info = s₂.info

end rel

section basic
variable {G₁ G₂ : Game P} {U : P → Prop}

/-- fresh states are related. -/
theorem sim_fresh : Sim G₁ G₂ U {} {} :=
  ⟨tableWF_empty, tableWF_empty, fun p _ => by rw [retrieve_empty, retrieve_empty],
    ⟨[], fun _ h => by simp at h, rfl, rfl⟩, rfl, rfl, rfl, rfl, rfl, rfl, rfl, rfl, rfl, rfl⟩

theorem Sim.eq_withTR {s₁ s₂ : SearchState} (h : Sim G₁ G₂ U s₁ s₂) : s₂ = withTR s₁ s₂.tt s₂.rep := by
  obtain ⟨_, _, _, _, hk, hh, hn, hp, hl, hs, hna, hd, hsd, hi⟩ := h
  cases s₁; cases s₂
  simp only at hk hh hn hp hl hs hna hd hsd hi
  subst hk hh hn hp hl hs hna hd hsd hi
  rfl

theorem Sim.of_withTR (s : SearchState) {t₁ t₂ : TT} {r₁ r₂ : List UInt64} (w₁ : TableWF t₁) (w₂ : TableWF t₂)
    (ha : TablesAgree G₁ G₂ U t₁ t₂) (hr : RepsAgree G₁ G₂ U r₁ r₂) :
    Sim G₁ G₂ U (withTR s t₁ r₁) (withTR s t₂ r₂) :=
  ⟨w₁, w₂, ha, hr, rfl, rfl, rfl, rfl, rfl, rfl, rfl, rfl, rfl, rfl⟩

/-- an operation that touches neither the table nor the stack preserves the relation. -/
theorem Sim.map {s₁ s₂ : SearchState} (h : Sim G₁ G₂ U s₁ s₂) (f : SearchState → SearchState)
    (hf : ∀ s t r, f (withTR s t r) = withTR (f s) t r) : Sim G₁ G₂ U (f s₁) (f s₂) := by
  have e₂ := h.eq_withTR
  have e₁ : f s₁ = withTR (f s₁) s₁.tt s₁.rep := by
    conv => lhs; rw [← withTR_self s₁, hf]
  rw [e₂, hf, e₁, withTR_withTR]
  exact Sim.of_withTR _ h.wf₁ h.wf₂ h.agree h.rep

/-- an observation that reads neither the table nor the stack gives the same answer. -/
theorem Sim.obs {α : Type} {s₁ s₂ : SearchState} (h : Sim G₁ G₂ U s₁ s₂) (g : SearchState → α)
    (hg : ∀ s t r, g (withTR s t r) = g s) : g s₁ = g s₂ := by
  rw [h.eq_withTR, hg]

theorem Sim.stopFlag {s₁ s₂ : SearchState} (h : Sim G₁ G₂ U s₁ s₂) : Search.stopFlag s₁ = Search.stopFlag s₂ :=
  h.obs Search.stopFlag (fun _ _ _ => rfl)

theorem Sim.polled {s₁ s₂ : SearchState} (h : Sim G₁ G₂ U s₁ s₂) : Sim G₁ G₂ U (Search.polled s₁) (Search.polled s₂) :=
  h.map Search.polled (fun _ _ _ => rfl)

theorem Sim.incrementNodes {s₁ s₂ : SearchState} (h : Sim G₁ G₂ U s₁ s₂) :
    Sim G₁ G₂ U s₁.incrementNodes s₂.incrementNodes :=
  h.map SearchState.incrementNodes (fun _ _ _ => rfl)

theorem storeKiller_withTR (s : SearchState) (t : TT) (r : List UInt64) (mv : Move) (ply : Nat) :
    (withTR s t r).storeKiller mv ply = withTR (s.storeKiller mv ply) t r := by
  unfold SearchState.storeKiller
  split
  · dsimp only
    split
    · rename_i h
      have h' : ((s.killers.getD ply #[]).getD 0 none == some mv) = true := h
      rw [if_pos h']
    · rename_i h
      have h' : ¬ ((s.killers.getD ply #[]).getD 0 none == some mv) = true := h
      rw [if_neg h']
      rfl
  · rfl

theorem Sim.storeKiller {s₁ s₂ : SearchState} (h : Sim G₁ G₂ U s₁ s₂) (mv : Move) (ply : Nat) :
    Sim G₁ G₂ U (s₁.storeKiller mv ply) (s₂.storeKiller mv ply) :=
  h.map (fun s => s.storeKiller mv ply) (fun s t r => storeKiller_withTR s t r mv ply)

theorem Sim.recordCutoff {s₁ s₂ : SearchState} (h : Sim G₁ G₂ U s₁ s₂) (mv : Move) (d : Nat) :
    Sim G₁ G₂ U (s₁.recordCutoff mv d) (s₂.recordCutoff mv d) :=
  h.map (fun s => s.recordCutoff mv d) (fun _ _ _ => rfl)

theorem Sim.started {s₁ s₂ : SearchState} (h : Sim G₁ G₂ U s₁ s₂) (limit : Limit) :
    Sim G₁ G₂ U (Search.started limit s₁) (Search.started limit s₂) :=
  h.map (Search.started limit) (fun _ _ _ => rfl)

end basic


/-! ### the table and the stack under keys with the same collisions -/
section keyed
variable {G₁ G₂ : Game P} {U : P → Prop}

/-- the two hash functions have the same collisions on `U`.  This is all the simulation needs.  It holds
    when both are collision-free on `U` (`sameCollisions_of_inj`), and also when both collide on exactly the
    same pairs — for chess: boards that differ only in the move counters are hashed alike by EVERY key table. -/
def SameCollisions (G₁ G₂ : Game P) (U : P → Prop) : Prop :=
  ∀ p q, U p → U q → (G₁.hash q = G₁.hash p ↔ G₂.hash q = G₂.hash p)

/-- for positions of `U` two collision-free hashes separate exactly like equality of positions. -/
theorem sameCollisions_of_inj (h₁ : HashInjOn G₁ U) (h₂ : HashInjOn G₂ U) : SameCollisions G₁ G₂ U :=
  fun p q hp hq => ⟨fun h => by rw [h₁ q p hq hp h], fun h => by rw [h₂ q p hq hp h]⟩

theorem SameCollisions.mono {U' : P → Prop} (h : SameCollisions G₁ G₂ U) (hU : ∀ p, U' p → U p) :
    SameCollisions G₁ G₂ U' := fun p q hp hq => h p q (hU p hp) (hU q hq)

/-- storing the same record for the same position of `U` in both runs keeps the tables in agreement. -/
theorem TablesAgree.store (hc : SameCollisions G₁ G₂ U) {t₁ t₂ : TT} (w₁ : TableWF t₁)
    (w₂ : TableWF t₂) (ha : TablesAgree G₁ G₂ U t₁ t₂) {p : P} (hp : U p) (ev : Int) (mv : Option Move)
    (d : Nat) (b : Bounds) :
    TablesAgree G₁ G₂ U (t₁.store (G₁.hash p) ev mv d b) (t₂.store (G₂.hash p) ev mv d b) := by
  intro q hq
  rw [retrieve_store_wf w₁, retrieve_store_wf w₂]
  by_cases hk : G₁.hash q = G₁.hash p
  · have hk' : G₂.hash q = G₂.hash p := (hc p q hp hq).1 hk
    rw [if_pos hk, if_pos hk']
    have hpp := ha p hp
    cases e₁ : t₁.retrieve (G₁.hash p) with
    | none =>
      cases e₂ : t₂.retrieve (G₂.hash p) with
      | none => rfl
      | some y => rw [e₁, e₂] at hpp; cases hpp
    | some x =>
      cases e₂ : t₂.retrieve (G₂.hash p) with
      | none => rw [e₁, e₂] at hpp; cases hpp
      | some y =>
        rw [e₁, e₂] at hpp
        simp only [Option.map_some, Option.some.injEq] at hpp
        have hd : x.depth = y.depth := congrArg (fun z => z.2.2.1) hpp
        simp only
        rw [hd]
        by_cases hc : y.depth ≤ d
        · rw [if_pos hc, if_pos hc]; rfl
        · rw [if_neg hc, if_neg hc]
          simp only [Option.map_some, hpp]
  · have hk' : ¬ G₂.hash q = G₂.hash p := fun h => hk ((hc p q hp hq).2 h)
    rw [if_neg hk, if_neg hk']
    exact ha q hq

/-- `is_repetition` answers alike in both runs. -/
theorem RepsAgree.isRepetition (hc : SameCollisions G₁ G₂ U) {s₁ s₂ : SearchState}
    (hr : RepsAgree G₁ G₂ U s₁.rep s₂.rep) {p : P} (hp : U p) :
    s₁.isRepetition (G₁.hash p) = s₂.isRepetition (G₂.hash p) := by
  obtain ⟨ps, hps, e₁, e₂⟩ := hr
  unfold SearchState.isRepetition
  rw [e₁, e₂, List.filter_map, List.filter_map, List.length_map, List.length_map]
  have : ps.filter ((fun x => x == G₁.hash p) ∘ G₁.hash) = ps.filter ((fun x => x == G₂.hash p) ∘ G₂.hash) := by
    apply List.filter_congr
    intro q hq
    simp only [Function.comp]
    have := hc p q hp (hps q hq)
    by_cases hk : G₁.hash q = G₁.hash p
    · rw [hk, this.1 hk, beq_self_eq_true, beq_self_eq_true]
    · have hk' : ¬ G₂.hash q = G₂.hash p := fun h => hk (this.2 h)
      rw [beq_eq_false_iff_ne.2 hk, beq_eq_false_iff_ne.2 hk']
  rw [this]

theorem RepsAgree.push {r₁ r₂ : List UInt64} (hr : RepsAgree G₁ G₂ U r₁ r₂) {p : P} (hp : U p) :
    RepsAgree G₁ G₂ U (G₁.hash p :: r₁) (G₂.hash p :: r₂) := by
  obtain ⟨ps, hps, e₁, e₂⟩ := hr
  refine ⟨p :: ps, ?_, by rw [e₁]; rfl, by rw [e₂]; rfl⟩
  intro q hq
  rcases List.mem_cons.1 hq with h | h
  · rw [h]; exact hp
  · exact hps q h

theorem RepsAgree.drop {r₁ r₂ : List UInt64} (hr : RepsAgree G₁ G₂ U r₁ r₂) (n : Nat) :
    RepsAgree G₁ G₂ U (r₁.drop n) (r₂.drop n) := by
  obtain ⟨ps, hps, e₁, e₂⟩ := hr
  refine ⟨ps.drop n, fun q hq => hps q (List.mem_of_mem_drop hq), ?_, ?_⟩
  · rw [e₁, List.map_drop]
  · rw [e₂, List.map_drop]

theorem RepsAgree.nil : RepsAgree G₁ G₂ U [] [] := ⟨[], fun _ h => by simp at h, rfl, rfl⟩

/-- replacing table and stack by related ones. -/
theorem Sim.replace {s₁ s₂ : SearchState} (h : Sim G₁ G₂ U s₁ s₂) {t₁ t₂ : TT} {r₁ r₂ : List UInt64}
    (w₁ : TableWF t₁) (w₂ : TableWF t₂) (ha : TablesAgree G₁ G₂ U t₁ t₂) (hr : RepsAgree G₁ G₂ U r₁ r₂) :
    Sim G₁ G₂ U (withTR s₁ t₁ r₁) (withTR s₂ t₂ r₂) := by
  rw [h.eq_withTR, withTR_withTR]
  exact Sim.of_withTR _ w₁ w₂ ha hr

/-- the `tt.store` of both runs for the same position of `U`. -/
theorem Sim.store (hc : SameCollisions G₁ G₂ U) {s₁ s₂ : SearchState}
    (h : Sim G₁ G₂ U s₁ s₂) {p : P} (hp : U p) (ev : Int) (mv : Option Move) (d : Nat) (b : Bounds) :
    Sim G₁ G₂ U { s₁ with tt := s₁.tt.store (G₁.hash p) ev mv d b }
      { s₂ with tt := s₂.tt.store (G₂.hash p) ev mv d b } :=
  h.replace (r₁ := s₁.rep) (r₂ := s₂.rep) (tableWF_store h.wf₁ _ _ _ _ _) (tableWF_store h.wf₂ _ _ _ _ _)
    (h.agree.store hc h.wf₁ h.wf₂ hp ev mv d b) h.rep

/-- `searcher.push_position`. -/
theorem Sim.push {s₁ s₂ : SearchState} (h : Sim G₁ G₂ U s₁ s₂) {p : P} (hp : U p) :
    Sim G₁ G₂ U { s₁ with rep := G₁.hash p :: s₁.rep } { s₂ with rep := G₂.hash p :: s₂.rep } :=
  h.replace (t₁ := s₁.tt) (t₂ := s₂.tt) h.wf₁ h.wf₂ h.agree (h.rep.push hp)

theorem Sim.pop {s₁ s₂ : SearchState} (h : Sim G₁ G₂ U s₁ s₂) :
    Sim G₁ G₂ U { s₁ with rep := s₁.rep.drop 1 } { s₂ with rep := s₂.rep.drop 1 } :=
  h.replace (t₁ := s₁.tt) (t₂ := s₂.tt) h.wf₁ h.wf₂ h.agree (h.rep.drop 1)

theorem Sim.clearRep {s₁ s₂ : SearchState} (h : Sim G₁ G₂ U s₁ s₂) :
    Sim G₁ G₂ U { s₁ with rep := [] } { s₂ with rep := [] } :=
  h.replace (t₁ := s₁.tt) (t₂ := s₂.tt) h.wf₁ h.wf₂ h.agree RepsAgree.nil

/-! ### the probe -/

/-- `probeTT` as a function of the stripped entry. -/
def probeCore (s : SearchState) (o : Option (Int × Option Move × Nat × Bounds)) (depth : Nat) (alpha beta : Int) :
    Option SearchResult × Option Move × SearchState :=
  match o with
  | none => (none, none, s)
  | some (ev, bm, dep, bnd) =>
    if dep < depth then (none, bm, s)
    else
      let count (s : SearchState) : SearchState :=
        if dep > depth then { s with deeperHits := s.deeperHits + 1 }
        else { s with sameDepthHits := s.sameDepthHits + 1 }
      match bnd with
      | .exact => (some ⟨ev, bm⟩, bm, count s)
      | .lower =>
        if max alpha ev ≥ beta then (some ⟨ev, bm⟩, bm, count s)
        else (none, bm, s)
      | .upper =>
        if alpha ≥ min beta ev then (some ⟨ev, bm⟩, bm, count s)
        else (none, bm, s)

theorem probeTT_eq_core (G : Game P) (s : SearchState) (p : P) (depth : Nat) (α β : Int) :
    probeTT G s p depth α β = probeCore s ((s.tt.retrieve (G.hash p)).map strip) depth α β := by
  unfold probeTT probeCore
  cases s.tt.retrieve (G.hash p) <;> rfl

theorem probeCore_sim {s₁ s₂ : SearchState} (h : Sim G₁ G₂ U s₁ s₂)
    (o : Option (Int × Option Move × Nat × Bounds)) (depth : Nat) (α β : Int) :
    (probeCore s₁ o depth α β).1 = (probeCore s₂ o depth α β).1 ∧
    (probeCore s₁ o depth α β).2.1 = (probeCore s₂ o depth α β).2.1 ∧
    Sim G₁ G₂ U (probeCore s₁ o depth α β).2.2 (probeCore s₂ o depth α β).2.2 := by
  have hcount : ∀ dep : Nat,
      Sim G₁ G₂ U (if dep > depth then { s₁ with deeperHits := s₁.deeperHits + 1 }
                    else { s₁ with sameDepthHits := s₁.sameDepthHits + 1 })
                  (if dep > depth then { s₂ with deeperHits := s₂.deeperHits + 1 }
                    else { s₂ with sameDepthHits := s₂.sameDepthHits + 1 }) := by
    intro dep
    exact h.map (fun s => if dep > depth then { s with deeperHits := s.deeperHits + 1 }
                    else { s with sameDepthHits := s.sameDepthHits + 1 })
      (fun s t r => by split <;> rfl)
  unfold probeCore
  cases o with
  | none => exact ⟨rfl, rfl, h⟩
  | some e =>
    obtain ⟨ev, bm, dep, bnd⟩ := e
    simp only
    by_cases hd : dep < depth
    · rw [if_pos hd, if_pos hd]; exact ⟨rfl, rfl, h⟩
    · rw [if_neg hd, if_neg hd]
      cases bnd with
      | exact => exact ⟨rfl, rfl, hcount dep⟩
      | lower =>
        simp only
        by_cases hc : max α ev ≥ β
        · rw [if_pos hc, if_pos hc]; exact ⟨rfl, rfl, hcount dep⟩
        · rw [if_neg hc, if_neg hc]; exact ⟨rfl, rfl, h⟩
      | upper =>
        simp only
        by_cases hc : α ≥ min β ev
        · rw [if_pos hc, if_pos hc]; exact ⟨rfl, rfl, hcount dep⟩
        · rw [if_neg hc, if_neg hc]; exact ⟨rfl, rfl, h⟩

/-- the probe of both runs for the same position of `U`: same cached result, same table move. -/
theorem probeTT_sim {s₁ s₂ : SearchState} (h : Sim G₁ G₂ U s₁ s₂) {p : P} (hp : U p) (depth : Nat) (α β : Int) :
    (probeTT G₁ s₁ p depth α β).1 = (probeTT G₂ s₂ p depth α β).1 ∧
    (probeTT G₁ s₁ p depth α β).2.1 = (probeTT G₂ s₂ p depth α β).2.1 ∧
    Sim G₁ G₂ U (probeTT G₁ s₁ p depth α β).2.2 (probeTT G₂ s₂ p depth α β).2.2 := by
  rw [probeTT_eq_core, probeTT_eq_core, ← h.agree p hp]
  exact probeCore_sim h _ depth α β

end keyed

/-! ### what does not read the hash -/
section rules
variable {G₁ G₂ : Game P}

theorem orderKey_congr (hR : SameRules G₁ G₂) {s₁ s₂ : SearchState} (hk : s₁.killers = s₂.killers)
    (hh : s₁.history = s₂.history) (p : P) (tt : Option Move) (ply : Nat) (mv : Move) :
    orderKey G₁ s₁ p tt ply mv = orderKey G₂ s₂ p tt ply mv := by
  unfold orderKey captureScore SearchState.isKiller SearchState.historyScore
  rw [hR.pieceAt, hk, hh]

theorem orderMoves_congr (hR : SameRules G₁ G₂) {s₁ s₂ : SearchState} (hk : s₁.killers = s₂.killers)
    (hh : s₁.history = s₂.history) (p : P) (ms : List Move) (tt : Option Move) (ply : Nat) :
    orderMoves G₁ s₁ p ms tt ply = orderMoves G₂ s₂ p ms tt ply := by
  unfold orderMoves
  have : (fun a b => decide (orderKey G₁ s₁ p tt ply a ≤ orderKey G₁ s₁ p tt ply b)) =
      (fun a b => decide (orderKey G₂ s₂ p tt ply a ≤ orderKey G₂ s₂ p tt ply b)) := by
    funext a b
    rw [orderKey_congr hR hk hh, orderKey_congr hR hk hh]
  rw [this]

theorem orderCaptures_congr (hR : SameRules G₁ G₂) (p : P) (ms : List Move) :
    orderCaptures G₁ p ms = orderCaptures G₂ p ms := by
  unfold orderCaptures captureKey captureScore
  rw [hR.pieceAt]

theorem qList_congr (hR : SameRules G₁ G₂) (p : P) : qList G₁ p = qList G₂ p := by
  unfold qList
  rw [hR.inCheck, hR.moves, hR.qmoves]

theorem quiesceLoop_congr (hR : SameRules G₁ G₂)
    (rec : P → Int → Int → SearchState → Option Int × SearchState) (p : P) (β : Int) :
    ∀ (ms : List Move) (α : Int) (s : SearchState),
      quiesceLoop G₁ rec p β ms α s = quiesceLoop G₂ rec p β ms α s := by
  intro ms
  induction ms with
  | nil => intro α s; rfl
  | cons mv rest ih =>
    intro α s
    rw [quiesceLoop_cons, quiesceLoop_cons, hR.play]
    rcases rec (G₂.play p mv) (-β) (-α) (polled s) with ⟨ro, s2⟩
    cases ro with
    | none => rfl
    | some v => simp only [ih]

/-- quiescence never reads the hash. -/
theorem quiesce_congr (hR : SameRules G₁ G₂) (fuel : Nat) :
    ∀ (p : P) (α β : Int) (s : SearchState), quiesce G₁ fuel p α β s = quiesce G₂ fuel p α β s := by
  induction fuel with
  | zero => intro p α β s; rfl
  | succ n ih =>
    intro p α β s
    have ih' : quiesce G₁ n = quiesce G₂ n := by
      funext p α β s; exact ih p α β s
    rw [quiesce_succ, quiesce_succ, qList_congr hR, orderCaptures_congr hR, hR.inCheck, hR.eval, ih',
      quiesceLoop_congr hR]

end rules

/-! ### quiescence touches neither the table nor the stack -/
section quiesce
variable (G : Game P)

theorem quiesceLoop_withTR (rec : P → Int → Int → SearchState → Option Int × SearchState)
    (t : TT) (r : List UInt64)
    (hrec : ∀ q a b s, rec q a b (withTR s t r) = ((rec q a b s).1, withTR (rec q a b s).2 t r))
    (p : P) (β : Int) :
    ∀ (ms : List Move) (α : Int) (s : SearchState),
      quiesceLoop G rec p β ms α (withTR s t r) =
        ((quiesceLoop G rec p β ms α s).1, withTR (quiesceLoop G rec p β ms α s).2 t r) := by
  intro ms
  induction ms with
  | nil => intro α s; rfl
  | cons mv rest ih =>
    intro α s
    rw [quiesceLoop_cons, quiesceLoop_cons]
    have e1 : stopFlag (withTR s t r) = stopFlag s := rfl
    have e2 : polled (withTR s t r) = withTR (polled s) t r := rfl
    rw [e1, e2, hrec]
    by_cases hs : stopFlag s = true
    · rw [if_pos hs, if_pos hs]
    · rw [if_neg hs, if_neg hs]
      rcases rec (G.play p mv) (-β) (-α) (polled s) with ⟨ro, s2⟩
      cases ro with
      | none => rfl
      | some v =>
        simp only
        by_cases hc : -v ≥ β
        · rw [if_pos hc, if_pos hc]
        · rw [if_neg hc, if_neg hc, ih]

theorem quiesce_withTR (t : TT) (r : List UInt64) (fuel : Nat) :
    ∀ (p : P) (α β : Int) (s : SearchState),
      quiesce G fuel p α β (withTR s t r) =
        ((quiesce G fuel p α β s).1, withTR (quiesce G fuel p α β s).2 t r) := by
  induction fuel with
  | zero => intro p α β s; rfl
  | succ n ih =>
    intro p α β s
    rw [quiesce_succ, quiesce_succ]
    have e1 : (withTR s t r).incrementNodes = withTR s.incrementNodes t r := rfl
    rw [e1]
    split
    · rfl
    · split
      · rfl
      · exact quiesceLoop_withTR G _ t r ih p β _ _ _

end quiesce

/-- quiescence in both runs: same value, related states. -/
theorem quiesce_sim {G₁ G₂ : Game P} {U : P → Prop} (hR : SameRules G₁ G₂) {s₁ s₂ : SearchState}
    (h : Sim G₁ G₂ U s₁ s₂) (fuel : Nat) (p : P) (α β : Int) :
    (quiesce G₁ fuel p α β s₁).1 = (quiesce G₂ fuel p α β s₂).1 ∧
    Sim G₁ G₂ U (quiesce G₁ fuel p α β s₁).2 (quiesce G₂ fuel p α β s₂).2 := by
  rw [← quiesce_congr hR]
  have e := h.eq_withTR
  have hf := quiesce_frame G₁ fuel p α β s₁
  have hq : quiesce G₁ fuel p α β s₂ =
      ((quiesce G₁ fuel p α β s₁).1, withTR (quiesce G₁ fuel p α β s₁).2 s₂.tt s₂.rep) := by
    conv => lhs; rw [e]
    exact quiesce_withTR G₁ _ _ fuel p α β s₁
  rw [hq]
  refine ⟨rfl, ?_⟩
  have e1 : (quiesce G₁ fuel p α β s₁).2 =
      withTR (quiesce G₁ fuel p α β s₁).2 s₁.tt s₁.rep := by
    conv => lhs; rw [← withTR_self (quiesce G₁ fuel p α β s₁).2, hf.tt, hf.rep]
  rw [e1, withTR_withTR]
  exact Sim.of_withTR _ h.wf₁ h.wf₂ h.agree h.rep

end Flounder.KeySim
