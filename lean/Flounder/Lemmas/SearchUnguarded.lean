/-
  C06 helpers: why the post-loop poll of `negamax` matters.

  `negamaxU` … `findBestMoveU` are copies of the model's `negamax` … `findBestMove` (Model/Search.lean) with
  ONE difference: the three lines

        // An interrupted node has not examined all of its moves: do not cache its result
        if self.timer.should_stop() { return best_result; }

  at the end of `negamax` are missing — this is the pinned engine before its commit
  "fix: do not cache the result of a node whose search was cut off by the clock".  Everything else (probe,
  ordering, move loop, quiescence, `search_position`, the iteration loop with its two polls, the fall-back
  move) is the model's code; the move loop and quiescence ARE the model's functions.

  `guardGame`: the root 0 has two moves, `mateA` to position 1 (bad: value -5 for the root) and `mateB` to
  position 2 (good: value 9).  Under `Limit.polls 2` the root's move loop is cut off after the first move;
  the unguarded engine caches "value -5, exact, depth 1" for the root.  The runs are replayed with equation
  lemmas (the table is a `Std.HashMap`, which the kernel cannot evaluate).
-/
import Flounder.Lemmas.SearchCex
import Flounder.Lemmas.SearchIterate
import Flounder.Lemmas.KeySim

namespace Flounder.Search
open Flounder Gen

section defs
variable {P : Type} (G : Game P)

/-- `negamax` of the pinned engine BEFORE the fix: the node's result is cached unconditionally. -/
def negamaxU (qfuel : Nat) : Nat → P → Nat → Int → Int → SearchState → Option SearchResult × SearchState
  | depth, p, ply, alpha, beta, s =>
    let s := s.incrementNodes
    let originalAlpha := alpha
    if ply > 0 && s.isRepetition (G.hash p) then (some ⟨0, none⟩, s)
    else
      match probeTT G s p depth alpha beta with
      | (some cached, _, s) => (some cached, s)
      | (none, ttMove, s) =>
        match depth with
        | 0 =>
          match quiesce G qfuel p alpha beta s with
          | (none, s) => (none, s)
          | (some v, s) => (some ⟨v, none⟩, s)
        | d + 1 =>
          let moves := G.moves p
          match moves with
          | [] =>
            if G.inCheck p then (some ⟨-CHECKMATE_SCORE + ((d + 1 : Nat) : Int), none⟩, s)
            else (some ⟨0, none⟩, s)
          | m0 :: _ =>
            let ordered := orderMoves G s p moves ttMove ply
            let first := ordered.headD m0
            match negamaxLoop G (negamaxU qfuel d) p (d + 1) ply beta ordered
                    ⟨alpha, ⟨NEGATIVE_INFINITY, some first⟩⟩ s with
            | (none, s) => (none, s)
            | (some acc, s) =>
              -- (no poll here)
              let bound := determineBound acc.best.score originalAlpha beta
              let s := { s with tt := s.tt.store (G.hash p) acc.best.score acc.best.bestMove (d + 1) bound }
              (some acc.best, s)

def searchPositionU (qfuel : Nat) (p : P) (depth : Nat) (s : SearchState) : Option SearchResult × SearchState :=
  let s := { s with rep := G.hash p :: s.rep }
  let (r, s) := negamaxU G qfuel depth p 0 NEGATIVE_INFINITY INFINITY s
  (r, { s with rep := s.rep.drop 1 })

def iterateU (qfuel : Nat) (p : P) (maxDepth : Nat) :
    Nat → Nat → (Int × Option Move) → SearchState → Option (Int × Option Move) × SearchState
  | 0, _, best, s => (some best, s)
  | n + 1, cur, best, s =>
    if cur > maxDepth then (some best, s)
    else
      let (stop, s) := s.shouldStop
      if stop then (some best, s)
      else
        match searchPositionU G qfuel p cur s with
        | (none, s) => (none, s)
        | (some r, s) =>
          let (stop2, s) := s.shouldStop
          if !stop2 then
            let s := { s with tt := s.tt.store (G.hash p) r.score r.bestMove cur .exact,
                              info := (cur, r.score, s.nodes, r.bestMove) :: s.info }
            iterateU qfuel p maxDepth n (cur + 1) (r.score, r.bestMove) s
          else iterateU qfuel p maxDepth n (cur + 1) best s

def findBestMoveU (qfuel : Nat) (p : P) (maxDepth : Nat) (limit : Limit) (s : SearchState) :
    Option (Int × Option Move) × SearchState :=
  let s := { s with nodes := 0, polls := 0, limit := limit, stopSeen := false, nodesAfterStop := 0, info := [] }
  let s := s.ageHistory
  match iterateU G qfuel p maxDepth maxDepth 1 (NEGATIVE_INFINITY, none) s with
  | (none, s) => (none, s)
  | (some (score, some mv), s) => (some (score, some mv), s)
  | (some (score, none), s) => (some (score, (G.moves p).head?), s)

/-! ### equation lemmas (as for the model, Lemmas/SearchNegamax.lean and SearchIterate.lean) -/

/-- the end of an inner node of the unguarded engine: cache, no poll. -/
def finishNodeU (p : P) (d1 : Nat) (α β : Int) (acc : LoopAcc) (s : SearchState) :
    Option SearchResult × SearchState :=
  (some acc.best,
    { s with tt := s.tt.store (G.hash p) acc.best.score acc.best.bestMove d1 (determineBound acc.best.score α β) })

def innerResultU (rec : P → Nat → Int → Int → SearchState → Option SearchResult × SearchState)
    (d : Nat) (p : P) (ply : Nat) (α β : Int) (ttMove : Option Move) (s : SearchState) :
    Option SearchResult × SearchState :=
  match G.moves p with
  | [] =>
    if G.inCheck p then (some ⟨-CHECKMATE_SCORE + ((d + 1 : Nat) : Int), none⟩, s) else (some ⟨0, none⟩, s)
  | m0 :: _ =>
    match negamaxLoop G rec p (d + 1) ply β (orderMoves G s p (G.moves p) ttMove ply)
        ⟨α, ⟨NEGATIVE_INFINITY, some ((orderMoves G s p (G.moves p) ttMove ply).headD m0)⟩⟩ s with
    | (none, s) => (none, s)
    | (some acc, s) => finishNodeU G p (d + 1) α β acc s

/-- at depth 0 nothing differs. -/
theorem negamaxU_zero (qfuel : Nat) (p : P) (ply : Nat) (α β : Int) (s : SearchState) :
    negamaxU G qfuel 0 p ply α β s = negamax G qfuel 0 p ply α β s := by
  rw [negamax_zero, negamaxU]
  rfl

theorem negamaxU_succ (qfuel d : Nat) (p : P) (ply : Nat) (α β : Int) (s : SearchState) :
    negamaxU G qfuel (d + 1) p ply α β s =
      if (decide (ply > 0) && s.incrementNodes.isRepetition (G.hash p)) = true then
        (some ⟨0, none⟩, s.incrementNodes)
      else
        match probeTT G s.incrementNodes p (d + 1) α β with
        | (some cached, _, s) => (some cached, s)
        | (none, ttMove, s) => innerResultU G (negamaxU G qfuel d) d p ply α β ttMove s := by
  rw [negamaxU]
  rfl

theorem innerResultU_cons (rec : P → Nat → Int → Int → SearchState → Option SearchResult × SearchState)
    (d : Nat) (p : P) (ply : Nat) (α β : Int) (ttMove : Option Move) (s : SearchState) (m0 : Move)
    (tl : List Move) (h : G.moves p = m0 :: tl) :
    innerResultU G rec d p ply α β ttMove s =
      match negamaxLoop G rec p (d + 1) ply β (orderMoves G s p (G.moves p) ttMove ply)
          ⟨α, ⟨NEGATIVE_INFINITY, some ((orderMoves G s p (G.moves p) ttMove ply).headD m0)⟩⟩ s with
      | (none, s) => (none, s)
      | (some acc, s) => finishNodeU G p (d + 1) α β acc s := by
  unfold innerResultU
  split
  · rename_i h'; rw [h] at h'; cases h'
  · rename_i m0' tl' h'; rw [h] at h'; cases h'; rfl

theorem negamaxU_succ_miss (qfuel d : Nat) (p : P) (ply : Nat) (α β : Int) (s : SearchState)
    (hrep : s.isRepetition (G.hash p) = false) (h : s.tt.retrieve (G.hash p) = none) :
    negamaxU G qfuel (d + 1) p ply α β s =
      innerResultU G (negamaxU G qfuel d) d p ply α β none s.incrementNodes := by
  have hrep' : s.incrementNodes.isRepetition (G.hash p) = false := hrep
  rw [negamaxU_succ, probeTT_miss G s.incrementNodes p (d + 1) α β h, hrep']
  simp

/-- a root hit on an `.exact` record of the requested depth. -/
theorem negamaxU_root_hit_exact (qfuel d : Nat) (p : P) (α β : Int) (s : SearchState) (e : Entry)
    (h : s.tt.retrieve (G.hash p) = some e) (hd : e.depth = d + 1) (hb : e.bounds = .exact) :
    negamaxU G qfuel (d + 1) p 0 α β s =
      (some ⟨e.eval, e.bestMove⟩,
        { s.incrementNodes with sameDepthHits := s.incrementNodes.sameDepthHits + 1 }) := by
  have h' : s.incrementNodes.tt.retrieve (G.hash p) = some e := h
  have hp : probeTT G s.incrementNodes p (d + 1) α β =
      (some ⟨e.eval, e.bestMove⟩, e.bestMove,
        { s.incrementNodes with sameDepthHits := s.incrementNodes.sameDepthHits + 1 }) := by
    unfold probeTT
    rw [h']
    simp only
    rw [if_neg (by omega), hb]
    simp only
    rw [if_neg (by omega)]
  rw [negamaxU_succ, hp]
  simp

theorem searchPositionU_eq (qfuel : Nat) (p : P) (depth : Nat) (s : SearchState) :
    searchPositionU G qfuel p depth s =
      ((negamaxU G qfuel depth p 0 NEGATIVE_INFINITY INFINITY (pushed G p s)).1,
        { (negamaxU G qfuel depth p 0 NEGATIVE_INFINITY INFINITY (pushed G p s)).2 with
          rep := (negamaxU G qfuel depth p 0 NEGATIVE_INFINITY INFINITY (pushed G p s)).2.rep.drop 1 }) := rfl

theorem iterateU_zero (qfuel : Nat) (p : P) (maxDepth cur : Nat) (best : Int × Option Move) (s : SearchState) :
    iterateU G qfuel p maxDepth 0 cur best s = (some best, s) := rfl

theorem iterateU_succ (qfuel : Nat) (p : P) (maxDepth n cur : Nat) (best : Int × Option Move)
    (s : SearchState) :
    iterateU G qfuel p maxDepth (n + 1) cur best s =
      if cur > maxDepth then (some best, s)
      else if stopFlag s = true then (some best, polled s)
      else
        match searchPositionU G qfuel p cur (polled s) with
        | (none, s) => (none, s)
        | (some r, s) =>
          if (!stopFlag s) = true then
            iterateU G qfuel p maxDepth n (cur + 1) (r.score, r.bestMove) (cached G p cur r (polled s))
          else iterateU G qfuel p maxDepth n (cur + 1) best (polled s) := rfl

theorem findBestMoveU_eq (qfuel : Nat) (p : P) (maxDepth : Nat) (limit : Limit) (s : SearchState) :
    findBestMoveU G qfuel p maxDepth limit s =
      match iterateU G qfuel p maxDepth maxDepth 1 (NEGATIVE_INFINITY, none) (started limit s) with
      | (none, s) => (none, s)
      | (some (score, some mv), s) => (some (score, some mv), s)
      | (some (score, none), s) => (some (score, (G.moves p).head?), s) := rfl

theorem findBestMoveU_snd (qfuel : Nat) (p : P) (maxDepth : Nat) (limit : Limit) (s : SearchState) :
    (findBestMoveU G qfuel p maxDepth limit s).2 =
      (iterateU G qfuel p maxDepth maxDepth 1 (NEGATIVE_INFINITY, none) (started limit s)).2 := by
  rw [findBestMoveU_eq]
  rcases iterateU G qfuel p maxDepth maxDepth 1 (NEGATIVE_INFINITY, none) (started limit s) with ⟨ro, s2⟩
  rcases ro with _ | ⟨sc, _ | mv⟩ <;> rfl

end defs

/-! ### the game -/

/-- 0 --mateA--> 1 (the mover at 1 stands at +5: -5 for the root), 0 --mateB--> 2 (the mover at 2 stands at
    -9: +9 for the root).  Both moves are pawn-takes-pawn captures, so their ordering keys are equal whatever
    the killer and history tables hold, and the stable sort keeps the generation order. -/
def guardGame : Game Nat where
  moves := fun p => if p = 0 then [mateA, mateB] else []
  qmoves := fun _ => []
  play := fun _ m => if m = mateA then 1 else 2
  inCheck := fun _ => false
  eval := fun p => if p = 1 then 5 else if p = 2 then -9 else 0
  hash := fun p => p.toUInt64
  pieceAt := fun _ _ => some .pawn

theorem guard_value : Spec.V guardGame 1 1 0 = some 9 := by decide

theorem guard_order (s : SearchState) (tm : Option Move) (htm : tm = none) :
    orderMoves guardGame s 0 [mateA, mateB] tm 0 = [mateA, mateB] := by
  subst htm
  unfold orderMoves
  apply List.mergeSort_of_pairwise
  simp only [List.pairwise_cons, List.mem_cons, List.mem_nil_iff, or_false, forall_eq,
    List.Pairwise.nil, and_true, decide_eq_true_eq]
  have : orderKey guardGame s 0 none 0 mateA = orderKey guardGame s 0 none 0 mateB := by
    simp [orderKey, captureScore, guardGame, mateA, mateB]
  exact ⟨Int.le_of_eq this, fun _ h => h.elim⟩

/-- a leaf of `guardGame` whose stand-pat value is below `β`: the stand-pat value, raised to `α`. -/
theorem guard_leaf (p : Nat) (α β : Int) (hp : guardGame.eval p < β) (s : SearchState) :
    leafResult guardGame 1 p α β s = (some ⟨max α (guardGame.eval p), none⟩, s.incrementNodes) := by
  unfold leafResult
  rw [quiesce_succ]
  have h1 : qList guardGame p = [] := rfl
  have h2 : orderCaptures guardGame p [] = [] := by simp [orderCaptures]
  rw [h1, h2, quiesceLoop_nil]
  have h3 : ¬ guardGame.eval p ≥ β := by omega
  have h0 : (([] : List Move).isEmpty && guardGame.inCheck p) = false := rfl
  rw [h0]
  simp only [Bool.false_eq_true, ↓reduceIte]
  rw [if_neg h3]

/-- the false record. -/
def badEntry : Entry := ⟨guardGame.hash 0, -5, some mateA, 1, .exact⟩

/-- **the interrupted root of the unguarded engine.**  Under `Limit.polls 2`, entered after one poll, with an
    empty table: the loop searches `mateA` (score -5), the poll before `mateB` answers `true`, and the node
    caches `-5` as the EXACT depth-1 value of the root. -/
theorem guardU_root (s : SearchState) (ht : ∀ k, s.tt.retrieve k = none)
    (hr : s.rep = [guardGame.hash 0]) (hl : s.limit = .polls 2) (hp : s.polls = 1) :
    negamaxU guardGame 1 1 0 0 NEGATIVE_INFINITY INFINITY s =
      (some ⟨-5, some mateA⟩,
        { (polled (polled s.incrementNodes).incrementNodes.incrementNodes) with
          tt := (polled (polled s.incrementNodes).incrementNodes.incrementNodes).tt.store
            (guardGame.hash 0) (-5) (some mateA) 1 .exact }) := by
  rw [negamaxU_succ_miss guardGame 1 0 0 0 _ _ s (by simp [SearchState.isRepetition, hr]) (ht _)]
  rw [innerResultU_cons guardGame _ 0 0 0 _ _ none _ mateA [mateB] rfl]
  have h1 : guardGame.moves 0 = [mateA, mateB] := rfl
  rw [h1, guard_order _ none rfl, negamaxLoop_cons]
  have h3 : stopFlag s.incrementNodes = false := by
    simp [stopFlag, SearchState.incrementNodes, hl, hp]
  rw [h3]
  simp only [Bool.false_eq_true, ↓reduceIte]
  have h4 : guardGame.play 0 mateA = 1 := rfl
  have h5 : guardGame.hash 1 ≠ guardGame.hash 0 := by decide
  rw [h4, Nat.zero_add, negamaxU_zero,
    negamax_zero_miss guardGame 1 1 1 _ _ (polled s.incrementNodes)
      (by simp [SearchState.isRepetition, polled, SearchState.incrementNodes, hr, h5.symm]) (ht _),
    guard_leaf 1 _ _ (by decide)]
  simp only
  have h6 : guardGame.eval 1 = 5 := by decide
  rw [h6]
  have h7 : ¬ (max NEGATIVE_INFINITY (-max (-INFINITY) 5) ≥ INFINITY) := by decide
  rw [if_neg h7, negamaxLoop_cons]
  have h8 : stopFlag (polled s.incrementNodes).incrementNodes.incrementNodes = true := by
    simp [stopFlag, polled, SearchState.incrementNodes, hl, hp]
  rw [if_pos h8]
  simp only
  unfold finishNodeU
  have h9 : (if -max (-INFINITY) 5 > NEGATIVE_INFINITY then (⟨-max (-INFINITY) 5, some mateA⟩ : SearchResult)
      else ⟨NEGATIVE_INFINITY, some ([mateA, mateB].headD mateA)⟩) = ⟨-5, some mateA⟩ := by decide
  simp only [h9]
  have h10 : determineBound (-5) NEGATIVE_INFINITY INFINITY = .exact := by decide
  rw [h10]

/-! ### the model (the engine WITH the guard) on the same game -/

/-- the interrupted root of the model: the same run as `guardU_root`, but the post-loop poll (the fourth poll
    of the search) answers `true` and nothing is cached. -/
theorem guard_root_interrupted (s : SearchState) (ht : ∀ k, s.tt.retrieve k = none)
    (hr : s.rep = [guardGame.hash 0]) (hl : s.limit = .polls 2) (hp : s.polls = 1) :
    negamax guardGame 1 1 0 0 NEGATIVE_INFINITY INFINITY s =
      (some ⟨-5, some mateA⟩, polled (polled (polled s.incrementNodes).incrementNodes.incrementNodes)) := by
  rw [negamax_succ_miss guardGame 1 0 0 0 _ _ s (by simp [SearchState.isRepetition, hr]) (ht _)]
  rw [innerResult_cons guardGame _ 0 0 0 _ _ none _ mateA [mateB] rfl]
  have h1 : guardGame.moves 0 = [mateA, mateB] := rfl
  rw [h1, guard_order _ none rfl, negamaxLoop_cons]
  have h3 : stopFlag s.incrementNodes = false := by
    simp [stopFlag, SearchState.incrementNodes, hl, hp]
  rw [h3]
  simp only [Bool.false_eq_true, ↓reduceIte]
  have h4 : guardGame.play 0 mateA = 1 := rfl
  have h5 : guardGame.hash 1 ≠ guardGame.hash 0 := by decide
  rw [h4, Nat.zero_add,
    negamax_zero_miss guardGame 1 1 1 _ _ (polled s.incrementNodes)
      (by simp [SearchState.isRepetition, polled, SearchState.incrementNodes, hr, h5.symm]) (ht _),
    guard_leaf 1 _ _ (by decide)]
  simp only
  have h6 : guardGame.eval 1 = 5 := by decide
  rw [h6]
  have h7 : ¬ (max NEGATIVE_INFINITY (-max (-INFINITY) 5) ≥ INFINITY) := by decide
  rw [if_neg h7, negamaxLoop_cons]
  have h8 : stopFlag (polled s.incrementNodes).incrementNodes.incrementNodes = true := by
    simp [stopFlag, polled, SearchState.incrementNodes, hl, hp]
  rw [if_pos h8]
  simp only
  unfold finishNode
  have h9 : stopFlag (polled (polled s.incrementNodes).incrementNodes.incrementNodes) = true := by
    simp [stopFlag, polled, SearchState.incrementNodes, hl, hp]
  rw [if_pos h9]
  have h10 : (if -max (-INFINITY) 5 > NEGATIVE_INFINITY then (⟨-max (-INFINITY) 5, some mateA⟩ : SearchResult)
      else ⟨NEGATIVE_INFINITY, some ([mateA, mateB].headD mateA)⟩) = ⟨-5, some mateA⟩ := by decide
  simp only [h10]

/-- a complete root search of the model without a deadline on an empty table: both moves are searched, the
    value is 9 by `mateB`, no deeper record is reused. -/
theorem guard_root_complete (s : SearchState) (ht : ∀ k, s.tt.retrieve k = none)
    (hr : s.rep = [guardGame.hash 0]) (hl : s.limit = .none) :
    ∃ t : SearchState, negamax guardGame 1 1 0 0 NEGATIVE_INFINITY INFINITY s = (some ⟨9, some mateB⟩, t) ∧
      t.deeperHits = s.deeperHits ∧ t.limit = .none ∧ t.rep = s.rep := by
  have hsf : ∀ t : SearchState, t.limit = .none → stopFlag t = false := by
    intro t a; simp [stopFlag, a]
  rw [negamax_succ_miss guardGame 1 0 0 0 _ _ s (by simp [SearchState.isRepetition, hr]) (ht _)]
  rw [innerResult_cons guardGame _ 0 0 0 _ _ none _ mateA [mateB] rfl]
  have h1 : guardGame.moves 0 = [mateA, mateB] := rfl
  rw [h1, guard_order _ none rfl, negamaxLoop_cons, hsf s.incrementNodes hl]
  simp only [Bool.false_eq_true, ↓reduceIte]
  have h4 : guardGame.play 0 mateA = 1 := rfl
  have h4b : guardGame.play 0 mateB = 2 := rfl
  have h5 : guardGame.hash 1 ≠ guardGame.hash 0 := by decide
  have h5b : guardGame.hash 2 ≠ guardGame.hash 0 := by decide
  rw [h4, Nat.zero_add,
    negamax_zero_miss guardGame 1 1 1 _ _ (polled s.incrementNodes)
      (by simp [SearchState.isRepetition, polled, SearchState.incrementNodes, hr, h5.symm]) (ht _),
    guard_leaf 1 _ _ (by decide)]
  simp only
  have h6 : guardGame.eval 1 = 5 := by decide
  rw [h6]
  have h7 : ¬ (max NEGATIVE_INFINITY (-max (-INFINITY) 5) ≥ INFINITY) := by decide
  rw [if_neg h7, negamaxLoop_cons, hsf (polled s.incrementNodes).incrementNodes.incrementNodes hl]
  simp only [Bool.false_eq_true, ↓reduceIte]
  have h8 : max NEGATIVE_INFINITY (-max (-INFINITY) 5) = -5 := by decide
  rw [h4b, h8, Nat.zero_add,
    negamax_zero_miss guardGame 1 2 1 _ _ (polled (polled s.incrementNodes).incrementNodes.incrementNodes)
      (by simp [SearchState.isRepetition, polled, SearchState.incrementNodes, hr, h5b.symm]) (ht _),
    guard_leaf 2 _ _ (by decide)]
  simp only
  have h6b : guardGame.eval 2 = -9 := by decide
  rw [h6b]
  have h9 : ¬ (max (-5 : Int) (-max (-INFINITY) (-9)) ≥ INFINITY) := by decide
  rw [if_neg h9, negamaxLoop_nil]
  simp only
  unfold finishNode
  rw [hsf (polled (polled s.incrementNodes).incrementNodes.incrementNodes).incrementNodes.incrementNodes hl]
  simp only [Bool.false_eq_true, ↓reduceIte]
  have h10 : (if -max (-INFINITY) (-9) >
        (if -max (-INFINITY) 5 > NEGATIVE_INFINITY then (⟨-max (-INFINITY) 5, some mateA⟩ : SearchResult)
          else ⟨NEGATIVE_INFINITY, some ([mateA, mateB].headD mateA)⟩).score
      then (⟨-max (-INFINITY) (-9), some mateB⟩ : SearchResult)
      else (if -max (-INFINITY) 5 > NEGATIVE_INFINITY then (⟨-max (-INFINITY) 5, some mateA⟩ : SearchResult)
          else ⟨NEGATIVE_INFINITY, some ([mateA, mateB].headD mateA)⟩)) = ⟨9, some mateB⟩ := by decide
  simp only [h10]
  refine ⟨_, rfl, ?_, ?_, ?_⟩
  · simp only [polled, SearchState.incrementNodes]
  · simp only [polled, SearchState.incrementNodes]; exact hl
  · simp only [polled, SearchState.incrementNodes]

end Flounder.Search
