/-
  Event-instrumented search: `quiesceE`, `negamaxE`, `searchPositionE`, `iterateE`, `findBestMoveE` are the
  model's functions (Model/Search.lean), statement by statement, that additionally return the LIST OF
  PRIMITIVE CLOCK EVENTS of the run, in execution order:
      `Ev.poll`   one per executed `shouldStop`      (`timer.should_stop()`),
      `Ev.enter`  one per executed `incrementNodes`  (`timer.increment_nodes()`, i.e. one per node entered,
                  negamax or quiescence).

    * `*_forget` : forgetting the event list gives exactly the model's function (result and state);
    * `*_replay` : the event list is complete and in order: applying the model's own `shouldStop` /
                   `incrementNodes` to the start state, event by event, reproduces the clock part of the
                   final state (`limit`, `nodes`, `polls`, `stopSeen`, `nodesAfterStop`);
    * `*_within` : the gap measure.  `run (c, m) l` threads the ghost pair
                   (`c` = nodes entered since the last poll, `m` = largest value `c` ever had) through an
                   event list: a poll resets `c`, an entry increments `c` and updates `m := max m c`.
                   `Within a b l` : from every ghost state `(c, m)`, after `l` the counter is `≤ max (c+a) b`
                   and the maximum is `≤ max m (max (c+a) b)`.
                   quiescence is `Within 1 0`, negamax `Within 2 0`, the loops `Within 0 1` / `Within 0 2`.
-/
import Flounder.Lemmas.StopTrace

namespace Flounder.Dense
open Flounder Gen SearchState Flounder.Stop

/-- the two primitive clock events of the search. -/
inductive Ev where
  /-- one executed `shouldStop` -/
  | poll
  /-- one executed `incrementNodes` -/
  | enter
  deriving DecidableEq, Repr

/-- forget the event list. -/
def forget {α β : Type} (x : α × β × List Ev) : α × β := (x.1, x.2.1)

@[simp] theorem forget_mk {α β : Type} (a : α) (b : β) (l : List Ev) : forget (a, b, l) = (a, b) := rfl

section defs
variable {P : Type} (G : Game P)

/-- `quiesceLoop` with its events. -/
def quiesceLoopE (rec : P → Int → Int → SearchState → Option Int × SearchState × List Ev)
    (p : P) (beta : Int) : List Move → Int → SearchState → Option Int × SearchState × List Ev
  | [], alpha, s => (some alpha, s, [])
  | mv :: rest, alpha, s =>
    let (stop, s) := s.shouldStop
    if stop then (some alpha, s, [.poll])
    else
      match rec (G.play p mv) (-beta) (-alpha) s with
      | (none, s, l) => (none, s, .poll :: l)
      | (some v, s, l) =>
        let score := -v
        if score ≥ beta then (some beta, s, .poll :: l)
        else
          match quiesceLoopE rec p beta rest (max alpha score) s with
          | (r', s', l') => (r', s', .poll :: (l ++ l'))

/-- `quiesce` with its events. -/
def quiesceE : Nat → P → Int → Int → SearchState → Option Int × SearchState × List Ev
  | 0, _, _, _, s => (none, s, [])
  | fuel + 1, p, alpha, beta, s =>
    let s := s.incrementNodes
    let inCheck := G.inCheck p
    let moves := if inCheck then G.moves p else G.qmoves p
    let moves := orderCaptures G p moves
    if moves.isEmpty && inCheck then (some (-CHECKMATE_SCORE), s, [.enter])
    else
      let standPat := G.eval p
      if standPat ≥ beta then (some beta, s, [.enter])
      else
        match quiesceLoopE G (quiesceE fuel) p beta moves (max alpha standPat) s with
        | (r, s', l) => (r, s', .enter :: l)

/-- `negamaxLoop` with its events. -/
def negamaxLoopE (rec : P → Nat → Int → Int → SearchState → Option SearchResult × SearchState × List Ev)
    (p : P) (depth ply : Nat) (beta : Int) :
    List Move → LoopAcc → SearchState → Option LoopAcc × SearchState × List Ev
  | [], acc, s => (some acc, s, [])
  | mv :: rest, acc, s =>
    let (stop, s) := s.shouldStop
    if stop then (some acc, s, [.poll])
    else
      match rec (G.play p mv) (ply + 1) (-beta) (-acc.alpha) s with
      | (none, s, l) => (none, s, .poll :: l)
      | (some r, s, l) =>
        let score := -r.score
        let best := if score > acc.best.score then ⟨score, some mv⟩ else acc.best
        let alpha := max acc.alpha score
        if alpha ≥ beta then
          let s := if mv.kind = .quiet then (s.storeKiller mv ply).recordCutoff mv depth else s
          (some ⟨alpha, best⟩, s, .poll :: l)
        else
          match negamaxLoopE rec p depth ply beta rest ⟨alpha, best⟩ s with
          | (r', s', l') => (r', s', .poll :: (l ++ l'))

/-- `negamax` with its events. -/
def negamaxE (qfuel : Nat) :
    Nat → P → Nat → Int → Int → SearchState → Option SearchResult × SearchState × List Ev
  | depth, p, ply, alpha, beta, s =>
    let s := s.incrementNodes
    let originalAlpha := alpha
    if ply > 0 && s.isRepetition (G.hash p) then (some ⟨0, none⟩, s, [.enter])
    else
      match probeTT G s p depth alpha beta with
      | (some cached, _, s) => (some cached, s, [.enter])
      | (none, ttMove, s) =>
        match depth with
        | 0 =>
          match quiesceE G qfuel p alpha beta s with
          | (none, s, l) => (none, s, .enter :: l)
          | (some v, s, l) => (some ⟨v, none⟩, s, .enter :: l)
        | d + 1 =>
          let moves := G.moves p
          match moves with
          | [] =>
            if G.inCheck p then (some ⟨-CHECKMATE_SCORE + ((d + 1 : Nat) : Int), none⟩, s, [.enter])
            else (some ⟨0, none⟩, s, [.enter])
          | m0 :: _ =>
            let ordered := orderMoves G s p moves ttMove ply
            let first := ordered.headD m0
            match negamaxLoopE G (negamaxE qfuel d) p (d + 1) ply beta ordered
                    ⟨alpha, ⟨NEGATIVE_INFINITY, some first⟩⟩ s with
            | (none, s, l) => (none, s, .enter :: l)
            | (some acc, s, l) =>
              let (stop, s) := s.shouldStop
              if stop then (some acc.best, s, .enter :: (l ++ [.poll]))
              else
                let bound := determineBound acc.best.score originalAlpha beta
                let s := { s with tt := s.tt.store (G.hash p) acc.best.score acc.best.bestMove (d + 1) bound }
                (some acc.best, s, .enter :: (l ++ [.poll]))

def searchPositionE (qfuel : Nat) (p : P) (depth : Nat) (s : SearchState) :
    Option SearchResult × SearchState × List Ev :=
  let s := { s with rep := G.hash p :: s.rep }
  match negamaxE G qfuel depth p 0 NEGATIVE_INFINITY INFINITY s with
  | (r, s, l) => (r, { s with rep := s.rep.drop 1 }, l)

/-- `iterate` with its events. -/
def iterateE (qfuel : Nat) (p : P) (maxDepth : Nat) :
    Nat → Nat → (Int × Option Move) → SearchState → Option (Int × Option Move) × SearchState × List Ev
  | 0, _, best, s => (some best, s, [])
  | n + 1, cur, best, s =>
    if cur > maxDepth then (some best, s, [])
    else
      let (stop, s) := s.shouldStop
      if stop then (some best, s, [.poll])
      else
        match searchPositionE G qfuel p cur s with
        | (none, s, l) => (none, s, .poll :: l)
        | (some r, s, l) =>
          let (stop2, s) := s.shouldStop
          if !stop2 then
            let s := { s with tt := s.tt.store (G.hash p) r.score r.bestMove cur .exact,
                              info := (cur, r.score, s.nodes, r.bestMove) :: s.info }
            match iterateE qfuel p maxDepth n (cur + 1) (r.score, r.bestMove) s with
            | (b, s', l') => (b, s', .poll :: (l ++ .poll :: l'))
          else
            match iterateE qfuel p maxDepth n (cur + 1) best s with
            | (b, s', l') => (b, s', .poll :: (l ++ .poll :: l'))

/-- `findBestMove` with its events (the reset `timer.start()` happens before the first event). -/
def findBestMoveE (qfuel : Nat) (p : P) (maxDepth : Nat) (limit : Limit) (s : SearchState) :
    Option (Int × Option Move) × SearchState × List Ev :=
  match iterateE G qfuel p maxDepth maxDepth 1 (NEGATIVE_INFINITY, none) (resetState limit s) with
  | (none, s, l) => (none, s, l)
  | (some (score, some mv), s, l) => (some (score, some mv), s, l)
  | (some (score, none), s, l) => (some (score, (G.moves p).head?), s, l)

/-- the events of a run of `findBestMove`. -/
def events (qfuel : Nat) (p : P) (maxDepth : Nat) (limit : Limit) (s : SearchState) : List Ev :=
  (findBestMoveE G qfuel p maxDepth limit s).2.2

end defs

/-! ### forgetting the events gives the model -/

section forget
variable {P : Type} (G : Game P)

theorem quiesceLoopE_forget
    (recE : P → Int → Int → SearchState → Option Int × SearchState × List Ev)
    (rec : P → Int → Int → SearchState → Option Int × SearchState)
    (hrec : ∀ p α β s, forget (recE p α β s) = rec p α β s) (p : P) (β : Int) :
    ∀ (ms : List Move) (α : Int) (s : SearchState),
      forget (quiesceLoopE G recE p β ms α s) = quiesceLoop G rec p β ms α s := by
  intro ms
  induction ms with
  | nil => intro α s; rfl
  | cons mv rest ih =>
    intro α s
    rw [quiesceLoopE.eq_2, quiesceLoop.eq_2]
    cases s.shouldStop with
    | mk stop s1 =>
      cases stop with
      | true => rfl
      | false =>
        simp only [Bool.false_eq_true, ↓reduceIte]
        rw [← hrec]
        cases recE (G.play p mv) (-β) (-α) s1 with
        | mk r rest2 =>
          cases rest2 with
          | mk s2 l =>
            cases r with
            | none => rfl
            | some v =>
              simp only [forget_mk]
              split
              · rfl
              · rw [← ih]
                cases quiesceLoopE G recE p β rest _ s2 with
                | mk r' rest3 => cases rest3 with | mk s' l' => rfl

theorem quiesceE_forget : ∀ (fuel : Nat) (p : P) (α β : Int) (s : SearchState),
    forget (quiesceE G fuel p α β s) = quiesce G fuel p α β s := by
  intro fuel
  induction fuel with
  | zero => intro p α β s; rfl
  | succ fuel ih =>
    intro p α β s
    rw [quiesceE.eq_2, quiesce.eq_2]
    generalize orderCaptures G p (if G.inCheck p = true then G.moves p else G.qmoves p) = ms
    split
    · rfl
    · simp only
      split
      · rfl
      · rw [← quiesceLoopE_forget G (quiesceE G fuel) (quiesce G fuel) ih]
        cases quiesceLoopE G (quiesceE G fuel) p β ms _ s.incrementNodes with
        | mk r rest => cases rest with | mk s' l => rfl

theorem negamaxLoopE_forget
    (recE : P → Nat → Int → Int → SearchState → Option SearchResult × SearchState × List Ev)
    (rec : P → Nat → Int → Int → SearchState → Option SearchResult × SearchState)
    (hrec : ∀ p ply α β s, forget (recE p ply α β s) = rec p ply α β s)
    (p : P) (depth ply : Nat) (β : Int) :
    ∀ (ms : List Move) (acc : LoopAcc) (s : SearchState),
      forget (negamaxLoopE G recE p depth ply β ms acc s) = negamaxLoop G rec p depth ply β ms acc s := by
  intro ms
  induction ms with
  | nil => intro acc s; rfl
  | cons mv rest ih =>
    intro acc s
    rw [negamaxLoopE.eq_2, negamaxLoop.eq_2]
    cases s.shouldStop with
    | mk stop s1 =>
      cases stop with
      | true => rfl
      | false =>
        simp only [Bool.false_eq_true, ↓reduceIte]
        rw [← hrec]
        cases recE (G.play p mv) (ply + 1) (-β) (-acc.alpha) s1 with
        | mk r rest2 =>
          cases rest2 with
          | mk s2 l =>
            cases r with
            | none => rfl
            | some r =>
              simp only [forget_mk]
              split
              · rfl
              · rw [← ih]
                cases negamaxLoopE G recE p depth ply β rest _ s2 with
                | mk r' rest3 => cases rest3 with | mk s' l' => rfl

theorem negamaxE_forget (qfuel : Nat) :
    ∀ (depth : Nat) (p : P) (ply : Nat) (α β : Int) (s : SearchState),
      forget (negamaxE G qfuel depth p ply α β s) = negamax G qfuel depth p ply α β s := by
  intro depth
  induction depth with
  | zero =>
    intro p ply α β s
    rw [negamaxE.eq_1, negamax.eq_1]
    split
    · rfl
    · cases probeTT G s.incrementNodes p 0 α β with
      | mk c rest =>
        cases rest with
        | mk tm s2 =>
          cases c with
          | some cached => rfl
          | none =>
            simp only
            rw [← quiesceE_forget]
            cases quiesceE G qfuel p α β s2 with
            | mk v rest3 => cases rest3 with | mk s3 l => cases v <;> rfl
  | succ d ih =>
    intro p ply α β s
    rw [negamaxE.eq_1, negamax.eq_1]
    split
    · rfl
    · cases probeTT G s.incrementNodes p (d + 1) α β with
      | mk c rest =>
        cases rest with
        | mk tm s2 =>
          cases c with
          | some cached => rfl
          | none =>
            simp only
            cases G.moves p with
            | nil =>
              simp only
              split <;> rfl
            | cons m0 tail =>
              simp only
              rw [← negamaxLoopE_forget G (negamaxE G qfuel d) (negamax G qfuel d) ih]
              cases negamaxLoopE G (negamaxE G qfuel d) p (d + 1) ply β
                (orderMoves G s2 p (m0 :: tail) tm ply)
                ⟨α, ⟨NEGATIVE_INFINITY, some ((orderMoves G s2 p (m0 :: tail) tm ply).headD m0)⟩⟩ s2 with
              | mk racc rest3 =>
                cases rest3 with
                | mk s3 l =>
                  cases racc with
                  | none => rfl
                  | some acc =>
                    simp only [forget_mk]
                    cases s3.shouldStop with
                    | mk stop s4 => cases stop <;> rfl

theorem searchPositionE_forget (qfuel : Nat) (p : P) (depth : Nat) (s : SearchState) :
    forget (searchPositionE G qfuel p depth s) = searchPosition G qfuel p depth s := by
  unfold searchPositionE searchPosition
  simp only
  rw [← negamaxE_forget]
  cases negamaxE G qfuel depth p 0 NEGATIVE_INFINITY INFINITY _ with
  | mk r rest => cases rest with | mk s2 l => rfl

theorem iterateE_forget (qfuel : Nat) (p : P) (maxDepth : Nat) :
    ∀ (n cur : Nat) (best : Int × Option Move) (s : SearchState),
      forget (iterateE G qfuel p maxDepth n cur best s) = iterate G qfuel p maxDepth n cur best s := by
  intro n
  induction n with
  | zero => intro cur best s; rfl
  | succ n ih =>
    intro cur best s
    rw [iterateE.eq_2, iterate.eq_2]
    split
    · rfl
    · cases s.shouldStop with
      | mk stop s1 =>
        cases stop with
        | true => rfl
        | false =>
          simp only [Bool.false_eq_true, ↓reduceIte]
          rw [← searchPositionE_forget]
          cases searchPositionE G qfuel p cur s1 with
          | mk r rest =>
            cases rest with
            | mk s2 l =>
              cases r with
              | none => rfl
              | some r =>
                simp only [forget_mk]
                cases s2.shouldStop with
                | mk stop2 s3 =>
                  cases stop2 with
                  | true =>
                    simp only [Bool.not_true, Bool.false_eq_true, ↓reduceIte]
                    rw [← ih]
                    cases iterateE G qfuel p maxDepth n (cur + 1) best s3 with
                    | mk b rest2 => cases rest2 with | mk s4 l' => rfl
                  | false =>
                    simp only [Bool.not_false, ↓reduceIte]
                    rw [← ih]
                    cases iterateE G qfuel p maxDepth n (cur + 1) (r.score, r.bestMove) _ with
                    | mk b rest2 => cases rest2 with | mk s4 l' => rfl

theorem findBestMoveE_forget (qfuel : Nat) (p : P) (maxDepth : Nat) (limit : Limit) (s : SearchState) :
    forget (findBestMoveE G qfuel p maxDepth limit s) = findBestMove G qfuel p maxDepth limit s := by
  rw [findBestMove_eq, ← iterateE_forget]
  unfold findBestMoveE
  cases iterateE G qfuel p maxDepth maxDepth 1 (NEGATIVE_INFINITY, none) (resetState limit s) with
  | mk r rest =>
    cases rest with
    | mk s2 l =>
      cases r with
      | none => rfl
      | some b =>
        obtain ⟨sc, bm⟩ := b
        cases bm <;> rfl

/-- the events of `findBestMove` are those of the iteration loop started from the reset state. -/
theorem events_eq (qfuel : Nat) (p : P) (maxDepth : Nat) (limit : Limit) (s : SearchState) :
    events G qfuel p maxDepth limit s =
      (iterateE G qfuel p maxDepth maxDepth 1 (NEGATIVE_INFINITY, none) (resetState limit s)).2.2 := by
  unfold events findBestMoveE
  cases iterateE G qfuel p maxDepth maxDepth 1 (NEGATIVE_INFINITY, none) (resetState limit s) with
  | mk r rest =>
    cases rest with
    | mk s2 l =>
      cases r with
      | none => rfl
      | some b =>
        obtain ⟨sc, bm⟩ := b
        cases bm <;> rfl

end forget

/-! ### the event list is complete: replaying it with the model's own primitives gives the final clock -/

/-- apply one event with the model's own primitive. -/
def applyEv (s : SearchState) : Ev → SearchState
  | .poll => s.shouldStop.2
  | .enter => s.incrementNodes

/-- apply a list of events, in order. -/
def replay (s : SearchState) (l : List Ev) : SearchState := l.foldl applyEv s

/-- the clock part of a searcher state: everything `shouldStop` and `incrementNodes` read or write. -/
structure Clock where
  limit : Limit
  nodes : Nat
  polls : Nat
  stopSeen : Bool
  nodesAfterStop : Nat
  deriving DecidableEq, Repr

def clk (s : SearchState) : Clock := ⟨s.limit, s.nodes, s.polls, s.stopSeen, s.nodesAfterStop⟩

namespace Clock

/-- the oracle's answer (mirror of `limitStop`). -/
def stop (k : Clock) : Bool :=
  match k.limit with
  | .none => false
  | .nodes n => decide (k.nodes ≥ n)
  | .polls n => decide (k.polls ≥ n)

/-- mirror of `shouldStop` / `incrementNodes` on the clock part. -/
def step (k : Clock) : Ev → Clock
  | .poll => { k with polls := k.polls + 1, stopSeen := k.stopSeen || k.stop }
  | .enter => { k with nodes := k.nodes + 1,
                       nodesAfterStop := if k.stopSeen then k.nodesAfterStop + 1 else k.nodesAfterStop }

def run (k : Clock) (l : List Ev) : Clock := l.foldl step k

@[simp] theorem run_nil (k : Clock) : k.run [] = k := rfl
@[simp] theorem run_cons (k : Clock) (e : Ev) (l : List Ev) : k.run (e :: l) = (k.step e).run l := rfl
@[simp] theorem run_append (k : Clock) (l l' : List Ev) : k.run (l ++ l') = (k.run l).run l' :=
  List.foldl_append

end Clock

theorem clk_poll (s : SearchState) : clk s.shouldStop.2 = (clk s).step .poll := rfl
theorem clk_enter (s : SearchState) : clk s.incrementNodes = (clk s).step .enter := rfl
theorem clk_applyEv (s : SearchState) (e : Ev) : clk (applyEv s e) = (clk s).step e := by
  cases e <;> rfl

theorem clk_replay (s : SearchState) (l : List Ev) : clk (replay s l) = (clk s).run l := by
  induction l generalizing s with
  | nil => rfl
  | cons e l ih =>
    show clk (replay (applyEv s e) l) = ((clk s).step e).run l
    rw [ih, clk_applyEv]

@[simp] theorem clk_storeKiller (s : SearchState) (mv : Move) (ply : Nat) :
    clk (s.storeKiller mv ply) = clk s := by
  unfold SearchState.storeKiller
  split
  · simp only
    split <;> rfl
  · rfl

theorem clk_probeTT {P : Type} (G : Game P) (s : SearchState) (p : P) (d : Nat) (α β : Int) :
    clk (probeTT G s p d α β).2.2 = clk s := by
  obtain ⟨⟨dh, sh, h1⟩, _⟩ := probeTT_spec (G := G) s p d α β
  rw [h1]
  rfl

section replay
variable {P : Type} (G : Game P)

theorem quiesceLoopE_replay
    (recE : P → Int → Int → SearchState → Option Int × SearchState × List Ev)
    (hrec : ∀ p α β s, clk (recE p α β s).2.1 = (clk s).run (recE p α β s).2.2) (p : P) (β : Int) :
    ∀ (ms : List Move) (α : Int) (s : SearchState),
      clk (quiesceLoopE G recE p β ms α s).2.1 = (clk s).run (quiesceLoopE G recE p β ms α s).2.2 := by
  intro ms
  induction ms with
  | nil => intro α s; rfl
  | cons mv rest ih =>
    intro α s
    rw [quiesceLoopE.eq_2]
    have h1 := clk_poll s
    revert h1
    cases s.shouldStop with
    | mk stop s1 =>
      intro h1
      simp only at h1
      cases stop with
      | true => exact h1
      | false =>
        simp only [Bool.false_eq_true, ↓reduceIte]
        have h2 := hrec (G.play p mv) (-β) (-α) s1
        revert h2
        cases recE (G.play p mv) (-β) (-α) s1 with
        | mk r rest2 =>
          cases rest2 with
          | mk s2 l =>
            intro h2
            simp only at h2
            cases r with
            | none => simp only [Clock.run_cons]; rw [← h1]; exact h2
            | some v =>
              simp only
              split
              · simp only [Clock.run_cons]; rw [← h1]; exact h2
              · have h3 := ih (max α (-v)) s2
                revert h3
                cases quiesceLoopE G recE p β rest (max α (-v)) s2 with
                | mk r' rest3 =>
                  cases rest3 with
                  | mk s' l' =>
                    intro h3
                    simp only at h3 ⊢
                    simp only [Clock.run_cons, Clock.run_append]
                    rw [← h1, ← h2]; exact h3

theorem quiesceE_replay : ∀ (fuel : Nat) (p : P) (α β : Int) (s : SearchState),
    clk (quiesceE G fuel p α β s).2.1 = (clk s).run (quiesceE G fuel p α β s).2.2 := by
  intro fuel
  induction fuel with
  | zero => intro p α β s; rfl
  | succ fuel ih =>
    intro p α β s
    rw [quiesceE.eq_2]
    generalize orderCaptures G p (if G.inCheck p = true then G.moves p else G.qmoves p) = ms
    split
    · rfl
    · simp only
      split
      · rfl
      · have h := quiesceLoopE_replay G (quiesceE G fuel) ih p β ms (max α (G.eval p)) s.incrementNodes
        revert h
        cases quiesceLoopE G (quiesceE G fuel) p β ms (max α (G.eval p)) s.incrementNodes with
        | mk r rest =>
          cases rest with
          | mk s' l =>
            intro h
            simp only at h ⊢
            simp only [Clock.run_cons]
            rw [← clk_enter]; exact h

theorem negamaxLoopE_replay
    (recE : P → Nat → Int → Int → SearchState → Option SearchResult × SearchState × List Ev)
    (hrec : ∀ p ply α β s, clk (recE p ply α β s).2.1 = (clk s).run (recE p ply α β s).2.2)
    (p : P) (depth ply : Nat) (β : Int) :
    ∀ (ms : List Move) (acc : LoopAcc) (s : SearchState),
      clk (negamaxLoopE G recE p depth ply β ms acc s).2.1 =
        (clk s).run (negamaxLoopE G recE p depth ply β ms acc s).2.2 := by
  intro ms
  induction ms with
  | nil => intro acc s; rfl
  | cons mv rest ih =>
    intro acc s
    rw [negamaxLoopE.eq_2]
    have h1 := clk_poll s
    revert h1
    cases s.shouldStop with
    | mk stop s1 =>
      intro h1
      simp only at h1
      cases stop with
      | true => exact h1
      | false =>
        simp only [Bool.false_eq_true, ↓reduceIte]
        have h2 := hrec (G.play p mv) (ply + 1) (-β) (-acc.alpha) s1
        revert h2
        cases recE (G.play p mv) (ply + 1) (-β) (-acc.alpha) s1 with
        | mk r rest2 =>
          cases rest2 with
          | mk s2 l =>
            intro h2
            simp only at h2
            cases r with
            | none => simp only [Clock.run_cons]; rw [← h1]; exact h2
            | some r =>
              simp only
              split
              · simp only [Clock.run_cons]
                rw [← h1, ← h2]
                split
                · exact (clk_storeKiller s2 mv ply)
                · rfl
              · have h3 := ih ⟨max acc.alpha (-r.score),
                  if -r.score > acc.best.score then ⟨-r.score, some mv⟩ else acc.best⟩ s2
                revert h3
                cases negamaxLoopE G recE p depth ply β rest _ s2 with
                | mk r' rest3 =>
                  cases rest3 with
                  | mk s' l' =>
                    intro h3
                    simp only at h3 ⊢
                    simp only [Clock.run_cons, Clock.run_append]
                    rw [← h1, ← h2]; exact h3

theorem negamaxE_replay (qfuel : Nat) :
    ∀ (depth : Nat) (p : P) (ply : Nat) (α β : Int) (s : SearchState),
      clk (negamaxE G qfuel depth p ply α β s).2.1 =
        (clk s).run (negamaxE G qfuel depth p ply α β s).2.2 := by
  intro depth
  induction depth with
  | zero =>
    intro p ply α β s
    rw [negamaxE.eq_1]
    split
    · rfl
    · have h2 := clk_probeTT G s.incrementNodes p 0 α β
      revert h2
      cases probeTT G s.incrementNodes p 0 α β with
      | mk c rest =>
        cases rest with
        | mk tm s2 =>
          intro h2
          simp only at h2
          cases c with
          | some cached => exact h2
          | none =>
            simp only
            have h3 := quiesceE_replay G qfuel p α β s2
            revert h3
            cases quiesceE G qfuel p α β s2 with
            | mk v rest3 =>
              cases rest3 with
              | mk s3 l =>
                intro h3
                simp only at h3
                rw [h2, clk_enter] at h3
                cases v <;> exact h3
  | succ d ih =>
    intro p ply α β s
    rw [negamaxE.eq_1]
    split
    · rfl
    · have h2 := clk_probeTT G s.incrementNodes p (d + 1) α β
      revert h2
      cases probeTT G s.incrementNodes p (d + 1) α β with
      | mk c rest =>
        cases rest with
        | mk tm s2 =>
          intro h2
          simp only at h2
          cases c with
          | some cached => exact h2
          | none =>
            simp only
            cases G.moves p with
            | nil =>
              simp only
              split
              · exact h2
              · exact h2
            | cons m0 tail =>
              simp only
              have hloop := negamaxLoopE_replay G (negamaxE G qfuel d) ih p (d + 1) ply β
                (orderMoves G s2 p (m0 :: tail) tm ply)
                ⟨α, ⟨NEGATIVE_INFINITY, some ((orderMoves G s2 p (m0 :: tail) tm ply).headD m0)⟩⟩ s2
              revert hloop
              cases negamaxLoopE G (negamaxE G qfuel d) p (d + 1) ply β
                (orderMoves G s2 p (m0 :: tail) tm ply)
                ⟨α, ⟨NEGATIVE_INFINITY, some ((orderMoves G s2 p (m0 :: tail) tm ply).headD m0)⟩⟩ s2 with
              | mk racc rest3 =>
                cases rest3 with
                | mk s3 l =>
                  intro hloop
                  simp only at hloop
                  rw [h2, clk_enter] at hloop
                  cases racc with
                  | none => exact hloop
                  | some acc =>
                    simp only
                    have h4 := clk_poll s3
                    revert h4
                    cases s3.shouldStop with
                    | mk stop s4 =>
                      intro h4
                      simp only at h4
                      rw [hloop] at h4
                      cases stop with
                      | true =>
                        simp only [↓reduceIte, Clock.run_cons, Clock.run_append, Clock.run_nil]
                        exact h4
                      | false =>
                        simp only [Bool.false_eq_true, ↓reduceIte, Clock.run_cons, Clock.run_append,
                          Clock.run_nil]
                        exact h4

theorem searchPositionE_replay (qfuel : Nat) (p : P) (depth : Nat) (s : SearchState) :
    clk (searchPositionE G qfuel p depth s).2.1 = (clk s).run (searchPositionE G qfuel p depth s).2.2 := by
  unfold searchPositionE
  simp only
  have h := negamaxE_replay G qfuel depth p 0 NEGATIVE_INFINITY INFINITY
    { s with rep := G.hash p :: s.rep }
  revert h
  cases negamaxE G qfuel depth p 0 NEGATIVE_INFINITY INFINITY { s with rep := G.hash p :: s.rep } with
  | mk r rest =>
    cases rest with
    | mk s2 l => intro h; exact h

theorem iterateE_replay (qfuel : Nat) (p : P) (maxDepth : Nat) :
    ∀ (n cur : Nat) (best : Int × Option Move) (s : SearchState),
      clk (iterateE G qfuel p maxDepth n cur best s).2.1 =
        (clk s).run (iterateE G qfuel p maxDepth n cur best s).2.2 := by
  intro n
  induction n with
  | zero => intro cur best s; rfl
  | succ n ih =>
    intro cur best s
    rw [iterateE.eq_2]
    split
    · rfl
    · have h1 := clk_poll s
      revert h1
      cases s.shouldStop with
      | mk stop s1 =>
        intro h1
        simp only at h1
        cases stop with
        | true => exact h1
        | false =>
          simp only [Bool.false_eq_true, ↓reduceIte]
          have h2 := searchPositionE_replay G qfuel p cur s1
          revert h2
          cases searchPositionE G qfuel p cur s1 with
          | mk r rest =>
            cases rest with
            | mk s2 l =>
              intro h2
              simp only at h2
              rw [h1] at h2
              cases r with
              | none => exact h2
              | some r =>
                simp only
                have h3 := clk_poll s2
                revert h3
                cases s2.shouldStop with
                | mk stop2 s3 =>
                  intro h3
                  simp only at h3
                  rw [h2] at h3
                  cases stop2 with
                  | true =>
                    simp only [Bool.not_true, Bool.false_eq_true, ↓reduceIte]
                    have h4 := ih (cur + 1) best s3
                    revert h4
                    cases iterateE G qfuel p maxDepth n (cur + 1) best s3 with
                    | mk b rest2 =>
                      cases rest2 with
                      | mk s4 l' =>
                        intro h4
                        simp only at h4 ⊢
                        simp only [Clock.run_cons, Clock.run_append]
                        rw [← h3]; exact h4
                  | false =>
                    simp only [Bool.not_false, ↓reduceIte]
                    have h4 := ih (cur + 1) (r.score, r.bestMove)
                      { s3 with tt := s3.tt.store (G.hash p) r.score r.bestMove cur .exact,
                                info := (cur, r.score, s3.nodes, r.bestMove) :: s3.info }
                    revert h4
                    cases iterateE G qfuel p maxDepth n (cur + 1) (r.score, r.bestMove)
                      { s3 with tt := s3.tt.store (G.hash p) r.score r.bestMove cur .exact,
                                info := (cur, r.score, s3.nodes, r.bestMove) :: s3.info } with
                    | mk b rest2 =>
                      cases rest2 with
                      | mk s4 l' =>
                        intro h4
                        simp only at h4 ⊢
                        simp only [Clock.run_cons, Clock.run_append]
                        rw [← h3]; exact h4

/-- **completeness of the event list**: the clock part of the state `findBestMove` returns is obtained
    from the reset state by applying the model's `shouldStop` / `incrementNodes` event by event. -/
theorem findBestMove_replay (qfuel : Nat) (p : P) (maxDepth : Nat) (limit : Limit) (s : SearchState) :
    clk (findBestMove G qfuel p maxDepth limit s).2 =
      clk (replay (resetState limit s) (events G qfuel p maxDepth limit s)) := by
  rw [clk_replay, events_eq, findBestMove_snd, ← iterateE_forget]
  exact iterateE_replay G qfuel p maxDepth maxDepth 1 _ _

end replay

/-! ### the gap measure -/

/-- one step of the ghost pair `(c, m)`: `c` = nodes entered since the last poll, `m` = the largest value
    `c` has had.  A poll resets `c`; a node entry increments `c` and folds it into `m`. -/
def gstep : Nat × Nat → Ev → Nat × Nat
  | (_, m), .poll => (0, m)
  | (c, m), .enter => (c + 1, max m (c + 1))

/-- thread the ghost pair through an event list. -/
def grun (g : Nat × Nat) (l : List Ev) : Nat × Nat := l.foldl gstep g

/-- **the gap measure of a run**: the largest number of nodes entered without a poll in between — before
    the first poll, between two consecutive polls, or after the last poll. -/
def maxGap (l : List Ev) : Nat := (grun (0, 0) l).2

@[simp] theorem grun_nil (g : Nat × Nat) : grun g [] = g := rfl
@[simp] theorem grun_poll (c m : Nat) (l : List Ev) : grun (c, m) (.poll :: l) = grun (0, m) l := rfl
@[simp] theorem grun_enter (c m : Nat) (l : List Ev) :
    grun (c, m) (.enter :: l) = grun (c + 1, max m (c + 1)) l := rfl
@[simp] theorem grun_append (g : Nat × Nat) (l l' : List Ev) : grun g (l ++ l') = grun (grun g l) l' :=
  List.foldl_append

/-- the maximum never decreases. -/
theorem grun_snd_mono (l : List Ev) : ∀ c m, m ≤ (grun (c, m) l).2 := by
  induction l with
  | nil => intro c m; exact Nat.le_refl _
  | cons e l ih =>
    intro c m
    cases e with
    | poll => exact ih 0 m
    | enter => exact Nat.le_trans (Nat.le_max_left _ _) (ih (c + 1) (max m (c + 1)))

/-- a block of `k` consecutive entries raises the maximum to at least `k`. -/
theorem grun_enters (w : List Ev) (hw : ∀ e ∈ w, e = Ev.enter) :
    ∀ c m, w.length ≤ (grun (c, m) w).2 ∨ w = [] := by
  induction w with
  | nil => intro c m; exact Or.inr rfl
  | cons e w ih =>
    intro c m
    left
    have he : e = Ev.enter := hw e (List.mem_cons_self ..)
    subst he
    rw [grun_enter]
    have hw' : ∀ e ∈ w, e = Ev.enter := fun e h => hw e (List.mem_cons_of_mem _ h)
    clear ih
    -- after the first entry the counter is `c + 1`; every further entry adds one
    have key : ∀ (w : List Ev), (∀ e ∈ w, e = Ev.enter) → ∀ c m, c ≤ m → c + w.length ≤ (grun (c, m) w).2 := by
      intro w
      induction w with
      | nil => intro _ c m h; exact h
      | cons e w ih =>
        intro hw c m h
        have he : e = Ev.enter := hw e (List.mem_cons_self ..)
        subst he
        rw [grun_enter]
        have := ih (fun e h => hw e (List.mem_cons_of_mem _ h)) (c + 1) (max m (c + 1)) (Nat.le_max_right _ _)
        simp only [List.length_cons]
        omega
    have := key w hw' (c + 1) (max m (c + 1)) (Nat.le_max_right _ _)
    simp only [List.length_cons]
    omega

/-- **what `maxGap` measures**: every block of consecutive node entries of the run — wherever it sits: before
    the first poll, between two polls, after the last poll — has at most `maxGap` elements. -/
theorem length_le_maxGap {l w : List Ev} (hi : w <:+: l) (hw : ∀ e ∈ w, e = Ev.enter) :
    w.length ≤ maxGap l := by
  obtain ⟨a, b, rfl⟩ := hi
  unfold maxGap
  rw [grun_append, grun_append]
  rcases grun_enters w hw (grun (0, 0) a).1 (grun (0, 0) a).2 with h | h
  · exact Nat.le_trans h (grun_snd_mono b _ _)
  · subst h; exact Nat.zero_le _

/-- and the measure is attained: some block of consecutive entries has exactly `maxGap` elements. -/
theorem exists_block_maxGap (l : List Ev) :
    ∃ w, w <:+: l ∧ (∀ e ∈ w, e = Ev.enter) ∧ w.length = maxGap l := by
  -- invariant of the fold after a prefix `a`: the block `u` of trailing entries of `a` has length `c`,
  -- and some block of `a` has length `m`
  have key : ∀ (l a : List Ev) (c m : Nat),
      (∃ u, u <:+ a ∧ (∀ e ∈ u, e = Ev.enter) ∧ u.length = c) →
      (∃ w, w <:+: a ∧ (∀ e ∈ w, e = Ev.enter) ∧ w.length = m) →
      ∃ w, w <:+: a ++ l ∧ (∀ e ∈ w, e = Ev.enter) ∧ w.length = (grun (c, m) l).2 := by
    intro l
    induction l with
    | nil => intro a c m _ hw; simpa using hw
    | cons e l ih =>
      intro a c m hu hw
      obtain ⟨u, hu, hue, hul⟩ := hu
      obtain ⟨w, hw, hwe, hwl⟩ := hw
      have hassoc : a ++ e :: l = (a ++ [e]) ++ l := by simp
      have hwa : w <:+: a ++ [e] := List.IsInfix.trans hw ⟨[], [e], by simp⟩
      rw [hassoc]
      cases e with
      | poll =>
        rw [grun_poll]
        exact ih (a ++ [Ev.poll]) 0 m ⟨[], List.nil_suffix, (fun _ h => by cases h), rfl⟩ ⟨w, hwa, hwe, hwl⟩
      | enter =>
        rw [grun_enter]
        have hu' : u ++ [Ev.enter] <:+ a ++ [Ev.enter] := by
          obtain ⟨t, rfl⟩ := hu
          exact ⟨t, by simp⟩
        have hue' : ∀ e ∈ u ++ [Ev.enter], e = Ev.enter := by
          intro e he
          rcases List.mem_append.1 he with h | h
          · exact hue e h
          · exact List.mem_singleton.1 h
        have hul' : (u ++ [Ev.enter]).length = c + 1 := by simp [hul]
        refine ih (a ++ [Ev.enter]) (c + 1) (max m (c + 1)) ⟨_, hu', hue', hul'⟩ ?_
        by_cases hmc : c + 1 ≤ m
        · exact ⟨w, hwa, hwe, by rw [hwl]; omega⟩
        · exact ⟨_, hu'.isInfix, hue', by rw [hul']; omega⟩
  have := key l [] 0 0 ⟨[], List.suffix_refl _, (fun _ h => by cases h), rfl⟩
    ⟨[], List.infix_refl _, (fun _ h => by cases h), rfl⟩
  simpa [maxGap] using this

/-- `Within a b l`: from every ghost state `(c, m)`, after the events `l` the counter is at most
    `max (c + a) b` and the maximum at most `max m (max (c + a) b)`. -/
def Within (a b : Nat) (l : List Ev) : Prop :=
  ∀ c m, (grun (c, m) l).1 ≤ max (c + a) b ∧ (grun (c, m) l).2 ≤ max m (max (c + a) b)

theorem Within.nil : Within 0 0 [] := fun c m => by
  simp only [grun_nil]
  exact ⟨by omega, by omega⟩

theorem Within.weaken {a b a' b' : Nat} {l : List Ev} (h : Within a b l)
    (hab : ∀ c, max (c + a) b ≤ max (c + a') b') : Within a' b' l := by
  intro c m
  obtain ⟨h1, h2⟩ := h c m
  have := hab c
  exact ⟨by omega, by omega⟩

theorem Within.poll_cons {a b : Nat} {l : List Ev} (h : Within a b l) : Within 0 (max a b) (.poll :: l) := by
  intro c m
  rw [grun_poll]
  obtain ⟨h1, h2⟩ := h 0 m
  exact ⟨by omega, by omega⟩

theorem Within.enter_cons {a b : Nat} {l : List Ev} (h : Within a b l) : Within (a + 1) b (.enter :: l) := by
  intro c m
  rw [grun_enter]
  obtain ⟨h1, h2⟩ := h (c + 1) (max m (c + 1))
  exact ⟨by omega, by omega⟩

theorem Within.append {a b a' b' : Nat} {l l' : List Ev} (h : Within a b l) (h' : Within a' b' l') :
    Within (a + a') (max (b + a') b') (l ++ l') := by
  intro c m
  rw [grun_append]
  obtain ⟨h1, h2⟩ := h c m
  generalize grun (c, m) l = g at h1 h2
  obtain ⟨c1, m1⟩ := g
  obtain ⟨h3, h4⟩ := h' c1 m1
  simp only at h1 h2
  exact ⟨by omega, by omega⟩

theorem Within.poll : Within 0 0 [Ev.poll] := Within.nil.poll_cons.weaken (by intro c; omega)
theorem Within.enter : Within 1 0 [Ev.enter] := Within.nil.enter_cons.weaken (by intro c; omega)

section within
variable {P : Type} (G : Game P)

theorem quiesceLoopE_within
    (recE : P → Int → Int → SearchState → Option Int × SearchState × List Ev)
    (hrec : ∀ p α β s, Within 1 0 (recE p α β s).2.2) (p : P) (β : Int) :
    ∀ (ms : List Move) (α : Int) (s : SearchState),
      Within 0 1 (quiesceLoopE G recE p β ms α s).2.2 := by
  intro ms
  induction ms with
  | nil => intro α s; exact Within.nil.weaken (by intro c; omega)
  | cons mv rest ih =>
    intro α s
    rw [quiesceLoopE.eq_2]
    cases s.shouldStop with
    | mk stop s1 =>
      cases stop with
      | true => exact Within.poll.weaken (by intro c; omega)
      | false =>
        simp only [Bool.false_eq_true, ↓reduceIte]
        have h2 := hrec (G.play p mv) (-β) (-α) s1
        revert h2
        cases recE (G.play p mv) (-β) (-α) s1 with
        | mk r rest2 =>
          cases rest2 with
          | mk s2 l =>
            intro h2
            simp only at h2
            cases r with
            | none => exact h2.poll_cons.weaken (by intro c; omega)
            | some v =>
              simp only
              split
              · exact h2.poll_cons.weaken (by intro c; omega)
              · have h3 := ih (max α (-v)) s2
                revert h3
                cases quiesceLoopE G recE p β rest (max α (-v)) s2 with
                | mk r' rest3 =>
                  cases rest3 with
                  | mk s' l' =>
                    intro h3
                    simp only at h3 ⊢
                    exact (h2.append h3).poll_cons.weaken (by intro c; omega)

/-- a quiescence call adds at most ONE node to the current gap: its own entry; everything below it comes
    after a poll. -/
theorem quiesceE_within : ∀ (fuel : Nat) (p : P) (α β : Int) (s : SearchState),
    Within 1 0 (quiesceE G fuel p α β s).2.2 := by
  intro fuel
  induction fuel with
  | zero => intro p α β s; exact Within.nil.weaken (by intro c; omega)
  | succ fuel ih =>
    intro p α β s
    rw [quiesceE.eq_2]
    generalize orderCaptures G p (if G.inCheck p = true then G.moves p else G.qmoves p) = ms
    split
    · exact Within.enter
    · simp only
      split
      · exact Within.enter
      · have h := quiesceLoopE_within G (quiesceE G fuel) ih p β ms (max α (G.eval p)) s.incrementNodes
        revert h
        cases quiesceLoopE G (quiesceE G fuel) p β ms (max α (G.eval p)) s.incrementNodes with
        | mk r rest =>
          cases rest with
          | mk s' l =>
            intro h
            simp only at h ⊢
            exact h.enter_cons.weaken (by intro c; omega)

theorem negamaxLoopE_within
    (recE : P → Nat → Int → Int → SearchState → Option SearchResult × SearchState × List Ev)
    (hrec : ∀ p ply α β s, Within 2 0 (recE p ply α β s).2.2)
    (p : P) (depth ply : Nat) (β : Int) :
    ∀ (ms : List Move) (acc : LoopAcc) (s : SearchState),
      Within 0 2 (negamaxLoopE G recE p depth ply β ms acc s).2.2 := by
  intro ms
  induction ms with
  | nil => intro acc s; exact Within.nil.weaken (by intro c; omega)
  | cons mv rest ih =>
    intro acc s
    rw [negamaxLoopE.eq_2]
    cases s.shouldStop with
    | mk stop s1 =>
      cases stop with
      | true => exact Within.poll.weaken (by intro c; omega)
      | false =>
        simp only [Bool.false_eq_true, ↓reduceIte]
        have h2 := hrec (G.play p mv) (ply + 1) (-β) (-acc.alpha) s1
        revert h2
        cases recE (G.play p mv) (ply + 1) (-β) (-acc.alpha) s1 with
        | mk r rest2 =>
          cases rest2 with
          | mk s2 l =>
            intro h2
            simp only at h2
            cases r with
            | none => exact h2.poll_cons.weaken (by intro c; omega)
            | some r =>
              simp only
              split
              · exact h2.poll_cons.weaken (by intro c; omega)
              · have h3 := ih ⟨max acc.alpha (-r.score),
                  if -r.score > acc.best.score then ⟨-r.score, some mv⟩ else acc.best⟩ s2
                revert h3
                cases negamaxLoopE G recE p depth ply β rest _ s2 with
                | mk r' rest3 =>
                  cases rest3 with
                  | mk s' l' =>
                    intro h3
                    simp only at h3 ⊢
                    exact (h2.append h3).poll_cons.weaken (by intro c; omega)

/-- a negamax call adds at most TWO nodes to the current gap: its own entry and, at depth 0, the entry of the
    quiescence node it opens; everything else it does comes after a poll. -/
theorem negamaxE_within (qfuel : Nat) :
    ∀ (depth : Nat) (p : P) (ply : Nat) (α β : Int) (s : SearchState),
      Within 2 0 (negamaxE G qfuel depth p ply α β s).2.2 := by
  intro depth
  induction depth with
  | zero =>
    intro p ply α β s
    rw [negamaxE.eq_1]
    split
    · exact Within.enter.weaken (by intro c; omega)
    · cases probeTT G s.incrementNodes p 0 α β with
      | mk c rest =>
        cases rest with
        | mk tm s2 =>
          cases c with
          | some cached => exact Within.enter.weaken (by intro c; omega)
          | none =>
            simp only
            have h3 := quiesceE_within G qfuel p α β s2
            revert h3
            cases quiesceE G qfuel p α β s2 with
            | mk v rest3 =>
              cases rest3 with
              | mk s3 l =>
                intro h3
                simp only at h3
                cases v <;> exact h3.enter_cons
  | succ d ih =>
    intro p ply α β s
    rw [negamaxE.eq_1]
    split
    · exact Within.enter.weaken (by intro c; omega)
    · cases probeTT G s.incrementNodes p (d + 1) α β with
      | mk c rest =>
        cases rest with
        | mk tm s2 =>
          cases c with
          | some cached => exact Within.enter.weaken (by intro c; omega)
          | none =>
            simp only
            cases G.moves p with
            | nil =>
              simp only
              split
              · exact Within.enter.weaken (by intro c; omega)
              · exact Within.enter.weaken (by intro c; omega)
            | cons m0 tail =>
              simp only
              have hloop := negamaxLoopE_within G (negamaxE G qfuel d) ih p (d + 1) ply β
                (orderMoves G s2 p (m0 :: tail) tm ply)
                ⟨α, ⟨NEGATIVE_INFINITY, some ((orderMoves G s2 p (m0 :: tail) tm ply).headD m0)⟩⟩ s2
              revert hloop
              cases negamaxLoopE G (negamaxE G qfuel d) p (d + 1) ply β
                (orderMoves G s2 p (m0 :: tail) tm ply)
                ⟨α, ⟨NEGATIVE_INFINITY, some ((orderMoves G s2 p (m0 :: tail) tm ply).headD m0)⟩⟩ s2 with
              | mk racc rest3 =>
                cases rest3 with
                | mk s3 l =>
                  intro hloop
                  simp only at hloop
                  cases racc with
                  | none => exact hloop.enter_cons.weaken (by intro c; omega)
                  | some acc =>
                    simp only
                    cases s3.shouldStop with
                    | mk stop s4 =>
                      cases stop with
                      | true =>
                        simp only [↓reduceIte]
                        exact (hloop.append Within.poll).enter_cons.weaken (by intro c; omega)
                      | false =>
                        simp only [Bool.false_eq_true, ↓reduceIte]
                        exact (hloop.append Within.poll).enter_cons.weaken (by intro c; omega)

theorem searchPositionE_within (qfuel : Nat) (p : P) (depth : Nat) (s : SearchState) :
    Within 2 0 (searchPositionE G qfuel p depth s).2.2 := by
  unfold searchPositionE
  simp only
  have h := negamaxE_within G qfuel depth p 0 NEGATIVE_INFINITY INFINITY
    { s with rep := G.hash p :: s.rep }
  revert h
  cases negamaxE G qfuel depth p 0 NEGATIVE_INFINITY INFINITY { s with rep := G.hash p :: s.rep } with
  | mk r rest =>
    cases rest with
    | mk s2 l => intro h; exact h

theorem iterateE_within (qfuel : Nat) (p : P) (maxDepth : Nat) :
    ∀ (n cur : Nat) (best : Int × Option Move) (s : SearchState),
      Within 0 2 (iterateE G qfuel p maxDepth n cur best s).2.2 := by
  intro n
  induction n with
  | zero => intro cur best s; exact Within.nil.weaken (by intro c; omega)
  | succ n ih =>
    intro cur best s
    rw [iterateE.eq_2]
    split
    · exact Within.nil.weaken (by intro c; omega)
    · cases s.shouldStop with
      | mk stop s1 =>
        cases stop with
        | true => exact Within.poll.weaken (by intro c; omega)
        | false =>
          simp only [Bool.false_eq_true, ↓reduceIte]
          have h2 := searchPositionE_within G qfuel p cur s1
          revert h2
          cases searchPositionE G qfuel p cur s1 with
          | mk r rest =>
            cases rest with
            | mk s2 l =>
              intro h2
              simp only at h2
              cases r with
              | none => exact h2.poll_cons.weaken (by intro c; omega)
              | some r =>
                simp only
                cases s2.shouldStop with
                | mk stop2 s3 =>
                  cases stop2 with
                  | true =>
                    simp only [Bool.not_true, Bool.false_eq_true, ↓reduceIte]
                    have h4 := ih (cur + 1) best s3
                    revert h4
                    cases iterateE G qfuel p maxDepth n (cur + 1) best s3 with
                    | mk b rest2 =>
                      cases rest2 with
                      | mk s4 l' =>
                        intro h4
                        simp only at h4 ⊢
                        exact (h2.append h4.poll_cons).poll_cons.weaken (by intro c; omega)
                  | false =>
                    simp only [Bool.not_false, ↓reduceIte]
                    have h4 := ih (cur + 1) (r.score, r.bestMove)
                      { s3 with tt := s3.tt.store (G.hash p) r.score r.bestMove cur .exact,
                                info := (cur, r.score, s3.nodes, r.bestMove) :: s3.info }
                    revert h4
                    cases iterateE G qfuel p maxDepth n (cur + 1) (r.score, r.bestMove)
                      { s3 with tt := s3.tt.store (G.hash p) r.score r.bestMove cur .exact,
                                info := (cur, r.score, s3.nodes, r.bestMove) :: s3.info } with
                    | mk b rest2 =>
                      cases rest2 with
                      | mk s4 l' =>
                        intro h4
                        simp only at h4 ⊢
                        exact (h2.append h4.poll_cons).poll_cons.weaken (by intro c; omega)

theorem events_within (qfuel : Nat) (p : P) (maxDepth : Nat) (limit : Limit) (s : SearchState) :
    Within 0 2 (events G qfuel p maxDepth limit s) := by
  rw [events_eq]
  exact iterateE_within G qfuel p maxDepth maxDepth 1 _ _

/-- the gap measure of every run of `findBestMove` is at most 2. -/
theorem maxGap_events_le (qfuel : Nat) (p : P) (maxDepth : Nat) (limit : Limit) (s : SearchState) :
    maxGap (events G qfuel p maxDepth limit s) ≤ 2 := by
  have h := (events_within G qfuel p maxDepth limit s 0 0).2
  unfold maxGap
  omega

end within

/-! ### the node-budget deadline: `Limit.nodes n` -/

/-- joint invariant of the clock and the ghost pair along ANY event list, under `Limit.nodes n`:
    while no poll has answered true the node counter is at most `(n - 1) + c` (the last poll saw fewer than `n`
    nodes, `c` were entered since); afterwards it is at most `(n - 1) + m` plus the nodes entered after the
    stop. -/
theorem nodes_le_of_events (n : Nat) :
    ∀ (l : List Ev) (k : Clock) (c m : Nat), k.limit = .nodes n → c ≤ m →
      (k.stopSeen = false → k.nodes ≤ c + (n - 1)) →
      (k.stopSeen = true → k.nodes ≤ m + (n - 1) + k.nodesAfterStop) →
      (k.run l).nodes ≤ (grun (c, m) l).2 + (n - 1) + (k.run l).nodesAfterStop := by
  intro l
  induction l with
  | nil =>
    intro k c m _ hcm h1 h2
    simp only [Clock.run_nil, grun_nil]
    cases hs : k.stopSeen with
    | false => have := h1 hs; omega
    | true => exact h2 hs
  | cons e l ih =>
    intro k c m hl hcm h1 h2
    cases e with
    | poll =>
      rw [Clock.run_cons, grun_poll]
      refine ih (k.step .poll) 0 m hl (Nat.zero_le _) ?_ ?_
      · intro hs
        have hs' : (k.stopSeen || k.stop) = false := hs
        rw [Bool.or_eq_false_iff] at hs'
        have hstop : decide (k.nodes ≥ n) = false := by
          have := hs'.2
          unfold Clock.stop at this
          rw [hl] at this
          exact this
        have hlt : ¬ k.nodes ≥ n := of_decide_eq_false hstop
        show k.nodes ≤ 0 + (n - 1)
        omega
      · intro _
        show k.nodes ≤ m + (n - 1) + k.nodesAfterStop
        cases hs : k.stopSeen with
        | false => have := h1 hs; omega
        | true => exact h2 hs
    | enter =>
      rw [Clock.run_cons, grun_enter]
      refine ih (k.step .enter) (c + 1) (max m (c + 1)) hl (Nat.le_max_right _ _) ?_ ?_
      · intro hs
        have hs' : k.stopSeen = false := hs
        have := h1 hs'
        show k.nodes + 1 ≤ c + 1 + (n - 1)
        omega
      · intro hs
        have hs' : k.stopSeen = true := hs
        have := h2 hs'
        show k.nodes + 1 ≤ max m (c + 1) + (n - 1) +
          (if k.stopSeen then k.nodesAfterStop + 1 else k.nodesAfterStop)
        rw [hs']
        simp only [↓reduceIte]
        omega

section nodes
variable {P : Type} (G : Game P)

/-- with a zero node budget the very first poll (it precedes every node) stops the search. -/
theorem findBestMove_nodes_zero (qfuel : Nat) (p : P) (D : Nat) (s : SearchState) :
    (findBestMove G qfuel p D (.nodes 0) s).2.nodes = 0 := by
  rw [findBestMove_snd]
  cases D with
  | zero => rfl
  | succ D =>
    rw [iterate.eq_2]
    split
    · rfl
    · rfl

/-- **node-budget overshoot.**  Under `Limit.nodes n` (the deadline passes when the `n`-th node is entered) a run
    of `findBestMove` enters at most `n + 1` nodes: at most ONE node after the deadline. -/
theorem findBestMove_nodes_le (qfuel : Nat) (p : P) (D n : Nat) (s : SearchState) :
    (findBestMove G qfuel p D (.nodes n) s).2.nodes ≤ n + 1 := by
  cases n with
  | zero => rw [findBestMove_nodes_zero]; exact Nat.zero_le _
  | succ n =>
    have hrep := findBestMove_replay G qfuel p D (.nodes (n + 1)) s
    rw [clk_replay] at hrep
    have hnas : (findBestMove G qfuel p D (.nodes (n + 1)) s).2.nodesAfterStop = 0 :=
      (findBestMove_trace G qfuel p D (.nodes (n + 1)) s).nodesAfterStop_eq
    have hgap := maxGap_events_le G qfuel p D (.nodes (n + 1)) s
    have key := nodes_le_of_events (n + 1) (events G qfuel p D (.nodes (n + 1)) s)
      (clk (resetState (.nodes (n + 1)) s)) 0 0 rfl (Nat.le_refl _)
      (fun _ => Nat.zero_le _) (fun h => by cases h)
    rw [← hrep] at key
    have h1 : (clk (findBestMove G qfuel p D (.nodes (n + 1)) s).2).nodes =
        (findBestMove G qfuel p D (.nodes (n + 1)) s).2.nodes := rfl
    have h2 : (clk (findBestMove G qfuel p D (.nodes (n + 1)) s).2).nodesAfterStop =
        (findBestMove G qfuel p D (.nodes (n + 1)) s).2.nodesAfterStop := rfl
    rw [h1, h2, hnas] at key
    unfold maxGap at hgap
    omega

end nodes

/-! ### work after the deadline, for every oracle -/

/-- the model's poll answer only reads the clock part. -/
theorem shouldStop_fst_eq_clk (s : SearchState) : s.shouldStop.1 = (clk s).stop := rfl

namespace Clock

/-- the oracle is monotone along every event: once it would answer true it keeps doing so. -/
theorem stop_step {k : Clock} (h : k.stop = true) (e : Ev) : (k.step e).stop = true := by
  unfold stop at h ⊢
  cases e with
  | poll =>
    show (match k.limit with
      | .none => false
      | .nodes n => decide (k.nodes ≥ n)
      | .polls n => decide (k.polls + 1 ≥ n)) = true
    cases hl : k.limit with
    | none => rw [hl] at h; cases h
    | nodes n => rw [hl] at h; exact h
    | polls n =>
      rw [hl] at h
      simp only [ge_iff_le, decide_eq_true_eq] at h ⊢
      omega
  | enter =>
    show (match k.limit with
      | .none => false
      | .nodes n => decide (k.nodes + 1 ≥ n)
      | .polls n => decide (k.polls ≥ n)) = true
    cases hl : k.limit with
    | none => rw [hl] at h; cases h
    | nodes n =>
      rw [hl] at h
      simp only [ge_iff_le, decide_eq_true_eq] at h ⊢
      omega
    | polls n => rw [hl] at h; exact h

/-- once a poll has answered true, every node entry is counted by `nodesAfterStop`. -/
theorem nodesAfterStop_run_of_stopSeen :
    ∀ (l : List Ev) (k : Clock), k.stopSeen = true →
      (k.run l).nodesAfterStop = k.nodesAfterStop + l.count Ev.enter := by
  intro l
  induction l with
  | nil => intro k _; rfl
  | cons e l ih =>
    intro k hs
    rw [run_cons]
    cases e with
    | poll =>
      have hs' : (k.step .poll).stopSeen = true := by
        show (k.stopSeen || k.stop) = true
        rw [hs]; rfl
      rw [ih _ hs']
      have : (Ev.poll :: l).count Ev.enter = l.count Ev.enter := by
        rw [List.count_cons]; simp
      rw [this]
      rfl
    | enter =>
      have hs' : (k.step .enter).stopSeen = true := hs
      rw [ih _ hs']
      have h1 : (k.step .enter).nodesAfterStop = k.nodesAfterStop + 1 := by
        show (if k.stopSeen then k.nodesAfterStop + 1 else k.nodesAfterStop) = k.nodesAfterStop + 1
        rw [hs]; rfl
      have h2 : (Ev.enter :: l).count Ev.enter = l.count Ev.enter + 1 := by
        rw [List.count_cons]; simp
      rw [h1, h2]
      omega

/-- from a point at which the oracle is true: if the run ends with `nodesAfterStop = 0`, every node entered
    from here on lies in the block of entries that precedes the next poll. -/
theorem count_enter_of_stop :
    ∀ (l : List Ev) (k : Clock), k.stop = true → (k.run l).nodesAfterStop = 0 →
      l.count Ev.enter = (l.takeWhile (· == Ev.enter)).length := by
  intro l
  induction l with
  | nil => intro k _ _; rfl
  | cons e l ih =>
    intro k hst hz
    rw [run_cons] at hz
    cases e with
    | poll =>
      have hs' : (k.step .poll).stopSeen = true := by
        show (k.stopSeen || k.stop) = true
        rw [hst]; exact Bool.or_true _
      rw [nodesAfterStop_run_of_stopSeen l _ hs'] at hz
      have h0 : l.count Ev.enter = 0 := by omega
      have : (Ev.poll :: l).count Ev.enter = l.count Ev.enter := by
        rw [List.count_cons]; simp
      rw [this, h0]
      rfl
    | enter =>
      have := ih (k.step .enter) (stop_step hst .enter) hz
      have h2 : (Ev.enter :: l).count Ev.enter = l.count Ev.enter + 1 := by
        rw [List.count_cons]; simp
      rw [h2, this]
      rfl

end Clock

theorem takeWhile_enter_all (l : List Ev) : ∀ e ∈ l.takeWhile (· == Ev.enter), e = Ev.enter := by
  induction l with
  | nil => intro e he; cases he
  | cons x l ih =>
    intro e he
    cases x with
    | poll => cases he
    | enter =>
      have he' : e ∈ Ev.enter :: l.takeWhile (· == Ev.enter) := he
      rcases List.mem_cons.1 he' with h | h
      · exact h
      · exact ih e h

section deadline
variable {P : Type} (G : Game P)

/-- **work after the deadline, any oracle.**  Split the events of a run at ANY point: `a` has happened, `b` is
    still to come.  If the oracle is true at that point (a poll executed there would answer true), at most
    2 nodes are entered in the whole rest of the run. -/
theorem count_enter_after_deadline (qfuel : Nat) (p : P) (D : Nat) (limit : Limit) (s : SearchState)
    (a b : List Ev) (hab : events G qfuel p D limit s = a ++ b)
    (hd : (replay (resetState limit s) a).shouldStop.1 = true) :
    b.count Ev.enter ≤ 2 := by
  rw [shouldStop_fst_eq_clk, clk_replay] at hd
  have hrep := findBestMove_replay G qfuel p D limit s
  rw [clk_replay, hab, Clock.run_append] at hrep
  have hnas : (findBestMove G qfuel p D limit s).2.nodesAfterStop = 0 :=
    (findBestMove_trace G qfuel p D limit s).nodesAfterStop_eq
  have hz : (((clk (resetState limit s)).run a).run b).nodesAfterStop = 0 := by
    rw [← hrep]; exact hnas
  rw [Clock.count_enter_of_stop b _ hd hz]
  have hinfix : b.takeWhile (· == Ev.enter) <:+: events G qfuel p D limit s := by
    rw [hab]
    exact List.IsInfix.trans (List.takeWhile_prefix _).isInfix (List.suffix_append a b).isInfix
  exact Nat.le_trans (length_le_maxGap hinfix (takeWhile_enter_all b))
    (maxGap_events_le G qfuel p D limit s)

end deadline

end Flounder.Dense
