/-
  Mailbox-level facts about `Spec.valid`: a propositional reading (`ValidPos`), the fact that every clause
  only reads the 64 squares (congruence), and unpacking of `attacked` / `inCheckOf` / `kingSquares`.
-/
import Flounder.Lemmas.Abs

namespace Flounder.Spec
open Flounder

/-! ### generic list congruences with membership -/

theorem all_congr_mem {α} {l : List α} {p q : α → Bool} (h : ∀ a, a ∈ l → p a = q a) : l.all p = l.all q := by
  induction l with
  | nil => rfl
  | cons x xs ih =>
    rw [List.all_cons, List.all_cons, h x (List.mem_cons_self ..),
      ih (fun a ha => h a (List.mem_cons_of_mem _ ha))]

theorem any_congr_mem {α} {l : List α} {p q : α → Bool} (h : ∀ a, a ∈ l → p a = q a) : l.any p = l.any q := by
  induction l with
  | nil => rfl
  | cons x xs ih =>
    rw [List.any_cons, List.any_cons, h x (List.mem_cons_self ..),
      ih (fun a ha => h a (List.mem_cons_of_mem _ ha))]

/-! ### `squares` -/

theorem mem_squares {s : Nat} : s ∈ squares ↔ s < 64 := List.mem_range

theorem squares_nodup : squares.Nodup := List.nodup_range

/-! ### `attacked`, `kingSquares`, `inCheckOf` as propositions -/

theorem attacked_eq_true {bd : Nat → Option Man} {c : Color} {t : Nat} :
    attacked bd c t = true ↔ ∃ s, s < 64 ∧ ∃ p, bd s = some (c, p) ∧ manAttacks bd c p s t = true := by
  unfold attacked
  rw [List.any_eq_true]
  constructor
  · rintro ⟨s, hs, h⟩
    refine ⟨s, mem_squares.1 hs, ?_⟩
    split at h
    · rename_i c' p heq
      simp only [Bool.and_eq_true, beq_iff_eq] at h
      obtain ⟨h1, h2⟩ := h
      subst h1
      exact ⟨p, heq, h2⟩
    · cases h
  · rintro ⟨s, hs, p, h1, h2⟩
    refine ⟨s, mem_squares.2 hs, ?_⟩
    rw [h1]
    simp [h2]

theorem mem_kingSquares {bd : Nat → Option Man} {c : Color} {k : Nat} :
    k ∈ kingSquares bd c ↔ k < 64 ∧ bd k = some (c, .king) := by
  unfold kingSquares
  rw [List.mem_filter, mem_squares, beq_iff_eq]

theorem inCheckOf_eq_false {bd : Nat → Option Man} {c : Color} :
    inCheckOf bd c = false ↔ ∀ k, k < 64 → bd k = some (c, .king) → attacked bd c.other k = false := by
  unfold inCheckOf
  rw [List.any_eq_false]
  constructor
  · intro h k hk hb
    have := h k (mem_kingSquares.2 ⟨hk, hb⟩)
    simpa using this
  · intro h k hk
    obtain ⟨h1, h2⟩ := mem_kingSquares.1 hk
    simp [h k h1 h2]

theorem kingSquares_length_eq_one {bd : Nat → Option Man} {c : Color} :
    (kingSquares bd c).length = 1 ↔
      ∃ k, k < 64 ∧ bd k = some (c, .king) ∧ ∀ s, s < 64 → bd s = some (c, .king) → s = k := by
  constructor
  · intro h
    match hl : kingSquares bd c, h with
    | [k], _ =>
      have hk : k ∈ kingSquares bd c := by rw [hl]; simp
      obtain ⟨h1, h2⟩ := mem_kingSquares.1 hk
      refine ⟨k, h1, h2, fun s hs hb => ?_⟩
      have : s ∈ kingSquares bd c := mem_kingSquares.2 ⟨hs, hb⟩
      rw [hl] at this
      exact List.mem_singleton.1 this
  · rintro ⟨k, hk, hb, hu⟩
    have h1 : (kingSquares bd c).length ≤ 1 := by
      unfold kingSquares
      apply filter_length_le_one_of_unique squares_nodup
      intro a b ha hb' pa pb
      rw [beq_iff_eq] at pa pb
      rw [hu a (mem_squares.1 ha) pa, hu b (mem_squares.1 hb') pb]
    have h2 : 0 < (kingSquares bd c).length := List.length_pos_of_mem (mem_kingSquares.2 ⟨hk, hb⟩)
    omega

/-! ### the walks stay on the board -/

theorem stepToward_lt {s t : Nat} (hs : s < 64) (ht : t < 64) : stepToward s t < 64 := by
  unfold stepToward sq rank file
  simp only []
  split <;> split <;> (try split) <;> (try split) <;> omega

theorem strictlyBetween_go_lt {t : Nat} (ht : t < 64) :
    ∀ (n cur : Nat), cur < 64 → ∀ u, u ∈ strictlyBetween.go t n cur → u < 64 := by
  intro n
  induction n with
  | zero => intro cur _ u hu; simp [strictlyBetween.go] at hu
  | succ n ih =>
    intro cur hcur u hu
    unfold strictlyBetween.go at hu
    simp only [] at hu
    split at hu
    · cases hu
    · rcases List.mem_cons.1 hu with h | h
      · rw [h]; exact stepToward_lt hcur ht
      · exact ih _ (stepToward_lt hcur ht) u h

theorem strictlyBetween_lt {s t : Nat} (hs : s < 64) (ht : t < 64) {u : Nat} (hu : u ∈ strictlyBetween s t) :
    u < 64 := strictlyBetween_go_lt ht 7 s hs u hu

/-! ### congruence: everything reads the board on the 64 squares only -/

/-- two mailboxes agree on the 64 squares. -/
def Agree (bd bd' : Nat → Option Man) : Prop := ∀ s, s < 64 → bd s = bd' s

theorem Agree.symm {bd bd' : Nat → Option Man} (h : Agree bd bd') : Agree bd' bd := fun s hs => (h s hs).symm

theorem pathClear_congr {bd bd' : Nat → Option Man} (h : Agree bd bd') {s t : Nat} (hs : s < 64) (ht : t < 64) :
    pathClear bd s t = pathClear bd' s t := by
  unfold pathClear
  apply all_congr_mem
  intro u hu
  rw [h u (strictlyBetween_lt hs ht hu)]

theorem manAttacks_congr {bd bd' : Nat → Option Man} (h : Agree bd bd') (c : Color) (p : Piece)
    {s t : Nat} (hs : s < 64) (ht : t < 64) : manAttacks bd c p s t = manAttacks bd' c p s t := by
  cases p <;> simp only [manAttacks, pathClear_congr h hs ht]

theorem attacked_congr {bd bd' : Nat → Option Man} (h : Agree bd bd') (c : Color) {t : Nat} (ht : t < 64) :
    attacked bd c t = attacked bd' c t := by
  unfold attacked
  apply any_congr_mem
  intro s hs
  have hs' := mem_squares.1 hs
  rw [h s hs']
  split
  · rw [manAttacks_congr h _ _ hs' ht]
  · rfl

theorem kingSquares_congr {bd bd' : Nat → Option Man} (h : Agree bd bd') (c : Color) :
    kingSquares bd c = kingSquares bd' c := by
  unfold kingSquares
  apply List.filter_congr
  intro s hs
  rw [h s (mem_squares.1 hs)]

theorem inCheckOf_congr {bd bd' : Nat → Option Man} (h : Agree bd bd') (c : Color) :
    inCheckOf bd c = inCheckOf bd' c := by
  unfold inCheckOf
  rw [kingSquares_congr h c]
  apply any_congr_mem
  intro k hk
  exact attacked_congr h _ (mem_kingSquares.1 hk).1

/-! ### the mailbox part of `valid` as a proposition -/

/-- the clauses of `valid` other than bitboard consistency, read propositionally on a `Pos`. -/
structure ValidPos (p : Pos) : Prop where
  king : ∀ c, ∃ k, k < 64 ∧ p.board k = some (c, .king) ∧ ∀ s, s < 64 → p.board s = some (c, .king) → s = k
  nopawn : ∀ s c, s < 64 → p.board s = some (c, .pawn) → rank s ≠ 0 ∧ rank s ≠ 7
  safe : inCheckOf p.board p.turn.other = false
  rights : ∀ c ks, hasRight p.castle c ks = true →
    p.board (kingHome c) = some (c, .king) ∧ p.board (rookHome c ks) = some (c, .rook)
  ep : ∀ e, p.ep = some e →
    e < 64 ∧ rank e = (match p.turn with | .white => 5 | .black => 2) ∧ p.board e = none ∧
    p.board (match p.turn with | .white => e - 8 | .black => e + 8) = some (p.turn.other, .pawn) ∧
    p.board (match p.turn with | .white => e + 8 | .black => e - 8) = none

theorem nopawn_clause_iff (bd : Nat → Option Man) :
    (squares.all fun s => !((rank s == 0 || rank s == 7) &&
        (match bd s with | some (_, .pawn) => true | _ => false))) = true ↔
      ∀ s c, s < 64 → bd s = some (c, .pawn) → rank s ≠ 0 ∧ rank s ≠ 7 := by
  rw [List.all_eq_true]
  constructor
  · intro h s c hs hb
    have := h s (mem_squares.2 hs)
    rw [hb] at this
    simp at this
    exact this
  · intro h s hs
    have hs' := mem_squares.1 hs
    cases hb : bd s with
    | none => simp
    | some x =>
      obtain ⟨c, q⟩ := x
      cases q <;> simp
      have := h s c hs' hb
      exact ⟨this.1, this.2⟩

theorem rights_clause_iff (cs : Castle) (bd : Nat → Option Man) :
    ([Color.white, Color.black].all fun c => [true, false].all fun ks =>
      !hasRight cs c ks || (bd (kingHome c) == some (c, .king) && bd (rookHome c ks) == some (c, .rook))) = true ↔
    ∀ c ks, hasRight cs c ks = true → bd (kingHome c) = some (c, .king) ∧ bd (rookHome c ks) = some (c, .rook) := by
  constructor
  · intro h c ks hr
    simp only [List.all_cons, List.all_nil, Bool.and_true, Bool.and_eq_true, Bool.or_eq_true,
      Bool.not_eq_true', beq_iff_eq] at h
    obtain ⟨⟨h1, h2⟩, h3, h4⟩ := h
    cases c <;> cases ks
    · rcases h2 with h | h
      · rw [h] at hr; cases hr
      · exact h
    · rcases h1 with h | h
      · rw [h] at hr; cases hr
      · exact h
    · rcases h4 with h | h
      · rw [h] at hr; cases hr
      · exact h
    · rcases h3 with h | h
      · rw [h] at hr; cases hr
      · exact h
  · intro h
    simp only [List.all_cons, List.all_nil, Bool.and_true, Bool.and_eq_true, Bool.or_eq_true,
      Bool.not_eq_true', beq_iff_eq]
    have key : ∀ c ks, hasRight cs c ks = false ∨
        (bd (kingHome c) = some (c, .king) ∧ bd (rookHome c ks) = some (c, .rook)) := by
      intro c ks
      cases hr : hasRight cs c ks with
      | false => exact Or.inl rfl
      | true => exact Or.inr (h c ks hr)
    exact ⟨⟨key _ _, key _ _⟩, key _ _, key _ _⟩

theorem ep_clause_iff (p : Pos) :
    (match p.ep with
     | none => true
     | some e =>
       decide (e < 64) && rank e == (match p.turn with | .white => 5 | .black => 2) && (p.board e).isNone &&
       p.board (match p.turn with | .white => e - 8 | .black => e + 8) == some (p.turn.other, .pawn) &&
       (p.board (match p.turn with | .white => e + 8 | .black => e - 8)).isNone) = true ↔
    ∀ e, p.ep = some e →
      e < 64 ∧ rank e = (match p.turn with | .white => 5 | .black => 2) ∧ p.board e = none ∧
      p.board (match p.turn with | .white => e - 8 | .black => e + 8) = some (p.turn.other, .pawn) ∧
      p.board (match p.turn with | .white => e + 8 | .black => e - 8) = none := by
  cases hep : p.ep with
  | none => simp
  | some e =>
    simp only [Bool.and_eq_true, decide_eq_true_eq, beq_iff_eq, Option.isNone_iff_eq_none, Option.some.injEq]
    constructor
    · rintro ⟨⟨⟨⟨h1, h2⟩, h3⟩, h4⟩, h5⟩ e' rfl
      exact ⟨h1, h2, h3, h4, h5⟩
    · intro h
      obtain ⟨h1, h2, h3, h4, h5⟩ := h e rfl
      exact ⟨⟨⟨⟨h1, h2⟩, h3⟩, h4⟩, h5⟩

/-- **`valid` unfolded**: bitboard consistency plus the propositional clauses on the abstraction. -/
theorem valid_iff (b : Board) : valid b = true ↔ consistent b = true ∧ ValidPos (abs b) := by
  unfold valid
  simp only [Bool.and_eq_true, Bool.not_eq_true', beq_iff_eq]
  constructor
  · rintro ⟨⟨⟨⟨⟨⟨h1, h2⟩, h3⟩, h4⟩, h5⟩, h6⟩, h7⟩
    exact ⟨h1, ⟨fun c => by
      cases c
      · exact kingSquares_length_eq_one.1 h2
      · exact kingSquares_length_eq_one.1 h3,
      (nopawn_clause_iff _).1 h4, h5, (rights_clause_iff _ _).1 h6, (ep_clause_iff _).1 h7⟩⟩
  · rintro ⟨h1, ⟨h2, h4, h5, h6, h7⟩⟩
    exact ⟨⟨⟨⟨⟨⟨h1, kingSquares_length_eq_one.2 (h2 .white)⟩, kingSquares_length_eq_one.2 (h2 .black)⟩,
      (nopawn_clause_iff _).2 h4⟩, h5⟩, (rights_clause_iff _ _).2 h6⟩, (ep_clause_iff _).2 h7⟩

/-- validity only depends on the 64 squares of the mailbox. -/
theorem ValidPos.congr {p p' : Pos} (h : ValidPos p) (hb : Agree p.board p'.board) (ht : p.turn = p'.turn)
    (hc : p.castle = p'.castle) (he : p.ep = p'.ep) : ValidPos p' := by
  have hk : ∀ c, kingHome c < 64 := by intro c; cases c <;> decide
  have hr : ∀ c ks, rookHome c ks < 64 := by intro c ks; cases c <;> cases ks <;> decide
  refine ⟨?_, ?_, ?_, ?_, ?_⟩
  · intro c
    obtain ⟨k, h1, h2, h3⟩ := h.king c
    exact ⟨k, h1, by rw [← hb k h1]; exact h2, fun s hs hh => h3 s hs (by rw [hb s hs]; exact hh)⟩
  · intro s c hs hh
    exact h.nopawn s c hs (by rw [hb s hs]; exact hh)
  · rw [← ht, ← inCheckOf_congr hb]; exact h.safe
  · intro c ks hh
    rw [← hc] at hh
    obtain ⟨h1, h2⟩ := h.rights c ks hh
    exact ⟨by rw [← hb _ (hk c)]; exact h1, by rw [← hb _ (hr c ks)]; exact h2⟩
  · intro e hh
    rw [← he] at hh
    obtain ⟨h1, h2, h3, h4, h5⟩ := h.ep e hh
    rw [← ht]
    refine ⟨h1, h2, by rw [← hb e h1]; exact h3, ?_, ?_⟩
    · rw [← hb]; exact h4
      revert h2; unfold rank; cases p.turn <;> simp only [] <;> omega
    · rw [← hb]; exact h5
      revert h2; unfold rank; cases p.turn <;> simp only [] <;> omega

end Flounder.Spec
