/-
  The steps of `Board.makeMove` against the mailbox: castling-rights bookkeeping (`ccr_spec`) and the
  piece shuffles of each move kind as `Rep` transformers.
-/
import Flounder.Model.MakeMove
import Flounder.Lemmas.PlaySpec

open Flounder Flounder.Spec Flounder.Gen

namespace Flounder
def Board.withCastle (b : Board) (cs : Castle) : Board := { b with castle := cs }

@[simp] theorem Board.withCastle_castle (b : Board) (cs : Castle) : (b.withCastle cs).castle = cs := rfl
@[simp] theorem Board.withCastle_withCastle (b : Board) (cs cs' : Castle) :
    (b.withCastle cs).withCastle cs' = b.withCastle cs' := rfl
theorem Board.withCastle_self (b : Board) : b.withCastle b.castle = b := rfl
@[simp] theorem Board.withCastle_getPieceAt (b : Board) (cs : Castle) (s : Nat) :
    (b.withCastle cs).getPieceAt s = b.getPieceAt s := rfl
@[simp] theorem Board.withCastle_active (b : Board) (cs : Castle) : (b.withCastle cs).active = b.active := rfl

theorem hasRight_removeAll (cs : Castle) (c col : Color) (ks : Bool) :
    hasRight (cs.removeAll c) col ks = (hasRight cs col ks && !(col == c)) := by
  cases c <;> cases col <;> cases ks <;> simp [Castle.removeAll, hasRight]

theorem hasRight_removeSide (cs : Castle) (c col : Color) (k ks : Bool) :
    hasRight (cs.removeSide c k) col ks = (hasRight cs col ks && !(col == c && ks == k)) := by
  cases c <;> cases col <;> cases ks <;> cases k <;> simp [Castle.removeSide, hasRight]

theorem castlingAbility_eq (b : Board) (c : Color) :
    b.castlingAbility c = (hasRight b.castle c true, hasRight b.castle c false) := by
  cases c <;> rfl

theorem two_side (b : Board) (c : Color) (onK onQ : Bool) :
    ∃ cs, (let b' := if (onK && hasRight b.castle c true) = true then { b with castle := b.castle.removeSide c true } else b
           if (onQ && hasRight b.castle c false) = true then { b' with castle := b'.castle.removeSide c false } else b')
        = b.withCastle cs ∧
      ∀ col ks, hasRight cs col ks = (hasRight b.castle col ks && !(col == c && (if ks then onK else onQ))) := by
  refine ⟨(let cs1 := if (onK && hasRight b.castle c true) = true then b.castle.removeSide c true else b.castle
           if (onQ && hasRight b.castle c false) = true then cs1.removeSide c false else cs1), ?_, ?_⟩
  · dsimp only
    split <;> split <;> rfl
  · intro col ks
    dsimp only
    cases hK : hasRight b.castle c true <;> cases hQ : hasRight b.castle c false <;> cases onK <;> cases onQ <;>
      simp only [Bool.and_true, Bool.and_false, if_true, if_false,
        Bool.false_eq_true, hasRight_removeSide] <;>
      cases col <;> cases c <;> cases ks <;> simp_all

theorem rcrr_spec (b : Board) (color : Color) (dst : Nat) :
    ∃ cs, b.removeCapturedRookRights color dst = b.withCastle cs ∧
      ∀ col ks, hasRight cs col ks =
        (hasRight b.castle col ks && !(col == color.other && dst == rookHome color.other ks)) := by
  unfold Board.removeCapturedRookRights
  rw [castlingAbility_eq]
  cases color
  · obtain ⟨cs, h1, h2⟩ := two_side b Color.black (dst == H8) (dst == A8)
    refine ⟨cs, h1, ?_⟩
    intro col ks; rw [h2]; cases ks <;> rfl
  · obtain ⟨cs, h1, h2⟩ := two_side b Color.white (dst == H1) (dst == A1)
    refine ⟨cs, h1, ?_⟩
    intro col ks; rw [h2]; cases ks <;> rfl


theorem ccr_spec (b : Board) (m : Move) (capt : Option Piece) (hcapt : b.getPieceAt m.dst = capt)
    (hcap : m.kind = .capture → capt ≠ none) :
    ∃ cs, b.changeCastlingRights m = some (b.withCastle cs) ∧
      ∀ col ks, hasRight cs col ks = (hasRight b.castle col ks &&
        !(col == b.active && m.piece == .king) &&
        !(col == b.active && m.piece == .rook && m.src == rookHome b.active ks) &&
        !(col == b.active.other && (m.kind == .capture || m.kind == .promotion) && capt == some .rook &&
            m.dst == rookHome b.active.other ks)) := by
  unfold Board.changeCastlingRights
  extract_lets color b1 b2 bo
  have hcolor : color = b.active := rfl
  clear_value color
  -- king step
  have h1 : ∃ cs1, b1 = b.withCastle cs1 ∧
      ∀ col ks, hasRight cs1 col ks = (hasRight b.castle col ks && !(col == color && m.piece == .king)) := by
    by_cases hk : m.piece = .king
    · refine ⟨b.castle.removeAll color, by simp only [b1, hk, if_true]; rfl, fun col ks => ?_⟩
      rw [hasRight_removeAll, hk]; simp
    · refine ⟨b.castle, by simp only [b1, hk, if_false]; rfl, fun col ks => ?_⟩
      simp [hk]
  obtain ⟨cs1, e1, r1⟩ := h1
  clear_value b1
  subst e1
  -- rook step
  have h2 : ∃ cs2, b2 = b.withCastle cs2 ∧
      ∀ col ks, hasRight cs2 col ks = (hasRight cs1 col ks &&
        !(col == color && m.piece == .rook && m.src == rookHome color ks)) := by
    by_cases hr : m.piece = .rook
    · simp only [b2, hr, if_true]
      rw [castlingAbility_eq]
      cases color
      · obtain ⟨cs, h1, h2⟩ := two_side (b.withCastle cs1) Color.white (m.src == H1) (m.src == A1)
        refine ⟨cs, h1, ?_⟩
        intro col ks; rw [h2]; cases ks <;> simp [rookHome, H1, A1]
      · obtain ⟨cs, h1, h2⟩ := two_side (b.withCastle cs1) Color.black (m.src == H8) (m.src == A8)
        refine ⟨cs, h1, ?_⟩
        intro col ks; rw [h2]; cases ks <;> simp [rookHome, H8, A8]
    · refine ⟨cs1, by simp only [b2, hr, if_false], fun col ks => ?_⟩
      simp [hr]
  obtain ⟨cs2, e2, r2⟩ := h2
  clear_value b2
  subst e2
  -- capture step
  have h3 : ∃ cs3, bo = some (b.withCastle cs3) ∧
      ∀ col ks, hasRight cs3 col ks = (hasRight cs2 col ks &&
        !(col == color.other && m.kind == .capture && capt == some .rook && m.dst == rookHome color.other ks)) := by
    by_cases hkc : m.kind = .capture
    · simp only [bo, hkc, if_true, Board.withCastle_getPieceAt, hcapt]
      cases capt with
      | none => exact absurd rfl (hcap hkc)
      | some q =>
        by_cases hq : q = .rook
        · subst hq
          obtain ⟨cs, h1, h2⟩ := rcrr_spec (b.withCastle cs2) color m.dst
          refine ⟨cs, by simp only [if_true]; rw [h1]; rfl, fun col ks => ?_⟩
          rw [h2]; simp
        · refine ⟨cs2, by simp only [hq, if_false], fun col ks => ?_⟩
          simp [hq]
    · refine ⟨cs2, by simp only [bo, hkc, if_false], fun col ks => ?_⟩
      simp [hkc]
  obtain ⟨cs3, e3, r3⟩ := h3
  clear_value bo
  subst e3
  -- promotion step
  have h4 : ∃ cs4, (if m.kind = .promotion then
        match (b.withCastle cs3).getPieceAt m.dst with
        | some .rook => some ((b.withCastle cs3).removeCapturedRookRights color m.dst)
        | _ => some (b.withCastle cs3)
      else some (b.withCastle cs3)) = some (b.withCastle cs4) ∧
      ∀ col ks, hasRight cs4 col ks = (hasRight cs3 col ks &&
        !(col == color.other && m.kind == .promotion && capt == some .rook && m.dst == rookHome color.other ks)) := by
    by_cases hkp : m.kind = .promotion
    · simp only [hkp, if_true, Board.withCastle_getPieceAt, hcapt]
      by_cases hq : capt = some .rook
      · subst hq
        obtain ⟨cs, h1, h2⟩ := rcrr_spec (b.withCastle cs3) color m.dst
        refine ⟨cs, by simp only []; rw [h1]; rfl, fun col ks => ?_⟩
        rw [h2]; simp
      · refine ⟨cs3, ?_, fun col ks => ?_⟩
        · cases capt with
          | none => rfl
          | some q => cases q <;> first | rfl | exact absurd rfl hq
        · simp [hq]
    · refine ⟨cs3, by simp only [hkp, if_false], fun col ks => ?_⟩
      simp [hkp]
  obtain ⟨cs4, e4, r4⟩ := h4
  refine ⟨cs4, e4, fun col ks => ?_⟩
  rw [r4, r3, r2, r1, ← hcolor]
  generalize (col == color) = a1
  generalize (col == color.other) = a2
  generalize hasRight b.castle col ks = a3
  generalize (m.piece == Piece.king) = a4
  generalize (m.piece == Piece.rook) = a5
  generalize (m.src == rookHome color ks) = a6
  generalize (m.kind == MoveType.capture) = a7
  generalize (m.kind == MoveType.promotion) = a8
  generalize (capt == some Piece.rook) = a9
  generalize (m.dst == rookHome color.other ks) = a10
  cases a1 <;> cases a2 <;> cases a3 <;> cases a7 <;> cases a8 <;> cases a9 <;> cases a10 <;> simp

theorem castle_ext {a b : Castle} (h : ∀ c ks, hasRight a c ks = hasRight b c ks) : a = b := by
  obtain ⟨a1, a2, a3, a4⟩ := a
  obtain ⟨b1, b2, b3, b4⟩ := b
  have h1 := h .white true
  have h2 := h .white false
  have h3 := h .black true
  have h4 := h .black false
  simp only [hasRight] at h1 h2 h3 h4
  subst h1 h2 h3 h4
  rfl

/-! ### the piece shuffles as `Rep` transformers -/

theorem makeQuiet_rep {b1 : Board} {f0 : Nat → Option Man} (h : Rep b1 f0) {m : Move}
    (hs : m.src < 64) (hd : m.dst < 64) (hsd : m.src ≠ m.dst)
    (hsrc : f0 m.src = some (b1.active, m.piece)) (hdst : f0 m.dst = none) :
    Rep (b1.makeQuiet m)
      (fun t => if t = m.dst then some (b1.active, m.piece) else if t = m.src then none else f0 t) ∧
    (b1.makeQuiet m).active = b1.active ∧ (b1.makeQuiet m).castle = b1.castle ∧
    (b1.makeQuiet m).ep = if b1.isDoublePawnPush m = true then
        some ((m.src : Int) + (match b1.active with | .white => 8 | .black => -8)).toNat else b1.ep := by
  unfold Board.makeQuiet
  extract_lets color offset b2
  have hb2 : Rep b2 f0 := by
    simp only [b2]; split
    · exact ⟨h.cons, h.abs⟩
    · exact h
  have hact : b2.active = b1.active := by simp only [b2]; split <;> rfl
  have hcas : b2.castle = b1.castle := by simp only [b2]; split <;> rfl
  have hep : b2.ep = if b1.isDoublePawnPush m = true then some ((m.src : Int) + offset).toNat else b1.ep := by
    simp only [b2]; split <;> rfl
  clear_value b2
  have r1 := hb2.remove hs hsrc
  have r2 := r1.add (s := m.dst) hd (by simp only [Ne.symm hsd, if_false]; exact hdst) color m.piece
  exact ⟨r2, by simp [hact], by simp [hcas], by simp only [addPiece_ep, removePiece_ep, hep]; rfl⟩

theorem makeCapture_rep {b1 : Board} {f0 : Nat → Option Man} (h : Rep b1 f0) {m : Move}
    (hs : m.src < 64) (hd : m.dst < 64) (hsd : m.src ≠ m.dst)
    (hsrc : f0 m.src = some (b1.active, m.piece)) {q : Piece} (hdst : f0 m.dst = some (b1.active.other, q)) :
    ∃ b2, b1.makeCapture m = some b2 ∧
    Rep b2 (fun t => if t = m.dst then some (b1.active, m.piece) else if t = m.src then none else f0 t) ∧
    b2.active = b1.active ∧ b2.castle = b1.castle ∧ b2.ep = b1.ep := by
  unfold Board.makeCapture
  simp only [h.getPieceAt hd, hdst, Option.map_some]
  refine ⟨_, rfl, ?_, by simp, by simp, by simp⟩
  have r1 := h.remove hd hdst
  have r2 := r1.remove (s := m.src) (c := b1.active) (p := m.piece) hs (by simp only [hsd, if_false]; exact hsrc)
  have r3 := r2.add (s := m.dst) hd (by simp) b1.active m.piece
  refine r3.congr ?_
  intro t _
  by_cases h1 : t = m.dst
  · simp [h1]
  · by_cases h2 : t = m.src
    · simp [h2]
    · simp [h1, h2]

theorem makeEnPassant_rep {b1 : Board} {f0 : Nat → Option Man} (h : Rep b1 f0) {m : Move}
    (hs : m.src < 64) (hd : m.dst < 64) (hc : capSq b1.active m.dst < 64)
    (hsrc : f0 m.src = some (b1.active, .pawn)) (hdst : f0 m.dst = none)
    (hcap : f0 (capSq b1.active m.dst) = some (b1.active.other, .pawn)) :
    Rep (b1.makeEnPassant m)
      (fun t => if t = m.dst then some (b1.active, .pawn) else if t = m.src then none
        else if t = capSq b1.active m.dst then none else f0 t) ∧
    (b1.makeEnPassant m).active = b1.active ∧ (b1.makeEnPassant m).castle = b1.castle ∧
    (b1.makeEnPassant m).ep = b1.ep := by
  unfold Board.makeEnPassant
  extract_lets color offset capturedSq
  have hcs : capturedSq = capSq b1.active m.dst := by
    simp only [capturedSq, offset, color, capSq]
    cases b1.active <;> simp only [] <;> omega
  clear_value capturedSq
  subst hcs
  have hcolor : color = b1.active := rfl
  clear_value color
  subst hcolor
  refine ⟨?_, by simp, by simp, by simp⟩
  have hne : m.src ≠ capSq b1.active m.dst := by
    intro e
    rw [← e, hsrc] at hcap
    have := congrArg Prod.fst (Option.some.inj hcap)
    exact Color.other_ne _ this.symm
  have r1 := h.remove hc hcap
  have r2 := r1.remove (s := m.src) (c := b1.active) (p := .pawn) hs (by simp only [hne, if_false]; exact hsrc)
  have e3 : (fun t => if t = m.src then none else if t = capSq b1.active m.dst then none else f0 t) m.dst = none := by
    show (if m.dst = m.src then none else if m.dst = capSq b1.active m.dst then none else f0 m.dst) = none
    split
    · rfl
    · split
      · rfl
      · exact hdst
  have r3 := r2.add (s := m.dst) hd e3 b1.active .pawn
  refine r3.congr ?_
  intro t _
  by_cases h1 : t = m.dst
  · simp [h1]
  · by_cases h2 : t = m.src
    · simp [h2]
    · simp [h1, h2]

theorem makePromotion_rep {b1 : Board} {f0 : Nat → Option Man} (h : Rep b1 f0) {m : Move}
    (hs : m.src < 64) (hd : m.dst < 64) (hsd : m.src ≠ m.dst)
    (hsrc : f0 m.src = some (b1.active, .pawn))
    (hdst : f0 m.dst = none ∨ ∃ q, f0 m.dst = some (b1.active.other, q)) :
    Rep (b1.makePromotion m)
      (fun t => if t = m.dst then some (b1.active, m.piece) else if t = m.src then none else f0 t) ∧
    (b1.makePromotion m).active = b1.active ∧ (b1.makePromotion m).castle = b1.castle ∧
    (b1.makePromotion m).ep = b1.ep := by
  unfold Board.makePromotion
  extract_lets color b2
  have hcolor : color = b1.active := rfl
  clear_value color
  subst hcolor
  have hb2 : Rep b2 (fun t => if t = m.dst then none else f0 t) ∧ b2.active = b1.active ∧
      b2.castle = b1.castle ∧ b2.ep = b1.ep := by
    rcases hdst with hdst | ⟨q, hdst⟩
    · simp only [b2, h.getPieceAt hd, hdst, Option.map_none]
      refine ⟨h.congr ?_, trivial, trivial, trivial⟩
      intro t _
      by_cases h1 : t = m.dst
      · simp [h1, hdst]
      · simp [h1]
    · simp only [b2, h.getPieceAt hd, hdst, Option.map_some]
      exact ⟨h.remove hd hdst, by simp, by simp, by simp⟩
  clear_value b2
  obtain ⟨r1, a1, a2, a3⟩ := hb2
  refine ⟨?_, by simp [a1], by simp [a2], by simp [a3]⟩
  have r2 := r1.remove (s := m.src) (c := b1.active) (p := .pawn) hs (by simp only [hsd, if_false]; exact hsrc)
  have r3 := r2.add (s := m.dst) hd (by simp) b1.active m.piece
  refine r3.congr ?_
  intro t _
  by_cases h1 : t = m.dst
  · simp [h1]
  · by_cases h2 : t = m.src
    · simp [h2]
    · simp [h1, h2]

theorem castle_chain {b : Board} {f0 : Nat → Option Man} (h : Rep b f0) (c : Color) {ks kd rf rt : Nat}
    (h1 : ks < 64) (h2 : kd < 64) (h3 : rf < 64) (h4 : rt < 64)
    (d1 : kd ≠ ks) (d2 : rf ≠ kd) (d3 : rf ≠ ks) (d4 : rt ≠ rf) (d5 : rt ≠ kd) (d6 : rt ≠ ks)
    (e1 : f0 ks = some (c, .king)) (e2 : f0 kd = none) (e3 : f0 rf = some (c, .rook)) (e4 : f0 rt = none) :
    Rep ((((b.removePiece c .king ks).addPiece c .king kd).removePiece c .rook rf).addPiece c .rook rt)
      (fun t => if t = kd then some (c, .king) else if t = ks then none else if t = rf then none
        else if t = rt then some (c, .rook) else f0 t) := by
  have r1 := h.remove h1 e1
  have r2 := r1.add (s := kd) h2 (by simp only [d1, if_false]; exact e2) c .king
  have r3 := r2.remove (s := rf) (c := c) (p := .rook) h3 (by simp only [d2, d3, if_false]; exact e3)
  have r4 := r3.add (s := rt) h4 (by simp only [d4, d5, d6, if_false]; exact e4) c .rook
  refine r4.congr ?_
  intro t _
  by_cases t1 : t = kd
  · subst t1; simp [d5.symm, d2.symm]
  · by_cases t2 : t = ks
    · subst t2; simp [d6.symm, d3.symm]
    · by_cases t3 : t = rf
      · subst t3; simp [d4.symm, t1, t2]
      · simp [t1, t2, t3]

theorem makeCastle_rep {b1 : Board} {f0 : Nat → Option Man} (h : Rep b1 f0) {m : Move}
    (hsrc : m.src = kingHome b1.active)
    (hdst : m.dst = kingHome b1.active + 2 ∨ m.dst + 2 = kingHome b1.active)
    (e1 : f0 m.src = some (b1.active, .king)) (e2 : f0 m.dst = none)
    (e3 : f0 (rookHome b1.active (file m.dst == 6)) = some (b1.active, .rook))
    (e4 : f0 (rookTo m.dst) = none) :
    Rep (b1.makeCastle m)
      (fun t => if t = m.dst then some (b1.active, .king) else if t = m.src then none
        else if t = rookHome b1.active (file m.dst == 6) then none
        else if t = rookTo m.dst then some (b1.active, .rook) else f0 t) ∧
    (b1.makeCastle m).active = b1.active ∧ (b1.makeCastle m).castle = b1.castle ∧
    (b1.makeCastle m).ep = b1.ep := by
  obtain ⟨src, dst, mp, kind⟩ := m
  simp only [] at hsrc hdst e1 e2 e3 e4 ⊢
  subst hsrc
  unfold Board.makeCastle
  simp only []
  generalize hc : b1.active = c at *
  cases c <;> rcases hdst with hd | hd
  · have hd' : dst = 6 := hd
    subst hd'
    exact ⟨castle_chain h .white (by decide) (by decide) (by decide) (by decide) (by decide) (by decide)
      (by decide) (by decide) (by decide) (by decide) e1 e2 e3 e4, by simp [hc], by simp, by simp⟩
  · have hd' : dst = 2 := by simp only [kingHome] at hd; omega
    subst hd'
    exact ⟨castle_chain h .white (by decide) (by decide) (by decide) (by decide) (by decide) (by decide)
      (by decide) (by decide) (by decide) (by decide) e1 e2 e3 e4, by simp [hc], by simp, by simp⟩
  · have hd' : dst = 62 := hd
    subst hd'
    exact ⟨castle_chain h .black (by decide) (by decide) (by decide) (by decide) (by decide) (by decide)
      (by decide) (by decide) (by decide) (by decide) e1 e2 e3 e4, by simp [hc], by simp, by simp⟩
  · have hd' : dst = 58 := by simp only [kingHome] at hd; omega
    subst hd'
    exact ⟨castle_chain h .black (by decide) (by decide) (by decide) (by decide) (by decide) (by decide)
      (by decide) (by decide) (by decide) (by decide) e1 e2 e3 e4, by simp [hc], by simp, by simp⟩

/-! ### frame: side to move and counters are untouched by every step (no hypotheses) -/

/-- the fields no step of `makeMove` touches before the final flip. -/
def SameFrame (b b' : Board) : Prop :=
  b'.active = b.active ∧ b'.halfmove = b.halfmove ∧ b'.fullmove = b.fullmove

theorem SameFrame.refl (b : Board) : SameFrame b b := ⟨rfl, rfl, rfl⟩

theorem SameFrame.trans {a b c : Board} (h1 : SameFrame a b) (h2 : SameFrame b c) : SameFrame a c :=
  ⟨h2.1.trans h1.1, h2.2.1.trans h1.2.1, h2.2.2.trans h1.2.2⟩

theorem sameFrame_addPiece (b : Board) (c : Color) (p : Piece) (s : Nat) : SameFrame b (b.addPiece c p s) :=
  ⟨by simp, by simp, by simp⟩

theorem sameFrame_removePiece (b : Board) (c : Color) (p : Piece) (s : Nat) : SameFrame b (b.removePiece c p s) :=
  ⟨by simp, by simp, by simp⟩

theorem makeQuiet_frame (b : Board) (m : Move) : SameFrame b (b.makeQuiet m) := by
  unfold Board.makeQuiet
  extract_lets color offset b2
  have h : SameFrame b b2 := by simp only [b2]; split <;> exact ⟨rfl, rfl, rfl⟩
  exact (h.trans (sameFrame_removePiece ..)).trans (sameFrame_addPiece ..)

theorem makeCapture_frame (b : Board) (m : Move) {b2 : Board} (h : b.makeCapture m = some b2) :
    SameFrame b b2 := by
  unfold Board.makeCapture at h
  split at h
  · cases h
  · cases h
    exact ((sameFrame_removePiece ..).trans (sameFrame_removePiece ..)).trans (sameFrame_addPiece ..)

theorem makeEnPassant_frame (b : Board) (m : Move) : SameFrame b (b.makeEnPassant m) := by
  unfold Board.makeEnPassant
  exact ((sameFrame_removePiece ..).trans (sameFrame_removePiece ..)).trans (sameFrame_addPiece ..)

theorem makeCastle_frame (b : Board) (m : Move) : SameFrame b (b.makeCastle m) := by
  unfold Board.makeCastle
  extract_lets color kingSide
  split
  exact (((sameFrame_removePiece ..).trans (sameFrame_addPiece ..)).trans (sameFrame_removePiece ..)).trans
    (sameFrame_addPiece ..)

theorem makePromotion_frame (b : Board) (m : Move) : SameFrame b (b.makePromotion m) := by
  unfold Board.makePromotion
  extract_lets color b2
  have h : SameFrame b b2 := by
    simp only [b2]; split
    · exact sameFrame_removePiece ..
    · exact SameFrame.refl b
  exact (h.trans (sameFrame_removePiece ..)).trans (sameFrame_addPiece ..)

/-- the king and rook steps of `changeCastlingRights` (verbatim copy of the model's first two `let`s). -/
def ccrHead (b : Board) (mv : Move) : Board :=
  let color := b.active
  let b := if mv.piece = .king then { b with castle := b.castle.removeAll color } else b
  if mv.piece = .rook then
    let (ks, qs) := b.castlingAbility color
    let (onK, onQ) := match color with
      | .white => (mv.src == H1, mv.src == A1)
      | .black => (mv.src == H8, mv.src == A8)
    let b := if onK && ks then { b with castle := b.castle.removeSide color true } else b
    if onQ && qs then { b with castle := b.castle.removeSide color false } else b
  else b

/-- the capture and promotion steps (verbatim copy of the rest). -/
def ccrTail (b : Board) (color : Color) (mv : Move) : Option Board :=
  let b? : Option Board :=
    if mv.kind = .capture then
      match b.getPieceAt mv.dst with
      | none => none
      | some captured => if captured = .rook then some (b.removeCapturedRookRights color mv.dst) else some b
    else some b
  match b? with
  | none => none
  | some b =>
    if mv.kind = .promotion then
      match b.getPieceAt mv.dst with
      | some .rook => some (b.removeCapturedRookRights color mv.dst)
      | _ => some b
    else some b

theorem ccr_eq (b : Board) (m : Move) : b.changeCastlingRights m = ccrTail (ccrHead b m) b.active m := rfl

theorem ccrHead_withCastle (b : Board) (m : Move) : ∃ cs, ccrHead b m = b.withCastle cs := by
  unfold ccrHead
  extract_lets color b1
  have hcolor : color = b.active := rfl
  clear_value color
  have h1 : ∃ cs1, b1 = b.withCastle cs1 := by
    simp only [b1]; split
    · exact ⟨_, rfl⟩
    · exact ⟨_, rfl⟩
  obtain ⟨cs1, e1⟩ := h1
  clear_value b1
  subst e1
  split
  · rw [castlingAbility_eq]
    cases color
    · obtain ⟨cs, h1, _⟩ := two_side (b.withCastle cs1) Color.white (m.src == H1) (m.src == A1)
      exact ⟨cs, h1⟩
    · obtain ⟨cs, h1, _⟩ := two_side (b.withCastle cs1) Color.black (m.src == H8) (m.src == A8)
      exact ⟨cs, h1⟩
  · exact ⟨cs1, rfl⟩

theorem ccr_frame (b : Board) (m : Move) {b1 : Board} (h : b.changeCastlingRights m = some b1) :
    SameFrame b b1 ∧ b1.ep = b.ep := by
  by_cases hcap : m.kind = .capture → b.getPieceAt m.dst ≠ none
  · obtain ⟨cs, h1, _⟩ := ccr_spec b m _ rfl hcap
    rw [h1] at h
    cases h
    exact ⟨⟨rfl, rfl, rfl⟩, rfl⟩
  · exfalso
    have hk : m.kind = .capture := Classical.byContradiction fun hk => hcap (fun h => absurd h hk)
    have hn : b.getPieceAt m.dst = none := Classical.byContradiction fun hn => hcap (fun _ => hn)
    obtain ⟨cs, e⟩ := ccrHead_withCastle b m
    rw [ccr_eq, e] at h
    simp only [ccrTail, hk, if_true, Board.withCastle_getPieceAt, hn] at h
    cases h

end Flounder
