/-
  C01 layer L3 (a): semantics of `shiftLeft` / `shiftRight` / `shift` square by square, for the six
  directions the pawn generators use, and the rank / file mask constants as predicates on squares.
-/
import Flounder.Model.Bitboard
import Flounder.Lemmas.Bits

namespace Flounder
open Gen

/-! ### raw shifts -/

theorem toUInt64_mod64_toNat (k : Nat) (hk : k < 64) : (k.toUInt64.toBitVec % 64).toNat = k := by
  simp [Nat.toUInt64]
  omega

/-- `checked_shl`: bit `t` of `bb << k` is bit `t - k` of `bb` (nothing comes in from below). -/
theorem hasSq_shiftLeft (bb : UInt64) (k t : Nat) (hk : k < 64) (ht : t < 64) :
    hasSq (shiftLeft bb k) t = (decide (k ≤ t) && hasSq bb (t - k)) := by
  unfold shiftLeft
  rw [if_pos hk, hasSq_iff _ _ ht, UInt64.toBitVec_shiftLeft, BitVec.shiftLeft_eq', toUInt64_mod64_toNat k hk,
    BitVec.getLsbD_shiftLeft, hasSq_iff _ _ (by omega)]
  by_cases h : k ≤ t
  · have : ¬ t < k := by omega
    simp [h, this, ht]
  · have : t < k := by omega
    simp [h, this]

/-- `checked_shr`: bit `t` of `bb >> k` is bit `t + k` of `bb` (nothing comes in from above). -/
theorem hasSq_shiftRight (bb : UInt64) (k t : Nat) (hk : k < 64) (ht : t < 64) :
    hasSq (shiftRight bb k) t = (decide (t + k < 64) && hasSq bb (t + k)) := by
  unfold shiftRight
  rw [if_pos hk, hasSq_iff _ _ ht, UInt64.toBitVec_shiftRight, BitVec.ushiftRight_eq', toUInt64_mod64_toNat k hk,
    BitVec.getLsbD_ushiftRight]
  by_cases h : t + k < 64
  · rw [hasSq_iff _ _ h, Nat.add_comm]; simp [h]
  · simp [h]
    apply BitVec.getLsbD_of_ge; omega

/-! ### the generated masks as predicates on squares -/

theorem hasSq_FILE_A (s : Nat) (hs : s < 64) : hasSq FILE_A' s = decide (s % 8 = 0) := by
  have : ∀ s : Fin 64, hasSq FILE_A' s.val = decide (s.val % 8 = 0) := by decide +kernel
  exact this ⟨s, hs⟩

theorem hasSq_FILE_H (s : Nat) (hs : s < 64) : hasSq FILE_H' s = decide (s % 8 = 7) := by
  have : ∀ s : Fin 64, hasSq FILE_H' s.val = decide (s.val % 8 = 7) := by decide +kernel
  exact this ⟨s, hs⟩

theorem hasSq_RANK_2 (s : Nat) (hs : s < 64) : hasSq (u64 RANK_2) s = decide (s / 8 = 1) := by
  have : ∀ s : Fin 64, hasSq (u64 RANK_2) s.val = decide (s.val / 8 = 1) := by decide +kernel
  exact this ⟨s, hs⟩

theorem hasSq_RANK_3 (s : Nat) (hs : s < 64) : hasSq (u64 RANK_3) s = decide (s / 8 = 2) := by
  have : ∀ s : Fin 64, hasSq (u64 RANK_3) s.val = decide (s.val / 8 = 2) := by decide +kernel
  exact this ⟨s, hs⟩

theorem hasSq_RANK_6 (s : Nat) (hs : s < 64) : hasSq (u64 RANK_6) s = decide (s / 8 = 5) := by
  have : ∀ s : Fin 64, hasSq (u64 RANK_6) s.val = decide (s.val / 8 = 5) := by decide +kernel
  exact this ⟨s, hs⟩

theorem hasSq_RANK_7 (s : Nat) (hs : s < 64) : hasSq (u64 RANK_7) s = decide (s / 8 = 6) := by
  have : ∀ s : Fin 64, hasSq (u64 RANK_7) s.val = decide (s.val / 8 = 6) := by decide +kernel
  exact this ⟨s, hs⟩

/-! ### `shift` in the six pawn directions (the if-chain of bitboard.rs resolved) -/

theorem shift_N (bb : UInt64) : shift bb NORTH = shiftLeft bb 8 := rfl
theorem shift_S (bb : UInt64) : shift bb SOUTH = shiftRight bb 8 := rfl
theorem shift_NE (bb : UInt64) : shift bb (NORTH + EAST) = shiftLeft (bb &&& ~~~FILE_H') 9 := rfl
theorem shift_NW (bb : UInt64) : shift bb (NORTH + WEST) = shiftLeft (bb &&& ~~~FILE_A') 7 := rfl
theorem shift_SE (bb : UInt64) : shift bb (SOUTH + EAST) = shiftRight (bb &&& ~~~FILE_H') 7 := rfl
theorem shift_SW (bb : UInt64) : shift bb (SOUTH + WEST) = shiftRight (bb &&& ~~~FILE_A') 9 := rfl

/-- north: `t` is hit iff the square below it (`t - 8`) is in the set. -/
theorem hasSq_shift_N (bb : UInt64) (t : Nat) (ht : t < 64) :
    hasSq (shift bb NORTH) t = (decide (8 ≤ t) && hasSq bb (t - 8)) := by
  rw [shift_N, hasSq_shiftLeft _ _ _ (by decide) ht]

/-- south: `t` is hit iff the square above it (`t + 8`) is on the board and in the set. -/
theorem hasSq_shift_S (bb : UInt64) (t : Nat) (ht : t < 64) :
    hasSq (shift bb SOUTH) t = (decide (t + 8 < 64) && hasSq bb (t + 8)) := by
  rw [shift_S, hasSq_shiftRight _ _ _ (by decide) ht]

/-- north-east: from `t - 9`, which must not be on the h-file (no wrap). -/
theorem hasSq_shift_NE (bb : UInt64) (t : Nat) (ht : t < 64) :
    hasSq (shift bb (NORTH + EAST)) t = (decide (9 ≤ t) && (hasSq bb (t - 9) && !decide ((t - 9) % 8 = 7))) := by
  rw [shift_NE, hasSq_shiftLeft _ _ _ (by decide) ht, hasSq_and _ _ _ (by omega), hasSq_not _ _ (by omega),
    hasSq_FILE_H _ (by omega)]

/-- north-west: from `t - 7`, which must not be on the a-file. -/
theorem hasSq_shift_NW (bb : UInt64) (t : Nat) (ht : t < 64) :
    hasSq (shift bb (NORTH + WEST)) t = (decide (7 ≤ t) && (hasSq bb (t - 7) && !decide ((t - 7) % 8 = 0))) := by
  rw [shift_NW, hasSq_shiftLeft _ _ _ (by decide) ht, hasSq_and _ _ _ (by omega), hasSq_not _ _ (by omega),
    hasSq_FILE_A _ (by omega)]

/-- south-east: from `t + 7`, which must be on the board and not on the h-file. -/
theorem hasSq_shift_SE (bb : UInt64) (t : Nat) (ht : t < 64) :
    hasSq (shift bb (SOUTH + EAST)) t =
      (decide (t + 7 < 64) && (hasSq bb (t + 7) && !decide ((t + 7) % 8 = 7))) := by
  rw [shift_SE, hasSq_shiftRight _ _ _ (by decide) ht]
  by_cases h : t + 7 < 64
  · rw [hasSq_and _ _ _ h, hasSq_not _ _ h, hasSq_FILE_H _ h]
  · simp [h]

/-- south-west: from `t + 9`, which must be on the board and not on the a-file. -/
theorem hasSq_shift_SW (bb : UInt64) (t : Nat) (ht : t < 64) :
    hasSq (shift bb (SOUTH + WEST)) t =
      (decide (t + 9 < 64) && (hasSq bb (t + 9) && !decide ((t + 9) % 8 = 0))) := by
  rw [shift_SW, hasSq_shiftRight _ _ _ (by decide) ht]
  by_cases h : t + 9 < 64
  · rw [hasSq_and _ _ _ h, hasSq_not _ _ h, hasSq_FILE_A _ h]
  · simp [h]

/-! ### the same, in "exists a source square" form: `t` is the `d`-neighbour of a member `s`, no file wrap -/

theorem hasSq_shift_N_iff (bb : UInt64) (t : Nat) (ht : t < 64) :
    hasSq (shift bb NORTH) t = true ↔ ∃ s, s < 64 ∧ hasSq bb s = true ∧ t = s + 8 := by
  rw [hasSq_shift_N _ _ ht]
  simp only [Bool.and_eq_true, decide_eq_true_eq]
  constructor
  · rintro ⟨h1, h2⟩; exact ⟨t - 8, by omega, h2, by omega⟩
  · rintro ⟨s, _, h2, rfl⟩; exact ⟨by omega, by simpa using h2⟩

theorem hasSq_shift_S_iff (bb : UInt64) (t : Nat) (ht : t < 64) :
    hasSq (shift bb SOUTH) t = true ↔ ∃ s, s < 64 ∧ hasSq bb s = true ∧ s = t + 8 := by
  rw [hasSq_shift_S _ _ ht]
  simp only [Bool.and_eq_true, decide_eq_true_eq]
  constructor
  · rintro ⟨h1, h2⟩; exact ⟨t + 8, h1, h2, rfl⟩
  · rintro ⟨s, h1, h2, rfl⟩; exact ⟨h1, h2⟩

theorem hasSq_shift_NE_iff (bb : UInt64) (t : Nat) (ht : t < 64) :
    hasSq (shift bb (NORTH + EAST)) t = true ↔ ∃ s, s < 64 ∧ hasSq bb s = true ∧ t = s + 9 ∧ s % 8 ≠ 7 := by
  rw [hasSq_shift_NE _ _ ht]
  simp only [Bool.and_eq_true, decide_eq_true_eq, Bool.not_eq_true', decide_eq_false_iff_not]
  constructor
  · rintro ⟨h1, h2, h3⟩; exact ⟨t - 9, by omega, h2, by omega, h3⟩
  · rintro ⟨s, _, h2, rfl, h3⟩; exact ⟨by omega, by simpa using h2, by simpa using h3⟩

theorem hasSq_shift_NW_iff (bb : UInt64) (t : Nat) (ht : t < 64) :
    hasSq (shift bb (NORTH + WEST)) t = true ↔ ∃ s, s < 64 ∧ hasSq bb s = true ∧ t = s + 7 ∧ s % 8 ≠ 0 := by
  rw [hasSq_shift_NW _ _ ht]
  simp only [Bool.and_eq_true, decide_eq_true_eq, Bool.not_eq_true', decide_eq_false_iff_not]
  constructor
  · rintro ⟨h1, h2, h3⟩; exact ⟨t - 7, by omega, h2, by omega, h3⟩
  · rintro ⟨s, _, h2, rfl, h3⟩; exact ⟨by omega, by simpa using h2, by simpa using h3⟩

theorem hasSq_shift_SE_iff (bb : UInt64) (t : Nat) (ht : t < 64) :
    hasSq (shift bb (SOUTH + EAST)) t = true ↔ ∃ s, s < 64 ∧ hasSq bb s = true ∧ s = t + 7 ∧ s % 8 ≠ 7 := by
  rw [hasSq_shift_SE _ _ ht]
  simp only [Bool.and_eq_true, decide_eq_true_eq, Bool.not_eq_true', decide_eq_false_iff_not]
  constructor
  · rintro ⟨h1, h2, h3⟩; exact ⟨t + 7, h1, h2, rfl, h3⟩
  · rintro ⟨s, h1, h2, rfl, h3⟩; exact ⟨h1, h2, h3⟩

theorem hasSq_shift_SW_iff (bb : UInt64) (t : Nat) (ht : t < 64) :
    hasSq (shift bb (SOUTH + WEST)) t = true ↔ ∃ s, s < 64 ∧ hasSq bb s = true ∧ s = t + 9 ∧ s % 8 ≠ 0 := by
  rw [hasSq_shift_SW _ _ ht]
  simp only [Bool.and_eq_true, decide_eq_true_eq, Bool.not_eq_true', decide_eq_false_iff_not]
  constructor
  · rintro ⟨h1, h2, h3⟩; exact ⟨t + 9, h1, h2, rfl, h3⟩
  · rintro ⟨s, h1, h2, rfl, h3⟩; exact ⟨h1, h2, h3⟩

end Flounder
