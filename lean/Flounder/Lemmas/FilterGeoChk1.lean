/- kernel evaluation of the cheap geometric checkers (see FilterGeoDefs.lean). -/
import Flounder.Lemmas.FilterGeoDefs
namespace Flounder.Spec.NonKing
set_option maxRecDepth 100000 in
theorem chkSymAl_ok : chkSymAl = true := by decide +kernel
set_option maxRecDepth 100000 in
theorem chkPair_ok : chkPair = true := by decide +kernel
set_option maxRecDepth 100000 in
theorem chkLeap_ok : chkLeap = true := by decide +kernel
set_option maxRecDepth 100000 in
theorem chkEp_ok : chkEp = true := by decide +kernel
set_option maxRecDepth 100000 in
theorem chkPush_ok : chkPush = true := by decide +kernel
end Flounder.Spec.NonKing
