/-
  Termination of `search_until_quiet` — interface.

  The quiescence search follows every check, capture and promotion without a depth limit; the model
  therefore carries a fuel parameter and reports `none` when it runs out.  Until now "enough fuel exists"
  was a hypothesis (finiteness of the PLAIN quiescence tree, `Spec.QplainFinite`, which is infinite on a
  perpetual check).  The engine's own recursion is different: a child node is searched with the window
  `(-beta, -max alpha standPat)`, so it returns at its stand-pat test unless the move strictly improved the
  mover's static score.  A rank that decreases along exactly those moves bounds the recursion depth.
-/
import Flounder.Lemmas.SearchSpec

namespace Flounder.Search
open Flounder Gen

variable {P : Type} (G : Game P)

/-- `ρ` is a termination rank for the quiescence search on the invariant `S`:
    `S` is closed under the moves quiescence follows, and every such move that strictly improves the
    static score from the mover's point of view (the only moves after which the child node gets past its
    stand-pat test) strictly decreases `ρ`. -/
structure QRank (S : P → Prop) (ρ : P → Nat) : Prop where
  closed : ∀ p, S p → ∀ m ∈ qList G p, S (G.play p m)
  decreases : ∀ p, S p → ∀ m ∈ qList G p, G.eval p < -(G.eval (G.play p m)) → ρ (G.play p m) < ρ p

/-- `S` is closed under every generated move (what the main search follows). -/
def MovesClosed (S : P → Prop) : Prop := ∀ p, S p → ∀ m ∈ G.moves p, S (G.play p m)

end Flounder.Search
