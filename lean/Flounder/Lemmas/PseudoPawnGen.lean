/-
  C01 layer L3 (b), engine side: what each `extract_*` call of the four pawn generators yields, in the shape
  vocabulary of `PseudoPawnSpec`, hence (on a valid board) exactly the pawn moves of `pseudoGeom`, once each.
-/
import Flounder.Lemmas.PseudoPawnSpec

namespace Flounder.Spec
open Flounder Flounder.MoveGenerator Gen

/-! ### the masks of `PawnDirection` -/

theorem hasSq_rank7 (c : Color) {s : Nat} (hs : s < 64) :
    hasSq (PawnDirection.new c).rank7 s = decide (rank s = preLast c) := by
  cases c
  · exact hasSq_RANK_7 s hs
  · exact hasSq_RANK_2 s hs

theorem hasSq_rank3 (c : Color) {s : Nat} (hs : s < 64) :
    hasSq (PawnDirection.new c).rank3 s = decide (rank s = thirdRank c) := by
  cases c
  · exact hasSq_RANK_3 s hs
  · exact hasSq_RANK_6 s hs

theorem double_src {c : Color} {s u t : Nat} (h1 : pushTo c s u) (h2 : pushTo c u t) :
    (Int.ofNat t - ((PawnDirection.new c).north + (PawnDirection.new c).north)).toNat = s := by
  cases c <;> simp only [pushTo] at h1 h2 <;>
    simp only [PawnDirection.new, NORTH, SOUTH, Int.ofNat_eq_natCast] <;> omega

theorem hasSq_epTarget {b : Board} (hep : ∀ e, b.ep = some e → e < 64) {t : Nat} (ht : t < 64) :
    hasSq (match b.ep with | some s => sqBB s | none => 0) t = true ↔ b.ep = some t := by
  cases h : b.ep with
  | none => simp
  | some e =>
    simp only [Option.some.injEq]
    rw [hasSq_sqBB e t (hep e h) ht, decide_eq_true_eq]

section engine
variable {b : Board} (hb : consistent b = true)
include hb

theorem hasSq_pawns_not7 {s : Nat} (hs : s < 64) :
    hasSq (b.bb b.active .pawn &&& ~~~(PawnDirection.new b.active).rank7) s = true ↔
      absBoard b s = some (b.active, .pawn) ∧ rank s ≠ preLast b.active := by
  rw [hasSq_and _ _ _ hs, hasSq_not _ _ hs, hasSq_rank7 _ hs, Bool.and_eq_true, hasSq_bb hb hs]
  simp

theorem hasSq_pawns_on7 {s : Nat} (hs : s < 64) :
    hasSq (b.bb b.active .pawn &&& (PawnDirection.new b.active).rank7) s = true ↔
      absBoard b s = some (b.active, .pawn) ∧ rank s = preLast b.active := by
  rw [hasSq_and _ _ _ hs, hasSq_rank7 _ hs, Bool.and_eq_true, hasSq_bb hb hs]
  simp

theorem hasSq_bbEmpty_iff {t : Nat} (ht : t < 64) : hasSq b.bbEmpty t = true ↔ absBoard b t = none := by
  rw [hasSq_bbEmpty hb ht, Option.isNone_iff_eq_none]

/-! ### the extracted lists, one by one -/

theorem mem_single_push (m : Move) :
    m ∈ extractPawnMoves (shift (b.bb b.active .pawn &&& ~~~(PawnDirection.new b.active).rank7)
          (PawnDirection.new b.active).north &&& b.bbEmpty) (PawnDirection.new b.active).north .quiet ↔
      IsPush (absBoard b) b.active m := by
  rw [(shiftRel_push b.active).mem_pawnMoves]
  constructor
  · rintro ⟨s, t, hs, ht, hp, he, hr, rfl⟩
    obtain ⟨h1, h2⟩ := (hasSq_pawns_not7 hb hs).1 hp
    exact ⟨s, t, hs, ht, h1, h2, (hasSq_bbEmpty_iff hb ht).1 he, hr, rfl⟩
  · rintro ⟨s, t, hs, ht, h1, h2, he, hr, rfl⟩
    exact ⟨s, t, hs, ht, (hasSq_pawns_not7 hb hs).2 ⟨h1, h2⟩, (hasSq_bbEmpty_iff hb ht).2 he, hr, rfl⟩

theorem mem_double_push (m : Move) :
    m ∈ extractPawnMoves
        (shift ((shift (b.bb b.active .pawn &&& ~~~(PawnDirection.new b.active).rank7)
            (PawnDirection.new b.active).north &&& b.bbEmpty) &&& (PawnDirection.new b.active).rank3)
          (PawnDirection.new b.active).north &&& b.bbEmpty)
        ((PawnDirection.new b.active).north + (PawnDirection.new b.active).north) .quiet ↔
      IsDouble (absBoard b) b.active m := by
  rw [mem_extractPawnMoves]
  have hsh := (shiftRel_push b.active).shift
  constructor
  · rintro ⟨t, ht, hbit, rfl⟩
    rw [hasSq_and _ _ _ ht, Bool.and_eq_true] at hbit
    obtain ⟨hbit, het⟩ := hbit
    obtain ⟨u, hu, hbu, hut⟩ := (hsh _ t ht).1 hbit
    rw [hasSq_and _ _ _ hu, hasSq_and _ _ _ hu, Bool.and_eq_true, Bool.and_eq_true, hasSq_rank3 _ hu,
      decide_eq_true_eq] at hbu
    obtain ⟨⟨hbu, heu⟩, hr3⟩ := hbu
    obtain ⟨s, hs, hp, hsu⟩ := (hsh _ u hu).1 hbu
    obtain ⟨h1, h2⟩ := (hasSq_pawns_not7 hb hs).1 hp
    exact ⟨s, u, t, hs, hu, ht, h1, h2, (hasSq_bbEmpty_iff hb hu).1 heu, hsu, hr3,
      (hasSq_bbEmpty_iff hb ht).1 het, hut, by rw [double_src hsu hut]⟩
  · rintro ⟨s, u, t, hs, hu, ht, h1, h2, heu, hsu, hr3, het, hut, rfl⟩
    refine ⟨t, ht, ?_, by rw [double_src hsu hut]⟩
    rw [hasSq_and _ _ _ ht, Bool.and_eq_true]
    refine ⟨(hsh _ t ht).2 ⟨u, hu, ?_, hut⟩, (hasSq_bbEmpty_iff hb ht).2 het⟩
    rw [hasSq_and _ _ _ hu, hasSq_and _ _ _ hu, Bool.and_eq_true, Bool.and_eq_true, hasSq_rank3 _ hu,
      decide_eq_true_eq]
    exact ⟨⟨(hsh _ u hu).2 ⟨s, hs, (hasSq_pawns_not7 hb hs).2 ⟨h1, h2⟩, hsu⟩, (hasSq_bbEmpty_iff hb hu).2 heu⟩, hr3⟩

theorem mem_capture_dir {off : Int} {R : Nat → Nat → Prop} (h : ShiftRel off R) (m : Move) :
    m ∈ extractPawnMoves (shift (b.bb b.active .pawn &&& ~~~(PawnDirection.new b.active).rank7) off &&&
          b.bbColor b.active.other) off .capture ↔
      IsPawnCap (absBoard b) b.active R m := by
  rw [h.mem_pawnMoves]
  constructor
  · rintro ⟨s, t, hs, ht, hp, he, hr, rfl⟩
    obtain ⟨h1, h2⟩ := (hasSq_pawns_not7 hb hs).1 hp
    exact ⟨s, t, hs, ht, h1, h2, (hasSq_bbColor hb ht).1 he, hr, rfl⟩
  · rintro ⟨s, t, hs, ht, h1, h2, he, hr, rfl⟩
    exact ⟨s, t, hs, ht, (hasSq_pawns_not7 hb hs).2 ⟨h1, h2⟩, (hasSq_bbColor hb ht).2 he, hr, rfl⟩

omit hb in
theorem mem_ep_dir (hb : consistent b = true) (hep : ∀ e, b.ep = some e → e < 64)
    {off : Int} {R : Nat → Nat → Prop} (h : ShiftRel off R) (m : Move) :
    m ∈ extractPawnMoves (shift (b.bb b.active .pawn) off &&&
          (match b.ep with | some s => sqBB s | none => 0)) off .enPassant ↔
      IsEp (absBoard b) b.active b.ep R m := by
  rw [h.mem_pawnMoves]
  constructor
  · rintro ⟨s, t, hs, ht, hp, he, hr, rfl⟩
    exact ⟨s, t, hs, ht, (hasSq_bb hb hs).1 hp, (hasSq_epTarget hep ht).1 he, hr, rfl⟩
  · rintro ⟨s, t, hs, ht, h1, he, hr, rfl⟩
    exact ⟨s, t, hs, ht, (hasSq_bb hb hs).2 h1, (hasSq_epTarget hep ht).2 he, hr, rfl⟩

theorem mem_promo_push (m : Move) :
    m ∈ extractPromotions (shift (b.bb b.active .pawn &&& (PawnDirection.new b.active).rank7)
          (PawnDirection.new b.active).north &&& b.bbEmpty) (PawnDirection.new b.active).north .promotion ↔
      IsPromoPush (absBoard b) b.active m := by
  rw [(shiftRel_push b.active).mem_promotions]
  constructor
  · rintro ⟨s, t, hs, ht, hp, he, hr, q, hq, rfl⟩
    obtain ⟨h1, h2⟩ := (hasSq_pawns_on7 hb hs).1 hp
    exact ⟨s, t, hs, ht, h1, h2, (hasSq_bbEmpty_iff hb ht).1 he, hr, q, hq, rfl⟩
  · rintro ⟨s, t, hs, ht, h1, h2, he, hr, q, hq, rfl⟩
    exact ⟨s, t, hs, ht, (hasSq_pawns_on7 hb hs).2 ⟨h1, h2⟩, (hasSq_bbEmpty_iff hb ht).2 he, hr, q, hq, rfl⟩

theorem mem_promo_dir {off : Int} {R : Nat → Nat → Prop} (h : ShiftRel off R) (m : Move) :
    m ∈ extractPromotions (shift (b.bb b.active .pawn &&& (PawnDirection.new b.active).rank7) off &&&
          b.bbColor b.active.other) off .promotion ↔
      IsPromoCap (absBoard b) b.active R m := by
  rw [h.mem_promotions]
  constructor
  · rintro ⟨s, t, hs, ht, hp, he, hr, q, hq, rfl⟩
    obtain ⟨h1, h2⟩ := (hasSq_pawns_on7 hb hs).1 hp
    exact ⟨s, t, hs, ht, h1, h2, (hasSq_bbColor hb ht).1 he, hr, q, hq, rfl⟩
  · rintro ⟨s, t, hs, ht, h1, h2, he, hr, q, hq, rfl⟩
    exact ⟨s, t, hs, ht, (hasSq_pawns_on7 hb hs).2 ⟨h1, h2⟩, (hasSq_bbColor hb ht).2 he, hr, q, hq, rfl⟩

end engine

/-! ### the shapes exclude one another -/

theorem push_double_disjoint {bd : Nat → Option Man} {c : Color} {m : Move}
    (h1 : IsPush bd c m) (h2 : IsDouble bd c m) : False := by
  obtain ⟨s, t, _, _, _, _, _, hp, rfl⟩ := h1
  obtain ⟨s', u, t', _, _, _, _, _, _, hp1, _, _, hp2, he⟩ := h2
  obtain ⟨rfl, rfl, _⟩ := Move.mk.inj he
  cases c <;> simp only [pushTo] at hp hp1 hp2 <;> omega

theorem pawnCap_disjoint {bd : Nat → Option Man} {c : Color} {m : Move}
    (h1 : IsPawnCap bd c (capWest c) m) (h2 : IsPawnCap bd c (capEast c) m) : False := by
  obtain ⟨s, t, _, _, _, _, _, hw, rfl⟩ := h1
  obtain ⟨s', t', _, _, _, _, _, he, heq⟩ := h2
  obtain ⟨rfl, rfl, _⟩ := Move.mk.inj heq
  exact west_ne_east hw he

theorem ep_disjoint {bd : Nat → Option Man} {c : Color} {ep : Option Nat} {m : Move}
    (h1 : IsEp bd c ep (capWest c) m) (h2 : IsEp bd c ep (capEast c) m) : False := by
  obtain ⟨s, t, _, _, _, _, hw, rfl⟩ := h1
  obtain ⟨s', t', _, _, _, _, he, heq⟩ := h2
  obtain ⟨rfl, rfl, _⟩ := Move.mk.inj heq
  exact west_ne_east hw he

theorem promoPush_cap_disjoint {bd : Nat → Option Man} {c : Color} {m : Move} {R : Nat → Nat → Prop}
    (hR : ∀ s t, pushTo c s t → R s t → False)
    (h1 : IsPromoPush bd c m) (h2 : IsPromoCap bd c R m) : False := by
  obtain ⟨s, t, _, _, _, _, _, hp, q, _, rfl⟩ := h1
  obtain ⟨s', t', _, _, _, _, _, hr, q', _, heq⟩ := h2
  obtain ⟨rfl, rfl, _⟩ := Move.mk.inj heq
  exact hR _ _ hp hr

theorem promoCap_disjoint {bd : Nat → Option Man} {c : Color} {m : Move}
    (h1 : IsPromoCap bd c (capWest c) m) (h2 : IsPromoCap bd c (capEast c) m) : False := by
  obtain ⟨s, t, _, _, _, _, _, hw, q, _, rfl⟩ := h1
  obtain ⟨s', t', _, _, _, _, _, he, q', _, heq⟩ := h2
  obtain ⟨rfl, rfl, _⟩ := Move.mk.inj heq
  exact west_ne_east hw he

/-! ### the four pawn generators -/

theorem generateQuietPawnPushes_eq (b : Board) (pawns : UInt64) (d : PawnDirection) :
    generateQuietPawnPushes b pawns d =
      extractPawnMoves (shift (pawns &&& ~~~d.rank7) d.north &&& b.bbEmpty) d.north .quiet ++
      extractPawnMoves (shift ((shift (pawns &&& ~~~d.rank7) d.north &&& b.bbEmpty) &&& d.rank3) d.north &&& b.bbEmpty)
        (d.north + d.north) .quiet := rfl

theorem generatePawnCaptures_eq (b : Board) (pawns : UInt64) (d : PawnDirection) :
    generatePawnCaptures b pawns d =
      extractPawnMoves (shift (pawns &&& ~~~d.rank7) (d.north + WEST) &&& b.bbColor b.active.other) (d.north + WEST) .capture ++
      extractPawnMoves (shift (pawns &&& ~~~d.rank7) (d.north + EAST) &&& b.bbColor b.active.other) (d.north + EAST) .capture :=
  rfl

theorem generateEnPassants_eq (b : Board) (pawns : UInt64) (d : PawnDirection) :
    generateEnPassants b pawns d =
      extractPawnMoves (shift pawns (d.north + WEST) &&& (match b.ep with | some s => sqBB s | none => 0))
        (d.north + WEST) .enPassant ++
      extractPawnMoves (shift pawns (d.north + EAST) &&& (match b.ep with | some s => sqBB s | none => 0))
        (d.north + EAST) .enPassant := rfl

theorem generatePromotions_eq (b : Board) (pawns : UInt64) (d : PawnDirection) :
    generatePromotions b pawns d =
      extractPromotions (shift (pawns &&& d.rank7) d.north &&& b.bbEmpty) d.north .promotion ++
      extractPromotions (shift (pawns &&& d.rank7) (d.north + WEST) &&& b.bbColor b.active.other) (d.north + WEST) .promotion ++
      extractPromotions (shift (pawns &&& d.rank7) (d.north + EAST) &&& b.bbColor b.active.other) (d.north + EAST) .promotion :=
  rfl

section gens
variable {b : Board} (hv : valid b = true)
include hv

theorem mem_generateQuietPawnPushes (m : Move) :
    m ∈ generateQuietPawnPushes b (b.bb b.active .pawn) (PawnDirection.new b.active) ↔
      pseudoGeom (abs b) m = true ∧ m.kind = .quiet ∧ m.piece = .pawn := by
  obtain ⟨hb, V⟩ := (valid_iff b).1 hv
  rw [pseudoGeom_pawn_quiet V, generateQuietPawnPushes_eq, List.mem_append, mem_single_push hb, mem_double_push hb]
  rfl

theorem nodup_generateQuietPawnPushes :
    (generateQuietPawnPushes b (b.bb b.active .pawn) (PawnDirection.new b.active)).Nodup := by
  obtain ⟨hb, _⟩ := (valid_iff b).1 hv
  rw [generateQuietPawnPushes_eq]
  refine nodup_append_of (nodup_extractPawnMoves ..) (nodup_extractPawnMoves ..) fun m h1 h2 => ?_
  exact push_double_disjoint ((mem_single_push hb m).1 h1) ((mem_double_push hb m).1 h2)

theorem mem_generatePawnCaptures (m : Move) :
    m ∈ generatePawnCaptures b (b.bb b.active .pawn) (PawnDirection.new b.active) ↔
      pseudoGeom (abs b) m = true ∧ m.kind = .capture ∧ m.piece = .pawn := by
  obtain ⟨hb, V⟩ := (valid_iff b).1 hv
  rw [pseudoGeom_pawn_capture, generatePawnCaptures_eq, List.mem_append,
    mem_capture_dir hb (shiftRel_west b.active), mem_capture_dir hb (shiftRel_east b.active)]
  rfl

theorem nodup_generatePawnCaptures :
    (generatePawnCaptures b (b.bb b.active .pawn) (PawnDirection.new b.active)).Nodup := by
  obtain ⟨hb, _⟩ := (valid_iff b).1 hv
  rw [generatePawnCaptures_eq]
  refine nodup_append_of (nodup_extractPawnMoves ..) (nodup_extractPawnMoves ..) fun m h1 h2 => ?_
  exact pawnCap_disjoint ((mem_capture_dir hb (shiftRel_west b.active) m).1 h1)
    ((mem_capture_dir hb (shiftRel_east b.active) m).1 h2)

theorem ep_lt (e : Nat) (h : b.ep = some e) : e < 64 :=
  (((valid_iff b).1 hv).2.ep e h).1

theorem mem_generateEnPassants (m : Move) :
    m ∈ generateEnPassants b (b.bb b.active .pawn) (PawnDirection.new b.active) ↔
      pseudoGeom (abs b) m = true ∧ m.kind = .enPassant := by
  obtain ⟨hb, V⟩ := (valid_iff b).1 hv
  rw [pseudoGeom_enPassant, generateEnPassants_eq, List.mem_append,
    mem_ep_dir hb (ep_lt hv) (shiftRel_west b.active), mem_ep_dir hb (ep_lt hv) (shiftRel_east b.active)]
  rfl

theorem nodup_generateEnPassants :
    (generateEnPassants b (b.bb b.active .pawn) (PawnDirection.new b.active)).Nodup := by
  obtain ⟨hb, _⟩ := (valid_iff b).1 hv
  rw [generateEnPassants_eq]
  refine nodup_append_of (nodup_extractPawnMoves ..) (nodup_extractPawnMoves ..) fun m h1 h2 => ?_
  exact ep_disjoint ((mem_ep_dir hb (ep_lt hv) (shiftRel_west b.active) m).1 h1)
    ((mem_ep_dir hb (ep_lt hv) (shiftRel_east b.active) m).1 h2)

theorem mem_generatePromotions (m : Move) :
    m ∈ generatePromotions b (b.bb b.active .pawn) (PawnDirection.new b.active) ↔
      pseudoGeom (abs b) m = true ∧ m.kind = .promotion := by
  obtain ⟨hb, V⟩ := (valid_iff b).1 hv
  rw [pseudoGeom_promotion V, generatePromotions_eq, List.mem_append, List.mem_append, mem_promo_push hb,
    mem_promo_dir hb (shiftRel_west b.active), mem_promo_dir hb (shiftRel_east b.active), or_assoc]
  rfl

theorem nodup_generatePromotions :
    (generatePromotions b (b.bb b.active .pawn) (PawnDirection.new b.active)).Nodup := by
  obtain ⟨hb, _⟩ := (valid_iff b).1 hv
  rw [generatePromotions_eq]
  refine nodup_append_of (nodup_append_of (nodup_extractPromotions ..) (nodup_extractPromotions ..) ?_)
    (nodup_extractPromotions ..) ?_
  · intro m h1 h2
    exact promoPush_cap_disjoint (fun _ _ => push_ne_west) ((mem_promo_push hb m).1 h1)
      ((mem_promo_dir hb (shiftRel_west b.active) m).1 h2)
  · intro m h1 h2
    have h2' := (mem_promo_dir hb (shiftRel_east b.active) m).1 h2
    rcases List.mem_append.1 h1 with h1 | h1
    · exact promoPush_cap_disjoint (fun _ _ => push_ne_east) ((mem_promo_push hb m).1 h1) h2'
    · exact promoCap_disjoint ((mem_promo_dir hb (shiftRel_west b.active) m).1 h1) h2'

/-- **all pawn moves**: the four pawn generators together. -/
theorem mem_generatePseudoLegalPawnMoves (m : Move) :
    m ∈ generatePseudoLegalPawnMoves b ↔
      pseudoGeom (abs b) m = true ∧
        ((m.kind = .quiet ∧ m.piece = .pawn) ∨ (m.kind = .capture ∧ m.piece = .pawn) ∨
          m.kind = .enPassant ∨ m.kind = .promotion) := by
  show m ∈ generateQuietPawnPushes b (b.bb b.active .pawn) (PawnDirection.new b.active) ++
      generatePawnCaptures b (b.bb b.active .pawn) (PawnDirection.new b.active) ++
      generateEnPassants b (b.bb b.active .pawn) (PawnDirection.new b.active) ++
      generatePromotions b (b.bb b.active .pawn) (PawnDirection.new b.active) ↔ _
  rw [List.mem_append, List.mem_append, List.mem_append, mem_generateQuietPawnPushes hv,
    mem_generatePawnCaptures hv, mem_generateEnPassants hv, mem_generatePromotions hv]
  constructor
  · rintro (((⟨h, hk⟩ | ⟨h, hk⟩) | ⟨h, hk⟩) | ⟨h, hk⟩)
    · exact ⟨h, Or.inl hk⟩
    · exact ⟨h, Or.inr (Or.inl hk)⟩
    · exact ⟨h, Or.inr (Or.inr (Or.inl hk))⟩
    · exact ⟨h, Or.inr (Or.inr (Or.inr hk))⟩
  · rintro ⟨h, hk | hk | hk | hk⟩
    · exact Or.inl (Or.inl (Or.inl ⟨h, hk⟩))
    · exact Or.inl (Or.inl (Or.inr ⟨h, hk⟩))
    · exact Or.inl (Or.inr ⟨h, hk⟩)
    · exact Or.inr ⟨h, hk⟩

theorem nodup_generatePseudoLegalPawnMoves : (generatePseudoLegalPawnMoves b).Nodup := by
  show (generateQuietPawnPushes b (b.bb b.active .pawn) (PawnDirection.new b.active) ++
      generatePawnCaptures b (b.bb b.active .pawn) (PawnDirection.new b.active) ++
      generateEnPassants b (b.bb b.active .pawn) (PawnDirection.new b.active) ++
      generatePromotions b (b.bb b.active .pawn) (PawnDirection.new b.active)).Nodup
  refine nodup_append_of (nodup_append_of (nodup_append_of (nodup_generateQuietPawnPushes hv)
    (nodup_generatePawnCaptures hv) ?_) (nodup_generateEnPassants hv) ?_) (nodup_generatePromotions hv) ?_
  · intro m h1 h2
    have k1 := ((mem_generateQuietPawnPushes hv m).1 h1).2.1
    have k2 := ((mem_generatePawnCaptures hv m).1 h2).2.1
    rw [k1] at k2; cases k2
  · intro m h1 h2
    have k2 := ((mem_generateEnPassants hv m).1 h2).2
    rcases List.mem_append.1 h1 with h1 | h1
    · have k1 := ((mem_generateQuietPawnPushes hv m).1 h1).2.1
      rw [k1] at k2; cases k2
    · have k1 := ((mem_generatePawnCaptures hv m).1 h1).2.1
      rw [k1] at k2; cases k2
  · intro m h1 h2
    have k2 := ((mem_generatePromotions hv m).1 h2).2
    rcases List.mem_append.1 h1 with h1 | h1
    · rcases List.mem_append.1 h1 with h1 | h1
      · have k1 := ((mem_generateQuietPawnPushes hv m).1 h1).2.1
        rw [k1] at k2; cases k2
      · have k1 := ((mem_generatePawnCaptures hv m).1 h1).2.1
        rw [k1] at k2; cases k2
    · have k1 := ((mem_generateEnPassants hv m).1 h1).2
      rw [k1] at k2; cases k2

end gens

end Flounder.Spec
