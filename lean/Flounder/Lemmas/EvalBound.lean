/-
  Bounds on sums of table entries, the table extrema (computed from the generated tables), and the
  convexity of the taper.  Used by Props/C14Bound.lean.
-/
import Flounder.Lemmas.EvalSum

namespace Flounder
open Gen

/-! ### generic list-sum bounds -/

theorem sum_bounds_length (l : List Int) (lo hi : Int) (h : ∀ x ∈ l, lo ≤ x ∧ x ≤ hi) :
    (l.length : Int) * lo ≤ l.sum ∧ l.sum ≤ (l.length : Int) * hi := by
  induction l with
  | nil => simp
  | cons x xs ih =>
    have hx := h x (by simp)
    have := ih (fun y hy => h y (by simp [hy]))
    simp only [List.length_cons, List.sum_cons, Int.natCast_add, Int.add_mul, Int.natCast_one, Int.one_mul]
    omega

/-- at most `n` entries, each in `[lo, hi]` with `lo ≤ 0 ≤ hi`: the sum is in `[n*lo, n*hi]`. -/
theorem sum_bounds_le (l : List Int) (n : Nat) (lo hi : Int) (h : ∀ x ∈ l, lo ≤ x ∧ x ≤ hi)
    (hn : l.length ≤ n) (hlo : lo ≤ 0) (hhi : 0 ≤ hi) :
    (n : Int) * lo ≤ l.sum ∧ l.sum ≤ (n : Int) * hi := by
  have ⟨h1, h2⟩ := sum_bounds_length l lo hi h
  have hn' : (l.length : Int) ≤ (n : Int) := Int.ofNat_le.mpr hn
  have a := Int.mul_le_mul_of_nonpos_right hn' hlo
  have b := Int.mul_le_mul_of_nonneg_right hn' hhi
  omega

/-! ### the taper is a convex combination followed by a truncating division -/

theorem tdiv24_bound (x B : Int) (h1 : -(24 * B) ≤ x) (h2 : x ≤ 24 * B) :
    -B ≤ x.tdiv 24 ∧ x.tdiv 24 ≤ B := by
  by_cases hx : 0 ≤ x
  · rw [Int.tdiv_eq_ediv_of_nonneg hx]; omega
  · have : x = -(-x) := by omega
    rw [this, Int.neg_tdiv, Int.tdiv_eq_ediv_of_nonneg (by omega)]; omega

theorem convex24 (o e op B : Int) (h0 : 0 ≤ op) (h24 : op ≤ 24)
    (ho : -B ≤ o ∧ o ≤ B) (he : -B ≤ e ∧ e ≤ B) :
    -(24 * B) ≤ o * op + e * (24 - op) ∧ o * op + e * (24 - op) ≤ 24 * B := by
  have a1 := Int.mul_le_mul_of_nonneg_right ho.1 h0
  have a2 := Int.mul_le_mul_of_nonneg_right ho.2 h0
  have a3 := Int.mul_le_mul_of_nonneg_right he.1 (show 0 ≤ 24 - op by omega)
  have a4 := Int.mul_le_mul_of_nonneg_right he.2 (show 0 ≤ 24 - op by omega)
  grind

/-- if both accumulators are within `±B` and the phase is non-negative, so is the tapered score. -/
theorem taper_bound (e : Evaluator) (B : Int) (hg : 0 ≤ e.gamephase)
    (ho : -B ≤ e.opening ∧ e.opening ≤ B) (he : -B ≤ e.endgame ∧ e.endgame ≤ B) :
    -B ≤ taper e ∧ taper e ≤ B := by
  unfold taper
  show -B ≤ (e.opening * min e.gamephase 24 + e.endgame * (24 - min e.gamephase 24)).tdiv 24 ∧ _
  have h0 : 0 ≤ min e.gamephase 24 := by omega
  have h24 : min e.gamephase 24 ≤ 24 := by omega
  have := convex24 e.opening e.endgame _ B h0 h24 ho he
  exact tdiv24_bound _ B this.1 this.2

/-! ### table extrema, computed from the generated tables -/

/-- `max 0 (largest entry)`. -/
def listMax0 (l : List Int) : Int := l.foldl max 0
/-- `min 0 (smallest entry)`. -/
def listMin0 (l : List Int) : Int := l.foldl min 0

/-- largest non-king table entry (or 0). -/
def nkMax (T : List (List Int)) : Int := listMax0 (T.take 5).flatten
/-- smallest non-king table entry (or 0). -/
def nkMin (T : List (List Int)) : Int := listMin0 (T.take 5).flatten
/-- largest king table entry. -/
def kMax (T : List (List Int)) : Int :=
  match T.getD 5 [] with | [] => 0 | x :: xs => xs.foldl max x
/-- smallest king table entry. -/
def kMin (T : List (List Int)) : Int :=
  match T.getD 5 [] with | [] => 0 | x :: xs => xs.foldl min x

/-- the table facts the bound needs: every cell is within the computed extrema. -/
def TableOK (T : List (List Int)) : Prop :=
  (∀ i < 5, ∀ sq < 64, nkMin T ≤ pst T i sq ∧ pst T i sq ≤ nkMax T) ∧
  (∀ sq < 64, kMin T ≤ pst T 5 sq ∧ pst T 5 sq ≤ kMax T) ∧
  nkMin T ≤ 0 ∧ 0 ≤ nkMax T

instance (T : List (List Int)) : Decidable (TableOK T) := by unfold TableOK; infer_instance

theorem opening_tableOK : TableOK OPENING_TABLES := by decide +kernel
theorem endgame_tableOK : TableOK ENDGAME_TABLES := by decide +kernel

/-! ### one side's total -/

/-- the table entries one side's men of one piece type contribute. -/
def sideEntries (T : List (List Int)) (b : Board) (c : Color) (p : Piece) : List Int :=
  (squaresOf (b.bb c p)).map (fun s => pst T p.index (pstSquare c 56 s))

theorem sideVal_eq_entries (T : List (List Int)) (b : Board) (c : Color) (p : Piece) :
    sideVal T b c 56 p = (sideEntries T b c p).sum := rfl

theorem sideEntries_length (T : List (List Int)) (b : Board) (c : Color) (p : Piece) :
    (sideEntries T b c p).length = countOnes (b.bb c p) := by
  simp [sideEntries, countOnes]

theorem sideEntries_nk {T : List (List Int)} (hT : TableOK T) (b : Board) (c : Color) (p : Piece)
    (hp : p.index < 5) : ∀ x ∈ sideEntries T b c p, nkMin T ≤ x ∧ x ≤ nkMax T := by
  intro x hx
  simp only [sideEntries, List.mem_map] at hx
  obtain ⟨s, hs, rfl⟩ := hx
  exact hT.1 _ hp _ (pstSquare_lt c (mem_squaresOf_lt hs))

theorem sideEntries_king {T : List (List Int)} (hT : TableOK T) (b : Board) (c : Color) :
    ∀ x ∈ sideEntries T b c .king, kMin T ≤ x ∧ x ≤ kMax T := by
  intro x hx
  simp only [sideEntries, List.mem_map] at hx
  obtain ⟨s, hs, rfl⟩ := hx
  exact hT.2.1 _ (pstSquare_lt c (mem_squaresOf_lt hs))

/-- total table value of one side: the sum over the six piece types. -/
def sideTotal (T : List (List Int)) (b : Board) (c : Color) : Int :=
  (Piece.all.map (sideVal T b c 56)).sum

/-- number of men of one colour (with multiplicity, should bitboards overlap). -/
def menCount (b : Board) (c : Color) : Nat := (Piece.all.map (fun p => countOnes (b.bb c p))).sum

/-- exactly one king and at most 16 men: the side total is within `[15*nkMin + kMin, 15*nkMax + kMax]`. -/
theorem sideTotal_bounds {T : List (List Int)} (hT : TableOK T) (b : Board) (c : Color)
    (hk : countOnes (b.bb c .king) = 1) (hn : menCount b c ≤ 16) :
    15 * nkMin T + kMin T ≤ sideTotal T b c ∧ sideTotal T b c ≤ 15 * nkMax T + kMax T := by
  -- the non-king entries as one list
  let l := sideEntries T b c .pawn ++ sideEntries T b c .knight ++ sideEntries T b c .bishop ++
    sideEntries T b c .rook ++ sideEntries T b c .queen
  have hl : ∀ x ∈ l, nkMin T ≤ x ∧ x ≤ nkMax T := by
    intro x hx
    simp only [l, List.mem_append] at hx
    rcases hx with (((hx | hx) | hx) | hx) | hx
    · exact sideEntries_nk hT b c .pawn (by decide) x hx
    · exact sideEntries_nk hT b c .knight (by decide) x hx
    · exact sideEntries_nk hT b c .bishop (by decide) x hx
    · exact sideEntries_nk hT b c .rook (by decide) x hx
    · exact sideEntries_nk hT b c .queen (by decide) x hx
  have hlen : l.length ≤ 15 := by
    simp only [l, List.length_append, sideEntries_length]
    simp only [menCount, Piece.all, List.map_cons, List.map_nil, List.sum_cons, List.sum_nil] at hn
    omega
  have h1 := sum_bounds_le l 15 _ _ hl hlen hT.2.2.1 hT.2.2.2
  have h2 := sum_bounds_length _ _ _ (sideEntries_king hT b c)
  rw [sideEntries_length, hk] at h2
  have hsum : sideTotal T b c = l.sum + (sideEntries T b c .king).sum := by
    simp only [sideTotal, Piece.all, List.map_cons, List.map_nil, List.sum_cons, List.sum_nil,
      sideVal_eq_entries, l, List.sum_append]
    omega
  simp only [Int.natCast_one, Int.one_mul] at h2
  have e15 : ((15 : Nat) : Int) = 15 := rfl
  rw [e15] at h1
  omega

/-! ### the accumulators as differences of side totals -/

theorem sum_dOpening (b : Board) (c : Color) :
    (Piece.all.map (dOpening b c)).sum = sideTotal OPENING_TABLES b c - sideTotal OPENING_TABLES b c.other := by
  simp only [sideTotal, Piece.all, List.map_cons, List.map_nil, List.sum_cons, List.sum_nil, dOpening,
    FLIP_PLAYER_eq, FLIP_OPP_eq]
  omega

theorem sum_dEndgame (b : Board) (c : Color) :
    (Piece.all.map (dEndgame b c)).sum = sideTotal ENDGAME_TABLES b c - sideTotal ENDGAME_TABLES b c.other := by
  simp only [sideTotal, Piece.all, List.map_cons, List.map_nil, List.sum_cons, List.sum_nil, dEndgame,
    FLIP_PLAYER_eq, FLIP_OPP_eq]
  omega

/-! ### the phase counter is non-negative -/

theorem phaseInc_nonneg (p : Piece) : 0 ≤ PHASE_INCREMENTS.getD p.index 0 := by
  cases p <;> decide

theorem sideCnt_nonneg (b : Board) (c : Color) (p : Piece) : 0 ≤ sideCnt b c p := by
  unfold sideCnt
  have := (sum_bounds_length ((squaresOf (b.bb c p)).map fun _ => PHASE_INCREMENTS.getD p.index 0) 0
    (PHASE_INCREMENTS.getD p.index 0) (by
      intro x hx
      simp only [List.mem_map] at hx
      obtain ⟨_, _, rfl⟩ := hx
      exact ⟨phaseInc_nonneg p, Int.le_refl _⟩)).1
  omega

theorem gamephase_nonneg (b : Board) : 0 ≤ (accumulate b).gamephase := by
  rw [accumulate_gamephase]
  simp only [Piece.all, List.map_cons, List.map_nil, List.sum_cons, List.sum_nil, dPhase]
  have h := fun c p => sideCnt_nonneg b c p
  have := h b.active .pawn; have := h b.active .knight; have := h b.active .bishop
  have := h b.active .rook; have := h b.active .queen; have := h b.active .king
  have := h b.active.other .pawn; have := h b.active.other .knight; have := h b.active.other .bishop
  have := h b.active.other .rook; have := h b.active.other .queen; have := h b.active.other .king
  omega

end Flounder
