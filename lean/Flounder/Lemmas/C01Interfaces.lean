/-
  Interfaces of the C01 development (DESIGN.md C01, layers L2–L7).  Each `def … : Prop` below is the
  statement one layer proves and the others may assume; `Props/C01.lean` assembles them into
  `GenerateMovesExact`.  Nothing here is an axiom: every statement is proved (for every generator whose
  tables satisfy `Spec.LookupExact`) before it is used.
-/
import Flounder.Model.MoveGen
import Flounder.Spec.Geometry
import Flounder.Lemmas.Abs
import Flounder.Lemmas.SpecValid
import Flounder.Lemmas.PlaySpec

namespace Flounder.Spec
open Flounder Flounder.MoveGenerator

/-- the mailbox board with every king of colour `c` lifted off (what `attacks_to` uses as occupancy). -/
def liftKing (bd : Nat → Option Man) (c : Color) : Nat → Option Man :=
  fun s => if bd s = some (c, .king) then none else bd s

/-- L2: `attacks_to(board, t)` is exactly the set of enemy men attacking `t` on the board with the
    mover's king lifted off — for EVERY consistent board (valid or not) and every square. -/
def AttacksToSpec (g : MoveGenerator) : Prop :=
  ∀ (b : Board), consistent b = true → ∀ (t s : Nat), t < 64 → s < 64 →
    hasSq (g.attacksTo b t) s =
      (match absBoard b s with
       | some (c, p) => c == b.active.other && manAttacks (liftKing (absBoard b) b.active) c p s t
       | none => false)

/-- the three "not attacked" conditions of castling (king's square, transit square, target square). -/
def castleSafe (p : Pos) (m : Move) : Bool :=
  m.kind != .castle ||
    (!attacked p.board p.turn.other m.src &&
     !attacked p.board p.turn.other (if m.dst == kingHome p.turn + 2 then m.src + 1 else m.src - 1) &&
     !attacked p.board p.turn.other m.dst)

/-- `pseudo` without the castling attack conditions: what the engine's pseudo-legal generators produce. -/
def pseudoGeom (p : Pos) (m : Move) : Bool :=
  let c := p.turn
  let bd := p.board
  m.src < 64 && m.dst < 64 &&
  match bd m.src with
  | none => false
  | some (c', pc) =>
    c' == c &&
    match m.kind with
    | .castle =>
      m.piece == .king && pc == .king && m.src == kingHome c &&
      (m.dst == kingHome c + 2 || m.dst + 2 == kingHome c) &&
      (let ks := m.dst == kingHome c + 2
       hasRight p.castle c ks && bd (rookHome c ks) == some (c, .rook) && pathClear bd m.src (rookHome c ks))
    | _ => pseudo p m

/-- the mover's king is not attacked after the move. -/
def kingSafeAfter (p : Pos) (m : Move) : Bool := !inCheckOf (play p m).board p.turn

/-- L3: the seven pseudo-legal generators produce exactly the geometrically possible moves, once each. -/
def PseudoExact (g : MoveGenerator) : Prop :=
  ∀ (b : Board), valid b = true →
    (g.pseudoLegalMoves b).Nodup ∧ ∀ m, m ∈ g.pseudoLegalMoves b ↔ pseudoGeom (abs b) m = true

/-- L4–L7: on a valid board, for a geometrically possible move, the engine's legality filter (with the
    pins and checkers of this position) accepts it iff castling is safe and the king is safe afterwards. -/
def FilterExact (g : MoveGenerator) : Prop :=
  ∀ (b : Board), valid b = true → ∀ m, pseudoGeom (abs b) m = true →
    g.isLegal b m (g.attacksTo b (kingSquare b)) (g.getPinnedPieces b (kingSquare b)) (kingSquare b) =
      (castleSafe (abs b) m && kingSafeAfter (abs b) m)

/-- `pseudo` splits into the geometric part and the castling safety part. -/
def PseudoSplit : Prop := ∀ (p : Pos) (m : Move), pseudo p m = (pseudoGeom p m && castleSafe p m)

end Flounder.Spec
