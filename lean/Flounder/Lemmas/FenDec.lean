/-
  A structural decimal printer over `List Char` (the model's `natChars` goes through `toString`, which does
  not reduce in the kernel) and the print/parse round trip for `parseDec`.
-/
import Flounder.Model.Fen

namespace Flounder.Lemmas.FenDec
open Flounder

/-- the character of a decimal digit. -/
def digitChar (d : Nat) : Char := Char.ofNat (48 + d)

theorem digitChar_props : ∀ d, d < 10 →
    (digitChar d).isDigit = true ∧ (digitChar d).toNat - 48 = d ∧ digitChar d ≠ '+' := by decide

/-- most significant digit first; `fuel` > number of digits. -/
def decAux : Nat → Nat → List Char → List Char
  | 0, _, acc => acc
  | f + 1, n, acc => if n < 10 then digitChar n :: acc else decAux f (n / 10) (digitChar (n % 10) :: acc)

/-- **the canonical decimal text of `n`** (no sign, no leading zeros, "0" for zero). -/
def decChars (n : Nat) : List Char := decAux (n + 1) n []

/-- the accumulation step of `parseDec`. -/
def step (acc : Nat) (c : Char) : Nat := acc * 10 + (c.toNat - 48)

theorem foldl_decAux (f n : Nat) (acc : List Char) (h : n < f) :
    (decAux f n acc).foldl step 0 = acc.foldl step n := by
  induction f generalizing n acc with
  | zero => omega
  | succ f ih =>
    unfold decAux
    by_cases hn : n < 10
    · simp only [hn, if_true, List.foldl_cons, step, (digitChar_props n hn).2.1]
      simp
    · simp only [hn, if_false]
      rw [ih (n / 10) _ (by omega)]
      simp only [List.foldl_cons, step, (digitChar_props (n % 10) (Nat.mod_lt _ (by omega))).2.1]
      congr 1; omega

theorem all_decAux (f n : Nat) (acc : List Char) (h : acc.all Char.isDigit = true) :
    (decAux f n acc).all Char.isDigit = true := by
  induction f generalizing n acc with
  | zero => exact h
  | succ f ih =>
    unfold decAux
    by_cases hn : n < 10
    · simp only [hn, if_true, List.all_cons, (digitChar_props n hn).1, h, Bool.and_self]
    · simp only [hn, if_false]
      apply ih
      simp only [List.all_cons, (digitChar_props (n % 10) (Nat.mod_lt _ (by omega))).1, h, Bool.and_self]

theorem head_decAux (f n : Nat) (acc : List Char) :
    ∃ d, d < 10 ∧ ∃ rest, decAux (f + 1) n acc = digitChar d :: rest := by
  induction f generalizing n acc with
  | zero =>
    unfold decAux
    by_cases hn : n < 10
    · exact ⟨n, hn, acc, by simp [hn]⟩
    · exact ⟨n % 10, Nat.mod_lt _ (by omega), acc, by simp [hn, decAux]⟩
  | succ f ih =>
    unfold decAux
    by_cases hn : n < 10
    · exact ⟨n, hn, acc, by simp [hn]⟩
    · simp only [hn, if_false]; exact ih _ _

theorem decChars_head (n : Nat) : ∃ d, d < 10 ∧ ∃ rest, decChars n = digitChar d :: rest := head_decAux n n []

theorem decChars_all (n : Nat) : (decChars n).all Char.isDigit = true := all_decAux _ _ _ rfl

theorem decChars_val (n : Nat) : (decChars n).foldl step 0 = n := by
  unfold decChars; rw [foldl_decAux _ _ _ (by omega)]; rfl

/-- `parseDec` unfolded for a text that does not start with `+`. -/
theorem parseDec_of_head (c : Char) (cs : List Char) (bound : Nat) (hc : c ≠ '+') :
    parseDec (c :: cs) bound =
      if (c :: cs).all Char.isDigit then
        (if (c :: cs).foldl step 0 < bound then some ((c :: cs).foldl step 0) else none)
      else none := by
  unfold parseDec
  split
  · next rest heq => simp only [List.cons.injEq] at heq; exact absurd heq.1 hc
  · rfl

/-- **print then parse**: `parseDec` returns `n` on the canonical decimal text of every `n` below its bound. -/
theorem parseDec_decChars (n bound : Nat) (h : n < bound) : parseDec (decChars n) bound = some n := by
  obtain ⟨d, hd, rest, hr⟩ := decChars_head n
  have ha := decChars_all n
  have hv := decChars_val n
  rw [hr] at ha hv ⊢
  rw [parseDec_of_head _ _ _ (digitChar_props d hd).2.2, ha, hv]
  simp [h]

/-- the body `parseDec` looks at: the text without one leading `+`. -/
def body (s : List Char) : List Char := match s with | '+' :: rest => rest | _ => s

theorem parseDec_eq (s : List Char) (bound : Nat) :
    parseDec s bound =
      if body s = [] then none
      else if (body s).all Char.isDigit then
        (if (body s).foldl step 0 < bound then some ((body s).foldl step 0) else none)
      else none := by
  unfold parseDec
  show (match body s with
    | [] => none
    | _ => if (body s).all Char.isDigit then
        (if (body s).foldl step 0 < bound then some ((body s).foldl step 0) else none) else none) = _
  cases body s with
  | nil => rfl
  | cons c cs => simp only [List.cons_ne_nil, if_false]

/-- **`parseDec` fails only on non-numeric or too-large text**: empty (after an optional `+`), a non-digit,
    or a value ≥ bound. -/
theorem parseDec_eq_none_iff (s : List Char) (bound : Nat) :
    parseDec s bound = none ↔
      body s = [] ∨ (body s).all Char.isDigit = false ∨ bound ≤ (body s).foldl step 0 := by
  rw [parseDec_eq]
  by_cases h1 : body s = []
  · simp [h1]
  · by_cases h2 : (body s).all Char.isDigit = true
    · by_cases h3 : (body s).foldl step 0 < bound
      · rw [if_neg h1, if_pos h2, if_pos h3]
        constructor
        · intro h; cases h
        · rintro (h | h | h)
          · exact absurd h h1
          · rw [h2] at h; cases h
          · omega
      · rw [if_neg h1, if_pos h2, if_neg h3]
        exact ⟨fun _ => Or.inr (Or.inr (by omega)), fun _ => rfl⟩
    · rw [if_neg h1, if_neg h2]
      exact ⟨fun _ => Or.inr (Or.inl (by simpa using h2)), fun _ => rfl⟩

/-- every successfully parsed value is the decimal value of the text and is below the bound. -/
theorem parseDec_some (s : List Char) (bound n : Nat) (h : parseDec s bound = some n) :
    n < bound ∧ n = (body s).foldl step 0 ∧ (body s).all Char.isDigit = true ∧ body s ≠ [] := by
  rw [parseDec_eq] at h
  by_cases h1 : body s = []
  · simp [h1] at h
  · by_cases h2 : (body s).all Char.isDigit = true
    · by_cases h3 : (body s).foldl step 0 < bound
      · simp only [h1, h2, h3, if_true, if_false, Option.some.injEq] at h
        subst h; exact ⟨h3, rfl, h2, h1⟩
      · simp [h1, h2, h3] at h
    · simp [h1, h2] at h

end Flounder.Lemmas.FenDec
