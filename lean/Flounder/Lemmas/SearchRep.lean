/-
  The search never touches the repetition stack except in `searchPosition` (push root / pop):
  `negamax`, `quiesce` and their loops return a state with the same `rep` field.
-/
import Flounder.Model.Search

namespace Flounder.Lemmas.SearchRep
open Flounder Gen

variable {P : Type} (G : Game P)

theorem shouldStop_rep (s : SearchState) : s.shouldStop.2.rep = s.rep := rfl
theorem incrementNodes_rep (s : SearchState) : s.incrementNodes.rep = s.rep := rfl
theorem recordCutoff_rep (s : SearchState) (mv : Move) (d : Nat) : (s.recordCutoff mv d).rep = s.rep := rfl

theorem storeKiller_rep (s : SearchState) (mv : Move) (ply : Nat) : (s.storeKiller mv ply).rep = s.rep := by
  unfold SearchState.storeKiller
  split
  · simp only []
    split <;> rfl
  · rfl

theorem probeTT_rep (s : SearchState) (p : P) (d : Nat) (a b : Int) : (probeTT G s p d a b).2.2.rep = s.rep := by
  unfold probeTT
  simp only []
  repeat' (first | rfl | split)

theorem quiesceLoop_rep (rec : P → Int → Int → SearchState → Option Int × SearchState)
    (hrec : ∀ p a b s, (rec p a b s).2.rep = s.rep) (p : P) (beta : Int) (ms : List Move) (alpha : Int)
    (s : SearchState) : (quiesceLoop G rec p beta ms alpha s).2.rep = s.rep := by
  induction ms generalizing alpha s with
  | nil => rfl
  | cons mv rest ih =>
    simp only [quiesceLoop]
    split
    · rfl
    · have h1 := hrec (G.play p mv) (-beta) (-alpha) s.shouldStop.2
      split
      · next s' heq => rw [heq] at h1; exact h1
      · next v s' heq =>
        rw [heq] at h1
        split
        · exact h1
        · rw [ih]; exact h1

theorem quiesce_rep (fuel : Nat) (p : P) (a b : Int) (s : SearchState) :
    (quiesce G fuel p a b s).2.rep = s.rep := by
  induction fuel generalizing p a b s with
  | zero => rfl
  | succ n ih =>
    simp only [quiesce]
    have hl := fun ms al => quiesceLoop_rep G (quiesce G n) (fun p a b s => ih p a b s) p b ms al s.incrementNodes
    repeat' (first | rfl | exact hl _ _ | split)

theorem negamaxLoop_rep (rec : P → Nat → Int → Int → SearchState → Option SearchResult × SearchState)
    (hrec : ∀ p ply a b s, (rec p ply a b s).2.rep = s.rep) (p : P) (depth ply : Nat) (beta : Int)
    (ms : List Move) (acc : LoopAcc) (s : SearchState) :
    (negamaxLoop G rec p depth ply beta ms acc s).2.rep = s.rep := by
  induction ms generalizing acc s with
  | nil => rfl
  | cons mv rest ih =>
    simp only [negamaxLoop]
    split
    · rfl
    · have h1 := hrec (G.play p mv) (ply + 1) (-beta) (-acc.alpha) s.shouldStop.2
      split
      · next s' heq => rw [heq] at h1; exact h1
      · next r s' heq =>
        rw [heq] at h1
        split
        · simp only
          split
          · rw [recordCutoff_rep, storeKiller_rep]; exact h1
          · exact h1
        · rw [ih]; exact h1

/-- **`negamax` leaves the repetition stack as it found it.** -/
theorem negamax_rep (qfuel : Nat) (d : Nat) (p : P) (ply : Nat) (a b : Int) (s : SearchState) :
    (negamax G qfuel d p ply a b s).2.rep = s.rep := by
  induction d generalizing p ply a b s with
  | zero =>
    unfold negamax
    simp only
    split
    · rfl
    · have hp := probeTT_rep G s.incrementNodes p 0 a b
      split
      · next c m s' heq => rw [heq] at hp; exact hp
      · next m s' heq =>
        rw [heq] at hp
        have hq := quiesce_rep G qfuel p a b s'
        split
        · next s'' h2 => rw [h2] at hq; simp only at hq ⊢; rw [hq]; exact hp
        · next v s'' h2 => rw [h2] at hq; simp only at hq ⊢; rw [hq]; exact hp
  | succ d ih =>
    unfold negamax
    simp only
    split
    · rfl
    · have hp := probeTT_rep G s.incrementNodes p (d + 1) a b
      split
      · next c m s' heq => rw [heq] at hp; exact hp
      · next m s' heq =>
        rw [heq] at hp
        simp only at hp
        split
        · split <;> exact hp
        · next m0 tl hm =>
          have hl := fun ms acc => negamaxLoop_rep G (negamax G qfuel d) (fun p ply a b s => ih p ply a b s)
            p (d + 1) ply b ms acc s'
          split
          · next s'' h2 =>
            have h3 := congrArg (fun r : Option LoopAcc × SearchState => r.2.rep) h2
            simp only at h3; rw [hl] at h3; simp only; rw [← h3]; exact hp
          · next acc s'' h2 =>
            have this := congrArg (fun r : Option LoopAcc × SearchState => r.2.rep) h2
            simp only at this; rw [hl] at this; replace this := this.symm
            split
            · simp only; show s''.shouldStop.2.rep = _; rw [shouldStop_rep, this]; exact hp
            · simp only; show s''.shouldStop.2.rep = _; rw [shouldStop_rep, this]; exact hp

end Flounder.Lemmas.SearchRep
