/-
  The Zobrist hash as a XOR of four independent components (men, castling rights, en-passant square,
  side to move), and how the men component reacts to `addPiece` / `removePiece`.
-/
import Flounder.Lemmas.Xor
import Flounder.Spec.Position

namespace Flounder
open Flounder.Spec

/-- XOR of the keys of all men, in the loop order of the code (colour, piece, square). -/
def menSum (k : ZKeys) (b : Board) : UInt64 :=
  xsum [Color.white, Color.black] fun c =>
    xsum Piece.all fun p => xsum (squaresOf (b.bb c p)) (k.piece c p)

/-- XOR of the keys of the castling rights present. -/
def castleSum (k : ZKeys) (cr : Castle) : UInt64 :=
  (if cr.wk then k.castle .white 0 else 0) ^^^ (if cr.wq then k.castle .white 1 else 0) ^^^
  (if cr.bk then k.castle .black 0 else 0) ^^^ (if cr.bq then k.castle .black 1 else 0)

/-- key of the en-passant component. -/
def epKey (k : ZKeys) : Option Nat → UInt64
  | none => 0
  | some s => k.ep s

/-- key of the side-to-move component. -/
def sideKey (k : ZKeys) (c : Color) : UInt64 := if c = Color.white then k.whiteToMove else 0

theorem hashPieces_eq (k : ZKeys) (b : Board) (h : UInt64) : hashPieces k b h = h ^^^ menSum k b := by
  unfold hashPieces menSum
  simp only [foldl_xor_eq]

theorem hashCastle_eq (k : ZKeys) (b : Board) (h : UInt64) :
    hashCastle k b h = h ^^^ castleSum k b.castle := by
  rcases b with ⟨_, _, _, _, _, _, _, _, _, ⟨_ | _, _ | _, _ | _, _ | _⟩, _, _, _⟩ <;>
    simp [hashCastle, castleSum, Board.castlingAbility, UInt64.xor_assoc]

/-- **The hash is the XOR of its four components.** -/
theorem hash_decomp (k : ZKeys) (b : Board) :
    hash k b = menSum k b ^^^ castleSum k b.castle ^^^ epKey k b.ep ^^^ sideKey k b.active := by
  unfold hash
  simp only [hashPieces_eq, hashCastle_eq, UInt64.zero_xor]
  cases hep : b.ep <;> cases hact : b.active <;> simp [epKey, sideKey]

/-- the men component in the order of the feature list (square, colour, piece). -/
theorem menSum_eq_by_square (k : ZKeys) (b : Board) :
    menSum k b = xsum (List.range 64) fun s => xsum [Color.white, Color.black] fun c =>
      xsum Piece.all fun p => if hasSq (b.bb c p) s then k.piece c p s else 0 := by
  unfold menSum
  rw [xsum_comm (List.range 64) [Color.white, Color.black]
    (fun s c => xsum Piece.all fun p => if hasSq (b.bb c p) s then k.piece c p s else 0)]
  apply xsum_congr; intro c _
  rw [xsum_comm (List.range 64) Piece.all
    (fun s p => if hasSq (b.bb c p) s then k.piece c p s else 0)]
  apply xsum_congr; intro p _
  rw [xsum_squaresOf]

theorem hashSpec_decomp (k : ZKeys) (b : Board) :
    hashSpec k b = menSum k b ^^^ castleSum k b.castle ^^^ epKey k b.ep ^^^ sideKey k b.active := by
  have h0 : hashSpec k b = xsum (features b) (ZKeys.key k) := rfl
  rw [h0, menSum_eq_by_square]
  unfold features
  simp only [xsum_append, xsum_flatMap, xsum_filterMap_ite, ZKeys.key]
  unfold castleSum sideKey
  generalize (xsum (List.range 64) fun s => xsum [Color.white, Color.black] fun c =>
      xsum Piece.all fun p => if hasSq (b.bb c p) s then k.piece c p s else 0) = M
  rcases b with ⟨_, _, _, _, _, _, _, _, act, ⟨_ | _, _ | _, _ | _, _ | _⟩, _ | e, _, _⟩ <;>
    cases act <;> simp [epKey, xsum_cons] <;> ac_rfl

end Flounder
