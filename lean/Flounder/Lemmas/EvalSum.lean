/-
  The evaluation accumulators in closed "sum" form.  `sideSums` is three left folds of `+`; here each is rewritten
  as a `List.sum`, and `accumulate` as a sum over the six piece types.  All later C14 proofs (antisymmetry, mirror,
  bound, no-overflow) work on this form.
-/
import Flounder.Model.Eval

namespace Flounder
open Gen

/-- a left fold of `+ f x` is the initial value plus the sum of the mapped list. -/
theorem foldl_add_eq_sum {α : Type} (f : α → Int) (l : List α) (a : Int) :
    l.foldl (fun acc x => acc + f x) a = a + (l.map f).sum := by
  induction l generalizing a with
  | nil => simp
  | cons x xs ih => simp only [List.foldl_cons, ih, List.map_cons, List.sum_cons]; omega

/-- sums of `Int` lists are permutation invariant. -/
theorem perm_sum_int {l₁ l₂ : List Int} (h : l₁.Perm l₂) : l₁.sum = l₂.sum := by
  induction h with
  | nil => rfl
  | cons x _ ih => simp [ih]
  | swap x y l => simp only [List.sum_cons]; omega
  | trans _ _ ih₁ ih₂ => exact ih₁.trans ih₂

/-- table contribution of one side's men of one piece type: `Σ_{bit ∈ bb} T[piece][pstSquare bit]`. -/
def sideVal (T : List (List Int)) (b : Board) (c : Color) (flip : Nat) (p : Piece) : Int :=
  ((squaresOf (b.bb c p)).map (fun s => pst T p.index (pstSquare c flip s))).sum

/-- phase contribution of one side's men of one piece type: `count * phase_inc`. -/
def sideCnt (b : Board) (c : Color) (p : Piece) : Int :=
  ((squaresOf (b.bb c p)).map (fun _ => PHASE_INCREMENTS.getD p.index 0)).sum

theorem sideSums_eq (b : Board) (c : Color) (flip : Nat) (p : Piece) :
    sideSums b c flip p =
      (sideVal OPENING_TABLES b c flip p, sideVal ENDGAME_TABLES b c flip p, sideCnt b c p) := by
  simp only [sideSums, sideVal, sideCnt, foldl_add_eq_sum, List.map_map, Int.zero_add]
  rfl

/-- per-piece increments of the three accumulators. -/
def dOpening (b : Board) (c : Color) (p : Piece) : Int :=
  sideVal OPENING_TABLES b c FLIP_PLAYER p - sideVal OPENING_TABLES b c.other FLIP_OPP p
def dEndgame (b : Board) (c : Color) (p : Piece) : Int :=
  sideVal ENDGAME_TABLES b c FLIP_PLAYER p - sideVal ENDGAME_TABLES b c.other FLIP_OPP p
def dPhase (b : Board) (c : Color) (p : Piece) : Int :=
  sideCnt b c p + sideCnt b c.other p

theorem evalPieceType_eq (e : Evaluator) (c : Color) (p : Piece) (b : Board) :
    evalPieceType e c p b =
      { opening := e.opening + dOpening b c p, endgame := e.endgame + dEndgame b c p,
        gamephase := e.gamephase + dPhase b c p } := by
  simp only [evalPieceType, sideSums_eq, dOpening, dEndgame, dPhase]

theorem foldl_evalPieceType (b : Board) (c : Color) (l : List Piece) (e : Evaluator) :
    l.foldl (fun e p => evalPieceType e c p b) e =
      { opening := e.opening + (l.map (dOpening b c)).sum,
        endgame := e.endgame + (l.map (dEndgame b c)).sum,
        gamephase := e.gamephase + (l.map (dPhase b c)).sum } := by
  induction l generalizing e with
  | nil => simp
  | cons p ps ih =>
    rw [List.foldl_cons, ih, evalPieceType_eq]
    simp only [List.map_cons, List.sum_cons, Int.add_assoc]

/-- `accumulate` in closed form. -/
theorem accumulate_eq (b : Board) :
    accumulate b =
      { opening := (Piece.all.map (dOpening b b.active)).sum,
        endgame := (Piece.all.map (dEndgame b b.active)).sum,
        gamephase := (Piece.all.map (dPhase b b.active)).sum } := by
  simp only [accumulate, foldl_evalPieceType, Int.zero_add]

theorem accumulate_opening (b : Board) :
    (accumulate b).opening = (Piece.all.map (dOpening b b.active)).sum := by rw [accumulate_eq]
theorem accumulate_endgame (b : Board) :
    (accumulate b).endgame = (Piece.all.map (dEndgame b b.active)).sum := by rw [accumulate_eq]
theorem accumulate_gamephase (b : Board) :
    (accumulate b).gamephase = (Piece.all.map (dPhase b b.active)).sum := by rw [accumulate_eq]

/-- every square produced by the bitboard iterator is on the board. -/
theorem mem_squaresOf_lt {bb : UInt64} {s : Nat} (h : s ∈ squaresOf bb) : s < 64 := by
  simp only [squaresOf, List.mem_filter, List.mem_range] at h; exact h.1

theorem mem_squaresOf {bb : UInt64} {s : Nat} : s ∈ squaresOf bb ↔ s < 64 ∧ hasSq bb s = true := by
  simp only [squaresOf, List.mem_filter, List.mem_range]

/-- a bitboard has at most 64 squares. -/
theorem squaresOf_length_le (bb : UInt64) : (squaresOf bb).length ≤ 64 := by
  unfold squaresOf
  exact Nat.le_trans (List.length_filter_le _ _) (by simp)

/-- the two `^ 56` literals of eval.rs (generated constants). -/
theorem FLIP_PLAYER_eq : FLIP_PLAYER = 56 := by decide
theorem FLIP_OPP_eq : FLIP_OPP = 56 := by decide

theorem xor56_lt {s : Nat} (h : s < 64) : s ^^^ 56 < 64 :=
  Nat.xor_lt_two_pow (n := 6) h (by decide)

theorem pstSquare_lt (c : Color) {s : Nat} (h : s < 64) : pstSquare c 56 s < 64 := by
  unfold pstSquare; split
  · exact xor56_lt h
  · exact h

end Flounder
