/-
  `Spec.legalMoves` lists every legal move: a pseudo-legal move is one of the `candidates`, so
  "the list of legal moves is empty" is "no move is legal", and `Spec.isMate` / `Spec.isStalemate` can be read
  with a plain quantifier over moves.
-/
import Flounder.Lemmas.PlaySpec

namespace Flounder.Spec
open Flounder

theorem mem_candidates_of {p : Pos} {s d : Nat} {pc : Piece} (hs : s < 64) (hd : d < 64)
    (hsrc : p.board s = some (p.turn, pc)) {m : Move}
    (hm : m ∈ (if pc == .pawn then
            [⟨s, d, .pawn, .quiet⟩, ⟨s, d, .pawn, .capture⟩, ⟨s, d, .pawn, .enPassant⟩] ++
            Piece.promotions.map fun q => (⟨s, d, q, .promotion⟩ : Move)
          else if pc == .king then
            [⟨s, d, .king, .quiet⟩, ⟨s, d, .king, .capture⟩, ⟨s, d, .king, .castle⟩]
          else [⟨s, d, pc, .quiet⟩, ⟨s, d, pc, .capture⟩])) :
    m ∈ candidates p := by
  unfold candidates
  rw [List.mem_flatMap]
  refine ⟨s, mem_squares.2 hs, ?_⟩
  rw [hsrc]
  simp only [beq_self_eq_true, if_true]
  rw [List.mem_flatMap]
  exact ⟨d, mem_squares.2 hd, hm⟩

/-- every pseudo-legal move is a candidate. -/
theorem pseudo_mem_candidates {p : Pos} {m : Move} (h : pseudo p m = true) : m ∈ candidates p := by
  obtain ⟨s, d, mp, kind⟩ := m
  cases kind
  · obtain ⟨hs, hd, hsrc, _⟩ := pseudo_quiet h
    apply mem_candidates_of hs hd hsrc
    cases mp <;> simp
  · obtain ⟨hs, hd, hsrc, _⟩ := pseudo_capture h
    apply mem_candidates_of hs hd hsrc
    cases mp <;> simp
  · obtain ⟨hs, hd, hpc, hsrc, _⟩ := pseudo_enPassant h
    subst hpc
    apply mem_candidates_of hs hd hsrc
    simp
  · obtain ⟨hs, hd, hpc, hsrc, _⟩ := pseudo_castle h
    subst hpc
    apply mem_candidates_of hs hd hsrc
    simp
  · obtain ⟨hs, hd, hsrc, _, hq, _⟩ := pseudo_promotion h
    apply mem_candidates_of hs hd hsrc
    rcases hq with rfl | rfl | rfl | rfl <;> simp [Piece.promotions]

/-- the list of legal moves contains exactly the legal moves. -/
theorem mem_legalMoves {p : Pos} {m : Move} : m ∈ legalMoves p ↔ legal p m = true := by
  unfold legalMoves
  rw [List.mem_filter]
  constructor
  · exact fun h => h.2
  · intro h
    have hp : pseudo p m = true := by
      unfold legal at h
      simp only [Bool.and_eq_true] at h
      exact h.1
    exact ⟨pseudo_mem_candidates hp, h⟩

theorem legalMoves_isEmpty_iff (p : Pos) : (legalMoves p).isEmpty = true ↔ ∀ m, legal p m = false := by
  rw [List.isEmpty_iff]
  constructor
  · intro h m
    cases hl : legal p m with
    | false => rfl
    | true =>
      have := mem_legalMoves.2 hl
      rw [h] at this
      cases this
  · intro h
    cases hm : legalMoves p with
    | nil => rfl
    | cons a l =>
      have : a ∈ legalMoves p := by rw [hm]; exact List.mem_cons_self
      have := mem_legalMoves.1 this
      rw [h a] at this
      cases this

/-- **mate**: in check and no legal move. -/
theorem isMate_iff (p : Pos) : isMate p = true ↔ inCheck p = true ∧ ∀ m, legal p m = false := by
  unfold isMate
  rw [Bool.and_eq_true, legalMoves_isEmpty_iff]

/-- **stalemate**: not in check and no legal move. -/
theorem isStalemate_iff (p : Pos) : isStalemate p = true ↔ inCheck p = false ∧ ∀ m, legal p m = false := by
  unfold isStalemate
  rw [Bool.and_eq_true, legalMoves_isEmpty_iff, Bool.not_eq_true']

/-- no legal move: mate or stalemate. -/
theorem no_legal_iff_mate_or_stalemate (p : Pos) :
    (∀ m, legal p m = false) ↔ (isMate p = true ∨ isStalemate p = true) := by
  rw [isMate_iff, isStalemate_iff]
  cases inCheck p <;> simp

end Flounder.Spec
