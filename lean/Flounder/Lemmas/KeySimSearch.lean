/-
  C13 helpers, part 2: the simulation through `negamaxLoop`, `negamax`, `searchPosition`, `iterate` and
  `findBestMove`.  Two runs of the search that differ only in the hash function, both collision-free on the
  positions within the search horizon, take the same branch everywhere: equal results (scores, moves, the
  `info` lines with their node counts) for EVERY limit and every fuel outcome, and related final states.
-/
import Flounder.Lemmas.KeySim

namespace Flounder.KeySim
open Flounder Gen Flounder.Search

variable {P : Type}

section sim
variable {G₁ G₂ : Game P} {U : P → Prop}

/-- "same answer, related states". -/
def RelRes {α : Type} (G₁ G₂ : Game P) (U : P → Prop) (x₁ x₂ : α × SearchState) : Prop :=
  x₁.1 = x₂.1 ∧ Sim G₁ G₂ U x₁.2 x₂.2

theorem negamaxLoop_sim
    (rec₁ rec₂ : P → Nat → Int → Int → SearchState → Option SearchResult × SearchState)
    (p : P) (depth ply : Nat) (β : Int) :
    ∀ (ms : List Move),
      (∀ mv ∈ ms, ∀ ply a b s₁ s₂, Sim G₁ G₂ U s₁ s₂ →
        RelRes G₁ G₂ U (rec₁ (G₁.play p mv) ply a b s₁) (rec₂ (G₂.play p mv) ply a b s₂)) →
      ∀ (acc : LoopAcc) (s₁ s₂ : SearchState), Sim G₁ G₂ U s₁ s₂ →
        RelRes G₁ G₂ U (negamaxLoop G₁ rec₁ p depth ply β ms acc s₁) (negamaxLoop G₂ rec₂ p depth ply β ms acc s₂) := by
  intro ms
  induction ms with
  | nil => intro _ acc s₁ s₂ h; exact ⟨rfl, h⟩
  | cons mv rest ih =>
    intro hrec acc s₁ s₂ h
    rw [negamaxLoop_cons, negamaxLoop_cons, h.stopFlag]
    by_cases hs : stopFlag s₂ = true
    · rw [if_pos hs, if_pos hs]; exact ⟨rfl, h.polled⟩
    · rw [if_neg hs, if_neg hs]
      have hr := hrec mv (List.mem_cons_self ..) (ply + 1) (-β) (-acc.alpha) _ _ h.polled
      rcases e₁ : rec₁ (G₁.play p mv) (ply + 1) (-β) (-acc.alpha) (polled s₁) with ⟨ro₁, t₁⟩
      rcases e₂ : rec₂ (G₂.play p mv) (ply + 1) (-β) (-acc.alpha) (polled s₂) with ⟨ro₂, t₂⟩
      rw [e₁, e₂] at hr
      obtain ⟨hr1, hr2⟩ := hr
      simp only at hr1 hr2
      subst hr1
      cases ro₁ with
      | none => exact ⟨rfl, hr2⟩
      | some r =>
        simp only
        by_cases hc : max acc.alpha (-r.score) ≥ β
        · rw [if_pos hc, if_pos hc]
          refine ⟨rfl, ?_⟩
          simp only
          by_cases hq : mv.kind = .quiet
          · rw [if_pos hq, if_pos hq]; exact (hr2.storeKiller mv ply).recordCutoff mv depth
          · rw [if_neg hq, if_neg hq]; exact hr2
        · rw [if_neg hc, if_neg hc]
          exact ih (fun mv' hm => hrec mv' (List.mem_cons_of_mem _ hm)) _ _ _ hr2

theorem finishNode_sim (hc : SameCollisions G₁ G₂ U) {p : P} (hp : U p) (d1 : Nat) (α β : Int)
    (acc : LoopAcc) {s₁ s₂ : SearchState} (h : Sim G₁ G₂ U s₁ s₂) :
    RelRes G₁ G₂ U (finishNode G₁ p d1 α β acc s₁) (finishNode G₂ p d1 α β acc s₂) := by
  unfold finishNode
  rw [h.stopFlag]
  by_cases hs : stopFlag s₂ = true
  · rw [if_pos hs, if_pos hs]; exact ⟨rfl, h.polled⟩
  · rw [if_neg hs, if_neg hs]
    exact ⟨rfl, h.polled.store hc hp _ _ _ _⟩

theorem leafResult_sim (hR : SameRules G₁ G₂) (qfuel : Nat) (p : P) (α β : Int) {s₁ s₂ : SearchState}
    (h : Sim G₁ G₂ U s₁ s₂) :
    RelRes G₁ G₂ U (leafResult G₁ qfuel p α β s₁) (leafResult G₂ qfuel p α β s₂) := by
  unfold leafResult
  have hq := quiesce_sim hR h qfuel p α β
  rcases e₁ : quiesce G₁ qfuel p α β s₁ with ⟨ro₁, t₁⟩
  rcases e₂ : quiesce G₂ qfuel p α β s₂ with ⟨ro₂, t₂⟩
  rw [e₁, e₂] at hq
  obtain ⟨hq1, hq2⟩ := hq
  simp only at hq1 hq2
  subst hq1
  cases ro₁ with
  | none => exact ⟨rfl, hq2⟩
  | some v => exact ⟨rfl, hq2⟩

theorem innerResult_sim (hR : SameRules G₁ G₂) (hc : SameCollisions G₁ G₂ U)
    (rec₁ rec₂ : P → Nat → Int → Int → SearchState → Option SearchResult × SearchState)
    (d : Nat) {p : P} (hp : U p)
    (hrec : ∀ mv ∈ G₁.moves p, ∀ ply a b s₁ s₂, Sim G₁ G₂ U s₁ s₂ →
        RelRes G₁ G₂ U (rec₁ (G₁.play p mv) ply a b s₁) (rec₂ (G₂.play p mv) ply a b s₂))
    (ply : Nat) (α β : Int) (ttMove : Option Move) {s₁ s₂ : SearchState} (h : Sim G₁ G₂ U s₁ s₂) :
    RelRes G₁ G₂ U (innerResult G₁ rec₁ d p ply α β ttMove s₁) (innerResult G₂ rec₂ d p ply α β ttMove s₂) := by
  cases hm : G₁.moves p with
  | nil =>
    have hm2 : G₂.moves p = [] := by rw [← hR.moves]; exact hm
    rw [innerResult_nil G₁ _ _ _ _ _ _ _ _ hm, innerResult_nil G₂ _ _ _ _ _ _ _ _ hm2, hR.inCheck]
    by_cases hc : G₂.inCheck p = true
    · rw [if_pos hc, if_pos hc]; exact ⟨rfl, h⟩
    · rw [if_neg hc, if_neg hc]; exact ⟨rfl, h⟩
  | cons m0 tl =>
    have hm2 : G₂.moves p = m0 :: tl := by rw [← hR.moves]; exact hm
    rw [innerResult_cons G₁ _ _ _ _ _ _ _ _ m0 tl hm, innerResult_cons G₂ _ _ _ _ _ _ _ _ m0 tl hm2]
    have ho : orderMoves G₁ s₁ p (G₁.moves p) ttMove ply = orderMoves G₂ s₂ p (G₂.moves p) ttMove ply := by
      rw [hR.moves]; exact orderMoves_congr hR h.killers h.history p _ ttMove ply
    rw [ho]
    have hl := negamaxLoop_sim (U := U) rec₁ rec₂ p (d + 1) ply β
      (orderMoves G₂ s₂ p (G₂.moves p) ttMove ply)
      (fun mv hmv => hrec mv (by
        rw [hR.moves]
        exact (orderMoves_perm G₂ s₂ p (G₂.moves p) ttMove ply).mem_iff.1 hmv))
      ⟨α, ⟨NEGATIVE_INFINITY, some ((orderMoves G₂ s₂ p (G₂.moves p) ttMove ply).headD m0)⟩⟩ s₁ s₂ h
    rcases e₁ : negamaxLoop G₁ rec₁ p (d + 1) ply β (orderMoves G₂ s₂ p (G₂.moves p) ttMove ply)
      ⟨α, ⟨NEGATIVE_INFINITY, some ((orderMoves G₂ s₂ p (G₂.moves p) ttMove ply).headD m0)⟩⟩ s₁ with ⟨ro₁, t₁⟩
    rcases e₂ : negamaxLoop G₂ rec₂ p (d + 1) ply β (orderMoves G₂ s₂ p (G₂.moves p) ttMove ply)
      ⟨α, ⟨NEGATIVE_INFINITY, some ((orderMoves G₂ s₂ p (G₂.moves p) ttMove ply).headD m0)⟩⟩ s₂ with ⟨ro₂, t₂⟩
    rw [e₁, e₂] at hl
    obtain ⟨hl1, hl2⟩ := hl
    simp only at hl1 hl2
    subst hl1
    cases ro₁ with
    | none => exact ⟨rfl, hl2⟩
    | some acc => exact finishNode_sim hc hp (d + 1) α β acc hl2

/-- the node-level simulation: a `negamax` call on a position of the family, in related states. -/
theorem negamax_sim (hR : SameRules G₁ G₂) {S : Nat → P → Prop} (hS : Ranked G₁ S)
    (hU : ∀ d p, S d p → U p) (hc : SameCollisions G₁ G₂ U) (qfuel : Nat) :
    ∀ (d : Nat) (p : P) (ply : Nat) (α β : Int) (s₁ s₂ : SearchState), S d p →
      Sim G₁ G₂ U s₁ s₂ →
      RelRes G₁ G₂ U (negamax G₁ qfuel d p ply α β s₁) (negamax G₂ qfuel d p ply α β s₂) := by
  intro d
  induction d with
  | zero =>
    intro p ply α β s₁ s₂ hp h
    have hUp : U p := hU 0 p hp
    rw [negamax_zero, negamax_zero, h.incrementNodes.rep.isRepetition hc hUp]
    by_cases hcond : (decide (ply > 0) && s₂.incrementNodes.isRepetition (G₂.hash p)) = true
    · rw [if_pos hcond, if_pos hcond]; exact ⟨rfl, h.incrementNodes⟩
    · rw [if_neg hcond, if_neg hcond]
      have hpr := probeTT_sim h.incrementNodes hUp 0 α β
      rcases e₁ : probeTT G₁ s₁.incrementNodes p 0 α β with ⟨c₁, m₁, t₁⟩
      rcases e₂ : probeTT G₂ s₂.incrementNodes p 0 α β with ⟨c₂, m₂, t₂⟩
      rw [e₁, e₂] at hpr
      obtain ⟨hc1, hm1, hs1⟩ := hpr
      simp only at hc1 hm1 hs1
      subst hc1 hm1
      cases c₁ with
      | some r => exact ⟨rfl, hs1⟩
      | none => exact leafResult_sim hR qfuel p α β hs1
  | succ d ih =>
    intro p ply α β s₁ s₂ hp h
    have hUp : U p := hU (d + 1) p hp
    rw [negamax_succ, negamax_succ, h.incrementNodes.rep.isRepetition hc hUp]
    by_cases hcond : (decide (ply > 0) && s₂.incrementNodes.isRepetition (G₂.hash p)) = true
    · rw [if_pos hcond, if_pos hcond]; exact ⟨rfl, h.incrementNodes⟩
    · rw [if_neg hcond, if_neg hcond]
      have hpr := probeTT_sim h.incrementNodes hUp (d + 1) α β
      rcases e₁ : probeTT G₁ s₁.incrementNodes p (d + 1) α β with ⟨c₁, m₁, t₁⟩
      rcases e₂ : probeTT G₂ s₂.incrementNodes p (d + 1) α β with ⟨c₂, m₂, t₂⟩
      rw [e₁, e₂] at hpr
      obtain ⟨hc1, hm1, hs1⟩ := hpr
      simp only at hc1 hm1 hs1
      subst hc1 hm1
      cases c₁ with
      | some r => exact ⟨rfl, hs1⟩
      | none =>
        refine innerResult_sim hR hc _ _ d hUp ?_ ply α β m₁ hs1
        intro mv hmv ply' a b u₁ u₂ hu
        have hch : S d (G₁.play p mv) := hS.step d p mv hp hmv
        have := ih (G₁.play p mv) ply' a b u₁ u₂ hch hu
        rw [← hR.play]
        exact this

theorem searchPosition_sim (hR : SameRules G₁ G₂) {S : Nat → P → Prop} (hS : Ranked G₁ S)
    (hU : ∀ d p, S d p → U p) (hc : SameCollisions G₁ G₂ U) (qfuel : Nat) (p : P) (depth : Nat)
    (hp : S depth p) {s₁ s₂ : SearchState} (h : Sim G₁ G₂ U s₁ s₂) :
    RelRes G₁ G₂ U (searchPosition G₁ qfuel p depth s₁) (searchPosition G₂ qfuel p depth s₂) := by
  rw [searchPosition_eq, searchPosition_eq]
  have hUp : U p := hU depth p hp
  have hn := negamax_sim hR hS hU hc qfuel depth p 0 NEGATIVE_INFINITY INFINITY (pushed G₁ p s₁) (pushed G₂ p s₂)
    hp (h.push hUp)
  exact ⟨hn.1, hn.2.pop⟩

theorem Sim.cached (hc : SameCollisions G₁ G₂ U) {s₁ s₂ : SearchState}
    (h : Sim G₁ G₂ U s₁ s₂) {p : P} (hp : U p) (cur : Nat) (r : SearchResult) :
    Sim G₁ G₂ U (Search.cached G₁ p cur r s₁) (Search.cached G₂ p cur r s₂) := by
  unfold Search.cached
  have hs := h.store hc hp r.score r.bestMove cur .exact
  have := hs.map (fun s => { s with info := (cur, r.score, s.nodes, r.bestMove) :: s.info }) (fun _ _ _ => rfl)
  exact this

theorem iterate_sim (hR : SameRules G₁ G₂) {S : Nat → P → Prop} (hS : Ranked G₁ S)
    (hU : ∀ d p, S d p → U p) (hc : SameCollisions G₁ G₂ U) (qfuel : Nat) (p : P) (maxDepth : Nat)
    (hp : S maxDepth p) :
    ∀ (n cur : Nat) (best : Int × Option Move) (s₁ s₂ : SearchState), Sim G₁ G₂ U s₁ s₂ →
      RelRes G₁ G₂ U (iterate G₁ qfuel p maxDepth n cur best s₁) (iterate G₂ qfuel p maxDepth n cur best s₂) := by
  intro n
  induction n with
  | zero => intro cur best s₁ s₂ h; exact ⟨rfl, h⟩
  | succ n ih =>
    intro cur best s₁ s₂ h
    rw [iterate_succ, iterate_succ]
    by_cases hcm : cur > maxDepth
    · rw [if_pos hcm, if_pos hcm]; exact ⟨rfl, h⟩
    · rw [if_neg hcm, if_neg hcm, h.stopFlag]
      by_cases hs : stopFlag s₂ = true
      · rw [if_pos hs, if_pos hs]; exact ⟨rfl, h.polled⟩
      · rw [if_neg hs, if_neg hs]
        have hcur : S cur p := hS.le (by omega) hp
        have hsp := searchPosition_sim hR hS hU hc qfuel p cur hcur h.polled
        rcases e₁ : searchPosition G₁ qfuel p cur (polled s₁) with ⟨ro₁, t₁⟩
        rcases e₂ : searchPosition G₂ qfuel p cur (polled s₂) with ⟨ro₂, t₂⟩
        rw [e₁, e₂] at hsp
        obtain ⟨hs1, hs2⟩ := hsp
        simp only at hs1 hs2
        subst hs1
        cases ro₁ with
        | none => exact ⟨rfl, hs2⟩
        | some r =>
          simp only
          rw [hs2.stopFlag]
          by_cases hst : (!stopFlag t₂) = true
          · rw [if_pos hst, if_pos hst]
            exact ih _ _ _ _ (hs2.polled.cached hc (hU maxDepth p hp) cur r)
          · rw [if_neg hst, if_neg hst]
            exact ih _ _ _ _ hs2.polled

/-- **key independence of `find_best_move`, general form**: two hash functions with the same collisions on
    a set `U` that contains the search horizon.  Same answer (score and best move), and the final states
    are related — in particular their `info` lines (depth, score, node count, pv of every completed
    iteration) are equal.  For every limit, every quiescence fuel and every outcome (also `none` = out of
    fuel). -/
theorem findBestMove_sim (hR : SameRules G₁ G₂) {S : Nat → P → Prop} (hS : Ranked G₁ S)
    (hU : ∀ d p, S d p → U p) (hc : SameCollisions G₁ G₂ U) (qfuel : Nat) (p : P) (D : Nat)
    (limit : Limit) {s₁ s₂ : SearchState} (hp : S D p) (hsim : Sim G₁ G₂ U s₁ s₂) :
    (findBestMove G₁ qfuel p D limit s₁).1 = (findBestMove G₂ qfuel p D limit s₂).1 ∧
    Sim G₁ G₂ U (findBestMove G₁ qfuel p D limit s₁).2 (findBestMove G₂ qfuel p D limit s₂).2 := by
  rw [findBestMove_snd, findBestMove_snd, findBestMove_eq, findBestMove_eq]
  have hi := iterate_sim hR hS hU hc qfuel p D hp D 1 (NEGATIVE_INFINITY, none) _ _ (hsim.started limit)
  refine ⟨?_, hi.2⟩
  rcases e₁ : iterate G₁ qfuel p D D 1 (NEGATIVE_INFINITY, none) (started limit s₁) with ⟨ro₁, t₁⟩
  rcases e₂ : iterate G₂ qfuel p D D 1 (NEGATIVE_INFINITY, none) (started limit s₂) with ⟨ro₂, t₂⟩
  rw [e₁, e₂] at hi
  obtain ⟨hi1, _⟩ := hi
  simp only at hi1
  subst hi1
  rcases ro₁ with _ | ⟨sc, _ | mv⟩
  · rfl
  · simp only; rw [hR.moves]
  · rfl

/-- **key independence of `find_best_move`**: both hash functions collision-free on the positions of the
    depth-ranked family `S` (for a search of `root` to depth `D`: `horizon G root D`, the positions within
    `D` plies of the root). -/
theorem findBestMove_key_independent (hR : SameRules G₁ G₂) {S : Nat → P → Prop} (hS : Ranked G₁ S)
    (h₁ : HashInjOn G₁ (Ranked.U S)) (h₂ : HashInjOn G₂ (Ranked.U S)) (qfuel : Nat) (p : P) (D : Nat)
    (limit : Limit) {s₁ s₂ : SearchState} (hp : S D p) (hsim : Sim G₁ G₂ (Ranked.U S) s₁ s₂) :
    (findBestMove G₁ qfuel p D limit s₁).1 = (findBestMove G₂ qfuel p D limit s₂).1 ∧
    Sim G₁ G₂ (Ranked.U S) (findBestMove G₁ qfuel p D limit s₁).2 (findBestMove G₂ qfuel p D limit s₂).2 :=
  findBestMove_sim hR hS (fun d _ h => ⟨d, h⟩) (sameCollisions_of_inj h₁ h₂) qfuel p D limit hp hsim

/-- the printed lines and the node counter of the two runs are the same. -/
theorem findBestMove_info_eq (hR : SameRules G₁ G₂) {S : Nat → P → Prop} (hS : Ranked G₁ S)
    (h₁ : HashInjOn G₁ (Ranked.U S)) (h₂ : HashInjOn G₂ (Ranked.U S)) (qfuel : Nat) (p : P) (D : Nat)
    (limit : Limit) {s₁ s₂ : SearchState} (hp : S D p) (hsim : Sim G₁ G₂ (Ranked.U S) s₁ s₂) :
    (findBestMove G₁ qfuel p D limit s₁).2.info = (findBestMove G₂ qfuel p D limit s₂).2.info ∧
    (findBestMove G₁ qfuel p D limit s₁).2.nodes = (findBestMove G₂ qfuel p D limit s₂).2.nodes :=
  have h := (findBestMove_key_independent hR hS h₁ h₂ qfuel p D limit hp hsim).2
  ⟨h.info, h.nodes⟩

end sim
end Flounder.KeySim
