/-
  `fenToBoard (toFen b) = .ok b`.
-/
import Flounder.Lemmas.FenBoards
import Flounder.Lemmas.FenAlg

namespace Flounder.Lemmas.FenRoundtrip
open Flounder Flounder.Lemmas.FenDec Flounder.Lemmas.FenPrint Flounder.Lemmas.FenPlacement
  Flounder.Lemmas.FenBoards Flounder.Lemmas.FenAlg

theorem castleText_props : ∀ wk wq bk bq : Bool,
    ¬ ((castleText ⟨wk, wq, bk, bq⟩).length > 4) ∧
    (castleText ⟨wk, wq, bk, bq⟩).contains 'K' = wk ∧ (castleText ⟨wk, wq, bk, bq⟩).contains 'Q' = wq ∧
    (castleText ⟨wk, wq, bk, bq⟩).contains 'k' = bk ∧ (castleText ⟨wk, wq, bk, bq⟩).contains 'q' = bq := by
  decide

theorem epFirst_ne_dash : ∀ s, s < 64 → Char.ofNat ('a'.toNat + s % 8) ≠ '-' := by decide

/-- the board with the five non-placement fields of `b` on the parsed-back placement is `b`. -/
theorem placed_with_fields (b : Board) (h : Spec.consistent b = true) :
    { placedBoard b with active := b.active, castle := b.castle, ep := b.ep, halfmove := b.halfmove,
                         fullmove := b.fullmove } = b := by
  have p1 := placedBoard_bbPiece b h .pawn
  have p2 := placedBoard_bbPiece b h .knight
  have p3 := placedBoard_bbPiece b h .bishop
  have p4 := placedBoard_bbPiece b h .rook
  have p5 := placedBoard_bbPiece b h .queen
  have p6 := placedBoard_bbPiece b h .king
  have c1 := placedBoard_bbColor b h .white
  have c2 := placedBoard_bbColor b h .black
  simp only [Board.bbPiece, Board.bbColor] at p1 p2 p3 p4 p5 p6 c1 c2
  cases b
  simp_all

theorem finish_decChars (f1 f2 f3 f4 : List Char) (h f : Nat) (B : Board) (col : Color) (cs : Castle) (e : Option Nat)
    (hh : h < Gen.FEN_HALFMOVE_BOUND) (hf : f < Gen.FEN_FULLMOVE_BOUND) :
    fenToBoard.finish [f1, f2, f3, f4, decChars h, decChars f] B col cs e =
      .ok { B with active := col, castle := cs, ep := e, halfmove := h, fullmove := f } := by
  simp only [fenToBoard.finish, parseDec_decChars _ _ hh, parseDec_decChars _ _ hf]

/-- **FEN round trip**: the parser maps the canonical FEN of a consistent board (en-passant square on the
    board, counters below the generated bounds) back to exactly that board. -/
theorem fenToBoard_toFen (b : Board) (hc : Spec.consistent b = true)
    (hep : ∀ s, b.ep = some s → s < 64)
    (hh : b.halfmove < Gen.FEN_HALFMOVE_BOUND) (hf : b.fullmove < Gen.FEN_FULLMOVE_BOUND) :
    fenToBoard (toFen b) = .ok b := by
  unfold toFen fenToBoard
  simp only [parsePlacement_placementText]
  obtain ⟨k1, k2, k3, k4, k5⟩ := castleText_props b.castle.wk b.castle.wq b.castle.bk b.castle.bq
  have hcs : (⟨b.castle.wk, b.castle.wq, b.castle.bk, b.castle.bq⟩ : Castle) = b.castle := rfl
  rw [hcs] at k1 k2 k3 k4 k5
  have hside : ∃ c, sideText b.active = [c] ∧ ¬ (c ≠ 'w' ∧ c ≠ 'b') ∧
      (if c = 'w' then Color.white else Color.black) = b.active := by
    cases b.active
    · exact ⟨'w', rfl, by decide, by decide⟩
    · exact ⟨'b', rfl, by decide, by decide⟩
  obtain ⟨c, hc1, hc2, hc3⟩ := hside
  rw [hc1]
  simp only [hc2, if_false, hc3, k1, k2, k3, k4, k5, finish_decChars _ _ _ _ _ _ _ _ _ _ hh hf]
  cases hepv : b.ep with
  | none =>
    have : ¬ (['-'].length > 2) := by decide
    simp only [epText, this, if_false]
    rw [← hepv]
    exact congrArg FenResult.ok (placed_with_fields b hc)
  | some s =>
    have hs := hep s hepv
    have hlen : ¬ ((epText (some s)).length > 2) := by simp [epText, squareToAlgebraic]
    simp only [hlen, if_false]
    have hne := epFirst_ne_dash s hs
    have hrt := squareToAlgebraic_roundtrip s hs
    simp only [epText] at hrt ⊢
    split
    · next heq => simp [squareToAlgebraic] at heq
    · next heq => simp only [squareToAlgebraic, List.cons.injEq] at heq; exact absurd heq.1 hne
    · have hl2 : ¬ ((squareToAlgebraic s).length < 2) := by simp [squareToAlgebraic]
      simp only [hl2, if_false, hrt]
      rw [← hepv]
      exact congrArg FenResult.ok (placed_with_fields b hc)

end Flounder.Lemmas.FenRoundtrip
