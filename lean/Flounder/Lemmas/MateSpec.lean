/-
  C08 helpers, part 5: reference values around a mate (`Spec.Q` / `Spec.V`), and a generic
  "state predicate preserved by the whole search" lemma (`Pres`, `negamax_pres`) instantiated with
  the history bound and a depth bound on every table record.
-/
import Flounder.Lemmas.MateBasic

namespace Flounder.Search
open Flounder Gen

section spec
variable {P : Type} (G : Game P)

theorem not_mated_qList {q : P} (hnm : ¬ Mated G q) : ((qList G q).isEmpty && G.inCheck q) = false := by
  cases hc : G.inCheck q
  · simp
  · cases hl : qList G q with
    | nil =>
      exfalso; apply hnm
      refine ⟨?_, hc⟩
      unfold qList at hl; rw [hc, if_pos rfl] at hl; exact hl
    | cons x xs => rfl

theorem Q_mated (n : Nat) (q : P) (h : Mated G q) : Spec.Q G (n + 1) q = some (-CHECKMATE_SCORE) := by
  rw [Q_succ, qList_mated G h, h.2]; rfl

/-- a non-mated position is worth at least its stand-pat. -/
theorem Q_ge_eval (n : Nat) (q : P) (v : Int) (hnm : ¬ Mated G q) (h : Spec.Q G n q = some v) :
    G.eval q ≤ v := by
  cases n with
  | zero => cases h
  | succ n => exact (Q_children G n q v (not_mated_qList G hnm) h).2.2.1

/-- the value of a mated position at remaining depth `k`. -/
theorem V_mated (qf k : Nat) (q : P) (x : Int) (h : Mated G q) (hv : Spec.V G qf k q = some x) :
    x = -CHECKMATE_SCORE + (k : Int) := by
  cases k with
  | zero =>
    rw [V_zero] at hv
    cases qf with
    | zero => cases hv
    | succ n => rw [Q_mated G n q h] at hv; cases hv; simp
  | succ k =>
    rw [V_succ_nil G qf k q h.1, h.2] at hv
    simp only [↓reduceIte, Option.some.injEq] at hv
    exact hv.symm

/-- some move of `c` mates. -/
def CanMate (c : P) : Prop := ∃ r, r ∈ G.moves c ∧ Mated G (G.play c r)

/-- a position in which the side to move can mate is worth at least `CHECKMATE_SCORE - k` at depth `k + 1`. -/
theorem V_canMate_ge (qf k : Nat) (c : P) (v : Int) (h : CanMate G c) (hv : Spec.V G qf (k + 1) c = some v) :
    CHECKMATE_SCORE - (k : Int) ≤ v := by
  obtain ⟨r, hr, hm⟩ := h
  have hne : G.moves c ≠ [] := fun e => by rw [e] at hr; cases hr
  obtain ⟨hex, hub, _⟩ := V_children G qf k c v hne hv
  obtain ⟨x, hx⟩ := hex r hr
  have := V_mated G qf k _ x hm hx
  have := hub r hr x hx
  omega

/-- a position in which no move mates is worth less than `INFINITY` at depth 1. -/
theorem V1_lt_of_not_canMate (hE : EvalBound G) (qf : Nat) (c : P) (v : Int) (h : ¬ CanMate G c)
    (hv : Spec.V G qf 1 c = some v) : v < INFINITY := by
  have hin := inf_eq
  have hcm : CHECKMATE_SCORE = 2147482647 := rfl
  by_cases hne : G.moves c = []
  · rw [V_succ_nil G qf 0 c hne] at hv
    split at hv
    · cases hv; push_cast; omega
    · cases hv; omega
  · obtain ⟨_, _, r, hr, x, hx, e⟩ := V_children G qf 0 c v hne hv
    rw [V_zero] at hx
    have hnm : ¬ Mated G (G.play c r) := fun hm => h ⟨r, hr, hm⟩
    have := Q_ge_eval G qf _ x hnm hx
    have := (hE (G.play c r)).1
    omega

end spec

/-! ### predicates preserved by the whole search -/

/-- every record in the table has depth at most `N`. -/
def TTDepthLe (N : Nat) (t : TT) : Prop := ∀ (k : UInt64) (e : Entry), t.table[k]? = some e → e.depth ≤ N

theorem get_of_retrieve (t : TT) (k : UInt64) (e : Entry) (h : t.retrieve k = some e) :
    t.table[k]? = some e := by
  unfold TT.retrieve at h
  cases hg : t.table[k]? with
  | none => rw [hg] at h; cases h
  | some e' =>
    rw [hg] at h
    simp only at h
    split at h
    · cases h; rfl
    · cases h

theorem store_get_cases (t : TT) (K : UInt64) (ev : Int) (mv : Option Move) (d : Nat) (b : Bounds)
    (k : UInt64) :
    (t.store K ev mv d b).table[k]? = t.table[k]? ∨
      (t.store K ev mv d b).table[k]? = some ⟨K, ev, mv, d, b⟩ := by
  by_cases hk : k = K
  · subst hk
    unfold TT.store
    split
    · right; simp only [Std.HashMap.getElem?_insert]; simp
    · split
      · right; simp only [Std.HashMap.getElem?_insert]; simp
      · left; rfl
  · left; exact store_get_other t K ev mv d b k hk

theorem ttDepthLe_store {N : Nat} {t : TT} (h : TTDepthLe N t) (K : UInt64) (ev : Int) (mv : Option Move)
    (d : Nat) (b : Bounds) (hd : d ≤ N) : TTDepthLe N (t.store K ev mv d b) := by
  intro k e he
  rcases store_get_cases t K ev mv d b k with h1 | h1
  · rw [h1] at he; exact h k e he
  · rw [h1] at he; cases he; exact hd

theorem ttDepthLe_mono {N M : Nat} {t : TT} (h : TTDepthLe N t) (hnm : N ≤ M) : TTDepthLe M t :=
  fun k e he => Nat.le_trans (h k e he) hnm

theorem ttDepthLe_empty (N : Nat) : TTDepthLe N ({} : TT) := by
  intro k e he
  rw [tt_empty_get] at he; cases he

/-- `I` is kept by every elementary state change of the search; table stores are of depth `≤ N`. -/
structure Pres (I : SearchState → Prop) (N : Nat) : Prop where
  polled : ∀ s, I s → I (polled s)
  incr : ∀ s, I s → I s.incrementNodes
  counted : ∀ s e d, I s → I (counted s e d)
  cut : ∀ s (mv : Move) ply depth, I s →
    I (if mv.kind = MoveType.quiet then (s.storeKiller mv ply).recordCutoff mv depth else s)
  store : ∀ (s : SearchState) k ev mv d b, d ≤ N → I s → I { s with tt := s.tt.store k ev mv d b }

section pres
variable {P : Type} (G : Game P) {I : SearchState → Prop} {N : Nat}

theorem quiesceLoop_pres (hI : Pres I N) (rec : P → Int → Int → SearchState → Option Int × SearchState)
    (hrec : ∀ q a b s, I s → I (rec q a b s).2) (p : P) (β : Int) :
    ∀ (ms : List Move) (α : Int) (s : SearchState), I s → I (quiesceLoop G rec p β ms α s).2 := by
  intro ms
  induction ms with
  | nil => intro α s h; exact h
  | cons mv rest ih =>
    intro α s h
    rw [quiesceLoop_cons]
    split
    · exact hI.polled s h
    · have h2 := hrec (G.play p mv) (-β) (-α) (polled s) (hI.polled s h)
      rcases hres : rec (G.play p mv) (-β) (-α) (polled s) with ⟨ro, s2⟩
      rw [hres] at h2
      cases ro with
      | none => exact h2
      | some v =>
        simp only
        split
        · exact h2
        · exact ih _ _ h2

theorem quiesce_pres (hI : Pres I N) (fuel : Nat) : ∀ (p : P) (α β : Int) (s : SearchState),
    I s → I (quiesce G fuel p α β s).2 := by
  induction fuel with
  | zero => intro p α β s h; exact h
  | succ n ih =>
    intro p α β s h
    rw [quiesce_succ]
    split
    · exact hI.incr s h
    · split
      · exact hI.incr s h
      · exact quiesceLoop_pres G hI _ ih p β _ _ _ (hI.incr s h)

theorem negamaxLoop_pres (hI : Pres I N)
    (rec : P → Nat → Int → Int → SearchState → Option SearchResult × SearchState)
    (hrec : ∀ q ply a b s, I s → I (rec q ply a b s).2) (p : P) (depth ply : Nat) (β : Int) :
    ∀ (ms : List Move) (acc : LoopAcc) (s : SearchState),
      I s → I (negamaxLoop G rec p depth ply β ms acc s).2 := by
  intro ms
  induction ms with
  | nil => intro acc s h; exact h
  | cons mv rest ih =>
    intro acc s h
    rw [negamaxLoop_cons]
    split
    · exact hI.polled s h
    · have h2 := hrec (G.play p mv) (ply + 1) (-β) (-acc.alpha) (polled s) (hI.polled s h)
      rcases hres : rec (G.play p mv) (ply + 1) (-β) (-acc.alpha) (polled s) with ⟨ro, s2⟩
      rw [hres] at h2
      cases ro with
      | none => exact h2
      | some r =>
        simp only
        split
        · exact hI.cut s2 mv ply depth h2
        · exact ih _ _ h2

theorem finishNode_pres (hI : Pres I N) (p : P) (d1 : Nat) (hd : d1 ≤ N) (α β : Int) (acc : LoopAcc)
    (s : SearchState) (h : I s) : I (finishNode G p d1 α β acc s).2 := by
  unfold finishNode
  split
  · exact hI.polled s h
  · exact hI.store (polled s) _ _ _ _ _ hd (hI.polled s h)

theorem probeTT_pres (hI : Pres I N) (s : SearchState) (p : P) (depth : Nat) (α β : Int) (h : I s) :
    I (probeTT G s p depth α β).2.2 := by
  rcases probeTT_cases G s p depth α β with ⟨_, h2⟩ | ⟨e, _, _, _, _, h2⟩
  · rw [h2]; exact h
  · rw [h2]; exact hI.counted s e depth h

theorem innerResult_pres (hI : Pres I N)
    (rec : P → Nat → Int → Int → SearchState → Option SearchResult × SearchState)
    (hrec : ∀ q ply a b s, I s → I (rec q ply a b s).2) (d : Nat) (hd : d + 1 ≤ N) (p : P) (ply : Nat)
    (α β : Int) (ttMove : Option Move) (s : SearchState) (h : I s) :
    I (innerResult G rec d p ply α β ttMove s).2 := by
  unfold innerResult
  split
  · split <;> exact h
  · rename_i m0 tl hm
    have h2 := negamaxLoop_pres G hI rec hrec p (d + 1) ply β (orderMoves G s p (G.moves p) ttMove ply)
      ⟨α, ⟨NEGATIVE_INFINITY, some ((orderMoves G s p (G.moves p) ttMove ply).headD m0)⟩⟩ s h
    rcases hl : negamaxLoop G rec p (d + 1) ply β (orderMoves G s p (G.moves p) ttMove ply)
      ⟨α, ⟨NEGATIVE_INFINITY, some ((orderMoves G s p (G.moves p) ttMove ply).headD m0)⟩⟩ s with ⟨ro, s2⟩
    rw [hl] at h2
    cases ro with
    | none => exact h2
    | some acc => exact finishNode_pres G hI p (d + 1) hd α β acc s2 h2

/-- a predicate kept by the elementary steps is kept by `negamax` of depth `≤ N`. -/
theorem negamax_pres (hI : Pres I N) (qfuel : Nat) : ∀ (d : Nat), d ≤ N → ∀ (p : P) (ply : Nat) (α β : Int)
    (s : SearchState), I s → I (negamax G qfuel d p ply α β s).2 := by
  intro d
  induction d with
  | zero =>
    intro _ p ply α β s h
    rw [negamax_zero]
    split
    · exact hI.incr s h
    · have h1 := probeTT_pres G hI s.incrementNodes p 0 α β (hI.incr s h)
      rcases hp : probeTT G s.incrementNodes p 0 α β with ⟨ro, mv, s1⟩
      rw [hp] at h1
      cases ro with
      | none =>
        simp only
        unfold leafResult
        have h2 := quiesce_pres G hI qfuel p α β s1 h1
        rcases hq : quiesce G qfuel p α β s1 with ⟨qo, s2⟩
        rw [hq] at h2
        cases qo <;> exact h2
      | some r => exact h1
  | succ d ih =>
    intro hd p ply α β s h
    rw [negamax_succ]
    split
    · exact hI.incr s h
    · have h1 := probeTT_pres G hI s.incrementNodes p (d + 1) α β (hI.incr s h)
      rcases hp : probeTT G s.incrementNodes p (d + 1) α β with ⟨ro, mv, s1⟩
      rw [hp] at h1
      cases ro with
      | none => exact innerResult_pres G hI _ (ih (by omega)) d hd p ply α β mv s1 h1
      | some r => exact h1

end pres

/-- history bound and record-depth bound together. -/
def Tidy (N : Nat) (s : SearchState) : Prop := HistOK s ∧ TTDepthLe N s.tt

theorem pres_tidy (N : Nat) : Pres (Tidy N) N := by
  refine ⟨fun s h => h, fun s h => h, ?_, ?_, ?_⟩
  · intro s e d h
    unfold counted; split <;> exact h
  · intro s mv ply depth h
    refine ⟨histOK_cut h.1 mv ply depth, ?_⟩
    rw [(qframe_cut s mv ply depth).tt]; exact h.2
  · intro s k ev mv d b hd h
    exact ⟨h.1, ttDepthLe_store h.2 k ev mv d b hd⟩

end Flounder.Search
