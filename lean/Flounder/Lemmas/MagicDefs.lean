/-
  C10 — Nat-level checker for the magic-bitboard tables (definitions only).
  The kernel evaluates `Nat` arithmetic with GMP, so everything executed by `decide +kernel`
  lives over `Nat`; `Flounder/Lemmas/MagicSound.lean` links it to the `UInt64` model.
-/
import Flounder.Model.Magic

namespace Flounder.MagicProof
open Flounder Flounder.Gen

/-- squares visited by one `while` loop of the mask generators when nothing blocks. -/
def raySquares (cond : Int → Int → Bool) (dr df : Int) : Nat → Int → Int → List Nat
  | 0, _, _ => []
  | fuel + 1, r, f =>
    if cond r f then (r * 8 + f).toNat :: raySquares cond dr df fuel (r + dr) (f + df) else []

/-- the four rays of a square, in source order. -/
def raysOf (bishop : Bool) (sq : Nat) : List Nat × List Nat × List Nat × List Nat :=
  let rank : Int := sq / 8
  let file : Int := sq % 8
  if bishop then
    (raySquares (fun r f => f ≥ 0 && r ≥ 0) (-1) (-1) 8 (rank - 1) (file - 1),
     raySquares (fun r f => f < 8 && r ≥ 0) (-1) 1 8 (rank - 1) (file + 1),
     raySquares (fun r f => f ≥ 0 && r < 8) 1 (-1) 8 (rank + 1) (file - 1),
     raySquares (fun r f => f < 8 && r < 8) 1 1 8 (rank + 1) (file + 1))
  else
    (raySquares (fun r _ => r ≥ 0) (-1) 0 8 (rank - 1) file,
     raySquares (fun _ f => f ≥ 0) 0 (-1) 8 rank (file - 1),
     raySquares (fun r f => f ≥ 0 && r < 8) 1 0 8 (rank + 1) file,
     raySquares (fun r f => f < 8 && r < 8) 0 1 8 rank (file + 1))

/-- `(sqBB s).toNat`. -/
def bitN (s : Nat) : Nat := 2 ^ (s % 64)

def orN : List Nat → Nat
  | [] => 0
  | s :: rest => bitN s ||| orN rest

/-- all (blockers-on-the-ray-minus-last-square, attack-set-on-the-ray) pairs of one ray. -/
def gen : List Nat → List (Nat × Nat)
  | [] => [(0, 0)]
  | [s] => [(0, bitN s)]
  | s :: t :: rest =>
    (gen (t :: rest)).flatMap fun p => [(p.1, bitN s ||| p.2), (bitN s ||| p.1, bitN s)]

def prod (P Q : List (Nat × Nat)) : List (Nat × Nat) :=
  P.flatMap fun p => Q.map fun q => (p.1 ||| q.1, p.2 ||| q.2)

def idxN (mg sh o : Nat) : Nat := (o * mg % 18446744073709551616) >>> sh

/-- one insertion into the collision table `T` (a `Nat` holding 128-bit slots; slot value
    `w + 1`, `0` = free).  Result `0` = failure (index out of range or destructive collision). -/
def stepT (mg sh size T o w : Nat) : Nat :=
  let k := idxN mg sh o
  if k < size then
    let c := (T >>> (128 * k)) % 340282366920938463463374607431768211456
    if c = 0 then T ||| ((w + 1) <<< (128 * k))
    else if c = w + 1 then T else 0
  else 0

def run (mg sh size : Nat) : List (Nat × Nat) → Nat → Bool
  | [], _ => true
  | p :: ps, T =>
    let T' := stepT mg sh size T p.1 p.2
    if T' = 0 then false else run mg sh size ps T'

def popcountN (n : Nat) : Nat := ((List.range 64).filter fun s => n.testBit s).length

def edgeN (rank file : Nat) : Nat :=
  (match rank with
   | 0 => RANK_8
   | 7 => RANK_1
   | _ => RANK_1 ||| RANK_8) |||
  (match file with
   | 0 => FILE_H
   | 7 => FILE_A
   | _ => FILE_A ||| FILE_H)

def magicN (bishop : Bool) (sq : Nat) : Nat :=
  (if bishop then BISHOP_MAGICS.getD sq 0 else ROOK_MAGICS.getD sq 0) % 18446744073709551616
def shN (bishop : Bool) (sq : Nat) : Nat :=
  (64 - relevantBits bishop sq) % 18446744073709551616 % 64

/-- continuation-passing strict evaluation of a `Nat` (the kernel is lazy). -/
def force {α : Type} (n : Nat) (k : Nat → α) : α :=
  match n with
  | 0 => k 0
  | m + 1 => k (m + 1)

def checkSquare (bishop : Bool) (sq : Nat) : Bool :=
  let R := raysOf bishop sq
  let maskN := (orN R.1 ||| orN R.2.1 ||| orN R.2.2.1 ||| orN R.2.2.2) &&&
    (18446744073709551615 - edgeN (sq / 8) (sq % 8))
  (maskN == (orN R.1.dropLast ||| orN R.2.1.dropLast ||| orN R.2.2.1.dropLast ||| orN R.2.2.2.dropLast)) &&
  (relevantBits bishop sq == popcountN maskN) &&
  force (magicN bishop sq) fun mg => force (shN bishop sq) fun sh =>
    run mg sh (tableSize bishop) (prod (prod (prod (gen R.1) (gen R.2.1)) (gen R.2.2.1)) (gen R.2.2.2)) 0

end Flounder.MagicProof
