/-
  C08 helpers, part 7: "an avoidable mate in one is avoided at depth 2 and 3" in RANKED form.

  Lemmas/MateAvoid.lean proves it for a set `S` closed under all moves on which the hash is injective — a
  hypothesis no 64-bit key table satisfies for real chess.  This file repeats the argument for a depth-ranked
  family `S : Nat → P → Prop` (Lemmas/Ranked.lean): root in `S D`, the hash injective on `Ranked.U S` only.
  The proofs are those of MateAvoid.lean with `negamax_ok` / `searchPosition_ok` replaced by their `_ranked`
  forms; the definitions (`Loses`, `Holds`, `Allows`, `TrackInv`) are shared.
-/
import Flounder.Lemmas.MateAvoid

namespace Flounder.Search
open Flounder Gen

section avoidRanked
variable {P : Type} (G : Game P)
variable {c : Int → Int} {qf : Nat}

/-- the move loop of the ROOT, ranked form: the children lie in `N`, the table is sound on `U`; (window `(-INFINITY, INFINITY)`, `alpha = best.score`). -/
theorem rootLoop_safe_ranked {N U : P → Prop} (hc : Clamp c)
    (rec : P → Nat → Int → Int → SearchState → Option SearchResult × SearchState) (d : Nat)
    (hrecF : ∀ q ply a b s, Frame s (rec q ply a b s).2) (hrec : RecOKR G c N U qf d rec)
    (p : P) (hch : ∀ m ∈ G.moves p, N (G.play p m)) (depth : Nat) (first : Move) :
    ∀ (rest : List Move) (acc : LoopAcc) (s : SearchState),
      (∀ m ∈ rest, m ∈ G.moves p) →
      (∀ m ∈ rest, ∃ x, Spec.V G qf d (G.play p m) = some x) →
      acc.alpha = acc.best.score → NEGATIVE_INFINITY ≤ acc.alpha → acc.alpha < INFINITY →
      (acc.best = ⟨NEGATIVE_INFINITY, some first⟩ ∨
        ∃ m, acc.best.bestMove = some m ∧ m ∈ G.moves p ∧ Holds G qf d p m) →
      TTSound G c U qf s.tt → RepOK s → s.stopSeen = false →
      (negamaxLoop G rec p depth 0 INFINITY rest acc s).2.stopSeen = false →
      (negamaxLoop G rec p depth 0 INFINITY rest acc s).2.deeperHits = s.deeperHits →
      ∃ acc', (negamaxLoop G rec p depth 0 INFINITY rest acc s).1 = some acc' ∧
        ((acc.best = ⟨NEGATIVE_INFINITY, some first⟩ ∧ acc'.best.bestMove = some first ∧
            ∀ m ∈ rest, Loses G qf d p m) ∨
          ∃ m, acc'.best.bestMove = some m ∧ m ∈ G.moves p ∧ Holds G qf d p m) := by
  intro rest
  induction rest with
  | nil =>
    intro acc s _ _ _ _ _ hB _ _ _ _ _
    refine ⟨acc, rfl, ?_⟩
    rcases hB with h | h
    · left; exact ⟨h, by rw [h], fun m hm => by cases hm⟩
    · right; exact h
  | cons mv rest ih =>
    intro acc s hmem hex hA hlo hhi hB hT hR hs hfin hdh
    have hni := negInf_eq
    have hin := inf_eq
    rw [negamaxLoop_cons] at hfin hdh ⊢
    have hsf : stopFlag s = false := by
      cases h : stopFlag s
      · rfl
      · rw [h] at hfin; simp [polled, h] at hfin
    rw [hsf] at hfin hdh ⊢
    simp only [Bool.false_eq_true, ↓reduceIte] at hfin hdh ⊢
    have hs1 : (polled s).stopSeen = false := by simp [polled, hs, hsf]
    have hmv : mv ∈ G.moves p := hmem mv List.mem_cons_self
    obtain ⟨x, hx⟩ := hex mv List.mem_cons_self
    have hrec' := hrec (G.play p mv) (0 + 1) (-INFINITY) (-acc.alpha) (polled s) x (hch mv hmv) hT
      (hR.of_rep rfl) hx (by omega) (by omega) (by omega) hs1
    have hF := hrecF (G.play p mv) (0 + 1) (-INFINITY) (-acc.alpha) (polled s)
    have hLF := fun a s' => negamaxLoop_frame G rec hrecF p depth 0 INFINITY rest a s'
    rcases hres : rec (G.play p mv) (0 + 1) (-INFINITY) (-acc.alpha) (polled s) with ⟨ro, s2⟩
    rw [hres] at hfin hdh hrec' hF
    have hs2 : s2.stopSeen = false ∧ s2.deeperHits = s.deeperHits := by
      have h1 : s.deeperHits ≤ s2.deeperHits := hF.deeper
      cases ro with
      | none => exact ⟨hfin, hdh⟩
      | some r =>
        simp only at hfin hdh
        by_cases hcut : max acc.alpha (-r.score) ≥ INFINITY
        · rw [if_pos hcut] at hfin hdh
          have f := qframe_cut s2 mv 0 depth
          exact ⟨f.noStop hfin, by rw [← f.deeper]; exact hdh⟩
        · rw [if_neg hcut] at hfin hdh
          have f := hLF ⟨max acc.alpha (-r.score),
            if -r.score > acc.best.score then ⟨-r.score, some mv⟩ else acc.best⟩ s2
          refine ⟨f.noStop hfin, ?_⟩
          have := f.deeper
          omega
    obtain ⟨r, hr, hres2, hT2⟩ := hrec' hs2.1 hs2.2
    simp only at hr hT2
    subst hr
    simp only at hfin hdh ⊢
    have hcon := hres2.contract
    have hR2 : RepOK s2 := hR.of_rep (by rw [hF.rep]; rfl)
    -- the views of the child score and the child value against the three thresholds
    have lr := hc.le_iff r.score NEGATIVE_INFINITY (Int.le_refl _) (by omega)
    have lx := hc.le_iff x NEGATIVE_INFINITY (Int.le_refl _) (by omega)
    have gr := hc.ge_iff r.score (-acc.alpha) (by omega) (by omega)
    have gx := hc.ge_iff x INFINITY (by omega) (Int.le_refl _)
    -- a child that did not fail high has a value below INFINITY
    have hholds : r.score < -acc.alpha → Holds G qf d p mv := by
      intro hlt
      refine ⟨x, hx, ?_⟩
      by_cases h1 : c r.score ≤ -INFINITY
      · have := hcon.1 h1; omega
      · have := hcon.2.2 (by omega) (by omega); omega
    by_cases hcut : max acc.alpha (-r.score) ≥ INFINITY
    · -- beta cutoff: the move wins
      rw [if_pos hcut]
      have hgt : -r.score > acc.best.score := by omega
      rw [if_pos hgt]
      exact ⟨_, rfl, Or.inr ⟨mv, rfl, hmv, hholds (by omega)⟩⟩
    · rw [if_neg hcut] at hfin hdh ⊢
      by_cases hgt : -r.score > acc.best.score
      · -- best is replaced by `mv`
        rw [if_pos hgt] at hfin hdh ⊢
        obtain ⟨acc', hacc', hres'⟩ := ih ⟨max acc.alpha (-r.score), ⟨-r.score, some mv⟩⟩ s2
          (fun m hm => hmem m (List.mem_cons_of_mem _ hm))
          (fun m hm => hex m (List.mem_cons_of_mem _ hm))
          (by simp only; omega) (by simp only; omega) (by simp only; omega)
          (Or.inr ⟨mv, rfl, hmv, hholds (by omega)⟩) hT2 hR2 hs2.1 hfin (by rw [hdh, hs2.2])
        refine ⟨acc', hacc', ?_⟩
        rcases hres' with ⟨e, _, _⟩ | h
        · exfalso
          simp only [SearchResult.mk.injEq] at e
          omega
        · exact Or.inr h
      · -- best is kept
        rw [if_neg hgt] at hfin hdh ⊢
        obtain ⟨acc', hacc', hres'⟩ := ih ⟨max acc.alpha (-r.score), acc.best⟩ s2
          (fun m hm => hmem m (List.mem_cons_of_mem _ hm))
          (fun m hm => hex m (List.mem_cons_of_mem _ hm))
          (by simp only; omega) (by simp only; omega) (by simp only; omega)
          hB hT2 hR2 hs2.1 hfin (by rw [hdh, hs2.2])
        refine ⟨acc', hacc', ?_⟩
        rcases hres' with ⟨e, hf, hl⟩ | h
        · left
          refine ⟨e, hf, ?_⟩
          intro m hm
          rcases List.mem_cons.1 hm with e' | e'
          · subst e'
            have hbs : acc.best.score = NEGATIVE_INFINITY := by rw [e]
            have := hcon.2.1 (by omega)
            exact ⟨x, hx, by omega⟩
          · exact hl m e'
        · exact Or.inr h

/-- **the root node** of depth `d + 1` on a table without records deeper than `d`: the answer either
    holds (its child is worth `< INFINITY` to the opponent), or it is the first move after ordering
    and every move loses. -/
theorem root_safe_ranked {S : Nat → P → Prop} (hc : Clamp c) (hr : Ranked G S) (hinj : HashInj G (Ranked.U S))
    (qfuel : Nat) (hq : qf ≤ qfuel) (d : Nat) (p : P) (hSp : S (d + 1) p) (s : SearchState) (v : Int) (hv : Spec.V G qf (d + 1) p = some v)
    (m0 : Move) (tl0 : List Move) (hms : G.moves p = m0 :: tl0)
    (hT : TTSound G c (Ranked.U S) qf s.tt) (hR : RepOK s) (hs : s.stopSeen = false) (hDep : TTDepthLe d s.tt)
    (hfin : (negamax G qfuel (d + 1) p 0 NEGATIVE_INFINITY INFINITY s).2.stopSeen = false)
    (hdh : (negamax G qfuel (d + 1) p 0 NEGATIVE_INFINITY INFINITY s).2.deeperHits = s.deeperHits) :
    ∃ r, (negamax G qfuel (d + 1) p 0 NEGATIVE_INFINITY INFINITY s).1 = some r ∧
      ((r.bestMove = some ((orderMoves G s.incrementNodes p (G.moves p)
            ((s.tt.retrieve (G.hash p)).bind (·.bestMove)) 0).headD m0) ∧
          ∀ m ∈ G.moves p, Loses G qf d p m) ∨
        ∃ m, r.bestMove = some m ∧ m ∈ G.moves p ∧ Holds G qf d p m) := by
  have hne : G.moves p ≠ [] := by rw [hms]; simp
  -- the probe does not cut: every record is shallower than the request
  have heq : negamax G qfuel (d + 1) p 0 NEGATIVE_INFINITY INFINITY s =
      innerResult G (negamax G qfuel d) d p 0 NEGATIVE_INFINITY INFINITY
        ((s.tt.retrieve (G.hash p)).bind (·.bestMove)) s.incrementNodes := by
    cases hr : s.tt.retrieve (G.hash p) with
    | none =>
      have hp := probeTT_miss G s.incrementNodes p (d + 1) NEGATIVE_INFINITY INFINITY hr
      rw [negamax_succ, hp]
      simp
    | some e =>
      have := hDep _ e (get_of_retrieve _ _ _ hr)
      rw [negamax_succ_shallow G qfuel d p _ _ s e hr (by omega)]
      rfl
  rw [heq] at hfin hdh ⊢
  generalize (s.tt.retrieve (G.hash p)).bind (·.bestMove) = ttMove at hfin hdh ⊢
  obtain ⟨hex, _, _⟩ := V_children G qf d p v hne hv
  rw [innerResult_cons G _ d p 0 _ _ ttMove _ m0 tl0 hms] at hfin hdh ⊢
  have hperm := orderMoves_perm G s.incrementNodes p (G.moves p) ttMove 0
  generalize orderMoves G s.incrementNodes p (G.moves p) ttMove 0 = ordered at hfin hdh hperm ⊢
  have hrecF := negamax_frame G qfuel d
  have hLF := negamaxLoop_frame G (negamax G qfuel d) hrecF p (d + 1) 0 INFINITY ordered
    ⟨NEGATIVE_INFINITY, ⟨NEGATIVE_INFINITY, some (ordered.headD m0)⟩⟩ s.incrementNodes
  have hloop := rootLoop_safe_ranked G hc (negamax G qfuel d) d hrecF (negamax_ok_ranked G hc hr hinj qfuel hq d)
    p (fun m hm => hr.step d p m hSp hm) (d + 1) (ordered.headD m0) ordered
    ⟨NEGATIVE_INFINITY, ⟨NEGATIVE_INFINITY, some (ordered.headD m0)⟩⟩ s.incrementNodes
    (fun m hm => hperm.mem_iff.1 hm) (fun m hm => hex m (hperm.mem_iff.1 hm)) rfl (Int.le_refl _)
    (show NEGATIVE_INFINITY < INFINITY by decide) (Or.inl rfl) hT (hR.of_rep rfl) hs
  rcases hl : negamaxLoop G (negamax G qfuel d) p (d + 1) 0 INFINITY ordered
    ⟨NEGATIVE_INFINITY, ⟨NEGATIVE_INFINITY, some (ordered.headD m0)⟩⟩ s.incrementNodes with ⟨ro, s2⟩
  rw [hl] at hfin hdh hloop hLF
  have hs2 : s2.stopSeen = false ∧ s2.deeperHits = s.deeperHits := by
    cases ro with
    | none => exact ⟨hfin, hdh⟩
    | some acc =>
      simp only at hfin hdh
      have f := finishNode_frame G p (d + 1) NEGATIVE_INFINITY INFINITY acc s2
      refine ⟨f.noStop hfin, ?_⟩
      have h1 := f.deeper
      have h2 := hLF.deeper
      simp only at h2
      have h3 : s.incrementNodes.deeperHits = s.deeperHits := rfl
      omega
  obtain ⟨acc, hacc, hres⟩ := hloop hs2.1 hs2.2
  simp only at hacc
  subst hacc
  simp only
  refine ⟨acc.best, finishNode_fst G p (d + 1) _ _ acc s2, ?_⟩
  rcases hres with ⟨_, hf, hl'⟩ | h
  · left; exact ⟨hf, fun m hm => hl' m (hperm.mem_iff.2 hm)⟩
  · exact Or.inr h

/-- **iterative deepening keeps a good root move through lost iterations.**
    If the answer of iteration `k0` is `Good` (`hEst`) and, in every later iteration, every move whose
    child is worth `< INFINITY` to the opponent is `Good` (`hKeep`), then the final answer is `Good`:
    an iteration either answers with such a move, or every move loses and it repeats the previous
    answer (table move first, never displaced). -/
theorem iterate_track_ranked {S : Nat → P → Prop} (hr : Ranked G S) (hinj : HashInj G (Ranked.U S)) (qfuel : Nat)
    (hq : qf ≤ qfuel) (p : P) (D : Nat) (hSp : S D p) (hne : G.moves p ≠ [])
    (Good : Move → Prop) (k0 : Nat)
    (hEst : ∀ r v, Spec.V G qf k0 p = some v →
      ResultOK G Spec.clampClass qf k0 p NEGATIVE_INFINITY INFINITY v r →
      ((∀ m ∈ G.moves p, Loses G qf (k0 - 1) p m) ∨
        ∃ m, r.bestMove = some m ∧ m ∈ G.moves p ∧ Holds G qf (k0 - 1) p m) →
      ∃ m, r.bestMove = some m ∧ m ∈ G.moves p ∧ Good m)
    (hKeep : ∀ d m, k0 ≤ d → d + 1 ≤ D → m ∈ G.moves p → Holds G qf d p m → Good m) :
    ∀ (n cur : Nat) (best : Int × Option Move) (s : SearchState),
      1 ≤ cur → cur + n = D + 1 →
      (∀ d, cur ≤ d → d ≤ D → ∃ v, Spec.V G qf d p = some v) →
      TrackInv G Good k0 (Ranked.U S) qf p cur best s → s.stopSeen = false →
      (iterate G qfuel p D n cur best s).2.stopSeen = false →
      (iterate G qfuel p D n cur best s).2.deeperHits = s.deeperHits →
      ∃ b, (iterate G qfuel p D n cur best s).1 = some b ∧
        (k0 ≤ D → ∃ m, b.2 = some m ∧ m ∈ G.moves p ∧ Good m) := by
  have hc := clamp_clampClass
  obtain ⟨m0, tl0, hms⟩ : ∃ m0 tl0, G.moves p = m0 :: tl0 := by
    cases h : G.moves p with
    | nil => exact absurd h hne
    | cons a l => exact ⟨a, l, rfl⟩
  intro n
  induction n with
  | zero =>
    intro cur best s _ hcn _ hI _ _ _
    exact ⟨best, rfl, fun hD => hI.best (by omega)⟩
  | succ n ih =>
    intro cur best s h1 hcn hV hI hs hfin hdh
    rw [iterate_succ] at hfin hdh ⊢
    have hle : ¬ cur > D := by omega
    rw [if_neg hle] at hfin hdh ⊢
    have hsf : stopFlag s = false := by
      cases h : stopFlag s
      · rfl
      · rw [h] at hfin; simp [polled, h] at hfin
    rw [hsf] at hfin hdh ⊢
    simp only [Bool.false_eq_true, ↓reduceIte] at hfin hdh ⊢
    have hs1 : (polled s).stopSeen = false := by simp [polled, hs, hsf]
    obtain ⟨v, hv⟩ := hV cur (Nat.le_refl _) (by omega)
    have hSP := searchPosition_ok_ranked G hc hr hinj qfuel hq p cur (polled s) v (hr.le (by omega) hSp) hI.tt hI.rep hv hs1
    have hSF := searchPosition_frame G qfuel p cur (polled s)
    have hIF := iterate_frame G qfuel p D n (cur + 1)
    -- the root node, opened
    obtain ⟨d, rfl⟩ : ∃ d, cur = d + 1 := ⟨cur - 1, by omega⟩
    have hdep : TTDepthLe d (pushed G p (polled s)).tt := by
      have := hI.tidy.2
      simp only [Nat.add_sub_cancel] at this
      exact this
    have hRS := root_safe_ranked G hc hr hinj qfuel hq d p (hr.le (by omega) hSp) (pushed G p (polled s)) v hv m0 tl0 hms hI.tt
      (repOK_single (G.hash p) _ (by simp [pushed, polled, hI.rep])) hs1
      hdep
    have hTidy := negamax_pres G (pres_tidy (d + 1)) qfuel (d + 1) (Nat.le_refl _) p 0 NEGATIVE_INFINITY
      INFINITY (pushed G p (polled s))
      ⟨hI.tidy.1, ttDepthLe_mono hdep (Nat.le_succ d)⟩
    rw [searchPosition_eq] at hSP hSF hfin hdh ⊢
    rcases hn : negamax G qfuel (d + 1) p 0 NEGATIVE_INFINITY INFINITY (pushed G p (polled s)) with ⟨ro, s2'⟩
    rw [hn] at hSP hSF hfin hdh hRS hTidy
    simp only at hSP hSF hfin hdh hRS hTidy ⊢
    generalize hs2def : ({ s2' with rep := s2'.rep.drop 1 } : SearchState) = s2 at hSP hSF hfin hdh ⊢
    have hTidy2 : Tidy (d + 1) s2 := by rw [← hs2def]; exact hTidy
    have e_tt : s2.tt = s2'.tt := by rw [← hs2def]
    have e_rep : s2.rep = s2'.rep.drop 1 := by rw [← hs2def]
    have hs2 : s2.stopSeen = false ∧ s2.deeperHits = s.deeperHits := by
      have h0 : s.deeperHits ≤ s2.deeperHits := hSF.deeper
      cases ro with
      | none => exact ⟨hfin, hdh⟩
      | some r =>
        simp only at hfin hdh
        split at hfin
        · rename_i hc'
          rw [if_pos hc'] at hdh
          have f := (cached_qframe_polled G p (d + 1) r s2).trans (hIF (r.score, r.bestMove) _)
          refine ⟨f.noStop hfin, ?_⟩
          have := f.deeper
          omega
        · rename_i hc'
          rw [if_neg hc'] at hdh
          have f := (qframe_polled s2).frame.trans (hIF best _)
          refine ⟨f.noStop hfin, ?_⟩
          have := f.deeper
          omega
    have hs2' : s2'.stopSeen = false ∧ s2'.deeperHits = (pushed G p (polled s)).deeperHits := by
      rw [← hs2def] at hs2; exact hs2
    obtain ⟨r, hr, hres, hT2, hrep2⟩ := hSP hs2'.1 hs2'.2
    rw [← e_tt] at hT2
    rw [← e_rep] at hrep2
    obtain ⟨r', hr', hroot⟩ := hRS hs2'.1 hs2'.2
    subst hr
    obtain rfl : r = r' := Option.some.inj hr'
    simp only at hfin hdh ⊢
    have hsf2 : stopFlag s2 = false := by
      cases h : stopFlag s2
      · rfl
      · rw [h] at hfin
        simp only [Bool.not_true, Bool.false_eq_true, ↓reduceIte] at hfin
        have f := hIF best (polled s2)
        have : (polled s2).stopSeen = true := by simp [polled, h]
        rw [f.stop this] at hfin; cases hfin
    rw [hsf2] at hfin hdh ⊢
    simp only [Bool.not_false, ↓reduceIte] at hfin hdh ⊢
    -- the table entry stored by `iterate`
    have hexact : Spec.clampClass r.score = Spec.clampClass v :=
      rootExact_class G (d + 1) D p (d + 1) v (Nat.le_refl _) (by omega) hv r.score hres.contract
    have hmove : G.moves p ≠ [] → ∃ m, r.bestMove = some m ∧ m ∈ G.moves p := hres.move (by omega)
    have hpv : NEGATIVE_INFINITY < Spec.clampClass r.score → Spec.clampClass r.score < INFINITY →
        ∀ k m x, d + 1 = k + 1 → r.bestMove = some m → Spec.V G qf k (G.play p m) = some x → -x = r.score :=
      fun a b k m x hk hm hx => hres.pv a b k hk m x hm hx
    have hEnt : EntryOK G Spec.clampClass qf p ⟨G.hash p, r.score, r.bestMove, d + 1, .exact⟩ := by
      refine ⟨?_, ?_, ?_, fun _ => hmove, fun _ => hpv⟩
      · intro v' hv' _
        simp only at hv' ⊢
        rw [hv] at hv'; cases hv'; exact hexact
      · intro _ _ hb'; cases hb'
      · intro _ _ hb'; cases hb'
    -- from iteration k0 on the answer is good
    have hgood : k0 ≤ d + 1 → ∃ m, r.bestMove = some m ∧ m ∈ G.moves p ∧ Good m := by
      intro hk
      rcases Nat.lt_or_ge k0 (d + 1) with hlt | hge
      · rcases hroot with ⟨hfirst, _⟩ | ⟨m, hm, hmem, hh⟩
        · -- every move loses: the first move after ordering is the previous answer
          obtain ⟨e, m, hre, hem, hmem, hg⟩ := hI.entry hlt
          have hre' : (pushed G p (polled s)).tt.retrieve (G.hash p) = some e := hre
          rw [hre'] at hfirst
          simp only [Option.bind_some, hem] at hfirst
          obtain ⟨tl, hord⟩ := orderMoves_tt_first G (pushed G p (polled s)).incrementNodes hI.tidy.1 p
            (G.moves p) m hmem 0
          rw [hord] at hfirst
          exact ⟨m, hfirst, hmem, hg⟩
        · exact ⟨m, hm, hmem, hKeep d m (by omega) (by omega) hmem hh⟩
      · obtain rfl : k0 = d + 1 := by omega
        apply hEst r v hv hres
        rcases hroot with ⟨_, hall⟩ | h
        · exact Or.inl hall
        · exact Or.inr h
    -- the invariant for the next iteration
    have hstore : ∀ prev, (polled s2).tt.table[G.hash p]? = some prev → prev.depth ≤ d + 1 :=
      fun prev hp => hTidy2.2 _ prev hp
    have hI' : TrackInv G Good k0 (Ranked.U S) qf p (d + 1 + 1) (r.score, r.bestMove)
        (cached G p (d + 1) r (polled s2)) := by
      refine ⟨ttSound_store G hinj hT2 p (Ranked.mem_U hSp) _ _ _ _ hEnt, hrep2, ?_, ?_, ?_⟩
      · exact ⟨hTidy2.1, ttDepthLe_store hTidy2.2 _ _ _ _ _ (Nat.le_refl _)⟩
      · intro h3
        obtain ⟨m, hm, hmem, hg⟩ := hgood (by omega)
        refine ⟨⟨G.hash p, r.score, r.bestMove, d + 1, .exact⟩, m, ?_, hm, hmem, hg⟩
        exact retrieve_of_get_some _ (G.hash p) ⟨G.hash p, r.score, r.bestMove, d + 1, .exact⟩
          (store_get_self _ _ _ _ _ _ hstore) rfl
      · intro h34
        exact hgood (by omega)
    obtain ⟨b, hb, hbs⟩ := ih (d + 1 + 1) (r.score, r.bestMove) (cached G p (d + 1) r (polled s2)) (by omega)
      (by omega) (fun d' hd hd' => hV d' (by omega) hd') hI'
      (by simp [cached, polled, hs2.1, hsf2]) hfin (by rw [hdh]; exact hs2.2.symm)
    exact ⟨b, hb, hbs⟩

/-- `find_best_move` form of `iterate_track` (fresh engine). -/
theorem findBestMove_track_ranked {S : Nat → P → Prop} (hr : Ranked G S) (hinj : HashInj G (Ranked.U S)) (qfuel : Nat)
    (hq : qf ≤ qfuel) (p : P) (D : Nat) (hSp : S D p) (hne : G.moves p ≠ [])
    (Good : Move → Prop) (k0 : Nat) (hk1 : 1 ≤ k0) (hkD : k0 ≤ D)
    (hEst : ∀ r v, Spec.V G qf k0 p = some v →
      ResultOK G Spec.clampClass qf k0 p NEGATIVE_INFINITY INFINITY v r →
      ((∀ m ∈ G.moves p, Loses G qf (k0 - 1) p m) ∨
        ∃ m, r.bestMove = some m ∧ m ∈ G.moves p ∧ Holds G qf (k0 - 1) p m) →
      ∃ m, r.bestMove = some m ∧ m ∈ G.moves p ∧ Good m)
    (hKeep : ∀ d m, k0 ≤ d → d + 1 ≤ D → m ∈ G.moves p → Holds G qf d p m → Good m)
    (hV : ∀ d, 1 ≤ d → d ≤ D → ∃ w, Spec.V G qf d p = some w) (limit : Limit)
    (hfin : (findBestMove G qfuel p D limit {}).2.stopSeen = false)
    (hdh : (findBestMove G qfuel p D limit {}).2.deeperHits = 0) :
    ∃ score m, (findBestMove G qfuel p D limit {}).1 = some (score, some m) ∧ m ∈ G.moves p ∧ Good m := by
  rw [findBestMove_snd] at hfin hdh
  have hI : TrackInv G Good k0 (Ranked.U S) qf p 1 (NEGATIVE_INFINITY, none) (started limit {}) := by
    refine ⟨ttSound_new G _ (Ranked.U S) qf, rfl, ⟨histOK_ageHistory (histOK_of_history histOK_fresh rfl), ?_⟩,
      fun h => by omega, fun h => by omega⟩
    exact ttDepthLe_empty _
  obtain ⟨b, hb, hbs⟩ := iterate_track_ranked G hr hinj qfuel hq p D hSp hne Good k0 hEst hKeep D 1
    (NEGATIVE_INFINITY, none) (started limit {}) (Nat.le_refl _) (by omega) hV hI rfl hfin hdh
  obtain ⟨m, hm, hmem, hg⟩ := hbs hkD
  rw [findBestMove_eq]
  rcases hit : iterate G qfuel p D D 1 (NEGATIVE_INFINITY, none) (started limit {}) with ⟨ro, s2⟩
  rw [hit] at hb
  simp only at hb
  subst hb
  rcases b with ⟨sc, mo⟩
  simp only at hm
  subst hm
  exact ⟨sc, m, rfl, hmem, hg⟩

/-- **an avoidable mate in one is avoided** at depth 2 and 3 — in terms of `Allows`. -/
theorem findBestMove_safe_ranked {S : Nat → P → Prop} (hE : EvalBound G) (hr : Ranked G S)
    (hinj : HashInj G (Ranked.U S)) (qfuel : Nat) (hq : qf ≤ qfuel) (p : P) (D : Nat) (hSp : S D p) (hD : D = 2 ∨ D = 3)
    (hV : ∀ d, 1 ≤ d → d ≤ D → ∃ w, Spec.V G qf d p = some w)
    (hsafe : ∃ m, m ∈ G.moves p ∧ ¬ Allows G p m) (limit : Limit)
    (hfin : (findBestMove G qfuel p D limit {}).2.stopSeen = false)
    (hdh : (findBestMove G qfuel p D limit {}).2.deeperHits = 0) :
    ∃ score m, (findBestMove G qfuel p D limit {}).1 = some (score, some m) ∧ m ∈ G.moves p ∧
      ¬ Allows G p m := by
  obtain ⟨ms, hmsm, hmss⟩ := hsafe
  have hne : G.moves p ≠ [] := fun e => by rw [e] at hmsm; cases hmsm
  apply findBestMove_track_ranked G hr hinj qfuel hq p D hSp hne (fun m => ¬ Allows G p m) 2 (by omega)
    (by omega) ?_ ?_ hV limit hfin hdh
  · -- iteration 2: "every move loses at child depth 1" would mean every move allows a mate
    intro r v _ _ hroot
    rcases hroot with hall | ⟨m, hm, hmem, hh⟩
    · exact absurd (allows_of_loses G hE qf p ms (hall ms hmsm)) hmss
    · exact ⟨m, hm, hmem, not_allows_of_holds G qf 0 (by omega) p m hh⟩
  · -- iteration 3
    intro d m hd hdD hmem hh
    obtain rfl : d = 2 := by omega
    exact not_allows_of_holds G qf 1 (by omega) p m hh

end avoidRanked
end Flounder.Search
