/-
  Search with a game history, part 6: a depth-1 `find_best_move` on an EMPTY table never reuses a record.

  The instrumentation hypothesis "no deeper record reused" (`deeperHits` unchanged) of the soundness theorems
  is discharged here for the smallest interesting run: every probe of a depth-1 search from an empty table
  misses (the only store happens at the very end of the root node), so the counter cannot move.  This makes
  `find_best_move_value_history` unconditional for `D = 1` (Props/C09Search.lean: `depth_one_value_history`) —
  the statement the driver's oracle `eng.judge1` checks.
-/
import Flounder.Lemmas.DrawIterate

namespace Flounder.Search
open Flounder Gen

section depthone
variable {P : Type} (G : Game P)

/-- every lookup misses. -/
def TTEmpty (t : TT) : Prop := ∀ k, t.retrieve k = none

theorem ttEmpty_new : TTEmpty ({} : SearchState).tt := by
  intro k; simp [TT.retrieve]

/-- an empty table is sound for everything. -/
theorem ttSoundD_of_empty {t : TT} (h : TTEmpty t) (c : Int → Int) (drawn : P → Bool) (S : P → Prop) (qf : Nat) :
    TTSoundD G c drawn S qf t := by
  intro p _ e he
  rw [h] at he; cases he

theorem probeTT_empty (s : SearchState) (h : TTEmpty s.tt) (p : P) (d : Nat) (α β : Int) :
    probeTT G s p d α β = (none, none, s) := by
  unfold probeTT; rw [h]

/-- a leaf on an empty table: table and counter untouched. -/
theorem negamax_zero_empty (qfuel : Nat) (p : P) (ply : Nat) (α β : Int) (s : SearchState) (h : TTEmpty s.tt) :
    (negamax G qfuel 0 p ply α β s).2.tt = s.tt ∧
    (negamax G qfuel 0 p ply α β s).2.deeperHits = s.deeperHits := by
  rw [negamax_zero]
  split
  · exact ⟨rfl, rfl⟩
  · rw [probeTT_empty G s.incrementNodes h]
    have f := leafResult_qframe G qfuel p α β s.incrementNodes
    exact ⟨f.tt, f.deeper⟩

/-- the loop over leaves on an empty table: table and counter untouched. -/
theorem negamaxLoop_empty (rec : P → Nat → Int → Int → SearchState → Option SearchResult × SearchState)
    (hrec : ∀ q ply a b s, TTEmpty s.tt → (rec q ply a b s).2.tt = s.tt ∧
      (rec q ply a b s).2.deeperHits = s.deeperHits)
    (p : P) (depth ply : Nat) (β : Int) :
    ∀ (ms : List Move) (acc : LoopAcc) (s : SearchState), TTEmpty s.tt →
      (negamaxLoop G rec p depth ply β ms acc s).2.tt = s.tt ∧
      (negamaxLoop G rec p depth ply β ms acc s).2.deeperHits = s.deeperHits := by
  intro ms
  induction ms with
  | nil => intro acc s _; exact ⟨rfl, rfl⟩
  | cons mv rest ih =>
    intro acc s h
    rw [negamaxLoop_cons]
    split
    · exact ⟨rfl, rfl⟩
    · have h1 := hrec (G.play p mv) (ply + 1) (-β) (-acc.alpha) (polled s) h
      rcases hres : rec (G.play p mv) (ply + 1) (-β) (-acc.alpha) (polled s) with ⟨ro, s2⟩
      rw [hres] at h1
      simp only at h1
      have h1t : s2.tt = s.tt := h1.1
      have h1d : s2.deeperHits = s.deeperHits := h1.2
      cases ro with
      | none => exact ⟨h1t, h1d⟩
      | some r =>
        simp only
        split
        · have f := qframe_cut s2 mv ply depth
          exact ⟨f.tt.trans h1t, f.deeper.trans h1d⟩
        · have h2 := ih ⟨max acc.alpha (-r.score),
            if -r.score > acc.best.score then ⟨-r.score, some mv⟩ else acc.best⟩ s2 (by rw [h1t]; exact h)
          exact ⟨h2.1.trans h1t, h2.2.trans h1d⟩

theorem finishNode_deeper (p : P) (d1 : Nat) (α β : Int) (acc : LoopAcc) (s : SearchState) :
    (finishNode G p d1 α β acc s).2.deeperHits = s.deeperHits := by
  unfold finishNode
  split <;> rfl

/-- a depth-1 node on an empty table: the counter does not move. -/
theorem negamax_one_empty (qfuel : Nat) (p : P) (ply : Nat) (α β : Int) (s : SearchState) (h : TTEmpty s.tt) :
    (negamax G qfuel 1 p ply α β s).2.deeperHits = s.deeperHits := by
  rw [negamax_succ]
  split
  · rfl
  · rw [probeTT_empty G s.incrementNodes h]
    simp only
    unfold innerResult
    split
    · split <;> rfl
    · rename_i m0 tl hm
      have hl := negamaxLoop_empty G (negamax G qfuel 0) (fun q ply a b s' hs' => negamax_zero_empty G qfuel q ply a b s' hs')
        p (0 + 1) ply β (orderMoves G s.incrementNodes p (G.moves p) none ply)
        ⟨α, ⟨NEGATIVE_INFINITY, some ((orderMoves G s.incrementNodes p (G.moves p) none ply).headD m0)⟩⟩
        s.incrementNodes h
      rcases hlr : negamaxLoop G (negamax G qfuel 0) p (0 + 1) ply β
        (orderMoves G s.incrementNodes p (G.moves p) none ply)
        ⟨α, ⟨NEGATIVE_INFINITY, some ((orderMoves G s.incrementNodes p (G.moves p) none ply).headD m0)⟩⟩
        s.incrementNodes with ⟨ro, s2⟩
      rw [hlr] at hl
      simp only at hl
      cases ro with
      | none => exact hl.2
      | some acc =>
        simp only
        rw [finishNode_deeper]
        exact hl.2

theorem searchPosition_one_empty (qfuel : Nat) (p : P) (s : SearchState) (h : TTEmpty s.tt) :
    (searchPosition G qfuel p 1 s).2.deeperHits = s.deeperHits := by
  rw [searchPosition_eq]
  exact negamax_one_empty G qfuel p 0 NEGATIVE_INFINITY INFINITY (pushed G p s) h

/-- **a depth-1 `find_best_move` on an empty table reuses nothing** — any game, stack, fuel and deadline. -/
theorem findBestMove_one_no_deeper (qfuel : Nat) (p : P) (limit : Limit) (s : SearchState) (h : TTEmpty s.tt) :
    (findBestMove G qfuel p 1 limit s).2.deeperHits = s.deeperHits := by
  rw [findBestMove_snd, iterate_succ]
  have h0 : (started limit s).deeperHits = s.deeperHits := rfl
  have ht : TTEmpty (polled (started limit s)).tt := h
  rw [if_neg (by omega)]
  split
  · exact h0
  · have h1 := searchPosition_one_empty G qfuel p (polled (started limit s)) ht
    rcases hsp : searchPosition G qfuel p 1 (polled (started limit s)) with ⟨ro, s2⟩
    rw [hsp] at h1
    simp only at h1
    cases ro with
    | none => exact h1.trans h0
    | some r =>
      simp only
      split
      · rw [iterate_zero]; exact h1.trans h0
      · rw [iterate_zero]; exact h1.trans h0

end depthone
end Flounder.Search
