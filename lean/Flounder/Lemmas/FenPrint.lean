/-
  A canonical FEN printer over `List Char` (six fields), used to state the parser round trip.
-/
import Flounder.Model.Fen
import Flounder.Spec.Chess
import Flounder.Lemmas.FenDec

namespace Flounder.Lemmas.FenPrint
open Flounder Flounder.Lemmas.FenDec

/-- the FEN letter of a man: upper case for white. -/
def pieceChar : Color → Piece → Char
  | .white, .pawn => 'P' | .white, .knight => 'N' | .white, .bishop => 'B'
  | .white, .rook => 'R' | .white, .queen => 'Q' | .white, .king => 'K'
  | .black, .pawn => 'p' | .black, .knight => 'n' | .black, .bishop => 'b'
  | .black, .rook => 'r' | .black, .queen => 'q' | .black, .king => 'k'

/-- the contents of `n` consecutive squares from `sq` on. -/
def cellsFrom (g : Nat → Option Spec.Man) : Nat → Nat → List (Option Spec.Man)
  | _, 0 => []
  | sq, n + 1 => g sq :: cellsFrom g (sq + 1) n

/-- a pending run of empty squares is written as one digit. -/
def flushRun (run : Nat) : List Char := if run = 0 then [] else [digitChar run]

/-- one rank of the placement field: letters, empty squares as digit runs. -/
def encodeCells : List (Option Spec.Man) → Nat → List Char
  | [], run => flushRun run
  | none :: rest, run => encodeCells rest (run + 1)
  | some (c, p) :: rest, run => flushRun run ++ pieceChar c p :: encodeCells rest 0

def rankText (b : Board) (rank : Nat) : List Char := encodeCells (cellsFrom (Spec.absBoard b) (rank * 8) 8) 0

/-- `ranks.join("/")`. -/
def joinSlash : List (List Char) → List Char
  | [] => []
  | [r] => r
  | r :: r' :: rs => r ++ '/' :: joinSlash (r' :: rs)

/-- placement field: rank 8 first. -/
def placementText (b : Board) : List Char :=
  joinSlash [rankText b 7, rankText b 6, rankText b 5, rankText b 4, rankText b 3, rankText b 2, rankText b 1, rankText b 0]

def sideText (c : Color) : List Char := match c with | .white => ['w'] | .black => ['b']

def castleText (cs : Castle) : List Char :=
  let l := (if cs.wk then ['K'] else []) ++ (if cs.wq then ['Q'] else []) ++
           (if cs.bk then ['k'] else []) ++ (if cs.bq then ['q'] else [])
  if l.isEmpty then ['-'] else l

def epText (ep : Option Nat) : List Char := match ep with | none => ['-'] | some s => squareToAlgebraic s

/-- **the canonical FEN of a board**, as its six fields. -/
def toFen (b : Board) : List (List Char) :=
  [placementText b, sideText b.active, castleText b.castle, epText b.ep, decChars b.halfmove, decChars b.fullmove]

end Flounder.Lemmas.FenPrint
