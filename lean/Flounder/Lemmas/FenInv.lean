/-
  What a successfully parsed FEN looks like (inversion of `fenToBoard = .ok _`), and: none of its six
  fields is the word `moves`, so the `moves` keyword of a `position fen …` command is found where expected.
-/
import Flounder.Model.Engine
import Flounder.Lemmas.FenDec

namespace Flounder.Lemmas.FenInv
open Flounder Flounder.Engine

theorem fen_ok_inv (f1 f2 f3 f4 f5 f6 : List Char) (b : Board) (h : fenToBoard [f1, f2, f3, f4, f5, f6] = .ok b) :
    (∃ b0, parsePlacement f1 = some (some b0)) ∧ (∃ c rest, f2 = c :: rest ∧ (c = 'w' ∨ c = 'b')) ∧
    f3.length ≤ 4 ∧ f4.length ≤ 2 ∧
    (∃ n, parseDec f5 Gen.FEN_HALFMOVE_BOUND = some n ∧ b.halfmove = n) ∧
    (∃ n, parseDec f6 Gen.FEN_FULLMOVE_BOUND = some n ∧ b.fullmove = n) := by
  have hfin : ∀ B col cs e b, fenToBoard.finish [f1, f2, f3, f4, f5, f6] B col cs e = .ok b →
      (∃ n, parseDec f5 Gen.FEN_HALFMOVE_BOUND = some n ∧ b.halfmove = n) ∧
      (∃ n, parseDec f6 Gen.FEN_FULLMOVE_BOUND = some n ∧ b.fullmove = n) := by
    intro B col cs e b hb
    simp only [fenToBoard.finish] at hb
    split at hb
    · next h1 h2 =>
      simp only [FenResult.ok.injEq] at hb; subst hb
      exact ⟨⟨_, h1, rfl⟩, ⟨_, h2, rfl⟩⟩
    · cases hb
  unfold fenToBoard at h
  simp only at h
  split at h
  · cases h
  · cases h
  · next b0 hp =>
    split at h
    · cases h
    · next c rest =>
      split at h
      · cases h
      · next hc =>
        split at h
        · cases h
        · next hl3 =>
          split at h
          · cases h
          · next hl4 =>
            have hcw : c = 'w' ∨ c = 'b' := by
              by_cases h1 : c = 'w'
              · exact Or.inl h1
              · by_cases h2 : c = 'b'
                · exact Or.inr h2
                · exact absurd ⟨h1, h2⟩ hc
            refine ⟨⟨b0, hp⟩, ⟨c, rest, rfl, hcw⟩, by omega, by omega, ?_⟩
            split at h
            · cases h
            · exact hfin _ _ _ _ _ h
            · split at h
              · cases h
              · split at h
                · exact hfin _ _ _ _ _ h
                · cases h

/-- the counters of every parsed board are below the generated bounds (u16 range). -/
theorem fen_ok_counters (f1 f2 f3 f4 f5 f6 : List Char) (b : Board) (h : fenToBoard [f1, f2, f3, f4, f5, f6] = .ok b) :
    b.halfmove < Gen.FEN_HALFMOVE_BOUND ∧ b.fullmove < Gen.FEN_FULLMOVE_BOUND := by
  obtain ⟨_, _, _, _, ⟨n, hn, e1⟩, ⟨m, hm, e2⟩⟩ := fen_ok_inv f1 f2 f3 f4 f5 f6 b h
  have aux : ∀ s B k, parseDec s B = some k → k < B := fun s B k hk => (FenDec.parseDec_some s B k hk).1
  exact ⟨e1 ▸ aux _ _ _ hn, e2 ▸ aux _ _ _ hm⟩

theorem fen_ok_no_moves (f1 f2 f3 f4 f5 f6 : List Char) (b : Board) (h : fenToBoard [f1, f2, f3, f4, f5, f6] = .ok b) :
    f1 ≠ kwMoves ∧ f2 ≠ kwMoves ∧ f3 ≠ kwMoves ∧ f4 ≠ kwMoves ∧ f5 ≠ kwMoves ∧ f6 ≠ kwMoves := by
  obtain ⟨⟨b0, h1⟩, ⟨c, rest, h2, hc⟩, h3, h4, ⟨n, h5, _⟩, ⟨m, h6, _⟩⟩ := fen_ok_inv f1 f2 f3 f4 f5 f6 b h
  refine ⟨?_, ?_, ?_, ?_, ?_, ?_⟩
  · rintro rfl
    have : parsePlacement kwMoves = none := by decide
    rw [this] at h1; cases h1
  · rintro rfl
    simp only [kwMoves, List.cons.injEq] at h2
    obtain ⟨rfl, _⟩ := h2
    rcases hc with hc | hc <;> exact absurd hc (by decide)
  · rintro rfl; simp [kwMoves] at h3
  · rintro rfl; simp [kwMoves] at h4
  · rintro rfl
    have : parseDec kwMoves Gen.FEN_HALFMOVE_BOUND = none := by decide
    rw [this] at h5; cases h5
  · rintro rfl
    have : parseDec kwMoves Gen.FEN_FULLMOVE_BOUND = none := by decide
    rw [this] at h6; cases h6

theorem movesAfter_fen_moves (f1 f2 f3 f4 f5 f6 : List Char) (b : Board) (ts : List Tok)
    (h : fenToBoard [f1, f2, f3, f4, f5, f6] = .ok b) :
    movesAfter (kwPosition :: kwFen :: f1 :: f2 :: f3 :: f4 :: f5 :: f6 :: kwMoves :: ts) = some ts := by
  obtain ⟨n1, n2, n3, n4, n5, n6⟩ := fen_ok_no_moves f1 f2 f3 f4 f5 f6 b h
  have h1 : kwPosition ≠ kwMoves := by decide
  have h2 : kwFen ≠ kwMoves := by decide
  simp [movesAfter, List.dropWhile, h1, h2, n1, n2, n3, n4, n5, n6]

theorem movesAfter_fen_nomoves (f1 f2 f3 f4 f5 f6 : List Char) (b : Board)
    (h : fenToBoard [f1, f2, f3, f4, f5, f6] = .ok b) :
    movesAfter [kwPosition, kwFen, f1, f2, f3, f4, f5, f6] = none := by
  obtain ⟨n1, n2, n3, n4, n5, n6⟩ := fen_ok_no_moves f1 f2 f3 f4 f5 f6 b h
  have h1 : kwPosition ≠ kwMoves := by decide
  have h2 : kwFen ≠ kwMoves := by decide
  simp [movesAfter, List.dropWhile, h1, h2, n1, n2, n3, n4, n5, n6]

end Flounder.Lemmas.FenInv
