/-
  C13 helpers, part 4: the simulation at the level of the UCI loop.

  Two processes with the same tables (`mg`), the same quiescence fuel and DIFFERENT streams of key draws
  run the same script.  `visited mg script b` is the (key-independent) set of boards the run hashes:
  the boards a `position` command passes through and the boards within `D` plies of the current board for
  every `go` with parsed depth `D`.  If the two key streams have the same collisions on a set `U` that
  contains all visited boards, the two engines stay related command by command and print the same lines.
-/
import Flounder.Lemmas.KeySimSearch
import Flounder.Lemmas.Uci
import Flounder.Lemmas.UciPosition

namespace Flounder.KeySim
open Flounder Gen Flounder.Search Flounder.Engine Flounder.Lemmas.Uci Flounder.Lemmas.UciPosition

/-! ### the rules of chess do not depend on the keys -/

/-- a key table used only where the hash is irrelevant. -/
def noKeys : ZKeys := ⟨fun _ _ _ => 0, 0, fun _ _ => 0, fun _ => 0⟩

/-- the chess game of the engine with an irrelevant hash: only `moves` and `play` of it are used. -/
def rulesGame (mg : MoveGenerator) : Game Board := chessGame mg noKeys

theorem chess_sameRules (mg : MoveGenerator) (k k' : ZKeys) : SameRules (chessGame mg k) (chessGame mg k') :=
  ⟨rfl, rfl, rfl, rfl, rfl, rfl⟩

theorem within_congr {P : Type} {G₁ G₂ : Game P} (hR : SameRules G₁ G₂) {root : P} {n : Nat} {q : P}
    (h : Within G₁ root n q) : Within G₂ root n q := by
  induction h with
  | root n => exact Within.root n
  | @step n q m _ hm ih =>
    rw [hR.moves] at hm
    rw [hR.play]
    exact Within.step ih hm

/-! ### the boards a run hashes -/

/-- the boards hashed by a `position` command: those it passes through (pushed on the repetition stack)
    and the one it ends on. -/
def positionBoards (mg : MoveGenerator) (parts : List Tok) (q : Board) : Prop :=
  match positionBase parts with
  | none => False
  | some (_, b0) =>
    match movesAfter parts with
    | none => q = b0
    | some ts =>
      match replay mg ts b0 with
      | none => False
      | some (past, fin) => q ∈ past ∨ q = fin

/-- the board after a `position` command (unchanged when the command is ignored). -/
def positionNext (mg : MoveGenerator) (parts : List Tok) (b : Board) : Board :=
  match positionBase parts with
  | none => b
  | some (_, b0) =>
    match movesAfter parts with
    | none => b0
    | some ts =>
      match replay mg ts b0 with
      | none => b
      | some (_, fin) => fin

/-- the boards hashed by one command on current board `b` (same dispatch order as `handleCommand`). -/
def cmdBoards (mg : MoveGenerator) (parts : List Tok) (b : Board) (q : Board) : Prop :=
  match parts with
  | [] => False
  | cmd :: _ =>
    if cmd = kwUci then False
    else if cmd = kwIsready then False
    else if cmd = kwUcinewgame then False
    else if cmd = kwPosition then positionBoards mg parts q
    else if cmd = kwGo then Within (rulesGame mg) b (goParams b.active parts).depth q
    else False

/-- the current board after one command. -/
def cmdNext (mg : MoveGenerator) (parts : List Tok) (b : Board) : Board :=
  match parts with
  | [] => b
  | cmd :: _ =>
    if cmd = kwUci then b
    else if cmd = kwIsready then b
    else if cmd = kwUcinewgame then Board.startpos
    else if cmd = kwPosition then positionNext mg parts b
    else b

/-- every board the run of `script` from current board `b` hashes (it over-approximates only in that it
    keeps going after a command that ends the run). Depends on the tables `mg`, not on any key. -/
def visited (mg : MoveGenerator) : List (List Char) → Board → Board → Prop
  | [], _, _ => False
  | line :: rest, b, q =>
    cmdBoards mg (splitWs line) b q ∨ visited mg rest (cmdNext mg (splitWs line) b) q

/-! ### the engine relation -/

/-- the two engines are in the same state up to the renaming of hash keys. -/
structure ERel (mg : MoveGenerator) (keys₁ keys₂ : Nat → ZKeys) (U : Board → Prop) (e₁ e₂ : Engine) : Prop where
  board : e₁.board = e₂.board
  newGames : e₁.newGames = e₂.newGames
  nextLimit : e₁.nextLimit = e₂.nextLimit
  sim : Sim (chessGame mg (keys₁ e₁.newGames)) (chessGame mg (keys₂ e₁.newGames)) U e₁.search e₂.search

/-- the two key streams have the same collisions on `U`, draw by draw. -/
def KeysAlike (keys₁ keys₂ : Nat → ZKeys) (U : Board → Prop) : Prop :=
  ∀ i p q, U p → U q → (hash (keys₁ i) q = hash (keys₁ i) p ↔ hash (keys₂ i) q = hash (keys₂ i) p)

theorem KeysAlike.same {keys₁ keys₂ : Nat → ZKeys} {U : Board → Prop} (h : KeysAlike keys₁ keys₂ U)
    (mg : MoveGenerator) (i : Nat) : SameCollisions (chessGame mg (keys₁ i)) (chessGame mg (keys₂ i)) U :=
  fun p q hp hq => h i p q hp hq

section rel
variable {mg : MoveGenerator} {keys₁ keys₂ : Nat → ZKeys} {U : Board → Prop} {qfuel : Nat}

theorem erel_fresh : ERel mg keys₁ keys₂ U {} {} := ⟨rfl, rfl, rfl, sim_fresh⟩

/-! ### `go` -/

/-- the deadline oracle handed to `find_best_move`. -/
def goLimit (e : Engine) (parts : List Tok) : Limit :=
  match (goParams e.board.active parts).timeLimit with
  | none => .none
  | some ms => match e.nextLimit with
    | some l => l
    | none => if ms = 0 then .polls 0 else .none

/-- what `handle_go_command` does with the answer of `find_best_move`. -/
def goResult (e : Engine) (r : Option (Int × Option Move) × SearchState) : List (List Char) × Engine × Outcome :=
  match r with
  | (none, s) => ([], { e with search := s, nextLimit := none }, .outOfFuel)
  | (some (_, best), s) =>
    (s.info.reverse.map (fun (d, sc, n, pv) => infoLine d sc n pv) ++
      [match best with
        | some m => str "bestmove " ++ m.toAlgebraic
        | none => str "bestmove 0000"],
      { e with search := s, nextLimit := none }, .running)

theorem handleGo_eq (ctx : EngineCtx) (e : Engine) (parts : List Tok) :
    handleGo ctx e parts =
      goResult e (findBestMove (chessGame ctx.mg (ctx.keys e.newGames)) ctx.qfuel e.board
        (goParams e.board.active parts).depth (goLimit e parts) e.search) := rfl

theorem handleGo_rel (hk : KeysAlike keys₁ keys₂ U) {e₁ e₂ : Engine} (h : ERel mg keys₁ keys₂ U e₁ e₂)
    (parts : List Tok)
    (hV : ∀ q, Within (rulesGame mg) e₁.board (goParams e₁.board.active parts).depth q → U q) :
    (handleGo ⟨mg, keys₁, qfuel⟩ e₁ parts).1 = (handleGo ⟨mg, keys₂, qfuel⟩ e₂ parts).1 ∧
    (handleGo ⟨mg, keys₁, qfuel⟩ e₁ parts).2.2 = (handleGo ⟨mg, keys₂, qfuel⟩ e₂ parts).2.2 ∧
    ERel mg keys₁ keys₂ U (handleGo ⟨mg, keys₁, qfuel⟩ e₁ parts).2.1 (handleGo ⟨mg, keys₂, qfuel⟩ e₂ parts).2.1 ∧
    (handleGo ⟨mg, keys₁, qfuel⟩ e₁ parts).2.1.board = e₁.board := by
  obtain ⟨b₁, s₁, n₁, l₁⟩ := e₁
  obtain ⟨b₂, s₂, n₂, l₂⟩ := e₂
  obtain ⟨hb, hn, hl, hs⟩ := h
  simp only at hb hn hl hs hV
  subst hb hn hl
  rw [handleGo_eq, handleGo_eq]
  simp only
  have hlim : goLimit ⟨b₁, s₁, n₁, l₁⟩ parts = goLimit ⟨b₁, s₂, n₁, l₁⟩ parts := rfl
  rw [hlim]
  generalize goLimit ⟨b₁, s₂, n₁, l₁⟩ parts = limit
  have hS := horizon_ranked (chessGame mg (keys₁ n₁)) b₁ (goParams b₁.active parts).depth
  have hU : ∀ d p, horizon (chessGame mg (keys₁ n₁)) b₁ (goParams b₁.active parts).depth d p → U p := by
    intro d p hp
    exact hV p (within_congr (chess_sameRules mg _ _) (hp.2.mono (Nat.sub_le _ _)))
  have hf := findBestMove_sim (chess_sameRules mg (keys₁ n₁) (keys₂ n₁)) hS hU (hk.same mg n₁) qfuel b₁
    (goParams b₁.active parts).depth limit (horizon_root _ _ _) hs
  rcases e₁ : findBestMove (chessGame mg (keys₁ n₁)) qfuel b₁ (goParams b₁.active parts).depth limit s₁
    with ⟨ro₁, t₁⟩
  rcases e₂ : findBestMove (chessGame mg (keys₂ n₁)) qfuel b₁ (goParams b₁.active parts).depth limit s₂
    with ⟨ro₂, t₂⟩
  rw [e₁, e₂] at hf
  obtain ⟨hf1, hf2⟩ := hf
  simp only at hf1 hf2
  subst hf1
  cases ro₁ with
  | none => exact ⟨rfl, rfl, ⟨rfl, rfl, rfl, hf2⟩, rfl⟩
  | some r =>
    obtain ⟨sc, best⟩ := r
    refine ⟨?_, rfl, ⟨rfl, rfl, rfl, hf2⟩, rfl⟩
    simp only [goResult, hf2.info]

/-! ### `position` -/

/-- a `position` command without a base board does nothing but (possibly) end the run; which of the two
    does not depend on the engine or the keys. -/
theorem handlePosition_no_base (parts : List Tok) (h : positionBase parts = none) :
    ∃ oc, ∀ (ctx : EngineCtx) (e : Engine), handlePosition ctx e parts = ([], e, oc) := by
  unfold positionBase at h
  by_cases h1 : parts.length < 2
  · exact ⟨.running, fun ctx e => by unfold handlePosition; simp only [h1, if_true]⟩
  · simp only [h1, if_false] at h
    by_cases h2 : parts.getD 1 [] = kwStartpos
    · rw [if_pos h2] at h; cases h
    · simp only [h2, if_false] at h
      by_cases h3 : parts.getD 1 [] = kwFen
      · simp only [h3, if_true] at h
        by_cases h4 : parts.length < 8
        · exact ⟨.running, fun ctx e => by
            unfold handlePosition; simp only [h1, if_false]; simp only [h2, if_false]
            simp only [h3, if_true]; simp only [h4, if_true]⟩
        · simp only [h4, if_false] at h
          cases hf : fenToBoard ((parts.drop 2).take 6) with
          | ok b0 => rw [hf] at h; cases h
          | err => rw [hf] at h; cases h
          | panic => exact ⟨.panicked, fun ctx e => by
              unfold handlePosition; simp only [h1, if_false]; simp only [h2, if_false]
              simp only [h3, if_true]; simp only [h4, if_false, hf]⟩
          | undef => exact ⟨.outOfFuel, fun ctx e => by
              unfold handlePosition; simp only [h1, if_false]; simp only [h2, if_false]
              simp only [h3, if_true]; simp only [h4, if_false, hf]⟩
      · exact ⟨.running, fun ctx e => by
          unfold handlePosition; simp only [h1, if_false]; simp only [h2, if_false]; simp only [h3, if_false]⟩

theorem handlePosition_rel {e₁ e₂ : Engine} (h : ERel mg keys₁ keys₂ U e₁ e₂) (parts : List Tok)
    (hV : ∀ q, positionBoards mg parts q → U q) :
    (handlePosition ⟨mg, keys₁, qfuel⟩ e₁ parts).1 = (handlePosition ⟨mg, keys₂, qfuel⟩ e₂ parts).1 ∧
    (handlePosition ⟨mg, keys₁, qfuel⟩ e₁ parts).2.2 = (handlePosition ⟨mg, keys₂, qfuel⟩ e₂ parts).2.2 ∧
    ERel mg keys₁ keys₂ U (handlePosition ⟨mg, keys₁, qfuel⟩ e₁ parts).2.1
      (handlePosition ⟨mg, keys₂, qfuel⟩ e₂ parts).2.1 ∧
    ((handlePosition ⟨mg, keys₁, qfuel⟩ e₁ parts).2.2 = .running →
      (handlePosition ⟨mg, keys₁, qfuel⟩ e₁ parts).2.1.board = positionNext mg parts e₁.board) := by
  unfold positionBoards at hV
  unfold positionNext
  cases hb : positionBase parts with
  | none =>
    obtain ⟨oc, hoc⟩ := handlePosition_no_base parts hb
    rw [hoc, hoc]
    exact ⟨rfl, rfl, h, fun _ => rfl⟩
  | some ob =>
    obtain ⟨out, b0⟩ := ob
    rw [hb] at hV
    rw [handlePosition_of_base _ _ _ _ _ hb, handlePosition_of_base _ _ _ _ _ hb]
    unfold positionResult
    dsimp only at hV ⊢
    cases hm : movesAfter parts with
    | none =>
      exact ⟨rfl, rfl, ⟨rfl, h.newGames, h.nextLimit, h.sim.clearRep⟩, fun _ => rfl⟩
    | some ts =>
      rw [hm] at hV
      dsimp only at hV ⊢
      cases hr : replay mg ts b0 with
      | none => exact ⟨rfl, rfl, h, fun hrun => by cases hrun⟩
      | some pf =>
        obtain ⟨past, fin⟩ := pf
        rw [hr] at hV
        dsimp only at hV ⊢
        refine ⟨rfl, rfl, ⟨rfl, h.newGames, h.nextLimit, ?_⟩, fun _ => rfl⟩
        dsimp only
        rw [← h.newGames]
        refine h.sim.replace (t₁ := e₁.search.tt) (t₂ := e₂.search.tt) h.sim.wf₁ h.sim.wf₂ h.sim.agree
          ⟨past.reverse, ?_, ?_, ?_⟩
        · intro q hq
          exact hV q (Or.inl (List.mem_reverse.1 hq))
        · rw [List.map_reverse]; rfl
        · rw [List.map_reverse]; rfl

/-! ### one command, the whole loop -/

theorem handleCommand_rel (hk : KeysAlike keys₁ keys₂ U) {e₁ e₂ : Engine} (h : ERel mg keys₁ keys₂ U e₁ e₂)
    (parts : List Tok) (hV : ∀ q, cmdBoards mg parts e₁.board q → U q) :
    (handleCommand ⟨mg, keys₁, qfuel⟩ e₁ parts).1 = (handleCommand ⟨mg, keys₂, qfuel⟩ e₂ parts).1 ∧
    (handleCommand ⟨mg, keys₁, qfuel⟩ e₁ parts).2.2 = (handleCommand ⟨mg, keys₂, qfuel⟩ e₂ parts).2.2 ∧
    ERel mg keys₁ keys₂ U (handleCommand ⟨mg, keys₁, qfuel⟩ e₁ parts).2.1
      (handleCommand ⟨mg, keys₂, qfuel⟩ e₂ parts).2.1 ∧
    ((handleCommand ⟨mg, keys₁, qfuel⟩ e₁ parts).2.2 = .running →
      (handleCommand ⟨mg, keys₁, qfuel⟩ e₁ parts).2.1.board = cmdNext mg parts e₁.board) := by
  unfold cmdBoards at hV
  unfold handleCommand cmdNext
  cases parts with
  | nil => exact ⟨rfl, rfl, h, fun _ => rfl⟩
  | cons cmd tl =>
    simp only at hV ⊢
    by_cases c1 : cmd = kwUci
    · rw [if_pos c1, if_pos c1, if_pos c1]; exact ⟨rfl, rfl, h, fun _ => rfl⟩
    · simp only [c1, if_false] at hV ⊢
      by_cases c2 : cmd = kwIsready
      · rw [if_pos c2, if_pos c2, if_pos c2]; exact ⟨rfl, rfl, h, fun _ => rfl⟩
      · simp only [c2, if_false] at hV ⊢
        by_cases c3 : cmd = kwUcinewgame
        · rw [if_pos c3, if_pos c3, if_pos c3]
          refine ⟨rfl, rfl, ⟨rfl, ?_, h.nextLimit, sim_fresh⟩, fun _ => rfl⟩
          simp only [h.newGames]
        · simp only [c3, if_false] at hV ⊢
          by_cases c4 : cmd = kwPosition
          · simp only [c4, if_true] at hV ⊢
            exact handlePosition_rel h _ hV
          · simp only [c4, if_false] at hV ⊢
            by_cases c5 : cmd = kwGo
            · simp only [c5, if_true] at hV ⊢
              obtain ⟨g1, g2, g3, g4⟩ := handleGo_rel (qfuel := qfuel) hk h (kwGo :: tl) hV
              exact ⟨g1, g2, g3, fun _ => g4⟩
            · simp only [c5, if_false] at hV ⊢
              by_cases c6 : cmd = kwQuit
              · rw [if_pos c6, if_pos c6]; exact ⟨rfl, rfl, h, fun _ => rfl⟩
              · rw [if_neg c6, if_neg c6]; exact ⟨rfl, rfl, h, fun _ => rfl⟩

/-- the loop: same lines, same outcome, from any two related engines. -/
theorem uciLoop_rel (hk : KeysAlike keys₁ keys₂ U) :
    ∀ (script : List (List Char)) (e₁ e₂ : Engine), ERel mg keys₁ keys₂ U e₁ e₂ →
      (∀ q, visited mg script e₁.board q → U q) →
      uciLoop ⟨mg, keys₁, qfuel⟩ script e₁ = uciLoop ⟨mg, keys₂, qfuel⟩ script e₂ := by
  intro script
  induction script with
  | nil => intro e₁ e₂ _ _; rfl
  | cons line rest ih =>
    intro e₁ e₂ h hV
    obtain ⟨r1, r2, r3, r4⟩ := handleCommand_rel (qfuel := qfuel) hk h (splitWs line)
      (fun q hq => hV q (Or.inl hq))
    rcases h₁ : handleCommand ⟨mg, keys₁, qfuel⟩ e₁ (splitWs line) with ⟨out₁, e₁', oc₁⟩
    rcases h₂ : handleCommand ⟨mg, keys₂, qfuel⟩ e₂ (splitWs line) with ⟨out₂, e₂', oc₂⟩
    rw [h₁, h₂] at r1 r2 r3
    rw [h₁] at r4
    simp only at r1 r2 r3 r4
    subst r1 r2
    by_cases hoc : oc₁ = .running
    · subst hoc
      rw [uciLoop_cons_running _ _ _ _ _ _ h₁, uciLoop_cons_running _ _ _ _ _ _ h₂]
      have := ih e₁' e₂' r3 (fun q hq => hV q (Or.inr (by rw [← r4 rfl]; exact hq)))
      rw [this]
    · rw [uciLoop_cons_stop _ _ _ _ _ _ _ h₁ hoc, uciLoop_cons_stop _ _ _ _ _ _ _ h₂ hoc]

end rel


/-! ### `ucinewgame` = a fresh process under the shifted key stream -/

/-- the process whose `i`-th key draw is the `(i + n)`-th draw of `ctx`. -/
def shiftCtx (n : Nat) (ctx : EngineCtx) : EngineCtx := { ctx with keys := fun i => ctx.keys (i + n) }

/-- the engine that has seen `n` more `ucinewgame`s. -/
def shiftE (n : Nat) (e : Engine) : Engine := { e with newGames := e.newGames + n }

theorem goResult_shift (n : Nat) (e : Engine) (r : Option (Int × Option Move) × SearchState) :
    goResult (shiftE n e) r = ((goResult e r).1, shiftE n (goResult e r).2.1, (goResult e r).2.2) := by
  obtain ⟨ro, s⟩ := r
  cases ro with
  | none => rfl
  | some x => rfl

theorem handleGo_shift (ctx : EngineCtx) (n : Nat) (e : Engine) (parts : List Tok) :
    handleGo ctx (shiftE n e) parts =
      ((handleGo (shiftCtx n ctx) e parts).1, shiftE n (handleGo (shiftCtx n ctx) e parts).2.1,
        (handleGo (shiftCtx n ctx) e parts).2.2) := by
  rw [handleGo_eq, handleGo_eq, goResult_shift]
  rfl

theorem handlePosition_shift (ctx : EngineCtx) (n : Nat) (e : Engine) (parts : List Tok) :
    handlePosition ctx (shiftE n e) parts =
      ((handlePosition (shiftCtx n ctx) e parts).1, shiftE n (handlePosition (shiftCtx n ctx) e parts).2.1,
        (handlePosition (shiftCtx n ctx) e parts).2.2) := by
  cases hb : positionBase parts with
  | none =>
    obtain ⟨oc, hoc⟩ := handlePosition_no_base parts hb
    rw [hoc, hoc]
  | some ob =>
    obtain ⟨out, b0⟩ := ob
    rw [handlePosition_of_base _ _ _ _ _ hb, handlePosition_of_base _ _ _ _ _ hb]
    unfold positionResult
    cases hm : movesAfter parts with
    | none => rfl
    | some ts =>
      have hmg : (shiftCtx n ctx).mg = ctx.mg := rfl
      dsimp only
      rw [hmg]
      cases hr : replay ctx.mg ts b0 with
      | none => rfl
      | some pf => rfl

theorem handleCommand_shift (ctx : EngineCtx) (n : Nat) (e : Engine) (parts : List Tok) :
    handleCommand ctx (shiftE n e) parts =
      ((handleCommand (shiftCtx n ctx) e parts).1, shiftE n (handleCommand (shiftCtx n ctx) e parts).2.1,
        (handleCommand (shiftCtx n ctx) e parts).2.2) := by
  unfold handleCommand
  cases parts with
  | nil => rfl
  | cons cmd tl =>
    dsimp only
    by_cases c1 : cmd = kwUci
    · rw [if_pos c1, if_pos c1]
    · rw [if_neg c1, if_neg c1]
      by_cases c2 : cmd = kwIsready
      · rw [if_pos c2, if_pos c2]
      · rw [if_neg c2, if_neg c2]
        by_cases c3 : cmd = kwUcinewgame
        · rw [if_pos c3, if_pos c3]
          simp only [shiftE, Nat.add_right_comm]
        · rw [if_neg c3, if_neg c3]
          by_cases c4 : cmd = kwPosition
          · rw [if_pos c4, if_pos c4]; exact handlePosition_shift ctx n e _
          · rw [if_neg c4, if_neg c4]
            by_cases c5 : cmd = kwGo
            · rw [if_pos c5, if_pos c5]; exact handleGo_shift ctx n e _
            · rw [if_neg c5, if_neg c5]
              by_cases c6 : cmd = kwQuit
              · rw [if_pos c6, if_pos c6]
              · rw [if_neg c6, if_neg c6]

/-- an engine that has seen `n` more `ucinewgame`s behaves like the engine of the process whose key stream
    starts `n` draws later. -/
theorem uciLoop_shift (ctx : EngineCtx) (n : Nat) :
    ∀ (script : List (List Char)) (e : Engine),
      uciLoop ctx script (shiftE n e) = uciLoop (shiftCtx n ctx) script e := by
  intro script
  induction script with
  | nil => intro e; rfl
  | cons line rest ih =>
    intro e
    have hs := handleCommand_shift ctx n e (splitWs line)
    rcases h₂ : handleCommand (shiftCtx n ctx) e (splitWs line) with ⟨out, e', oc⟩
    rw [h₂] at hs
    dsimp only at hs
    by_cases hoc : oc = .running
    · subst hoc
      rw [uciLoop_cons_running _ _ _ _ _ _ hs, uciLoop_cons_running _ _ _ _ _ _ h₂, ih]
    · rw [uciLoop_cons_stop _ _ _ _ _ _ _ hs hoc, uciLoop_cons_stop _ _ _ _ _ _ _ h₂ hoc]

/-- `uciLoop` on a concatenation, in terms of `runLines` of the first part. -/
theorem uciLoop_append_running (ctx : EngineCtx) (l₁ l₂ : List (List Char)) (e : Engine)
    (hrun : (runLines ctx l₁ e).2.2 = .running) :
    uciLoop ctx (l₁ ++ l₂) e =
      ((runLines ctx l₁ e).1 ++ (uciLoop ctx l₂ (runLines ctx l₁ e).2.1).1,
        (uciLoop ctx l₂ (runLines ctx l₁ e).2.1).2) := by
  induction l₁ generalizing e with
  | nil => rfl
  | cons line rest ih =>
    rcases hh : handleCommand ctx e (splitWs line) with ⟨out, e', oc⟩
    by_cases hoc : oc = .running
    · subst hoc
      rw [runLines_cons_running ctx e e' line rest out hh] at hrun ⊢
      rw [List.cons_append, uciLoop_cons_running ctx e e' line _ out hh, ih e' hrun]
      simp only [List.append_assoc]
    · rw [runLines_cons_stop ctx e e' line rest out oc hh hoc] at hrun
      exact absurd hrun hoc

/-- the answer to a `ucinewgame` line. -/
theorem handleCommand_ucinewgame (ctx : EngineCtx) (e : Engine) (line : List Char)
    (hline : (splitWs line).head? = some kwUcinewgame) :
    handleCommand ctx e (splitWs line) =
      ([], { board := Board.startpos, search := {}, newGames := e.newGames + 1, nextLimit := e.nextLimit },
        .running) := by
  cases hp : splitWs line with
  | nil => rw [hp] at hline; cases hline
  | cons cmd tl =>
    rw [hp] at hline
    simp only [List.head?_cons, Option.some.injEq] at hline
    subst hline
    rfl

end Flounder.KeySim
