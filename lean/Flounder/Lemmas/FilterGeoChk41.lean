/- kernel evaluation of the collinear-triple checker, king squares 16 .. 31 (see FilterGeoDefs.lean). -/
import Flounder.Lemmas.FilterGeoDefs
namespace Flounder.Spec.NonKing
set_option maxRecDepth 100000 in
theorem chkTri_ok1 : chkTri 16 16 = true := by decide +kernel
end Flounder.Spec.NonKing
