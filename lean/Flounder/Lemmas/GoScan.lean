/-
  Helpers for C12Parse: the index/fuel loop `scanClocks` equals a structurally recursive scan of the
  token suffix, and `goLoop` past the end of the line returns its accumulator.
-/
import Flounder.Model.Go

namespace Flounder
open Gen

/-- the clock scan as a structural recursion over the remaining tokens. -/
def scanList : List Tok → Clocks → Clocks
  | [], c => c
  | [_], c => c
  | t :: v :: rest, c =>
    if t = kwWtime then scanList rest { c with wtime := (parseU64 v).getD 0 }
    else if t = kwBtime then scanList rest { c with btime := (parseU64 v).getD 0 }
    else if t = kwWinc then scanList rest { c with winc := (parseU64 v).getD 0 }
    else if t = kwBinc then scanList rest { c with binc := (parseU64 v).getD 0 }
    else scanList (v :: rest) c

theorem scanClocks_past (fuel : Nat) (parts : List Tok) (i : Nat) (c : Clocks)
    (h : parts.length ≤ i) : scanClocks fuel parts i c = c := by
  cases fuel with
  | zero => rfl
  | succ f => simp [scanClocks, Nat.not_lt.mpr h]

theorem getD_eq_of_drop {parts : List Tok} {i : Nat} {t : Tok} {rest : List Tok}
    (h : parts.drop i = t :: rest) : parts.getD i [] = t ∧ i < parts.length ∧ parts.drop (i + 1) = rest := by
  have hi : i < parts.length := by
    apply Nat.lt_of_not_le
    intro hle
    rw [List.drop_eq_nil_of_le hle] at h
    cases h
  rw [List.drop_eq_getElem_cons hi] at h
  injection h with h1 h2
  refine ⟨?_, hi, h2⟩
  rw [List.getD_eq_getElem?_getD, List.getElem?_eq_getElem hi]
  exact h1

/-- **the fuel/index loop is the structural scan of the suffix** (enough fuel: one unit per token). -/
theorem scanClocks_eq_scanList (fuel : Nat) (parts : List Tok) (i : Nat) (c : Clocks)
    (hf : parts.length ≤ fuel + i) : scanClocks fuel parts i c = scanList (parts.drop i) c := by
  induction fuel generalizing i c with
  | zero =>
    rw [List.drop_eq_nil_of_le (by omega)]
    rfl
  | succ f ih =>
    match hd : parts.drop i with
    | [] =>
      have : parts.length ≤ i := List.drop_eq_nil_iff.mp hd
      rw [scanClocks_past _ _ _ _ this]; rfl
    | [t] =>
      obtain ⟨ht, hi, hrest⟩ := getD_eq_of_drop hd
      have hlen : parts.length ≤ i + 1 := List.drop_eq_nil_iff.mp hrest
      have hlen2 : ¬ (i + 1 < parts.length) := by omega
      simp only [scanClocks, hi, if_true, ht, hlen2, if_false]
      have p2 := scanClocks_past f parts (i + 2) c (by omega)
      have p1 := scanClocks_past f parts (i + 1) c (by omega)
      simp only [p1, p2, scanList]
      repeat' split
      all_goals rfl
    | t :: v :: rest =>
      obtain ⟨ht, hi, hrest⟩ := getD_eq_of_drop hd
      obtain ⟨hv, hi1, hrest2⟩ := getD_eq_of_drop hrest
      simp only [scanClocks, hi, if_true, ht, hi1, hv, scanList]
      have e2 : ∀ c', scanClocks f parts (i + 2) c' = scanList rest c' := by
        intro c'
        rw [ih (i + 2) c' (by omega)]
        show scanList (parts.drop (i + 1 + 1)) c' = _
        rw [hrest2]
      have e1 : scanClocks f parts (i + 1) c = scanList (v :: rest) c := by
        rw [ih (i + 1) c (by omega), hrest]
      simp only [e2, e1]

theorem goLoop_past (side : Color) (fuel : Nat) (parts : List Tok) (i : Nat) (g : GoParams)
    (h : parts.length ≤ i) : goLoop side fuel parts i g = g := by
  cases fuel with
  | zero => rfl
  | succ f => simp [goLoop, Nat.not_lt.mpr h]

/-- pigeonhole: a duplicate-free list drawn from `m` is no longer than `m`. -/
theorem nodup_length_le {α : Type} [DecidableEq α] (l m : List α) (hnd : l.Nodup) (hsub : ∀ x ∈ l, x ∈ m) :
    l.length ≤ m.length := by
  induction l generalizing m with
  | nil => simp
  | cons a l ih =>
    have ha : a ∈ m := hsub a (by simp)
    have hnd' := List.nodup_cons.mp hnd
    have := ih (m.erase a) hnd'.2 (by
      intro x hx
      have hne : x ≠ a := fun e => hnd'.1 (e ▸ hx)
      exact (List.mem_erase_of_ne hne).mpr (hsub x (by simp [hx])))
    rw [List.length_erase_of_mem ha] at this
    have hpos : 0 < m.length := List.length_pos_of_mem ha
    simp only [List.length_cons]
    omega

end Flounder
