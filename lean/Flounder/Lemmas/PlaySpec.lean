/-
  Mailbox-level: what a pseudo-legal move on a valid position guarantees (`PlayFacts`), and the theorem
  that a legal move keeps the mailbox clauses of `valid` (`ValidPos.play`).  No bitboards here.
-/
import Flounder.Lemmas.SpecValid

namespace Flounder.Spec
open Flounder

/-! ### unpacking `pseudo`, kind by kind -/

theorem pseudo_quiet {p : Pos} {s d : Nat} {pc : Piece} (h : pseudo p ⟨s, d, pc, .quiet⟩ = true) :
    s < 64 ∧ d < 64 ∧ p.board s = some (p.turn, pc) ∧ p.board d = none ∧
    (pc = .pawn → rank d ≠ lastRank p.turn ∧ file s = file d ∧
      (d = forward p.turn s ∨
        (rank s = pawnHomeRank p.turn ∧ d = forward p.turn (forward p.turn s) ∧
          p.board (forward p.turn s) = none))) := by
  unfold pseudo at h
  simp only [Bool.and_eq_true, decide_eq_true_eq] at h
  obtain ⟨⟨hs, hd⟩, h⟩ := h
  split at h
  · cases h
  · rename_i c' pc' hsrc
    simp only [Bool.and_eq_true, beq_iff_eq, Option.isNone_iff_eq_none] at h
    obtain ⟨h1, ⟨h2, h3⟩, h4⟩ := h
    subst h1 h2
    refine ⟨hs, hd, hsrc, h3, ?_⟩
    intro hp
    subst hp
    simp only [Bool.and_eq_true, Bool.or_eq_true, beq_iff_eq, bne_iff_ne, ne_eq,
      Option.isNone_iff_eq_none] at h4
    obtain ⟨⟨h5, h6⟩, h7⟩ := h4
    refine ⟨h5, h7, ?_⟩
    rcases h6 with h6 | ⟨⟨h6, h8⟩, h9⟩
    · exact Or.inl h6
    · exact Or.inr ⟨h6, h8, h9⟩

theorem pseudo_capture {p : Pos} {s d : Nat} {pc : Piece} (h : pseudo p ⟨s, d, pc, .capture⟩ = true) :
    s < 64 ∧ d < 64 ∧ p.board s = some (p.turn, pc) ∧ (∃ q, p.board d = some (p.turn.other, q)) ∧
    manAttacks p.board p.turn pc s d = true ∧ ¬ (pc = .pawn ∧ rank d = lastRank p.turn) := by
  unfold pseudo at h
  simp only [Bool.and_eq_true, decide_eq_true_eq] at h
  obtain ⟨⟨hs, hd⟩, h⟩ := h
  split at h
  · cases h
  · rename_i c' pc' hsrc
    simp only [Bool.and_eq_true, beq_iff_eq, Bool.not_eq_true', Bool.and_eq_false_iff] at h
    obtain ⟨h1, ⟨⟨h2, h3⟩, h4⟩, h5⟩ := h
    subst h1 h2
    refine ⟨hs, hd, hsrc, ?_, h4, ?_⟩
    · split at h3
      · rename_i c2 q hq
        rw [beq_iff_eq] at h3
        subst h3
        exact ⟨q, hq⟩
      · cases h3
    · rintro ⟨h6, h7⟩
      rcases h5 with h5 | h5
      · rw [h6] at h5; simp at h5
      · rw [h7] at h5; simp at h5

theorem pseudo_enPassant {p : Pos} {s d : Nat} {pc : Piece} (h : pseudo p ⟨s, d, pc, .enPassant⟩ = true) :
    s < 64 ∧ d < 64 ∧ pc = .pawn ∧ p.board s = some (p.turn, .pawn) ∧ p.ep = some d ∧
    manAttacks p.board p.turn .pawn s d = true := by
  unfold pseudo at h
  simp only [Bool.and_eq_true, decide_eq_true_eq] at h
  obtain ⟨⟨hs, hd⟩, h⟩ := h
  split at h
  · cases h
  · rename_i c' pc' hsrc
    simp only [Bool.and_eq_true, beq_iff_eq] at h
    obtain ⟨h1, ⟨⟨h2, h3⟩, h4⟩, h5⟩ := h
    subst h1 h2 h3
    exact ⟨hs, hd, rfl, hsrc, h4, h5⟩

theorem pseudo_promotion {p : Pos} {s d : Nat} {pc : Piece} (h : pseudo p ⟨s, d, pc, .promotion⟩ = true) :
    s < 64 ∧ d < 64 ∧ p.board s = some (p.turn, .pawn) ∧ rank d = lastRank p.turn ∧
    (pc = .knight ∨ pc = .bishop ∨ pc = .rook ∨ pc = .queen) ∧
    ((d = forward p.turn s ∧ file s = file d ∧ p.board d = none) ∨
     (manAttacks p.board p.turn .pawn s d = true ∧ ∃ q, p.board d = some (p.turn.other, q))) := by
  unfold pseudo at h
  simp only [Bool.and_eq_true, decide_eq_true_eq] at h
  obtain ⟨⟨hs, hd⟩, h⟩ := h
  split at h
  · cases h
  · rename_i c' pc' hsrc
    simp only [Bool.and_eq_true, Bool.or_eq_true, beq_iff_eq, Option.isNone_iff_eq_none] at h
    obtain ⟨h1, ⟨⟨h2, h3⟩, h4⟩, h5⟩ := h
    subst h1 h2
    refine ⟨hs, hd, hsrc, h3, ?_, ?_⟩
    · rcases h4 with ((h4 | h4) | h4) | h4
      · exact Or.inl h4
      · exact Or.inr (Or.inl h4)
      · exact Or.inr (Or.inr (Or.inl h4))
      · exact Or.inr (Or.inr (Or.inr h4))
    · rcases h5 with ⟨⟨h5, h6⟩, h7⟩ | ⟨h5, h6⟩
      · exact Or.inl ⟨h5, h6, h7⟩
      · refine Or.inr ⟨h5, ?_⟩
        split at h6
        · rename_i c2 q hq
          rw [beq_iff_eq] at h6
          subst h6
          exact ⟨q, hq⟩
        · cases h6

theorem pseudo_castle {p : Pos} {s d : Nat} {pc : Piece} (h : pseudo p ⟨s, d, pc, .castle⟩ = true) :
    s < 64 ∧ d < 64 ∧ pc = .king ∧ p.board s = some (p.turn, .king) ∧ s = kingHome p.turn ∧
    (d = kingHome p.turn + 2 ∨ d + 2 = kingHome p.turn) ∧
    hasRight p.castle p.turn (d == kingHome p.turn + 2) = true ∧
    p.board (rookHome p.turn (d == kingHome p.turn + 2)) = some (p.turn, .rook) ∧
    pathClear p.board s (rookHome p.turn (d == kingHome p.turn + 2)) = true := by
  unfold pseudo at h
  simp only [Bool.and_eq_true, decide_eq_true_eq] at h
  obtain ⟨⟨hs, hd⟩, h⟩ := h
  split at h
  · cases h
  · rename_i c' pc' hsrc
    simp only [Bool.and_eq_true, Bool.or_eq_true, beq_iff_eq] at h
    obtain ⟨h1, ⟨⟨⟨h2, h3⟩, h4⟩, h5⟩, ⟨⟨⟨⟨⟨h6, h7⟩, h8⟩, _⟩, _⟩, _⟩⟩ := h
    subst h1 h2 h3
    exact ⟨hs, hd, rfl, hsrc, h4, h5, h6, h7, h8⟩

/-! ### arithmetic of pawn steps -/

theorem pawn_attack_geom {c : Color} {s d : Nat} (_hs : s < 64) (_hd : d < 64) (bd : Nat → Option Man)
    (h : manAttacks bd c .pawn s d = true) :
    absDiff s d ≠ 16 ∧ s ≠ d ∧
    (c = .white → rank d = rank s + 1 ∧ (d = s + 7 ∨ d = s + 9)) ∧
    (c = .black → rank d + 1 = rank s ∧ (d + 7 = s ∨ d + 9 = s)) := by
  unfold manAttacks at h
  simp only [Bool.and_eq_true, beq_iff_eq] at h
  obtain ⟨h1, h2⟩ := h
  unfold absDiff file at h1
  cases c <;> simp only [beq_iff_eq] at h2 <;> unfold rank at h2 ⊢ <;> unfold absDiff <;>
    simp only [reduceCtorEq, false_implies, true_implies, and_true, true_and] <;>
    split at h1 <;> (try split) <;> omega

/-! ### the facts both sides of the refinement use -/

/-- the square of the pawn taken en passant. -/
def capSq (c : Color) (d : Nat) : Nat := match c with | .white => d - 8 | .black => d + 8
/-- where the castling rook lands. -/
def rookTo (d : Nat) : Nat := if file d == 6 then d - 1 else d + 1

theorem not_king_of_attacks {p : Pos} (hv : ValidPos p) {s d : Nat} {pc : Piece} (hs : s < 64) (hd : d < 64)
    (hsrc : p.board s = some (p.turn, pc)) (hatt : manAttacks p.board p.turn pc s d = true) :
    p.board d ≠ some (p.turn.other, .king) := by
  intro hk
  have := inCheckOf_eq_false.1 hv.safe d hd hk
  rw [Color.other_other] at this
  have h2 : attacked p.board p.turn d = true := attacked_eq_true.2 ⟨s, hs, pc, hsrc, hatt⟩
  rw [h2] at this
  cases this

/-- consequences of `ValidPos p` and `pseudo p m`, with `pc` the man standing on `m.src`. -/
structure PlayFacts (p : Pos) (m : Move) (pc : Piece) : Prop where
  hs : m.src < 64
  hd : m.dst < 64
  src : p.board m.src = some (p.turn, pc)
  dst : p.board m.dst = none ∨ ∃ q, p.board m.dst = some (p.turn.other, q) ∧ q ≠ .king
  dstEmpty : m.kind = .quiet ∨ m.kind = .enPassant ∨ m.kind = .castle → p.board m.dst = none
  dstFull : m.kind = .capture → p.board m.dst ≠ none
  piece : m.kind = .quiet ∨ m.kind = .capture → m.piece = pc
  pieceEp : m.kind = .enPassant → pc = .pawn ∧ m.piece = .pawn
  piecePromo : m.kind = .promotion → pc = .pawn ∧ m.piece ≠ .pawn ∧ m.piece ≠ .king
  pieceCastle : m.kind = .castle → pc = .king ∧ m.piece = .king
  epCap : m.kind = .enPassant →
    capSq p.turn m.dst < 64 ∧ p.board (capSq p.turn m.dst) = some (p.turn.other, .pawn)
  castle : m.kind = .castle →
    m.src = kingHome p.turn ∧ (m.dst = kingHome p.turn + 2 ∨ m.dst + 2 = kingHome p.turn) ∧
    p.board (rookHome p.turn (file m.dst == 6)) = some (p.turn, .rook) ∧ p.board (rookTo m.dst) = none
  pawnRank : m.piece = .pawn → rank m.dst ≠ 0 ∧ rank m.dst ≠ 7
  dbl : pc = .pawn → absDiff m.src m.dst = 16 →
    m.kind = .quiet ∧ rank m.src = pawnHomeRank p.turn ∧ m.dst = forward p.turn (forward p.turn m.src) ∧
    p.board (forward p.turn m.src) = none

theorem pathClear_castle {bd : Nat → Option Man} {c : Color} {d : Nat}
    (hd : d = kingHome c + 2 ∨ d + 2 = kingHome c)
    (h : pathClear bd (kingHome c) (rookHome c (d == kingHome c + 2)) = true) :
    bd d = none ∧ bd (rookTo d) = none ∧ (file d == 6) = (d == kingHome c + 2) := by
  unfold pathClear at h
  rw [List.all_eq_true] at h
  have hh : ∀ u, u ∈ strictlyBetween (kingHome c) (rookHome c (d == kingHome c + 2)) → bd u = none :=
    fun u hu => by simpa using h u hu
  cases c <;> rcases hd with hd | hd
  · have hd' : d = 6 := hd
    subst hd'
    have e : strictlyBetween (kingHome .white) (rookHome .white (6 == kingHome .white + 2)) = [5, 6] := by decide
    rw [e] at hh
    exact ⟨hh 6 (by simp), hh 5 (by simp), by decide⟩
  · have hd' : d = 2 := by simp only [kingHome] at hd; omega
    subst hd'
    have e : strictlyBetween (kingHome .white) (rookHome .white (2 == kingHome .white + 2)) = [3, 2, 1] := by decide
    rw [e] at hh
    exact ⟨hh 2 (by simp), hh 3 (by simp), by decide⟩
  · have hd' : d = 62 := hd
    subst hd'
    have e : strictlyBetween (kingHome .black) (rookHome .black (62 == kingHome .black + 2)) = [61, 62] := by decide
    rw [e] at hh
    exact ⟨hh 62 (by simp), hh 61 (by simp), by decide⟩
  · have hd' : d = 58 := by simp only [kingHome] at hd; omega
    subst hd'
    have e : strictlyBetween (kingHome .black) (rookHome .black (58 == kingHome .black + 2)) = [59, 58, 57] := by decide
    rw [e] at hh
    exact ⟨hh 58 (by simp), hh 59 (by simp), by decide⟩


theorem forward_absDiff (c : Color) (s : Nat) : absDiff s (forward c s) ≠ 16 := by
  unfold absDiff forward
  cases c <;> simp only [] <;> split <;> omega

/-- closes `kind = other kind → _` obligations. -/
macro "kind_absurd" : tactic =>
  `(tactic| (intro h; simp at h))

/-- **the move facts**: every pseudo-legal move on a valid position satisfies `PlayFacts`. -/
theorem playFacts {p : Pos} (hv : ValidPos p) {m : Move} (h : pseudo p m = true) : ∃ pc, PlayFacts p m pc := by
  obtain ⟨s, d, mp, kind⟩ := m
  cases kind
  · -- quiet
    obtain ⟨hs, hd, hsrc, hdst, hpawn⟩ := pseudo_quiet h
    refine ⟨mp, ?_⟩
    refine {
      hs := hs
      hd := hd
      src := hsrc
      dst := Or.inl hdst
      dstEmpty := (fun _ => hdst)
      dstFull := ?_
      piece := (fun _ => rfl)
      pieceEp := ?_
      piecePromo := ?_
      pieceCastle := ?_
      epCap := ?_
      castle := ?_
      pawnRank := ?_
      dbl := ?_
    }
    iterate 6 kind_absurd
    · intro hp
      obtain ⟨h1, _, h3⟩ := hpawn hp
      have h3' : d = forward p.turn s ∨ (rank s = pawnHomeRank p.turn ∧ d = forward p.turn (forward p.turn s)) := by
        rcases h3 with h3 | h3
        · exact Or.inl h3
        · exact Or.inr ⟨h3.1, h3.2.1⟩
      revert h1 h3'
      simp only [rank, lastRank, forward, pawnHomeRank]
      cases p.turn <;> simp only [] <;> omega
    · intro hp hdiff
      obtain ⟨_, _, h3⟩ := hpawn hp
      rcases h3 with h3 | h3
      · simp only [] at hdiff h3
        rw [h3] at hdiff
        exact absurd hdiff (forward_absDiff _ _)
      · exact ⟨rfl, h3⟩
  · -- capture
    obtain ⟨hs, hd, hsrc, ⟨q, hq⟩, hatt, hnp⟩ := pseudo_capture h
    have hk : q ≠ .king := by
      intro hk; subst hk
      exact not_king_of_attacks hv hs hd hsrc hatt hq
    refine ⟨mp, ?_⟩
    refine {
      hs := hs
      hd := hd
      src := hsrc
      dst := Or.inr ⟨q, hq, hk⟩
      dstEmpty := ?_
      dstFull := (fun _ => by simp only []; rw [hq]; simp)
      piece := (fun _ => rfl)
      pieceEp := ?_
      piecePromo := ?_
      pieceCastle := ?_
      epCap := ?_
      castle := ?_
      pawnRank := ?_
      dbl := ?_
    }
    iterate 6 kind_absurd
    · intro hp
      simp only [] at hp
      subst hp
      have hg := (pawn_attack_geom hs hd _ hatt).2.2
      have hnp' : ¬ rank d = lastRank p.turn := fun h => hnp ⟨rfl, h⟩
      have hd' : rank d ≤ 7 := by unfold rank; omega
      have hs' : rank s ≤ 7 := by unfold rank; omega
      revert hg hnp'
      simp only [lastRank]
      cases p.turn <;> simp only [reduceCtorEq, false_implies, true_implies, and_true, true_and] <;> omega
    · intro hp hdiff
      subst hp
      exact absurd hdiff (pawn_attack_geom hs hd _ hatt).1
  · -- en passant
    obtain ⟨hs, hd, hmp, hsrc, hep, hatt⟩ := pseudo_enPassant h
    obtain ⟨e1, e2, e3, e4, _⟩ := hv.ep d hep
    have hcap : capSq p.turn d < 64 := by
      revert e2; unfold capSq rank; cases p.turn <;> simp only [] <;> omega
    refine ⟨.pawn, ?_⟩
    refine {
      hs := hs
      hd := hd
      src := hsrc
      dst := Or.inl e3
      dstEmpty := (fun _ => e3)
      dstFull := ?_
      piece := ?_
      pieceEp := (fun _ => ⟨rfl, hmp⟩)
      piecePromo := ?_
      pieceCastle := ?_
      epCap := (fun _ => ⟨hcap, e4⟩)
      castle := ?_
      pawnRank := ?_
      dbl := ?_
    }
    iterate 5 kind_absurd
    · intro _
      revert e2
      simp only []
      cases p.turn <;> simp only [] <;> omega
    · intro _ hdiff
      exact absurd hdiff (pawn_attack_geom hs hd _ hatt).1
  · -- castle
    obtain ⟨hs, hd, hmp, hsrc, hsk, hdk, _, hrook, hpath⟩ := pseudo_castle h
    subst hsk
    obtain ⟨c1, c2, c3⟩ := pathClear_castle hdk hpath
    refine ⟨.king, ?_⟩
    refine {
      hs := hs
      hd := hd
      src := hsrc
      dst := Or.inl c1
      dstEmpty := (fun _ => c1)
      dstFull := ?_
      piece := ?_
      pieceEp := ?_
      piecePromo := ?_
      pieceCastle := (fun _ => ⟨rfl, hmp⟩)
      epCap := ?_
      castle := (fun _ => ⟨rfl, hdk, (by simp only []; rw [c3]; exact hrook), c2⟩)
      pawnRank := ?_
      dbl := ?_
    }
    iterate 5 kind_absurd
    · intro hp; simp only [] at hp; rw [hmp] at hp; cases hp
    · intro hp; cases hp
  · -- promotion
    obtain ⟨hs, hd, hsrc, hrank, hmp, hmode⟩ := pseudo_promotion h
    have hmp' : mp ≠ .pawn ∧ mp ≠ .king := by
      rcases hmp with h | h | h | h <;> subst h <;> exact ⟨by decide, by decide⟩
    refine ⟨.pawn, ?_⟩
    refine {
      hs := hs
      hd := hd
      src := hsrc
      dst := ?_
      dstEmpty := ?_
      dstFull := ?_
      piece := ?_
      pieceEp := ?_
      piecePromo := (fun _ => ⟨rfl, hmp'⟩)
      pieceCastle := ?_
      epCap := ?_
      castle := ?_
      pawnRank := (fun h => absurd h hmp'.1)
      dbl := ?_
    }
    · rcases hmode with ⟨_, _, h3⟩ | ⟨hatt, q, hq⟩
      · exact Or.inl h3
      · refine Or.inr ⟨q, hq, ?_⟩
        intro hk; subst hk
        exact not_king_of_attacks hv hs hd hsrc hatt hq
    iterate 7 kind_absurd
    · intro _ hdiff
      rcases hmode with ⟨h1, _, _⟩ | ⟨hatt, _⟩
      · simp only [] at hdiff
        rw [h1] at hdiff
        exact absurd hdiff (forward_absDiff _ _)
      · exact absurd hdiff (pawn_attack_geom hs hd _ hatt).1

/-! ### `playBoard`, square by square -/

theorem playBoard_dst (p : Pos) (m : Move) : playBoard p m m.dst = some (p.turn, m.piece) := by
  unfold playBoard; simp

theorem playBoard_src (p : Pos) (m : Move) (h : m.src ≠ m.dst) : playBoard p m m.src = none := by
  unfold playBoard; simp [h]

/-- the general shape, with the auxiliary squares named. -/
theorem playBoard_eq (p : Pos) (m : Move) (s : Nat) :
    playBoard p m s =
      if s = m.dst then some (p.turn, m.piece)
      else if s = m.src then none
      else if m.kind = .enPassant ∧ s = capSq p.turn m.dst then none
      else if m.kind = .castle ∧ s = rookHome p.turn (file m.dst == 6) then none
      else if m.kind = .castle ∧ s = rookTo m.dst then some (p.turn, .rook)
      else p.board s := rfl

/-- away from the squares a move touches, nothing changes. -/
theorem playBoard_other (p : Pos) (m : Move) {s : Nat} (h1 : s ≠ m.dst) (h2 : s ≠ m.src)
    (h3 : ¬ (m.kind = .enPassant ∧ s = capSq p.turn m.dst))
    (h4 : ¬ (m.kind = .castle ∧ s = rookHome p.turn (file m.dst == 6)))
    (h5 : ¬ (m.kind = .castle ∧ s = rookTo m.dst)) : playBoard p m s = p.board s := by
  rw [playBoard_eq, if_neg h1, if_neg h2, if_neg h3, if_neg h4, if_neg h5]

/-- a man found after the move on a square other than `dst` stood there before, or is the castled rook. -/
theorem playBoard_some (p : Pos) (m : Move) {s : Nat} {x : Man} (h1 : s ≠ m.dst) (h : playBoard p m s = some x) :
    (p.board s = some x ∧ s ≠ m.src) ∨ (m.kind = .castle ∧ x = (p.turn, .rook)) := by
  rw [playBoard_eq, if_neg h1] at h
  split at h
  · cases h
  · rename_i h2
    split at h
    · cases h
    · split at h
      · cases h
      · split at h
        · rename_i h5
          cases h
          exact Or.inr ⟨h5.1, rfl⟩
        · exact Or.inl ⟨h, h2⟩

/-- under `PlayFacts`, a man that is neither an enemy pawn nor (when castling) an own rook stays put. -/
theorem PlayFacts.stays {p : Pos} {m : Move} {pc : Piece} (hf : PlayFacts p m pc) {s : Nat} {x : Man}
    (h1 : s ≠ m.dst) (h2 : s ≠ m.src) (hx : p.board s = some x) (hx1 : x ≠ (p.turn.other, .pawn))
    (hx2 : x ≠ (p.turn, .rook) ∨ m.kind ≠ .castle) : playBoard p m s = some x := by
  rw [playBoard_other p m h1 h2, hx]
  · rintro ⟨hk, hs⟩
    have := (hf.epCap hk).2
    rw [← hs, hx] at this
    exact hx1 (Option.some.inj this)
  · rintro ⟨hk, hs⟩
    have := (hf.castle hk).2.2.1
    rw [← hs, hx] at this
    rcases hx2 with hx2 | hx2
    · exact hx2 (Option.some.inj this)
    · exact hx2 hk
  · rintro ⟨hk, hs⟩
    have := (hf.castle hk).2.2.2
    rw [← hs, hx] at this
    cases this

theorem PlayFacts.src_ne_dst {p : Pos} {m : Move} {pc : Piece} (hf : PlayFacts p m pc) : m.src ≠ m.dst := by
  intro h
  have h1 := hf.src
  rw [h] at h1
  rcases hf.dst with h2 | ⟨q, h2, _⟩
  · rw [h2] at h1; cases h1
  · rw [h2] at h1
    have := congrArg Prod.fst (Option.some.inj h1)
    exact Color.other_ne _ this

/-- nothing of the mover's colour, and no king, stands on the destination. -/
theorem PlayFacts.dst_not {p : Pos} {m : Move} {pc : Piece} (hf : PlayFacts p m pc) {c : Color} {q : Piece}
    (h : p.board m.dst = some (c, q)) : c = p.turn.other ∧ q ≠ .king := by
  rcases hf.dst with h2 | ⟨q', h2, hq⟩
  · rw [h2] at h; cases h
  · rw [h2] at h
    cases h
    exact ⟨rfl, hq⟩

/-- the moving piece is a king iff the man on `src` is. -/
theorem PlayFacts.king_iff {p : Pos} {m : Move} {pc : Piece} (hf : PlayFacts p m pc) :
    m.piece = .king ↔ pc = .king := by
  cases hk : m.kind
  · rw [hf.piece (Or.inl hk)]
  · rw [hf.piece (Or.inr hk)]
  · obtain ⟨h1, h2⟩ := hf.pieceEp hk
    rw [h1, h2]
  · obtain ⟨h1, h2⟩ := hf.pieceCastle hk
    rw [h1, h2]
  · obtain ⟨h1, _, h3⟩ := hf.piecePromo hk
    rw [h1]
    exact ⟨fun h => absurd h h3, fun h => by cases h⟩

theorem play_castle_hasRight (p : Pos) (m : Move) (c : Color) (ks : Bool) :
    hasRight (play p m).castle c ks = (hasRight p.castle c ks && keepsRight m c ks) := by
  cases c <;> cases ks <;> rfl

theorem keepsRight_iff (m : Move) (c : Color) (ks : Bool) :
    keepsRight m c ks = true ↔ m.src ≠ kingHome c ∧ m.src ≠ rookHome c ks ∧ m.dst ≠ rookHome c ks := by
  unfold keepsRight
  simp only [Bool.and_eq_true, bne_iff_ne, ne_eq, and_assoc]

/-- **a legal move keeps the mailbox clauses of `valid`.** -/
theorem ValidPos.play {p : Pos} (hv : ValidPos p) {m : Move} (hl : legal p m = true) : ValidPos (play p m) := by
  unfold legal at hl
  simp only [Bool.and_eq_true, Bool.not_eq_true'] at hl
  obtain ⟨hps, hsafe⟩ := hl
  obtain ⟨pc, hf⟩ := playFacts hv hps
  have hsd := hf.src_ne_dst
  refine ⟨?_, ?_, ?_, ?_, ?_⟩
  · -- kings
    intro c'
    show ∃ k, k < 64 ∧ playBoard p m k = some (c', .king) ∧
      ∀ s, s < 64 → playBoard p m s = some (c', .king) → s = k
    obtain ⟨k, hk, hbk, huniq⟩ := hv.king c'
    by_cases hmover : c' = p.turn ∧ pc = .king
    · -- the king itself moves
      obtain ⟨hc, hpc⟩ := hmover
      subst hc hpc
      have hmp : m.piece = .king := hf.king_iff.2 rfl
      refine ⟨m.dst, hf.hd, by rw [playBoard_dst, hmp], ?_⟩
      intro s hs hb
      by_cases hsdst : s = m.dst
      · exact hsdst
      · exfalso
        rcases playBoard_some p m hsdst hb with ⟨h1, h2⟩ | ⟨_, h2⟩
        · have e1 := huniq s hs h1
          have e2 := huniq m.src hf.hs hf.src
          exact h2 (e1.trans e2.symm)
        · cases h2
    · -- this king stays where it was
      have hkdst : k ≠ m.dst := by
        intro h
        rw [h] at hbk
        exact (hf.dst_not hbk).2 rfl
      have hksrc : k ≠ m.src := by
        intro h
        rw [h, hf.src] at hbk
        cases hbk
        exact hmover ⟨rfl, rfl⟩
      refine ⟨k, hk, hf.stays hkdst hksrc hbk (by simp) (Or.inl (by simp)), ?_⟩
      intro s hs hb
      by_cases hsdst : s = m.dst
      · exfalso
        rw [hsdst, playBoard_dst] at hb
        simp only [Option.some.injEq, Prod.mk.injEq] at hb
        exact hmover ⟨hb.1.symm, hf.king_iff.1 hb.2⟩
      · rcases playBoard_some p m hsdst hb with ⟨h1, _⟩ | ⟨_, h2⟩
        · exact huniq s hs h1
        · cases h2
  · -- pawns
    intro s c' hs hb
    change playBoard p m s = some (c', .pawn) at hb
    by_cases hsdst : s = m.dst
    · rw [hsdst, playBoard_dst] at hb
      simp only [Option.some.injEq, Prod.mk.injEq] at hb
      rw [hsdst]
      exact hf.pawnRank hb.2
    · rcases playBoard_some p m hsdst hb with ⟨h1, _⟩ | ⟨_, h2⟩
      · exact hv.nopawn s c' hs h1
      · cases h2
  · -- the side that just moved is not in check
    show inCheckOf (playBoard p m) p.turn.other.other = false
    rw [Color.other_other]
    exact hsafe
  · -- castling rights
    intro c' ks hr
    rw [play_castle_hasRight, Bool.and_eq_true, keepsRight_iff] at hr
    obtain ⟨hr, k1, k2, k3⟩ := hr
    obtain ⟨hking, hrook⟩ := hv.rights c' ks hr
    constructor
    · apply hf.stays _ (Ne.symm k1) hking (by simp) (Or.inl (by simp))
      intro h
      rw [h] at hking
      exact (hf.dst_not hking).2 rfl
    · apply hf.stays (Ne.symm k3) (Ne.symm k2) hrook (by simp)
      by_cases hkc : m.kind = .castle
      · left
        intro h
        cases h
        exact k1 (hf.castle hkc).1
      · exact Or.inr hkc
  · -- en passant square
    intro e he
    change (if (p.board m.src == some (p.turn, Piece.pawn) && absDiff m.src m.dst == 16) = true
      then some (forward p.turn m.src) else none) = some e at he
    split at he
    · rename_i hcond
      cases he
      simp only [Bool.and_eq_true, beq_iff_eq] at hcond
      obtain ⟨hpawn, hdiff⟩ := hcond
      rw [hf.src] at hpawn
      have hpc : pc = .pawn := by cases hpawn; rfl
      obtain ⟨hq, hrank, hdst, hmid⟩ := hf.dbl hpc hdiff
      have hmp : m.piece = .pawn := by rw [hf.piece (Or.inl hq)]; exact hpc
      have hpd : playBoard p m m.dst = some (p.turn, .pawn) := by rw [playBoard_dst, hmp]
      have hps := playBoard_src p m hsd
      have hs := hf.hs
      have hmid' : playBoard p m (forward p.turn m.src) = none := by
        rw [playBoard_other, hmid]
        · rw [hdst]; revert hrank; unfold forward rank pawnHomeRank; cases p.turn <;> simp only [] <;> omega
        · revert hrank; unfold forward rank pawnHomeRank; cases p.turn <;> simp only [] <;> omega
        · rw [hq]; simp
        · rw [hq]; simp
        · rw [hq]; simp
      show forward p.turn m.src < 64 ∧
        rank (forward p.turn m.src) = (match p.turn.other with | .white => 5 | .black => 2) ∧
        playBoard p m (forward p.turn m.src) = none ∧
        playBoard p m (match p.turn.other with
          | .white => forward p.turn m.src - 8 | .black => forward p.turn m.src + 8) =
            some (p.turn.other.other, .pawn) ∧
        playBoard p m (match p.turn.other with
          | .white => forward p.turn m.src + 8 | .black => forward p.turn m.src - 8) = none
      rw [Color.other_other]
      revert hrank hdst hmid' hpd
      unfold forward rank pawnHomeRank
      cases p.turn <;> simp only [Color.other] <;> intro hrank hdst hpd hmid'
      · have e2 : m.src + 8 - 8 = m.src := by omega
        rw [← hdst, e2]
        exact ⟨by omega, by omega, hmid', hpd, hps⟩
      · have e2 : m.src - 8 + 8 = m.src := by omega
        rw [← hdst, e2]
        exact ⟨by omega, by omega, hmid', hpd, hps⟩
    · cases he

/-! ### castling rights: removal by piece type (engine) = removal by squares (rules) -/

theorem PlayFacts.officer {p : Pos} {m : Move} {pc : Piece} (hf : PlayFacts p m pc)
    (h1 : pc ≠ .pawn) (h2 : pc ≠ .king) : m.piece = pc := by
  cases hk : m.kind
  · exact hf.piece (Or.inl hk)
  · exact hf.piece (Or.inr hk)
  · exact absurd (hf.pieceEp hk).1 h1
  · exact absurd (hf.pieceCastle hk).1 h2
  · exact absurd (hf.piecePromo hk).1 h1

theorem rights_eq {p : Pos} (hv : ValidPos p) {m : Move} {pc : Piece} (hf : PlayFacts p m pc)
    (capt : Option Piece) (hcapt : capt = (p.board m.dst).map (·.2)) (col : Color) (ks : Bool) :
    (hasRight p.castle col ks && !(col == p.turn && m.piece == .king) &&
      !(col == p.turn && m.piece == .rook && m.src == rookHome p.turn ks) &&
      !(col == p.turn.other && (m.kind == .capture || m.kind == .promotion) && capt == some .rook &&
          m.dst == rookHome p.turn.other ks)) =
    (hasRight p.castle col ks && keepsRight m col ks) := by
  cases hR : hasRight p.castle col ks
  · simp
  · obtain ⟨hking, hrook⟩ := hv.rights col ks hR
    simp only [Bool.true_and]
    rw [Bool.eq_iff_iff, keepsRight_iff]
    simp only [Bool.and_eq_true, Bool.not_eq_true', Bool.and_eq_false_iff, beq_eq_false_iff_ne,
      Bool.or_eq_false_iff, ne_eq]
    by_cases hcol : col = p.turn
    · subst hcol
      constructor
      · rintro ⟨⟨h1, h2⟩, _⟩
        have h1' : m.piece ≠ .king := by rcases h1 with h | h; exact absurd rfl h; exact h
        refine ⟨?_, ?_, ?_⟩
        · intro e
          have hs := hf.src
          rw [e, hking] at hs
          have hpc : pc = .king := by cases hs; rfl
          exact h1' (hf.king_iff.2 hpc)
        · intro e
          have hs := hf.src
          rw [e, hrook] at hs
          have hpc : pc = .rook := by cases hs; rfl
          have hmp : m.piece = .rook := by
            rw [hf.officer (by rw [hpc]; decide) (by rw [hpc]; decide)]; exact hpc
          rcases h2 with (h | h) | h
          · exact h rfl
          · exact h hmp
          · exact h e
        · intro e
          have := (hf.dst_not (by rw [e]; exact hrook)).1
          exact Color.other_ne _ this.symm
      · rintro ⟨k1, k2, k3⟩
        refine ⟨⟨?_, ?_⟩, ?_⟩
        · right
          intro hmp
          have hpc := hf.king_iff.1 hmp
          subst hpc
          obtain ⟨k, _, _, hu⟩ := hv.king p.turn
          have e1 := hu m.src hf.hs hf.src
          have e2 := hu (kingHome p.turn) (by cases p.turn <;> decide) hking
          exact k1 (e1.trans e2.symm)
        · exact Or.inr k2
        · left; left; left
          exact fun h => Color.other_ne _ h.symm
    · have hcol' : col = p.turn.other := by
        revert hcol; cases col <;> cases p.turn <;> simp [Color.other]
      subst hcol'
      constructor
      · rintro ⟨_, h3⟩
        refine ⟨?_, ?_, ?_⟩
        · intro e
          have hs := hf.src
          rw [e, hking] at hs
          exact Color.other_ne _ (congrArg Prod.fst (Option.some.inj hs))
        · intro e
          have hs := hf.src
          rw [e, hrook] at hs
          exact Color.other_ne _ (congrArg Prod.fst (Option.some.inj hs))
        · intro e
          have hd : p.board m.dst = some (p.turn.other, .rook) := by rw [e]; exact hrook
          have hcr : capt = some .rook := by rw [hcapt, hd]; rfl
          have hkind : m.kind = .capture ∨ m.kind = .promotion := by
            cases hk : m.kind
            · have := hf.dstEmpty (Or.inl hk); rw [hd] at this; cases this
            · exact Or.inl rfl
            · have := hf.dstEmpty (Or.inr (Or.inl hk)); rw [hd] at this; cases this
            · have := hf.dstEmpty (Or.inr (Or.inr hk)); rw [hd] at this; cases this
            · exact Or.inr rfl
          rcases h3 with ((h | h) | h) | h
          · exact h rfl
          · rcases hkind with hk | hk
            · exact h.1 hk
            · exact h.2 hk
          · exact h hcr
          · exact h e
      · rintro ⟨_, _, k3⟩
        refine ⟨⟨?_, ?_⟩, ?_⟩
        · left; exact Color.other_ne _
        · left; left; exact Color.other_ne _
        · right; exact k3


end Flounder.Spec
