/-
  Search with a game history, part 5: totality of the reference value `Spec.Vd`.

  The tree of `Vd` is a subtree of the tree of `Spec.V` (a repetition below the root is cut off, everything else
  is the same, the leaves carry the same quiescence values): `Vd` is defined wherever `V` is
  (`Vd_defined_of_V`), hence on every position of a game with a quiescence rank (`Vd_total`, from `Spec.V_total`).
-/
import Flounder.Lemmas.QSpec
import Flounder.Lemmas.DrawSpec

namespace Flounder.Search
open Flounder Gen

variable {P : Type} (G : Game P)

/-- **`Vd` is defined whenever the corresponding `V` is** — for every draw predicate, at the root and below. -/
theorem Vd_defined_of_V (drawn : P → Bool) (qf : Nat) :
    ∀ (d : Nat) (root : Bool) (p : P) (v : Int), Spec.V G qf d p = some v →
      ∃ w, Spec.Vd G drawn qf d root p = some w := by
  intro d
  induction d with
  | zero =>
    intro root p v h
    rw [Vd_zero]
    split
    · exact ⟨0, rfl⟩
    · exact ⟨v, h⟩
  | succ d ih =>
    intro root p v h
    cases hc : (!root && drawn p)
    · have hl : (root || !drawn p) = true := by
        cases root <;> cases hdp : drawn p <;> simp_all
      rw [Vd_live G drawn qf (d + 1) root p hl]
      apply Vd_isSome G drawn qf d p
      intro m hm
      have hne : G.moves p ≠ [] := fun e => by rw [e] at hm; cases hm
      obtain ⟨x, hx⟩ := (V_children G qf d p v hne h).1 m hm
      exact ih false _ x hx
    · rw [Vd_succ, hc]; exact ⟨0, rfl⟩

variable {S : P → Prop} {ρ : P → Nat}

/-- **the reference value with draws exists** at every depth, for every draw predicate, on every position of
    a ranked game that is closed under the generated moves. -/
theorem Vd_total (drawn : P → Bool) (hR : QRank G S ρ) (hM : MovesClosed G S) (B : Nat)
    (hB : ∀ p, S p → ρ p ≤ B) (d : Nat) (root : Bool) (p : P) (hp : S p) :
    ∃ v, Spec.Vd G drawn (B + 2) d root p = some v := by
  obtain ⟨v, hv⟩ := Spec.V_total G hR hM B hB d p hp
  exact Vd_defined_of_V G drawn (B + 2) d root p v hv

end Flounder.Search
