/-
  C08 helpers, part 2: small facts the direct (contract-free) mate-in-one argument needs.

  * `Mated G q` — the side to move in `q` is checkmated;
  * raw-table facts about `TT.store` / `TT.retrieve` (`store` consults the raw map, `retrieve`
    additionally verifies the key);
  * quiescence: value of a mated node, a lower bound for a non-mated node (valid even when a
    deadline poll interrupts it), history untouched;
  * `negamax` on a mated node after a table miss.
-/
import Flounder.Lemmas.SearchIterate
import Flounder.Lemmas.SearchCex
import Flounder.Lemmas.MateOrder

namespace Flounder.Search
open Flounder Gen

/-! ### raw table facts -/

theorem retrieve_of_get_none (t : TT) (k : UInt64) (h : t.table[k]? = none) : t.retrieve k = none := by
  unfold TT.retrieve; rw [h]

theorem retrieve_of_get_some (t : TT) (k : UInt64) (e : Entry) (h : t.table[k]? = some e)
    (hk : e.hashKey = k) : t.retrieve k = some e := by
  unfold TT.retrieve; rw [h]; simp [hk]

theorem tt_empty_get (k : UInt64) : (({} : TT).table)[k]? = none := by
  show ((∅ : Std.HashMap UInt64 Entry))[k]? = none
  exact Std.HashMap.getElem?_empty

theorem store_get_other (t : TT) (K : UInt64) (ev : Int) (mv : Option Move) (d : Nat) (b : Bounds)
    (k : UInt64) (hk : k ≠ K) : (t.store K ev mv d b).table[k]? = t.table[k]? := by
  have hne : ¬ (K == k) = true := by
    intro h
    have : K = k := by simpa using h
    exact hk this.symm
  unfold TT.store
  split
  · simp only [Std.HashMap.getElem?_insert]; rw [if_neg hne]
  · split
    · simp only [Std.HashMap.getElem?_insert]; rw [if_neg hne]
    · rfl

theorem store_get_self (t : TT) (K : UInt64) (ev : Int) (mv : Option Move) (d : Nat) (b : Bounds)
    (h : ∀ prev, t.table[K]? = some prev → prev.depth ≤ d) :
    (t.store K ev mv d b).table[K]? = some ⟨K, ev, mv, d, b⟩ := by
  unfold TT.store
  split
  · simp only [Std.HashMap.getElem?_insert]; simp
  · rename_i prev hp
    rw [if_pos (h prev hp)]
    simp only [Std.HashMap.getElem?_insert]; simp

/-- after a store of depth `d` the record under the key has depth at most `max`. -/
theorem store_depth_le (t : TT) (K : UInt64) (ev : Int) (mv : Option Move) (d : Nat) (b : Bounds)
    (h : ∀ prev, t.table[K]? = some prev → prev.depth ≤ d) :
    ∀ prev, (t.store K ev mv d b).table[K]? = some prev → prev.depth ≤ d := by
  intro prev hp
  rw [store_get_self t K ev mv d b h] at hp
  cases hp
  exact Nat.le_refl _

section mate
variable {P : Type} (G : Game P)

/-- the side to move has no move and is in check. -/
def Mated (q : P) : Prop := G.moves q = [] ∧ G.inCheck q = true

instance (q : P) : Decidable (Mated G q) := by unfold Mated; infer_instance

theorem qList_mated {q : P} (h : Mated G q) : qList G q = [] := by
  unfold qList; rw [h.2, if_pos rfl]; exact h.1

theorem orderCaptures_nil (q : P) : orderCaptures G q [] = [] := by
  simp [orderCaptures]

/-! ### quiescence -/

theorem quiesce_mated (f : Nat) (q : P) (a b : Int) (s : SearchState) (h : Mated G q) :
    quiesce G (f + 1) q a b s = (some (-CHECKMATE_SCORE), s.incrementNodes) := by
  rw [quiesce_succ, qList_mated G h, orderCaptures_nil, h.2]
  rfl

theorem quiesceLoop_lb (rec : P → Int → Int → SearchState → Option Int × SearchState) (p : P) (β : Int) :
    ∀ (ms : List Move) (α : Int) (s : SearchState) (v : Int) (s' : SearchState),
      quiesceLoop G rec p β ms α s = (some v, s') → v = β ∨ α ≤ v := by
  intro ms
  induction ms with
  | nil =>
    intro α s v s' h
    rw [quiesceLoop_nil] at h
    cases h
    exact Or.inr (Int.le_refl _)
  | cons mv rest ih =>
    intro α s v s' h
    rw [quiesceLoop_cons] at h
    split at h
    · cases h; exact Or.inr (Int.le_refl _)
    · rcases hres : rec (G.play p mv) (-β) (-α) (polled s) with ⟨ro, s2⟩
      rw [hres] at h
      cases ro with
      | none => cases h
      | some x =>
        simp only at h
        split at h
        · cases h; exact Or.inl rfl
        · rcases ih _ _ _ _ h with e | e
          · exact Or.inl e
          · right; omega

/-- a non-mated quiescence node returns `β` or at least its stand-pat — interrupted or not. -/
theorem quiesce_lb (fuel : Nat) (q : P) (a b : Int) (s : SearchState) (v : Int) (s' : SearchState)
    (hnm : ¬ Mated G q) (h : quiesce G fuel q a b s = (some v, s')) : v = b ∨ G.eval q ≤ v := by
  cases fuel with
  | zero => rw [quiesce_zero] at h; cases h
  | succ f =>
    rw [quiesce_succ] at h
    have hperm := orderCaptures_perm G q (qList G q)
    have hm : ((orderCaptures G q (qList G q)).isEmpty && G.inCheck q) = false := by
      rw [perm_isEmpty hperm]
      cases hc : G.inCheck q
      · simp
      · cases hl : qList G q with
        | nil =>
          exfalso; apply hnm
          refine ⟨?_, hc⟩
          unfold qList at hl; rw [hc, if_pos rfl] at hl; exact hl
        | cons x xs => rfl
    rw [hm] at h
    simp only [Bool.false_eq_true, ↓reduceIte] at h
    split at h
    · cases h; exact Or.inl rfl
    · rcases quiesceLoop_lb G _ q b _ _ _ _ _ h with e | e
      · exact Or.inl e
      · right; omega

theorem quiesceLoop_history (rec : P → Int → Int → SearchState → Option Int × SearchState)
    (hrec : ∀ q a b s, (rec q a b s).2.history = s.history) (p : P) (β : Int) :
    ∀ (ms : List Move) (α : Int) (s : SearchState),
      (quiesceLoop G rec p β ms α s).2.history = s.history := by
  intro ms
  induction ms with
  | nil => intro α s; rfl
  | cons mv rest ih =>
    intro α s
    rw [quiesceLoop_cons]
    split
    · rfl
    · have h := hrec (G.play p mv) (-β) (-α) (polled s)
      rcases hres : rec (G.play p mv) (-β) (-α) (polled s) with ⟨ro, s2⟩
      rw [hres] at h
      cases ro with
      | none => exact h
      | some v =>
        simp only
        split
        · exact h
        · rw [ih]; exact h

/-- quiescence never touches the history table. -/
theorem quiesce_history (fuel : Nat) : ∀ (p : P) (α β : Int) (s : SearchState),
    (quiesce G fuel p α β s).2.history = s.history := by
  induction fuel with
  | zero => intro p α β s; rfl
  | succ n ih =>
    intro p α β s
    rw [quiesce_succ]
    split
    · rfl
    · split
      · rfl
      · rw [quiesceLoop_history G _ ih]; rfl

/-! ### `negamax` on a mated node -/

theorem isRepetition_single (s : SearchState) (k h : UInt64) (hr : s.rep = [k]) :
    s.isRepetition h = false :=
  (repOK_single k s hr).not_rep h

/-- a mated node after a table miss: the score is the terminal score of its depth (quiescence mate
    score at depth 0); table and history are untouched. -/
theorem negamax_mated (qfuel d : Nat) (q : P) (ply : Nat) (a b : Int) (s : SearchState)
    (hm : Mated G q) (hrep : s.isRepetition (G.hash q) = false)
    (ht : s.tt.retrieve (G.hash q) = none) :
    (negamax G qfuel d q ply a b s).2.tt = s.tt ∧ (negamax G qfuel d q ply a b s).2.history = s.history ∧
    ∀ r, (negamax G qfuel d q ply a b s).1 = some r → r.score = -CHECKMATE_SCORE + (d : Int) := by
  cases d with
  | zero =>
    rw [negamax_zero_miss G qfuel q ply a b s hrep ht]
    unfold leafResult
    cases qfuel with
    | zero =>
      rw [quiesce_zero]
      exact ⟨rfl, rfl, fun r h => by cases h⟩
    | succ f =>
      rw [quiesce_mated G f q a b _ hm]
      refine ⟨rfl, rfl, fun r h => ?_⟩
      simp only [Option.some.injEq] at h
      subst h
      simp
  | succ d =>
    rw [negamax_succ_miss G qfuel d q ply a b s hrep ht, innerResult_nil G _ d q ply a b none _ hm.1,
      hm.2]
    refine ⟨rfl, rfl, fun r h => ?_⟩
    simp only [↓reduceIte, Option.some.injEq] at h
    subst h
    rfl

/-- a root probe that finds a shallower record only yields its move. -/
theorem negamax_succ_shallow (qfuel d : Nat) (p : P) (α β : Int) (s : SearchState) (e : Entry)
    (hr : s.tt.retrieve (G.hash p) = some e) (hd : e.depth < d + 1) :
    negamax G qfuel (d + 1) p 0 α β s =
      innerResult G (negamax G qfuel d) d p 0 α β e.bestMove s.incrementNodes := by
  have hp : probeTT G s.incrementNodes p (d + 1) α β = (none, e.bestMove, s.incrementNodes) := by
    unfold probeTT
    have : s.incrementNodes.tt = s.tt := rfl
    rw [this, hr]
    simp only
    rw [if_pos hd]
  rw [negamax_succ, hp]
  simp

end mate
end Flounder.Search
