/-
  C01 layer L3: the three `extract_*` helpers of move_gen.rs — membership and absence of duplicates —
  and the generic shape "shift the pawns, mask, extract with the same offset".
-/
import Flounder.Model.MoveGen
import Flounder.Lemmas.BitIter
import Flounder.Lemmas.PseudoShift

namespace Flounder
open Gen

/-! ### generic list facts -/

theorem nodup_append_of {α} {l₁ l₂ : List α} (h₁ : l₁.Nodup) (h₂ : l₂.Nodup)
    (hd : ∀ a, a ∈ l₁ → a ∈ l₂ → False) : (l₁ ++ l₂).Nodup :=
  List.nodup_append.2 ⟨h₁, h₂, fun a ha _ hb hab => hd a ha (hab ▸ hb)⟩

theorem nodup_map_of {α β} {l : List α} (h : l.Nodup) (f : α → β) (hf : ∀ a a', f a = f a' → a = a') :
    (l.map f).Nodup :=
  List.Pairwise.map f (fun a b hab hfab => hab (hf a b hfab)) h

theorem nodup_flatMap_of {α β} {l : List α} (h : l.Nodup) (f : α → List β) (h₁ : ∀ a, a ∈ l → (f a).Nodup)
    (h₂ : ∀ a b x, a ∈ l → b ∈ l → x ∈ f a → x ∈ f b → a = b) : (l.flatMap f).Nodup := by
  unfold List.Nodup
  rw [List.pairwise_flatMap]
  refine ⟨h₁, ?_⟩
  have h' := List.Pairwise.and_mem.1 h
  refine h'.imp ?_
  rintro a b ⟨ha, hb, hab⟩ x hx y hy hxy
  subst hxy
  exact hab (h₂ a b x ha hb hx hy)

/-! ### `extract_pawn_moves` -/

theorem mem_extractPawnMoves (bb : UInt64) (off : Int) (kind : MoveType) (m : Move) :
    m ∈ extractPawnMoves bb off kind ↔
      ∃ t, t < 64 ∧ hasSq bb t = true ∧ m = ⟨(Int.ofNat t - off).toNat, t, .pawn, kind⟩ := by
  unfold extractPawnMoves
  rw [List.mem_map]
  constructor
  · rintro ⟨t, ht, rfl⟩
    obtain ⟨h1, h2⟩ := (mem_squaresOf bb t).1 ht
    exact ⟨t, h1, h2, rfl⟩
  · rintro ⟨t, h1, h2, rfl⟩
    exact ⟨t, (mem_squaresOf bb t).2 ⟨h1, h2⟩, rfl⟩

theorem nodup_extractPawnMoves (bb : UInt64) (off : Int) (kind : MoveType) :
    (extractPawnMoves bb off kind).Nodup := by
  unfold extractPawnMoves
  apply nodup_map_of (squaresOf_nodup bb)
  intro a b h
  exact (Move.mk.inj h).2.1

/-! ### `extract_promotions` -/

theorem mem_extractPromotions (bb : UInt64) (off : Int) (kind : MoveType) (m : Move) :
    m ∈ extractPromotions bb off kind ↔
      ∃ t, t < 64 ∧ hasSq bb t = true ∧ ∃ q, q ∈ Piece.promotions ∧
        m = ⟨(Int.ofNat t - off).toNat, t, q, kind⟩ := by
  unfold extractPromotions
  rw [List.mem_flatMap]
  constructor
  · rintro ⟨t, ht, hm⟩
    obtain ⟨h1, h2⟩ := (mem_squaresOf bb t).1 ht
    obtain ⟨q, hq, rfl⟩ := List.mem_map.1 hm
    exact ⟨t, h1, h2, q, hq, rfl⟩
  · rintro ⟨t, h1, h2, q, hq, rfl⟩
    exact ⟨t, (mem_squaresOf bb t).2 ⟨h1, h2⟩, List.mem_map.2 ⟨q, hq, rfl⟩⟩

theorem nodup_extractPromotions (bb : UInt64) (off : Int) (kind : MoveType) :
    (extractPromotions bb off kind).Nodup := by
  unfold extractPromotions
  apply nodup_flatMap_of (squaresOf_nodup bb)
  · intro t _
    apply nodup_map_of (by decide : Piece.promotions.Nodup)
    intro a b h
    exact (Move.mk.inj h).2.2.1
  · intro a b x _ _ hx hy
    obtain ⟨q, _, rfl⟩ := List.mem_map.1 hx
    obtain ⟨q', _, h⟩ := List.mem_map.1 hy
    exact ((Move.mk.inj h).2.1).symm

/-! ### `extract_moves` -/

theorem mem_extractMoves (bb : UInt64) (src : Nat) (piece : Piece) (kind : MoveType) (m : Move) :
    m ∈ extractMoves bb src piece kind ↔ ∃ t, t < 64 ∧ hasSq bb t = true ∧ m = ⟨src, t, piece, kind⟩ := by
  unfold extractMoves
  rw [List.mem_map]
  constructor
  · rintro ⟨t, ht, rfl⟩
    obtain ⟨h1, h2⟩ := (mem_squaresOf bb t).1 ht
    exact ⟨t, h1, h2, rfl⟩
  · rintro ⟨t, h1, h2, rfl⟩
    exact ⟨t, (mem_squaresOf bb t).2 ⟨h1, h2⟩, rfl⟩

theorem nodup_extractMoves (bb : UInt64) (src : Nat) (piece : Piece) (kind : MoveType) :
    (extractMoves bb src piece kind).Nodup := by
  unfold extractMoves
  apply nodup_map_of (squaresOf_nodup bb)
  intro a b h
  exact (Move.mk.inj h).2.1

/-! ### a shift direction together with the square relation it realises -/

/-- `shift · off` moves every member `s` to the unique `t` with `R s t` (dropping it when there is none),
    and `extract_pawn_moves` with the same offset recovers `s` from `t`. -/
structure ShiftRel (off : Int) (R : Nat → Nat → Prop) : Prop where
  shift : ∀ (bb : UInt64) (t : Nat), t < 64 →
    (hasSq (Flounder.shift bb off) t = true ↔ ∃ s, s < 64 ∧ hasSq bb s = true ∧ R s t)
  src : ∀ s t, s < 64 → t < 64 → R s t → (Int.ofNat t - off).toNat = s

theorem ShiftRel.mem_pawnMoves {off : Int} {R : Nat → Nat → Prop} (h : ShiftRel off R)
    (pawns X : UInt64) (kind : MoveType) (m : Move) :
    m ∈ extractPawnMoves (Flounder.shift pawns off &&& X) off kind ↔
      ∃ s t, s < 64 ∧ t < 64 ∧ hasSq pawns s = true ∧ hasSq X t = true ∧ R s t ∧ m = ⟨s, t, .pawn, kind⟩ := by
  rw [mem_extractPawnMoves]
  constructor
  · rintro ⟨t, ht, hb, rfl⟩
    rw [hasSq_and _ _ _ ht, Bool.and_eq_true] at hb
    obtain ⟨s, hs, hp, hr⟩ := (h.shift pawns t ht).1 hb.1
    exact ⟨s, t, hs, ht, hp, hb.2, hr, by rw [h.src s t hs ht hr]⟩
  · rintro ⟨s, t, hs, ht, hp, hx, hr, rfl⟩
    refine ⟨t, ht, ?_, by rw [h.src s t hs ht hr]⟩
    rw [hasSq_and _ _ _ ht, Bool.and_eq_true]
    exact ⟨(h.shift pawns t ht).2 ⟨s, hs, hp, hr⟩, hx⟩

theorem ShiftRel.mem_promotions {off : Int} {R : Nat → Nat → Prop} (h : ShiftRel off R)
    (pawns X : UInt64) (kind : MoveType) (m : Move) :
    m ∈ extractPromotions (Flounder.shift pawns off &&& X) off kind ↔
      ∃ s t, s < 64 ∧ t < 64 ∧ hasSq pawns s = true ∧ hasSq X t = true ∧ R s t ∧
        ∃ q, q ∈ Piece.promotions ∧ m = ⟨s, t, q, kind⟩ := by
  rw [mem_extractPromotions]
  constructor
  · rintro ⟨t, ht, hb, q, hq, rfl⟩
    rw [hasSq_and _ _ _ ht, Bool.and_eq_true] at hb
    obtain ⟨s, hs, hp, hr⟩ := (h.shift pawns t ht).1 hb.1
    exact ⟨s, t, hs, ht, hp, hb.2, hr, q, hq, by rw [h.src s t hs ht hr]⟩
  · rintro ⟨s, t, hs, ht, hp, hx, hr, q, hq, rfl⟩
    refine ⟨t, ht, ?_, q, hq, by rw [h.src s t hs ht hr]⟩
    rw [hasSq_and _ _ _ ht, Bool.and_eq_true]
    exact ⟨(h.shift pawns t ht).2 ⟨s, hs, hp, hr⟩, hx⟩

/-! ### the pawn directions of each colour as square relations -/

/-- `t` is one step forward of `s` for a pawn of colour `c` (both on the board). -/
def pushTo : Color → Nat → Nat → Prop
  | .white, s, t => t = s + 8
  | .black, s, t => s = t + 8

/-- `t` is the forward-west capture square of `s` (no wrap around the a-file). -/
def capWest : Color → Nat → Nat → Prop
  | .white, s, t => t = s + 7 ∧ s % 8 ≠ 0
  | .black, s, t => s = t + 9 ∧ s % 8 ≠ 0

/-- `t` is the forward-east capture square of `s` (no wrap around the h-file). -/
def capEast : Color → Nat → Nat → Prop
  | .white, s, t => t = s + 9 ∧ s % 8 ≠ 7
  | .black, s, t => s = t + 7 ∧ s % 8 ≠ 7

theorem shiftRel_push (c : Color) : ShiftRel (PawnDirection.new c).north (pushTo c) := by
  cases c
  · refine ⟨fun bb t ht => hasSq_shift_N_iff bb t ht, ?_⟩
    intro s t _ _ h
    simp only [pushTo] at h
    simp only [PawnDirection.new, NORTH, Int.ofNat_eq_natCast]; omega
  · refine ⟨fun bb t ht => hasSq_shift_S_iff bb t ht, ?_⟩
    intro s t _ _ h
    simp only [pushTo] at h
    simp only [PawnDirection.new, SOUTH, Int.ofNat_eq_natCast]; omega

theorem shiftRel_west (c : Color) : ShiftRel ((PawnDirection.new c).north + WEST) (capWest c) := by
  cases c
  · refine ⟨fun bb t ht => hasSq_shift_NW_iff bb t ht, ?_⟩
    intro s t _ _ h
    simp only [capWest] at h
    simp only [PawnDirection.new, NORTH, WEST, Int.ofNat_eq_natCast]; omega
  · refine ⟨fun bb t ht => hasSq_shift_SW_iff bb t ht, ?_⟩
    intro s t _ _ h
    simp only [capWest] at h
    simp only [PawnDirection.new, SOUTH, WEST, Int.ofNat_eq_natCast]; omega

theorem shiftRel_east (c : Color) : ShiftRel ((PawnDirection.new c).north + EAST) (capEast c) := by
  cases c
  · refine ⟨fun bb t ht => hasSq_shift_NE_iff bb t ht, ?_⟩
    intro s t _ _ h
    simp only [capEast] at h
    simp only [PawnDirection.new, NORTH, EAST, Int.ofNat_eq_natCast]; omega
  · refine ⟨fun bb t ht => hasSq_shift_SE_iff bb t ht, ?_⟩
    intro s t _ _ h
    simp only [capEast] at h
    simp only [PawnDirection.new, SOUTH, EAST, Int.ofNat_eq_natCast]; omega

end Flounder
