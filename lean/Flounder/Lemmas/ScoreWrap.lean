/-
  C05 range helpers, part 3: the search ON MACHINE INTEGERS, and its equality with the `Int` model.

  `…W` is the search of Model/Search.lean with EVERY arithmetic operation of the Rust source performed the way
  release-mode Rust performs it: `wrap32 (·)` around every `i32` negation / addition / subtraction /
  multiplication (two's-complement wrap-around), `wrap8` around the `i8` negation in `order_captures`, `wrapU8`
  around `ply + 1`, `sat32` for `saturating_add`, and `wrap32` around every widening cast (a no-op on a `u8`/`i8`
  source, kept so that nothing is assumed).  Comparisons, `max`, `min` and data movement are unchanged.
  Nothing else differs from the model: same polls, same table operations, same control flow.

  `quiesceW_eq`, `negamaxW_eq`, `searchPositionW_eq`, `iterateW_eq`, `findBestMoveW_eq`:
      if the arithmetic-site predicate of a call holds, the machine-integer search and the `Int` model return
      the SAME result and the SAME state.
  Two uses: (1) together with Lemmas/ScoreRangeSearch.lean this is "the engine on `i32` = the model on `Int`"
  under the range hypotheses; (2) it audits the site predicates — a site missing from `…Sites` would make
  these proofs fail, because each `wrap` is removed only by the site fact that licenses it.
-/
import Flounder.Lemmas.ScoreRangeSearch

namespace Flounder.Range
open Flounder Gen Flounder.Search

/-! ### machine arithmetic -/

/-- two's-complement wrap-around into `i32`. -/
def wrap32 (x : Int) : Int := (x + 2147483648) % 4294967296 - 2147483648
/-- two's-complement wrap-around into `i8`. -/
def wrap8 (x : Int) : Int := (x + 128) % 256 - 128
/-- wrap-around into `u8`. -/
def wrapU8 (n : Nat) : Nat := n % 256
/-- `i32::saturating_add`, applied to the mathematical sum of two `i32` values. -/
def sat32 (x : Int) : Int := if x > 2147483647 then 2147483647 else if x < -2147483648 then -2147483648 else x

theorem wrap32_eq_iff (x : Int) : wrap32 x = x ↔ I32 x := by unfold wrap32 I32; omega
theorem wrap32_of {x : Int} (h : I32 x) : wrap32 x = x := (wrap32_eq_iff x).2 h
theorem wrap32_range (x : Int) : I32 (wrap32 x) := by unfold wrap32 I32; omega
theorem wrap8_eq_iff (x : Int) : wrap8 x = x ↔ I8 x := by unfold wrap8 I8; omega
theorem wrap8_of {x : Int} (h : I8 x) : wrap8 x = x := (wrap8_eq_iff x).2 h
theorem wrapU8_eq_iff (n : Nat) : wrapU8 n = n ↔ U8 n := by unfold wrapU8 U8; omega
theorem wrapU8_of {n : Nat} (h : U8 n) : wrapU8 n = n := (wrapU8_eq_iff n).2 h
/-- the one value whose negation wraps. -/
theorem wrap32_neg_min : wrap32 (-(-2147483648)) = -2147483648 := by decide

/-! ### the search on machine integers -/

namespace W

/-- `HistoryTable::record_cutoff` on `i32`. -/
def recordCutoff (s : SearchState) (mv : Move) (depth : Nat) : SearchState :=
  let i := mv.src * 64 + mv.dst
  let increment := wrap32 (wrap32 (depth : Int) * wrap32 (depth : Int))
  { s with history := s.history.setIfInBounds i (sat32 (s.history.getD i 0 + increment)) }

/-- `HistoryTable::age` on `i32`. -/
def ageHistory (s : SearchState) : SearchState :=
  { s with history := s.history.map (fun v => wrap32 (v.tdiv 2)) }

section generic
variable {P : Type} (G : Game P)

/-- the sort key of `order_moves` on `i32`. -/
def orderKey (s : SearchState) (p : P) (ttMove : Option Move) (ply : Nat) (mv : Move) : Int :=
  if ttMove = some mv then ORDER_TT
  else
    match (if mv.kind = .capture ∨ mv.kind = .enPassant then captureScore G p mv else none) with
    | some score => wrap32 (wrap32 (-(wrap32 score)) - ORDER_CAPTURE_BASE)
    | none =>
      if s.isKiller mv ply then ORDER_KILLER
      else if mv.kind = .promotion then ORDER_PROMO
      else if mv.kind = .quiet then wrap32 (-(s.historyScore mv))
      else 0

def orderMoves (s : SearchState) (p : P) (ms : List Move) (ttMove : Option Move) (ply : Nat) : List Move :=
  ms.mergeSort fun a b => decide (orderKey G s p ttMove ply a ≤ orderKey G s p ttMove ply b)

/-- the sort key of `order_captures` on `i8`. -/
def captureKey (p : P) (mv : Move) : Int :=
  if mv.kind = .enPassant then ORDER_EP_Q
  else match captureScore G p mv with
    | some score => wrap8 (-score)
    | none => 0

def orderCaptures (p : P) (ms : List Move) : List Move :=
  ms.mergeSort fun a b => decide (captureKey G p a ≤ captureKey G p b)

/-- the move loop of `search_until_quiet` on `i32`. -/
def quiesceLoop (rec : P → Int → Int → SearchState → Option Int × SearchState)
    (p : P) (beta : Int) : List Move → Int → SearchState → Option Int × SearchState
  | [], alpha, s => (some alpha, s)
  | mv :: rest, alpha, s =>
    let (stop, s) := s.shouldStop
    if stop then (some alpha, s)
    else
      match rec (G.play p mv) (wrap32 (-beta)) (wrap32 (-alpha)) s with
      | (none, s) => (none, s)
      | (some v, s) =>
        let score := wrap32 (-v)
        if score ≥ beta then (some beta, s)
        else quiesceLoop rec p beta rest (max alpha score) s

/-- `search_until_quiet` on `i32`. -/
def quiesce : Nat → P → Int → Int → SearchState → Option Int × SearchState
  | 0, _, _, _, s => (none, s)
  | fuel + 1, p, alpha, beta, s =>
    let s := s.incrementNodes
    let inCheck := G.inCheck p
    let moves := if inCheck then G.moves p else G.qmoves p
    let moves := orderCaptures G p moves
    if moves.isEmpty && inCheck then (some (wrap32 (-CHECKMATE_SCORE)), s)
    else
      let standPat := G.eval p
      if standPat ≥ beta then (some beta, s)
      else quiesceLoop G (quiesce fuel) p beta moves (max alpha standPat) s

/-- the move loop of `negamax` on `i32` scores and `u8` plies. -/
def negamaxLoop (rec : P → Nat → Int → Int → SearchState → Option SearchResult × SearchState)
    (p : P) (depth ply : Nat) (beta : Int) :
    List Move → LoopAcc → SearchState → Option LoopAcc × SearchState
  | [], acc, s => (some acc, s)
  | mv :: rest, acc, s =>
    let (stop, s) := s.shouldStop
    if stop then (some acc, s)
    else
      match rec (G.play p mv) (wrapU8 (ply + 1)) (wrap32 (-beta)) (wrap32 (-acc.alpha)) s with
      | (none, s) => (none, s)
      | (some r, s) =>
        let score := wrap32 (-r.score)
        let best := if score > acc.best.score then ⟨score, some mv⟩ else acc.best
        let alpha := max acc.alpha score
        if alpha ≥ beta then
          let s := if mv.kind = .quiet then recordCutoff (s.storeKiller mv ply) mv depth else s
          (some ⟨alpha, best⟩, s)
        else negamaxLoop rec p depth ply beta rest ⟨alpha, best⟩ s

/-- `negamax` on `i32`. -/
def negamax (qfuel : Nat) : Nat → P → Nat → Int → Int → SearchState → Option SearchResult × SearchState
  | depth, p, ply, alpha, beta, s =>
    let s := s.incrementNodes
    let originalAlpha := alpha
    if ply > 0 && s.isRepetition (G.hash p) then (some ⟨0, none⟩, s)
    else
      match probeTT G s p depth alpha beta with
      | (some cached, _, s) => (some cached, s)
      | (none, ttMove, s) =>
        match depth with
        | 0 =>
          match quiesce G qfuel p alpha beta s with
          | (none, s) => (none, s)
          | (some v, s) => (some ⟨v, none⟩, s)
        | d + 1 =>
          let moves := G.moves p
          match moves with
          | [] =>
            if G.inCheck p then
              (some ⟨wrap32 (wrap32 (-CHECKMATE_SCORE) + wrap32 ((d + 1 : Nat) : Int)), none⟩, s)
            else (some ⟨0, none⟩, s)
          | m0 :: _ =>
            let ordered := orderMoves G s p moves ttMove ply
            let first := ordered.headD m0
            match negamaxLoop G (negamax qfuel d) p (d + 1) ply beta ordered
                    ⟨alpha, ⟨NEGATIVE_INFINITY, some first⟩⟩ s with
            | (none, s) => (none, s)
            | (some acc, s) =>
              let (stop, s) := s.shouldStop
              if stop then (some acc.best, s)
              else
                let bound := determineBound acc.best.score originalAlpha beta
                let s := { s with tt := s.tt.store (G.hash p) acc.best.score acc.best.bestMove (d + 1) bound }
                (some acc.best, s)

def searchPosition (qfuel : Nat) (p : P) (depth : Nat) (s : SearchState) : Option SearchResult × SearchState :=
  let s := { s with rep := G.hash p :: s.rep }
  let (r, s) := negamax G qfuel depth p 0 NEGATIVE_INFINITY INFINITY s
  (r, { s with rep := s.rep.drop 1 })

def iterate (qfuel : Nat) (p : P) (maxDepth : Nat) :
    Nat → Nat → (Int × Option Move) → SearchState → Option (Int × Option Move) × SearchState
  | 0, _, best, s => (some best, s)
  | n + 1, cur, best, s =>
    if cur > maxDepth then (some best, s)
    else
      let (stop, s) := s.shouldStop
      if stop then (some best, s)
      else
        match searchPosition G qfuel p cur s with
        | (none, s) => (none, s)
        | (some r, s) =>
          let (stop2, s) := s.shouldStop
          if !stop2 then
            let s := { s with tt := s.tt.store (G.hash p) r.score r.bestMove cur .exact,
                              info := (cur, r.score, s.nodes, r.bestMove) :: s.info }
            iterate qfuel p maxDepth n (cur + 1) (r.score, r.bestMove) s
          else iterate qfuel p maxDepth n (cur + 1) best s

def findBestMove (qfuel : Nat) (p : P) (maxDepth : Nat) (limit : Limit) (s : SearchState) :
    Option (Int × Option Move) × SearchState :=
  let s := { s with nodes := 0, polls := 0, limit := limit, stopSeen := false, nodesAfterStop := 0, info := [] }
  let s := ageHistory s
  match iterate G qfuel p maxDepth maxDepth 1 (NEGATIVE_INFINITY, none) s with
  | (none, s) => (none, s)
  | (some (score, some mv), s) => (some (score, some mv), s)
  | (some (score, none), s) => (some (score, (G.moves p).head?), s)

end generic
end W

/-! ### machine search = model, where the sites hold -/

theorem recordCutoffW_eq (s : SearchState) (mv : Move) (d : Nat) (h : cutoffSites s mv d) :
    W.recordCutoff s mv d = s.recordCutoff mv d := by
  obtain ⟨h1, h2, h3, h4, h5⟩ := h
  unfold W.recordCutoff SearchState.recordCutoff
  simp only
  rw [wrap32_of h1, wrap32_of h2]
  have : sat32 (s.history.getD (mv.src * 64 + mv.dst) 0 + (d : Int) * (d : Int)) =
      (if s.history.getD (mv.src * 64 + mv.dst) 0 + (d : Int) * (d : Int) > SearchState.i32Max then
        SearchState.i32Max else s.history.getD (mv.src * 64 + mv.dst) 0 + (d : Int) * (d : Int)) := by
    unfold SearchState.historyScore at h4
    unfold sat32
    rw [i32Max_eq']
    split
    · rfl
    · rw [if_neg (by omega)]
  rw [this]

section eqs
variable {P : Type} (G : Game P)

theorem orderKeyW_eq (s : SearchState) (p : P) (ttMove : Option Move) (ply : Nat) (mv : Move)
    (h : orderKeySites G s p mv) : W.orderKey G s p ttMove ply mv = orderKey G s p ttMove ply mv := by
  unfold W.orderKey orderKey
  by_cases ht : ttMove = some mv
  · rw [if_pos ht, if_pos ht]
  · rw [if_neg ht, if_neg ht]
    have hcs : ∀ score, (if mv.kind = .capture ∨ mv.kind = .enPassant then captureScore G p mv else none)
        = some score → captureScore G p mv = some score := by
      intro score hsc
      split at hsc
      · exact hsc
      · cases hsc
    cases hc : (if mv.kind = .capture ∨ mv.kind = .enPassant then captureScore G p mv else none) with
    | some score =>
      simp only
      obtain ⟨h8, h1, h2⟩ := h.1 score (hcs score hc)
      have h32 : I32 score := by unfold I8 at h8; unfold I32; omega
      rw [wrap32_of h32, wrap32_of h1, wrap32_of h2]
    | none =>
      simp only
      rw [wrap32_of h.2.2]

theorem orderMovesW_eq (s : SearchState) (p : P) (ms : List Move) (ttMove : Option Move) (ply : Nat)
    (h : ∀ mv ∈ ms, orderKeySites G s p mv) : W.orderMoves G s p ms ttMove ply = orderMoves G s p ms ttMove ply := by
  unfold W.orderMoves orderMoves
  have := List.map_mergeSort (f := id)
    (r := fun a b => decide (W.orderKey G s p ttMove ply a ≤ W.orderKey G s p ttMove ply b))
    (s := fun a b => decide (orderKey G s p ttMove ply a ≤ orderKey G s p ttMove ply b)) (l := ms)
    (fun a ha b hb => by
      simp only [id]
      rw [orderKeyW_eq G s p ttMove ply a (h a ha), orderKeyW_eq G s p ttMove ply b (h b hb)])
  simpa using this

theorem captureKeyW_eq (p : P) (mv : Move) (h : captureKeySites G p mv) : W.captureKey G p mv = captureKey G p mv := by
  unfold W.captureKey captureKey
  by_cases he : mv.kind = .enPassant
  · rw [if_pos he, if_pos he]
  · rw [if_neg he, if_neg he]
    cases hc : captureScore G p mv with
    | some score =>
      simp only
      rw [wrap8_of (h score hc).2]
    | none => rfl

theorem orderCapturesW_eq (p : P) (ms : List Move) (h : ∀ mv ∈ ms, captureKeySites G p mv) :
    W.orderCaptures G p ms = orderCaptures G p ms := by
  unfold W.orderCaptures orderCaptures
  have := List.map_mergeSort (f := id)
    (r := fun a b => decide (W.captureKey G p a ≤ W.captureKey G p b))
    (s := fun a b => decide (captureKey G p a ≤ captureKey G p b)) (l := ms)
    (fun a ha b hb => by
      simp only [id]
      rw [captureKeyW_eq G p a (h a ha), captureKeyW_eq G p b (h b hb)])
  simpa using this

/-! #### quiescence -/

theorem quiesceLoopW_nil (rec : P → Int → Int → SearchState → Option Int × SearchState) (p : P)
    (β α : Int) (s : SearchState) : W.quiesceLoop G rec p β [] α s = (some α, s) := rfl

theorem quiesceLoopW_cons (rec : P → Int → Int → SearchState → Option Int × SearchState) (p : P)
    (β α : Int) (mv : Move) (rest : List Move) (s : SearchState) :
    W.quiesceLoop G rec p β (mv :: rest) α s =
      if stopFlag s = true then (some α, polled s)
      else
        match rec (G.play p mv) (wrap32 (-β)) (wrap32 (-α)) (polled s) with
        | (none, s) => (none, s)
        | (some v, s) =>
          if wrap32 (-v) ≥ β then (some β, s) else W.quiesceLoop G rec p β rest (max α (wrap32 (-v))) s := rfl

theorem quiesceW_succ (fuel : Nat) (p : P) (α β : Int) (s : SearchState) :
    W.quiesce G (fuel + 1) p α β s =
      if ((W.orderCaptures G p (qList G p)).isEmpty && G.inCheck p) = true then
        (some (wrap32 (-CHECKMATE_SCORE)), s.incrementNodes)
      else if G.eval p ≥ β then (some β, s.incrementNodes)
      else W.quiesceLoop G (W.quiesce G fuel) p β (W.orderCaptures G p (qList G p)) (max α (G.eval p))
            s.incrementNodes := rfl

theorem quiesceLoopW_eq (rec recW : P → Int → Int → SearchState → Option Int × SearchState)
    (recS : P → Int → Int → SearchState → Prop)
    (hrec : ∀ q a b s, recS q a b s → recW q a b s = rec q a b s) (p : P) (β : Int) :
    ∀ (ms : List Move) (α : Int) (s : SearchState), quiesceLoopSites G rec recS p β ms α s →
      W.quiesceLoop G recW p β ms α s = quiesceLoop G rec p β ms α s := by
  intro ms
  induction ms with
  | nil => intro α s _; rfl
  | cons mv rest ih =>
    intro α s h
    rw [quiesceLoopW_cons, quiesceLoop_cons]
    rw [quiesceLoopSites_cons] at h
    by_cases hstop : stopFlag s = true
    · rw [if_pos hstop, if_pos hstop]
    · rw [if_neg hstop] at h ⊢
      rw [if_neg hstop]
      obtain ⟨h1, h2, h3, h4⟩ := h
      rw [wrap32_of h1, wrap32_of h2, hrec _ _ _ _ h3]
      rcases hres : rec (G.play p mv) (-β) (-α) (polled s) with ⟨ro, s2⟩
      rw [hres] at h4
      cases ro with
      | none => rfl
      | some v =>
        simp only at h4 ⊢
        obtain ⟨_, hnv, h5⟩ := h4
        rw [wrap32_of hnv]
        by_cases hc : -v ≥ β
        · rw [if_pos hc, if_pos hc]
        · rw [if_neg hc] at h5 ⊢
          rw [if_neg hc]
          exact ih _ _ h5.2

theorem quiesceW_eq (fuel : Nat) : ∀ (p : P) (α β : Int) (s : SearchState), quiesceSites G fuel p α β s →
    W.quiesce G fuel p α β s = quiesce G fuel p α β s := by
  induction fuel with
  | zero => intro p α β s _; rfl
  | succ n ih =>
    intro p α β s h
    rw [quiesceW_succ, quiesce_succ]
    rw [quiesceSites_succ] at h
    obtain ⟨hk, h⟩ := h
    rw [orderCapturesW_eq G p (qList G p) hk]
    by_cases hm : ((orderCaptures G p (qList G p)).isEmpty && G.inCheck p) = true
    · rw [if_pos hm] at h ⊢
      rw [if_pos hm, wrap32_of h]
    · rw [if_neg hm] at h ⊢
      rw [if_neg hm]
      by_cases hc : G.eval p ≥ β
      · rw [if_pos hc, if_pos hc]
      · rw [if_neg hc] at h ⊢
        rw [if_neg hc]
        exact quiesceLoopW_eq G (quiesce G n) (W.quiesce G n) (quiesceSites G n) ih p β _ _ _ h.2.2

/-! #### `negamax` -/

theorem negamaxLoopW_nil (rec : P → Nat → Int → Int → SearchState → Option SearchResult × SearchState)
    (p : P) (depth ply : Nat) (β : Int) (acc : LoopAcc) (s : SearchState) :
    W.negamaxLoop G rec p depth ply β [] acc s = (some acc, s) := rfl

theorem negamaxLoopW_cons (rec : P → Nat → Int → Int → SearchState → Option SearchResult × SearchState)
    (p : P) (depth ply : Nat) (β : Int) (mv : Move) (rest : List Move) (acc : LoopAcc) (s : SearchState) :
    W.negamaxLoop G rec p depth ply β (mv :: rest) acc s =
      if stopFlag s = true then (some acc, polled s)
      else
        match rec (G.play p mv) (wrapU8 (ply + 1)) (wrap32 (-β)) (wrap32 (-acc.alpha)) (polled s) with
        | (none, s) => (none, s)
        | (some r, s) =>
          if max acc.alpha (wrap32 (-r.score)) ≥ β then
            (some ⟨max acc.alpha (wrap32 (-r.score)),
                if wrap32 (-r.score) > acc.best.score then ⟨wrap32 (-r.score), some mv⟩ else acc.best⟩,
              if mv.kind = .quiet then W.recordCutoff (s.storeKiller mv ply) mv depth else s)
          else W.negamaxLoop G rec p depth ply β rest
            ⟨max acc.alpha (wrap32 (-r.score)),
              if wrap32 (-r.score) > acc.best.score then ⟨wrap32 (-r.score), some mv⟩ else acc.best⟩ s :=
  rfl

theorem negamaxLoopW_eq (rec recW : P → Nat → Int → Int → SearchState → Option SearchResult × SearchState)
    (recS : P → Nat → Int → Int → SearchState → Prop)
    (hrec : ∀ q ply a b s, recS q ply a b s → recW q ply a b s = rec q ply a b s) (p : P) (depth ply : Nat)
    (β : Int) :
    ∀ (ms : List Move) (acc : LoopAcc) (s : SearchState), negamaxLoopSites G rec recS p depth ply β ms acc s →
      W.negamaxLoop G recW p depth ply β ms acc s = negamaxLoop G rec p depth ply β ms acc s := by
  intro ms
  induction ms with
  | nil => intro acc s _; rfl
  | cons mv rest ih =>
    intro acc s h
    rw [negamaxLoopW_cons, negamaxLoop_cons]
    rw [negamaxLoopSites_cons] at h
    by_cases hstop : stopFlag s = true
    · rw [if_pos hstop, if_pos hstop]
    · rw [if_neg hstop] at h ⊢
      rw [if_neg hstop]
      obtain ⟨hu, h1, h2, h3, h4⟩ := h
      rw [wrapU8_of hu, wrap32_of h1, wrap32_of h2, hrec _ _ _ _ _ h3]
      rcases hres : rec (G.play p mv) (ply + 1) (-β) (-acc.alpha) (polled s) with ⟨ro, s2⟩
      rw [hres] at h4
      cases ro with
      | none => rfl
      | some r =>
        simp only at h4 ⊢
        obtain ⟨_, hnv, _, h5⟩ := h4
        rw [wrap32_of hnv]
        by_cases hc : max acc.alpha (-r.score) ≥ β
        · rw [if_pos hc] at h5 ⊢
          rw [if_pos hc]
          by_cases hq : mv.kind = .quiet
          · rw [if_pos hq, if_pos hq, recordCutoffW_eq _ _ _ (h5 hq)]
          · rw [if_neg hq, if_neg hq]
        · rw [if_neg hc] at h5 ⊢
          rw [if_neg hc]
          exact ih _ _ h5

/-- depth ≥ 1 after a table miss, on machine integers. -/
def innerResultW (rec : P → Nat → Int → Int → SearchState → Option SearchResult × SearchState)
    (d : Nat) (p : P) (ply : Nat) (α β : Int) (ttMove : Option Move) (s : SearchState) :
    Option SearchResult × SearchState :=
  match G.moves p with
  | [] =>
    if G.inCheck p then
      (some ⟨wrap32 (wrap32 (-CHECKMATE_SCORE) + wrap32 ((d + 1 : Nat) : Int)), none⟩, s)
    else (some ⟨0, none⟩, s)
  | m0 :: _ =>
    match W.negamaxLoop G rec p (d + 1) ply β (W.orderMoves G s p (G.moves p) ttMove ply)
        ⟨α, ⟨NEGATIVE_INFINITY, some ((W.orderMoves G s p (G.moves p) ttMove ply).headD m0)⟩⟩ s with
    | (none, s) => (none, s)
    | (some acc, s) => finishNode G p (d + 1) α β acc s

/-- depth 0 after a table miss, on machine integers. -/
def leafResultW (qfuel : Nat) (p : P) (α β : Int) (s : SearchState) : Option SearchResult × SearchState :=
  match W.quiesce G qfuel p α β s with
  | (none, s) => (none, s)
  | (some v, s) => (some ⟨v, none⟩, s)

theorem negamaxW_zero (qfuel : Nat) (p : P) (ply : Nat) (α β : Int) (s : SearchState) :
    W.negamax G qfuel 0 p ply α β s =
      if (decide (ply > 0) && s.incrementNodes.isRepetition (G.hash p)) = true then
        (some ⟨0, none⟩, s.incrementNodes)
      else
        match probeTT G s.incrementNodes p 0 α β with
        | (some cached, _, s) => (some cached, s)
        | (none, _, s) => leafResultW G qfuel p α β s := by
  rw [W.negamax]
  rfl

theorem negamaxW_succ (qfuel d : Nat) (p : P) (ply : Nat) (α β : Int) (s : SearchState) :
    W.negamax G qfuel (d + 1) p ply α β s =
      if (decide (ply > 0) && s.incrementNodes.isRepetition (G.hash p)) = true then
        (some ⟨0, none⟩, s.incrementNodes)
      else
        match probeTT G s.incrementNodes p (d + 1) α β with
        | (some cached, _, s) => (some cached, s)
        | (none, ttMove, s) => innerResultW G (W.negamax G qfuel d) d p ply α β ttMove s := by
  rw [W.negamax]
  rfl

theorem innerResultW_eq (rec recW : P → Nat → Int → Int → SearchState → Option SearchResult × SearchState)
    (recS : P → Nat → Int → Int → SearchState → Prop)
    (hrec : ∀ q ply a b s, recS q ply a b s → recW q ply a b s = rec q ply a b s)
    (d : Nat) (p : P) (ply : Nat) (α β : Int) (ttMove : Option Move) (s : SearchState)
    (h : innerSites G rec recS d p ply α β ttMove s) :
    innerResultW G recW d p ply α β ttMove s = innerResult G rec d p ply α β ttMove s := by
  rcases hmv : G.moves p with _ | ⟨m0, tl⟩
  · rw [innerSites_nil G rec recS d p ply α β ttMove s hmv] at h
    rw [innerResult_nil G rec d p ply α β ttMove s hmv]
    unfold innerResultW
    split
    · by_cases hc : G.inCheck p = true
      · rw [if_pos hc] at h ⊢
        rw [if_pos hc]
        obtain ⟨h1, h2, h3⟩ := h
        rw [wrap32_of h1, wrap32_of h2, wrap32_of h3]
      · rw [if_neg hc, if_neg hc]
    · rename_i h'; rw [hmv] at h'; cases h'
  · rw [innerSites_cons G rec recS d p ply α β ttMove s m0 tl hmv] at h
    rw [innerResult_cons G rec d p ply α β ttMove s m0 tl hmv]
    unfold innerResultW
    split
    · rename_i h'; rw [hmv] at h'; cases h'
    · rename_i m0' tl' h'
      have : m0' = m0 := by rw [hmv] at h'; cases h'; rfl
      subst this
      rw [orderMovesW_eq G s p (G.moves p) ttMove ply h.1,
        negamaxLoopW_eq G rec recW recS hrec p (d + 1) ply β _ _ _ h.2]
      rfl

theorem negamaxW_eq (qfuel : Nat) : ∀ (d : Nat) (p : P) (ply : Nat) (α β : Int) (s : SearchState),
    negamaxSites G qfuel d p ply α β s → W.negamax G qfuel d p ply α β s = negamax G qfuel d p ply α β s := by
  intro d
  induction d with
  | zero =>
    intro p ply α β s h
    rw [negamaxW_zero, negamax_zero]
    rw [negamaxSites_zero] at h
    by_cases hr : (decide (ply > 0) && s.incrementNodes.isRepetition (G.hash p)) = true
    · rw [if_pos hr, if_pos hr]
    · rw [if_neg hr] at h ⊢
      rw [if_neg hr]
      rcases hp : probeTT G s.incrementNodes p 0 α β with ⟨ro, mv, s1⟩
      rw [hp] at h
      cases ro with
      | some r => rfl
      | none =>
        simp only at h ⊢
        unfold leafResultW leafResult
        rw [quiesceW_eq G qfuel p α β s1 h]
        rfl
  | succ d ih =>
    intro p ply α β s h
    rw [negamaxW_succ, negamax_succ]
    rw [negamaxSites_succ] at h
    by_cases hr : (decide (ply > 0) && s.incrementNodes.isRepetition (G.hash p)) = true
    · rw [if_pos hr, if_pos hr]
    · rw [if_neg hr] at h ⊢
      rw [if_neg hr]
      rcases hp : probeTT G s.incrementNodes p (d + 1) α β with ⟨ro, mv, s1⟩
      rw [hp] at h
      cases ro with
      | some r => rfl
      | none =>
        simp only at h ⊢
        exact innerResultW_eq G (negamax G qfuel d) (W.negamax G qfuel d) (negamaxSites G qfuel d) ih
          d p ply α β mv s1 h

/-! #### `search_position`, the iteration loop, `find_best_move` -/

theorem searchPositionW_def (qfuel : Nat) (p : P) (depth : Nat) (s : SearchState) :
    W.searchPosition G qfuel p depth s =
      ((W.negamax G qfuel depth p 0 NEGATIVE_INFINITY INFINITY (pushed G p s)).1,
        { (W.negamax G qfuel depth p 0 NEGATIVE_INFINITY INFINITY (pushed G p s)).2 with
          rep := (W.negamax G qfuel depth p 0 NEGATIVE_INFINITY INFINITY (pushed G p s)).2.rep.drop 1 }) := rfl

theorem searchPositionW_eq (qfuel : Nat) (p : P) (depth : Nat) (s : SearchState)
    (h : searchPositionSites G qfuel p depth s) :
    W.searchPosition G qfuel p depth s = searchPosition G qfuel p depth s := by
  rw [searchPositionW_def, searchPosition_eq, negamaxW_eq G qfuel depth p 0 _ _ _ h]

theorem iterateW_succ (qfuel : Nat) (p : P) (maxDepth n cur : Nat) (best : Int × Option Move)
    (s : SearchState) :
    W.iterate G qfuel p maxDepth (n + 1) cur best s =
      if cur > maxDepth then (some best, s)
      else if stopFlag s = true then (some best, polled s)
      else
        match W.searchPosition G qfuel p cur (polled s) with
        | (none, s) => (none, s)
        | (some r, s) =>
          if (!stopFlag s) = true then
            W.iterate G qfuel p maxDepth n (cur + 1) (r.score, r.bestMove) (cached G p cur r (polled s))
          else W.iterate G qfuel p maxDepth n (cur + 1) best (polled s) := rfl

theorem iterateW_eq (qfuel : Nat) (p : P) (maxDepth : Nat) :
    ∀ (n cur : Nat) (best : Int × Option Move) (s : SearchState), iterateSites G qfuel p maxDepth n cur s →
      W.iterate G qfuel p maxDepth n cur best s = iterate G qfuel p maxDepth n cur best s := by
  intro n
  induction n with
  | zero => intro cur best s _; rfl
  | succ n ih =>
    intro cur best s h
    rw [iterateW_succ, iterate_succ]
    rw [iterateSites_succ] at h
    by_cases h1 : cur > maxDepth
    · rw [if_pos h1, if_pos h1]
    · rw [if_neg h1] at h ⊢
      rw [if_neg h1]
      by_cases h2 : stopFlag s = true
      · rw [if_pos h2, if_pos h2]
      · rw [if_neg h2] at h ⊢
        rw [if_neg h2]
        rw [searchPositionW_eq G qfuel p cur (polled s) h.1]
        have h' := h.2
        rcases hsp : searchPosition G qfuel p cur (polled s) with ⟨ro, s2⟩
        rw [hsp] at h'
        cases ro with
        | none => rfl
        | some r =>
          simp only at h' ⊢
          by_cases h3 : (!stopFlag s2) = true
          · rw [if_pos h3] at h' ⊢
            rw [if_pos h3]
            exact ih _ _ _ h'.2
          · rw [if_neg h3] at h' ⊢
            rw [if_neg h3]
            exact ih _ _ _ h'.2

theorem ageHistoryW_eq (s : SearchState) (h : ∀ i, I32 (s.history.getD i 0) ∧ I32 ((s.history.getD i 0).tdiv 2)) :
    W.ageHistory s = s.ageHistory := by
  unfold W.ageHistory SearchState.ageHistory
  have : s.history.map (fun v => wrap32 (v.tdiv 2)) = s.history.map (fun v => v.tdiv 2) := by
    apply Array.map_congr_left
    intro a ha
    obtain ⟨i, hi, rfl⟩ := Array.mem_iff_getElem.1 ha
    have := (h i).2
    rw [Array.getD_eq_getD_getElem?, Array.getElem?_eq_getElem hi] at this
    exact wrap32_of this
  rw [this]

/-- the state after `timer.start()`, before `history.age()`. -/
def prepared (limit : Limit) (s : SearchState) : SearchState :=
  { s with nodes := 0, polls := 0, limit := limit, stopSeen := false, nodesAfterStop := 0, info := [] }

theorem started_eq (limit : Limit) (s : SearchState) : started limit s = (prepared limit s).ageHistory := rfl

theorem findBestMoveW_def (qfuel : Nat) (p : P) (maxDepth : Nat) (limit : Limit) (s : SearchState) :
    W.findBestMove G qfuel p maxDepth limit s =
      match W.iterate G qfuel p maxDepth maxDepth 1 (NEGATIVE_INFINITY, none) (W.ageHistory (prepared limit s)) with
      | (none, s) => (none, s)
      | (some (score, some mv), s) => (some (score, some mv), s)
      | (some (score, none), s) => (some (score, (G.moves p).head?), s) := rfl

theorem findBestMoveW_eq (qfuel : Nat) (p : P) (maxDepth : Nat) (limit : Limit) (s : SearchState)
    (h : findBestMoveSites G qfuel p maxDepth limit s) :
    W.findBestMove G qfuel p maxDepth limit s = findBestMove G qfuel p maxDepth limit s := by
  obtain ⟨h1, h2⟩ := h
  have ha : W.ageHistory (prepared limit s) = started limit s := by
    rw [started_eq]
    exact ageHistoryW_eq _ h1
  rw [findBestMoveW_def, ha, iterateW_eq G qfuel p maxDepth maxDepth 1 _ _ h2, findBestMove_eq]
  rfl

end eqs

end Flounder.Range
