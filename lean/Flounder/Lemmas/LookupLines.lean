/-
  C10 — the "between" tables (`inclusiveBetweenGen` / `exclusiveBetweenGen`) at the level of squares:
  Boolean, `Nat`-evaluable description `betweenN` of their bits, given the slider characterisation.
-/
import Flounder.Lemmas.MagicGeom

namespace Flounder.MagicProof
open Flounder Flounder.Gen Flounder.Spec

/-- `Spec.sliderReach` with the occupancy as a natural number. -/
def reachN (diag : Bool) (occ : Nat) (s t : Nat) : Bool :=
  alignedB diag s t && (strictlyBetween s t).all fun u => !occ.testBit (u % 64)

theorem sliderReach_eq_reachN (diag : Bool) (occ : UInt64) (s t : Nat) :
    sliderReach diag occ s t = reachN diag occ.toNat s t := by
  unfold sliderReach reachN alignedB
  congr 1
  apply List.all_congr rfl
  intro u
  rw [hasSq_eq_testBit]

/-- bits of one cell of a between table; `occS` / `occT` are the occupancies used for the lookups
    from `s` / from `t`. -/
def betweenN (occS occT : Nat) (s t u : Nat) : Bool :=
  if reachN false occS s t then
    (reachN false occS s u && reachN false occT t u) || decide (s = u) || decide (t = u)
  else if reachN true occS s t then
    (reachN true occS s u && reachN true occT t u) || decide (s = u) || decide (t = u)
  else false

/-- common shape of the two generators. -/
def lineCore (fb fr tb tr fromBB toBB : UInt64) : UInt64 :=
  let v : UInt64 := 0
  let v := if fb &&& toBB != 0 then (fb &&& tb) ||| fromBB ||| toBB else v
  if fr &&& toBB != 0 then (fr &&& tr) ||| fromBB ||| toBB else v

theorem inclusiveBetweenGen_eq (m : Magic) (s t : Nat) :
    inclusiveBetweenGen m s t =
      lineCore (m.getBishopAttacks s (sqBB t)) (m.getRookAttacks s (sqBB t))
        (m.getBishopAttacks t (sqBB s)) (m.getRookAttacks t (sqBB s)) (sqBB s) (sqBB t) := rfl

theorem exclusiveBetweenGen_eq (m : Magic) (s t : Nat) :
    exclusiveBetweenGen m s t =
      lineCore (m.getBishopAttacks s 0) (m.getRookAttacks s 0)
        (m.getBishopAttacks t 0) (m.getRookAttacks t 0) (sqBB s) (sqBB t) := rfl

theorem hasSq_lineCore (fb fr tb tr : UInt64) (s t u : Nat) (hs : s < 64) (ht : t < 64) (hu : u < 64) :
    hasSq (lineCore fb fr tb tr (sqBB s) (sqBB t)) u =
      if hasSq fr t then (hasSq fr u && hasSq tr u) || decide (s = u) || decide (t = u)
      else if hasSq fb t then (hasSq fb u && hasSq tb u) || decide (s = u) || decide (t = u)
      else false := by
  unfold lineCore
  have h1 : (fr &&& sqBB t != 0) = hasSq fr t := rfl
  have h2 : (fb &&& sqBB t != 0) = hasSq fb t := rfl
  simp only [h1, h2]
  cases hasSq fr t <;> cases hasSq fb t <;>
    simp [hasSq_or _ _ _ hu, hasSq_and _ _ _ hu, hasSq_sqBB s u hs hu, hasSq_sqBB t u ht hu]

/-- all cells `(s, ·, ·)` of the inclusive table agree with `Spec.onSegment`. -/
def segCheck (s : Nat) : Bool :=
  (List.range 64).all fun t => (List.range 64).all fun u =>
    betweenN (bitN t) (bitN s) s t u == onSegment s t u

/-- all cells `(s, ·, ·)` of the exclusive table agree with `Spec.onLine`. -/
def lineCheck (s : Nat) : Bool :=
  (List.range 64).all fun t => (List.range 64).all fun u => betweenN 0 0 s t u == onLine s t u

end Flounder.MagicProof
