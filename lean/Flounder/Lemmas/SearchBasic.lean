/-
  C05 helpers, part 1: the vocabulary of the search-soundness proof.

  * `Contract v r α β` — fail-soft contract of a result `r` for the true value `v` and window (α, β).
  * `Clamp c` — the proof is done ONCE for an abstract "view" `c : Int → Int` of scores and instantiated
    twice: `c = id` (strict statement) and `c = Spec.clampClass` (scores beyond the root window are
    compared as won / lost).  The second instance is what survives `cache_search_result`, which stores
    the root result as `.exact` even when it is only a bound beyond ±INFINITY.
  * `Frame`, `QFrame` — what the search never does to the state (sticky `stopSeen`, monotone
    `deeperHits`, untouched repetition stack; quiescence additionally leaves the table alone).
  * `TTSound` — exact-depth soundness of every key-verified table entry.
-/
import Flounder.Spec.Minimax
import Flounder.Lemmas.Ranked

namespace Flounder.Search
open Flounder Gen

theorem negInf_eq : NEGATIVE_INFINITY = -32767 := rfl
theorem inf_eq : INFINITY = 32767 := rfl

/-- fail-soft contract of a returned score `r` w.r.t. the true value `v` and the window `(α, β)`. -/
def Contract (v r α β : Int) : Prop :=
  (r ≤ α → v ≤ r) ∧ (r ≥ β → v ≥ r) ∧ (α < r → r < β → r = v)

theorem Contract.of_eq {v r : Int} (h : r = v) (α β : Int) : Contract v r α β := by
  subst h; exact ⟨fun _ => Int.le_refl _, fun _ => Int.le_refl _, fun _ _ => rfl⟩

/-- a score view that commutes with everything the search does with scores whenever the window lies in
    `[NEGATIVE_INFINITY, INFINITY]`. -/
structure Clamp (c : Int → Int) : Prop where
  mono : ∀ x y, x ≤ y → c x ≤ c y
  odd : ∀ x, c (-x) = - c x
  le_iff : ∀ x t, NEGATIVE_INFINITY ≤ t → t < INFINITY → (x ≤ t ↔ c x ≤ t)
  inside : ∀ x, NEGATIVE_INFINITY < x → x < INFINITY → c x = x
  negInf : c NEGATIVE_INFINITY = NEGATIVE_INFINITY

theorem clamp_id : Clamp id :=
  ⟨fun _ _ h => h, fun _ => rfl, fun _ _ _ _ => Iff.rfl, fun _ _ _ => rfl, rfl⟩

theorem clamp_clampClass : Clamp Spec.clampClass := by
  refine ⟨?_, ?_, ?_, ?_, ?_⟩
  · intro x y h; unfold Spec.clampClass; simp only [negInf_eq, inf_eq]; omega
  · intro x; unfold Spec.clampClass; simp only [negInf_eq, inf_eq]; omega
  · intro x t h1 h2; unfold Spec.clampClass; simp only [negInf_eq, inf_eq] at *; omega
  · intro x h1 h2; unfold Spec.clampClass; simp only [negInf_eq, inf_eq] at *; omega
  · decide

theorem clampClass_range (x : Int) :
    NEGATIVE_INFINITY ≤ Spec.clampClass x ∧ Spec.clampClass x ≤ INFINITY := by
  unfold Spec.clampClass; simp only [negInf_eq, inf_eq]; omega

namespace Clamp
variable {c : Int → Int} (hc : Clamp c)
include hc

theorem ge_iff (x t : Int) (h1 : NEGATIVE_INFINITY < t) (h2 : t ≤ INFINITY) : t ≤ x ↔ t ≤ c x := by
  have := hc.le_iff (-x) (-t) (by simp only [negInf_eq, inf_eq] at *; omega)
    (by simp only [negInf_eq, inf_eq] at *; omega)
  rw [hc.odd] at this
  omega

theorem max_eq (x y : Int) : c (max x y) = max (c x) (c y) := by
  rcases Int.le_total x y with h | h
  · have := hc.mono _ _ h; rw [Int.max_eq_right h, Int.max_eq_right this]
  · have := hc.mono _ _ h; rw [Int.max_eq_left h, Int.max_eq_left this]

/-- a view strictly inside the window is the score itself. -/
theorem inside' (x : Int) (h1 : NEGATIVE_INFINITY < c x) (h2 : c x < INFINITY) : c x = x := by
  apply hc.inside
  · have := hc.le_iff x NEGATIVE_INFINITY (Int.le_refl _) (by decide); omega
  · have := hc.ge_iff x INFINITY (by decide) (Int.le_refl _); omega

/-- a strict contract is a contract of the views (window inside `[NEGATIVE_INFINITY, INFINITY]`). -/
theorem contract {v r α β : Int} (h : Contract v r α β) (hα : NEGATIVE_INFINITY ≤ α) (hαβ : α < β)
    (hβ : β ≤ INFINITY) : Contract (c v) (c r) α β := by
  have l := hc.le_iff r α hα (by omega)
  have g := hc.ge_iff r β (by omega) hβ
  refine ⟨fun h1 => hc.mono _ _ (h.1 (l.2 h1)), fun h1 => hc.mono _ _ (h.2.1 (g.2 h1)), fun h1 h2 => ?_⟩
  have : r = v := h.2.2 (by omega) (by omega)
  rw [this]

end Clamp

/-! ### the deadline oracle -/

def stopFlag (s : SearchState) : Bool :=
  match s.limit with
  | .none => false
  | .nodes n => decide (s.nodes ≥ n)
  | .polls n => decide (s.polls ≥ n)

def polled (s : SearchState) : SearchState :=
  { s with polls := s.polls + 1, stopSeen := s.stopSeen || stopFlag s }

theorem shouldStop_eq (s : SearchState) : s.shouldStop = (stopFlag s, polled s) := rfl

/-- `NoStop s s'`: no poll between `s` and `s'` returned true (`stopSeen` is sticky, see `Frame.stop`). -/
def NoStop (s s' : SearchState) : Prop := s.stopSeen = false ∧ s'.stopSeen = false

/-- what no part of the search does to the state. -/
structure Frame (s s' : SearchState) : Prop where
  stop : s.stopSeen = true → s'.stopSeen = true
  deeper : s.deeperHits ≤ s'.deeperHits
  rep : s'.rep = s.rep
  /-- without a deadline no poll ever fires -/
  calm : s.limit = .none → s.stopSeen = false → s'.limit = .none ∧ s'.stopSeen = false

/-- what quiescence does not do: it additionally never touches the table. -/
structure QFrame (s s' : SearchState) : Prop where
  stop : s.stopSeen = true → s'.stopSeen = true
  deeper : s'.deeperHits = s.deeperHits
  rep : s'.rep = s.rep
  tt : s'.tt = s.tt
  calm : s.limit = .none → s.stopSeen = false → s'.limit = .none ∧ s'.stopSeen = false

theorem Frame.refl (s : SearchState) : Frame s s := ⟨id, Nat.le_refl _, rfl, fun a b => ⟨a, b⟩⟩
theorem Frame.trans {a b d : SearchState} (h1 : Frame a b) (h2 : Frame b d) : Frame a d :=
  ⟨fun h => h2.stop (h1.stop h), Nat.le_trans h1.deeper h2.deeper, h2.rep.trans h1.rep,
    fun a b => h2.calm (h1.calm a b).1 (h1.calm a b).2⟩
theorem QFrame.refl (s : SearchState) : QFrame s s := ⟨id, rfl, rfl, rfl, fun a b => ⟨a, b⟩⟩
theorem QFrame.trans {a b d : SearchState} (h1 : QFrame a b) (h2 : QFrame b d) : QFrame a d :=
  ⟨fun h => h2.stop (h1.stop h), h2.deeper.trans h1.deeper, h2.rep.trans h1.rep, h2.tt.trans h1.tt,
    fun a b => h2.calm (h1.calm a b).1 (h1.calm a b).2⟩
theorem QFrame.frame {a b : SearchState} (h : QFrame a b) : Frame a b :=
  ⟨h.stop, Nat.le_of_eq h.deeper.symm, h.rep, h.calm⟩

/-- stickiness, in the direction it is used. -/
theorem Frame.noStop {a b : SearchState} (h : Frame a b) (hb : b.stopSeen = false) : a.stopSeen = false := by
  cases ha : a.stopSeen
  · rfl
  · rw [h.stop ha] at hb; cases hb
theorem QFrame.noStop {a b : SearchState} (h : QFrame a b) (hb : b.stopSeen = false) : a.stopSeen = false :=
  h.frame.noStop hb

theorem qframe_polled (s : SearchState) : QFrame s (polled s) :=
  ⟨fun h => by simp [polled, h], rfl, rfl, rfl, fun a b => ⟨a, by simp [polled, stopFlag, a, b]⟩⟩
theorem qframe_incrementNodes (s : SearchState) : QFrame s s.incrementNodes := ⟨id, rfl, rfl, rfl, fun a b => ⟨a, b⟩⟩

theorem polled_stopSeen (s : SearchState) : (polled s).stopSeen = (s.stopSeen || stopFlag s) := rfl

/-- a poll that leaves `stopSeen` false returned false. -/
theorem stopFlag_false_of_polled {s : SearchState} (h : (polled s).stopSeen = false) : stopFlag s = false := by
  rw [polled_stopSeen] at h
  cases hs : stopFlag s
  · rfl
  · rw [hs] at h; simp at h

theorem qframe_storeKiller (s : SearchState) (mv : Move) (ply : Nat) : QFrame s (s.storeKiller mv ply) := by
  unfold SearchState.storeKiller
  split
  · dsimp only
    split
    · exact QFrame.refl _
    · exact ⟨id, rfl, rfl, rfl, fun a b => ⟨a, b⟩⟩
  · exact QFrame.refl _

theorem qframe_recordCutoff (s : SearchState) (mv : Move) (d : Nat) : QFrame s (s.recordCutoff mv d) :=
  ⟨id, rfl, rfl, rfl, fun a b => ⟨a, b⟩⟩

/-! ### repetition stack -/

/-- no hash occurs twice on the stack: `is_repetition` is false for every position. -/
def RepOK (s : SearchState) : Prop := ∀ h : UInt64, (s.rep.filter (· == h)).length < 2

theorem RepOK.not_rep {s : SearchState} (h : RepOK s) (k : UInt64) : s.isRepetition k = false := by
  unfold SearchState.isRepetition
  have := h k
  simp only [decide_eq_false_iff_not]; omega

theorem RepOK.of_rep {s s' : SearchState} (h : RepOK s) (e : s'.rep = s.rep) : RepOK s' := by
  intro k; rw [e]; exact h k

/-! ### table -/

/-- a lookup after a store sees the old answer or (under the stored key) the new record.
    No key invariant is needed. -/
theorem retrieve_store (t : TT) (k k' : UInt64) (ev : Int) (mv : Option Move) (d : Nat) (b : Bounds) :
    (t.store k ev mv d b).retrieve k' = t.retrieve k' ∨
    (k' = k ∧ (t.store k ev mv d b).retrieve k' = some ⟨k, ev, mv, d, b⟩) := by
  have ins : ({ table := t.table.insert k ⟨k, ev, mv, d, b⟩ } : TT).retrieve k' = t.retrieve k' ∨
      (k' = k ∧ ({ table := t.table.insert k ⟨k, ev, mv, d, b⟩ } : TT).retrieve k' = some ⟨k, ev, mv, d, b⟩) := by
    by_cases hk : k' = k
    · subst hk; right; refine ⟨rfl, ?_⟩
      simp [TT.retrieve]
    · left
      have : ¬ (k = k') := fun h => hk h.symm
      simp [TT.retrieve, Std.HashMap.getElem?_insert, this]
  unfold TT.store
  split
  · exact ins
  · split
    · exact ins
    · exact Or.inl rfl

section tt
variable {P : Type} (G : Game P)

/-- `S` is closed under the moves of the main search (quiescence never touches the table, so its
    moves need not be covered). -/
def Closed (S : P → Prop) : Prop := ∀ p m, S p → m ∈ G.moves p → S (G.play p m)

/-- the hash separates the positions of `S` — what a "key-verified entry" silently assumes. -/
def HashInj (S : P → Prop) : Prop := ∀ p q, S p → S q → G.hash p = G.hash q → p = q

def EvalBound : Prop := ∀ p, -INFINITY < G.eval p ∧ G.eval p < INFINITY

/-- soundness of one entry for position `p`, exact-depth semantics, scores seen through `c`. -/
structure EntryOK (c : Int → Int) (qf : Nat) (p : P) (e : Entry) : Prop where
  exact : ∀ v, Spec.V G qf e.depth p = some v → e.bounds = .exact → c e.eval = c v
  lower : ∀ v, Spec.V G qf e.depth p = some v → e.bounds = .lower → c e.eval ≤ c v
  upper : ∀ v, Spec.V G qf e.depth p = some v → e.bounds = .upper → c v ≤ c e.eval
  /-- an entry of depth ≥ 1 for a position with moves carries one of its moves -/
  move : 1 ≤ e.depth → G.moves p ≠ [] → ∃ m, e.bestMove = some m ∧ m ∈ G.moves p
  /-- the move of an exact entry inside the root window is a minimax-optimal move -/
  pv : e.bounds = .exact → NEGATIVE_INFINITY < c e.eval → c e.eval < INFINITY →
    ∀ k m x, e.depth = k + 1 → e.bestMove = some m → Spec.V G qf k (G.play p m) = some x → -x = e.eval

def TTSound (c : Int → Int) (S : P → Prop) (qf : Nat) (t : TT) : Prop :=
  ∀ p, S p → ∀ e, t.retrieve (G.hash p) = some e → EntryOK G c qf p e

theorem ttSound_new (c : Int → Int) (S : P → Prop) (qf : Nat) : TTSound G c S qf {} := by
  intro p _ e h
  simp [TT.retrieve] at h

/-- storing a sound record for `p` keeps the table sound. -/
theorem ttSound_store {c : Int → Int} {S : P → Prop} {qf : Nat} {t : TT} (hinj : HashInj G S)
    (ht : TTSound G c S qf t) (p : P) (hp : S p) (ev : Int) (mv : Option Move) (d : Nat) (b : Bounds)
    (he : EntryOK G c qf p ⟨G.hash p, ev, mv, d, b⟩) :
    TTSound G c S qf (t.store (G.hash p) ev mv d b) := by
  intro q hq e hr
  rcases retrieve_store t (G.hash p) (G.hash q) ev mv d b with h | ⟨hk, h⟩
  · rw [h] at hr; exact ht q hq e hr
  · rw [h] at hr
    have : q = p := hinj q p hq hp hk
    subst this
    cases hr
    exact he

/-! #### depth-ranked families (Lemmas/Ranked.lean) versus closed sets -/

/-- `HashInj` (this file) and `HashInjOn` (Lemmas/Ranked.lean) are the same statement. -/
theorem hashInj_iff_hashInjOn (U : P → Prop) : HashInj G U ↔ HashInjOn G U := Iff.rfl

theorem HashInjOn.hashInj {U : P → Prop} (h : HashInjOn G U) : HashInj G U := h
theorem HashInj.hashInjOn {U : P → Prop} (h : HashInj G U) : HashInjOn G U := h

/-- a closed set is a (constant) ranked family. -/
theorem Ranked.ofClosed {G : Game P} {S : P → Prop} (h : Closed G S) : Ranked G (fun _ => S) :=
  ⟨fun _ p m hp hm => h p m hp hm, fun _ _ hp => hp⟩

/-- the positions of a constant family. -/
theorem Ranked.U_const (S : P → Prop) : Ranked.U (fun _ : Nat => S) = S := by
  funext p
  exact propext ⟨fun ⟨_, h⟩ => h, fun h => ⟨0, h⟩⟩

theorem Ranked.mem_U {S : Nat → P → Prop} {d : Nat} {p : P} (h : S d p) : Ranked.U S p := ⟨d, h⟩

/-- a table that is sound on a set is sound on every subset. -/
theorem TTSound.mono {c : Int → Int} {S S' : P → Prop} {qf : Nat} {t : TT} (h : TTSound G c S' qf t)
    (hs : ∀ p, S p → S' p) : TTSound G c S qf t := fun p hp e he => h p (hs p hp) e he

theorem HashInj.mono {S S' : P → Prop} (h : HashInj G S') (hs : ∀ p, S p → S' p) : HashInj G S :=
  fun p q hp hq e => h p q (hs p hp) (hs q hq) e

end tt

/-! ### move ordering -/
section order
variable {P : Type} (G : Game P)

theorem orderMoves_perm (s : SearchState) (p : P) (ms : List Move) (tt : Option Move) (ply : Nat) :
    (orderMoves G s p ms tt ply).Perm ms := List.mergeSort_perm _ _

theorem orderCaptures_perm (p : P) (ms : List Move) : (orderCaptures G p ms).Perm ms :=
  List.mergeSort_perm _ _

end order

end Flounder.Search
