/-
  Helpers for the UCI front end (C16): `runLines` = the loop of `uciLoop` that also returns the engine
  state it stopped in, and its relation to `uciLoop`.
-/
import Flounder.Model.Engine

namespace Flounder.Lemmas.Uci
open Flounder Flounder.Engine

/-- first token of a line (`parts[0]` of the trimmed, split command). -/
def firstTok (line : List Char) : Option Tok := (splitWs line).head?

/-- handle the lines one after the other while the outcome is `running`; returns everything printed, the
    engine state reached and the outcome of the last line handled (`running` when all lines were handled). -/
def runLines (ctx : EngineCtx) : List (List Char) → Engine → List (List Char) × Engine × Outcome
  | [], e => ([], e, .running)
  | line :: rest, e =>
    match handleCommand ctx e (splitWs line) with
    | (out, e', .running) =>
      let r := runLines ctx rest e'
      (out ++ r.1, r.2.1, r.2.2)
    | (out, e', oc) => (out, e', oc)

theorem runLines_nil (ctx : EngineCtx) (e : Engine) : runLines ctx [] e = ([], e, .running) := rfl

theorem runLines_cons_running (ctx : EngineCtx) (e e' : Engine) (line : List Char) (rest : List (List Char))
    (out : List (List Char)) (h : handleCommand ctx e (splitWs line) = (out, e', .running)) :
    runLines ctx (line :: rest) e =
      (out ++ (runLines ctx rest e').1, (runLines ctx rest e').2.1, (runLines ctx rest e').2.2) := by
  simp only [runLines, h]

theorem runLines_cons_stop (ctx : EngineCtx) (e e' : Engine) (line : List Char) (rest : List (List Char))
    (out : List (List Char)) (oc : Outcome) (h : handleCommand ctx e (splitWs line) = (out, e', oc))
    (hoc : oc ≠ .running) :
    runLines ctx (line :: rest) e = (out, e', oc) := by
  cases oc with
  | running => exact absurd rfl hoc
  | exited n => simp only [runLines, h]
  | panicked => simp only [runLines, h]
  | outOfFuel => simp only [runLines, h]

theorem uciLoop_cons_running (ctx : EngineCtx) (e e' : Engine) (line : List Char) (rest : List (List Char))
    (out : List (List Char)) (h : handleCommand ctx e (splitWs line) = (out, e', .running)) :
    uciLoop ctx (line :: rest) e = (out ++ (uciLoop ctx rest e').1, (uciLoop ctx rest e').2) := by
  simp only [uciLoop, h]

theorem uciLoop_cons_stop (ctx : EngineCtx) (e e' : Engine) (line : List Char) (rest : List (List Char))
    (out : List (List Char)) (oc : Outcome) (h : handleCommand ctx e (splitWs line) = (out, e', oc))
    (hoc : oc ≠ .running) :
    uciLoop ctx (line :: rest) e = (out, oc) := by
  cases oc with
  | running => exact absurd rfl hoc
  | exited n => simp only [uciLoop, h]
  | panicked => simp only [uciLoop, h]
  | outOfFuel => simp only [uciLoop, h]

/-- `uciLoop` = `runLines` followed by "end of input: exit status 0". -/
theorem uciLoop_eq_runLines (ctx : EngineCtx) (lines : List (List Char)) (e : Engine) :
    uciLoop ctx lines e =
      ((runLines ctx lines e).1,
        if (runLines ctx lines e).2.2 = .running then .exited 0 else (runLines ctx lines e).2.2) := by
  induction lines generalizing e with
  | nil => rfl
  | cons line rest ih =>
    rcases hh : handleCommand ctx e (splitWs line) with ⟨out, e', oc⟩
    by_cases hoc : oc = .running
    · subst hoc
      rw [uciLoop_cons_running ctx e e' line rest out hh, runLines_cons_running ctx e e' line rest out hh, ih e']
    · rw [uciLoop_cons_stop ctx e e' line rest out oc hh hoc, runLines_cons_stop ctx e e' line rest out oc hh hoc]
      simp [hoc]

/-- running two scripts one after the other. -/
theorem runLines_append (ctx : EngineCtx) (l₁ l₂ : List (List Char)) (e : Engine) :
    runLines ctx (l₁ ++ l₂) e =
      if (runLines ctx l₁ e).2.2 = .running then
        ((runLines ctx l₁ e).1 ++ (runLines ctx l₂ (runLines ctx l₁ e).2.1).1,
          (runLines ctx l₂ (runLines ctx l₁ e).2.1).2.1, (runLines ctx l₂ (runLines ctx l₁ e).2.1).2.2)
      else runLines ctx l₁ e := by
  induction l₁ generalizing e with
  | nil => simp [runLines_nil]
  | cons line rest ih =>
    rcases hh : handleCommand ctx e (splitWs line) with ⟨out, e', oc⟩
    by_cases hoc : oc = .running
    · subst hoc
      rw [List.cons_append, runLines_cons_running ctx e e' line _ out hh,
        runLines_cons_running ctx e e' line rest out hh, ih e']
      by_cases h2 : (runLines ctx rest e').2.2 = .running
      · simp [h2, List.append_assoc]
      · simp [h2]
    · rw [List.cons_append, runLines_cons_stop ctx e e' line _ out oc hh hoc,
        runLines_cons_stop ctx e e' line rest out oc hh hoc]
      simp [hoc]

end Flounder.Lemmas.Uci
