/-
  C01, legality filter (layer F3, mailbox part): the classical checkers / pinners argument on a mailbox
  board.  A man of the mover's colour goes from `s` to `d` (empty or enemy); the king `k` stays.  The enemy
  men that attack `k` once `s` is lifted off are the SOURCES of danger: the checkers (attack `k` already) and
  the pinners of `s` (enemy sliders with exactly the man on `s` between them and `k`).  A source is
  neutralised by the move iff it is captured or (slider) its segment to `k` is entered.  Two distinct
  sources can never be neutralised by one move.  Nothing here mentions bitboards.
-/
import Flounder.Lemmas.FilterGeo

namespace Flounder.Spec.NonKing
open Flounder

def isSlider : Piece → Bool
  | .bishop | .rook | .queen => true
  | _ => false

def sliderGeom : Piece → Nat → Nat → Bool
  | .bishop, a, k => diagonal a k
  | .rook, a, k => orthogonal a k
  | .queen, a, k => diagonal a k || orthogonal a k
  | _, _, _ => false

theorem pathClear_iff {bd : Nat → Option Man} {s t : Nat} :
    pathClear bd s t = true ↔ ∀ u, u ∈ strictlyBetween s t → bd u = none := by
  unfold pathClear
  rw [List.all_eq_true]
  simp only [Option.isNone_iff_eq_none]

theorem manAttacks_slider {p : Piece} (h : isSlider p = true) (bd : Nat → Option Man) (c : Color) (a k : Nat) :
    manAttacks bd c p a k = (sliderGeom p a k && pathClear bd a k) := by
  cases p <;> first | rfl | exact absurd h (by decide)

theorem manAttacks_leaper {p : Piece} (h : isSlider p = false) (bd bd' : Nat → Option Man) (c : Color)
    (a k : Nat) : manAttacks bd c p a k = manAttacks bd' c p a k := by
  cases p <;> first | rfl | exact absurd h (by decide)

theorem sliderGeom_aligned {p : Piece} {a k : Nat} (h : sliderGeom p a k = true) : aligned a k = true := by
  unfold aligned
  cases p <;> simp only [sliderGeom, Bool.or_eq_true] at h ⊢
  · cases h
  · cases h
  · exact Or.inr h
  · exact Or.inl h
  · exact h.symm
  · cases h

/-- a leaper that attacks `k` has nothing between itself and `k` whenever it happens to be aligned. -/
theorem leaper_seg {p : Piece} (h : isSlider p = false) {bd : Nat → Option Man} {c : Color} {a k : Nat}
    (ha : a < 64) (hk : k < 64) (hm : manAttacks bd c p a k = true) (hal : aligned a k = true) :
    strictlyBetween a k = [] := by
  cases p
  · exact kingStep_seg_nil ha hk (pawn_kingStep bd c ha hk hm)
  · have : knightStep a k = true := hm
    rw [knight_not_aligned ha hk this] at hal
    cases hal
  · exact absurd h (by decide)
  · exact absurd h (by decide)
  · exact absurd h (by decide)
  · exact kingStep_seg_nil ha hk hm

/-- the board with the man on `s` lifted off. -/
def liftSq (bd : Nat → Option Man) (s : Nat) : Nat → Option Man := fun x => if x = s then none else bd x

/-- the situation of a non-king move `s → d` of colour `c` with king on `k`; `bd'` is the board afterwards. -/
structure MoveCtx (bd bd' : Nat → Option Man) (c : Color) (k s d : Nat) : Prop where
  hk : k < 64
  hs : s < 64
  hd : d < 64
  king : bd k = some (c, .king)
  src : ∃ pc, bd s = some (c, pc)
  sk : s ≠ k
  dst : bd d = none ∨ ∃ q, bd d = some (c.other, q)
  ad : ∃ q, bd' d = some (c, q)
  as : bd' s = none
  ao : ∀ x, x < 64 → x ≠ s → x ≠ d → bd' x = bd x

namespace MoveCtx
variable {bd bd' : Nat → Option Man} {c : Color} {k s d : Nat}

theorem dk (h : MoveCtx bd bd' c k s d) : d ≠ k := by
  intro e
  have hk := h.king
  rcases h.dst with h1 | ⟨q, h1⟩
  · rw [e, hk] at h1; cases h1
  · rw [e, hk] at h1
    exact Color.other_ne c (congrArg Prod.fst (Option.some.inj h1)).symm

theorem ds (h : MoveCtx bd bd' c k s d) : d ≠ s := by
  intro e
  obtain ⟨pc, hp⟩ := h.src
  rcases h.dst with h1 | ⟨q, h1⟩
  · rw [e, hp] at h1; cases h1
  · rw [e, hp] at h1
    exact Color.other_ne c (congrArg Prod.fst (Option.some.inj h1)).symm

/-- an enemy man is neither on `s` (before) nor on `d` (after). -/
theorem enemy_ne_s (h : MoveCtx bd bd' c k s d) {a : Nat} {p : Piece} (ha : bd a = some (c.other, p)) : a ≠ s := by
  intro e
  obtain ⟨pc, hp⟩ := h.src
  rw [e, hp] at ha
  exact Color.other_ne c (congrArg Prod.fst (Option.some.inj ha)).symm

/-- a SOURCE: an enemy man on `a` that attacks `k` once `s` is lifted. -/
def Src (_ : MoveCtx bd bd' c k s d) (a : Nat) (p : Piece) : Prop :=
  bd a = some (c.other, p) ∧ manAttacks (liftSq bd s) c.other p a k = true

/-- a CHECKER: an enemy man on `a` that attacks `k` now. -/
def Chk (_ : MoveCtx bd bd' c k s d) (a : Nat) (p : Piece) : Prop :=
  bd a = some (c.other, p) ∧ manAttacks bd c.other p a k = true

/-- a PINNER of `s`: an enemy slider on `a`, aligned with `k` in its own way, with the man on `s` the only man
    strictly between. -/
def Pnr (_ : MoveCtx bd bd' c k s d) (a : Nat) (p : Piece) : Prop :=
  isSlider p = true ∧ bd a = some (c.other, p) ∧ sliderGeom p a k = true ∧ s ∈ strictlyBetween a k ∧
    ∀ u, u ∈ strictlyBetween a k → u ≠ s → bd u = none

/-- **the king is attacked after the move iff some source is neither captured nor blocked.** -/
theorem attacked_after_iff (h : MoveCtx bd bd' c k s d) :
    attacked bd' c.other k = true ↔
      ∃ a, a < 64 ∧ ∃ p, h.Src a p ∧ a ≠ d ∧ (isSlider p = true → d ∉ strictlyBetween a k) := by
  obtain ⟨qd, hqd⟩ := h.ad
  rw [attacked_eq_true]
  constructor
  · rintro ⟨a, ha, p, hm, hatt⟩
    have had : a ≠ d := by
      intro e
      rw [e, hqd] at hm
      exact Color.other_ne c (congrArg Prod.fst (Option.some.inj hm)).symm
    have has : a ≠ s := by
      intro e
      rw [e, h.as] at hm; cases hm
    have hm0 : bd a = some (c.other, p) := by rw [← h.ao a ha has had]; exact hm
    refine ⟨a, ha, p, ⟨hm0, ?_⟩, had, ?_⟩
    · cases hsl : isSlider p
      · rw [manAttacks_leaper hsl _ bd']; exact hatt
      · rw [manAttacks_slider hsl] at hatt ⊢
        rw [Bool.and_eq_true] at hatt ⊢
        refine ⟨hatt.1, ?_⟩
        rw [pathClear_iff] at hatt ⊢
        intro u hu
        unfold liftSq
        by_cases hus : u = s
        · rw [if_pos hus]
        · rw [if_neg hus]
          have hud : u ≠ d := by
            intro e
            have := hatt.2 u hu
            rw [e, hqd] at this; cases this
          rw [← h.ao u (strictlyBetween_lt ha h.hk hu) hus hud]
          exact hatt.2 u hu
    · intro hsl hd
      rw [manAttacks_slider hsl, Bool.and_eq_true, pathClear_iff] at hatt
      have := hatt.2 d hd
      rw [hqd] at this; cases this
  · rintro ⟨a, ha, p, ⟨hm0, hatt⟩, had, hblk⟩
    have has : a ≠ s := h.enemy_ne_s hm0
    refine ⟨a, ha, p, by rw [h.ao a ha has had]; exact hm0, ?_⟩
    cases hsl : isSlider p
    · rw [manAttacks_leaper hsl _ (liftSq bd s)]; exact hatt
    · rw [manAttacks_slider hsl] at hatt ⊢
      rw [Bool.and_eq_true] at hatt ⊢
      refine ⟨hatt.1, ?_⟩
      rw [pathClear_iff] at hatt ⊢
      intro u hu
      by_cases hus : u = s
      · rw [hus]; exact h.as
      · have hud : u ≠ d := fun e => hblk hsl (e ▸ hu)
        rw [h.ao u (strictlyBetween_lt ha h.hk hu) hus hud]
        have := hatt.2 u hu
        unfold liftSq at this
        rw [if_neg hus] at this
        exact this

/-- a source is a checker or a pinner of `s`. -/
theorem src_cases (h : MoveCtx bd bd' c k s d) {a : Nat} {p : Piece} (hsrc : h.Src a p) : h.Chk a p ∨ h.Pnr a p := by
  obtain ⟨hm, hatt⟩ := hsrc
  cases hsl : isSlider p
  · left
    exact ⟨hm, by rw [manAttacks_leaper hsl _ (liftSq bd s)]; exact hatt⟩
  · rw [manAttacks_slider hsl, Bool.and_eq_true, pathClear_iff] at hatt
    have hfree : ∀ u, u ∈ strictlyBetween a k → u ≠ s → bd u = none := by
      intro u hu hus
      have := hatt.2 u hu
      unfold liftSq at this
      rw [if_neg hus] at this
      exact this
    by_cases hin : s ∈ strictlyBetween a k
    · right
      exact ⟨hsl, hm, hatt.1, hin, hfree⟩
    · left
      refine ⟨hm, ?_⟩
      rw [manAttacks_slider hsl, Bool.and_eq_true, pathClear_iff]
      exact ⟨hatt.1, fun u hu => hfree u hu (fun e => hin (e ▸ hu))⟩

theorem src_of_chk (h : MoveCtx bd bd' c k s d) {a : Nat} {p : Piece} (hc : h.Chk a p) : h.Src a p := by
  obtain ⟨hm, hatt⟩ := hc
  refine ⟨hm, ?_⟩
  cases hsl : isSlider p
  · rw [manAttacks_leaper hsl _ bd]; exact hatt
  · rw [manAttacks_slider hsl, Bool.and_eq_true, pathClear_iff] at hatt ⊢
    refine ⟨hatt.1, fun u hu => ?_⟩
    unfold liftSq
    split
    · rfl
    · exact hatt.2 u hu

theorem src_of_pnr (h : MoveCtx bd bd' c k s d) {a : Nat} {p : Piece} (hp : h.Pnr a p) : h.Src a p := by
  obtain ⟨hsl, hm, hg, _, hfree⟩ := hp
  refine ⟨hm, ?_⟩
  rw [manAttacks_slider hsl, Bool.and_eq_true, pathClear_iff]
  refine ⟨hg, fun u hu => ?_⟩
  unfold liftSq
  split
  · rfl
  · rename_i hus
    exact hfree u hu hus

/-- a checker is not a pinner (the pinned man would block the check). -/
theorem chk_pnr_ne (h : MoveCtx bd bd' c k s d) {a a' : Nat} {p p' : Piece} (hc : h.Chk a p) (hp : h.Pnr a' p') :
    a ≠ a' := by
  intro e
  subst e
  obtain ⟨hm, hatt⟩ := hc
  obtain ⟨hsl, hm', _, hin, _⟩ := hp
  rw [hm] at hm'
  have : p = p' := congrArg Prod.snd (Option.some.inj hm')
  subst this
  rw [manAttacks_slider hsl, Bool.and_eq_true, pathClear_iff] at hatt
  obtain ⟨pc, hpc⟩ := h.src
  have := hatt.2 s hin
  rw [hpc] at this; cases this

/-- **two distinct sources cannot both be neutralised.** -/
theorem two_sources (h : MoveCtx bd bd' c k s d) {a1 a2 : Nat} {p1 p2 : Piece} (h1 : a1 < 64) (h2 : a2 < 64)
    (hne : a1 ≠ a2) (s1 : h.Src a1 p1) (s2 : h.Src a2 p2) : attacked bd' c.other k = true := by
  rw [h.attacked_after_iff]
  have occ : ∀ {a p}, h.Src a p → liftSq bd s a ≠ none := by
    intro a p hs
    unfold liftSq
    rw [if_neg (h.enemy_ne_s hs.1), hs.1]
    simp
  have clear : ∀ {a p}, h.Src a p → isSlider p = true → ∀ u, u ∈ strictlyBetween a k → liftSq bd s u = none := by
    intro a p hs hsl
    have := hs.2
    rw [manAttacks_slider hsl, Bool.and_eq_true, pathClear_iff] at this
    exact this.2
  have geo : ∀ {a p}, h.Src a p → isSlider p = true → aligned a k = true := by
    intro a p hs hsl
    have := hs.2
    rw [manAttacks_slider hsl, Bool.and_eq_true] at this
    exact sliderGeom_aligned this.1
  by_cases e1 : a1 = d
  · refine ⟨a2, h2, p2, s2, fun e => hne (e1.trans e.symm), ?_⟩
    intro hsl hd
    exact occ s1 (e1 ▸ clear s2 hsl d hd)
  · by_cases hb : isSlider p1 = true ∧ d ∈ strictlyBetween a1 k
    · obtain ⟨hsl1, hd1⟩ := hb
      have e2 : a2 ≠ d := by
        intro e
        exact occ s2 (e ▸ clear s1 hsl1 d hd1)
      refine ⟨a2, h2, p2, s2, e2, ?_⟩
      intro hsl2 hd2
      rcases seg_fork h1 h2 h.hk (geo s1 hsl1) (geo s2 hsl2) hd1 hd2 with e | e | e
      · exact hne e
      · exact occ s1 (clear s2 hsl2 a1 e)
      · exact occ s2 (clear s1 hsl1 a2 e)
    · refine ⟨a1, h1, p1, s1, e1, ?_⟩
      intro hsl hd
      exact hb ⟨hsl, hd⟩

/-- with a single source, the king is attacked afterwards iff that source is neither captured nor blocked. -/
theorem one_source (h : MoveCtx bd bd' c k s d) {a : Nat} {p : Piece} (ha : a < 64) (s1 : h.Src a p)
    (huniq : ∀ a' p', a' < 64 → h.Src a' p' → a' = a) :
    attacked bd' c.other k = false ↔ (a = d ∨ (isSlider p = true ∧ d ∈ strictlyBetween a k)) := by
  rw [← Bool.not_eq_true, h.attacked_after_iff]
  constructor
  · intro hn
    by_cases e : a = d
    · exact Or.inl e
    · right
      apply Classical.byContradiction
      intro hc
      apply hn
      refine ⟨a, ha, p, s1, e, fun hsl hd => hc ⟨hsl, hd⟩⟩
  · rintro hor ⟨a', ha', p', s', hne, hblk⟩
    have e := huniq a' p' ha' s'
    subst e
    have hp : p' = p := by
      have := s'.1
      rw [s1.1] at this
      exact (congrArg Prod.snd (Option.some.inj this)).symm
    subst hp
    rcases hor with e | ⟨hsl, hd⟩
    · exact hne e
    · exact hblk hsl hd

/-! ### the five cases of the engine's filter -/

/-- no checker, no pinner: safe. -/
theorem safe_of_none (h : MoveCtx bd bd' c k s d) (hc : ∀ a p, a < 64 → ¬ h.Chk a p) (hp : ∀ a p, a < 64 → ¬ h.Pnr a p) :
    attacked bd' c.other k = false := by
  rw [← Bool.not_eq_true, h.attacked_after_iff]
  rintro ⟨a, ha, p, s1, _, _⟩
  rcases h.src_cases s1 with h1 | h1
  · exact hc a p ha h1
  · exact hp a p ha h1

/-- two distinct checkers: never safe. -/
theorem attacked_of_two_chk (h : MoveCtx bd bd' c k s d) {a1 a2 : Nat} {p1 p2 : Piece} (h1 : a1 < 64) (h2 : a2 < 64)
    (hne : a1 ≠ a2) (c1 : h.Chk a1 p1) (c2 : h.Chk a2 p2) : attacked bd' c.other k = true :=
  h.two_sources h1 h2 hne (h.src_of_chk c1) (h.src_of_chk c2)

/-- a checker and a pinner: never safe. -/
theorem attacked_of_chk_pnr (h : MoveCtx bd bd' c k s d) {a1 a2 : Nat} {p1 p2 : Piece} (h1 : a1 < 64) (h2 : a2 < 64)
    (c1 : h.Chk a1 p1) (c2 : h.Pnr a2 p2) : attacked bd' c.other k = true :=
  h.two_sources h1 h2 (h.chk_pnr_ne c1 c2) (h.src_of_chk c1) (h.src_of_pnr c2)

/-- two pinners of the same man coincide. -/
theorem pnr_unique (h : MoveCtx bd bd' c k s d) {a1 a2 : Nat} {p1 p2 : Piece} (h1 : a1 < 64) (h2 : a2 < 64)
    (c1 : h.Pnr a1 p1) (c2 : h.Pnr a2 p2) : a1 = a2 := by
  obtain ⟨_, m1, g1, i1, f1⟩ := c1
  obtain ⟨_, m2, g2, i2, f2⟩ := c2
  rcases seg_fork h1 h2 h.hk (sliderGeom_aligned g1) (sliderGeom_aligned g2) i1 i2 with e | e | e
  · exact e
  · have := f2 a1 e (h.enemy_ne_s m1)
    rw [m1] at this; cases this
  · have := f1 a2 e (h.enemy_ne_s m2)
    rw [m2] at this; cases this

/-- exactly one checker `a`, no pinner: safe iff the checker is captured or its segment to `k` entered. -/
theorem safe_one_chk (h : MoveCtx bd bd' c k s d) {a : Nat} {p : Piece} (ha : a < 64) (c1 : h.Chk a p)
    (huniq : ∀ a' p', a' < 64 → h.Chk a' p' → a' = a) (hp : ∀ a' p', a' < 64 → ¬ h.Pnr a' p') :
    attacked bd' c.other k = false ↔ (d = a ∨ onSegment a k d = true) := by
  rw [h.one_source ha (h.src_of_chk c1) (fun a' p' ha' s' => by
    rcases h.src_cases s' with h1 | h1
    · exact huniq a' p' ha' h1
    · exact absurd h1 (hp a' p' ha'))]
  unfold onSegment
  constructor
  · rintro (e | ⟨hsl, hd⟩)
    · exact Or.inl e.symm
    · right
      have := c1.2
      rw [manAttacks_slider hsl, Bool.and_eq_true] at this
      rw [sliderGeom_aligned this.1, List.contains_iff_mem.2 hd]
      simp
  · rintro (e | hseg)
    · exact Or.inl e.symm
    · simp only [Bool.and_eq_true, Bool.or_eq_true, beq_iff_eq, List.contains_iff_mem] at hseg
      obtain ⟨hal, (e | e) | e⟩ := hseg
      · exact Or.inl e.symm
      · exact absurd e h.dk
      · right
        cases hsl : isSlider p
        · rw [leaper_seg hsl ha h.hk c1.2 hal] at e
          cases e
        · exact ⟨rfl, e⟩

/-- no checker, a pinner `a` of `s`: safe iff the move stays on the line through `k`.
    `hpath`: a move along a line has a free path (true of every pseudo-legal non-king move). -/
theorem safe_pinned (h : MoveCtx bd bd' c k s d) {a : Nat} {p : Piece} (ha : a < 64) (c1 : h.Pnr a p)
    (hc : ∀ a' p', a' < 64 → ¬ h.Chk a' p') (hpath : aligned s d = true → pathClear bd s d = true) :
    attacked bd' c.other k = false ↔ onLine d s k = true := by
  rw [h.one_source ha (h.src_of_pnr c1) (fun a' p' ha' s' => by
    rcases h.src_cases s' with h1 | h1
    · exact absurd h1 (hc a' p' ha')
    · exact h.pnr_unique ha' ha h1 c1)]
  obtain ⟨hsl, hm, hg, hin, hfree⟩ := c1
  have hal := sliderGeom_aligned hg
  constructor
  · rintro (e | ⟨_, hd⟩)
    · exact seg_col ha h.hk hal hin (Or.inl e.symm) h.ds
    · exact seg_col ha h.hk hal hin (Or.inr hd) h.ds
  · intro hl
    have hds : aligned d s = true := by
      unfold onLine at hl
      rw [Bool.and_eq_true] at hl
      exact hl.1
    have hclear := hpath (by rw [aligned_symm h.hs h.hd]; exact hds)
    rw [pathClear_iff] at hclear
    have hsk : aligned s k = true := (seg_facts ha h.hk hal hin).2.2.1
    rcases collinear_cases h.hk h.hs h.hd hsk hl with e | e | e | ⟨hdk, e⟩
    · exact absurd e h.dk
    · exact Or.inr ⟨hsl, (seg_nested ha h.hk hal hin e).1⟩
    · have := hclear k e
      rw [h.king] at this; cases this
    · rcases seg_fork h.hd ha h.hk hdk hal e hin with e' | e' | e'
      · exact Or.inl e'.symm
      · exact Or.inr ⟨hsl, e'⟩
      · have := (seg_nested h.hd h.hk hdk e' hin).2
        have := hclear a this
        rw [hm] at this; cases this

end MoveCtx
end Flounder.Spec.NonKing
