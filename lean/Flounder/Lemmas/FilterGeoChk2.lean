/- kernel evaluation of the nested-segment checker (see FilterGeoDefs.lean). -/
import Flounder.Lemmas.FilterGeoDefs
namespace Flounder.Spec.NonKing
set_option maxRecDepth 100000 in
theorem chkPair2_ok : chkPair2 = true := by decide +kernel
end Flounder.Spec.NonKing
