/-
  Helpers for the `position` command (C09, C04): `replay` = the boards visited while the move tokens are
  resolved and played; `positionBase` = the board the command starts from; a complete case description of
  `handlePosition` in those terms.
-/
import Flounder.Model.Engine

namespace Flounder.Lemmas.UciPosition
open Flounder Flounder.Engine

/-- the move a token resolves to on board `b`: the first generated move whose text equals the token. -/
def resolve (mg : MoveGenerator) (b : Board) (t : Tok) : Option Move :=
  (mg.generateMoves b).find? (fun m => m.toAlgebraic = t)

/-- replay the move tokens from `b`: the boards left behind (oldest first) and the board reached.
    `none` = some token matches no generated move (or `make_move` panics). Independent of any engine state
    and of the hash keys. -/
def replay (mg : MoveGenerator) : List Tok → Board → Option (List Board × Board)
  | [], b => some ([], b)
  | t :: ts, b =>
    match resolve mg b t with
    | none => none
    | some m =>
      match b.makeMove m with
      | none => none
      | some b' =>
        match replay mg ts b' with
        | none => none
        | some (past, fin) => some (b :: past, fin)

/-- the moves the tokens resolve to, in order (`none` as for `replay`). -/
def resolvedMoves (mg : MoveGenerator) : List Tok → Board → Option (List Move)
  | [], _ => some []
  | t :: ts, b =>
    match resolve mg b t with
    | none => none
    | some m =>
      match b.makeMove m with
      | none => none
      | some b' => (resolvedMoves mg ts b').map (m :: ·)

/-- the hashes recorded by replaying `ts` from `b`, most recent FIRST (the order of the repetition stack). -/
def historyOf (mg : MoveGenerator) (k : ZKeys) (ts : List Tok) (b : Board) : Option (List UInt64) :=
  (replay mg ts b).map fun r => (r.1.map (hash k)).reverse

/-- `makeMoves` = `replay`, pushing the hashes of the boards left behind. -/
theorem makeMoves_eq_replay (ctx : EngineCtx) (k : ZKeys) (ts : List Tok) (b : Board) (s : SearchState) :
    makeMoves ctx k ts b s =
      (replay ctx.mg ts b).map fun r => (r.2, { s with rep := (r.1.map (hash k)).reverse ++ s.rep }) := by
  induction ts generalizing b s with
  | nil => simp [makeMoves, replay]
  | cons t ts ih =>
    simp only [makeMoves, replay, resolve]
    cases hf : (ctx.mg.generateMoves b).find? (fun m => m.toAlgebraic = t) with
    | none => simp
    | some m =>
      simp only
      cases hm : b.makeMove m with
      | none => simp
      | some b' =>
        simp only [ih]
        cases hr : replay ctx.mg ts b' with
        | none => simp
        | some r => simp [List.append_assoc]

/-- the board a `position` command starts from, with the lines printed while building it;
    `none` = the command is ignored, panics or runs out of model fuel before any move is looked at. -/
def positionBase (parts : List Tok) : Option (List (List Char) × Board) :=
  if parts.length < 2 then none
  else if parts.getD 1 [] = kwStartpos then some ([], Board.startpos)
  else if parts.getD 1 [] = kwFen then
    if parts.length < 8 then none
    else
      match fenToBoard ((parts.drop 2).take 6) with
      | .ok b => some ([], b)
      | .err => some ([lineFenErr, lineFenDefault], Board.startpos)
      | .panic => none
      | .undef => none
  else none

/-- what `handlePosition` does once the base board is known. -/
def positionResult (ctx : EngineCtx) (e : Engine) (parts : List Tok) (out : List (List Char)) (b : Board) :
    List (List Char) × Engine × Outcome :=
  match movesAfter parts with
  | none => (out, { e with board := b, search := { e.search with rep := [] } }, .running)
  | some ts =>
    match replay ctx.mg ts b with
    | some (past, fin) =>
      (out, { e with board := fin,
                     search := { e.search with rep := (past.map (hash (ctx.keys e.newGames))).reverse } }, .running)
    | none => (out, e, .panicked)

theorem handlePosition_of_base (ctx : EngineCtx) (e : Engine) (parts : List Tok) (out : List (List Char)) (b : Board)
    (h : positionBase parts = some (out, b)) :
    handlePosition ctx e parts = positionResult ctx e parts out b := by
  unfold positionBase at h
  unfold handlePosition positionResult
  by_cases h1 : parts.length < 2
  · simp [h1] at h
  · simp only [h1, if_false] at h ⊢
    by_cases h2 : parts.getD 1 [] = kwStartpos
    · simp only [h2, if_true, Option.some.injEq, Prod.mk.injEq] at h ⊢
      obtain ⟨rfl, rfl⟩ := h
      cases hm : movesAfter parts with
      | none => rfl
      | some ts =>
        simp only [makeMoves_eq_replay]
        cases hr : replay ctx.mg ts Board.startpos with
        | none => rfl
        | some r => simp
    · simp only [h2, if_false] at h ⊢
      by_cases h3 : parts.getD 1 [] = kwFen
      · simp only [h3, if_true] at h ⊢
        by_cases h4 : parts.length < 8
        · simp [h4] at h
        · simp only [h4, if_false] at h ⊢
          cases hf : fenToBoard ((parts.drop 2).take 6) with
          | ok b0 =>
            rw [hf] at h; simp only [Option.some.injEq, Prod.mk.injEq] at h
            obtain ⟨rfl, rfl⟩ := h
            cases hm : movesAfter parts with
            | none => rfl
            | some ts =>
              simp only [makeMoves_eq_replay]
              cases hr : replay ctx.mg ts b0 with
              | none => rfl
              | some r => simp
          | err =>
            rw [hf] at h; simp only [Option.some.injEq, Prod.mk.injEq] at h
            obtain ⟨rfl, rfl⟩ := h
            cases hm : movesAfter parts with
            | none => rfl
            | some ts =>
              simp only [makeMoves_eq_replay]
              cases hr : replay ctx.mg ts Board.startpos with
              | none => rfl
              | some r => simp
          | panic => rw [hf] at h; cases h
          | undef => rw [hf] at h; cases h
      · rw [if_neg h3] at h; cases h

/-- and when there is no base board the engine state is untouched. -/
theorem handlePosition_of_no_base (ctx : EngineCtx) (e : Engine) (parts : List Tok)
    (h : positionBase parts = none) : (handlePosition ctx e parts).2.1 = e := by
  unfold positionBase at h
  unfold handlePosition
  by_cases h1 : parts.length < 2
  · simp [h1]
  · simp only [h1, if_false] at h ⊢
    by_cases h2 : parts.getD 1 [] = kwStartpos
    · rw [if_pos h2] at h; cases h
    · simp only [h2, if_false] at h ⊢
      by_cases h3 : parts.getD 1 [] = kwFen
      · simp only [h3, if_true] at h ⊢
        by_cases h4 : parts.length < 8
        · simp only [h4, if_true]
        · simp only [h4, if_false] at h ⊢
          cases hf : fenToBoard ((parts.drop 2).take 6) with
          | ok b0 => rw [hf] at h; cases h
          | err => rw [hf] at h; cases h
          | panic => rfl
          | undef => rfl
      · rw [if_neg h3]

end Flounder.Lemmas.UciPosition
