/-
  C13 helpers, part 3: non-vacuity of `findBestMove_key_independent` and the reason for its hypothesis.

  A two-position game, searched to depth 1 after its root has already occurred once in the game history
  (`rep = [hash 0]`, what `position … moves …` leaves behind):
    * with two DIFFERENT collision-free hash functions the theorem applies, and the common answer is
      computed (score 50);
    * with a colliding hash function (every other hypothesis of the theorem still holds) the child is
      taken for a repetition of the root and the answer is score 0: `key_dependence_without_injectivity`.
  The table is a `Std.HashMap`, which the kernel does not evaluate, so the runs are replayed with the
  equation lemmas instead of `decide`.
-/
import Flounder.Lemmas.KeySimSearch
import Flounder.Lemmas.SearchCex

namespace Flounder.KeySim
open Flounder Gen Flounder.Search

section generic
variable {P : Type} (G : Game P)

/-- the root is never tested for repetition (`ply > 0 && …`). -/
theorem negamax_succ_root_miss (qfuel d : Nat) (p : P) (α β : Int) (s : SearchState)
    (h : s.tt.retrieve (G.hash p) = none) :
    negamax G qfuel (d + 1) p 0 α β s = innerResult G (negamax G qfuel d) d p 0 α β none s.incrementNodes := by
  rw [negamax_succ, probeTT_miss G s.incrementNodes p (d + 1) α β h]
  simp

/-- a depth-1 search without deadline answers with the result of its single root search. -/
theorem findBestMove_one_fst (qfuel : Nat) (p : P) (s : SearchState) :
    (findBestMove G qfuel p 1 .none s).1 =
      match (negamax G qfuel 1 p 0 NEGATIVE_INFINITY INFINITY (pushed G p (polled (started .none s)))).1 with
      | none => none
      | some r =>
        match r.bestMove with
        | some mv => some (r.score, some mv)
        | none => some (r.score, (G.moves p).head?) := by
  rw [findBestMove_eq, iterate_succ]
  have h11 : ¬ (1 > 1) := by omega
  have hsf : stopFlag (started .none s) = false := rfl
  rw [if_neg h11, hsf]
  simp only [Bool.false_eq_true, ↓reduceIte]
  have hcalm := (searchPosition_frame G qfuel p 1 (polled (started .none s))).calm rfl rfl
  have hfst : (searchPosition G qfuel p 1 (polled (started .none s))).1 =
      (negamax G qfuel 1 p 0 NEGATIVE_INFINITY INFINITY (pushed G p (polled (started .none s)))).1 := by
    rw [searchPosition_eq]
  rw [← hfst]
  rcases e : searchPosition G qfuel p 1 (polled (started .none s)) with ⟨ro, s2⟩
  rw [e] at hcalm
  cases ro with
  | none => rfl
  | some r =>
    have hs2 : stopFlag s2 = false := by
      have hl2 : s2.limit = .none := hcalm.1
      simp [stopFlag, hl2]
    simp only [hs2, Bool.not_false, ↓reduceIte, iterate_zero]
    cases r.bestMove <;> rfl

end generic

/-! ### the toy game -/

def toyMove : Move := ⟨0, 1, .pawn, .quiet⟩

/-- position 0 has one move, to position 1; position 1 is quiet, has no moves and evaluates to -50 for the
    side to move.  The hash function is a parameter. -/
def toy (h : Nat → UInt64) : Game Nat where
  moves := fun p => if p = 0 then [toyMove] else []
  qmoves := fun _ => []
  play := fun p _ => p + 1
  inCheck := fun _ => false
  eval := fun p => if p = 1 then -50 else 0
  hash := h
  pieceAt := fun _ _ => none

theorem toy_sameRules (h h' : Nat → UInt64) : SameRules (toy h) (toy h') := ⟨rfl, rfl, rfl, rfl, rfl, rfl⟩

/-- the family of a depth-1 search of position 0. -/
def toyS (h : Nat → UInt64) : Nat → Nat → Prop := horizon (toy h) 0 1

theorem toy_within (h : Nat → UInt64) : ∀ n q, Within (toy h) 0 n q → q ≤ 1 := by
  intro n q hw
  induction hw with
  | root n => omega
  | @step n q m hq hm ih =>
    have : q = 0 := by
      by_cases h0 : q = 0
      · exact h0
      · simp [toy, h0] at hm
    subst this
    show 0 + 1 ≤ 1
    omega

theorem toy_U_le (h : Nat → UInt64) {q : Nat} (hq : Ranked.U (toyS h) q) : q ≤ 1 := by
  obtain ⟨d, _, hw⟩ := hq
  exact toy_within h _ q hw

/-- a hash that separates positions 0 and 1 is collision-free on the horizon. -/
theorem toy_inj (h h' : Nat → UInt64) (h01 : h 0 ≠ h 1) : HashInjOn (toy h) (Ranked.U (toyS h')) := by
  intro p q hp hq he
  have h1 := toy_U_le h' hp
  have h2 := toy_U_le h' hq
  have hp' : p = 0 ∨ p = 1 := by omega
  have hq' : q = 0 ∨ q = 1 := by omega
  rcases hp' with rfl | rfl <;> rcases hq' with rfl | rfl
  · rfl
  · exact absurd he h01
  · exact absurd he.symm h01
  · rfl

/-- the state after `position … moves …` in which position 0 has occurred once. -/
def toyState (h : Nat → UInt64) : SearchState := { rep := [h 0] }

theorem toy_sim (h h' : Nat → UInt64) :
    Sim (toy h) (toy h') (Ranked.U (toyS h)) (toyState h) (toyState h') := by
  have := (sim_fresh (G₁ := toy h) (G₂ := toy h') (U := Ranked.U (toyS h))).push (p := 0)
    ⟨1, horizon_root (toy h) 0 1⟩
  exact this

/-! ### replaying the run -/

theorem toy_order (h : Nat → UInt64) (s : SearchState) (tt : Option Move) (ply : Nat) :
    orderMoves (toy h) s 0 [toyMove] tt ply = [toyMove] := by
  simp [orderMoves]

theorem toy_leaf (h : Nat → UInt64) (s : SearchState) :
    leafResult (toy h) 1 1 (-INFINITY) (- NEGATIVE_INFINITY) s = (some ⟨-50, none⟩, s.incrementNodes) := by
  unfold leafResult
  rw [quiesce_succ]
  have h1 : qList (toy h) 1 = [] := rfl
  have h2 : orderCaptures (toy h) 1 [] = [] := by simp [orderCaptures]
  rw [h1, h2]
  have h3 : (toy h).eval 1 = -50 := rfl
  rw [h3, quiesceLoop_nil]
  have h4 : max (-INFINITY) (-50 : Int) = -50 := by decide
  have h5 : ¬ ((-50 : Int) ≥ - NEGATIVE_INFINITY) := by decide
  simp [toy, h4, h5]

/-- the root search on a state with an empty table, the root twice on the stack and no deadline, when the
    child is NOT taken for a repetition. -/
theorem toy_run_honest (h : Nat → UInt64) (h01 : h 0 ≠ h 1) (s : SearchState)
    (ht : ∀ k, s.tt.retrieve k = none) (hr : s.rep = [h 0, h 0]) (hl : s.limit = .none) :
    (negamax (toy h) 1 1 0 0 NEGATIVE_INFINITY INFINITY s).1 = some ⟨50, some toyMove⟩ := by
  rw [negamax_succ_root_miss (toy h) 1 0 0 _ _ s (ht _)]
  rw [innerResult_cons (toy h) _ 0 0 0 _ _ none _ toyMove [] rfl]
  have h1 : (toy h).moves 0 = [toyMove] := rfl
  rw [h1, toy_order, negamaxLoop_cons]
  have h3 : stopFlag s.incrementNodes = false := by simp [stopFlag, SearchState.incrementNodes, hl]
  rw [h3]
  simp only [Bool.false_eq_true, ↓reduceIte]
  have h4 : (toy h).play 0 toyMove = 1 := rfl
  have hrep : (polled s.incrementNodes).isRepetition ((toy h).hash 1) = false := by
    have : (h 0 == h 1) = false := beq_eq_false_iff_ne.2 h01
    simp [SearchState.isRepetition, polled, SearchState.incrementNodes, hr, toy, List.filter, this]
  rw [h4, Nat.zero_add, negamax_zero_miss (toy h) 1 1 1 _ _ (polled s.incrementNodes) hrep (ht _)]
  have h5 : (List.headD [toyMove] toyMove) = toyMove := rfl
  rw [h5, toy_leaf]
  simp only
  have h7 : ¬ (max NEGATIVE_INFINITY (- (-50 : Int)) ≥ INFINITY) := by decide
  rw [if_neg h7, negamaxLoop_nil]
  simp only
  rw [finishNode_fst]
  rfl

/-- the same search when the child's hash equals the root's: the child is scored as a draw by repetition. -/
theorem toy_run_colliding (h : Nat → UInt64) (h01 : h 0 = h 1) (s : SearchState)
    (ht : ∀ k, s.tt.retrieve k = none) (hr : s.rep = [h 0, h 0]) (hl : s.limit = .none) :
    (negamax (toy h) 1 1 0 0 NEGATIVE_INFINITY INFINITY s).1 = some ⟨0, some toyMove⟩ := by
  rw [negamax_succ_root_miss (toy h) 1 0 0 _ _ s (ht _)]
  rw [innerResult_cons (toy h) _ 0 0 0 _ _ none _ toyMove [] rfl]
  have h1 : (toy h).moves 0 = [toyMove] := rfl
  rw [h1, toy_order, negamaxLoop_cons]
  have h3 : stopFlag s.incrementNodes = false := by simp [stopFlag, SearchState.incrementNodes, hl]
  rw [h3]
  simp only [Bool.false_eq_true, ↓reduceIte]
  have h4 : (toy h).play 0 toyMove = 1 := rfl
  have hrep : (polled s.incrementNodes).incrementNodes.isRepetition ((toy h).hash 1) = true := by
    simp [SearchState.isRepetition, polled, SearchState.incrementNodes, hr, toy, List.filter, h01]
  rw [h4, Nat.zero_add, negamax_zero, hrep]
  have h5 : (List.headD [toyMove] toyMove) = toyMove := rfl
  rw [h5]
  simp only [Nat.lt_add_one, decide_true, Bool.and_self, ↓reduceIte]
  have h7 : ¬ (max NEGATIVE_INFINITY (- (0 : Int)) ≥ INFINITY) := by decide
  rw [if_neg h7, negamaxLoop_nil]
  simp only
  rw [finishNode_fst]
  rfl

theorem toy_start (h : Nat → UInt64) :
    (∀ k, (pushed (toy h) 0 (polled (started .none (toyState h)))).tt.retrieve k = none) ∧
    (pushed (toy h) 0 (polled (started .none (toyState h)))).rep = [h 0, h 0] ∧
    (pushed (toy h) 0 (polled (started .none (toyState h)))).limit = .none :=
  ⟨fun k => retrieve_empty k, rfl, rfl⟩

theorem toy_answer_honest (h : Nat → UInt64) (h01 : h 0 ≠ h 1) :
    (findBestMove (toy h) 1 0 1 .none (toyState h)).1 = some (50, some toyMove) := by
  rw [findBestMove_one_fst, toy_run_honest h h01 _ (toy_start h).1 (toy_start h).2.1 (toy_start h).2.2]

theorem toy_answer_colliding (h : Nat → UInt64) (h01 : h 0 = h 1) :
    (findBestMove (toy h) 1 0 1 .none (toyState h)).1 = some (0, some toyMove) := by
  rw [findBestMove_one_fst, toy_run_colliding h h01 _ (toy_start h).1 (toy_start h).2.1 (toy_start h).2.2]

/-! ### non-vacuity -/

/-- two different collision-free key functions. -/
def keyA (p : Nat) : UInt64 := p.toUInt64
def keyB (p : Nat) : UInt64 := (7 * p + 3).toUInt64
/-- a colliding key function. -/
def keyC (_ : Nat) : UInt64 := 0

theorem keyA_ne : keyA 0 ≠ keyA 1 := by decide
theorem keyB_ne : keyB 0 ≠ keyB 1 := by decide
theorem keyA_keyB_differ : keyA 0 ≠ keyB 0 ∧ keyA 1 ≠ keyB 1 := by decide

/-- **non-vacuity**: all hypotheses of `findBestMove_key_independent` hold for the toy game under the two
    different key functions, for every limit and every fuel. -/
theorem toy_key_independent (qfuel : Nat) (limit : Limit) :
    (findBestMove (toy keyA) qfuel 0 1 limit (toyState keyA)).1 =
      (findBestMove (toy keyB) qfuel 0 1 limit (toyState keyB)).1 ∧
    (findBestMove (toy keyA) qfuel 0 1 limit (toyState keyA)).2.info =
      (findBestMove (toy keyB) qfuel 0 1 limit (toyState keyB)).2.info := by
  have hinjB : HashInjOn (toy keyB) (Ranked.U (toyS keyA)) := toy_inj keyB keyA keyB_ne
  have h := findBestMove_key_independent (toy_sameRules keyA keyB) (horizon_ranked (toy keyA) 0 1)
    (toy_inj keyA keyA keyA_ne) hinjB qfuel 0 1 limit (horizon_root (toy keyA) 0 1) (toy_sim keyA keyB)
  exact ⟨h.1, h.2.info⟩

/-- … and the common answer really is the honest one. -/
theorem toy_key_independent_value :
    (findBestMove (toy keyA) 1 0 1 .none (toyState keyA)).1 = some (50, some toyMove) ∧
    (findBestMove (toy keyB) 1 0 1 .none (toyState keyB)).1 = some (50, some toyMove) :=
  ⟨toy_answer_honest keyA keyA_ne, toy_answer_honest keyB keyB_ne⟩

/-- **why injectivity is required**: same rules, ranked family, related start states, `G₁` collision-free —
    only the hash of `G₂` collides on the horizon — and the two runs give different answers. -/
theorem key_dependence_without_injectivity :
    ∃ (G₁ G₂ : Game Nat) (S : Nat → Nat → Prop) (s₁ s₂ : SearchState),
      SameRules G₁ G₂ ∧ Ranked G₁ S ∧ HashInjOn G₁ (Ranked.U S) ∧ S 1 0 ∧ Sim G₁ G₂ (Ranked.U S) s₁ s₂ ∧
      (findBestMove G₁ 1 0 1 .none s₁).1 ≠ (findBestMove G₂ 1 0 1 .none s₂).1 := by
  refine ⟨toy keyA, toy keyC, toyS keyA, toyState keyA, toyState keyC, toy_sameRules _ _,
    horizon_ranked _ 0 1, toy_inj keyA keyA keyA_ne, horizon_root _ 0 1, toy_sim keyA keyC, ?_⟩
  rw [toy_answer_honest keyA keyA_ne, toy_answer_colliding keyC rfl]
  decide

end Flounder.KeySim
