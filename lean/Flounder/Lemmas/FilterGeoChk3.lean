/- kernel evaluation of the same-direction checker (see FilterGeoDefs.lean). -/
import Flounder.Lemmas.FilterGeoDefs
namespace Flounder.Spec.NonKing
set_option maxRecDepth 100000 in
theorem chkFork_ok : chkFork = true := by decide +kernel
end Flounder.Spec.NonKing
