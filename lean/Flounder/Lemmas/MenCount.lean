/-
  A legal move never increases either side's number of men.

  Mailbox level (`menAt f c` = number of squares `s < 64` with `f s = some (c, _)`):
    * `menAt_play_turn`  : the mover keeps its number of men (the man on `src` goes to `dst`, which held none of
                           the mover's men; castling also moves the rook from its home to the empty square next to
                           the king);
    * `menAt_play_other` : the opponent does not gain a man (every opponent man after the move stood there before).
  Bitboard level: on a consistent board `menCount b c = menAt (absBoard b) c` (`menCount_eq_menAt`) and a valid
  board has exactly one king bit per colour (`king_count_of_valid`).
-/
import Flounder.Lemmas.PlaySpec
import Flounder.Lemmas.EvalBound

namespace Flounder.Spec
open Flounder

/-! ### counting on a list without duplicates -/

/-- two predicates that differ at exactly one element `a` of a duplicate-free list (true / false there). -/
theorem countP_update (A B : Nat → Bool) (a : Nat) (hA : A a = true) (hB : B a = false) :
    ∀ (l : List Nat), l.Nodup → a ∈ l → (∀ s ∈ l, s ≠ a → A s = B s) → l.countP A = l.countP B + 1 := by
  intro l
  induction l with
  | nil => intro _ ha; cases ha
  | cons x xs ih =>
    intro hnd ha h
    obtain ⟨hx, hnd'⟩ := List.nodup_cons.1 hnd
    rw [List.countP_cons, List.countP_cons]
    by_cases hxa : x = a
    · subst hxa
      have hc : xs.countP A = xs.countP B := by
        apply List.countP_congr
        intro s hs
        have hne : s ≠ x := fun e => hx (e ▸ hs)
        rw [h s (List.mem_cons_of_mem _ hs) hne]
      rw [hA, hB, hc]
      simp
    · have ha' : a ∈ xs := by
        rcases List.mem_cons.1 ha with e | e
        · exact absurd e.symm hxa
        · exact e
      have := ih hnd' ha' (fun s hs hne => h s (List.mem_cons_of_mem _ hs) hne)
      rw [this, h x List.mem_cons_self hxa]
      omega

/-- a man moves from `a` to `b`: the count is unchanged. -/
theorem countP_move (A B : Nat → Bool) (a b : Nat) (l : List Nat) (hnd : l.Nodup) (ha : a ∈ l) (hb : b ∈ l)
    (hab : a ≠ b) (hAa : A a = true) (hAb : A b = false) (hBa : B a = false) (hBb : B b = true)
    (h : ∀ s ∈ l, s ≠ a → s ≠ b → B s = A s) : l.countP B = l.countP A := by
  let M : Nat → Bool := fun s => if s = a then false else A s
  have h1 : l.countP A = l.countP M + 1 := by
    apply countP_update A M a hAa (by simp [M]) l hnd ha
    intro s _ hne
    simp [M, hne]
  have h2 : l.countP B = l.countP M + 1 := by
    apply countP_update B M b hBb (by simp [M, hab.symm, hAb]) l hnd hb
    intro s hs hne
    by_cases hsa : s = a
    · subst hsa; simp [M, hBa]
    · simp [M, hsa, h s hs hsa hne]
  omega

/-- six counts that are pointwise disjoint add up to the count of their union. -/
theorem countP_add6 (f0 f1 f2 f3 f4 f5 g : Nat → Bool) :
    ∀ (l : List Nat),
      (∀ s ∈ l, (if f0 s then 1 else 0) + ((if f1 s then 1 else 0) + ((if f2 s then 1 else 0) +
        ((if f3 s then 1 else 0) + ((if f4 s then 1 else 0) + ((if f5 s then 1 else 0) + 0))))) =
          (if g s then 1 else 0)) →
      l.countP f0 + (l.countP f1 + (l.countP f2 + (l.countP f3 + (l.countP f4 + (l.countP f5 + 0))))) =
        l.countP g := by
  intro l
  induction l with
  | nil => intro _; rfl
  | cons x xs ih =>
    intro h
    have h1 := ih (fun s hs => h s (List.mem_cons_of_mem _ hs))
    have h2 := h x List.mem_cons_self
    simp only [List.countP_cons]
    omega

/-! ### the men of one colour on a mailbox -/

/-- a man of colour `c` stands on `s`. -/
def isMan (f : Nat → Option Man) (c : Color) (s : Nat) : Bool :=
  match f s with
  | some (c', _) => c' == c
  | none => false

/-- number of squares `s < 64` holding a man of colour `c`. -/
def menAt (f : Nat → Option Man) (c : Color) : Nat := squares.countP (isMan f c)

theorem isMan_eq_true {f : Nat → Option Man} {c : Color} {s : Nat} :
    isMan f c s = true ↔ ∃ q, f s = some (c, q) := by
  unfold isMan
  split
  · rename_i c' q h
    rw [beq_iff_eq]
    constructor
    · intro e; subst e; exact ⟨q, h⟩
    · rintro ⟨q', hq⟩; rw [h] at hq; cases hq; rfl
  · rename_i h
    constructor
    · intro e; cases e
    · rintro ⟨q, hq⟩; rw [h] at hq; cases hq

theorem isMan_of_some {f : Nat → Option Man} {c : Color} {s : Nat} {q : Piece} (h : f s = some (c, q)) :
    isMan f c s = true := isMan_eq_true.2 ⟨q, h⟩

theorem isMan_of_none {f : Nat → Option Man} {c : Color} {s : Nat} (h : f s = none) : isMan f c s = false := by
  unfold isMan; rw [h]

theorem isMan_other {f : Nat → Option Man} {c : Color} {s : Nat} {q : Piece} (h : f s = some (c.other, q)) :
    isMan f c s = false := by
  unfold isMan; rw [h]
  cases c <;> rfl

theorem isMan_congr {f g : Nat → Option Man} {s : Nat} (h : f s = g s) (c : Color) : isMan f c s = isMan g c s := by
  unfold isMan; rw [h]

/-- the count only reads the 64 squares. -/
theorem menAt_congr {f g : Nat → Option Man} (h : Agree f g) (c : Color) : menAt f c = menAt g c := by
  unfold menAt
  apply List.countP_congr
  intro s hs
  rw [isMan_congr (h s (mem_squares.1 hs)) c]

/-! ### the opponent does not gain a man -/

theorem menAt_play_other {p : Pos} {m : Move} {pc : Piece} (_hf : PlayFacts p m pc) :
    menAt (playBoard p m) p.turn.other ≤ menAt p.board p.turn.other := by
  unfold menAt
  apply List.countP_mono_left
  intro s _ h
  obtain ⟨q, hq⟩ := isMan_eq_true.1 h
  have h1 : s ≠ m.dst := by
    intro e
    rw [e, playBoard_dst] at hq
    exact Color.other_ne _ (congrArg Prod.fst (Option.some.inj hq)).symm
  rcases playBoard_some p m h1 hq with ⟨hb, _⟩ | ⟨_, hx⟩
  · exact isMan_of_some hb
  · exact absurd (congrArg Prod.fst hx) (Color.other_ne _)

/-! ### the mover keeps its men -/

theorem castle_squares {p : Pos} {m : Move} {pc : Piece} (hf : PlayFacts p m pc) (hk : m.kind = .castle) :
    rookHome p.turn (file m.dst == 6) < 64 ∧ rookTo m.dst < 64 ∧
    rookHome p.turn (file m.dst == 6) ≠ rookTo m.dst ∧
    rookHome p.turn (file m.dst == 6) ≠ m.src ∧ rookHome p.turn (file m.dst == 6) ≠ m.dst ∧
    rookTo m.dst ≠ m.src ∧ rookTo m.dst ≠ m.dst := by
  obtain ⟨h1, h2, _, _⟩ := hf.castle hk
  rw [h1]
  generalize m.dst = d at h2 ⊢
  generalize p.turn = t at h2 ⊢
  cases t <;> rcases h2 with h2 | h2
  · have : d = 6 := h2
    subst this; decide
  · have : d = 2 := by simp only [kingHome] at h2; omega
    subst this; decide
  · have : d = 62 := h2
    subst this; decide
  · have : d = 58 := by simp only [kingHome] at h2; omega
    subst this; decide

/-- away from `src` and `dst` (and, when castling, the two rook squares) the mover's men stay. -/
theorem isMan_play_turn_other {p : Pos} {m : Move} {pc : Piece} (hf : PlayFacts p m pc) {s : Nat}
    (h1 : s ≠ m.dst) (h2 : s ≠ m.src)
    (h4 : ¬ (m.kind = .castle ∧ s = rookHome p.turn (file m.dst == 6)))
    (h5 : ¬ (m.kind = .castle ∧ s = rookTo m.dst)) :
    isMan (playBoard p m) p.turn s = isMan p.board p.turn s := by
  by_cases h3 : m.kind = .enPassant ∧ s = capSq p.turn m.dst
  · have e : playBoard p m s = none := by
      rw [playBoard_eq, if_neg h1, if_neg h2, if_pos h3]
    rw [isMan_of_none e]
    have := (hf.epCap h3.1).2
    rw [← h3.2] at this
    rw [isMan_other this]
  · exact isMan_congr (playBoard_other p m h1 h2 h3 h4 h5) _

theorem menAt_play_turn {p : Pos} {m : Move} {pc : Piece} (hf : PlayFacts p m pc) :
    menAt (playBoard p m) p.turn = menAt p.board p.turn := by
  have hsd := hf.src_ne_dst
  have hAsrc : isMan p.board p.turn m.src = true := isMan_of_some hf.src
  have hAdst : isMan p.board p.turn m.dst = false := by
    rcases hf.dst with h | ⟨q, h, _⟩
    · exact isMan_of_none h
    · exact isMan_other h
  have hBsrc : isMan (playBoard p m) p.turn m.src = false := isMan_of_none (playBoard_src p m hsd)
  have hBdst : isMan (playBoard p m) p.turn m.dst = true := isMan_of_some (playBoard_dst p m)
  unfold menAt
  by_cases hk : m.kind = .castle
  · -- the king moves, then the rook
    obtain ⟨r1, r2, r3, r4, r5, r6, r7⟩ := castle_squares hf hk
    obtain ⟨_, _, c3, c4⟩ := hf.castle hk
    let K : Nat → Bool := fun s => if s = m.dst then true else if s = m.src then false else isMan p.board p.turn s
    have e1 : squares.countP K = squares.countP (isMan p.board p.turn) := by
      apply countP_move (isMan p.board p.turn) K m.src m.dst squares squares_nodup
        (mem_squares.2 hf.hs) (mem_squares.2 hf.hd) hsd hAsrc hAdst
      · simp [K, hsd]
      · simp [K]
      · intro s _ h1 h2; simp [K, h1, h2]
    have e2 : squares.countP (isMan (playBoard p m) p.turn) = squares.countP K := by
      apply countP_move K (isMan (playBoard p m) p.turn) (rookHome p.turn (file m.dst == 6)) (rookTo m.dst)
        squares squares_nodup (mem_squares.2 r1) (mem_squares.2 r2) r3
      · simp only [K, if_neg r5, if_neg r4]; exact isMan_of_some c3
      · simp only [K, if_neg r7, if_neg r6]; exact isMan_of_none c4
      · apply isMan_of_none
        rw [playBoard_eq, if_neg r5, if_neg r4, if_neg (fun h => by rw [hk] at h; cases h.1), if_pos ⟨hk, rfl⟩]
      · apply isMan_of_some (q := .rook)
        rw [playBoard_eq, if_neg r7, if_neg r6, if_neg (fun h => by rw [hk] at h; cases h.1),
          if_neg (fun h => r3 h.2.symm), if_pos ⟨hk, rfl⟩]
      · intro s _ h1 h2
        by_cases hd : s = m.dst
        · subst hd; simp only [K, if_true]; exact hBdst
        · by_cases hs : s = m.src
          · subst hs; simp only [K, if_neg hd, if_true]; exact hBsrc
          · simp only [K, if_neg hd, if_neg hs]
            exact isMan_play_turn_other hf hd hs (fun h => h1 h.2) (fun h => h2 h.2)
    rw [e2, e1]
  · apply countP_move (isMan p.board p.turn) (isMan (playBoard p m) p.turn) m.src m.dst squares squares_nodup
      (mem_squares.2 hf.hs) (mem_squares.2 hf.hd) hsd hAsrc hAdst hBsrc hBdst
    intro s _ h1 h2
    exact isMan_play_turn_other hf h2 h1 (fun h => hk h.1) (fun h => hk h.1)

/-- **a pseudo-legal move on a valid position never increases either side's number of men.** -/
theorem menAt_play_le {p : Pos} (hv : ValidPos p) {m : Move} (h : pseudo p m = true) (c : Color) :
    menAt (playBoard p m) c ≤ menAt p.board c := by
  obtain ⟨pc, hf⟩ := playFacts hv h
  by_cases hc : c = p.turn
  · subst hc; exact Nat.le_of_eq (menAt_play_turn hf)
  · have : c = p.turn.other := by
      revert hc; cases c <;> cases p.turn <;> simp [Color.other]
    subst this; exact menAt_play_other hf

/-! ### bitboards -/

theorem countOnes_eq_countP (bb : UInt64) : countOnes bb = squares.countP (hasSq bb) := by
  unfold countOnes squaresOf squares
  rw [List.countP_eq_length_filter]

theorem man_split (x : Option Man) (c : Color) :
    (if x == some (c, Piece.pawn) then 1 else 0) + ((if x == some (c, Piece.knight) then 1 else 0) +
      ((if x == some (c, Piece.bishop) then 1 else 0) + ((if x == some (c, Piece.rook) then 1 else 0) +
        ((if x == some (c, Piece.queen) then 1 else 0) + ((if x == some (c, Piece.king) then 1 else 0) + 0))))) =
      (if (match x with | some (c', _) => c' == c | none => false) = true then 1 else 0) := by
  cases x with
  | none => rfl
  | some y =>
    obtain ⟨c', q⟩ := y
    cases c <;> cases c' <;> cases q <;> rfl

/-- on a consistent board the bit count of the six `(colour, piece)` boards is the number of squares holding a
    man of that colour. -/
theorem menCount_eq_menAt {b : Board} (hb : consistent b = true) (c : Color) :
    menCount b c = menAt (absBoard b) c := by
  have hp : ∀ q : Piece, countOnes (b.bb c q) = squares.countP (fun s => absBoard b s == some (c, q)) := by
    intro q
    rw [countOnes_eq_countP]
    apply List.countP_congr
    intro s hs
    rw [hasSq_bb hb (mem_squares.1 hs), beq_iff_eq]
  simp only [menCount, Piece.all, List.map_cons, List.map_nil, List.sum_cons, List.sum_nil, hp]
  unfold menAt
  apply countP_add6
  intro s _
  exact man_split (absBoard b s) c

/-- a valid board has exactly one king bit per colour. -/
theorem king_count_of_valid {b : Board} (hv : valid b = true) (c : Color) : countOnes (b.bb c .king) = 1 := by
  obtain ⟨hb, hvp⟩ := (valid_iff b).1 hv
  have h1 : (kingSquares (abs b).board c).length = 1 := kingSquares_length_eq_one.2 (hvp.king c)
  rw [← h1, countOnes_eq_countP, List.countP_eq_length_filter]
  unfold kingSquares
  congr 1
  apply List.filter_congr
  intro s hs
  have := hasSq_bb (c := c) (p := .king) hb (mem_squares.1 hs)
  show hasSq (b.bb c .king) s = (absBoard b s == some (c, .king))
  cases h : hasSq (b.bb c .king) s
  · cases h2 : absBoard b s == some (c, .king)
    · rfl
    · rw [beq_iff_eq] at h2; rw [this.2 h2] at h; cases h
  · rw [this.1 h]; simp

end Flounder.Spec
