/-
  L3 (castling part): `generatePseudoLegalCastles` produces exactly the geometrically possible castling
  moves (`pseudoGeom` with `kind = .castle`), each once.
-/
import Flounder.Lemmas.C01Interfaces
import Flounder.Lemmas.BitIter
namespace Flounder.Spec
open Flounder Flounder.MoveGenerator

/-! ### the four masks -/

theorem castle_mask_wk : ∀ u, u < 64 → hasSq (u64 Gen.WHITE_KING_SIDE) u = decide (u ∈ [5, 6]) := by
  decide +kernel
theorem castle_mask_wq : ∀ u, u < 64 → hasSq (u64 Gen.WHITE_QUEEN_SIDE) u = decide (u ∈ [3, 2, 1]) := by
  decide +kernel
theorem castle_mask_bk : ∀ u, u < 64 → hasSq (u64 Gen.BLACK_KING_SIDE) u = decide (u ∈ [61, 62]) := by
  decide +kernel
theorem castle_mask_bq : ∀ u, u < 64 → hasSq (u64 Gen.BLACK_QUEEN_SIDE) u = decide (u ∈ [59, 58, 57]) := by
  decide +kernel

/-- `mask & all == 0` says that every square of the mask is empty. -/
theorem castle_mask_empty {b : Board} (hb : consistent b = true) (mask : UInt64) (L : List Nat)
    (hL : ∀ u, u < 64 → hasSq mask u = decide (u ∈ L)) (hL64 : ∀ u, u ∈ L → u < 64) :
    (mask &&& b.bbAll == 0) = true ↔ ∀ u, u ∈ L → absBoard b u = none := by
  rw [beq_iff_eq]
  constructor
  · intro h u hu
    have hu64 := hL64 u hu
    have h1 : hasSq (mask &&& b.bbAll) u = false := by rw [h]; exact hasSq_zero u
    rw [hasSq_and _ _ _ hu64, hL u hu64, hasSq_bbAll hb hu64] at h1
    cases hbd : absBoard b u with
    | none => rfl
    | some x => rw [hbd] at h1; simp [hu] at h1
  · intro h
    apply bb_ext
    intro s hs
    rw [hasSq_and _ _ _ hs, hasSq_zero, hL s hs, hasSq_bbAll hb hs]
    by_cases hm : s ∈ L
    · simp [h s hm]
    · simp [hm]

/-- `pathClear` between king and rook home, as a list of empty squares. -/
theorem castle_pathClear (bd : Nat → Option Man) (s t : Nat) (L : List Nat) (e : strictlyBetween s t = L) :
    pathClear bd s t = true ↔ ∀ u, u ∈ L → bd u = none := by
  unfold pathClear
  rw [e, List.all_eq_true]
  simp only [Option.isNone_iff_eq_none]

/-- the squares between the king's and the rook's home squares. -/
def castleBetween : Color → Bool → List Nat
  | .white, true => [5, 6] | .white, false => [3, 2, 1]
  | .black, true => [61, 62] | .black, false => [59, 58, 57]

/-- the castling mask of the engine. -/
def castleMask : Color → Bool → UInt64
  | .white, true => u64 Gen.WHITE_KING_SIDE | .white, false => u64 Gen.WHITE_QUEEN_SIDE
  | .black, true => u64 Gen.BLACK_KING_SIDE | .black, false => u64 Gen.BLACK_QUEEN_SIDE

/-- the king's target square. -/
def castleDst (c : Color) (ks : Bool) : Nat := if ks then kingHome c + 2 else kingHome c - 2

theorem castle_between_eq (c : Color) (ks : Bool) :
    strictlyBetween (kingHome c) (rookHome c ks) = castleBetween c ks := by
  cases c <;> cases ks <;> decide

theorem castle_mask_spec (c : Color) (ks : Bool) :
    ∀ u, u < 64 → hasSq (castleMask c ks) u = decide (u ∈ castleBetween c ks) := by
  cases c <;> cases ks
  · exact castle_mask_wq
  · exact castle_mask_wk
  · exact castle_mask_bq
  · exact castle_mask_bk

theorem castle_between_lt (c : Color) (ks : Bool) : ∀ u, u ∈ castleBetween c ks → u < 64 := by
  cases c <;> cases ks <;> decide

/-- the engine's emptiness test is the spec's `pathClear`. -/
theorem castle_mask_pathClear {b : Board} (hb : consistent b = true) (c : Color) (ks : Bool) :
    (castleMask c ks &&& b.bbAll == 0) = pathClear (absBoard b) (kingHome c) (rookHome c ks) := by
  rw [Bool.eq_iff_iff, castle_mask_empty hb _ _ (castle_mask_spec c ks) (castle_between_lt c ks),
    castle_pathClear _ _ _ _ (castle_between_eq c ks)]

/-- the move the engine emits for side `ks`. -/
def castleMove (c : Color) (ks : Bool) : Move :=
  { src := kingHome c, dst := castleDst c ks, piece := .king, kind := .castle }

/-- the generator, in terms of the spec's vocabulary. -/
theorem castle_gen (b : Board) : generatePseudoLegalCastles b =
    (if hasRight b.castle b.active true && (castleMask b.active true &&& b.bbAll == 0)
      then [castleMove b.active true] else []) ++
    (if hasRight b.castle b.active false && (castleMask b.active false &&& b.bbAll == 0)
      then [castleMove b.active false] else []) := by
  unfold generatePseudoLegalCastles
  cases b.active <;> rfl

/-- the spec side: a geometrically possible castling move is one of the two `castleMove`s, with the
    right and a clear path. -/
theorem castle_spec {p : Pos} (V : ValidPos p) (m : Move) :
    (pseudoGeom p m = true ∧ m.kind = .castle) ↔
      ∃ ks, m = castleMove p.turn ks ∧ hasRight p.castle p.turn ks = true ∧
        pathClear p.board (kingHome p.turn) (rookHome p.turn ks) = true := by
  constructor
  · rintro ⟨h, hk⟩
    obtain ⟨s, d, pc, k⟩ := m
    simp only at hk
    subst hk
    unfold pseudoGeom at h
    simp only [Bool.and_eq_true, decide_eq_true_eq] at h
    obtain ⟨⟨hs, hd⟩, h⟩ := h
    split at h
    · cases h
    · rename_i c' pc' hsrc
      simp only [Bool.and_eq_true, Bool.or_eq_true, beq_iff_eq] at h
      obtain ⟨h1, ⟨⟨⟨h2, h3⟩, h4⟩, h5⟩, ⟨⟨h6, h7⟩, h8⟩⟩ := h
      subst h2 h4
      rcases h5 with h5 | h5
      · refine ⟨true, ?_, ?_, ?_⟩
        · simp only [castleMove, castleDst, h5, if_true]
        · simpa [h5] using h6
        · simpa [h5] using h8
      · have hne : (d == kingHome p.turn + 2) = false := by
          rw [beq_eq_false_iff_ne]; omega
        rw [hne] at h6 h8
        refine ⟨false, ?_, h6, h8⟩
        simp only [castleMove, castleDst, Bool.false_eq_true, if_false, Move.mk.injEq, and_true, true_and]
        omega
  · rintro ⟨ks, rfl, hr, hp⟩
    obtain ⟨hking, hrook⟩ := V.rights p.turn ks hr
    refine ⟨?_, rfl⟩
    unfold pseudoGeom
    simp only [castleMove]
    rw [hking]
    have hkh : kingHome p.turn < 64 := by cases p.turn <;> decide
    have hdst : castleDst p.turn ks < 64 := by cases p.turn <;> cases ks <;> decide
    have hks : (castleDst p.turn ks == kingHome p.turn + 2) = ks := by
      cases p.turn <;> cases ks <;> decide
    have hor : (castleDst p.turn ks == kingHome p.turn + 2 || castleDst p.turn ks + 2 == kingHome p.turn) = true := by
      cases p.turn <;> cases ks <;> decide
    rw [hks] at hor
    simp only [hks, hor, hr, hrook, hp, hkh, hdst, decide_true, beq_self_eq_true, Bool.and_self]

/-- the castle generator produces exactly the geometrically possible castling moves. -/
theorem mem_generatePseudoLegalCastles {b : Board} (hv : valid b = true) (m : Move) :
    m ∈ generatePseudoLegalCastles b ↔ pseudoGeom (abs b) m = true ∧ m.kind = .castle := by
  obtain ⟨hb, V⟩ := (valid_iff b).1 hv
  rw [castle_spec V, castle_gen, castle_mask_pathClear hb, castle_mask_pathClear hb]
  show _ ↔ ∃ ks, m = castleMove b.active ks ∧ hasRight b.castle b.active ks = true ∧
    pathClear (absBoard b) (kingHome b.active) (rookHome b.active ks) = true
  rw [List.mem_append]
  constructor
  · rintro (h | h)
    · split at h
      · rename_i hc
        rw [Bool.and_eq_true] at hc
        exact ⟨true, List.mem_singleton.1 h, hc.1, hc.2⟩
      · cases h
    · split at h
      · rename_i hc
        rw [Bool.and_eq_true] at hc
        exact ⟨false, List.mem_singleton.1 h, hc.1, hc.2⟩
      · cases h
  · rintro ⟨ks, rfl, hr, hp⟩
    cases ks
    · right; rw [hr, hp]; simp
    · left; rw [hr, hp]; simp

theorem nodup_generatePseudoLegalCastles (b : Board) : (generatePseudoLegalCastles b).Nodup := by
  rw [castle_gen]
  have hne : castleMove b.active true ≠ castleMove b.active false := by
    cases b.active <;> decide
  split <;> split <;> simp [hne]

end Flounder.Spec

#print axioms Flounder.Spec.mem_generatePseudoLegalCastles
#print axioms Flounder.Spec.nodup_generatePseudoLegalCastles
