/- kernel evaluation of the collinear-triple checker, king squares 0 .. 15 (see FilterGeoDefs.lean). -/
import Flounder.Lemmas.FilterGeoDefs
namespace Flounder.Spec.NonKing
set_option maxRecDepth 100000 in
theorem chkTri_ok0 : chkTri 0 16 = true := by decide +kernel
end Flounder.Spec.NonKing
