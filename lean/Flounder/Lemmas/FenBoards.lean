/-
  The board parsed back from the printed placement has the bitboards of the original (for boards whose
  eight bitboards are consistent).
-/
import Flounder.Lemmas.FenPlacement

namespace Flounder.Lemmas.FenBoards
open Flounder Flounder.Lemmas.FenPrint Flounder.Lemmas.FenPlacement

theorem addPiece_bbPiece (b : Board) (c : Color) (p : Piece) (s : Nat) (p' : Piece) :
    (b.addPiece c p s).bbPiece p' = if p' = p then setBit (b.bbPiece p) s else b.bbPiece p' := by
  cases c <;> cases p <;> cases p' <;> rfl

theorem addPiece_bbColor (b : Board) (c : Color) (p : Piece) (s : Nat) (c' : Color) :
    (b.addPiece c p s).bbColor c' = if c' = c then setBit (b.bbColor c) s else b.bbColor c' := by
  cases c <;> cases p <;> cases c' <;> rfl

/-- some cell of the run starting at `sq` lies on square `s` and its man satisfies `pred`. -/
def hits (pred : Spec.Man → Bool) (s : Nat) : Nat → List (Option Spec.Man) → Bool
  | _, [] => false
  | sq, none :: rest => hits pred s (sq + 1) rest
  | sq, some m :: rest => (decide (sq = s) && pred m) || hits pred s (sq + 1) rest

theorem placeFrom_piece (b0 : Board) (sq : Nat) (cells : List (Option Spec.Man)) (p : Piece) (s : Nat)
    (hs : s < 64) (h : sq + cells.length ≤ 64) :
    hasSq ((placeFrom b0 sq cells).bbPiece p) s =
      (hasSq (b0.bbPiece p) s || hits (fun m => decide (m.2 = p)) s sq cells) := by
  induction cells generalizing b0 sq with
  | nil => simp [placeFrom, hits]
  | cons cell rest ih =>
    simp only [List.length_cons] at h
    cases cell with
    | none => simp only [placeFrom, hits]; exact ih b0 (sq + 1) (by omega)
    | some m =>
      obtain ⟨c, p'⟩ := m
      simp only [placeFrom, hits]
      rw [ih _ (sq + 1) (by omega), addPiece_bbPiece]
      by_cases hp : p = p'
      · subst hp
        simp only [if_true, hasSq_setBit _ sq s (by omega) hs, decide_true, Bool.and_true, Bool.or_assoc]
      · have hp' : ¬ p' = p := fun h => hp h.symm
        simp [hp, hp']

theorem placeFrom_color (b0 : Board) (sq : Nat) (cells : List (Option Spec.Man)) (c : Color) (s : Nat)
    (hs : s < 64) (h : sq + cells.length ≤ 64) :
    hasSq ((placeFrom b0 sq cells).bbColor c) s =
      (hasSq (b0.bbColor c) s || hits (fun m => decide (m.1 = c)) s sq cells) := by
  induction cells generalizing b0 sq with
  | nil => simp [placeFrom, hits]
  | cons cell rest ih =>
    simp only [List.length_cons] at h
    cases cell with
    | none => simp only [placeFrom, hits]; exact ih b0 (sq + 1) (by omega)
    | some m =>
      obtain ⟨c', p⟩ := m
      simp only [placeFrom, hits]
      rw [ih _ (sq + 1) (by omega), addPiece_bbColor]
      by_cases hc : c = c'
      · subst hc
        simp only [if_true, hasSq_setBit _ sq s (by omega) hs, decide_true, Bool.and_true, Bool.or_assoc]
      · have hc' : ¬ c' = c := fun h => hc h.symm
        simp [hc, hc']

/-- the man on square `s` satisfies `pred`. -/
def manPred (g : Nat → Option Spec.Man) (s : Nat) (pred : Spec.Man → Bool) : Bool :=
  match g s with
  | some m => pred m
  | none => false

theorem hits_cellsFrom (g : Nat → Option Spec.Man) (pred : Spec.Man → Bool) (s sq n : Nat) :
    hits pred s sq (cellsFrom g sq n) = (decide (sq ≤ s ∧ s < sq + n) && manPred g s pred) := by
  induction n generalizing sq with
  | zero =>
    simp only [cellsFrom, hits, Nat.add_zero]
    have : ¬ (sq ≤ s ∧ s < sq) := by omega
    simp only [this, decide_false, Bool.false_and]
  | succ n ih =>
    simp only [cellsFrom]
    by_cases hsq : sq = s
    · subst hsq
      have h1 : ¬ (sq + 1 ≤ sq ∧ sq < sq + 1 + n) := by omega
      have h2 : (sq ≤ sq ∧ sq < sq + (n + 1)) := by omega
      cases hg : g sq with
      | none => simp [hits, ih, h1, manPred, hg]
      | some m => simp [hits, ih, h1, h2, manPred, hg]
    · have h1 : (sq + 1 ≤ s ∧ s < sq + 1 + n) ↔ (sq ≤ s ∧ s < sq + (n + 1)) := by omega
      cases hg : g sq with
      | none => simp [hits, ih, h1]
      | some m => simp [hits, ih, h1, hsq]

theorem or8 (s : Nat) (hs : s < 64) (x : Bool) :
    (((((((((false || (decide (7 * 8 ≤ s ∧ s < 7 * 8 + 8) && x)) || (decide (6 * 8 ≤ s ∧ s < 6 * 8 + 8) && x)) ||
      (decide (5 * 8 ≤ s ∧ s < 5 * 8 + 8) && x)) || (decide (4 * 8 ≤ s ∧ s < 4 * 8 + 8) && x)) ||
      (decide (3 * 8 ≤ s ∧ s < 3 * 8 + 8) && x)) || (decide (2 * 8 ≤ s ∧ s < 2 * 8 + 8) && x)) ||
      (decide (1 * 8 ≤ s ∧ s < 1 * 8 + 8) && x)) || (decide (0 * 8 ≤ s ∧ s < 0 * 8 + 8) && x))) = x := by
  cases x
  · simp
  · simp; omega

theorem empty_bbPiece (p : Piece) (s : Nat) : hasSq (Board.empty.bbPiece p) s = false := by
  cases p <;> exact hasSq_zero s

theorem empty_bbColor (c : Color) (s : Nat) : hasSq (Board.empty.bbColor c) s = false := by
  cases c <;> exact hasSq_zero s

theorem placedBoard_piece (b : Board) (p : Piece) (s : Nat) (hs : s < 64) :
    hasSq ((placedBoard b).bbPiece p) s = manPred (Spec.absBoard b) s (fun m => decide (m.2 = p)) := by
  unfold placedBoard
  simp only
  rw [placeFrom_piece _ _ _ _ _ hs (by rw [cellsFrom_length]; omega), placeFrom_piece _ _ _ _ _ hs (by rw [cellsFrom_length]; omega),
    placeFrom_piece _ _ _ _ _ hs (by rw [cellsFrom_length]; omega), placeFrom_piece _ _ _ _ _ hs (by rw [cellsFrom_length]; omega),
    placeFrom_piece _ _ _ _ _ hs (by rw [cellsFrom_length]; omega), placeFrom_piece _ _ _ _ _ hs (by rw [cellsFrom_length]; omega),
    placeFrom_piece _ _ _ _ _ hs (by rw [cellsFrom_length]; omega), placeFrom_piece _ _ _ _ _ hs (by rw [cellsFrom_length]; omega)]
  simp only [hits_cellsFrom, empty_bbPiece]
  exact or8 s hs _

theorem placedBoard_color (b : Board) (c : Color) (s : Nat) (hs : s < 64) :
    hasSq ((placedBoard b).bbColor c) s = manPred (Spec.absBoard b) s (fun m => decide (m.1 = c)) := by
  unfold placedBoard
  simp only
  rw [placeFrom_color _ _ _ _ _ hs (by rw [cellsFrom_length]; omega), placeFrom_color _ _ _ _ _ hs (by rw [cellsFrom_length]; omega),
    placeFrom_color _ _ _ _ _ hs (by rw [cellsFrom_length]; omega), placeFrom_color _ _ _ _ _ hs (by rw [cellsFrom_length]; omega),
    placeFrom_color _ _ _ _ _ hs (by rw [cellsFrom_length]; omega), placeFrom_color _ _ _ _ _ hs (by rw [cellsFrom_length]; omega),
    placeFrom_color _ _ _ _ _ hs (by rw [cellsFrom_length]; omega), placeFrom_color _ _ _ _ _ hs (by rw [cellsFrom_length]; omega)]
  simp only [hits_cellsFrom, empty_bbColor]
  exact or8 s hs _

/-! ### consistency: the mailbox view determines the bitboards -/

def pf (x1 x2 x3 x4 x5 x6 : Bool) : Piece → Bool
  | .pawn => x1 | .knight => x2 | .bishop => x3 | .rook => x4 | .queen => x5 | .king => x6
def cf (y1 y2 : Bool) : Color → Bool
  | .white => y1 | .black => y2

/-- the body of `Spec.consistent` at one square, as a function of the membership bits. -/
def okAt (x : Piece → Bool) (y : Color → Bool) : Bool :=
  let np := (Piece.all.filter x).length
  let nc := ([Color.white, Color.black].filter y).length
  np ≤ 1 && nc ≤ 1 && np == nc

/-- `Spec.absBoard` at one square, as a function of the membership bits. -/
def manOf (x : Piece → Bool) (y : Color → Bool) : Option Spec.Man :=
  match [Color.white, Color.black].find? y, Piece.all.find? x with
  | some c, some p => some (c, p)
  | _, _ => none

theorem bits_piece (p : Piece) : ∀ x1 x2 x3 x4 x5 x6 y1 y2 : Bool,
    okAt (pf x1 x2 x3 x4 x5 x6) (cf y1 y2) = true →
    (match manOf (pf x1 x2 x3 x4 x5 x6) (cf y1 y2) with | some m => decide (m.2 = p) | none => false)
      = pf x1 x2 x3 x4 x5 x6 p := by
  cases p <;> decide

theorem bits_color (c : Color) : ∀ x1 x2 x3 x4 x5 x6 y1 y2 : Bool,
    okAt (pf x1 x2 x3 x4 x5 x6) (cf y1 y2) = true →
    (match manOf (pf x1 x2 x3 x4 x5 x6) (cf y1 y2) with | some m => decide (m.1 = c) | none => false)
      = cf y1 y2 c := by
  cases c <;> decide

theorem pf_eta (x : Piece → Bool) : pf (x .pawn) (x .knight) (x .bishop) (x .rook) (x .queen) (x .king) = x := by
  funext p; cases p <;> rfl
theorem cf_eta (y : Color → Bool) : cf (y .white) (y .black) = y := by
  funext c; cases c <;> rfl

theorem okAt_of_consistent (b : Board) (h : Spec.consistent b = true) (s : Nat) (hs : s < 64) :
    okAt (fun p => hasSq (b.bbPiece p) s) (fun c => hasSq (b.bbColor c) s) = true := by
  unfold Spec.consistent at h
  exact List.all_eq_true.1 h s (by simp [Spec.squares, hs])

theorem manPred_piece (b : Board) (h : Spec.consistent b = true) (s : Nat) (hs : s < 64) (p : Piece) :
    manPred (Spec.absBoard b) s (fun m => decide (m.2 = p)) = hasSq (b.bbPiece p) s := by
  have hk := okAt_of_consistent b h s hs
  rw [← pf_eta (fun p => hasSq (b.bbPiece p) s), ← cf_eta (fun c => hasSq (b.bbColor c) s)] at hk
  have := bits_piece p _ _ _ _ _ _ _ _ hk
  have e1 : pf (hasSq (b.bbPiece .pawn) s) (hasSq (b.bbPiece .knight) s) (hasSq (b.bbPiece .bishop) s)
      (hasSq (b.bbPiece .rook) s) (hasSq (b.bbPiece .queen) s) (hasSq (b.bbPiece .king) s)
      = (fun p => hasSq (b.bbPiece p) s) := pf_eta (fun p => hasSq (b.bbPiece p) s)
  have e2 : cf (hasSq (b.bbColor .white) s) (hasSq (b.bbColor .black) s) = (fun c => hasSq (b.bbColor c) s) :=
    cf_eta (fun c => hasSq (b.bbColor c) s)
  rw [e1, e2] at this
  exact this

theorem manPred_color (b : Board) (h : Spec.consistent b = true) (s : Nat) (hs : s < 64) (c : Color) :
    manPred (Spec.absBoard b) s (fun m => decide (m.1 = c)) = hasSq (b.bbColor c) s := by
  have hk := okAt_of_consistent b h s hs
  rw [← pf_eta (fun p => hasSq (b.bbPiece p) s), ← cf_eta (fun c => hasSq (b.bbColor c) s)] at hk
  have := bits_color c _ _ _ _ _ _ _ _ hk
  have e1 : pf (hasSq (b.bbPiece .pawn) s) (hasSq (b.bbPiece .knight) s) (hasSq (b.bbPiece .bishop) s)
      (hasSq (b.bbPiece .rook) s) (hasSq (b.bbPiece .queen) s) (hasSq (b.bbPiece .king) s)
      = (fun p => hasSq (b.bbPiece p) s) := pf_eta (fun p => hasSq (b.bbPiece p) s)
  have e2 : cf (hasSq (b.bbColor .white) s) (hasSq (b.bbColor .black) s) = (fun c => hasSq (b.bbColor c) s) :=
    cf_eta (fun c => hasSq (b.bbColor c) s)
  rw [e1, e2] at this
  exact this

/-- **the parsed-back placement has the original bitboards.** -/
theorem placedBoard_bbPiece (b : Board) (h : Spec.consistent b = true) (p : Piece) :
    (placedBoard b).bbPiece p = b.bbPiece p :=
  bb_ext _ _ fun s hs => by rw [placedBoard_piece b p s hs, manPred_piece b h s hs p]

theorem placedBoard_bbColor (b : Board) (h : Spec.consistent b = true) (c : Color) :
    (placedBoard b).bbColor c = b.bbColor c :=
  bb_ext _ _ fun s hs => by rw [placedBoard_color b c s hs, manPred_color b h s hs c]

end Flounder.Lemmas.FenBoards
