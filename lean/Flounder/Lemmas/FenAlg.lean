/-
  Square and move text: `squareToAlgebraic` / `algebraicToSquare` round trip and what equality of two
  `Move.toAlgebraic` texts means.
-/
import Flounder.Model.Fen

namespace Flounder.Lemmas.FenAlg
open Flounder

/-- **square text round trip** on the 64 squares. -/
theorem squareToAlgebraic_roundtrip : ∀ s, s < 64 → algebraicToSquare (squareToAlgebraic s) = some s := by
  decide

theorem squareToAlgebraic_inj (s t : Nat) (hs : s < 64) (ht : t < 64)
    (h : squareToAlgebraic s = squareToAlgebraic t) : s = t := by
  have h1 := squareToAlgebraic_roundtrip s hs
  rw [h, squareToAlgebraic_roundtrip t ht] at h1
  exact (Option.some.inj h1).symm

/-- the promotion letter appended by `to_algebraic` (empty for every non-promotion). -/
def promoSuffix (m : Move) : List Char :=
  if m.kind = .promotion then
    match m.piece with
    | .bishop => ['b'] | .knight => ['n'] | .rook => ['r'] | .queen => ['q'] | _ => []
  else []

theorem toAlgebraic_eq (m : Move) :
    m.toAlgebraic = squareToAlgebraic m.src ++ squareToAlgebraic m.dst ++ promoSuffix m := rfl

theorem squareToAlgebraic_eq (s : Nat) :
    squareToAlgebraic s = [Char.ofNat ('a'.toNat + s % 8), Char.ofNat ('1'.toNat + s / 8)] := rfl

/-- equal texts ⇒ equal pieces of text. -/
theorem toAlgebraic_parts (m₁ m₂ : Move) (h : m₁.toAlgebraic = m₂.toAlgebraic) :
    squareToAlgebraic m₁.src = squareToAlgebraic m₂.src ∧ squareToAlgebraic m₁.dst = squareToAlgebraic m₂.dst ∧
    promoSuffix m₁ = promoSuffix m₂ := by
  rw [toAlgebraic_eq, toAlgebraic_eq] at h
  simp only [squareToAlgebraic_eq, List.cons_append, List.nil_append, List.cons.injEq] at h ⊢
  obtain ⟨a, b, c, d, e⟩ := h
  exact ⟨⟨a, b, trivial⟩, ⟨c, d, trivial⟩, e⟩

/-- **equal move texts ⇒ same from-square, same to-square, same promotion letter** (squares on the board). -/
theorem to_algebraic_injective (m₁ m₂ : Move) (h : m₁.toAlgebraic = m₂.toAlgebraic)
    (h1s : m₁.src < 64) (h1d : m₁.dst < 64) (h2s : m₂.src < 64) (h2d : m₂.dst < 64) :
    m₁.src = m₂.src ∧ m₁.dst = m₂.dst ∧ promoSuffix m₁ = promoSuffix m₂ := by
  obtain ⟨a, b, c⟩ := toAlgebraic_parts m₁ m₂ h
  exact ⟨squareToAlgebraic_inj _ _ h1s h2s a, squareToAlgebraic_inj _ _ h1d h2d b, c⟩

/-- for promotions to one of the four promotion pieces the letter determines the piece. -/
theorem promoSuffix_inj (m₁ m₂ : Move) (h : promoSuffix m₁ = promoSuffix m₂)
    (k1 : m₁.kind = .promotion) (k2 : m₂.kind = .promotion)
    (p1 : m₁.piece ∈ Piece.promotions) (p2 : m₂.piece ∈ Piece.promotions) : m₁.piece = m₂.piece := by
  unfold promoSuffix at h
  rw [if_pos k1, if_pos k2] at h
  rcases m₁ with ⟨_, _, pc1, _⟩
  rcases m₂ with ⟨_, _, pc2, _⟩
  simp only [Piece.promotions, List.mem_cons, List.not_mem_nil, or_false] at p1 p2
  cases pc1 <;> cases pc2 <;> simp_all

/-- a promotion text differs from a non-promotion text (promotion piece among the four). -/
theorem promoSuffix_kind (m₁ m₂ : Move) (h : promoSuffix m₁ = promoSuffix m₂)
    (k1 : m₁.kind = .promotion) (p1 : m₁.piece ∈ Piece.promotions) : m₂.kind = .promotion := by
  unfold promoSuffix at h
  rw [if_pos k1] at h
  by_cases k2 : m₂.kind = .promotion
  · exact k2
  · rw [if_neg k2] at h
    rcases m₁ with ⟨_, _, pc1, _⟩
    simp only [Piece.promotions, List.mem_cons, List.not_mem_nil, or_false] at p1
    cases pc1 <;> simp_all

end Flounder.Lemmas.FenAlg
