/-
  C01, layer L2 — finite geometric facts used by the attack layer (all by kernel evaluation over the
  64 squares): pawn-capture shifts of a single-square bitboard, symmetry of the walks `strictlyBetween`,
  prefixes / suffixes of a walk, and the few castling-specific squares.
-/
import Flounder.Lemmas.Leapers
import Flounder.Spec.Geometry

namespace Flounder.Spec
open Flounder Flounder.Gen Flounder.MagicProof

/-! ### pawn-capture shifts -/

/-- squares from which a BLACK pawn attacks `t` (used when white is to move). -/
def pawnAttWhite (t : Nat) : UInt64 := shift (sqBB t) (NORTH + WEST) ||| shift (sqBB t) (NORTH + EAST)
/-- squares from which a WHITE pawn attacks `t` (used when black is to move). -/
def pawnAttBlack (t : Nat) : UInt64 := shift (sqBB t) (SOUTH + WEST) ||| shift (sqBB t) (SOUTH + EAST)

def pawnGeom (c : Color) (t s : Nat) : Bool :=
  absDiff (file s) (file t) == 1 &&
    (match c with | .white => rank t == rank s + 1 | .black => rank t + 1 == rank s)

theorem pawnAttWhite_ok : leaperCheck pawnAttWhite (pawnGeom .black) = true := by decide +kernel
theorem pawnAttBlack_ok : leaperCheck pawnAttBlack (pawnGeom .white) = true := by decide +kernel

theorem hasSq_pawnAttWhite (t s : Nat) (ht : t < 64) (hs : s < 64) :
    hasSq (pawnAttWhite t) s = pawnGeom .black t s := leaperCheck_sound _ _ pawnAttWhite_ok t s ht hs
theorem hasSq_pawnAttBlack (t s : Nat) (ht : t < 64) (hs : s < 64) :
    hasSq (pawnAttBlack t) s = pawnGeom .white t s := leaperCheck_sound _ _ pawnAttBlack_ok t s ht hs

/-! ### the walks -/

/-- same elements (as Boolean inclusion both ways). -/
def subL (a b : List Nat) : Bool := a.all fun x => b.contains x

theorem subL_iff {a b : List Nat} : subL a b = true ↔ ∀ x, x ∈ a → x ∈ b := by
  unfold subL; simp [List.all_eq_true]

def symCheck : Bool :=
  (List.range 64).all fun s => (List.range 64).all fun t =>
    (diagonal s t == diagonal t s) && (orthogonal s t == orthogonal t s) &&
    (!(diagonal s t || orthogonal s t) ||
      (subL (strictlyBetween s t) (strictlyBetween t s) && subL (strictlyBetween t s) (strictlyBetween s t)))

theorem symCheck_ok : symCheck = true := by decide +kernel

/-- for aligned `s`, `t` and every `u` on the walk: same alignment from `s` to `u` and from `u` to `t`;
    the walks `s → u` and `u → t` stay inside the walk `s → t`; and `s` itself is not on the walk. -/
def prefixCheck : Bool :=
  (List.range 64).all fun s => (List.range 64).all fun t =>
    !(diagonal s t || orthogonal s t) ||
      (!(strictlyBetween s t).contains s &&
      (strictlyBetween s t).all fun u =>
        (diagonal s u == diagonal s t) && (orthogonal s u == orthogonal s t) &&
        (diagonal u t == diagonal s t) && (orthogonal u t == orthogonal s t) &&
        subL (strictlyBetween s u) (strictlyBetween s t) &&
        subL (strictlyBetween u t) (strictlyBetween s t))

theorem prefixCheck_ok : prefixCheck = true := by decide +kernel

/-- knight, king and pawn geometry, and both alignments, are irreflexive. -/
def irreflCheck : Bool :=
  (List.range 64).all fun s =>
    !diagonal s s && !orthogonal s s && !knightStep s s && !kingStep s s &&
    !pawnGeom .white s s && !pawnGeom .black s s

theorem irreflCheck_ok : irreflCheck = true := by decide +kernel

end Flounder.Spec
