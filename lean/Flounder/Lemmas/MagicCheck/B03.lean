/- GENERATED (C10): kernel-evaluated finite checks, magic tables, bishop squares 48..63. -/
import Flounder.Lemmas.MagicDefs
namespace Flounder.MagicProof.Check
open Flounder Flounder.MagicProof
set_option maxRecDepth 100000

theorem bishop_48 : checkSquare true 48 = true := by decide +kernel
theorem bishop_49 : checkSquare true 49 = true := by decide +kernel
theorem bishop_50 : checkSquare true 50 = true := by decide +kernel
theorem bishop_51 : checkSquare true 51 = true := by decide +kernel
theorem bishop_52 : checkSquare true 52 = true := by decide +kernel
theorem bishop_53 : checkSquare true 53 = true := by decide +kernel
theorem bishop_54 : checkSquare true 54 = true := by decide +kernel
theorem bishop_55 : checkSquare true 55 = true := by decide +kernel
theorem bishop_56 : checkSquare true 56 = true := by decide +kernel
theorem bishop_57 : checkSquare true 57 = true := by decide +kernel
theorem bishop_58 : checkSquare true 58 = true := by decide +kernel
theorem bishop_59 : checkSquare true 59 = true := by decide +kernel
theorem bishop_60 : checkSquare true 60 = true := by decide +kernel
theorem bishop_61 : checkSquare true 61 = true := by decide +kernel
theorem bishop_62 : checkSquare true 62 = true := by decide +kernel
theorem bishop_63 : checkSquare true 63 = true := by decide +kernel

end Flounder.MagicProof.Check
