/- GENERATED (C10): kernel-evaluated finite checks, magic tables, bishop squares 16..31. -/
import Flounder.Lemmas.MagicDefs
namespace Flounder.MagicProof.Check
open Flounder Flounder.MagicProof
set_option maxRecDepth 100000

theorem bishop_16 : checkSquare true 16 = true := by decide +kernel
theorem bishop_17 : checkSquare true 17 = true := by decide +kernel
theorem bishop_18 : checkSquare true 18 = true := by decide +kernel
theorem bishop_19 : checkSquare true 19 = true := by decide +kernel
theorem bishop_20 : checkSquare true 20 = true := by decide +kernel
theorem bishop_21 : checkSquare true 21 = true := by decide +kernel
theorem bishop_22 : checkSquare true 22 = true := by decide +kernel
theorem bishop_23 : checkSquare true 23 = true := by decide +kernel
theorem bishop_24 : checkSquare true 24 = true := by decide +kernel
theorem bishop_25 : checkSquare true 25 = true := by decide +kernel
theorem bishop_26 : checkSquare true 26 = true := by decide +kernel
theorem bishop_27 : checkSquare true 27 = true := by decide +kernel
theorem bishop_28 : checkSquare true 28 = true := by decide +kernel
theorem bishop_29 : checkSquare true 29 = true := by decide +kernel
theorem bishop_30 : checkSquare true 30 = true := by decide +kernel
theorem bishop_31 : checkSquare true 31 = true := by decide +kernel

end Flounder.MagicProof.Check
