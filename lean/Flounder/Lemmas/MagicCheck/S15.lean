/- GENERATED (C10): kernel-evaluated finite checks, between tables, from-squares [15, 16, 47, 48]. -/
import Flounder.Lemmas.LookupLines
namespace Flounder.MagicProof.Check
open Flounder Flounder.MagicProof Flounder.Spec
set_option maxRecDepth 100000

theorem seg_15 : segCheck 15 = true := by decide +kernel
theorem line_15 : lineCheck 15 = true := by decide +kernel
theorem seg_16 : segCheck 16 = true := by decide +kernel
theorem line_16 : lineCheck 16 = true := by decide +kernel
theorem seg_47 : segCheck 47 = true := by decide +kernel
theorem line_47 : lineCheck 47 = true := by decide +kernel
theorem seg_48 : segCheck 48 = true := by decide +kernel
theorem line_48 : lineCheck 48 = true := by decide +kernel

end Flounder.MagicProof.Check
