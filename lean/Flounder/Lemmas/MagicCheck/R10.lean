/- GENERATED (C10): kernel-evaluated finite checks, magic tables, rook squares [8, 21, 43, 57]. -/
import Flounder.Lemmas.MagicDefs
namespace Flounder.MagicProof.Check
open Flounder Flounder.MagicProof
set_option maxRecDepth 100000

theorem rook_08 : checkSquare false 8 = true := by decide +kernel
theorem rook_21 : checkSquare false 21 = true := by decide +kernel
theorem rook_43 : checkSquare false 43 = true := by decide +kernel
theorem rook_57 : checkSquare false 57 = true := by decide +kernel

end Flounder.MagicProof.Check
