/- GENERATED (C10): kernel-evaluated finite checks, between tables, from-squares [14, 17, 46, 49]. -/
import Flounder.Lemmas.LookupLines
namespace Flounder.MagicProof.Check
open Flounder Flounder.MagicProof Flounder.Spec
set_option maxRecDepth 100000

theorem seg_14 : segCheck 14 = true := by decide +kernel
theorem line_14 : lineCheck 14 = true := by decide +kernel
theorem seg_17 : segCheck 17 = true := by decide +kernel
theorem line_17 : lineCheck 17 = true := by decide +kernel
theorem seg_46 : segCheck 46 = true := by decide +kernel
theorem line_46 : lineCheck 46 = true := by decide +kernel
theorem seg_49 : segCheck 49 = true := by decide +kernel
theorem line_49 : lineCheck 49 = true := by decide +kernel

end Flounder.MagicProof.Check
