/- GENERATED (C10): kernel-evaluated finite checks, between tables, from-squares [2, 29, 34, 61]. -/
import Flounder.Lemmas.LookupLines
namespace Flounder.MagicProof.Check
open Flounder Flounder.MagicProof Flounder.Spec
set_option maxRecDepth 100000

theorem seg_02 : segCheck 2 = true := by decide +kernel
theorem line_02 : lineCheck 2 = true := by decide +kernel
theorem seg_29 : segCheck 29 = true := by decide +kernel
theorem line_29 : lineCheck 29 = true := by decide +kernel
theorem seg_34 : segCheck 34 = true := by decide +kernel
theorem line_34 : lineCheck 34 = true := by decide +kernel
theorem seg_61 : segCheck 61 = true := by decide +kernel
theorem line_61 : lineCheck 61 = true := by decide +kernel

end Flounder.MagicProof.Check
