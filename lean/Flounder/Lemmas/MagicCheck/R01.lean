/- GENERATED (C10): kernel-evaluated finite checks, magic tables, rook squares [7, 10, 30, 52]. -/
import Flounder.Lemmas.MagicDefs
namespace Flounder.MagicProof.Check
open Flounder Flounder.MagicProof
set_option maxRecDepth 100000

theorem rook_07 : checkSquare false 7 = true := by decide +kernel
theorem rook_10 : checkSquare false 10 = true := by decide +kernel
theorem rook_30 : checkSquare false 30 = true := by decide +kernel
theorem rook_52 : checkSquare false 52 = true := by decide +kernel

end Flounder.MagicProof.Check
