/- GENERATED (C10): kernel-evaluated finite checks, between tables, from-squares [1, 30, 33, 62]. -/
import Flounder.Lemmas.LookupLines
namespace Flounder.MagicProof.Check
open Flounder Flounder.MagicProof Flounder.Spec
set_option maxRecDepth 100000

theorem seg_01 : segCheck 1 = true := by decide +kernel
theorem line_01 : lineCheck 1 = true := by decide +kernel
theorem seg_30 : segCheck 30 = true := by decide +kernel
theorem line_30 : lineCheck 30 = true := by decide +kernel
theorem seg_33 : segCheck 33 = true := by decide +kernel
theorem line_33 : lineCheck 33 = true := by decide +kernel
theorem seg_62 : segCheck 62 = true := by decide +kernel
theorem line_62 : lineCheck 62 = true := by decide +kernel

end Flounder.MagicProof.Check
