/- GENERATED (C10): kernel-evaluated finite checks, between tables, from-squares [11, 20, 43, 52]. -/
import Flounder.Lemmas.LookupLines
namespace Flounder.MagicProof.Check
open Flounder Flounder.MagicProof Flounder.Spec
set_option maxRecDepth 100000

theorem seg_11 : segCheck 11 = true := by decide +kernel
theorem line_11 : lineCheck 11 = true := by decide +kernel
theorem seg_20 : segCheck 20 = true := by decide +kernel
theorem line_20 : lineCheck 20 = true := by decide +kernel
theorem seg_43 : segCheck 43 = true := by decide +kernel
theorem line_43 : lineCheck 43 = true := by decide +kernel
theorem seg_52 : segCheck 52 = true := by decide +kernel
theorem line_52 : lineCheck 52 = true := by decide +kernel

end Flounder.MagicProof.Check
