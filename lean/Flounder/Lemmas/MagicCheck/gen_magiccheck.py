#!/usr/bin/env python3
"""Regenerates Flounder/Lemmas/MagicCheck/*.lean (C10 finite kernel checks). Usage: gen_magiccheck.py <lean-root>"""
import sys
root = sys.argv[1] if len(sys.argv) > 1 else '.'
base = f'{root}/Flounder/Lemmas/MagicCheck'
def hdr(what, imp):
    spec = '' if imp.endswith('MagicDefs') else ' Flounder.Spec'
    return (f'/- GENERATED (C10): kernel-evaluated finite checks, {what}. -/\nimport {imp}\n'
            f'namespace Flounder.MagicProof.Check\nopen Flounder Flounder.MagicProof{spec}\n'
            'set_option maxRecDepth 100000\n\n')
END = '\nend Flounder.MagicProof.Check\n'
def cost(sq):
    r, f = divmod(sq, 8)
    return [1024, 2048, 4096][(r in (0, 7)) + (f in (0, 7))]
bins = [[] for _ in range(16)]
for s in sorted(range(64), key=lambda s: -cost(s)):
    min(bins, key=lambda b: sum(cost(x) for x in b)).append(s)
mods = []
for k, b in enumerate(bins):
    name = f'R{k:02d}'; mods.append(name)
    open(f'{base}/{name}.lean', 'w').write(hdr(f'magic tables, rook squares {sorted(b)}', 'Flounder.Lemmas.MagicDefs') +
        ''.join(f'theorem rook_{s:02d} : checkSquare false {s} = true := by decide +kernel\n' for s in sorted(b)) + END)
for k in range(4):
    name = f'B{k:02d}'; mods.append(name)
    ss = range(16 * k, 16 * k + 16)
    open(f'{base}/{name}.lean', 'w').write(hdr(f'magic tables, bishop squares {ss[0]}..{ss[-1]}', 'Flounder.Lemmas.MagicDefs') +
        ''.join(f'theorem bishop_{s:02d} : checkSquare true {s} = true := by decide +kernel\n' for s in ss) + END)
def collect(fname, what, mods, fams):
    with open(f'{base}/{fname}.lean', 'w') as fh:
        fh.write(f'/- GENERATED (C10): {what}. -/\n')
        for m in mods: fh.write(f'import Flounder.Lemmas.MagicCheck.{m}\n')
        fh.write('namespace Flounder.MagicProof.Check\nopen Flounder.MagicProof\n\n')
        for nm, stmt in fams:
            fh.write(f'theorem {nm}_all (s : Nat) (h : s < 64) : {stmt} s = true :=\n  match s, h with\n')
            for s in range(64): fh.write(f'  | {s}, _ => {nm}_{s:02d}\n')
            fh.write('  | n + 64, h => absurd h (by omega)\n\n')
        fh.write('end Flounder.MagicProof.Check\n')
collect('All', 'all 128 per-square magic-table checks collected', mods,
        [('rook', 'checkSquare false'), ('bishop', 'checkSquare true')])
open(f'{base}/GeomR.lean', 'w').write(hdr('rook ray geometry, 64 x 64', 'Flounder.Lemmas.MagicGeom') +
    'theorem geom_rook : (List.range 64).all (geomCheckSq false) = true := by decide +kernel\n' + END)
open(f'{base}/GeomB.lean', 'w').write(hdr('bishop ray geometry, 64 x 64', 'Flounder.Lemmas.MagicGeom') +
    'theorem geom_bishop : (List.range 64).all (geomCheckSq true) = true := by decide +kernel\n' + END)
open(f'{base}/Leapers.lean', 'w').write(hdr('knight and king tables (64 x 64 each)', 'Flounder.Lemmas.Leapers') +
    'theorem knight_ok : leaperCheck knightAttacksGen knightStep = true := by decide +kernel\n'
    'theorem king_ok : leaperCheck kingAttacksGen kingStep = true := by decide +kernel\n' + END)
smods = []
for k in range(16):
    name = f'S{k:02d}'; smods.append(name)
    ss = sorted([k, 31 - k, 32 + k, 63 - k])
    open(f'{base}/{name}.lean', 'w').write(hdr(f'between tables, from-squares {ss}', 'Flounder.Lemmas.LookupLines') +
        ''.join(f'theorem seg_{s:02d} : segCheck {s} = true := by decide +kernel\n'
                f'theorem line_{s:02d} : lineCheck {s} = true := by decide +kernel\n' for s in ss) + END)
collect('LinesAll', 'between-table checks collected', smods, [('seg', 'segCheck'), ('line', 'lineCheck')])
