/- GENERATED (C10): kernel-evaluated finite checks, between tables, from-squares [3, 28, 35, 60]. -/
import Flounder.Lemmas.LookupLines
namespace Flounder.MagicProof.Check
open Flounder Flounder.MagicProof Flounder.Spec
set_option maxRecDepth 100000

theorem seg_03 : segCheck 3 = true := by decide +kernel
theorem line_03 : lineCheck 3 = true := by decide +kernel
theorem seg_28 : segCheck 28 = true := by decide +kernel
theorem line_28 : lineCheck 28 = true := by decide +kernel
theorem seg_35 : segCheck 35 = true := by decide +kernel
theorem line_35 : lineCheck 35 = true := by decide +kernel
theorem seg_60 : segCheck 60 = true := by decide +kernel
theorem line_60 : lineCheck 60 = true := by decide +kernel

end Flounder.MagicProof.Check
