/- GENERATED (C10): kernel-evaluated finite checks, between tables, from-squares [7, 24, 39, 56]. -/
import Flounder.Lemmas.LookupLines
namespace Flounder.MagicProof.Check
open Flounder Flounder.MagicProof Flounder.Spec
set_option maxRecDepth 100000

theorem seg_07 : segCheck 7 = true := by decide +kernel
theorem line_07 : lineCheck 7 = true := by decide +kernel
theorem seg_24 : segCheck 24 = true := by decide +kernel
theorem line_24 : lineCheck 24 = true := by decide +kernel
theorem seg_39 : segCheck 39 = true := by decide +kernel
theorem line_39 : lineCheck 39 = true := by decide +kernel
theorem seg_56 : segCheck 56 = true := by decide +kernel
theorem line_56 : lineCheck 56 = true := by decide +kernel

end Flounder.MagicProof.Check
