/- GENERATED (C10): kernel-evaluated finite checks, magic tables, bishop squares 0..15. -/
import Flounder.Lemmas.MagicDefs
namespace Flounder.MagicProof.Check
open Flounder Flounder.MagicProof
set_option maxRecDepth 100000

theorem bishop_00 : checkSquare true 0 = true := by decide +kernel
theorem bishop_01 : checkSquare true 1 = true := by decide +kernel
theorem bishop_02 : checkSquare true 2 = true := by decide +kernel
theorem bishop_03 : checkSquare true 3 = true := by decide +kernel
theorem bishop_04 : checkSquare true 4 = true := by decide +kernel
theorem bishop_05 : checkSquare true 5 = true := by decide +kernel
theorem bishop_06 : checkSquare true 6 = true := by decide +kernel
theorem bishop_07 : checkSquare true 7 = true := by decide +kernel
theorem bishop_08 : checkSquare true 8 = true := by decide +kernel
theorem bishop_09 : checkSquare true 9 = true := by decide +kernel
theorem bishop_10 : checkSquare true 10 = true := by decide +kernel
theorem bishop_11 : checkSquare true 11 = true := by decide +kernel
theorem bishop_12 : checkSquare true 12 = true := by decide +kernel
theorem bishop_13 : checkSquare true 13 = true := by decide +kernel
theorem bishop_14 : checkSquare true 14 = true := by decide +kernel
theorem bishop_15 : checkSquare true 15 = true := by decide +kernel

end Flounder.MagicProof.Check
