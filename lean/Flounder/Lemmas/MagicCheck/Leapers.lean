/- GENERATED (C10): kernel-evaluated finite checks, knight and king tables (64 x 64 each). -/
import Flounder.Lemmas.Leapers
namespace Flounder.MagicProof.Check
open Flounder Flounder.MagicProof Flounder.Spec
set_option maxRecDepth 100000

theorem knight_ok : leaperCheck knightAttacksGen knightStep = true := by decide +kernel
theorem king_ok : leaperCheck kingAttacksGen kingStep = true := by decide +kernel

end Flounder.MagicProof.Check
