/- GENERATED (C10): kernel-evaluated finite checks, magic tables, rook squares [1, 13, 32, 35]. -/
import Flounder.Lemmas.MagicDefs
namespace Flounder.MagicProof.Check
open Flounder Flounder.MagicProof
set_option maxRecDepth 100000

theorem rook_01 : checkSquare false 1 = true := by decide +kernel
theorem rook_13 : checkSquare false 13 = true := by decide +kernel
theorem rook_32 : checkSquare false 32 = true := by decide +kernel
theorem rook_35 : checkSquare false 35 = true := by decide +kernel

end Flounder.MagicProof.Check
