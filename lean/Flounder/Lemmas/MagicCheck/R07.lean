/- GENERATED (C10): kernel-evaluated finite checks, magic tables, rook squares [4, 18, 38, 47]. -/
import Flounder.Lemmas.MagicDefs
namespace Flounder.MagicProof.Check
open Flounder Flounder.MagicProof
set_option maxRecDepth 100000

theorem rook_04 : checkSquare false 4 = true := by decide +kernel
theorem rook_18 : checkSquare false 18 = true := by decide +kernel
theorem rook_38 : checkSquare false 38 = true := by decide +kernel
theorem rook_47 : checkSquare false 47 = true := by decide +kernel

end Flounder.MagicProof.Check
