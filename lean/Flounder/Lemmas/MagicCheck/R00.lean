/- GENERATED (C10): kernel-evaluated finite checks, magic tables, rook squares [0, 9, 29, 51]. -/
import Flounder.Lemmas.MagicDefs
namespace Flounder.MagicProof.Check
open Flounder Flounder.MagicProof
set_option maxRecDepth 100000

theorem rook_00 : checkSquare false 0 = true := by decide +kernel
theorem rook_09 : checkSquare false 9 = true := by decide +kernel
theorem rook_29 : checkSquare false 29 = true := by decide +kernel
theorem rook_51 : checkSquare false 51 = true := by decide +kernel

end Flounder.MagicProof.Check
