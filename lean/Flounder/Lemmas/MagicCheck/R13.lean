/- GENERATED (C10): kernel-evaluated finite checks, magic tables, rook squares [23, 26, 46, 60]. -/
import Flounder.Lemmas.MagicDefs
namespace Flounder.MagicProof.Check
open Flounder Flounder.MagicProof
set_option maxRecDepth 100000

theorem rook_23 : checkSquare false 23 = true := by decide +kernel
theorem rook_26 : checkSquare false 26 = true := by decide +kernel
theorem rook_46 : checkSquare false 46 = true := by decide +kernel
theorem rook_60 : checkSquare false 60 = true := by decide +kernel

end Flounder.MagicProof.Check
