/- GENERATED (C10): kernel-evaluated finite checks, magic tables, rook squares [16, 25, 45, 59]. -/
import Flounder.Lemmas.MagicDefs
namespace Flounder.MagicProof.Check
open Flounder Flounder.MagicProof
set_option maxRecDepth 100000

theorem rook_16 : checkSquare false 16 = true := by decide +kernel
theorem rook_25 : checkSquare false 25 = true := by decide +kernel
theorem rook_45 : checkSquare false 45 = true := by decide +kernel
theorem rook_59 : checkSquare false 59 = true := by decide +kernel

end Flounder.MagicProof.Check
