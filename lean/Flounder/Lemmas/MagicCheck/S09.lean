/- GENERATED (C10): kernel-evaluated finite checks, between tables, from-squares [9, 22, 41, 54]. -/
import Flounder.Lemmas.LookupLines
namespace Flounder.MagicProof.Check
open Flounder Flounder.MagicProof Flounder.Spec
set_option maxRecDepth 100000

theorem seg_09 : segCheck 9 = true := by decide +kernel
theorem line_09 : lineCheck 9 = true := by decide +kernel
theorem seg_22 : segCheck 22 = true := by decide +kernel
theorem line_22 : lineCheck 22 = true := by decide +kernel
theorem seg_41 : segCheck 41 = true := by decide +kernel
theorem line_41 : lineCheck 41 = true := by decide +kernel
theorem seg_54 : segCheck 54 = true := by decide +kernel
theorem line_54 : lineCheck 54 = true := by decide +kernel

end Flounder.MagicProof.Check
