/- GENERATED (C10): kernel-evaluated finite checks, magic tables, bishop squares 32..47. -/
import Flounder.Lemmas.MagicDefs
namespace Flounder.MagicProof.Check
open Flounder Flounder.MagicProof
set_option maxRecDepth 100000

theorem bishop_32 : checkSquare true 32 = true := by decide +kernel
theorem bishop_33 : checkSquare true 33 = true := by decide +kernel
theorem bishop_34 : checkSquare true 34 = true := by decide +kernel
theorem bishop_35 : checkSquare true 35 = true := by decide +kernel
theorem bishop_36 : checkSquare true 36 = true := by decide +kernel
theorem bishop_37 : checkSquare true 37 = true := by decide +kernel
theorem bishop_38 : checkSquare true 38 = true := by decide +kernel
theorem bishop_39 : checkSquare true 39 = true := by decide +kernel
theorem bishop_40 : checkSquare true 40 = true := by decide +kernel
theorem bishop_41 : checkSquare true 41 = true := by decide +kernel
theorem bishop_42 : checkSquare true 42 = true := by decide +kernel
theorem bishop_43 : checkSquare true 43 = true := by decide +kernel
theorem bishop_44 : checkSquare true 44 = true := by decide +kernel
theorem bishop_45 : checkSquare true 45 = true := by decide +kernel
theorem bishop_46 : checkSquare true 46 = true := by decide +kernel
theorem bishop_47 : checkSquare true 47 = true := by decide +kernel

end Flounder.MagicProof.Check
