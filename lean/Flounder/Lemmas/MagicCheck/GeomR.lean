/- GENERATED (C10): kernel-evaluated finite checks, rook ray geometry, 64 x 64. -/
import Flounder.Lemmas.MagicGeom
namespace Flounder.MagicProof.Check
open Flounder Flounder.MagicProof Flounder.Spec
set_option maxRecDepth 100000

theorem geom_rook : (List.range 64).all (geomCheckSq false) = true := by decide +kernel

end Flounder.MagicProof.Check
