/- GENERATED (C10): kernel-evaluated finite checks, between tables, from-squares [10, 21, 42, 53]. -/
import Flounder.Lemmas.LookupLines
namespace Flounder.MagicProof.Check
open Flounder Flounder.MagicProof Flounder.Spec
set_option maxRecDepth 100000

theorem seg_10 : segCheck 10 = true := by decide +kernel
theorem line_10 : lineCheck 10 = true := by decide +kernel
theorem seg_21 : segCheck 21 = true := by decide +kernel
theorem line_21 : lineCheck 21 = true := by decide +kernel
theorem seg_42 : segCheck 42 = true := by decide +kernel
theorem line_42 : lineCheck 42 = true := by decide +kernel
theorem seg_53 : segCheck 53 = true := by decide +kernel
theorem line_53 : lineCheck 53 = true := by decide +kernel

end Flounder.MagicProof.Check
