/- GENERATED (C10): kernel-evaluated finite checks, magic tables, rook squares [24, 27, 49, 61]. -/
import Flounder.Lemmas.MagicDefs
namespace Flounder.MagicProof.Check
open Flounder Flounder.MagicProof
set_option maxRecDepth 100000

theorem rook_24 : checkSquare false 24 = true := by decide +kernel
theorem rook_27 : checkSquare false 27 = true := by decide +kernel
theorem rook_49 : checkSquare false 49 = true := by decide +kernel
theorem rook_61 : checkSquare false 61 = true := by decide +kernel

end Flounder.MagicProof.Check
