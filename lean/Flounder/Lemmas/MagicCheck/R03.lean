/- GENERATED (C10): kernel-evaluated finite checks, magic tables, rook squares [12, 34, 54, 63]. -/
import Flounder.Lemmas.MagicDefs
namespace Flounder.MagicProof.Check
open Flounder Flounder.MagicProof
set_option maxRecDepth 100000

theorem rook_12 : checkSquare false 12 = true := by decide +kernel
theorem rook_34 : checkSquare false 34 = true := by decide +kernel
theorem rook_54 : checkSquare false 54 = true := by decide +kernel
theorem rook_63 : checkSquare false 63 = true := by decide +kernel

end Flounder.MagicProof.Check
