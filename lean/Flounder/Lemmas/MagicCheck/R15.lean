/- GENERATED (C10): kernel-evaluated finite checks, magic tables, rook squares [28, 31, 50, 62]. -/
import Flounder.Lemmas.MagicDefs
namespace Flounder.MagicProof.Check
open Flounder Flounder.MagicProof
set_option maxRecDepth 100000

theorem rook_28 : checkSquare false 28 = true := by decide +kernel
theorem rook_31 : checkSquare false 31 = true := by decide +kernel
theorem rook_50 : checkSquare false 50 = true := by decide +kernel
theorem rook_62 : checkSquare false 62 = true := by decide +kernel

end Flounder.MagicProof.Check
