/- GENERATED (C10): kernel-evaluated finite checks, magic tables, rook squares [2, 14, 36, 39]. -/
import Flounder.Lemmas.MagicDefs
namespace Flounder.MagicProof.Check
open Flounder Flounder.MagicProof
set_option maxRecDepth 100000

theorem rook_02 : checkSquare false 2 = true := by decide +kernel
theorem rook_14 : checkSquare false 14 = true := by decide +kernel
theorem rook_36 : checkSquare false 36 = true := by decide +kernel
theorem rook_39 : checkSquare false 39 = true := by decide +kernel

end Flounder.MagicProof.Check
