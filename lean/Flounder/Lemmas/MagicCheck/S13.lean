/- GENERATED (C10): kernel-evaluated finite checks, between tables, from-squares [13, 18, 45, 50]. -/
import Flounder.Lemmas.LookupLines
namespace Flounder.MagicProof.Check
open Flounder Flounder.MagicProof Flounder.Spec
set_option maxRecDepth 100000

theorem seg_13 : segCheck 13 = true := by decide +kernel
theorem line_13 : lineCheck 13 = true := by decide +kernel
theorem seg_18 : segCheck 18 = true := by decide +kernel
theorem line_18 : lineCheck 18 = true := by decide +kernel
theorem seg_45 : segCheck 45 = true := by decide +kernel
theorem line_45 : lineCheck 45 = true := by decide +kernel
theorem seg_50 : segCheck 50 = true := by decide +kernel
theorem line_50 : lineCheck 50 = true := by decide +kernel

end Flounder.MagicProof.Check
