/- GENERATED (C10): kernel-evaluated finite checks, magic tables, rook squares [5, 19, 41, 48]. -/
import Flounder.Lemmas.MagicDefs
namespace Flounder.MagicProof.Check
open Flounder Flounder.MagicProof
set_option maxRecDepth 100000

theorem rook_05 : checkSquare false 5 = true := by decide +kernel
theorem rook_19 : checkSquare false 19 = true := by decide +kernel
theorem rook_41 : checkSquare false 41 = true := by decide +kernel
theorem rook_48 : checkSquare false 48 = true := by decide +kernel

end Flounder.MagicProof.Check
