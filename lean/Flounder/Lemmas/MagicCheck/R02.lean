/- GENERATED (C10): kernel-evaluated finite checks, magic tables, rook squares [11, 33, 53, 56]. -/
import Flounder.Lemmas.MagicDefs
namespace Flounder.MagicProof.Check
open Flounder Flounder.MagicProof
set_option maxRecDepth 100000

theorem rook_11 : checkSquare false 11 = true := by decide +kernel
theorem rook_33 : checkSquare false 33 = true := by decide +kernel
theorem rook_53 : checkSquare false 53 = true := by decide +kernel
theorem rook_56 : checkSquare false 56 = true := by decide +kernel

end Flounder.MagicProof.Check
