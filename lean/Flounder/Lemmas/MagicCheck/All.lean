/- GENERATED (C10): all 128 per-square magic-table checks collected. -/
import Flounder.Lemmas.MagicCheck.R00
import Flounder.Lemmas.MagicCheck.R01
import Flounder.Lemmas.MagicCheck.R02
import Flounder.Lemmas.MagicCheck.R03
import Flounder.Lemmas.MagicCheck.R04
import Flounder.Lemmas.MagicCheck.R05
import Flounder.Lemmas.MagicCheck.R06
import Flounder.Lemmas.MagicCheck.R07
import Flounder.Lemmas.MagicCheck.R08
import Flounder.Lemmas.MagicCheck.R09
import Flounder.Lemmas.MagicCheck.R10
import Flounder.Lemmas.MagicCheck.R11
import Flounder.Lemmas.MagicCheck.R12
import Flounder.Lemmas.MagicCheck.R13
import Flounder.Lemmas.MagicCheck.R14
import Flounder.Lemmas.MagicCheck.R15
import Flounder.Lemmas.MagicCheck.B00
import Flounder.Lemmas.MagicCheck.B01
import Flounder.Lemmas.MagicCheck.B02
import Flounder.Lemmas.MagicCheck.B03
namespace Flounder.MagicProof.Check
open Flounder.MagicProof

theorem rook_all (s : Nat) (h : s < 64) : checkSquare false s = true :=
  match s, h with
  | 0, _ => rook_00
  | 1, _ => rook_01
  | 2, _ => rook_02
  | 3, _ => rook_03
  | 4, _ => rook_04
  | 5, _ => rook_05
  | 6, _ => rook_06
  | 7, _ => rook_07
  | 8, _ => rook_08
  | 9, _ => rook_09
  | 10, _ => rook_10
  | 11, _ => rook_11
  | 12, _ => rook_12
  | 13, _ => rook_13
  | 14, _ => rook_14
  | 15, _ => rook_15
  | 16, _ => rook_16
  | 17, _ => rook_17
  | 18, _ => rook_18
  | 19, _ => rook_19
  | 20, _ => rook_20
  | 21, _ => rook_21
  | 22, _ => rook_22
  | 23, _ => rook_23
  | 24, _ => rook_24
  | 25, _ => rook_25
  | 26, _ => rook_26
  | 27, _ => rook_27
  | 28, _ => rook_28
  | 29, _ => rook_29
  | 30, _ => rook_30
  | 31, _ => rook_31
  | 32, _ => rook_32
  | 33, _ => rook_33
  | 34, _ => rook_34
  | 35, _ => rook_35
  | 36, _ => rook_36
  | 37, _ => rook_37
  | 38, _ => rook_38
  | 39, _ => rook_39
  | 40, _ => rook_40
  | 41, _ => rook_41
  | 42, _ => rook_42
  | 43, _ => rook_43
  | 44, _ => rook_44
  | 45, _ => rook_45
  | 46, _ => rook_46
  | 47, _ => rook_47
  | 48, _ => rook_48
  | 49, _ => rook_49
  | 50, _ => rook_50
  | 51, _ => rook_51
  | 52, _ => rook_52
  | 53, _ => rook_53
  | 54, _ => rook_54
  | 55, _ => rook_55
  | 56, _ => rook_56
  | 57, _ => rook_57
  | 58, _ => rook_58
  | 59, _ => rook_59
  | 60, _ => rook_60
  | 61, _ => rook_61
  | 62, _ => rook_62
  | 63, _ => rook_63
  | n + 64, h => absurd h (by omega)

theorem bishop_all (s : Nat) (h : s < 64) : checkSquare true s = true :=
  match s, h with
  | 0, _ => bishop_00
  | 1, _ => bishop_01
  | 2, _ => bishop_02
  | 3, _ => bishop_03
  | 4, _ => bishop_04
  | 5, _ => bishop_05
  | 6, _ => bishop_06
  | 7, _ => bishop_07
  | 8, _ => bishop_08
  | 9, _ => bishop_09
  | 10, _ => bishop_10
  | 11, _ => bishop_11
  | 12, _ => bishop_12
  | 13, _ => bishop_13
  | 14, _ => bishop_14
  | 15, _ => bishop_15
  | 16, _ => bishop_16
  | 17, _ => bishop_17
  | 18, _ => bishop_18
  | 19, _ => bishop_19
  | 20, _ => bishop_20
  | 21, _ => bishop_21
  | 22, _ => bishop_22
  | 23, _ => bishop_23
  | 24, _ => bishop_24
  | 25, _ => bishop_25
  | 26, _ => bishop_26
  | 27, _ => bishop_27
  | 28, _ => bishop_28
  | 29, _ => bishop_29
  | 30, _ => bishop_30
  | 31, _ => bishop_31
  | 32, _ => bishop_32
  | 33, _ => bishop_33
  | 34, _ => bishop_34
  | 35, _ => bishop_35
  | 36, _ => bishop_36
  | 37, _ => bishop_37
  | 38, _ => bishop_38
  | 39, _ => bishop_39
  | 40, _ => bishop_40
  | 41, _ => bishop_41
  | 42, _ => bishop_42
  | 43, _ => bishop_43
  | 44, _ => bishop_44
  | 45, _ => bishop_45
  | 46, _ => bishop_46
  | 47, _ => bishop_47
  | 48, _ => bishop_48
  | 49, _ => bishop_49
  | 50, _ => bishop_50
  | 51, _ => bishop_51
  | 52, _ => bishop_52
  | 53, _ => bishop_53
  | 54, _ => bishop_54
  | 55, _ => bishop_55
  | 56, _ => bishop_56
  | 57, _ => bishop_57
  | 58, _ => bishop_58
  | 59, _ => bishop_59
  | 60, _ => bishop_60
  | 61, _ => bishop_61
  | 62, _ => bishop_62
  | 63, _ => bishop_63
  | n + 64, h => absurd h (by omega)

end Flounder.MagicProof.Check
