/- GENERATED (C10): kernel-evaluated finite checks, between tables, from-squares [8, 23, 40, 55]. -/
import Flounder.Lemmas.LookupLines
namespace Flounder.MagicProof.Check
open Flounder Flounder.MagicProof Flounder.Spec
set_option maxRecDepth 100000

theorem seg_08 : segCheck 8 = true := by decide +kernel
theorem line_08 : lineCheck 8 = true := by decide +kernel
theorem seg_23 : segCheck 23 = true := by decide +kernel
theorem line_23 : lineCheck 23 = true := by decide +kernel
theorem seg_40 : segCheck 40 = true := by decide +kernel
theorem line_40 : lineCheck 40 = true := by decide +kernel
theorem seg_55 : segCheck 55 = true := by decide +kernel
theorem line_55 : lineCheck 55 = true := by decide +kernel

end Flounder.MagicProof.Check
