/- GENERATED (C10): kernel-evaluated finite checks, between tables, from-squares [0, 31, 32, 63]. -/
import Flounder.Lemmas.LookupLines
namespace Flounder.MagicProof.Check
open Flounder Flounder.MagicProof Flounder.Spec
set_option maxRecDepth 100000

theorem seg_00 : segCheck 0 = true := by decide +kernel
theorem line_00 : lineCheck 0 = true := by decide +kernel
theorem seg_31 : segCheck 31 = true := by decide +kernel
theorem line_31 : lineCheck 31 = true := by decide +kernel
theorem seg_32 : segCheck 32 = true := by decide +kernel
theorem line_32 : lineCheck 32 = true := by decide +kernel
theorem seg_63 : segCheck 63 = true := by decide +kernel
theorem line_63 : lineCheck 63 = true := by decide +kernel

end Flounder.MagicProof.Check
