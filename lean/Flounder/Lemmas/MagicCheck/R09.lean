/- GENERATED (C10): kernel-evaluated finite checks, magic tables, rook squares [6, 20, 42, 55]. -/
import Flounder.Lemmas.MagicDefs
namespace Flounder.MagicProof.Check
open Flounder Flounder.MagicProof
set_option maxRecDepth 100000

theorem rook_06 : checkSquare false 6 = true := by decide +kernel
theorem rook_20 : checkSquare false 20 = true := by decide +kernel
theorem rook_42 : checkSquare false 42 = true := by decide +kernel
theorem rook_55 : checkSquare false 55 = true := by decide +kernel

end Flounder.MagicProof.Check
