/- GENERATED (C10): kernel-evaluated finite checks, magic tables, rook squares [3, 17, 37, 40]. -/
import Flounder.Lemmas.MagicDefs
namespace Flounder.MagicProof.Check
open Flounder Flounder.MagicProof
set_option maxRecDepth 100000

theorem rook_03 : checkSquare false 3 = true := by decide +kernel
theorem rook_17 : checkSquare false 17 = true := by decide +kernel
theorem rook_37 : checkSquare false 37 = true := by decide +kernel
theorem rook_40 : checkSquare false 40 = true := by decide +kernel

end Flounder.MagicProof.Check
