/- GENERATED (C10): kernel-evaluated finite checks, between tables, from-squares [5, 26, 37, 58]. -/
import Flounder.Lemmas.LookupLines
namespace Flounder.MagicProof.Check
open Flounder Flounder.MagicProof Flounder.Spec
set_option maxRecDepth 100000

theorem seg_05 : segCheck 5 = true := by decide +kernel
theorem line_05 : lineCheck 5 = true := by decide +kernel
theorem seg_26 : segCheck 26 = true := by decide +kernel
theorem line_26 : lineCheck 26 = true := by decide +kernel
theorem seg_37 : segCheck 37 = true := by decide +kernel
theorem line_37 : lineCheck 37 = true := by decide +kernel
theorem seg_58 : segCheck 58 = true := by decide +kernel
theorem line_58 : lineCheck 58 = true := by decide +kernel

end Flounder.MagicProof.Check
