/- GENERATED (C10): between-table checks collected. -/
import Flounder.Lemmas.MagicCheck.S00
import Flounder.Lemmas.MagicCheck.S01
import Flounder.Lemmas.MagicCheck.S02
import Flounder.Lemmas.MagicCheck.S03
import Flounder.Lemmas.MagicCheck.S04
import Flounder.Lemmas.MagicCheck.S05
import Flounder.Lemmas.MagicCheck.S06
import Flounder.Lemmas.MagicCheck.S07
import Flounder.Lemmas.MagicCheck.S08
import Flounder.Lemmas.MagicCheck.S09
import Flounder.Lemmas.MagicCheck.S10
import Flounder.Lemmas.MagicCheck.S11
import Flounder.Lemmas.MagicCheck.S12
import Flounder.Lemmas.MagicCheck.S13
import Flounder.Lemmas.MagicCheck.S14
import Flounder.Lemmas.MagicCheck.S15
namespace Flounder.MagicProof.Check
open Flounder.MagicProof

theorem seg_all (s : Nat) (h : s < 64) : segCheck s = true :=
  match s, h with
  | 0, _ => seg_00
  | 1, _ => seg_01
  | 2, _ => seg_02
  | 3, _ => seg_03
  | 4, _ => seg_04
  | 5, _ => seg_05
  | 6, _ => seg_06
  | 7, _ => seg_07
  | 8, _ => seg_08
  | 9, _ => seg_09
  | 10, _ => seg_10
  | 11, _ => seg_11
  | 12, _ => seg_12
  | 13, _ => seg_13
  | 14, _ => seg_14
  | 15, _ => seg_15
  | 16, _ => seg_16
  | 17, _ => seg_17
  | 18, _ => seg_18
  | 19, _ => seg_19
  | 20, _ => seg_20
  | 21, _ => seg_21
  | 22, _ => seg_22
  | 23, _ => seg_23
  | 24, _ => seg_24
  | 25, _ => seg_25
  | 26, _ => seg_26
  | 27, _ => seg_27
  | 28, _ => seg_28
  | 29, _ => seg_29
  | 30, _ => seg_30
  | 31, _ => seg_31
  | 32, _ => seg_32
  | 33, _ => seg_33
  | 34, _ => seg_34
  | 35, _ => seg_35
  | 36, _ => seg_36
  | 37, _ => seg_37
  | 38, _ => seg_38
  | 39, _ => seg_39
  | 40, _ => seg_40
  | 41, _ => seg_41
  | 42, _ => seg_42
  | 43, _ => seg_43
  | 44, _ => seg_44
  | 45, _ => seg_45
  | 46, _ => seg_46
  | 47, _ => seg_47
  | 48, _ => seg_48
  | 49, _ => seg_49
  | 50, _ => seg_50
  | 51, _ => seg_51
  | 52, _ => seg_52
  | 53, _ => seg_53
  | 54, _ => seg_54
  | 55, _ => seg_55
  | 56, _ => seg_56
  | 57, _ => seg_57
  | 58, _ => seg_58
  | 59, _ => seg_59
  | 60, _ => seg_60
  | 61, _ => seg_61
  | 62, _ => seg_62
  | 63, _ => seg_63
  | n + 64, h => absurd h (by omega)

theorem line_all (s : Nat) (h : s < 64) : lineCheck s = true :=
  match s, h with
  | 0, _ => line_00
  | 1, _ => line_01
  | 2, _ => line_02
  | 3, _ => line_03
  | 4, _ => line_04
  | 5, _ => line_05
  | 6, _ => line_06
  | 7, _ => line_07
  | 8, _ => line_08
  | 9, _ => line_09
  | 10, _ => line_10
  | 11, _ => line_11
  | 12, _ => line_12
  | 13, _ => line_13
  | 14, _ => line_14
  | 15, _ => line_15
  | 16, _ => line_16
  | 17, _ => line_17
  | 18, _ => line_18
  | 19, _ => line_19
  | 20, _ => line_20
  | 21, _ => line_21
  | 22, _ => line_22
  | 23, _ => line_23
  | 24, _ => line_24
  | 25, _ => line_25
  | 26, _ => line_26
  | 27, _ => line_27
  | 28, _ => line_28
  | 29, _ => line_29
  | 30, _ => line_30
  | 31, _ => line_31
  | 32, _ => line_32
  | 33, _ => line_33
  | 34, _ => line_34
  | 35, _ => line_35
  | 36, _ => line_36
  | 37, _ => line_37
  | 38, _ => line_38
  | 39, _ => line_39
  | 40, _ => line_40
  | 41, _ => line_41
  | 42, _ => line_42
  | 43, _ => line_43
  | 44, _ => line_44
  | 45, _ => line_45
  | 46, _ => line_46
  | 47, _ => line_47
  | 48, _ => line_48
  | 49, _ => line_49
  | 50, _ => line_50
  | 51, _ => line_51
  | 52, _ => line_52
  | 53, _ => line_53
  | 54, _ => line_54
  | 55, _ => line_55
  | 56, _ => line_56
  | 57, _ => line_57
  | 58, _ => line_58
  | 59, _ => line_59
  | 60, _ => line_60
  | 61, _ => line_61
  | 62, _ => line_62
  | 63, _ => line_63
  | n + 64, h => absurd h (by omega)

end Flounder.MagicProof.Check
