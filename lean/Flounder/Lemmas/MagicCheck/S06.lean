/- GENERATED (C10): kernel-evaluated finite checks, between tables, from-squares [6, 25, 38, 57]. -/
import Flounder.Lemmas.LookupLines
namespace Flounder.MagicProof.Check
open Flounder Flounder.MagicProof Flounder.Spec
set_option maxRecDepth 100000

theorem seg_06 : segCheck 6 = true := by decide +kernel
theorem line_06 : lineCheck 6 = true := by decide +kernel
theorem seg_25 : segCheck 25 = true := by decide +kernel
theorem line_25 : lineCheck 25 = true := by decide +kernel
theorem seg_38 : segCheck 38 = true := by decide +kernel
theorem line_38 : lineCheck 38 = true := by decide +kernel
theorem seg_57 : segCheck 57 = true := by decide +kernel
theorem line_57 : lineCheck 57 = true := by decide +kernel

end Flounder.MagicProof.Check
