/- GENERATED (C10): kernel-evaluated finite checks, magic tables, rook squares [15, 22, 44, 58]. -/
import Flounder.Lemmas.MagicDefs
namespace Flounder.MagicProof.Check
open Flounder Flounder.MagicProof
set_option maxRecDepth 100000

theorem rook_15 : checkSquare false 15 = true := by decide +kernel
theorem rook_22 : checkSquare false 22 = true := by decide +kernel
theorem rook_44 : checkSquare false 44 = true := by decide +kernel
theorem rook_58 : checkSquare false 58 = true := by decide +kernel

end Flounder.MagicProof.Check
