/- GENERATED (C10): kernel-evaluated finite checks, between tables, from-squares [4, 27, 36, 59]. -/
import Flounder.Lemmas.LookupLines
namespace Flounder.MagicProof.Check
open Flounder Flounder.MagicProof Flounder.Spec
set_option maxRecDepth 100000

theorem seg_04 : segCheck 4 = true := by decide +kernel
theorem line_04 : lineCheck 4 = true := by decide +kernel
theorem seg_27 : segCheck 27 = true := by decide +kernel
theorem line_27 : lineCheck 27 = true := by decide +kernel
theorem seg_36 : segCheck 36 = true := by decide +kernel
theorem line_36 : lineCheck 36 = true := by decide +kernel
theorem seg_59 : segCheck 59 = true := by decide +kernel
theorem line_59 : lineCheck 59 = true := by decide +kernel

end Flounder.MagicProof.Check
