/- GENERATED (C10): kernel-evaluated finite checks, between tables, from-squares [12, 19, 44, 51]. -/
import Flounder.Lemmas.LookupLines
namespace Flounder.MagicProof.Check
open Flounder Flounder.MagicProof Flounder.Spec
set_option maxRecDepth 100000

theorem seg_12 : segCheck 12 = true := by decide +kernel
theorem line_12 : lineCheck 12 = true := by decide +kernel
theorem seg_19 : segCheck 19 = true := by decide +kernel
theorem line_19 : lineCheck 19 = true := by decide +kernel
theorem seg_44 : segCheck 44 = true := by decide +kernel
theorem line_44 : lineCheck 44 = true := by decide +kernel
theorem seg_51 : segCheck 51 = true := by decide +kernel
theorem line_51 : lineCheck 51 = true := by decide +kernel

end Flounder.MagicProof.Check
