/-
  `BitboardIterator`: the lsb-extraction loop of src/bitboard.rs (`bitIterLoop`) yields exactly
  `squaresOf bb`, the set bits in ascending order.
-/
import Flounder.Model.Bitboard
import Flounder.Lemmas.Bits

namespace Flounder

/-! ### `squaresOf` / `countOnes` -/

theorem mem_squaresOf (bb : UInt64) (s : Nat) : s ∈ squaresOf bb ↔ s < 64 ∧ hasSq bb s = true := by
  simp [squaresOf, List.mem_filter, List.mem_range]

theorem squaresOf_pairwise (bb : UInt64) : (squaresOf bb).Pairwise (· < ·) :=
  List.Pairwise.filter _ List.pairwise_lt_range

theorem squaresOf_nodup (bb : UInt64) : (squaresOf bb).Nodup :=
  (squaresOf_pairwise bb).imp (fun h => Nat.ne_of_lt h)

/-- the iterator yields the set squares, each once, in ascending order. -/
theorem squaresOf_sorted_nodup (bb : UInt64) :
    (squaresOf bb).Pairwise (· < ·) ∧ ∀ s, s ∈ squaresOf bb ↔ s < 64 ∧ hasSq bb s = true :=
  ⟨squaresOf_pairwise bb, mem_squaresOf bb⟩

theorem countOnes_le (bb : UInt64) : countOnes bb ≤ 64 := by
  unfold countOnes squaresOf
  exact Nat.le_trans (List.length_filter_le _ _) (by simp)

theorem squaresOf_zero : squaresOf 0 = [] := by
  unfold squaresOf
  exact List.filter_eq_nil_iff.mpr (fun a _ => by simp)

/-! ### `trailingZeros` -/

theorem exists_hasSq_of_ne_zero (bb : UInt64) (h : bb ≠ 0) : ∃ s, s < 64 ∧ hasSq bb s = true := by
  apply Classical.byContradiction
  intro hn
  apply h
  apply bb_ext
  intro s hs
  rw [hasSq_zero]
  cases hb : hasSq bb s with
  | false => rfl
  | true => exact absurd ⟨s, hs, hb⟩ hn

/-- `trailing_zeros` of a non-zero word is the index of its lowest set bit. -/
theorem trailingZeros_spec (bb : UInt64) (h : bb ≠ 0) :
    trailingZeros bb < 64 ∧ hasSq bb (trailingZeros bb) = true ∧
      ∀ j, j < trailingZeros bb → hasSq bb j = false := by
  unfold trailingZeros
  cases hf : (List.range 64).find? (hasSq bb) with
  | none =>
    obtain ⟨s, hs, hb⟩ := exists_hasSq_of_ne_zero bb h
    exact absurd hb (List.find?_eq_none.mp hf s (List.mem_range.mpr hs))
  | some t =>
    obtain ⟨h1, h2, h3⟩ := List.find?_range_eq_some.mp hf
    refine ⟨List.mem_range.mp h2, h1, ?_⟩
    intro j hj
    have := h3 j hj
    simpa using this

theorem trailingZeros_unique (bb : UInt64) (t : Nat) (ht : t < 64) (hb : hasSq bb t = true)
    (hmin : ∀ j, j < t → hasSq bb j = false) : trailingZeros bb = t := by
  unfold trailingZeros
  have : (List.range 64).find? (hasSq bb) = some t :=
    List.find?_range_eq_some.mpr ⟨hb, List.mem_range.mpr ht, fun j hj => by simp [hmin j hj]⟩
  rw [this]; rfl

theorem trailingZeros_zero : trailingZeros 0 = 64 := by
  unfold trailingZeros
  have : (List.range 64).find? (hasSq 0) = none := List.find?_eq_none.mpr (fun x _ => by simp)
  rw [this]; rfl

theorem trailingZeros_sqBB (t : Nat) (ht : t < 64) : trailingZeros (sqBB t) = t := by
  apply trailingZeros_unique _ _ ht
  · rw [hasSq_sqBB t t ht ht]; simp
  · intro j hj
    rw [hasSq_sqBB t j ht (by omega)]
    simp; omega

/-! ### the two's-complement lowest-set-bit trick -/

/-- bit `s` of `!bb + 1` (= `-bb`): bit `s` of `bb`, flipped iff some lower bit of `bb` is set. -/
theorem hasSq_not_add_one (bb : UInt64) (s : Nat) (hs : s < 64) :
    hasSq (~~~bb + 1) s = (hasSq bb s ^^ decide (∃ j, j < s ∧ hasSq bb j = true)) := by
  have h1 : (~~~bb + 1).toBitVec = - bb.toBitVec := by
    rw [BitVec.neg_eq_not_add, UInt64.toBitVec_add, UInt64.toBitVec_not]; rfl
  rw [hasSq_iff _ _ hs, h1, BitVec.getLsbD_neg, hasSq_iff _ _ hs]
  have h2 : (∃ j, j < s ∧ bb.toBitVec.getLsbD j = true) ↔ (∃ j, j < s ∧ hasSq bb j = true) := by
    constructor
    · rintro ⟨j, hj, hb⟩; exact ⟨j, hj, by rw [hasSq_iff _ _ (by omega)]; exact hb⟩
    · rintro ⟨j, hj, hb⟩; exact ⟨j, hj, by rw [← hasSq_iff _ _ (by omega)]; exact hb⟩
  simp only [hs, decide_true, Bool.true_and, h2]

/-- **`bb & (!bb + 1)` isolates the lowest set bit.** -/
theorem lsb_eq (bb : UInt64) (h : bb ≠ 0) : bb &&& (~~~bb + 1) = sqBB (trailingZeros bb) := by
  obtain ⟨ht, hb, hmin⟩ := trailingZeros_spec bb h
  apply bb_ext
  intro s hs
  rw [hasSq_and _ _ _ hs, hasSq_not_add_one _ _ hs, hasSq_sqBB _ _ ht hs]
  rcases Nat.lt_trichotomy s (trailingZeros bb) with hlt | heq | hgt
  · rw [hmin s hlt]
    have : trailingZeros bb ≠ s := by omega
    simp [this]
  · subst heq
    have : ¬ ∃ j, j < trailingZeros bb ∧ hasSq bb j = true := by
      rintro ⟨j, hj, hbj⟩
      rw [hmin j hj] at hbj; cases hbj
    simp [hb, this]
  · have h1 : ∃ j, j < s ∧ hasSq bb j = true := ⟨_, hgt, hb⟩
    have h2 : trailingZeros bb ≠ s := by omega
    simp [h1, h2]

/-- `trailing_zeros` of the isolated bit is `trailing_zeros` of the word. -/
theorem trailingZeros_lsb (bb : UInt64) (h : bb ≠ 0) :
    trailingZeros (bb &&& (~~~bb + 1)) = trailingZeros bb := by
  rw [lsb_eq bb h, trailingZeros_sqBB _ (trailingZeros_spec bb h).1]

/-- **`bb ^ lsb` clears exactly the lowest set bit.** -/
theorem hasSq_xor_lsb (bb : UInt64) (h : bb ≠ 0) (s : Nat) (hs : s < 64) :
    hasSq (bb ^^^ (bb &&& (~~~bb + 1))) s = (hasSq bb s && decide (s ≠ trailingZeros bb)) := by
  obtain ⟨ht, hb, _⟩ := trailingZeros_spec bb h
  rw [lsb_eq bb h, hasSq_xor _ _ _ hs, hasSq_sqBB _ _ ht hs]
  by_cases he : trailingZeros bb = s
  · subst he; simp [hb]
  · have : s ≠ trailingZeros bb := fun e => he e.symm
    simp [he, this]

theorem xor_lsb_eq_removeBit (bb : UInt64) (h : bb ≠ 0) :
    bb ^^^ (bb &&& (~~~bb + 1)) = removeBit bb (trailingZeros bb) := by
  apply bb_ext
  intro s hs
  rw [hasSq_xor_lsb bb h s hs, hasSq_removeBit _ _ _ (trailingZeros_spec bb h).1 hs]
  by_cases he : trailingZeros bb = s
  · subst he; simp
  · have : s ≠ trailingZeros bb := fun e => he e.symm
    simp [he, this]

/-! ### the loop -/

/-- filtering `range n` by `p` whose first hit is `t`: head `t`, then the filter by `p` minus `t`. -/
theorem filter_range_first (p q : Nat → Bool) (n t : Nat) (ht : t < n) (hp : p t = true)
    (hmin : ∀ j, j < t → p j = false) (hq : ∀ j, j < n → q j = (p j && decide (j ≠ t))) :
    (List.range n).filter p = t :: (List.range n).filter q := by
  have hsplit : List.range n = List.range' 0 t ++ t :: List.range' (t + 1) (n - t - 1) := by
    have h1 : List.range' 0 t ++ List.range' (0 + 1 * t) (n - t) = List.range' 0 (t + (n - t)) :=
      List.range'_append
    have h2 : List.range' (0 + 1 * t) (n - t) = t :: List.range' (t + 1) (n - t - 1) := by
      have : n - t = (n - t - 1) + 1 := by omega
      rw [this, List.range'_succ]
      simp
    rw [List.range_eq_range', ← h2, h1]
    congr 1; omega
  have hp0 : (List.range' 0 t).filter p = [] :=
    List.filter_eq_nil_iff.mpr (fun a ha => by
      have := (List.mem_range'_1.mp ha).2
      simp [hmin a (by omega)])
  have hq0 : (List.range' 0 t).filter q = [] :=
    List.filter_eq_nil_iff.mpr (fun a ha => by
      have := (List.mem_range'_1.mp ha).2
      rw [hq a (by omega), hmin a (by omega)]; simp)
  have hqt : q t = false := by rw [hq t ht]; simp
  have hrest : (List.range' (t + 1) (n - t - 1)).filter p = (List.range' (t + 1) (n - t - 1)).filter q := by
    apply List.filter_congr
    intro x hx
    have := List.mem_range'_1.mp hx
    have hne : x ≠ t := by omega
    rw [hq x (by omega)]; simp [hne]
  rw [hsplit, List.filter_append, List.filter_append, hp0, hq0, List.filter_cons, List.filter_cons, hp, hqt, hrest]
  simp

/-- one iterator step on the specification side. -/
theorem squaresOf_step (bb : UInt64) (h : bb ≠ 0) :
    squaresOf bb = trailingZeros bb :: squaresOf (bb ^^^ (bb &&& (~~~bb + 1))) := by
  obtain ⟨ht, hb, hmin⟩ := trailingZeros_spec bb h
  unfold squaresOf
  exact filter_range_first _ _ 64 _ ht hb hmin (fun j hj => hasSq_xor_lsb bb h j hj)

theorem bitIterLoop_eq (fuel : Nat) (bb : UInt64) (hf : countOnes bb ≤ fuel) :
    bitIterLoop fuel bb = squaresOf bb := by
  induction fuel generalizing bb with
  | zero =>
    have : squaresOf bb = [] := List.eq_nil_of_length_eq_zero (by unfold countOnes at hf; omega)
    rw [this]; rfl
  | succ f ih =>
    unfold bitIterLoop
    by_cases hz : bb = 0
    · subst hz; rw [squaresOf_zero]; rfl
    · have hbeq : (bb == 0) = false := by simpa using hz
      simp only [hbeq, Bool.false_eq_true, if_false]
      have hstep := squaresOf_step bb hz
      rw [trailingZeros_lsb bb hz, hstep]
      congr 1
      apply ih
      unfold countOnes at hf ⊢
      rw [hstep] at hf
      simp only [List.length_cons] at hf
      omega

/-- **the Rust iterator loop (64 rounds of fuel suffice) yields `squaresOf bb`.** -/
theorem bitIterLoop_eq_squaresOf (bb : UInt64) : bitIterLoop 64 bb = squaresOf bb :=
  bitIterLoop_eq 64 bb (countOnes_le bb)

/-- more fuel changes nothing. -/
theorem bitIterLoop_fuel (fuel : Nat) (bb : UInt64) (hf : 64 ≤ fuel) : bitIterLoop fuel bb = squaresOf bb :=
  bitIterLoop_eq fuel bb (Nat.le_trans (countOnes_le bb) hf)

end Flounder

namespace Flounder
/-! sanity: the loop on concrete words (kernel evaluation of the faithful loop model). -/
example : bitIterLoop 64 0x8000000000000101 = [0, 8, 63] := by decide +kernel
example : bitIterLoop 64 0 = [] := by decide +kernel
example : trailingZeros (0x50 &&& (~~~0x50 + 1)) = 4 := by decide +kernel
end Flounder
