/- Bit-level semantics of bitboards: membership  and how it commutes with the operations the engine uses (layer L1 of DESIGN.md C01). -/
import Flounder.Model.Basic
namespace Flounder

theorem sqBB_toBitVec (s : Nat) (h : s < 64) : (sqBB s).toBitVec = BitVec.twoPow 64 s := by
  unfold sqBB
  apply BitVec.eq_of_getLsbD_eq
  intro i hi
  simp [UInt64.toBitVec_shiftLeft, BitVec.getLsbD_twoPow]
  have : s % 64 = s := Nat.mod_eq_of_lt h
  rw [this]
  by_cases h1 : i < s <;> by_cases h2 : s = i <;> simp [h1, h2, hi, h] <;> omega

theorem hasSq_iff (bb : UInt64) (s : Nat) (h : s < 64) : hasSq bb s = bb.toBitVec.getLsbD s := by
  unfold hasSq
  have h1 : (bb &&& sqBB s != 0) = ((bb &&& sqBB s).toBitVec != 0#64) := by
    have : ∀ (x : UInt64), (x == 0) = (x.toBitVec == 0#64) := by
      intro x
      by_cases hx : x = 0
      · subst hx; rfl
      · have : x.toBitVec ≠ 0#64 := fun h' => hx (UInt64.eq_of_toBitVec_eq h')
        have h1 : (x == 0) = false := by simpa using hx
        have h2 : (x.toBitVec == 0#64) = false := by simpa using this
        rw [h1, h2]
    simp only [bne, this]
  rw [h1, UInt64.toBitVec_and, sqBB_toBitVec s h, BitVec.and_twoPow]
  cases hb : bb.toBitVec.getLsbD s <;> simp
  intro h0
  have := congrArg (fun v => v.getLsbD s) h0
  simp [BitVec.getLsbD_twoPow, h] at this

theorem bb_ext (a b : UInt64) (h : ∀ s, s < 64 → hasSq a s = hasSq b s) : a = b := by
  apply UInt64.eq_of_toBitVec_eq
  apply BitVec.eq_of_getLsbD_eq
  intro i hi
  rw [← hasSq_iff a i hi, ← hasSq_iff b i hi]; exact h i hi

@[simp] theorem hasSq_and (a b : UInt64) (s : Nat) (h : s < 64) : hasSq (a &&& b) s = (hasSq a s && hasSq b s) := by
  simp [hasSq_iff, h]
@[simp] theorem hasSq_or (a b : UInt64) (s : Nat) (h : s < 64) : hasSq (a ||| b) s = (hasSq a s || hasSq b s) := by
  simp [hasSq_iff, h]
@[simp] theorem hasSq_xor (a b : UInt64) (s : Nat) (h : s < 64) : hasSq (a ^^^ b) s = (hasSq a s ^^ hasSq b s) := by
  simp [hasSq_iff, h]
@[simp] theorem hasSq_not (a : UInt64) (s : Nat) (h : s < 64) : hasSq (~~~a) s = !hasSq a s := by
  simp [hasSq_iff, h]
@[simp] theorem hasSq_zero (s : Nat) : hasSq 0 s = false := by
  simp [hasSq]
theorem hasSq_sqBB (s t : Nat) (hs : s < 64) (ht : t < 64) : hasSq (sqBB s) t = decide (s = t) := by
  rw [hasSq_iff _ _ ht, sqBB_toBitVec s hs, BitVec.getLsbD_twoPow]; simp [hs]
theorem hasSq_setBit (a : UInt64) (s t : Nat) (hs : s < 64) (ht : t < 64) :
    hasSq (setBit a s) t = (hasSq a t || decide (s = t)) := by
  simp [setBit, ht, hasSq_sqBB s t hs ht]
theorem hasSq_removeBit (a : UInt64) (s t : Nat) (hs : s < 64) (ht : t < 64) :
    hasSq (removeBit a s) t = (hasSq a t && !decide (s = t)) := by
  simp [removeBit, ht, hasSq_sqBB s t hs ht]
end Flounder
