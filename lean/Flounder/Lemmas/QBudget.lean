/-
  The budgeted evaluators `Spec.Qb` / `Spec.Vb` (Spec/Budget.lean) are sound for the reference values
  `Spec.Q` / `Spec.V`: whenever they return a value, it is the reference value (`Qb_sound`, `Vb_sound`);
  they never hand back more budget than they were given (`Qb_budget_le`, `Vb_budget_le`).
-/
import Flounder.Spec.Budget
import Flounder.Lemmas.SearchSpec

namespace Flounder.Spec
open Flounder Gen Flounder.Search

/-! ### the budgeted fold steps -/

/-- the step of the budgeted fold of `Vb`. -/
def bStep (g : Move → Nat → Option Int × Nat) (acc : Option Int × Nat) (m : Move) : Option Int × Nat :=
  match acc with
  | (none, b) => (none, b)
  | (some a, b) =>
    match g m b with
    | (some v, b') => (some (max a (-v)), b')
    | (none, b') => (none, b')

/-- the step of the budgeted fold of `Qb`. -/
def bRelStep (g : Move → Nat → Option Int × Nat) (rel : Move → Bool) (z : Bool)
    (acc : Option Int × Nat) (m : Move) : Option Int × Nat :=
  match acc with
  | (none, b) => (none, b)
  | (some a, b) =>
    if rel m then
      match g m b with
      | (some v, b') => (some (max a (-v)), b')
      | (none, b') => (none, b')
    else if z then (none, b) else (some a, b)

theorem bFold_none (g : Move → Nat → Option Int × Nat) (ms : List Move) (b : Nat) :
    (ms.foldl (bStep g) (none, b)).1 = none := by
  induction ms with
  | nil => rfl
  | cons m ms ih => exact ih

theorem bRelFold_none (g : Move → Nat → Option Int × Nat) (rel : Move → Bool) (z : Bool)
    (ms : List Move) (b : Nat) : (ms.foldl (bRelStep g rel z) (none, b)).1 = none := by
  induction ms with
  | nil => rfl
  | cons m ms ih => exact ih

/-- a budgeted fold that ends in a value computes the plain fold. -/
theorem bFold_sound (g : Move → Nat → Option Int × Nat) (g' : Move → Option Int) (ms : List Move)
    (hg : ∀ m ∈ ms, ∀ b v, (g m b).1 = some v → g' m = some v)
    (a : Int) (b : Nat) (r : Int)
    (h : (ms.foldl (bStep g) (some a, b)).1 = some r) :
    ms.foldl (foldStep g') (some a) = some r := by
  induction ms generalizing a b with
  | nil => simpa using h
  | cons m ms ih =>
    rw [List.foldl_cons] at h ⊢
    have hg' : ∀ m' ∈ ms, ∀ b v, (g m' b).1 = some v → g' m' = some v :=
      fun m' hm' => hg m' (List.mem_cons_of_mem _ hm')
    cases hq : g m b with
    | mk o b' =>
      cases o with
      | none =>
        have : bStep g (some a, b) m = (none, b') := by simp [bStep, hq]
        rw [this, bFold_none] at h; cases h
      | some x =>
        have e1 : bStep g (some a, b) m = (some (max a (-x)), b') := by simp [bStep, hq]
        have e2 : foldStep g' (some a) m = some (max a (-x)) := by
          simp [foldStep, hg m List.mem_cons_self b x (by rw [hq])]
        rw [e1] at h; rw [e2]
        exact ih hg' _ _ h

theorem bRelFold_sound (g : Move → Nat → Option Int × Nat) (g' : Move → Option Int)
    (rel : Move → Bool) (z : Bool) (ms : List Move)
    (hg : ∀ m ∈ ms, ∀ b v, (g m b).1 = some v → g' m = some v)
    (a : Int) (b : Nat) (r : Int)
    (h : (ms.foldl (bRelStep g rel z) (some a, b)).1 = some r) :
    ms.foldl (relStep g' rel z) (some a) = some r := by
  induction ms generalizing a b with
  | nil => simpa using h
  | cons m ms ih =>
    rw [List.foldl_cons] at h ⊢
    have hg' : ∀ m' ∈ ms, ∀ b v, (g m' b).1 = some v → g' m' = some v :=
      fun m' hm' => hg m' (List.mem_cons_of_mem _ hm')
    cases hr : rel m with
    | false =>
      cases z with
      | false =>
        have e1 : bRelStep g rel false (some a, b) m = (some a, b) := by simp [bRelStep, hr]
        have e2 : relStep g' rel false (some a) m = some a := by simp [relStep, hr]
        rw [e1] at h; rw [e2]
        exact ih hg' _ _ h
      | true =>
        have e1 : bRelStep g rel true (some a, b) m = (none, b) := by simp [bRelStep, hr]
        rw [e1, bRelFold_none] at h; cases h
    | true =>
      cases hq : g m b with
      | mk o b' =>
        cases o with
        | none =>
          have : bRelStep g rel z (some a, b) m = (none, b') := by simp [bRelStep, hr, hq]
          rw [this, bRelFold_none] at h; cases h
        | some x =>
          have e1 : bRelStep g rel z (some a, b) m = (some (max a (-x)), b') := by
            simp [bRelStep, hr, hq]
          have e2 : relStep g' rel z (some a) m = some (max a (-x)) := by
            simp [relStep, foldStep, hr, hg m List.mem_cons_self b x (by rw [hq])]
          rw [e1] at h; rw [e2]
          exact ih hg' _ _ h

/-- the budget never grows along a budgeted fold. -/
theorem bFold_le (g : Move → Nat → Option Int × Nat) (ms : List Move)
    (hg : ∀ m ∈ ms, ∀ b, (g m b).2 ≤ b) (acc : Option Int × Nat) :
    (ms.foldl (bStep g) acc).2 ≤ acc.2 := by
  induction ms generalizing acc with
  | nil => exact Nat.le_refl _
  | cons m ms ih =>
    rw [List.foldl_cons]
    refine Nat.le_trans (ih (fun m' hm' => hg m' (List.mem_cons_of_mem _ hm')) _) ?_
    obtain ⟨o, b⟩ := acc
    cases o with
    | none => exact Nat.le_refl _
    | some a =>
      have := hg m List.mem_cons_self b
      cases hq : g m b with
      | mk o' b' =>
        rw [hq] at this
        cases o' <;> simpa [bStep, hq] using this

theorem bRelFold_le (g : Move → Nat → Option Int × Nat) (rel : Move → Bool) (z : Bool) (ms : List Move)
    (hg : ∀ m ∈ ms, ∀ b, (g m b).2 ≤ b) (acc : Option Int × Nat) :
    (ms.foldl (bRelStep g rel z) acc).2 ≤ acc.2 := by
  induction ms generalizing acc with
  | nil => exact Nat.le_refl _
  | cons m ms ih =>
    rw [List.foldl_cons]
    refine Nat.le_trans (ih (fun m' hm' => hg m' (List.mem_cons_of_mem _ hm')) _) ?_
    obtain ⟨o, b⟩ := acc
    cases o with
    | none => exact Nat.le_refl _
    | some a =>
      cases hr : rel m with
      | false => cases z <;> simp [bRelStep, hr]
      | true =>
        have := hg m List.mem_cons_self b
        cases hq : g m b with
        | mk o' b' =>
          rw [hq] at this
          cases o' <;> simpa [bRelStep, hr, hq] using this

section spec
variable {P : Type} (G : Game P)

/-! ### unfolding -/

theorem Qb_zero (p : P) (b : Nat) : Qb G 0 p b = (none, b) := rfl

theorem Qb_succ (n : Nat) (p : P) (b : Nat) :
    Qb G (n + 1) p b =
      if b = 0 then (none, 0)
      else if (qList G p).isEmpty && G.inCheck p then (some (-CHECKMATE_SCORE), b - 1)
      else (qList G p).foldl
        (bRelStep (fun m b => Qb G n (G.play p m) b) (qRel G p) (n == 0)) (some (G.eval p), b - 1) := rfl

theorem Vb_zero (qf : Nat) (p : P) (b : Nat) : Vb G qf 0 p b = Qb G qf p b := rfl

theorem Vb_succ_nil (qf d : Nat) (p : P) (b : Nat) (h : G.moves p = []) :
    Vb G qf (d + 1) p b =
      (if G.inCheck p then some (-CHECKMATE_SCORE + ((d + 1 : Nat) : Int)) else some 0, b) := by
  rw [Vb, h]

theorem Vb_succ_cons (qf d : Nat) (p : P) (b : Nat) (m : Move) (ms : List Move)
    (h : G.moves p = m :: ms) :
    Vb G qf (d + 1) p b =
      match Vb G qf d (G.play p m) b with
      | (none, b) => (none, b)
      | (some v0, b) =>
        ms.foldl (bStep (fun mv b => Vb G qf d (G.play p mv) b)) (some (-v0), b) := by
  rw [Vb, h]; rfl

/-! ### soundness -/

/-- whenever the budgeted quiescence evaluator returns a value, it is the reference value. -/
theorem Qb_sound : ∀ (fuel : Nat) (p : P) (b : Nat) (v : Int),
    (Qb G fuel p b).1 = some v → Q G fuel p = some v := by
  intro fuel
  induction fuel with
  | zero => intro p b v h; rw [Qb_zero] at h; cases h
  | succ n ih =>
    intro p b v h
    rw [Qb_succ] at h
    rw [Q_succ]
    split at h
    · cases h
    · split at h
      · rename_i hm
        rw [if_pos hm]; exact h
      · rename_i hm
        rw [if_neg hm]
        exact bRelFold_sound _ _ _ _ _ (fun m _ b v hv => ih _ b v hv) _ _ _ h

/-- whenever the budgeted depth-limited evaluator returns a value, it is the reference value. -/
theorem Vb_sound (qfuel : Nat) : ∀ (d : Nat) (p : P) (b : Nat) (v : Int),
    (Vb G qfuel d p b).1 = some v → V G qfuel d p = some v := by
  intro d
  induction d with
  | zero => intro p b v h; rw [Vb_zero] at h; rw [V_zero]; exact Qb_sound G _ _ _ _ h
  | succ d ih =>
    intro p b v h
    cases hmv : G.moves p with
    | nil =>
      rw [Vb_succ_nil G _ _ _ _ hmv] at h
      rw [V_succ_nil G _ _ _ hmv]; exact h
    | cons m ms =>
      rw [Vb_succ_cons G _ _ _ _ _ _ hmv] at h
      rw [V_succ_cons G _ _ _ _ _ hmv]
      cases hq : Vb G qfuel d (G.play p m) b with
      | mk o b' =>
        rw [hq] at h
        cases o with
        | none => cases h
        | some v0 =>
          have e : V G qfuel d (G.play p m) = some v0 := ih _ b v0 (by rw [hq])
          rw [e]
          exact bFold_sound _ _ _ (fun mv _ b v hv => ih _ b v hv) _ _ _ h

/-! ### the budget never grows -/

theorem Qb_budget_le : ∀ (fuel : Nat) (p : P) (b : Nat), (Qb G fuel p b).2 ≤ b := by
  intro fuel
  induction fuel with
  | zero => intro p b; exact Nat.le_refl _
  | succ n ih =>
    intro p b
    rw [Qb_succ]
    split
    · exact Nat.zero_le _
    · split
      · exact Nat.sub_le _ _
      · exact Nat.le_trans (bRelFold_le _ _ _ _ (fun m _ b => ih _ b) _) (Nat.sub_le _ _)

theorem Vb_budget_le (qfuel : Nat) : ∀ (d : Nat) (p : P) (b : Nat), (Vb G qfuel d p b).2 ≤ b := by
  intro d
  induction d with
  | zero => intro p b; rw [Vb_zero]; exact Qb_budget_le G _ _ _
  | succ d ih =>
    intro p b
    cases hmv : G.moves p with
    | nil => rw [Vb_succ_nil G _ _ _ _ hmv]; exact Nat.le_refl _
    | cons m ms =>
      rw [Vb_succ_cons G _ _ _ _ _ _ hmv]
      have h0 := ih (G.play p m) b
      cases hq : Vb G qfuel d (G.play p m) b with
      | mk o b' =>
        rw [hq] at h0
        cases o with
        | none => exact h0
        | some v0 =>
          exact Nat.le_trans (bFold_le _ _ (fun mv _ b => ih _ b) _) h0

/-- a value costs at least one unit of budget (every node is paid for). -/
theorem Qb_some_budget_lt (fuel : Nat) (p : P) (b : Nat) (v : Int)
    (h : (Qb G fuel p b).1 = some v) : (Qb G fuel p b).2 < b := by
  cases fuel with
  | zero => rw [Qb_zero] at h; cases h
  | succ n =>
    rw [Qb_succ] at h ⊢
    split at h
    · cases h
    · rename_i hb
      rw [if_neg hb]
      split
      · show b - 1 < b; omega
      · have := bRelFold_le (fun m b => Qb G n (G.play p m) b) (qRel G p) (n == 0) (qList G p)
          (fun m _ b => Qb_budget_le G _ _ b) (some (G.eval p), b - 1)
        show _ < b
        have h2 : (some (G.eval p), b - 1).2 = b - 1 := rfl
        omega

end spec

end Flounder.Spec

#print axioms Flounder.Spec.Qb_sound
#print axioms Flounder.Spec.Vb_sound
#print axioms Flounder.Spec.Qb_budget_le
#print axioms Flounder.Spec.Vb_budget_le
#print axioms Flounder.Spec.Qb_some_budget_lt
