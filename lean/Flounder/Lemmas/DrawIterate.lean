/-
  Search with a game history, part 4: `search_position`, the iterative-deepening loop and `find_best_move`
  started on ANY repetition stack `hist` (the game history recorded by the `position` command).
  `search_position` pushes the root hash, so every iteration runs on the stack `G.hash p :: hist`; the draw
  predicate of the whole run is `Spec.drawnOn G (G.hash p :: hist)`.  `iterate` caches the root result of
  every completed iteration as `.exact`: a record for the root taken as a root — exactly what `TTSoundD`
  asks of a record.  Follows Lemmas/SearchIterate.lean (the empty stack).
-/
import Flounder.Lemmas.DrawContract
import Flounder.Lemmas.SearchIterate

namespace Flounder.Search
open Flounder Gen

section diterate
variable {P : Type} (G : Game P)

variable {c : Int → Int} {qf : Nat}

/-- one root search from the stack `hist` (ranked form: the root lies in `S depth`). -/
theorem searchPositionD_ok {S : Nat → P → Prop} (hc : Clamp c) (hr : Ranked G S)
    (hinj : HashInj G (Ranked.U S)) (qfuel : Nat) (hq : qf ≤ qfuel) (p : P) (hist : List UInt64)
    (depth : Nat) (s : SearchState) (v : Int) (hSp : S depth p)
    (hT : TTSoundD G c (Spec.drawnOn G (G.hash p :: hist)) (Ranked.U S) qf s.tt) (hrep : s.rep = hist)
    (hv : Spec.Vd G (Spec.drawnOn G (G.hash p :: hist)) qf depth true p = some v)
    (hs : s.stopSeen = false) (hfin : (searchPosition G qfuel p depth s).2.stopSeen = false)
    (hdh : (searchPosition G qfuel p depth s).2.deeperHits = s.deeperHits) :
    ∃ r, (searchPosition G qfuel p depth s).1 = some r ∧
      ResultOKD G c (Spec.drawnOn G (G.hash p :: hist)) qf depth p NEGATIVE_INFINITY INFINITY v r ∧
      TTSoundD G c (Spec.drawnOn G (G.hash p :: hist)) (Ranked.U S) qf (searchPosition G qfuel p depth s).2.tt ∧
      (searchPosition G qfuel p depth s).2.rep = hist := by
  rw [searchPosition_eq] at hfin hdh ⊢
  have hR : RepIs G (Spec.drawnOn G (G.hash p :: hist)) (pushed G p s) :=
    repIs_of_rep G _ _ (by simp [pushed, hrep])
  obtain ⟨r, hr, _, hres, hT2⟩ := negamaxD_ok G hc hr hinj qfuel hq depth p 0 NEGATIVE_INFINITY INFINITY
    (pushed G p s) v hSp hT hR hv (Int.le_refl _) (by decide) (Int.le_refl _) hs hfin hdh
  refine ⟨r, hr, hres (Or.inl rfl), hT2, ?_⟩
  simp only
  rw [(negamax_frame G qfuel depth p 0 NEGATIVE_INFINITY INFINITY (pushed G p s)).rep]
  simp [pushed, hrep]

/-! ### the iteration loop -/

/-- what the loop hands back once the iteration of depth `D` has completed. -/
structure IterOKD (c : Int → Int) (drawn : P → Bool) (qf D : Nat) (p : P) (b : Int × Option Move) : Prop where
  value : ∀ v, Spec.Vd G drawn qf D true p = some v → c b.1 = c v
  move : G.moves p ≠ [] → ∃ m, b.2 = some m ∧ m ∈ G.moves p
  pv : NEGATIVE_INFINITY < c b.1 → c b.1 < INFINITY →
    ∀ k m x, D = k + 1 → b.2 = some m → Spec.Vd G drawn qf k false (G.play p m) = some x → -x = b.1

/-- full-window contract means equality of the views, for the depths of this run. -/
def RootExactD (c : Int → Int) (drawn : P → Bool) (qf lo hi : Nat) (p : P) : Prop :=
  ∀ d v, lo ≤ d → d ≤ hi → Spec.Vd G drawn qf d true p = some v →
    ∀ r, Contract (c v) (c r) NEGATIVE_INFINITY INFINITY → c r = c v

/-- in the won / lost view the full-window contract always means equality. -/
theorem rootExactD_class (drawn : P → Bool) (qf lo hi : Nat) (p : P) :
    RootExactD G Spec.clampClass drawn qf lo hi p := by
  intro d w _ _ _ r hc
  have h1 := clampClass_range w
  have h2 := clampClass_range r
  have hni := negInf_eq
  have hin := inf_eq
  by_cases a : Spec.clampClass r ≤ NEGATIVE_INFINITY
  · have := hc.1 a; omega
  · by_cases b : Spec.clampClass r ≥ INFINITY
    · have := hc.2.1 b; omega
    · exact hc.2.2 (by omega) (by omega)

theorem iterateD_ok {S : Nat → P → Prop} (hc : Clamp c) (hr : Ranked G S)
    (hinj : HashInj G (Ranked.U S)) (qfuel : Nat)
    (hq : qf ≤ qfuel) (p : P) (hist : List UInt64) (maxDepth : Nat) (hSp : S maxDepth p) :
    ∀ (n cur : Nat) (best : Int × Option Move) (s : SearchState),
      1 ≤ cur → cur + n = maxDepth + 1 →
      (∀ d, cur ≤ d → d ≤ maxDepth → ∃ v, Spec.Vd G (Spec.drawnOn G (G.hash p :: hist)) qf d true p = some v) →
      RootExactD G c (Spec.drawnOn G (G.hash p :: hist)) qf cur maxDepth p →
      (cur = maxDepth + 1 → IterOKD G c (Spec.drawnOn G (G.hash p :: hist)) qf maxDepth p best) →
      TTSoundD G c (Spec.drawnOn G (G.hash p :: hist)) (Ranked.U S) qf s.tt → s.rep = hist →
      s.stopSeen = false →
      (iterate G qfuel p maxDepth n cur best s).2.stopSeen = false →
      (iterate G qfuel p maxDepth n cur best s).2.deeperHits = s.deeperHits →
      ∃ b, (iterate G qfuel p maxDepth n cur best s).1 = some b ∧
        IterOKD G c (Spec.drawnOn G (G.hash p :: hist)) qf maxDepth p b ∧
        TTSoundD G c (Spec.drawnOn G (G.hash p :: hist)) (Ranked.U S) qf
          (iterate G qfuel p maxDepth n cur best s).2.tt ∧
        (iterate G qfuel p maxDepth n cur best s).2.rep = hist := by
  intro n
  induction n with
  | zero =>
    intro cur best s _ hcn _ _ hb hT hrep _ _ _
    exact ⟨best, rfl, hb (by omega), hT, hrep⟩
  | succ n ih =>
    intro cur best s h1 hcn hV hRE hb hT hrep hs hfin hdh
    rw [iterate_succ] at hfin hdh ⊢
    have hle : ¬ cur > maxDepth := by omega
    rw [if_neg hle] at hfin hdh ⊢
    have hsf : stopFlag s = false := by
      cases h : stopFlag s
      · rfl
      · rw [h] at hfin; simp [polled, h] at hfin
    rw [hsf] at hfin hdh ⊢
    simp only [Bool.false_eq_true, ↓reduceIte] at hfin hdh ⊢
    have hs1 : (polled s).stopSeen = false := by simp [polled, hs, hsf]
    obtain ⟨v, hv⟩ := hV cur (Nat.le_refl _) (by omega)
    have hSP := searchPositionD_ok G hc hr hinj qfuel hq p hist cur (polled s) v (hr.le (by omega) hSp) hT hrep
      hv hs1
    have hSF := searchPosition_frame G qfuel p cur (polled s)
    have hIF := iterate_frame G qfuel p maxDepth n (cur + 1)
    rcases hsp : searchPosition G qfuel p cur (polled s) with ⟨ro, s2⟩
    rw [hsp] at hSP hSF hfin hdh
    have hs2 : s2.stopSeen = false ∧ s2.deeperHits = s.deeperHits := by
      have h0 : s.deeperHits ≤ s2.deeperHits := hSF.deeper
      cases ro with
      | none => exact ⟨hfin, hdh⟩
      | some r =>
        simp only at hfin hdh
        split at hfin
        · rename_i hc'
          rw [if_pos hc'] at hdh
          have f := (cached_qframe_polled G p cur r s2).trans (hIF (r.score, r.bestMove) _)
          refine ⟨f.noStop hfin, ?_⟩
          have := f.deeper
          omega
        · rename_i hc'
          rw [if_neg hc'] at hdh
          have f := (qframe_polled s2).frame.trans (hIF best _)
          refine ⟨f.noStop hfin, ?_⟩
          have := f.deeper
          omega
    obtain ⟨r, hr, hres, hT2, hrep2⟩ := hSP hs2.1 hs2.2
    simp only at hr hT2 hrep2
    subst hr
    simp only at hfin hdh ⊢
    have hsf2 : stopFlag s2 = false := by
      cases h : stopFlag s2
      · rfl
      · rw [h] at hfin
        simp only [Bool.not_true, Bool.false_eq_true, ↓reduceIte] at hfin
        have f := hIF best (polled s2)
        have : (polled s2).stopSeen = true := by simp [polled, h]
        rw [f.stop this] at hfin; cases hfin
    rw [hsf2] at hfin hdh ⊢
    simp only [Bool.not_false, ↓reduceIte] at hfin hdh ⊢
    have hexact : c r.score = c v := hRE cur v (Nat.le_refl _) (by omega) hv r.score hres.contract
    have hmove : G.moves p ≠ [] → ∃ m, r.bestMove = some m ∧ m ∈ G.moves p := hres.move h1
    have hpv : NEGATIVE_INFINITY < c r.score → c r.score < INFINITY →
        ∀ k m x, cur = k + 1 → r.bestMove = some m →
          Spec.Vd G (Spec.drawnOn G (G.hash p :: hist)) qf k false (G.play p m) = some x → -x = r.score :=
      fun a b k m x hk hm hx => hres.pv a b k hk m x hm hx
    have hE : EntryOKD G c (Spec.drawnOn G (G.hash p :: hist)) qf p ⟨G.hash p, r.score, r.bestMove, cur, .exact⟩ := by
      refine ⟨?_, ?_, ?_, fun _ => hmove, fun _ => hpv⟩
      · intro v' hv' _
        simp only at hv' ⊢
        rw [hv] at hv'; cases hv'; exact hexact
      · intro _ _ hb'; cases hb'
      · intro _ _ hb'; cases hb'
    apply ih (cur + 1) (r.score, r.bestMove) (cached G p cur r (polled s2)) (by omega) (by omega)
      (fun d hd hd' => hV d (by omega) hd')
      (fun d v' hd hd' => hRE d v' (by omega) hd')
      ?_ (ttSoundD_store G hinj hT2 p (Ranked.mem_U hSp) _ _ _ _ hE) hrep2
      (by simp [cached, polled, hs2.1, hsf2]) hfin (by rw [hdh]; exact hs2.2.symm)
    intro hcm
    have : cur = maxDepth := by omega
    subst this
    exact ⟨fun v' hv' => by rw [hv] at hv'; cases hv'; exact hexact, hmove, hpv⟩

/-! ### `find_best_move` -/

theorem started_rep (limit : Limit) (s : SearchState) : (started limit s).rep = s.rep := rfl

theorem findBestMove_rep (qfuel : Nat) (p : P) (maxDepth : Nat) (limit : Limit) (s : SearchState) :
    (findBestMove G qfuel p maxDepth limit s).2.rep = s.rep := by
  rw [findBestMove_snd]
  exact (iterate_frame G qfuel p maxDepth maxDepth 1 _ (started limit s)).rep

theorem findBestMoveD_ok {S : Nat → P → Prop} (hc : Clamp c) (hr : Ranked G S)
    (hinj : HashInj G (Ranked.U S)) (qfuel : Nat)
    (hq : qf ≤ qfuel) (p : P) (hist : List UInt64) (D : Nat) (hSp : S D p) (hD : 1 ≤ D) (limit : Limit)
    (s : SearchState)
    (hV : ∀ d, 1 ≤ d → d ≤ D → ∃ v, Spec.Vd G (Spec.drawnOn G (G.hash p :: hist)) qf d true p = some v)
    (hRE : RootExactD G c (Spec.drawnOn G (G.hash p :: hist)) qf 1 D p)
    (hT : TTSoundD G c (Spec.drawnOn G (G.hash p :: hist)) (Ranked.U S) qf s.tt) (hrep : s.rep = hist)
    (hfin : (findBestMove G qfuel p D limit s).2.stopSeen = false)
    (hdh : (findBestMove G qfuel p D limit s).2.deeperHits = s.deeperHits) :
    ∃ b, (findBestMove G qfuel p D limit s).1 = some b ∧
      IterOKD G c (Spec.drawnOn G (G.hash p :: hist)) qf D p b ∧
      TTSoundD G c (Spec.drawnOn G (G.hash p :: hist)) (Ranked.U S) qf (findBestMove G qfuel p D limit s).2.tt := by
  rw [findBestMove_snd] at hfin hdh ⊢
  obtain ⟨b, hb, hok, hT2, _⟩ := iterateD_ok G hc hr hinj qfuel hq p hist D hSp D 1 (NEGATIVE_INFINITY, none)
    (started limit s) (Nat.le_refl _) (by omega) hV hRE (fun h => by omega) hT hrep rfl hfin hdh
  have key : ∃ b, (findBestMove G qfuel p D limit s).1 = some b ∧
      IterOKD G c (Spec.drawnOn G (G.hash p :: hist)) qf D p b := by
    rw [findBestMove_eq]
    rcases hit : iterate G qfuel p D D 1 (NEGATIVE_INFINITY, none) (started limit s) with ⟨ro, s2⟩
    rw [hit] at hb
    simp only at hb
    subst hb
    rcases b with ⟨sc, _ | mv⟩
    · refine ⟨(sc, (G.moves p).head?), rfl, ⟨hok.value, ?_, ?_⟩⟩
      · intro hne
        obtain ⟨m, hm, _⟩ := hok.move hne
        cases hm
      · intro h1 h2 k m x hk hm hx
        have hnil : G.moves p = [] := by
          cases hms : G.moves p with
          | nil => rfl
          | cons a l =>
            obtain ⟨m', hm', _⟩ := hok.move (by rw [hms]; simp)
            cases hm'
        simp only [hnil, List.head?_nil] at hm
        cases hm
    · exact ⟨(sc, some mv), rfl, hok⟩
  obtain ⟨b', h1, h2⟩ := key
  exact ⟨b', h1, h2, hT2⟩

end diterate
end Flounder.Search
