/-
  C01, layer L2 — `attacks_to` is exactly "the enemy men attacking the square on the board with the
  mover's king lifted off" (`AttacksToSpec`), `king_square`, and `is_in_check`.
-/
import Flounder.Lemmas.C01Interfaces
import Flounder.Lemmas.AttacksLift
import Flounder.Lemmas.BitIter

namespace Flounder.Spec
open Flounder Flounder.Gen Flounder.MoveGenerator

/-! ### goal 6: `pseudo` = geometry ∧ castling safety -/

theorem pseudo_src {p : Pos} {m : Move} (h : pseudo p m = true) :
    m.src < 64 ∧ m.dst < 64 ∧ ∃ pc, p.board m.src = some (p.turn, pc) := by
  unfold pseudo at h
  simp only [Bool.and_eq_true, decide_eq_true_eq] at h
  obtain ⟨⟨hs, hd⟩, h⟩ := h
  refine ⟨hs, hd, ?_⟩
  split at h
  · cases h
  · rename_i c' pc hsrc
    simp only [Bool.and_eq_true, beq_iff_eq] at h
    obtain ⟨h1, _⟩ := h
    subst h1
    exact ⟨pc, hsrc⟩

theorem pseudoGeom_of_ne_castle {p : Pos} {m : Move} (hk : m.kind ≠ .castle) : pseudoGeom p m = pseudo p m := by
  cases h : pseudo p m with
  | true =>
    obtain ⟨hs, hd, pc, hsrc⟩ := pseudo_src h
    unfold pseudoGeom
    simp only [hs, hd, hsrc, decide_true, Bool.true_and, beq_self_eq_true]
    cases hk' : m.kind <;> first | exact absurd hk' hk | exact h
  | false =>
    unfold pseudoGeom
    simp only []
    cases hb : p.board m.src with
    | none => simp
    | some x =>
      obtain ⟨c', pc⟩ := x
      simp only []
      cases hk' : m.kind <;> first | exact absurd hk' hk | simp [h]

theorem pseudo_split : PseudoSplit := by
  intro p m
  by_cases hk : m.kind = .castle
  · obtain ⟨s, d, mp, kind⟩ := m
    simp only at hk
    subst hk
    unfold pseudoGeom castleSafe pseudo
    simp only []
    cases p.board s with
    | none => simp
    | some x =>
      obtain ⟨c', pc⟩ := x
      simp only [bne_self_eq_false, Bool.false_or]
      cases decide (s < 64) <;> cases decide (d < 64) <;>
        simp only [Bool.and_false, Bool.false_and, Bool.and_true, Bool.true_and] <;> try rfl
      cases (c' == p.turn) <;> simp only [Bool.false_and, Bool.true_and] <;> try rfl
      cases (mp == Piece.king) <;> cases (pc == Piece.king) <;> cases (s == kingHome p.turn) <;>
        simp only [Bool.and_false, Bool.false_and, Bool.and_true, Bool.true_and] <;> try rfl
      simp only [beq_iff_eq, Bool.and_assoc]
  · rw [pseudoGeom_of_ne_castle hk]
    unfold castleSafe
    have : (m.kind != .castle) = true := by simpa using hk
    rw [this]; simp

/-! ### symmetry of the walks -/

theorem sym_facts {s t : Nat} (hs : s < 64) (ht : t < 64) :
    diagonal s t = diagonal t s ∧ orthogonal s t = orthogonal t s ∧
    ((diagonal s t || orthogonal s t) = true → ∀ u, u ∈ strictlyBetween s t ↔ u ∈ strictlyBetween t s) := by
  have h := symCheck_ok
  unfold symCheck at h
  simp only [List.all_eq_true, List.mem_range, Bool.and_eq_true, beq_iff_eq, Bool.or_eq_true,
    Bool.not_eq_true'] at h
  obtain ⟨⟨h1, h2⟩, h3⟩ := h s hs t ht
  refine ⟨h1, h2, fun ha u => ?_⟩
  rcases h3 with h3 | ⟨h3, h4⟩
  · rw [h3] at ha; cases ha
  · exact ⟨subL_iff.1 h3 u, subL_iff.1 h4 u⟩

theorem all_between_comm {s t : Nat} (hs : s < 64) (ht : t < 64) (ha : (diagonal s t || orthogonal s t) = true)
    (f : Nat → Bool) : (strictlyBetween s t).all f = (strictlyBetween t s).all f := by
  have h := (sym_facts hs ht).2.2 ha
  rw [Bool.eq_iff_iff, List.all_eq_true, List.all_eq_true]
  exact ⟨fun hh u hu => hh u ((h u).2 hu), fun hh u hu => hh u ((h u).1 hu)⟩

theorem sliderReach_comm (diag : Bool) (occ : UInt64) {s t : Nat} (hs : s < 64) (ht : t < 64) :
    sliderReach diag occ s t = sliderReach diag occ t s := by
  obtain ⟨h1, h2, _⟩ := sym_facts hs ht
  unfold sliderReach
  cases diag
  · simp only [Bool.false_eq_true, if_false]
    rw [← h2]
    cases ha : orthogonal s t
    · rfl
    · rw [all_between_comm hs ht (by rw [ha]; simp)]
  · simp only [if_true]
    rw [← h1]
    cases ha : diagonal s t
    · rfl
    · rw [all_between_comm hs ht (by rw [ha]; simp)]

/-! ### occupancy with the king lifted -/

theorem hasSq_occLift {b : Board} (hb : consistent b = true) (c : Color) {u : Nat} (hu : u < 64) :
    hasSq (b.bbAll &&& ~~~(b.bb c .king)) u = (liftKing (absBoard b) c u).isSome := by
  rw [hasSq_and _ _ _ hu, hasSq_not _ _ hu, hasSq_bbAll hb hu, liftKing_apply]
  cases h : hasSq (b.bb c .king) u
  · have : ¬ absBoard b u = some (c, .king) := fun h' => by
      rw [(hasSq_bb hb hu).2 h'] at h; cases h
    rw [if_neg this]; simp
  · rw [if_pos ((hasSq_bb hb hu).1 h)]; simp

theorem reach_eq_path {b : Board} (hb : consistent b = true) (c : Color) (diag : Bool) {s t : Nat}
    (hs : s < 64) (ht : t < 64) :
    sliderReach diag (b.bbAll &&& ~~~(b.bb c .king)) t s =
      ((if diag then diagonal s t else orthogonal s t) && pathClear (liftKing (absBoard b) c) s t) := by
  rw [sliderReach_comm diag _ ht hs]
  unfold sliderReach pathClear
  congr 1
  apply all_congr_mem
  intro u hu
  rw [hasSq_occLift hb c (strictlyBetween_lt hs ht hu)]
  cases liftKing (absBoard b) c u <;> rfl

/-! ### goal 1: `attacks_to` -/

/-- the six attack sets `attacks_to` intersects with the enemy piece boards. -/
def attackSet (g : MoveGenerator) (b : Board) (t : Nat) : Piece → UInt64
  | .pawn => (match b.active with | .white => pawnAttWhite t | .black => pawnAttBlack t)
  | .knight => g.lookup.nonSlidingMoves t .knight
  | .bishop => g.lookup.slidingMoves t (b.bbAll &&& ~~~(b.bb b.active .king)) .bishop
  | .rook => g.lookup.slidingMoves t (b.bbAll &&& ~~~(b.bb b.active .king)) .rook
  | .queen => g.lookup.slidingMoves t (b.bbAll &&& ~~~(b.bb b.active .king)) .queen
  | .king => g.lookup.nonSlidingMoves t .king

theorem attacksTo_eq (g : MoveGenerator) (b : Board) (t : Nat) :
    g.attacksTo b t =
      (attackSet g b t .pawn &&& b.bb b.active.other .pawn) ||| (attackSet g b t .knight &&& b.bb b.active.other .knight) |||
      (attackSet g b t .bishop &&& b.bb b.active.other .bishop) ||| (attackSet g b t .rook &&& b.bb b.active.other .rook) |||
      (attackSet g b t .king &&& b.bb b.active.other .king) ||| (attackSet g b t .queen &&& b.bb b.active.other .queen) := by
  unfold attacksTo attackSet pawnAttWhite pawnAttBlack
  cases b.active <;> rfl

theorem hasSq_attackSet {g : MoveGenerator} (hl : LookupExact g.lookup) {b : Board} (hb : consistent b = true)
    {t s : Nat} (ht : t < 64) (hs : s < 64) (p : Piece) :
    hasSq (attackSet g b t p) s = manAttacks (liftKing (absBoard b) b.active) b.active.other p s t := by
  obtain ⟨hd, ho, _⟩ := sym_facts hs ht
  cases p
  · -- pawn
    unfold attackSet manAttacks
    cases b.active
    · simp only [hasSq_pawnAttWhite t s ht hs]; rfl
    · simp only [hasSq_pawnAttBlack t s ht hs]; rfl
  · -- knight
    unfold attackSet manAttacks
    simp only [hl.knight t s ht hs]
    unfold knightStep
    have e1 : absDiff (rank t) (rank s) = absDiff (rank s) (rank t) := by unfold absDiff; split <;> split <;> omega
    have e2 : absDiff (file t) (file s) = absDiff (file s) (file t) := by unfold absDiff; split <;> split <;> omega
    rw [e1, e2]
  · -- bishop
    unfold attackSet manAttacks
    simp only [hl.bishop t s _ ht hs, reach_eq_path hb _ true hs ht, if_true]
  · -- rook
    unfold attackSet manAttacks
    simp only [hl.rook t s _ ht hs, reach_eq_path hb _ false hs ht, Bool.false_eq_true, if_false]
  · -- queen
    unfold attackSet manAttacks
    simp only [hl.queen t s _ ht hs, reach_eq_path hb _ true hs ht, reach_eq_path hb _ false hs ht, if_true,
      Bool.false_eq_true, if_false]
    cases diagonal s t <;> cases orthogonal s t <;> simp
  · -- king
    unfold attackSet manAttacks
    simp only [hl.king t s ht hs]
    unfold kingStep
    have e1 : absDiff (rank t) (rank s) = absDiff (rank s) (rank t) := by unfold absDiff; split <;> split <;> omega
    have e2 : absDiff (file t) (file s) = absDiff (file s) (file t) := by unfold absDiff; split <;> split <;> omega
    rw [e1, e2]
    have e3 : (t != s) = (s != t) := by
      by_cases h : s = t
      · subst h; rfl
      · have h' : t ≠ s := fun h' => h h'.symm
        rw [bne_iff_ne.2 h, bne_iff_ne.2 h']
    rw [e3]

theorem hasSq_bb_of_abs {b : Board} (hb : consistent b = true) {s : Nat} (hs : s < 64) {c : Color} {p : Piece}
    (h : absBoard b s = some (c, p)) (c' : Color) (q : Piece) :
    hasSq (b.bb c' q) s = (decide (c' = c) && decide (q = p)) := by
  cases hq : hasSq (b.bb c' q) s
  · by_cases h1 : c' = c
    · by_cases h2 : q = p
      · subst h1 h2
        rw [(hasSq_bb hb hs).2 h] at hq; cases hq
      · simp [h2]
    · simp [h1]
  · have := (hasSq_bb hb hs).1 hq
    rw [h] at this
    cases this
    simp

theorem attacksTo_spec {g : MoveGenerator} (hl : LookupExact g.lookup) : AttacksToSpec g := by
  intro b hb t s ht hs
  rw [attacksTo_eq]
  simp only [hasSq_or _ _ _ hs, hasSq_and _ _ _ hs]
  cases h : absBoard b s with
  | none =>
    have hn : ∀ c p, hasSq (b.bb c p) s = false := by
      intro c p
      cases hq : hasSq (b.bb c p) s
      · rfl
      · have := (hasSq_bb hb hs).1 hq
        rw [h] at this; cases this
    simp [hn]
  | some x =>
    obtain ⟨c, p⟩ := x
    simp only [hasSq_bb_of_abs hb hs h]
    by_cases hc : b.active.other = c
    · subst hc
      simp only [decide_true, Bool.true_and, beq_self_eq_true]
      rw [← hasSq_attackSet hl hb ht hs p]
      cases p <;> simp
    · have : (c == b.active.other) = false := by
        simp only [beq_eq_false_iff_ne, ne_eq]
        exact fun h' => hc h'.symm
      simp [hc, this]

/-! ### `attacks_to(..) == 0` -/

theorem attacksTo_ne_zero_iff {g : MoveGenerator} (hl : LookupExact g.lookup) {b : Board} (hb : consistent b = true)
    {t : Nat} (ht : t < 64) :
    g.attacksTo b t ≠ 0 ↔ attacked (liftKing (absBoard b) b.active) b.active.other t = true := by
  rw [attacked_eq_true]
  constructor
  · intro h
    obtain ⟨s, hs, hh⟩ := exists_hasSq_of_ne_zero _ h
    rw [attacksTo_spec hl b hb t s ht hs] at hh
    cases hbs : absBoard b s with
    | none => rw [hbs] at hh; cases hh
    | some x =>
      obtain ⟨c, p⟩ := x
      rw [hbs] at hh
      simp only [Bool.and_eq_true, beq_iff_eq] at hh
      obtain ⟨h1, h2⟩ := hh
      subst h1
      exact ⟨s, hs, p, liftKing_other hbs, h2⟩
  · rintro ⟨s, hs, p, h1, h2⟩ h0
    have h3 := attacksTo_spec hl b hb t s ht hs
    rw [h0, hasSq_zero, liftKing_some h1] at h3
    simp only [beq_self_eq_true, Bool.true_and] at h3
    rw [h2] at h3
    cases h3

theorem attacksTo_eq_zero {g : MoveGenerator} (hl : LookupExact g.lookup) {b : Board} (hb : consistent b = true)
    {t : Nat} (ht : t < 64) :
    (g.attacksTo b t == 0) = !attacked (liftKing (absBoard b) b.active) b.active.other t := by
  have h := attacksTo_ne_zero_iff hl hb ht
  by_cases h0 : g.attacksTo b t = 0
  · have : ¬ attacked (liftKing (absBoard b) b.active) b.active.other t = true := fun h' => h.2 h' h0
    rw [h0]
    simp only [Bool.not_eq_true] at this
    rw [this]; rfl
  · rw [h.1 h0]
    simpa using h0

theorem attacksTo_bne_zero {g : MoveGenerator} (hl : LookupExact g.lookup) {b : Board} (hb : consistent b = true)
    {t : Nat} (ht : t < 64) :
    (g.attacksTo b t != 0) = attacked (liftKing (absBoard b) b.active) b.active.other t := by
  rw [bne, attacksTo_eq_zero hl hb ht, Bool.not_not]

/-! ### goal 2: `king_square` -/

theorem kingSquare_spec {b : Board} (hv : valid b = true) :
    kingSquare b < 64 ∧ absBoard b (kingSquare b) = some (b.active, .king) ∧
      kingSquares (absBoard b) b.active = [kingSquare b] := by
  obtain ⟨hb, hp⟩ := (valid_iff b).1 hv
  obtain ⟨k, hk, hbk, hu⟩ := hp.king b.active
  have hbk : absBoard b k = some (b.active, .king) := hbk
  have hu : ∀ s, s < 64 → absBoard b s = some (b.active, .king) → s = k := hu
  have hne : b.bb b.active .king ≠ 0 := by
    intro h0
    have := (hasSq_bb hb hk).2 hbk
    rw [h0, hasSq_zero] at this
    cases this
  obtain ⟨h1, h2, _⟩ := trailingZeros_spec _ hne
  have h3 : absBoard b (kingSquare b) = some (b.active, .king) := (hasSq_bb hb h1).1 h2
  have h4 : kingSquare b = k := hu _ h1 h3
  refine ⟨h1, h3, ?_⟩
  rw [h4]
  exact kingSquares_unique hk hbk hu

/-- the king square is the only square holding the mover's king. -/
theorem kingSquare_unique {b : Board} (hv : valid b = true) :
    ∀ s, s < 64 → absBoard b s = some (b.active, .king) → s = kingSquare b := by
  intro s hs h
  have h3 := (kingSquare_spec hv).2.2
  have : s ∈ kingSquares (absBoard b) b.active := mem_kingSquares.2 ⟨hs, h⟩
  rw [h3] at this
  exact List.mem_singleton.1 this

/-! ### goal 3: `is_in_check` -/

theorem is_in_check_exact {g : MoveGenerator} (hl : LookupExact g.lookup) {b : Board} (hv : valid b = true) :
    g.isInCheck b = inCheck (abs b) := by
  obtain ⟨hb, _⟩ := (valid_iff b).1 hv
  obtain ⟨hk, hbk, _⟩ := kingSquare_spec hv
  have hu := kingSquare_unique hv
  unfold isInCheck
  rw [attacksTo_bne_zero hl hb hk, attacked_lift_king hu hk]
  exact (inCheckOf_unique (bd := absBoard b) hk hbk hu).symm

end Flounder.Spec
