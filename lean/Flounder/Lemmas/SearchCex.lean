/-
  C05 helpers, part 8: why `negamax_contract` needs `NEGATIVE_INFINITY ≤ α`.
  `SearchResult::worst` starts `best.score` at NEGATIVE_INFINITY = -32767, not at -∞.  With a window
  whose lower end is below that, a node all of whose moves score below -32767 reports -32767 as if it
  were exact.  Two positions suffice.  (The root window of the engine is (-32767, 32767) and every
  window below it stays inside, so this is not reachable from `find_best_move`; it only delimits the
  general statement.)
  The table is a `Std.HashMap`, which the kernel cannot evaluate, so the run is replayed with the
  equation lemmas instead of `decide`.
-/
import Flounder.Lemmas.SearchTotal

namespace Flounder.Search
open Flounder Gen

section
variable {P : Type} (G : Game P)

theorem probeTT_miss (s : SearchState) (p : P) (d : Nat) (α β : Int)
    (h : s.tt.retrieve (G.hash p) = none) : probeTT G s p d α β = (none, none, s) := by
  unfold probeTT; rw [h]

theorem negamax_zero_miss (qfuel : Nat) (p : P) (ply : Nat) (α β : Int) (s : SearchState)
    (hrep : s.isRepetition (G.hash p) = false) (h : s.tt.retrieve (G.hash p) = none) :
    negamax G qfuel 0 p ply α β s = leafResult G qfuel p α β s.incrementNodes := by
  have hrep' : s.incrementNodes.isRepetition (G.hash p) = false := hrep
  rw [negamax_zero, probeTT_miss G s.incrementNodes p 0 α β h, hrep']
  simp

theorem negamax_succ_miss (qfuel d : Nat) (p : P) (ply : Nat) (α β : Int) (s : SearchState)
    (hrep : s.isRepetition (G.hash p) = false) (h : s.tt.retrieve (G.hash p) = none) :
    negamax G qfuel (d + 1) p ply α β s =
      innerResult G (negamax G qfuel d) d p ply α β none s.incrementNodes := by
  have hrep' : s.incrementNodes.isRepetition (G.hash p) = false := hrep
  rw [negamax_succ, probeTT_miss G s.incrementNodes p (d + 1) α β h, hrep']
  simp
end

def cexMove : Move := ⟨0, 1, .pawn, .quiet⟩

/-- position 0 has one move, to position 1; position 1 is quiet, has no moves and evaluates to 40000
    for the side to move. -/
def cexGame : Game Nat where
  moves := fun p => if p = 0 then [cexMove] else []
  qmoves := fun _ => []
  play := fun p _ => p + 1
  inCheck := fun _ => false
  eval := fun p => if p = 1 then 40000 else 0
  hash := fun p => p.toUInt64
  pieceAt := fun _ _ => none

theorem cex_value : Spec.V cexGame 1 1 0 = some (-40000) := by decide

theorem cex_leaf (s : SearchState) :
    leafResult cexGame 1 1 0 50000 s = (some ⟨40000, none⟩, s.incrementNodes) := by
  unfold leafResult
  rw [quiesce_succ]
  have h1 : qList cexGame 1 = [] := rfl
  have h2 : orderCaptures cexGame 1 [] = [] := by simp [orderCaptures]
  rw [h1, h2]
  have h3 : cexGame.eval 1 = 40000 := rfl
  rw [h3, quiesceLoop_nil]
  have h4 : max (0 : Int) 40000 = 40000 := by decide
  simp [cexGame, h4]

/-- the run, on any state with an empty table, an empty stack and no deadline. -/
theorem cex_run (s : SearchState) (ht : ∀ k, s.tt.retrieve k = none) (hr : s.rep = []) (hl : s.limit = .none) :
    negamax cexGame 1 1 0 0 (-50000) 0 s =
      finishNode cexGame 0 1 (-50000) 0 ⟨-40000, ⟨-32767, some cexMove⟩⟩
        (polled s.incrementNodes).incrementNodes.incrementNodes := by
  rw [negamax_succ_miss cexGame 1 0 0 0 (-50000) 0 s (by simp [SearchState.isRepetition, hr]) (ht _)]
  rw [innerResult_cons cexGame _ 0 0 0 (-50000) 0 none _ cexMove [] rfl]
  have h1 : cexGame.moves 0 = [cexMove] := rfl
  have h2 : ∀ s', orderMoves cexGame s' 0 [cexMove] none 0 = [cexMove] := fun s' => by simp [orderMoves]
  rw [h1, h2]
  rw [negamaxLoop_cons]
  have h3 : stopFlag s.incrementNodes = false := by simp [stopFlag, SearchState.incrementNodes, hl]
  rw [h3]
  simp only [Bool.false_eq_true, ↓reduceIte]
  have h4 : cexGame.play 0 cexMove = 1 := rfl
  have h5 : (-0 : Int) = 0 := rfl
  have h6 : (- -50000 : Int) = 50000 := rfl
  rw [h4, h5, h6, Nat.zero_add,
    negamax_zero_miss cexGame 1 1 1 0 50000 (polled s.incrementNodes)
      (by simp [SearchState.isRepetition, polled, SearchState.incrementNodes, hr]) (ht _), cex_leaf]
  simp only
  have h7 : ¬ (max (-50000 : Int) (-40000) ≥ 0) := by decide
  rw [if_neg h7, negamaxLoop_nil]
  rfl

theorem cex_run_fst (s : SearchState) (ht : ∀ k, s.tt.retrieve k = none) (hr : s.rep = [])
    (hl : s.limit = .none) :
    (negamax cexGame 1 1 0 0 (-50000) 0 s).1 = some ⟨-32767, some cexMove⟩ := by
  rw [cex_run s ht hr hl, finishNode_fst]

theorem cex_run_snd (s : SearchState) (ht : ∀ k, s.tt.retrieve k = none) (hr : s.rep = [])
    (hl : s.limit = .none) :
    (negamax cexGame 1 1 0 0 (-50000) 0 s).2.stopSeen = s.stopSeen ∧
    (negamax cexGame 1 1 0 0 (-50000) 0 s).2.deeperHits = s.deeperHits := by
  rw [cex_run s ht hr hl]
  have : stopFlag (polled s.incrementNodes).incrementNodes.incrementNodes = false := by
    simp [stopFlag, polled, SearchState.incrementNodes, hl]
  unfold finishNode
  rw [this]
  simp [polled, SearchState.incrementNodes, stopFlag, hl]

/-! ### the root result of a won position is only class-exact

  Respecting `EvalBound`: position 0 has two winning moves, `a` mates at once (child value
  -CHECKMATE_SCORE + 1 at depth 1), `b` leads to a position whose only reply runs into a quiescence mate
  (child value -CHECKMATE_SCORE).  Minimax of depth 2 is CHECKMATE_SCORE (via `b`); the search tries
  `a` first (equal ordering keys, stable sort), gets CHECKMATE_SCORE - 1 ≥ β = INFINITY and cuts.
  `iterate` caches exactly this result with `Bounds.exact`.  Hence the STRICT reading of "exact" is
  not an invariant of `find_best_move`; the won/lost reading (`Spec.clampClass`) is. -/

def mateA : Move := ⟨0, 1, .pawn, .capture⟩
def mateB : Move := ⟨0, 2, .pawn, .capture⟩

/-- 0 --a--> 1 (mated now);  0 --b--> 2 --c--> 4 --e (quiescence)--> 5 (mated). Evaluation 0. -/
def mateGame : Game Nat where
  moves := fun p => if p = 0 then [mateA, mateB] else if p = 2 then [mateA] else []
  qmoves := fun p => if p = 4 then [mateA] else []
  play := fun p m => if p = 0 then (if m = mateA then 1 else 2) else if p = 2 then 4 else 5
  inCheck := fun p => p = 1 || p = 5
  eval := fun _ => 0
  hash := fun p => p.toUInt64
  pieceAt := fun _ _ => some .pawn

theorem mate_value : Spec.V mateGame 2 2 0 = some CHECKMATE_SCORE := by decide
theorem mate_evalBound : EvalBound mateGame := fun _ => by simp [mateGame, INFINITY]

theorem mate_order (s : SearchState) : orderMoves mateGame s 0 [mateA, mateB] none 0 = [mateA, mateB] := by
  unfold orderMoves
  apply List.mergeSort_of_pairwise
  simp only [List.pairwise_cons, List.mem_cons, List.mem_nil_iff, or_false, forall_eq,
    List.Pairwise.nil, and_true, decide_eq_true_eq]
  have : orderKey mateGame s 0 none 0 mateA = orderKey mateGame s 0 none 0 mateB := by
    simp [orderKey, captureScore, mateGame, mateA, mateB]
  exact ⟨Int.le_of_eq this, fun _ h => h.elim⟩

/-- the root search of depth 2 with the full window on a state with an empty table, the root on the
    stack and no deadline: the first move already cuts with CHECKMATE_SCORE - 1. -/
theorem mate_run (s : SearchState) (ht : ∀ k, s.tt.retrieve k = none) (hr : s.rep = [mateGame.hash 0])
    (hl : s.limit = .none) :
    (negamax mateGame 2 2 0 0 NEGATIVE_INFINITY INFINITY s).1 = some ⟨CHECKMATE_SCORE - 1, some mateA⟩ := by
  rw [negamax_succ_miss mateGame 2 1 0 0 _ _ s (by simp [SearchState.isRepetition, hr]) (ht _)]
  rw [innerResult_cons mateGame _ 1 0 0 _ _ none _ mateA [mateB] rfl]
  have h1 : mateGame.moves 0 = [mateA, mateB] := rfl
  rw [h1, mate_order, negamaxLoop_cons]
  have h3 : stopFlag s.incrementNodes = false := by simp [stopFlag, SearchState.incrementNodes, hl]
  rw [h3]
  simp only [Bool.false_eq_true, ↓reduceIte]
  have h4 : mateGame.play 0 mateA = 1 := rfl
  rw [h4, Nat.zero_add,
    negamax_succ_miss mateGame 2 0 1 1 _ _ (polled s.incrementNodes)
      (by simp [SearchState.isRepetition, polled, SearchState.incrementNodes, hr, mateGame]) (ht _),
    innerResult_nil mateGame _ 0 1 1 _ _ none _ rfl]
  have h5 : mateGame.inCheck 1 = true := rfl
  rw [h5]
  simp only [↓reduceIte]
  have h7 : max NEGATIVE_INFINITY (-(-CHECKMATE_SCORE + ((0 + 1 : Nat) : Int))) ≥ INFINITY := by decide
  rw [if_pos h7]
  simp only
  rw [finishNode_fst]
  rfl
end Flounder.Search
