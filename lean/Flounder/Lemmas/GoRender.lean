/-
  Helpers for C12Parse: clock keys, rendering a `go` line from (key, value-token) pairs, and what the
  structural scan `scanList` computes on a rendered line.
-/
import Flounder.Lemmas.GoScan

namespace Flounder
open Gen

/-- the four clock keywords of a `go` command. -/
inductive ClockKey where
  | wtime | btime | winc | binc
  deriving DecidableEq, Repr

namespace ClockKey
/-- the keyword token. -/
def tok : ClockKey → Tok
  | wtime => kwWtime | btime => kwBtime | winc => kwWinc | binc => kwBinc

/-- the field of `Clocks` a key writes. -/
def get (c : Clocks) : ClockKey → Nat
  | wtime => c.wtime | btime => c.btime | winc => c.winc | binc => c.binc

def set (c : Clocks) (k : ClockKey) (v : Nat) : Clocks :=
  match k with
  | wtime => { c with wtime := v } | btime => { c with btime := v }
  | winc => { c with winc := v } | binc => { c with binc := v }

def all : List ClockKey := [wtime, btime, winc, binc]

theorem mem_all (k : ClockKey) : k ∈ all := by cases k <;> decide

theorem get_set (c : Clocks) (k k' : ClockKey) (v : Nat) :
    get (set c k v) k' = if k' = k then v else get c k' := by
  cases k <;> cases k' <;> rfl

/-- the mover's own remaining-time key. -/
def ownTime : Color → ClockKey
  | .white => wtime | .black => btime
/-- the mover's own increment key. -/
def ownInc : Color → ClockKey
  | .white => winc | .black => binc
end ClockKey

/-- token list of `go k₁ v₁ k₂ v₂ …`. -/
def render (pairs : List (ClockKey × Tok)) : List Tok :=
  kwGo :: pairs.flatMap (fun (k, v) => [k.tok, v])

/-- value of a key in a pair list: the parsed value of its (first) pair, 0 if absent or unparsable. -/
def valueOf (pairs : List (ClockKey × Tok)) (k : ClockKey) : Nat :=
  match pairs.lookup k with
  | some v => (parseU64 v).getD 0
  | none => 0

theorem render_length (pairs : List (ClockKey × Tok)) : (render pairs).length = 2 * pairs.length + 1 := by
  unfold render
  induction pairs with
  | nil => rfl
  | cons p ps ih =>
    simp only [List.flatMap_cons, List.length_cons, List.length_append, List.length_nil] at ih ⊢
    omega

/-- one scan step on a key/value pair. -/
theorem scanList_pair (k : ClockKey) (v : Tok) (rest : List Tok) (c : Clocks) :
    scanList (k.tok :: v :: rest) c = scanList rest (ClockKey.set c k ((parseU64 v).getD 0)) := by
  cases k
  · simp only [scanList, ClockKey.tok, if_true]; rfl
  · have h1 : ¬ kwBtime = kwWtime := by decide
    simp only [scanList, ClockKey.tok, if_true, h1, if_false]; rfl
  · have h1 : ¬ kwWinc = kwWtime := by decide
    have h2 : ¬ kwWinc = kwBtime := by decide
    simp only [scanList, ClockKey.tok, if_true, h1, h2, if_false]; rfl
  · have h1 : ¬ kwBinc = kwWtime := by decide
    have h2 : ¬ kwBinc = kwBtime := by decide
    have h3 : ¬ kwBinc = kwWinc := by decide
    simp only [scanList, ClockKey.tok, if_true, h1, h2, h3, if_false]; rfl

/-- the scan of a rendered pair list is a left fold of field updates: value tokens are never
    interpreted as keywords, whatever they are. -/
theorem scanList_flatMap (pairs : List (ClockKey × Tok)) (c : Clocks) :
    scanList (pairs.flatMap (fun (k, v) => [k.tok, v])) c =
      pairs.foldl (fun c p => ClockKey.set c p.1 ((parseU64 p.2).getD 0)) c := by
  induction pairs generalizing c with
  | nil => rfl
  | cons p ps ih =>
    obtain ⟨k, v⟩ := p
    simp only [List.flatMap_cons, List.foldl_cons]
    show scanList (k.tok :: v :: _) c = _
    rw [scanList_pair]
    exact ih _

/-- a key not written by the fold keeps its value. -/
theorem foldl_get_of_not_mem (pairs : List (ClockKey × Tok)) (c : Clocks) (k : ClockKey)
    (h : k ∉ pairs.map (·.1)) :
    ClockKey.get (pairs.foldl (fun c p => ClockKey.set c p.1 ((parseU64 p.2).getD 0)) c) k = ClockKey.get c k := by
  induction pairs generalizing c with
  | nil => rfl
  | cons p ps ih =>
    simp only [List.map_cons, List.mem_cons, not_or] at h
    simp only [List.foldl_cons]
    rw [ih _ h.2, ClockKey.get_set, if_neg h.1]

/-- with duplicate-free keys the fold leaves in each field the value of that key's pair. -/
theorem foldl_get (pairs : List (ClockKey × Tok)) (c : Clocks) (k : ClockKey)
    (hnd : (pairs.map (·.1)).Nodup) :
    ClockKey.get (pairs.foldl (fun c p => ClockKey.set c p.1 ((parseU64 p.2).getD 0)) c) k =
      match pairs.lookup k with
      | some v => (parseU64 v).getD 0
      | none => ClockKey.get c k := by
  induction pairs generalizing c with
  | nil => rfl
  | cons p ps ih =>
    obtain ⟨k', v⟩ := p
    simp only [List.map_cons, List.nodup_cons] at hnd
    simp only [List.foldl_cons]
    by_cases hk : k = k'
    · subst hk
      rw [foldl_get_of_not_mem _ _ _ hnd.1, ClockKey.get_set, if_pos rfl]
      simp
    · rw [ih _ hnd.2]
      have : (k == k') = false := by simpa using hk
      simp only [List.lookup_cons, this]
      cases ps.lookup k with
      | some v' => rfl
      | none => simp only [ClockKey.get_set, if_neg hk]

theorem scan_render_get (pairs : List (ClockKey × Tok)) (k : ClockKey) (hnd : (pairs.map (·.1)).Nodup) :
    ClockKey.get (scanList (pairs.flatMap (fun (k, v) => [k.tok, v])) {}) k = valueOf pairs k := by
  rw [scanList_flatMap, foldl_get _ _ _ hnd]
  unfold valueOf
  cases pairs.lookup k with
  | some v => rfl
  | none => cases k <;> rfl

/-- at most four pairs when the keys are distinct. -/
theorem pairs_length_le (pairs : List (ClockKey × Tok)) (hnd : (pairs.map (·.1)).Nodup) : pairs.length ≤ 4 := by
  have := nodup_length_le (pairs.map (·.1)) ClockKey.all hnd (fun x _ => ClockKey.mem_all x)
  simpa [ClockKey.all] using this

/-- characterisation of `valueOf` by membership (duplicate-free keys). -/
theorem valueOf_of_mem (pairs : List (ClockKey × Tok)) (k : ClockKey) (v : Tok)
    (hnd : (pairs.map (·.1)).Nodup) (hm : (k, v) ∈ pairs) : valueOf pairs k = (parseU64 v).getD 0 := by
  induction pairs with
  | nil => cases hm
  | cons p ps ih =>
    obtain ⟨k', v'⟩ := p
    simp only [List.map_cons, List.nodup_cons] at hnd
    rcases List.mem_cons.mp hm with h | h
    · injection h with h1 h2
      subst h1; subst h2
      simp [valueOf]
    · have hk : k ≠ k' := by
        intro e; subst e
        exact hnd.1 (List.mem_map.mpr ⟨(k, v), h, rfl⟩)
      have : (k == k') = false := by simpa using hk
      have := ih hnd.2 h
      simp only [valueOf, List.lookup_cons, ‹(k == k') = false›] at this ⊢
      exact this

theorem valueOf_of_not_mem (pairs : List (ClockKey × Tok)) (k : ClockKey)
    (hm : k ∉ pairs.map (·.1)) : valueOf pairs k = 0 := by
  induction pairs with
  | nil => rfl
  | cons p ps ih =>
    obtain ⟨k', v'⟩ := p
    simp only [List.map_cons, List.mem_cons, not_or] at hm
    have : (k == k') = false := by simpa using hm.1
    have := ih hm.2
    simp only [valueOf, List.lookup_cons, ‹(k == k') = false›] at this ⊢
    exact this

/-- `valueOf` is invariant under permutation of a duplicate-free pair list. -/
theorem valueOf_perm {pairs pairs' : List (ClockKey × Tok)} (hp : pairs.Perm pairs')
    (hnd : (pairs.map (·.1)).Nodup) (k : ClockKey) : valueOf pairs k = valueOf pairs' k := by
  have hnd' : (pairs'.map (·.1)).Nodup := (hp.map (·.1)).nodup_iff.mp hnd
  by_cases hk : k ∈ pairs.map (·.1)
  · obtain ⟨⟨k', v⟩, hm, rfl⟩ := List.mem_map.mp hk
    rw [valueOf_of_mem _ _ _ hnd hm, valueOf_of_mem _ _ _ hnd' (hp.mem_iff.mp hm)]
  · have hk' : k ∉ pairs'.map (·.1) := fun h => hk ((hp.map (·.1)).mem_iff.mpr h)
    rw [valueOf_of_not_mem _ _ hk, valueOf_of_not_mem _ _ hk']

end Flounder
