/-
  How `Board.addPiece` / `Board.removePiece` act on the twelve colour-piece bitboards `Board.bb c p`,
  and hence on the men component `menSum` of the Zobrist hash.
-/
import Flounder.Lemmas.XorHash

namespace Flounder
open Flounder.Spec

/-! ### the edited bitboards -/

theorem bbPiece_addPiece (b : Board) (c : Color) (p : Piece) (s : Nat) (p' : Piece) :
    (b.addPiece c p s).bbPiece p' = if p' = p then setBit (b.bbPiece p) s else b.bbPiece p' := by
  cases c <;> cases p <;> cases p' <;> rfl

theorem bbColor_addPiece (b : Board) (c : Color) (p : Piece) (s : Nat) (c' : Color) :
    (b.addPiece c p s).bbColor c' = if c' = c then setBit (b.bbColor c) s else b.bbColor c' := by
  cases c <;> cases p <;> cases c' <;> rfl

theorem bbPiece_removePiece (b : Board) (c : Color) (p : Piece) (s : Nat) (p' : Piece) :
    (b.removePiece c p s).bbPiece p' = if p' = p then removeBit (b.bbPiece p) s else b.bbPiece p' := by
  cases c <;> cases p <;> cases p' <;> rfl

theorem bbColor_removePiece (b : Board) (c : Color) (p : Piece) (s : Nat) (c' : Color) :
    (b.removePiece c p s).bbColor c' = if c' = c then removeBit (b.bbColor c) s else b.bbColor c' := by
  cases c <;> cases p <;> cases c' <;> rfl

theorem addPiece_rest (b : Board) (c : Color) (p : Piece) (s : Nat) :
    (b.addPiece c p s).castle = b.castle ∧ (b.addPiece c p s).ep = b.ep ∧
    (b.addPiece c p s).active = b.active := by
  cases c <;> cases p <;> exact ⟨rfl, rfl, rfl⟩

theorem removePiece_rest (b : Board) (c : Color) (p : Piece) (s : Nat) :
    (b.removePiece c p s).castle = b.castle ∧ (b.removePiece c p s).ep = b.ep ∧
    (b.removePiece c p s).active = b.active := by
  cases c <;> cases p <;> exact ⟨rfl, rfl, rfl⟩

/-! ### occupancy predicates -/

/-- square `s` is empty: none of the eight stored bitboards has the bit. -/
def EmptyAt (b : Board) (s : Nat) : Prop :=
  hasSq b.white s = false ∧ hasSq b.black s = false ∧
  hasSq b.pawns s = false ∧ hasSq b.knights s = false ∧ hasSq b.bishops s = false ∧
  hasSq b.rooks s = false ∧ hasSq b.queens s = false ∧ hasSq b.kings s = false

instance (b : Board) (s : Nat) : Decidable (EmptyAt b s) := by unfold EmptyAt; infer_instance

theorem EmptyAt.color {b : Board} {s : Nat} (h : EmptyAt b s) (c : Color) : hasSq (b.bbColor c) s = false := by
  obtain ⟨h1, h2, _⟩ := h
  cases c <;> assumption

theorem EmptyAt.piece {b : Board} {s : Nat} (h : EmptyAt b s) (p : Piece) : hasSq (b.bbPiece p) s = false := by
  obtain ⟨_, _, h3, h4, h5, h6, h7, h8⟩ := h
  cases p <;> assumption

theorem emptyAt_iff (b : Board) (s : Nat) :
    EmptyAt b s ↔ (∀ c, hasSq (b.bbColor c) s = false) ∧ (∀ p, hasSq (b.bbPiece p) s = false) :=
  ⟨fun h => ⟨h.color, h.piece⟩, fun ⟨hc, hp⟩ =>
    ⟨hc .white, hc .black, hp .pawn, hp .knight, hp .bishop, hp .rook, hp .queen, hp .king⟩⟩

/-- square `s` holds exactly the man `(c, p)` as far as the twelve colour-piece boards `bb c' p'` see. -/
def HoldsExactly (b : Board) (c : Color) (p : Piece) (s : Nat) : Prop :=
  hasSq (b.bb c p) s = true ∧ ∀ c' p', ¬ (c' = c ∧ p' = p) → hasSq (b.bb c' p') s = false

/-- square `s` holds exactly the man `(c, p)` in the eight stored bitboards (a consistent board at `s`). -/
def ManAt (b : Board) (c : Color) (p : Piece) (s : Nat) : Prop :=
  hasSq (b.bbColor c) s = true ∧ hasSq (b.bbColor c.other) s = false ∧
  hasSq (b.bbPiece p) s = true ∧ ∀ p', p' ≠ p → hasSq (b.bbPiece p') s = false

theorem ManAt.holdsExactly {b : Board} {c : Color} {p : Piece} {s : Nat} (hs : s < 64)
    (h : ManAt b c p s) : HoldsExactly b c p s := by
  obtain ⟨h1, h2, h3, h4⟩ := h
  refine ⟨by simp [Board.bb, hs, h1, h3], ?_⟩
  intro c' p' hne
  simp only [Board.bb, hasSq_and _ _ _ hs]
  by_cases hp : p' = p
  · have hc : c' = c.other := by
      cases c <;> cases c' <;> simp_all [Color.other]
    rw [hc, h2]; simp
  · rw [h4 p' hp]; simp

/-! ### the twelve boards after an edit -/

theorem bb_addPiece (b : Board) (c : Color) (p : Piece) (s : Nat) (hs : s < 64) (he : EmptyAt b s)
    (c' : Color) (p' : Piece) :
    (b.addPiece c p s).bb c' p' = if c' = c ∧ p' = p then setBit (b.bb c p) s else b.bb c' p' := by
  apply bb_ext
  intro t ht
  have hcol := he.color
  have hpc := he.piece
  simp only [Board.bb, bbPiece_addPiece, bbColor_addPiece]
  by_cases hc : c' = c <;> by_cases hp : p' = p
  · subst hc; subst hp
    simp [hasSq_and, hasSq_setBit, hs, ht]
    by_cases hst : s = t
    · simp [hst]
    · simp [hst]
  · subst hc
    simp only [hp, if_false, and_false, if_true, hasSq_and _ _ _ ht, hasSq_setBit _ _ _ hs ht]
    by_cases hst : s = t
    · subst hst; simp [hpc p']
    · simp [hst]
  · subst hp
    simp only [hc, if_false, false_and, if_true, hasSq_and _ _ _ ht, hasSq_setBit _ _ _ hs ht]
    by_cases hst : s = t
    · subst hst; simp [hcol c']
    · simp [hst]
  · simp [hc, hp]

theorem bb_removePiece (b : Board) (c : Color) (p : Piece) (s : Nat) (hs : s < 64)
    (hx : HoldsExactly b c p s) (c' : Color) (p' : Piece) :
    (b.removePiece c p s).bb c' p' = if c' = c ∧ p' = p then removeBit (b.bb c p) s else b.bb c' p' := by
  apply bb_ext
  intro t ht
  obtain ⟨_, hoth⟩ := hx
  simp only [Board.bb, bbPiece_removePiece, bbColor_removePiece]
  by_cases hc : c' = c <;> by_cases hp : p' = p
  · subst hc; subst hp
    simp [hasSq_and, hasSq_removeBit, hs, ht]
    by_cases hst : s = t
    · simp [hst]
    · simp [hst]
  · subst hc
    simp only [hp, if_false, and_false, if_true, hasSq_and _ _ _ ht, hasSq_removeBit _ _ _ hs ht]
    by_cases hst : s = t
    · subst hst
      have := hoth c' p' (by simp [hp])
      simp only [Board.bb, hasSq_and _ _ _ ht] at this
      simp [this]
    · simp [hst]
  · subst hp
    simp only [hc, if_false, false_and, if_true, hasSq_and _ _ _ ht, hasSq_removeBit _ _ _ hs ht]
    by_cases hst : s = t
    · subst hst
      have := hoth c' p' (by simp [hc])
      simp only [Board.bb, hasSq_and _ _ _ ht] at this
      simp [this]
    · simp [hst]
  · simp [hc, hp]

/-! ### the men component after an edit -/

/-- if exactly the `(c, p)` term of the double loop changes by `v`, the men component changes by `v`. -/
theorem menSum_toggle (k : ZKeys) (b b' : Board) (c : Color) (p : Piece) (v : UInt64)
    (h : ∀ c' p', xsum (squaresOf (b'.bb c' p')) (k.piece c' p')
        = xsum (squaresOf (b.bb c' p')) (k.piece c' p') ^^^ (if c' = c ∧ p' = p then v else 0)) :
    menSum k b' = menSum k b ^^^ v := by
  unfold menSum
  have h1 : ∀ c', (xsum Piece.all fun p' => xsum (squaresOf (b'.bb c' p')) (k.piece c' p'))
      = (xsum Piece.all fun p' => xsum (squaresOf (b.bb c' p')) (k.piece c' p'))
        ^^^ (xsum Piece.all fun p' => if c' = c ∧ p' = p then v else 0) := by
    intro c'
    rw [← xsum_xor]
    apply xsum_congr; intro p' _; exact h c' p'
  simp only [h1]
  rw [xsum_xor]
  congr 1
  cases c <;> cases p <;> simp [xsum_cons, Piece.all]

theorem menSum_addPiece (k : ZKeys) (b : Board) (c : Color) (p : Piece) (s : Nat) (hs : s < 64)
    (he : EmptyAt b s) : menSum k (b.addPiece c p s) = menSum k b ^^^ k.piece c p s := by
  apply menSum_toggle k b _ c p
  intro c' p'
  rw [bb_addPiece b c p s hs he]
  by_cases h : c' = c ∧ p' = p
  · obtain ⟨hc, hp⟩ := h
    subst hc; subst hp
    simp only [and_self, if_true]
    apply xsum_squaresOf_setBit _ _ hs
    simp [Board.bb, hs, he.color c']
  · simp [h]

theorem menSum_removePiece (k : ZKeys) (b : Board) (c : Color) (p : Piece) (s : Nat) (hs : s < 64)
    (hx : HoldsExactly b c p s) : menSum k (b.removePiece c p s) = menSum k b ^^^ k.piece c p s := by
  apply menSum_toggle k b _ c p
  intro c' p'
  rw [bb_removePiece b c p s hs hx]
  by_cases h : c' = c ∧ p' = p
  · obtain ⟨hc, hp⟩ := h
    subst hc; subst hp
    simp only [and_self, if_true]
    exact xsum_squaresOf_removeBit _ _ hs hx.1 _
  · simp [h]

/-! ### occupancy after an edit (needed to chain edits) -/

theorem emptyAt_removePiece_self (b : Board) (c : Color) (p : Piece) (s : Nat) (hs : s < 64)
    (h : ManAt b c p s) : EmptyAt (b.removePiece c p s) s := by
  obtain ⟨h1, h2, h3, h4⟩ := h
  rw [emptyAt_iff]
  constructor
  · intro c'
    rw [bbColor_removePiece]
    by_cases hc : c' = c
    · simp [hc, hasSq_removeBit _ _ _ hs hs]
    · have : c' = c.other := by cases c <;> cases c' <;> simp_all [Color.other]
      simp [this, h2]
  · intro p'
    rw [bbPiece_removePiece]
    by_cases hp : p' = p
    · simp [hp, hasSq_removeBit _ _ _ hs hs]
    · simp [hp, h4 p' hp]

theorem emptyAt_removePiece_other (b : Board) (c : Color) (p : Piece) (s t : Nat) (hs : s < 64)
    (ht : t < 64) (h : EmptyAt b t) : EmptyAt (b.removePiece c p s) t := by
  rw [emptyAt_iff]
  constructor
  · intro c'
    rw [bbColor_removePiece]
    by_cases hc : c' = c
    · simp [hc, hasSq_removeBit _ _ _ hs ht, h.color c]
    · simp [hc, h.color c']
  · intro p'
    rw [bbPiece_removePiece]
    by_cases hp : p' = p
    · simp [hp, hasSq_removeBit _ _ _ hs ht, h.piece p]
    · simp [hp, h.piece p']

end Flounder
