/-
  C05 helpers, part 6: `search_position`, the iterative-deepening loop and `find_best_move`.
-/
import Flounder.Lemmas.SearchContract

namespace Flounder.Search
open Flounder Gen

section iterate
variable {P : Type} (G : Game P)

/-- the state handed to the root `negamax`. -/
def pushed (p : P) (s : SearchState) : SearchState := { s with rep := G.hash p :: s.rep }

theorem searchPosition_eq (qfuel : Nat) (p : P) (depth : Nat) (s : SearchState) :
    searchPosition G qfuel p depth s =
      ((negamax G qfuel depth p 0 NEGATIVE_INFINITY INFINITY (pushed G p s)).1,
        { (negamax G qfuel depth p 0 NEGATIVE_INFINITY INFINITY (pushed G p s)).2 with
          rep := (negamax G qfuel depth p 0 NEGATIVE_INFINITY INFINITY (pushed G p s)).2.rep.drop 1 }) := rfl

theorem searchPosition_frame (qfuel : Nat) (p : P) (depth : Nat) (s : SearchState) :
    Frame s (searchPosition G qfuel p depth s).2 := by
  rw [searchPosition_eq]
  have h := negamax_frame G qfuel depth p 0 NEGATIVE_INFINITY INFINITY (pushed G p s)
  refine ⟨fun hs => h.stop hs, h.deeper, ?_, fun a b => h.calm a b⟩
  simp only
  rw [h.rep]; rfl

theorem repOK_single (k : UInt64) (s : SearchState) (h : s.rep = [k]) : RepOK s := by
  intro x
  rw [h]
  simp only [List.filter]
  split <;> simp

variable {c : Int → Int} {S : P → Prop} {qf : Nat}

/-- one root search from an empty repetition stack (ranked form: the root lies in `S depth`). -/
theorem searchPosition_ok_ranked {S : Nat → P → Prop} (hc : Clamp c) (hr : Ranked G S)
    (hinj : HashInj G (Ranked.U S)) (qfuel : Nat)
    (hq : qf ≤ qfuel) (p : P) (depth : Nat) (s : SearchState) (v : Int) (hSp : S depth p)
    (hT : TTSound G c (Ranked.U S) qf s.tt) (hrep : s.rep = []) (hv : Spec.V G qf depth p = some v)
    (hs : s.stopSeen = false) (hfin : (searchPosition G qfuel p depth s).2.stopSeen = false)
    (hdh : (searchPosition G qfuel p depth s).2.deeperHits = s.deeperHits) :
    ∃ r, (searchPosition G qfuel p depth s).1 = some r ∧
      ResultOK G c qf depth p NEGATIVE_INFINITY INFINITY v r ∧
      TTSound G c (Ranked.U S) qf (searchPosition G qfuel p depth s).2.tt ∧
      (searchPosition G qfuel p depth s).2.rep = [] := by
  rw [searchPosition_eq] at hfin hdh ⊢
  have hR : RepOK (pushed G p s) := repOK_single (G.hash p) _ (by simp [pushed, hrep])
  obtain ⟨r, hr, hres, hT2⟩ := negamax_ok_ranked G hc hr hinj qfuel hq depth p 0 NEGATIVE_INFINITY INFINITY
    (pushed G p s) v hSp hT hR hv (Int.le_refl _) (by decide) (Int.le_refl _) hs hfin hdh
  refine ⟨r, hr, hres, hT2, ?_⟩
  simp only
  rw [(negamax_frame G qfuel depth p 0 NEGATIVE_INFINITY INFINITY (pushed G p s)).rep]
  simp [pushed, hrep]

/-- one root search from an empty repetition stack. -/
theorem searchPosition_ok (hc : Clamp c) (hcl : Closed G S) (hinj : HashInj G S) (qfuel : Nat)
    (hq : qf ≤ qfuel) (p : P) (depth : Nat) (s : SearchState) (v : Int) (hSp : S p)
    (hT : TTSound G c S qf s.tt) (hrep : s.rep = []) (hv : Spec.V G qf depth p = some v)
    (hs : s.stopSeen = false) (hfin : (searchPosition G qfuel p depth s).2.stopSeen = false)
    (hdh : (searchPosition G qfuel p depth s).2.deeperHits = s.deeperHits) :
    ∃ r, (searchPosition G qfuel p depth s).1 = some r ∧
      ResultOK G c qf depth p NEGATIVE_INFINITY INFINITY v r ∧
      TTSound G c S qf (searchPosition G qfuel p depth s).2.tt ∧
      (searchPosition G qfuel p depth s).2.rep = [] := by
  have h := searchPosition_ok_ranked G (S := fun _ => S) hc (Ranked.ofClosed hcl)
    (by rw [Ranked.U_const]; exact hinj) qfuel hq p depth s v hSp (by rw [Ranked.U_const]; exact hT)
    hrep hv hs hfin hdh
  rw [Ranked.U_const] at h
  exact h

/-! ### the iteration loop -/

/-- the state after a completed iteration: root result cached as `.exact`, info line printed. -/
def cached (p : P) (cur : Nat) (r : SearchResult) (s : SearchState) : SearchState :=
  { s with tt := s.tt.store (G.hash p) r.score r.bestMove cur .exact,
           info := (cur, r.score, s.nodes, r.bestMove) :: s.info }

theorem iterate_zero (qfuel : Nat) (p : P) (maxDepth cur : Nat) (best : Int × Option Move) (s : SearchState) :
    iterate G qfuel p maxDepth 0 cur best s = (some best, s) := rfl

theorem iterate_succ (qfuel : Nat) (p : P) (maxDepth n cur : Nat) (best : Int × Option Move)
    (s : SearchState) :
    iterate G qfuel p maxDepth (n + 1) cur best s =
      if cur > maxDepth then (some best, s)
      else if stopFlag s = true then (some best, polled s)
      else
        match searchPosition G qfuel p cur (polled s) with
        | (none, s) => (none, s)
        | (some r, s) =>
          if (!stopFlag s) = true then
            iterate G qfuel p maxDepth n (cur + 1) (r.score, r.bestMove) (cached G p cur r (polled s))
          else iterate G qfuel p maxDepth n (cur + 1) best (polled s) := rfl

theorem cached_qframe_polled (p : P) (cur : Nat) (r : SearchResult) (s : SearchState) :
    Frame s (cached G p cur r (polled s)) :=
  (qframe_polled s).frame.trans ⟨id, Nat.le_refl _, rfl, fun a b => ⟨a, b⟩⟩

theorem iterate_frame (qfuel : Nat) (p : P) (maxDepth : Nat) :
    ∀ (n cur : Nat) (best : Int × Option Move) (s : SearchState),
      Frame s (iterate G qfuel p maxDepth n cur best s).2 := by
  intro n
  induction n with
  | zero => intro cur best s; exact Frame.refl _
  | succ n ih =>
    intro cur best s
    rw [iterate_succ]
    split
    · exact Frame.refl _
    · split
      · exact (qframe_polled s).frame
      · have h := searchPosition_frame G qfuel p cur (polled s)
        rcases hsp : searchPosition G qfuel p cur (polled s) with ⟨ro, s2⟩
        rw [hsp] at h
        have h02 := (qframe_polled s).frame.trans h
        cases ro with
        | none => exact h02
        | some r =>
          simp only
          split
          · exact (h02.trans (cached_qframe_polled G p cur r s2)).trans (ih _ _ _)
          · exact (h02.trans (qframe_polled s2).frame).trans (ih _ _ _)

/-- what the loop hands back once the iteration of depth `D` has completed. -/
structure IterOK (c : Int → Int) (qf D : Nat) (p : P) (b : Int × Option Move) : Prop where
  value : ∀ v, Spec.V G qf D p = some v → c b.1 = c v
  move : G.moves p ≠ [] → ∃ m, b.2 = some m ∧ m ∈ G.moves p
  pv : NEGATIVE_INFINITY < c b.1 → c b.1 < INFINITY →
    ∀ k m x, D = k + 1 → b.2 = some m → Spec.V G qf k (G.play p m) = some x → -x = b.1

/-- full-window contract means equality of the views, for the depths of this run. -/
def RootExact (c : Int → Int) (qf lo hi : Nat) (p : P) : Prop :=
  ∀ d v, lo ≤ d → d ≤ hi → Spec.V G qf d p = some v →
    ∀ r, Contract (c v) (c r) NEGATIVE_INFINITY INFINITY → c r = c v

theorem iterate_ok_ranked {S : Nat → P → Prop} (hc : Clamp c) (hr : Ranked G S)
    (hinj : HashInj G (Ranked.U S)) (qfuel : Nat)
    (hq : qf ≤ qfuel) (p : P) (maxDepth : Nat) (hSp : S maxDepth p) :
    ∀ (n cur : Nat) (best : Int × Option Move) (s : SearchState),
      1 ≤ cur → cur + n = maxDepth + 1 →
      (∀ d, cur ≤ d → d ≤ maxDepth → ∃ v, Spec.V G qf d p = some v) →
      RootExact G c qf cur maxDepth p →
      (cur = maxDepth + 1 → IterOK G c qf maxDepth p best) →
      TTSound G c (Ranked.U S) qf s.tt → s.rep = [] → s.stopSeen = false →
      (iterate G qfuel p maxDepth n cur best s).2.stopSeen = false →
      (iterate G qfuel p maxDepth n cur best s).2.deeperHits = s.deeperHits →
      ∃ b, (iterate G qfuel p maxDepth n cur best s).1 = some b ∧ IterOK G c qf maxDepth p b ∧
        TTSound G c (Ranked.U S) qf (iterate G qfuel p maxDepth n cur best s).2.tt ∧
        (iterate G qfuel p maxDepth n cur best s).2.rep = [] := by
  intro n
  induction n with
  | zero =>
    intro cur best s _ hcn _ _ hb hT hrep _ _ _
    exact ⟨best, rfl, hb (by omega), hT, hrep⟩
  | succ n ih =>
    intro cur best s h1 hcn hV hRE hb hT hrep hs hfin hdh
    rw [iterate_succ] at hfin hdh ⊢
    have hle : ¬ cur > maxDepth := by omega
    rw [if_neg hle] at hfin hdh ⊢
    have hsf : stopFlag s = false := by
      cases h : stopFlag s
      · rfl
      · rw [h] at hfin; simp [polled, h] at hfin
    rw [hsf] at hfin hdh ⊢
    simp only [Bool.false_eq_true, ↓reduceIte] at hfin hdh ⊢
    have hs1 : (polled s).stopSeen = false := by simp [polled, hs, hsf]
    obtain ⟨v, hv⟩ := hV cur (Nat.le_refl _) (by omega)
    have hSP := searchPosition_ok_ranked G hc hr hinj qfuel hq p cur (polled s) v (hr.le (by omega) hSp) hT hrep hv hs1
    have hSF := searchPosition_frame G qfuel p cur (polled s)
    have hIF := iterate_frame G qfuel p maxDepth n (cur + 1)
    rcases hsp : searchPosition G qfuel p cur (polled s) with ⟨ro, s2⟩
    rw [hsp] at hSP hSF hfin hdh
    have hs2 : s2.stopSeen = false ∧ s2.deeperHits = s.deeperHits := by
      have h0 : s.deeperHits ≤ s2.deeperHits := hSF.deeper
      cases ro with
      | none => exact ⟨hfin, hdh⟩
      | some r =>
        simp only at hfin hdh
        split at hfin
        · rename_i hc'
          rw [if_pos hc'] at hdh
          have f := (cached_qframe_polled G p cur r s2).trans (hIF (r.score, r.bestMove) _)
          refine ⟨f.noStop hfin, ?_⟩
          have := f.deeper
          omega
        · rename_i hc'
          rw [if_neg hc'] at hdh
          have f := (qframe_polled s2).frame.trans (hIF best _)
          refine ⟨f.noStop hfin, ?_⟩
          have := f.deeper
          omega
    obtain ⟨r, hr, hres, hT2, hrep2⟩ := hSP hs2.1 hs2.2
    simp only at hr hT2 hrep2
    subst hr
    simp only at hfin hdh ⊢
    have hsf2 : stopFlag s2 = false := by
      cases h : stopFlag s2
      · rfl
      · rw [h] at hfin
        simp only [Bool.not_true, Bool.false_eq_true, ↓reduceIte] at hfin
        have f := hIF best (polled s2)
        have : (polled s2).stopSeen = true := by simp [polled, h]
        rw [f.stop this] at hfin; cases hfin
    rw [hsf2] at hfin hdh ⊢
    simp only [Bool.not_false, ↓reduceIte] at hfin hdh ⊢
    have hexact : c r.score = c v := hRE cur v (Nat.le_refl _) (by omega) hv r.score hres.contract
    have hmove : G.moves p ≠ [] → ∃ m, r.bestMove = some m ∧ m ∈ G.moves p := hres.move h1
    have hpv : NEGATIVE_INFINITY < c r.score → c r.score < INFINITY →
        ∀ k m x, cur = k + 1 → r.bestMove = some m → Spec.V G qf k (G.play p m) = some x → -x = r.score :=
      fun a b k m x hk hm hx => hres.pv a b k hk m x hm hx
    have hE : EntryOK G c qf p ⟨G.hash p, r.score, r.bestMove, cur, .exact⟩ := by
      refine ⟨?_, ?_, ?_, fun _ => hmove, fun _ => hpv⟩
      · intro v' hv' _
        simp only at hv' ⊢
        rw [hv] at hv'; cases hv'; exact hexact
      · intro _ _ hb'; cases hb'
      · intro _ _ hb'; cases hb'
    apply ih (cur + 1) (r.score, r.bestMove) (cached G p cur r (polled s2)) (by omega) (by omega)
      (fun d hd hd' => hV d (by omega) hd')
      (fun d v' hd hd' => hRE d v' (by omega) hd')
      ?_ (ttSound_store G hinj hT2 p (Ranked.mem_U hSp) _ _ _ _ hE) hrep2
      (by simp [cached, polled, hs2.1, hsf2]) hfin (by rw [hdh]; exact hs2.2.symm)
    intro hcm
    have : cur = maxDepth := by omega
    subst this
    exact ⟨fun v' hv' => by rw [hv] at hv'; cases hv'; exact hexact, hmove, hpv⟩

theorem iterate_ok (hc : Clamp c) (hcl : Closed G S) (hinj : HashInj G S) (qfuel : Nat)
    (hq : qf ≤ qfuel) (p : P) (hSp : S p) (maxDepth : Nat) :
    ∀ (n cur : Nat) (best : Int × Option Move) (s : SearchState),
      1 ≤ cur → cur + n = maxDepth + 1 →
      (∀ d, cur ≤ d → d ≤ maxDepth → ∃ v, Spec.V G qf d p = some v) →
      RootExact G c qf cur maxDepth p →
      (cur = maxDepth + 1 → IterOK G c qf maxDepth p best) →
      TTSound G c S qf s.tt → s.rep = [] → s.stopSeen = false →
      (iterate G qfuel p maxDepth n cur best s).2.stopSeen = false →
      (iterate G qfuel p maxDepth n cur best s).2.deeperHits = s.deeperHits →
      ∃ b, (iterate G qfuel p maxDepth n cur best s).1 = some b ∧ IterOK G c qf maxDepth p b ∧
        TTSound G c S qf (iterate G qfuel p maxDepth n cur best s).2.tt ∧
        (iterate G qfuel p maxDepth n cur best s).2.rep = [] := by
  have h := iterate_ok_ranked G (S := fun _ => S) hc (Ranked.ofClosed hcl)
    (by rw [Ranked.U_const]; exact hinj) qfuel hq p maxDepth hSp
  rw [Ranked.U_const] at h
  exact h

/-! ### `find_best_move` -/

/-- the state `find_best_move` starts the loop with (`timer.start()`, `history.age()`). -/
def started (limit : Limit) (s : SearchState) : SearchState :=
  ({ s with nodes := 0, polls := 0, limit := limit, stopSeen := false, nodesAfterStop := 0, info := [] } :
    SearchState).ageHistory

theorem findBestMove_eq (qfuel : Nat) (p : P) (maxDepth : Nat) (limit : Limit) (s : SearchState) :
    findBestMove G qfuel p maxDepth limit s =
      match iterate G qfuel p maxDepth maxDepth 1 (NEGATIVE_INFINITY, none) (started limit s) with
      | (none, s) => (none, s)
      | (some (score, some mv), s) => (some (score, some mv), s)
      | (some (score, none), s) => (some (score, (G.moves p).head?), s) := rfl

theorem findBestMove_snd (qfuel : Nat) (p : P) (maxDepth : Nat) (limit : Limit) (s : SearchState) :
    (findBestMove G qfuel p maxDepth limit s).2 =
      (iterate G qfuel p maxDepth maxDepth 1 (NEGATIVE_INFINITY, none) (started limit s)).2 := by
  rw [findBestMove_eq]
  rcases iterate G qfuel p maxDepth maxDepth 1 (NEGATIVE_INFINITY, none) (started limit s) with ⟨ro, s2⟩
  rcases ro with _ | ⟨sc, _ | mv⟩ <;> rfl

theorem findBestMove_ok_ranked {S : Nat → P → Prop} (hc : Clamp c) (hr : Ranked G S)
    (hinj : HashInj G (Ranked.U S)) (qfuel : Nat)
    (hq : qf ≤ qfuel) (p : P) (D : Nat) (hSp : S D p) (hD : 1 ≤ D) (limit : Limit) (s : SearchState)
    (hV : ∀ d, 1 ≤ d → d ≤ D → ∃ v, Spec.V G qf d p = some v)
    (hRE : RootExact G c qf 1 D p)
    (hT : TTSound G c (Ranked.U S) qf s.tt) (hrep : s.rep = [])
    (hfin : (findBestMove G qfuel p D limit s).2.stopSeen = false)
    (hdh : (findBestMove G qfuel p D limit s).2.deeperHits = s.deeperHits) :
    ∃ b, (findBestMove G qfuel p D limit s).1 = some b ∧ IterOK G c qf D p b ∧
      TTSound G c (Ranked.U S) qf (findBestMove G qfuel p D limit s).2.tt := by
  rw [findBestMove_snd] at hfin hdh ⊢
  obtain ⟨b, hb, hok, hT2, _⟩ := iterate_ok_ranked G hc hr hinj qfuel hq p D hSp D 1 (NEGATIVE_INFINITY, none)
    (started limit s) (Nat.le_refl _) (by omega) hV hRE (fun h => by omega) hT hrep rfl hfin hdh
  have key : ∃ b, (findBestMove G qfuel p D limit s).1 = some b ∧ IterOK G c qf D p b := by
    rw [findBestMove_eq]
    rcases hit : iterate G qfuel p D D 1 (NEGATIVE_INFINITY, none) (started limit s) with ⟨ro, s2⟩
    rw [hit] at hb
    simp only at hb
    subst hb
    rcases b with ⟨sc, _ | mv⟩
    · refine ⟨(sc, (G.moves p).head?), rfl, ⟨hok.value, ?_, ?_⟩⟩
      · intro hne
        obtain ⟨m, hm, _⟩ := hok.move hne
        cases hm
      · intro h1 h2 k m x hk hm hx
        have hnil : G.moves p = [] := by
          cases hms : G.moves p with
          | nil => rfl
          | cons a l =>
            obtain ⟨m', hm', _⟩ := hok.move (by rw [hms]; simp)
            cases hm'
        simp only [hnil, List.head?_nil] at hm
        cases hm
    · exact ⟨(sc, some mv), rfl, hok⟩
  obtain ⟨b', h1, h2⟩ := key
  exact ⟨b', h1, h2, hT2⟩

theorem findBestMove_ok (hc : Clamp c) (hcl : Closed G S) (hinj : HashInj G S) (qfuel : Nat)
    (hq : qf ≤ qfuel) (p : P) (hSp : S p) (D : Nat) (hD : 1 ≤ D) (limit : Limit) (s : SearchState)
    (hV : ∀ d, 1 ≤ d → d ≤ D → ∃ v, Spec.V G qf d p = some v)
    (hRE : RootExact G c qf 1 D p)
    (hT : TTSound G c S qf s.tt) (hrep : s.rep = [])
    (hfin : (findBestMove G qfuel p D limit s).2.stopSeen = false)
    (hdh : (findBestMove G qfuel p D limit s).2.deeperHits = s.deeperHits) :
    ∃ b, (findBestMove G qfuel p D limit s).1 = some b ∧ IterOK G c qf D p b ∧
      TTSound G c S qf (findBestMove G qfuel p D limit s).2.tt := by
  have h := findBestMove_ok_ranked G (S := fun _ => S) hc (Ranked.ofClosed hcl)
    (by rw [Ranked.U_const]; exact hinj) qfuel hq p D hSp hD limit s hV hRE
    (by rw [Ranked.U_const]; exact hT) hrep hfin hdh
  rw [Ranked.U_const] at h
  exact h

end iterate
end Flounder.Search
