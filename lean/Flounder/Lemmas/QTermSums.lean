/-
  Termination rank of the quiescence search, part 1: the quantities the static evaluation reads — each side's
  table totals, the game phase, the number of men and of pawns — written as sums over the 64 squares of a
  function of the mailbox `Spec.absBoard b`, and a lemma computing the change of such a sum when the mailbox
  changes on a short explicit list of squares.
-/
import Flounder.Lemmas.ChessGame

namespace Flounder.Chess
open Flounder Flounder.Spec Gen

/-! ### generic list sums -/

theorem sum_map_congr {l : List Nat} {F G : Nat → Int} (h : ∀ s ∈ l, F s = G s) :
    (l.map F).sum = (l.map G).sum := by
  induction l with
  | nil => rfl
  | cons x xs ih =>
    simp only [List.map_cons, List.sum_cons]
    rw [h x List.mem_cons_self, ih (fun s hs => h s (List.mem_cons_of_mem _ hs))]

theorem sum_map_add (l : List Nat) (F G : Nat → Int) :
    (l.map (fun s => F s + G s)).sum = (l.map F).sum + (l.map G).sum := by
  induction l with
  | nil => rfl
  | cons x xs ih => simp only [List.map_cons, List.sum_cons, ih]; omega

theorem sum_filter_map (l : List Nat) (P : Nat → Bool) (g : Nat → Int) :
    ((l.filter P).map g).sum = (l.map (fun s => if P s = true then g s else 0)).sum := by
  induction l with
  | nil => rfl
  | cons x xs ih =>
    rw [List.filter_cons]
    cases h : P x
    · simp only [Bool.false_eq_true, if_false, List.map_cons, List.sum_cons, ih, h]; omega
    · simp only [if_true, List.map_cons, List.sum_cons, ih, h]

/-- two functions that differ (at most) at one element `a` of a duplicate-free list. -/
theorem sum_update (F G : Nat → Int) (a : Nat) :
    ∀ (l : List Nat), l.Nodup → a ∈ l → (∀ s ∈ l, s ≠ a → F s = G s) →
      (l.map F).sum = (l.map G).sum + (F a - G a) := by
  intro l
  induction l with
  | nil => intro _ ha; cases ha
  | cons x xs ih =>
    intro hnd ha h
    obtain ⟨hx, hnd'⟩ := List.nodup_cons.1 hnd
    simp only [List.map_cons, List.sum_cons]
    by_cases hxa : x = a
    · subst hxa
      have hc : (xs.map F).sum = (xs.map G).sum :=
        sum_map_congr (fun s hs => h s (List.mem_cons_of_mem _ hs) (fun e => hx (e ▸ hs)))
      omega
    · have ha' : a ∈ xs := by
        rcases List.mem_cons.1 ha with e | e
        · exact absurd e.symm hxa
        · exact e
      have := ih hnd' ha' (fun s hs hne => h s (List.mem_cons_of_mem _ hs) hne)
      rw [this, h x List.mem_cons_self hxa]
      omega

/-- two functions that agree on a duplicate-free list `l` away from the squares listed in `D`: the difference
    of their sums over `l` is the difference of their sums over `D`. -/
theorem sum_diff_on (l : List Nat) (hnd : l.Nodup) (G : Nat → Int) :
    ∀ (D : List Nat) (F : Nat → Int), D.Nodup → (∀ a ∈ D, a ∈ l) → (∀ s ∈ l, s ∉ D → F s = G s) →
      (l.map F).sum - (l.map G).sum = (D.map F).sum - (D.map G).sum := by
  intro D
  induction D with
  | nil =>
    intro F _ _ h
    rw [sum_map_congr (fun s hs => h s hs (by simp))]
    simp
  | cons a D ih =>
    intro F hD hsub h
    obtain ⟨haD, hD'⟩ := List.nodup_cons.1 hD
    let M : Nat → Int := fun s => if s = a then G a else F s
    have h1 : (l.map F).sum = (l.map M).sum + (F a - M a) :=
      sum_update F M a l hnd (hsub a List.mem_cons_self) (fun s _ hne => by simp [M, hne])
    have hMa : M a = G a := by simp [M]
    have h2 := ih M hD' (fun x hx => hsub x (List.mem_cons_of_mem _ hx)) (by
      intro s hs hsD
      by_cases hsa : s = a
      · subst hsa; exact hMa
      · simp only [M, if_neg hsa]
        exact h s hs (by simp [hsa, hsD]))
    have h3 : (D.map M).sum = (D.map F).sum :=
      sum_map_congr (fun s hs => by
        have : s ≠ a := fun e => haD (e ▸ hs)
        simp [M, this])
    simp only [List.map_cons, List.sum_cons]
    rw [hMa] at h1
    omega

/-- a count as a sum of zeros and ones. -/
theorem countP_eq_sum (l : List Nat) (P : Nat → Bool) :
    ((l.countP P : Nat) : Int) = (l.map (fun s => if P s = true then (1 : Int) else 0)).sum := by
  induction l with
  | nil => rfl
  | cons x xs ih =>
    rw [List.countP_cons, List.map_cons, List.sum_cons, ← ih]
    cases P x <;> simp <;> omega

/-! ### what the evaluation reads off one square of the mailbox -/

/-- table value (for colour `c`) of the man on square `s`. -/
def mval (T : List (List Int)) (c : Color) (x : Option Man) (s : Nat) : Int :=
  match x with
  | some (c', p) => if c' = c then pst T p.index (pstSquare c 56 s) else 0
  | none => 0

/-- phase increment of the man on a square. -/
def mph (x : Option Man) : Int :=
  match x with
  | some (_, p) => PHASE_INCREMENTS.getD p.index 0
  | none => 0

/-- weight of the man on a square in the first component of the rank: 2 for a pawn, 1 for any other man. -/
def mw (x : Option Man) : Int :=
  match x with
  | some (_, .pawn) => 2
  | some _ => 1
  | none => 0

/-! ### the side totals as sums over the squares -/

theorem squaresOf_eq (bb : UInt64) : squaresOf bb = squares.filter (hasSq bb) := rfl

theorem sum_over_bb {b : Board} (hb : consistent b = true) (c : Color) (p : Piece) (g : Nat → Int) :
    ((squaresOf (b.bb c p)).map g).sum =
      (squares.map (fun s => if absBoard b s = some (c, p) then g s else 0)).sum := by
  rw [squaresOf_eq, sum_filter_map]
  apply sum_map_congr
  intro s hs
  have := hasSq_bb (c := c) (p := p) hb (mem_squares.1 hs)
  by_cases h : absBoard b s = some (c, p)
  · rw [if_pos h, if_pos (this.2 h)]
  · rw [if_neg h, if_neg (fun e => h (this.1 e))]

theorem mval_split (T : List (List Int)) (c : Color) (x : Option Man) (s : Nat) :
    (if x = some (c, Piece.pawn) then pst T Piece.pawn.index (pstSquare c 56 s) else 0) +
    ((if x = some (c, Piece.knight) then pst T Piece.knight.index (pstSquare c 56 s) else 0) +
    ((if x = some (c, Piece.bishop) then pst T Piece.bishop.index (pstSquare c 56 s) else 0) +
    ((if x = some (c, Piece.rook) then pst T Piece.rook.index (pstSquare c 56 s) else 0) +
    ((if x = some (c, Piece.queen) then pst T Piece.queen.index (pstSquare c 56 s) else 0) +
    ((if x = some (c, Piece.king) then pst T Piece.king.index (pstSquare c 56 s) else 0) + 0))))) =
      mval T c x s := by
  cases x with
  | none => simp [mval]
  | some y =>
    obtain ⟨c', q⟩ := y
    by_cases hc : c' = c
    · subst hc
      cases q <;> simp [mval]
    · have : ∀ q', (some (c', q) : Option Man) ≠ some (c, q') := by
        intro q' e; cases e; exact hc rfl
      simp [mval, hc, this]

/-- **one side's table total** is the sum over the squares of the value of the man standing there. -/
theorem sideTotal_sq {b : Board} (hb : consistent b = true) (T : List (List Int)) (c : Color) :
    sideTotal T b c = (squares.map (fun s => mval T c (absBoard b s) s)).sum := by
  simp only [sideTotal, Piece.all, List.map_cons, List.map_nil, List.sum_cons, List.sum_nil, sideVal,
    sum_over_bb hb]
  simp only [← sum_map_add, Int.add_zero]
  apply sum_map_congr
  intro s _
  have := mval_split T c (absBoard b s) s
  simp only [Int.add_zero] at this
  exact this

/-! ### the game phase -/

/-- the phase counter, written without reference to the side to move. -/
def phaseOf (b : Board) : Int :=
  (Piece.all.map (fun p => sideCnt b .white p + sideCnt b .black p)).sum

theorem gamephase_eq (b : Board) : (accumulate b).gamephase = phaseOf b := by
  rw [accumulate_gamephase]
  simp only [phaseOf, Piece.all, List.map_cons, List.map_nil, List.sum_cons, List.sum_nil, dPhase]
  cases b.active <;> simp only [Color.other] <;> omega

theorem mph_split (x : Option Man) :
    ((if x = some (Color.white, Piece.pawn) then PHASE_INCREMENTS.getD Piece.pawn.index 0 else 0) +
     (if x = some (Color.black, Piece.pawn) then PHASE_INCREMENTS.getD Piece.pawn.index 0 else 0)) +
    (((if x = some (Color.white, Piece.knight) then PHASE_INCREMENTS.getD Piece.knight.index 0 else 0) +
      (if x = some (Color.black, Piece.knight) then PHASE_INCREMENTS.getD Piece.knight.index 0 else 0)) +
    (((if x = some (Color.white, Piece.bishop) then PHASE_INCREMENTS.getD Piece.bishop.index 0 else 0) +
      (if x = some (Color.black, Piece.bishop) then PHASE_INCREMENTS.getD Piece.bishop.index 0 else 0)) +
    (((if x = some (Color.white, Piece.rook) then PHASE_INCREMENTS.getD Piece.rook.index 0 else 0) +
      (if x = some (Color.black, Piece.rook) then PHASE_INCREMENTS.getD Piece.rook.index 0 else 0)) +
    (((if x = some (Color.white, Piece.queen) then PHASE_INCREMENTS.getD Piece.queen.index 0 else 0) +
      (if x = some (Color.black, Piece.queen) then PHASE_INCREMENTS.getD Piece.queen.index 0 else 0)) +
    (((if x = some (Color.white, Piece.king) then PHASE_INCREMENTS.getD Piece.king.index 0 else 0) +
      (if x = some (Color.black, Piece.king) then PHASE_INCREMENTS.getD Piece.king.index 0 else 0)))))))
      = mph x := by
  cases x with
  | none => simp [mph]
  | some y =>
    obtain ⟨c', q⟩ := y
    cases c' <;> cases q <;> simp [mph]

/-- **the game phase** is the sum over the squares of the phase increment of the man standing there. -/
theorem phaseOf_sq {b : Board} (hb : consistent b = true) :
    phaseOf b = (squares.map (fun s => mph (absBoard b s))).sum := by
  simp only [phaseOf, Piece.all, List.map_cons, List.map_nil, List.sum_cons, List.sum_nil, sideCnt,
    sum_over_bb hb]
  simp only [← sum_map_add, Int.add_zero]
  apply sum_map_congr
  intro s _
  exact mph_split (absBoard b s)

/-! ### men and pawns -/

/-- first component of the rank: the number of men plus the number of pawns (a pawn counts twice). -/
def qFirst (b : Board) : Nat :=
  menCount b .white + menCount b .black + (countOnes (b.bb .white .pawn) + countOnes (b.bb .black .pawn))

theorem mw_split (x : Option Man) :
    (if isMan (fun _ => x) Color.white 0 = true then (1 : Int) else 0) +
    (if isMan (fun _ => x) Color.black 0 = true then (1 : Int) else 0) +
    ((if x = some (Color.white, Piece.pawn) then (1 : Int) else 0) +
     (if x = some (Color.black, Piece.pawn) then (1 : Int) else 0)) = mw x := by
  cases x with
  | none => simp [mw, isMan]
  | some y =>
    obtain ⟨c', q⟩ := y
    cases c' <;> cases q <;> simp [mw, isMan]

theorem pawnCount_sq {b : Board} (hb : consistent b = true) (c : Color) :
    ((countOnes (b.bb c .pawn) : Nat) : Int) =
      (squares.map (fun s => if absBoard b s = some (c, Piece.pawn) then (1 : Int) else 0)).sum := by
  have := sum_over_bb hb c .pawn (fun _ => (1 : Int))
  rw [← this]
  unfold countOnes
  generalize squaresOf (b.bb c .pawn) = l
  induction l with
  | nil => rfl
  | cons x xs ih => simp only [List.length_cons, List.map_cons, List.sum_cons, ← ih]; omega

/-- **men plus pawns** is the sum over the squares of the weight of the man standing there. -/
theorem qFirst_sq {b : Board} (hb : consistent b = true) :
    ((qFirst b : Nat) : Int) = (squares.map (fun s => mw (absBoard b s))).sum := by
  unfold qFirst
  rw [menCount_eq_menAt hb, menCount_eq_menAt hb]
  simp only [Int.natCast_add, pawnCount_sq hb, menAt, countP_eq_sum]
  simp only [← sum_map_add]
  apply sum_map_congr
  intro s _
  have := mw_split (absBoard b s)
  simp only [isMan] at this ⊢
  exact this

end Flounder.Chess
