/-
  Termination rank of the quiescence search, part 2 (mailbox level): how a pseudo-legal move on a valid position
  changes a sum over the 64 squares of a function of the man standing there.

    * `wsum_play_simple`  : quiet move, capture, promotion — only `src` and `dst` change;
    * `wsum_play_ep`      : en passant — `src`, `dst` and the square of the captured pawn change;
    * `wsum_play_castle`  : castling — king and rook each move, the sum is unchanged;
    * `mw_play_lt`        : a capture, an en-passant capture or a promotion strictly decreases men + pawns;
    * `mw_play_eq`, `mph_play_eq`, `mval_other_play_eq` : a quiet move or castling changes neither men + pawns,
      nor the game phase, nor anything the evaluation reads of the side that did not move.
-/
import Flounder.Lemmas.QTermSums

namespace Flounder.Chess
open Flounder Flounder.Spec Gen

/-- sum over the squares of `W (man on the square)`. -/
def wsum (W : Option Man → Int) (f : Nat → Option Man) : Int := (squares.map (fun s => W (f s))).sum

theorem wsum_congr (W : Option Man → Int) {f g : Nat → Option Man} (h : Agree f g) : wsum W f = wsum W g := by
  unfold wsum
  apply sum_map_congr
  intro s hs
  rw [h s (mem_squares.1 hs)]

variable {p : Pos} {m : Move} {pc : Piece}

/-- quiet move, capture or promotion: only `src` and `dst` change. -/
theorem wsum_play_simple (W : Option Man → Int) (hf : PlayFacts p m pc)
    (h1 : m.kind ≠ .enPassant) (h2 : m.kind ≠ .castle) :
    wsum W (playBoard p m) - wsum W p.board =
      (W none + W (some (p.turn, m.piece))) - (W (some (p.turn, pc)) + W (p.board m.dst)) := by
  unfold wsum
  rw [sum_diff_on squares squares_nodup _ [m.src, m.dst] _ (by simp [hf.src_ne_dst])
    (by
      intro a ha
      simp only [List.mem_cons, List.not_mem_nil, or_false] at ha
      rcases ha with e | e <;> subst e
      · exact mem_squares.2 hf.hs
      · exact mem_squares.2 hf.hd)
    (by
      intro s _ hs
      simp only [List.mem_cons, List.not_mem_nil, or_false, not_or] at hs
      rw [playBoard_other p m hs.2 hs.1 (fun h => h1 h.1) (fun h => h2 h.1) (fun h => h2 h.1)])]
  simp only [List.map_cons, List.map_nil, List.sum_cons, List.sum_nil, playBoard_src p m hf.src_ne_dst,
    playBoard_dst, hf.src]
  omega

/-- en passant: the captured pawn disappears from a third square. -/
theorem wsum_play_ep (W : Option Man → Int) (hf : PlayFacts p m pc) (hk : m.kind = .enPassant) :
    wsum W (playBoard p m) - wsum W p.board = W none - W (some (p.turn.other, .pawn)) := by
  obtain ⟨hc, hcap⟩ := hf.epCap hk
  obtain ⟨hpc, hmp⟩ := hf.pieceEp hk
  have hdst := hf.dstEmpty (Or.inr (Or.inl hk))
  have hsd := hf.src_ne_dst
  have c1 : capSq p.turn m.dst ≠ m.src := by
    intro e
    rw [e, hf.src] at hcap
    exact Color.other_ne _ (congrArg Prod.fst (Option.some.inj hcap)).symm
  have c2 : capSq p.turn m.dst ≠ m.dst := by
    intro e
    rw [e, hdst] at hcap
    cases hcap
  have hpcap : playBoard p m (capSq p.turn m.dst) = none := by
    rw [playBoard_eq, if_neg c2, if_neg c1, if_pos ⟨hk, rfl⟩]
  unfold wsum
  rw [sum_diff_on squares squares_nodup _ [m.src, m.dst, capSq p.turn m.dst] _
    (by simp [hsd, c1.symm, c2.symm])
    (by
      intro a ha
      simp only [List.mem_cons, List.not_mem_nil, or_false] at ha
      rcases ha with e | e | e <;> subst e
      · exact mem_squares.2 hf.hs
      · exact mem_squares.2 hf.hd
      · exact mem_squares.2 hc)
    (by
      intro s _ hs
      simp only [List.mem_cons, List.not_mem_nil, or_false, not_or] at hs
      rw [playBoard_other p m hs.2.1 hs.1 (fun h => hs.2.2 h.2) (fun h => by rw [hk] at h; cases h.1)
        (fun h => by rw [hk] at h; cases h.1)])]
  simp only [List.map_cons, List.map_nil, List.sum_cons, List.sum_nil, playBoard_src p m hsd,
    playBoard_dst, hf.src, hpcap, hcap, hdst, hpc, hmp]
  omega

/-- castling: the king goes from `src` to `dst`, the rook from its home to the square next to the king. -/
theorem wsum_play_castle (W : Option Man → Int) (hf : PlayFacts p m pc) (hk : m.kind = .castle) :
    wsum W (playBoard p m) - wsum W p.board = 0 := by
  obtain ⟨r1, r2, r3, r4, r5, r6, r7⟩ := castle_squares hf hk
  obtain ⟨_, _, c3, c4⟩ := hf.castle hk
  obtain ⟨hpc, hmp⟩ := hf.pieceCastle hk
  have hdst := hf.dstEmpty (Or.inr (Or.inr hk))
  have hsd := hf.src_ne_dst
  have hne : ¬ (m.kind = .enPassant ∧ rookHome p.turn (file m.dst == 6) = capSq p.turn m.dst) :=
    fun h => by rw [hk] at h; cases h.1
  have hne' : ¬ (m.kind = .enPassant ∧ rookTo m.dst = capSq p.turn m.dst) :=
    fun h => by rw [hk] at h; cases h.1
  have hph : playBoard p m (rookHome p.turn (file m.dst == 6)) = none := by
    rw [playBoard_eq, if_neg r5, if_neg r4, if_neg hne, if_pos ⟨hk, rfl⟩]
  have hpt : playBoard p m (rookTo m.dst) = some (p.turn, .rook) := by
    rw [playBoard_eq, if_neg r7, if_neg r6, if_neg hne', if_neg (fun h => r3 h.2.symm), if_pos ⟨hk, rfl⟩]
  unfold wsum
  rw [sum_diff_on squares squares_nodup _ [m.src, m.dst, rookHome p.turn (file m.dst == 6), rookTo m.dst] _
    (by simp [hsd, r3, r4.symm, r5.symm, r6.symm, r7.symm])
    (by
      intro a ha
      simp only [List.mem_cons, List.not_mem_nil, or_false] at ha
      rcases ha with e | e | e | e <;> subst e
      · exact mem_squares.2 hf.hs
      · exact mem_squares.2 hf.hd
      · exact mem_squares.2 r1
      · exact mem_squares.2 r2)
    (by
      intro s _ hs
      simp only [List.mem_cons, List.not_mem_nil, or_false, not_or] at hs
      rw [playBoard_other p m hs.2.1 hs.1 (fun h => by rw [hk] at h; cases h.1) (fun h => hs.2.2.1 h.2)
        (fun h => hs.2.2.2 h.2)])]
  simp only [List.map_cons, List.map_nil, List.sum_cons, List.sum_nil, playBoard_src p m hsd,
    playBoard_dst, hf.src, hph, hpt, c3, c4, hdst, hpc, hmp]
  omega

/-! ### men + pawns -/

theorem mw_some_pos (x : Man) : 1 ≤ mw (some x) := by
  obtain ⟨c, q⟩ := x
  cases q <;> simp [mw]

theorem mw_nonneg (x : Option Man) : 0 ≤ mw x := by
  cases x with
  | none => simp [mw]
  | some y => have := mw_some_pos y; omega

/-- **a capture, an en-passant capture or a promotion strictly decreases men + pawns.** -/
theorem mw_play_lt (hf : PlayFacts p m pc)
    (hk : m.kind = .capture ∨ m.kind = .enPassant ∨ m.kind = .promotion) :
    wsum mw (playBoard p m) + 1 ≤ wsum mw p.board := by
  rcases hk with hk | hk | hk
  · have h := wsum_play_simple mw hf (by rw [hk]; decide) (by rw [hk]; decide)
    rw [hf.piece (Or.inr hk)] at h
    have hd := hf.dstFull hk
    cases hx : p.board m.dst with
    | none => exact absurd hx hd
    | some x =>
      rw [hx] at h
      have := mw_some_pos x
      have e : mw none = 0 := rfl
      omega
  · have h := wsum_play_ep mw hf hk
    have e : mw none = 0 := rfl
    have e2 : mw (some (p.turn.other, Piece.pawn)) = 2 := rfl
    omega
  · have h := wsum_play_simple mw hf (by rw [hk]; decide) (by rw [hk]; decide)
    obtain ⟨hpc, hnp, _⟩ := hf.piecePromo hk
    have e : mw none = 0 := rfl
    have e2 : mw (some (p.turn, pc)) = 2 := by rw [hpc]; rfl
    have e3 : mw (some (p.turn, m.piece)) = 1 := by
      generalize m.piece = q at hnp
      cases q <;> first | rfl | exact absurd rfl hnp
    have := mw_nonneg (p.board m.dst)
    omega

/-- a quiet move or castling moves men around: any sum of a function of the man alone is unchanged. -/
theorem wsum_play_eq (W : Option Man → Int) (hf : PlayFacts p m pc) (hk : m.kind = .quiet ∨ m.kind = .castle) :
    wsum W (playBoard p m) = wsum W p.board := by
  rcases hk with hk | hk
  · have h := wsum_play_simple W hf (by rw [hk]; decide) (by rw [hk]; decide)
    rw [hf.piece (Or.inl hk), hf.dstEmpty (Or.inl hk)] at h
    omega
  · have h := wsum_play_castle W hf hk
    omega

/-- … and the side that did not move is not touched at all. -/
theorem mval_other_play_eq (T : List (List Int)) (hf : PlayFacts p m pc)
    (hk : m.kind = .quiet ∨ m.kind = .castle) (s : Nat) :
    mval T p.turn.other (playBoard p m s) s = mval T p.turn.other (p.board s) s := by
  have hdst : p.board m.dst = none := by
    rcases hk with hk | hk
    · exact hf.dstEmpty (Or.inl hk)
    · exact hf.dstEmpty (Or.inr (Or.inr hk))
  have hown : ∀ q t, mval T p.turn.other (some (p.turn, q)) t = 0 := by
    intro q t
    simp only [mval]
    rw [if_neg (fun e => Color.other_ne _ e.symm)]
  have hnone : ∀ t, mval T p.turn.other none t = 0 := fun _ => rfl
  rw [playBoard_eq]
  split
  · rename_i e; rw [e, hdst, hown, hnone]
  split
  · rename_i e; rw [e, hf.src, hown, hnone]
  split
  · rename_i e
    rcases hk with hk | hk <;> rw [hk] at e <;> cases e.1
  split
  · rename_i e
    rw [e.2, (hf.castle e.1).2.2.1, hown, hnone]
  split
  · rename_i e
    rw [e.2, (hf.castle e.1).2.2.2, hown, hnone]
  rfl

end Flounder.Chess
