/-
  C05 range helpers: the score arithmetic of the search never leaves the `i32` range.

  Rust computes scores in `i32` (`-x`, `x + depth as i32`, `max`, comparisons; `saturating_add` in the history
  table; `i8` negation in `order_captures`; `u8` for `ply + 1`).  The model (Model/Search.lean) computes in
  `Int` / `Nat`.  This file shows that the two never differ:

  * `I32`, `I8`, `U8` — the machine ranges; `Sym B x` — `-B ≤ x ≤ B` (a range closed under negation).
  * `TTBound B t` — every record of the table (key-verified or not) has `Sym B eval`;
    `HistSym s` — every history score lies in `[-i32::MAX, i32::MAX]`; `StateOK B s` — both.
    Both are invariants of every step of the search, hold of the fresh state and survive `age`.
  * `…Sites` — for each function of the search a predicate that follows the model's control flow (same
    calls, same arguments, same states) and asserts at every ARITHMETIC SITE that the computed value is
    representable.  They refer to the model's own functions for the values that flow, so there is no second
    copy of the search that could drift.
  * `quiesce_range`, `negamax_range`, `searchPosition_range`, `iterate_range`, `findBestMove_range`:
    windows in `Sym B`, `StateOK B`, `ply + depth ≤ 255` (Rust: `u8`) and an `i32` evaluator imply the
    sites predicate, `Sym B` of the returned score and `StateOK B` of the final state — for every
    `CHECKMATE_SCORE ≤ B ≤ i32::MAX`, every game, every limit, every fuel outcome.
-/
import Flounder.Lemmas.MateBasic

namespace Flounder.Range
open Flounder Gen Flounder.Search

/-! ### machine ranges -/

/-- representable in Rust `i32`. -/
def I32 (x : Int) : Prop := -2147483648 ≤ x ∧ x ≤ 2147483647
/-- representable in Rust `i8` (`MVV_LVA_SCORES`, the key of `order_captures`). -/
def I8 (x : Int) : Prop := -128 ≤ x ∧ x ≤ 127
/-- representable in Rust `u8` (`depth`, `ply`). -/
def U8 (n : Nat) : Prop := n ≤ 255
/-- `|x| ≤ B`. -/
def Sym (B x : Int) : Prop := -B ≤ x ∧ x ≤ B

instance (x : Int) : Decidable (I32 x) := by unfold I32; infer_instance
instance (x : Int) : Decidable (I8 x) := by unfold I8; infer_instance
instance (n : Nat) : Decidable (U8 n) := by unfold U8; infer_instance
instance (B x : Int) : Decidable (Sym B x) := by unfold Sym; infer_instance

theorem cm_eq : CHECKMATE_SCORE = 2147482647 := rfl
theorem i32Max_eq' : SearchState.i32Max = 2147483647 := rfl

/-- the admissible bounds: `CHECKMATE_SCORE ≤ B ≤ i32::MAX`. -/
def BoundOK (B : Int) : Prop := CHECKMATE_SCORE ≤ B ∧ B ≤ SearchState.i32Max

theorem boundOK_cm : BoundOK CHECKMATE_SCORE := by unfold BoundOK; decide
theorem boundOK_max : BoundOK SearchState.i32Max := by unfold BoundOK; decide

theorem Sym.neg {B x : Int} (h : Sym B x) : Sym B (-x) := by unfold Sym at *; omega
theorem Sym.max {B x y : Int} (hx : Sym B x) (hy : Sym B y) : Sym B (max x y) := by unfold Sym at *; omega
theorem Sym.i32 {B x : Int} (hB : BoundOK B) (h : Sym B x) : I32 x := by
  unfold Sym at h; unfold BoundOK at hB; rw [i32Max_eq'] at hB; unfold I32; omega
theorem Sym.neg_i32 {B x : Int} (hB : BoundOK B) (h : Sym B x) : I32 (-x) := h.neg.i32 hB
theorem Sym.mono {B B' x : Int} (hBB : B ≤ B') (h : Sym B x) : Sym B' x := by unfold Sym at *; omega
theorem sym_zero {B : Int} (hB : BoundOK B) : Sym B 0 := by
  unfold BoundOK at hB; rw [cm_eq] at hB; unfold Sym; omega
theorem sym_negInf {B : Int} (hB : BoundOK B) : Sym B NEGATIVE_INFINITY := by
  unfold BoundOK at hB; rw [cm_eq] at hB; unfold Sym; rw [negInf_eq]; omega
theorem sym_inf {B : Int} (hB : BoundOK B) : Sym B INFINITY := by
  unfold BoundOK at hB; rw [cm_eq] at hB; unfold Sym; rw [inf_eq]; omega
theorem sym_negCm {B : Int} (hB : BoundOK B) : Sym B (-CHECKMATE_SCORE) := by
  unfold BoundOK at hB; rw [cm_eq] at hB ⊢; unfold Sym; omega
/-- the terminal score of `handle_terminal_position` for a `u8` depth. -/
theorem sym_mate {B : Int} (hB : BoundOK B) {d : Nat} (hd : d ≤ 255) : Sym B (-CHECKMATE_SCORE + (d : Int)) := by
  unfold BoundOK at hB; rw [cm_eq] at hB ⊢; unfold Sym; omega

/-- `-x` is representable exactly when `x ≠ i32::MIN`. -/
theorem i32_neg_iff {x : Int} (h : I32 x) : I32 (-x) ↔ x ≠ -2147483648 := by unfold I32 at *; omega

/-! ### the state invariant -/

/-- every record of the table — key-verified or not — carries a score in `[-B, B]`. -/
def TTBound (B : Int) (t : TT) : Prop := ∀ (k : UInt64) (e : Entry), t.table[k]? = some e → Sym B e.eval

/-- every history score lies in `[-i32::MAX, i32::MAX]` (in particular it is not `i32::MIN`). -/
def HistSym (s : SearchState) : Prop := ∀ i, Sym SearchState.i32Max (s.history.getD i 0)

/-- every score printed by `print_info` so far lies in `[-B, B]`. -/
def InfoSym (B : Int) (s : SearchState) : Prop := ∀ e ∈ s.info, Sym B e.2.1

/-- the state invariant: table records, history scores, printed scores. -/
structure StateOK (B : Int) (s : SearchState) : Prop where
  tt : TTBound B s.tt
  hist : HistSym s
  info : InfoSym B s

theorem HistSym.histOK {s : SearchState} (h : HistSym s) : HistOK s := fun i => (h i).2

theorem ttBound_empty (B : Int) : TTBound B {} := by
  intro k e h
  rw [tt_empty_get] at h; cases h

theorem TTBound.retrieve {B : Int} {t : TT} (h : TTBound B t) {k : UInt64} {e : Entry}
    (hr : t.retrieve k = some e) : Sym B e.eval := by
  unfold TT.retrieve at hr
  split at hr
  · rename_i e' he
    split at hr
    · cases hr; exact h k _ he
    · cases hr
  · cases hr

theorem TTBound.mono {B B' : Int} {t : TT} (hBB : B ≤ B') (h : TTBound B t) : TTBound B' t :=
  fun k e he => (h k e he).mono hBB

/-- **stores only write what they are given**: storing a score of `[-B, B]` keeps the table bound. -/
theorem TTBound.store {B : Int} {t : TT} (h : TTBound B t) (K : UInt64) {ev : Int} (hev : Sym B ev)
    (mv : Option Move) (d : Nat) (b : Bounds) : TTBound B (t.store K ev mv d b) := by
  have ins : TTBound B { table := t.table.insert K ⟨K, ev, mv, d, b⟩ } := by
    intro k e he
    simp only [Std.HashMap.getElem?_insert] at he
    split at he
    · cases he; exact hev
    · exact h k e he
  unfold TT.store
  split
  · exact ins
  · split
    · exact ins
    · exact h

theorem histSym_of_history {s s' : SearchState} (h : HistSym s) (e : s'.history = s.history) : HistSym s' := by
  intro i; rw [e]; exact h i

theorem histSym_fresh : HistSym ({} : SearchState) := by
  intro i
  show Sym _ ((Array.replicate 4096 (0 : Int)).getD i 0)
  rw [Array.getD_eq_getD_getElem?, Array.getElem?_replicate]
  split <;> simp [Sym, i32Max_eq']

theorem stateOK_fresh (B : Int) : StateOK B ({} : SearchState) :=
  ⟨ttBound_empty B, histSym_fresh, fun e he => by cases he⟩

theorem tdiv2_sym (v : Int) (h : Sym 2147483647 v) : Sym 2147483647 (v.tdiv 2) := by
  unfold Sym at *
  rcases Int.le_total 0 v with h0 | h0
  · rw [Int.tdiv_eq_ediv_of_nonneg h0]; omega
  · have h1 : v.tdiv 2 = -((-v).tdiv 2) := by rw [Int.neg_tdiv, Int.neg_neg]
    rw [h1, Int.tdiv_eq_ediv_of_nonneg (by omega)]
    omega

/-- `HistoryTable::age` (`/= 2` on `i32` never overflows) keeps the history range. -/
theorem histSym_ageHistory {s : SearchState} (h : HistSym s) : HistSym s.ageHistory := by
  intro i
  show Sym _ ((s.history.map (fun v => v.tdiv 2)).getD i 0)
  have hi := h i
  rw [Array.getD_eq_getD_getElem?] at hi ⊢
  rw [Array.getElem?_map]
  cases hg : s.history[i]? with
  | none => simp [Sym, i32Max_eq']
  | some v =>
    rw [hg] at hi
    simp only [Option.getD_some, Option.map_some, i32Max_eq'] at hi ⊢
    exact tdiv2_sym v hi

/-! ### `record_cutoff` -/

/-- the arithmetic of `HistoryTable::record_cutoff(mv, depth)` in state `s`:
    `(depth as i32) * (depth as i32)` is representable, the old score is, the ideal sum is not below
    `i32::MIN` (so `saturating_add` saturates only upwards, which is the only clipping the model performs),
    and the stored value is representable. -/
def cutoffSites (s : SearchState) (mv : Move) (depth : Nat) : Prop :=
  I32 (depth : Int) ∧ I32 ((depth : Int) * (depth : Int)) ∧ I32 (s.historyScore mv) ∧
  -2147483648 ≤ s.historyScore mv + (depth : Int) * (depth : Int) ∧
  I32 ((s.recordCutoff mv depth).historyScore mv)

theorem recordCutoff_history_getD (s : SearchState) (mv : Move) (d : Nat) (i : Nat) :
    (s.recordCutoff mv d).history.getD i 0 = s.history.getD i 0 ∨
    (i = mv.src * 64 + mv.dst ∧
      (s.recordCutoff mv d).history.getD i 0 =
        (if s.history.getD i 0 + (d : Int) * (d : Int) > SearchState.i32Max then SearchState.i32Max
         else s.history.getD i 0 + (d : Int) * (d : Int))) := by
  unfold SearchState.recordCutoff
  simp only
  rw [Array.getD_eq_getD_getElem?, Array.getD_eq_getD_getElem?, Array.getElem?_setIfInBounds]
  split
  · rename_i h1
    split
    · right
      refine ⟨h1.symm, ?_⟩
      subst h1
      simp only [Option.getD_some]
      rw [Array.getD_eq_getD_getElem?]
    · left
      rename_i h2
      have : s.history[i]? = none := by
        rw [Array.getElem?_eq_none_iff]; omega
      rw [Array.getD_eq_getD_getElem?, this]
  · left; rw [Array.getD_eq_getD_getElem?]

theorem sq_le_of_u8 {d : Nat} (hd : d ≤ 255) : (d : Int) * (d : Int) ≤ 65025 := by
  have h : d * d ≤ 255 * 255 := Nat.mul_le_mul hd hd
  have : ((d * d : Nat) : Int) ≤ 65025 := by omega
  rwa [Int.natCast_mul] at this

theorem sq_nonneg (d : Nat) : 0 ≤ (d : Int) * (d : Int) := by
  have : (0 : Int) ≤ ((d * d : Nat) : Int) := Int.natCast_nonneg _
  rwa [Int.natCast_mul] at this

theorem histSym_recordCutoff {s : SearchState} (h : HistSym s) (mv : Move) (d : Nat) :
    HistSym (s.recordCutoff mv d) := by
  intro i
  have hi := h i
  have hsq := sq_nonneg d
  rcases recordCutoff_history_getD s mv d i with e | ⟨_, e⟩
  · rw [e]; exact hi
  · rw [e]
    unfold Sym at *
    rw [i32Max_eq'] at *
    split <;> omega

theorem cutoffSites_of {s : SearchState} (h : HistSym s) (mv : Move) {d : Nat} (hd : d ≤ 255) :
    cutoffSites s mv d := by
  have h1 := h (mv.src * 64 + mv.dst)
  have h2 := histSym_recordCutoff h mv d (mv.src * 64 + mv.dst)
  have hsq := sq_nonneg d
  have hsq' := sq_le_of_u8 hd
  unfold Sym at h1 h2
  rw [i32Max_eq'] at h1 h2
  unfold cutoffSites SearchState.historyScore I32
  omega

/-- the state change at a beta cutoff keeps the history range. -/
theorem histSym_cut {s : SearchState} (h : HistSym s) (mv : Move) (ply depth : Nat) :
    HistSym (if mv.kind = MoveType.quiet then (s.storeKiller mv ply).recordCutoff mv depth else s) := by
  split
  · exact histSym_recordCutoff (histSym_of_history h (storeKiller_history s mv ply)) mv depth
  · exact h

theorem cut_tt (s : SearchState) (mv : Move) (ply depth : Nat) :
    (if mv.kind = MoveType.quiet then (s.storeKiller mv ply).recordCutoff mv depth else s).tt = s.tt := by
  split
  · exact storeKiller_tt s mv ply
  · rfl

theorem stateOK_cut {B : Int} {s : SearchState} (h : StateOK B s) (mv : Move) (ply depth : Nat) :
    StateOK B (if mv.kind = MoveType.quiet then (s.storeKiller mv ply).recordCutoff mv depth else s) :=
  ⟨by rw [cut_tt]; exact h.tt, histSym_cut h.hist mv ply depth, by
    have : (if mv.kind = MoveType.quiet then (s.storeKiller mv ply).recordCutoff mv depth else s).info = s.info := by
      split
      · show (s.storeKiller mv ply).info = s.info
        unfold SearchState.storeKiller
        split
        · simp only []
          split <;> rfl
        · rfl
      · rfl
    unfold InfoSym; rw [this]; exact h.info⟩

theorem stateOK_polled {B : Int} {s : SearchState} (h : StateOK B s) : StateOK B (polled s) :=
  ⟨h.tt, h.hist, h.info⟩
theorem stateOK_incrementNodes {B : Int} {s : SearchState} (h : StateOK B s) : StateOK B s.incrementNodes :=
  ⟨h.tt, h.hist, h.info⟩

theorem stateOK_counted {B : Int} {s : SearchState} (h : StateOK B s) (e : Entry) (d : Nat) :
    StateOK B (counted s e d) := by
  unfold counted; split <;> exact ⟨h.tt, h.hist, h.info⟩

theorem stateOK_store {B : Int} {s : SearchState} (h : StateOK B s) (K : UInt64) {ev : Int} (hev : Sym B ev)
    (mv : Option Move) (d : Nat) (b : Bounds) : StateOK B { s with tt := s.tt.store K ev mv d b } :=
  ⟨h.tt.store K hev mv d b, h.hist, h.info⟩

/-! ### the sort keys -/

section keys
variable {P : Type} (G : Game P)

/-- arithmetic of the sort key of `order_moves` for one move: `score: i8`, `-(score as i32)`,
    `-(score as i32) - 1000`, and `-self.history.get_score(mv)`.  (Asserted for every move, whichever branch
    of the key function it takes.) -/
def orderKeySites (s : SearchState) (p : P) (mv : Move) : Prop :=
  (∀ sc, captureScore G p mv = some sc → I8 sc ∧ I32 (-sc) ∧ I32 (-sc - ORDER_CAPTURE_BASE)) ∧
  I32 (s.historyScore mv) ∧ I32 (-(s.historyScore mv))

/-- arithmetic of the sort key of `order_captures` for one move: `score: i8` and `-score` IN `i8`. -/
def captureKeySites (p : P) (mv : Move) : Prop :=
  ∀ sc, captureScore G p mv = some sc → I8 sc ∧ I8 (-sc)

theorem getD_ge_of_all (l : List Int) (b : Int) (hb : b ≤ 0) (h : ∀ x ∈ l, b ≤ x) (j : Nat) :
    b ≤ l.getD j 0 := by
  rw [List.getD_eq_getElem?_getD]
  cases hg : l[j]? with
  | none => simpa using hb
  | some v =>
    simp only [Option.getD_some]
    exact h v (List.mem_of_getElem? hg)

theorem mvvLva_ge (i j : Nat) : 0 ≤ (MVV_LVA_SCORES.getD i []).getD j 0 := by
  apply getD_ge_of_all _ 0 (Int.le_refl _)
  rw [List.getD_eq_getElem?_getD]
  cases hg : MVV_LVA_SCORES[i]? with
  | none => simp
  | some row =>
    simp only [Option.getD_some]
    have hrow : row ∈ MVV_LVA_SCORES := List.mem_of_getElem? hg
    have : ∀ r ∈ MVV_LVA_SCORES, ∀ x ∈ r, 0 ≤ x := by decide
    exact this row hrow

theorem captureScore_range {p : P} {mv : Move} {sc : Int} (h : captureScore G p mv = some sc) :
    0 ≤ sc ∧ sc ≤ 55 := by
  unfold captureScore at h
  split at h
  · cases h; exact ⟨mvvLva_ge _ _, mvvLva_le _ _⟩
  · cases h

theorem captureKeySites_of (p : P) (mv : Move) : captureKeySites G p mv := by
  intro sc h
  have := captureScore_range G h
  unfold I8; omega

theorem orderKeySites_of {s : SearchState} (h : HistSym s) (p : P) (mv : Move) : orderKeySites G s p mv := by
  refine ⟨fun sc hs => ?_, ?_⟩
  · have := captureScore_range G hs
    have hb : ORDER_CAPTURE_BASE = 1000 := rfl
    unfold I8 I32; omega
  · have := h (mv.src * 64 + mv.dst)
    unfold Sym at this; rw [i32Max_eq'] at this
    unfold SearchState.historyScore I32; omega

end keys

end Flounder.Range
