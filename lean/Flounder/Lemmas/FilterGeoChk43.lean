/- kernel evaluation of the collinear-triple checker, king squares 48 .. 63 (see FilterGeoDefs.lean). -/
import Flounder.Lemmas.FilterGeoDefs
namespace Flounder.Spec.NonKing
set_option maxRecDepth 100000 in
theorem chkTri_ok3 : chkTri 48 16 = true := by decide +kernel
end Flounder.Spec.NonKing
