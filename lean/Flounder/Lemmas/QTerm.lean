/-
  Termination of `search_until_quiet` from a rank (`QRank`, Lemmas/QTermDefs.lean) — no hypothesis about
  the PLAIN quiescence tree (`Spec.QplainFinite`), which is infinite on a perpetual check.  (The reference
  value `Spec.Q` exists under the same rank with the same fuel: Lemmas/QSpec.lean, `Spec.Q_total`.)

  A child node is searched with the window `(-β, -α')`, `α' ≥ max α standPat`; it gets past its own
  stand-pat test only if `eval child < -α' ≤ -(eval parent)`, and then `ρ child < ρ parent`.  So the
  recursion below `p` is at most `ρ p + 1` nodes deeper than `p`, and `ρ p + 2` units of fuel suffice
  (`p` itself, `ρ p` strictly decreasing steps, and the last child, which returns at its stand-pat or
  checkmate test but still costs one unit).  `ρ p + 1` is NOT enough: see `QTermExample.lean`,
  `quiesce_rank_succ_not_enough`.

  Also: once the answer is `some _`, more fuel changes nothing — neither the value nor the final state
  (`quiesce_fuel_mono`, `negamax_fuel_mono`, ...), so the fuel is a proof device, not behaviour.
-/
import Flounder.Lemmas.QTermDefs
import Flounder.Lemmas.SearchTotal
import Flounder.Lemmas.SearchIterate

namespace Flounder.Search
open Flounder Gen

section qterm
variable {P : Type} (G : Game P)

/-! ### quiescence answers -/

variable {S : P → Prop} {ρ : P → Nat}

/-- the induction: `n` bounds `ρ p + 1` only for a node that gets past its stand-pat test; a node that
    stands pat (or is a checkmate) needs one unit of fuel whatever its rank. -/
theorem quiesce_some_of_rank (hR : QRank G S ρ) :
    ∀ (n fuel : Nat) (p : P) (α β : Int) (s : SearchState),
      S p → (G.eval p < β → ρ p + 1 ≤ n) → n + 1 ≤ fuel →
      ∃ r, (quiesce G fuel p α β s).1 = some r := by
  intro n
  induction n with
  | zero =>
    intro fuel p α β s _ hn hfuel
    obtain ⟨f, rfl⟩ : ∃ f, fuel = f + 1 := ⟨fuel - 1, by omega⟩
    rw [quiesce_succ]
    split
    · exact ⟨_, rfl⟩
    · split
      · exact ⟨β, rfl⟩
      · rename_i hβ
        have := hn (by omega)
        omega
  | succ n ih =>
    intro fuel p α β s hp hn hfuel
    obtain ⟨f, rfl⟩ : ∃ f, fuel = f + 1 := ⟨fuel - 1, by omega⟩
    have hperm := orderCaptures_perm G p (qList G p)
    rw [quiesce_succ]
    split
    · exact ⟨_, rfl⟩
    · split
      · exact ⟨β, rfl⟩
      · rename_i hβ
        have hρ : ρ p ≤ n := by have := hn (by omega); omega
        apply quiesceLoop_some_ge G (quiesce G f) p β (G.eval p)
        · omega
        · intro m hm a s' ha
          have hm' : m ∈ qList G p := hperm.mem_iff.1 hm
          refine ih f (G.play p m) (-β) (-a) s' (hR.closed p hp m hm') (fun hlt => ?_) (by omega)
          have := hR.decreases p hp m hm' (by omega)
          omega

/-- **quiescence terminates**: `ρ p + 2` units of fuel are enough, for every window, table, stack and
    deadline oracle. -/
theorem quiesce_terminates (hR : QRank G S ρ) (p : P) (hp : S p) (fuel : Nat) (hf : ρ p + 2 ≤ fuel)
    (α β : Int) (s : SearchState) : ∃ r, (quiesce G fuel p α β s).1 = some r :=
  quiesce_some_of_rank G hR (ρ p + 1) fuel p α β s hp (fun _ => Nat.le_refl _) hf

/-! ### the main search answers -/

theorem negamax_terminates (hR : QRank G S ρ) (hM : MovesClosed G S) (B : Nat)
    (hB : ∀ p, S p → ρ p ≤ B) (qfuel : Nat) (hq : B + 2 ≤ qfuel) :
    ∀ (depth : Nat) (p : P) (_ : S p) (ply : Nat) (α β : Int) (s : SearchState),
      ∃ r, (negamax G qfuel depth p ply α β s).1 = some r := by
  intro d
  induction d with
  | zero =>
    intro p hp ply α β s
    rw [negamax_zero]
    split
    · exact ⟨_, rfl⟩
    · rcases hpr : probeTT G s.incrementNodes p 0 α β with ⟨ro, mvv, s1⟩
      cases ro with
      | some r => exact ⟨r, rfl⟩
      | none =>
        simp only
        unfold leafResult
        obtain ⟨r, hr⟩ := quiesce_terminates G hR p hp qfuel (by have := hB p hp; omega) α β s1
        rcases hqr : quiesce G qfuel p α β s1 with ⟨qo, s2⟩
        rw [hqr] at hr
        simp only at hr
        subst hr
        exact ⟨_, rfl⟩
  | succ d ih =>
    intro p hp ply α β s
    rw [negamax_succ]
    split
    · exact ⟨_, rfl⟩
    · rcases hpr : probeTT G s.incrementNodes p (d + 1) α β with ⟨ro, mvv, s1⟩
      cases ro with
      | some r => exact ⟨r, rfl⟩
      | none =>
        simp only
        cases hms : G.moves p with
        | nil =>
          rw [innerResult_nil G _ d p ply α β mvv s1 hms]
          split <;> exact ⟨_, rfl⟩
        | cons m0 tl =>
          rw [innerResult_cons G _ d p ply α β mvv s1 m0 tl hms]
          have hperm := orderMoves_perm G s1 p (G.moves p) mvv ply
          obtain ⟨acc, hacc⟩ := negamaxLoop_some G (negamax G qfuel d) p (d + 1) ply β
            (orderMoves G s1 p (G.moves p) mvv ply)
            ⟨α, ⟨NEGATIVE_INFINITY, some ((orderMoves G s1 p (G.moves p) mvv ply).headD m0)⟩⟩ s1
            (fun m hm pl a b s' => ih (G.play p m) (hM p hp m (hperm.mem_iff.1 hm)) pl a b s')
          rcases hl : negamaxLoop G (negamax G qfuel d) p (d + 1) ply β
            (orderMoves G s1 p (G.moves p) mvv ply)
            ⟨α, ⟨NEGATIVE_INFINITY, some ((orderMoves G s1 p (G.moves p) mvv ply).headD m0)⟩⟩ s1 with ⟨ro, s2⟩
          rw [hl] at hacc
          simp only at hacc
          subst hacc
          simp only
          exact ⟨_, finishNode_fst G p (d + 1) α β acc s2⟩

theorem searchPosition_terminates (hR : QRank G S ρ) (hM : MovesClosed G S) (B : Nat)
    (hB : ∀ p, S p → ρ p ≤ B) (qfuel : Nat) (hq : B + 2 ≤ qfuel) (p : P) (hp : S p) (depth : Nat)
    (s : SearchState) : ∃ r, (searchPosition G qfuel p depth s).1 = some r := by
  rw [searchPosition_eq]
  exact negamax_terminates G hR hM B hB qfuel hq depth p hp 0 _ _ _

theorem iterate_terminates (hR : QRank G S ρ) (hM : MovesClosed G S) (B : Nat)
    (hB : ∀ p, S p → ρ p ≤ B) (qfuel : Nat) (hq : B + 2 ≤ qfuel) (p : P) (hp : S p) (maxDepth : Nat) :
    ∀ (n cur : Nat) (best : Int × Option Move) (s : SearchState),
      ∃ r, (iterate G qfuel p maxDepth n cur best s).1 = some r := by
  intro n
  induction n with
  | zero => intro cur best s; exact ⟨best, rfl⟩
  | succ n ih =>
    intro cur best s
    rw [iterate_succ]
    split
    · exact ⟨best, rfl⟩
    · split
      · exact ⟨best, rfl⟩
      · obtain ⟨r, hr⟩ := searchPosition_terminates G hR hM B hB qfuel hq p hp cur (polled s)
        rcases hsp : searchPosition G qfuel p cur (polled s) with ⟨ro, s2⟩
        rw [hsp] at hr
        simp only at hr
        subst hr
        simp only
        split
        · exact ih _ _ _
        · exact ih _ _ _

theorem findBestMove_terminates (hR : QRank G S ρ) (hM : MovesClosed G S) (B : Nat)
    (hB : ∀ p, S p → ρ p ≤ B) (qfuel : Nat) (hq : B + 2 ≤ qfuel) (p : P) (hp : S p) (D : Nat)
    (limit : Limit) (s : SearchState) : ∃ r, (findBestMove G qfuel p D limit s).1 = some r := by
  rw [findBestMove_eq]
  obtain ⟨r, hr⟩ := iterate_terminates G hR hM B hB qfuel hq p hp D D 1 (NEGATIVE_INFINITY, none)
    (started limit s)
  rcases hit : iterate G qfuel p D D 1 (NEGATIVE_INFINITY, none) (started limit s) with ⟨ro, s2⟩
  rw [hit] at hr
  simp only at hr
  subst hr
  rcases r with ⟨sc, _ | mv⟩ <;> exact ⟨_, rfl⟩

end qterm

/-! ### the fuel is not behaviour: an answer does not depend on it -/

section fuel
variable {P : Type} (G : Game P)

/-- if `rec'` agrees with `rec` wherever `rec` answers, the loops agree wherever the `rec` loop answers. -/
theorem quiesceLoop_congr_some (rec rec' : P → Int → Int → SearchState → Option Int × SearchState)
    (h : ∀ q a b s r, (rec q a b s).1 = some r → rec' q a b s = rec q a b s) (p : P) (β : Int) :
    ∀ (rest : List Move) (α : Int) (s : SearchState) (r : Int),
      (quiesceLoop G rec p β rest α s).1 = some r →
      quiesceLoop G rec' p β rest α s = quiesceLoop G rec p β rest α s := by
  intro rest
  induction rest with
  | nil => intro α s r _; rfl
  | cons mv rest ih =>
    intro α s r hr
    rw [quiesceLoop_cons] at hr ⊢
    rw [quiesceLoop_cons]
    split
    · rfl
    · rename_i hstop
      rw [if_neg hstop] at hr
      rcases hres : rec (G.play p mv) (-β) (-α) (polled s) with ⟨ro, s2⟩
      rw [hres] at hr
      cases ro with
      | none => simp only at hr; cases hr
      | some v =>
        rw [h _ _ _ _ v (by rw [hres]), hres]
        simp only at hr ⊢
        split
        · rfl
        · rename_i hc
          rw [if_neg hc] at hr
          exact ih _ _ r hr

/-- more fuel changes neither an answer nor the state it leaves. -/
theorem quiesce_fuel_mono : ∀ (f f' : Nat) (p : P) (α β : Int) (s : SearchState) (r : Int),
    (quiesce G f p α β s).1 = some r → f ≤ f' → quiesce G f' p α β s = quiesce G f p α β s := by
  intro f
  induction f with
  | zero => intro f' p α β s r h; cases h
  | succ f ih =>
    intro f' p α β s r h hff
    obtain ⟨g, rfl⟩ : ∃ g, f' = g + 1 := ⟨f' - 1, by omega⟩
    rw [quiesce_succ] at h ⊢
    rw [quiesce_succ]
    split
    · rfl
    · rename_i hc
      rw [if_neg hc] at h
      split
      · rfl
      · rename_i hb
        rw [if_neg hb] at h
        exact quiesceLoop_congr_some G (quiesce G f) (quiesce G g)
          (fun q a b s' r' hr' => ih g q a b s' r' hr' (by omega)) p β _ _ _ r h

/-! #### the same for the main search -/

theorem negamaxLoop_congr_some
    (rec rec' : P → Nat → Int → Int → SearchState → Option SearchResult × SearchState)
    (h : ∀ q pl a b s r, (rec q pl a b s).1 = some r → rec' q pl a b s = rec q pl a b s)
    (p : P) (depth ply : Nat) (β : Int) :
    ∀ (rest : List Move) (acc : LoopAcc) (s : SearchState) (r : LoopAcc),
      (negamaxLoop G rec p depth ply β rest acc s).1 = some r →
      negamaxLoop G rec' p depth ply β rest acc s = negamaxLoop G rec p depth ply β rest acc s := by
  intro rest
  induction rest with
  | nil => intro acc s r _; rfl
  | cons mv rest ih =>
    intro acc s r hr
    rw [negamaxLoop_cons] at hr ⊢
    rw [negamaxLoop_cons]
    split
    · rfl
    · rename_i hstop
      rw [if_neg hstop] at hr
      rcases hres : rec (G.play p mv) (ply + 1) (-β) (-acc.alpha) (polled s) with ⟨ro, s2⟩
      rw [hres] at hr
      cases ro with
      | none => simp only at hr; cases hr
      | some v =>
        rw [h _ _ _ _ _ v (by rw [hres]), hres]
        simp only at hr ⊢
        split
        · rfl
        · rename_i hc
          rw [if_neg hc] at hr
          exact ih _ _ r hr

theorem leafResult_fuel_mono (q q' : Nat) (hqq : q ≤ q') (p : P) (α β : Int) (s : SearchState)
    (r : SearchResult) (h : (leafResult G q p α β s).1 = some r) :
    leafResult G q' p α β s = leafResult G q p α β s := by
  unfold leafResult at h ⊢
  rcases hres : quiesce G q p α β s with ⟨ro, s2⟩
  rw [hres] at h
  cases ro with
  | none => simp only at h; cases h
  | some v => rw [quiesce_fuel_mono G q q' p α β s v (by rw [hres]) hqq, hres]

theorem innerResult_congr_some
    (rec rec' : P → Nat → Int → Int → SearchState → Option SearchResult × SearchState)
    (h : ∀ q pl a b s r, (rec q pl a b s).1 = some r → rec' q pl a b s = rec q pl a b s)
    (d : Nat) (p : P) (ply : Nat) (α β : Int) (ttMove : Option Move) (s : SearchState) (r : SearchResult)
    (hr : (innerResult G rec d p ply α β ttMove s).1 = some r) :
    innerResult G rec' d p ply α β ttMove s = innerResult G rec d p ply α β ttMove s := by
  cases hms : G.moves p with
  | nil => rw [innerResult_nil G _ d p ply α β ttMove s hms, innerResult_nil G _ d p ply α β ttMove s hms]
  | cons m0 tl =>
    rw [innerResult_cons G _ d p ply α β ttMove s m0 tl hms] at hr ⊢
    rw [innerResult_cons G _ d p ply α β ttMove s m0 tl hms]
    rcases hl : negamaxLoop G rec p (d + 1) ply β (orderMoves G s p (G.moves p) ttMove ply)
      ⟨α, ⟨NEGATIVE_INFINITY, some ((orderMoves G s p (G.moves p) ttMove ply).headD m0)⟩⟩ s with ⟨ro, s2⟩
    rw [hl] at hr
    cases ro with
    | none => simp only at hr; cases hr
    | some acc =>
      rw [negamaxLoop_congr_some G rec rec' h p (d + 1) ply β _ _ _ acc (by rw [hl]), hl]

/-- more quiescence fuel changes neither an answer of `negamax` nor the state it leaves. -/
theorem negamax_fuel_mono (q q' : Nat) (hqq : q ≤ q') :
    ∀ (d : Nat) (p : P) (ply : Nat) (α β : Int) (s : SearchState) (r : SearchResult),
      (negamax G q d p ply α β s).1 = some r →
      negamax G q' d p ply α β s = negamax G q d p ply α β s := by
  intro d
  induction d with
  | zero =>
    intro p ply α β s r hr
    rw [negamax_zero] at hr ⊢
    rw [negamax_zero]
    split
    · rfl
    · rename_i hrep
      rw [if_neg hrep] at hr
      rcases hpr : probeTT G s.incrementNodes p 0 α β with ⟨ro, mvv, s1⟩
      rw [hpr] at hr
      cases ro with
      | some c => rfl
      | none =>
        simp only at hr ⊢
        exact leafResult_fuel_mono G q q' hqq p α β s1 r hr
  | succ d ih =>
    intro p ply α β s r hr
    rw [negamax_succ] at hr ⊢
    rw [negamax_succ]
    split
    · rfl
    · rename_i hrep
      rw [if_neg hrep] at hr
      rcases hpr : probeTT G s.incrementNodes p (d + 1) α β with ⟨ro, mvv, s1⟩
      rw [hpr] at hr
      cases ro with
      | some c => rfl
      | none =>
        simp only at hr ⊢
        exact innerResult_congr_some G (negamax G q d) (negamax G q' d) ih d p ply α β mvv s1 r hr

theorem searchPosition_fuel_mono (q q' : Nat) (hqq : q ≤ q') (p : P) (depth : Nat) (s : SearchState)
    (r : SearchResult) (h : (searchPosition G q p depth s).1 = some r) :
    searchPosition G q' p depth s = searchPosition G q p depth s := by
  rw [searchPosition_eq] at h ⊢
  rw [searchPosition_eq, negamax_fuel_mono G q q' hqq depth p 0 _ _ _ r h]

theorem iterate_fuel_mono (q q' : Nat) (hqq : q ≤ q') (p : P) (maxDepth : Nat) :
    ∀ (n cur : Nat) (best : Int × Option Move) (s : SearchState) (r : Int × Option Move),
      (iterate G q p maxDepth n cur best s).1 = some r →
      iterate G q' p maxDepth n cur best s = iterate G q p maxDepth n cur best s := by
  intro n
  induction n with
  | zero => intro cur best s r _; rfl
  | succ n ih =>
    intro cur best s r hr
    rw [iterate_succ] at hr ⊢
    rw [iterate_succ]
    split
    · rfl
    · rename_i hc
      rw [if_neg hc] at hr
      split
      · rfl
      · rename_i hstop
        rw [if_neg hstop] at hr
        rcases hsp : searchPosition G q p cur (polled s) with ⟨ro, s2⟩
        rw [hsp] at hr
        cases ro with
        | none => simp only at hr; cases hr
        | some v =>
          rw [searchPosition_fuel_mono G q q' hqq p cur (polled s) v (by rw [hsp]), hsp]
          simp only at hr ⊢
          split
          · rename_i h2; rw [if_pos h2] at hr; exact ih _ _ _ r hr
          · rename_i h2; rw [if_neg h2] at hr; exact ih _ _ _ r hr

theorem findBestMove_fuel_mono (q q' : Nat) (hqq : q ≤ q') (p : P) (D : Nat) (limit : Limit)
    (s : SearchState) (r : Int × Option Move) (h : (findBestMove G q p D limit s).1 = some r) :
    findBestMove G q' p D limit s = findBestMove G q p D limit s := by
  rw [findBestMove_eq] at h ⊢
  rw [findBestMove_eq]
  rcases hit : iterate G q p D D 1 (NEGATIVE_INFINITY, none) (started limit s) with ⟨ro, s2⟩
  rw [hit] at h
  cases ro with
  | none => simp only at h; cases h
  | some v => rw [iterate_fuel_mono G q q' hqq p D D 1 _ _ v (by rw [hit]), hit]

variable {S : P → Prop} {ρ : P → Nat}

/-- **the fuel is a proof device**: with enough of it, the result (value AND state) does not depend on
    how much. -/
theorem quiesce_fuel_irrelevant (hR : QRank G S ρ) (p : P) (hp : S p) (f₁ f₂ : Nat)
    (h₁ : ρ p + 2 ≤ f₁) (h₂ : ρ p + 2 ≤ f₂) (α β : Int) (s : SearchState) :
    quiesce G f₁ p α β s = quiesce G f₂ p α β s := by
  obtain ⟨r, hr⟩ := quiesce_terminates G hR p hp (ρ p + 2) (Nat.le_refl _) α β s
  rw [quiesce_fuel_mono G _ f₁ p α β s r hr h₁, quiesce_fuel_mono G _ f₂ p α β s r hr h₂]

/-- the whole move search does not depend on the quiescence fuel either, once `B + 2` is supplied. -/
theorem findBestMove_fuel_irrelevant (hR : QRank G S ρ) (hM : MovesClosed G S) (B : Nat)
    (hB : ∀ p, S p → ρ p ≤ B) (q₁ q₂ : Nat) (h₁ : B + 2 ≤ q₁) (h₂ : B + 2 ≤ q₂) (p : P) (hp : S p)
    (D : Nat) (limit : Limit) (s : SearchState) :
    findBestMove G q₁ p D limit s = findBestMove G q₂ p D limit s := by
  obtain ⟨r, hr⟩ := findBestMove_terminates G hR hM B hB (B + 2) (Nat.le_refl _) p hp D limit s
  rw [findBestMove_fuel_mono G _ q₁ h₁ p D limit s r hr, findBestMove_fuel_mono G _ q₂ h₂ p D limit s r hr]

theorem negamax_fuel_irrelevant (hR : QRank G S ρ) (hM : MovesClosed G S) (B : Nat)
    (hB : ∀ p, S p → ρ p ≤ B) (q₁ q₂ : Nat) (h₁ : B + 2 ≤ q₁) (h₂ : B + 2 ≤ q₂) (depth : Nat) (p : P)
    (hp : S p) (ply : Nat) (α β : Int) (s : SearchState) :
    negamax G q₁ depth p ply α β s = negamax G q₂ depth p ply α β s := by
  obtain ⟨r, hr⟩ := negamax_terminates G hR hM B hB (B + 2) (Nat.le_refl _) depth p hp ply α β s
  rw [negamax_fuel_mono G _ q₁ h₁ depth p ply α β s r hr, negamax_fuel_mono G _ q₂ h₂ depth p ply α β s r hr]

end fuel
end Flounder.Search
