/-
  C13 helpers, part 5: a concrete instance of the engine-level theorems (non-vacuity).

  The script
      position startpos / go depth 0 / ucinewgame / position fen <start position, Black to move> / go depth 0
  hashes exactly two boards.  Two DIFFERENT key streams (`keysW 1`, `keysW 2`: only the side-to-move key is
  non-zero, with different values) are both collision-free on these two boards, so all hypotheses of
  `search_key_independent` hold, for every move generator table and every fuel.
-/
import Flounder.Lemmas.KeySimEngine

namespace Flounder.KeySim.Example
open Flounder Gen Flounder.Search Flounder.Engine Flounder.KeySim Flounder.Lemmas.Uci Flounder.Lemmas.UciPosition

def l1 : List Char := ['p','o','s','i','t','i','o','n',' ','s','t','a','r','t','p','o','s']
def l2 : List Char := ['g','o',' ','d','e','p','t','h',' ','0']
def l3 : List Char := ['u','c','i','n','e','w','g','a','m','e']
def l4 : List Char := ['p','o','s','i','t','i','o','n',' ','f','e','n',' ','r','n','b','q','k','b','n','r','/','p','p','p','p','p','p','p','p','/','8','/','8','/','8','/','8','/','P','P','P','P','P','P','P','P','/','R','N','B','Q','K','B','N','R',' ','b',' ','K','Q','k','q',' ','-',' ','0',' ','1']

def script : List (List Char) := [l1, l2, l3, l4, l2]

/-- the start position with Black to move. -/
def bstart : Board := { Board.startpos with active := .black }

/-- the boards the script hashes. -/
def UB (q : Board) : Prop := q = Board.startpos ∨ q = bstart

theorem split_l1 : splitWs l1 = [kwPosition, kwStartpos] := by decide +kernel
theorem split_l2 : splitWs l2 = [kwGo, kwDepth, ['0']] := by decide +kernel
theorem split_l3 : splitWs l3 = [kwUcinewgame] := by decide +kernel
theorem base_l1 : positionBase (splitWs l1) = some ([], Board.startpos) := by decide +kernel
theorem moves_l1 : movesAfter (splitWs l1) = none := by decide +kernel
theorem base_l4 : positionBase (splitWs l4) = some ([], bstart) := by decide +kernel
theorem moves_l4 : movesAfter (splitWs l4) = none := by decide +kernel
theorem head_l4 : (splitWs l4).head? = some kwPosition := by decide +kernel
theorem depth_l2 (c : Color) : (goParams c (splitWs l2)).depth = 0 := by cases c <;> decide +kernel

theorem within_zero {P : Type} {G : Game P} {root q : P} (h : Within G root 0 q) : q = root := by
  cases h with
  | root n => rfl

theorem cmdBoards_position (mg : MoveGenerator) (tl : List Tok) (b q : Board) :
    cmdBoards mg (kwPosition :: tl) b q = positionBoards mg (kwPosition :: tl) q := by
  unfold cmdBoards
  have h1 : kwPosition ≠ kwUci := by decide
  have h2 : kwPosition ≠ kwIsready := by decide
  have h3 : kwPosition ≠ kwUcinewgame := by decide
  simp only [h1, h2, h3, if_false, if_true]

theorem cmdNext_position (mg : MoveGenerator) (tl : List Tok) (b : Board) :
    cmdNext mg (kwPosition :: tl) b = positionNext mg (kwPosition :: tl) b := by
  unfold cmdNext
  have h1 : kwPosition ≠ kwUci := by decide
  have h2 : kwPosition ≠ kwIsready := by decide
  have h3 : kwPosition ≠ kwUcinewgame := by decide
  simp only [h1, h2, h3, if_false, if_true]

theorem cmdBoards_go (mg : MoveGenerator) (tl : List Tok) (b q : Board) :
    cmdBoards mg (kwGo :: tl) b q = Within (rulesGame mg) b (goParams b.active (kwGo :: tl)).depth q := by
  unfold cmdBoards
  have h1 : kwGo ≠ kwUci := by decide
  have h2 : kwGo ≠ kwIsready := by decide
  have h3 : kwGo ≠ kwUcinewgame := by decide
  have h4 : kwGo ≠ kwPosition := by decide
  simp only [h1, h2, h3, h4, if_false, if_true]

theorem cmdNext_go (mg : MoveGenerator) (tl : List Tok) (b : Board) : cmdNext mg (kwGo :: tl) b = b := by
  unfold cmdNext
  have h1 : kwGo ≠ kwUci := by decide
  have h2 : kwGo ≠ kwIsready := by decide
  have h3 : kwGo ≠ kwUcinewgame := by decide
  have h4 : kwGo ≠ kwPosition := by decide
  simp only [h1, h2, h3, h4, if_false]

theorem cmdBoards_newgame (mg : MoveGenerator) (tl : List Tok) (b q : Board) :
    cmdBoards mg (kwUcinewgame :: tl) b q = False := by
  unfold cmdBoards
  have h1 : kwUcinewgame ≠ kwUci := by decide
  have h2 : kwUcinewgame ≠ kwIsready := by decide
  simp only [h1, h2, if_false, if_true]

theorem cmdNext_newgame (mg : MoveGenerator) (tl : List Tok) (b : Board) :
    cmdNext mg (kwUcinewgame :: tl) b = Board.startpos := by
  unfold cmdNext
  have h1 : kwUcinewgame ≠ kwUci := by decide
  have h2 : kwUcinewgame ≠ kwIsready := by decide
  simp only [h1, h2, if_false, if_true]

/-- every board the script hashes is one of the two. -/
theorem script_visited (mg : MoveGenerator) (q : Board) (h : visited mg script Board.startpos q) : UB q := by
  obtain ⟨k4, tl4, hk4⟩ : ∃ k tl, splitWs l4 = k :: tl := by
    cases hs : splitWs l4 with
    | nil => have := head_l4; rw [hs] at this; cases this
    | cons k tl => exact ⟨k, tl, rfl⟩
  have hk4' : k4 = kwPosition := by
    have := head_l4; rw [hk4] at this; simpa using this
  subst hk4'
  have pb1 : ∀ q, positionBoards mg (splitWs l1) q → q = Board.startpos := by
    intro q hq; unfold positionBoards at hq; rw [base_l1] at hq; simp only [moves_l1] at hq; exact hq
  have pn1 : ∀ b, positionNext mg (splitWs l1) b = Board.startpos := by
    intro b; unfold positionNext; rw [base_l1]; simp only [moves_l1]
  have pb4 : ∀ q, positionBoards mg (splitWs l4) q → q = bstart := by
    intro q hq; unfold positionBoards at hq; rw [base_l4] at hq; simp only [moves_l4] at hq; exact hq
  have pn4 : ∀ b, positionNext mg (splitWs l4) b = bstart := by
    intro b; unfold positionNext; rw [base_l4]; simp only [moves_l4]
  simp only [script, visited] at h
  rcases h with h | h | h | h | h | h
  · rw [split_l1, cmdBoards_position, ← split_l1] at h
    exact Or.inl (pb1 q h)
  · rw [split_l1, cmdNext_position, ← split_l1, pn1, split_l2, cmdBoards_go, ← split_l2, depth_l2] at h
    exact Or.inl (within_zero h)
  · rw [split_l3, cmdBoards_newgame] at h
    exact h.elim
  · rw [hk4, cmdBoards_position, ← hk4] at h
    exact Or.inr (pb4 q h)
  · rw [hk4, cmdNext_position, ← hk4, pn4, split_l2, cmdBoards_go, ← split_l2, depth_l2] at h
    exact Or.inr (within_zero h)
  · exact h.elim

/-- the part of the script after `ucinewgame`. -/
def suffix : List (List Char) := [l4, l2]

theorem suffix_visited (mg : MoveGenerator) (q : Board) (h : visited mg suffix Board.startpos q) : UB q := by
  obtain ⟨k4, tl4, hk4⟩ : ∃ k tl, splitWs l4 = k :: tl := by
    cases hs : splitWs l4 with
    | nil => have := head_l4; rw [hs] at this; cases this
    | cons k tl => exact ⟨k, tl, rfl⟩
  have hk4' : k4 = kwPosition := by
    have := head_l4; rw [hk4] at this; simpa using this
  subst hk4'
  have pb4 : ∀ q, positionBoards mg (splitWs l4) q → q = bstart := by
    intro q hq; unfold positionBoards at hq; rw [base_l4] at hq; simp only [moves_l4] at hq; exact hq
  have pn4 : ∀ b, positionNext mg (splitWs l4) b = bstart := by
    intro b; unfold positionNext; rw [base_l4]; simp only [moves_l4]
  simp only [suffix, visited] at h
  rcases h with h | h | h
  · rw [hk4, cmdBoards_position, ← hk4] at h
    exact Or.inr (pb4 q h)
  · rw [hk4, cmdNext_position, ← hk4, pn4, split_l2, cmdBoards_go, ← split_l2, depth_l2] at h
    exact Or.inr (within_zero h)
  · exact h.elim

/-- the part of the script before `ucinewgame` leaves the engine running, with no pending deadline. -/
theorem prefix_runs (ctx : EngineCtx) :
    (runLines ctx [l1, l2] {}).2.2 = .running ∧ (runLines ctx [l1, l2] {}).2.1.nextLimit = none := by
  have h1 : handleCommand ctx {} (splitWs l1) = ([], { search := { rep := [] } }, .running) := by
    rw [split_l1]; rfl
  have h2 : ∀ e : Engine, (handleCommand ctx e (splitWs l2)).2.2 = .running ∧
      (handleCommand ctx e (splitWs l2)).2.1.nextLimit = none := by
    intro e
    rw [split_l2]
    have hg : handleCommand ctx e [kwGo, kwDepth, ['0']] = handleGo ctx e [kwGo, kwDepth, ['0']] := rfl
    rw [hg, handleGo_eq]
    have hd : (goParams e.board.active [kwGo, kwDepth, ['0']]).depth = 0 := by
      rw [← split_l2]; exact depth_l2 _
    rw [hd]
    generalize goLimit e [kwGo, kwDepth, ['0']] = lim
    rw [findBestMove_eq, iterate_zero]
    exact ⟨rfl, rfl⟩
  rw [runLines_cons_running ctx _ _ l1 [l2] _ h1]
  rcases hh : handleCommand ctx { search := { rep := [] } } (splitWs l2) with ⟨out, e', oc⟩
  have h2' := h2 { search := { rep := [] } }
  rw [hh] at h2'
  obtain ⟨ha, hb⟩ := h2'
  simp only at ha hb
  subst ha
  rw [runLines_cons_running ctx _ _ l2 [] _ hh, runLines_nil]
  exact ⟨rfl, hb⟩

/-! ### two different collision-free key streams -/

/-- only the side-to-move key is non-zero. -/
def keyW (w : UInt64) : ZKeys := ⟨fun _ _ _ => 0, w, fun _ _ => 0, fun _ => 0⟩

theorem foldl_fix {α β : Type} (f : β → α → β) (hf : ∀ b a, f b a = b) (l : List α) (b : β) :
    l.foldl f b = b := by
  induction l generalizing b with
  | nil => rfl
  | cons a l ih => rw [List.foldl_cons, hf, ih]

theorem hash_keyW (w : UInt64) (b : Board) : hash (keyW w) b = if b.active = Color.white then w else 0 := by
  have hp : hashPieces (keyW w) b 0 = 0 := by
    unfold hashPieces
    apply foldl_fix; intro h c
    apply foldl_fix; intro h p
    apply foldl_fix; intro h s
    show h ^^^ 0 = h
    exact UInt64.xor_zero
  have hc : hashCastle (keyW w) b 0 = 0 := by
    unfold hashCastle
    apply foldl_fix; intro h c
    rcases b.castlingAbility c with ⟨ks, qs⟩
    have z : ∀ i, (keyW w).castle c i = 0 := fun _ => rfl
    cases ks <;> cases qs <;> simp [z]
  unfold hash
  simp only [hp, hc]
  cases b.ep with
  | none =>
    show (if b.active = Color.white then (0 : UInt64) ^^^ w else 0) = _
    rw [UInt64.zero_xor]
  | some s =>
    show (if b.active = Color.white then ((0 : UInt64) ^^^ 0) ^^^ w else (0 ^^^ 0)) = _
    rw [UInt64.xor_zero, UInt64.zero_xor]

/-- a key table of this kind with a non-zero key is collision-free on the two boards. -/
theorem keyW_inj (w : UInt64) (hw : w ≠ 0) (p q : Board) (hp : UB p) (hq : UB q)
    (h : hash (keyW w) p = hash (keyW w) q) : p = q := by
  rw [hash_keyW, hash_keyW] at h
  have a1 : Board.startpos.active = Color.white := rfl
  have a2 : ¬ bstart.active = Color.white := by decide
  rcases hp with rfl | rfl <;> rcases hq with rfl | rfl
  · rfl
  · rw [if_pos a1, if_neg a2] at h; exact absurd h hw
  · rw [if_pos a1, if_neg a2] at h; exact absurd h.symm hw
  · rfl

/-- the two streams really are different: they hash the start position differently. -/
theorem keyW_differ : hash (keyW 1) Board.startpos ≠ hash (keyW 2) Board.startpos := by
  rw [hash_keyW, hash_keyW]; decide


/-! ### two boards that differ only in the move counters

  `position startpos / go depth 0 / position fen <start position, half-move clock 4, move 3> / go depth 0`:
  the second board is the start position as it stands after `Nf3 Nf6 Ng1 Ng8`.  EVERY key table hashes the two
  boards alike, so no key table is collision-free here; the hypothesis "no collisions except those every
  key table has" still holds. -/

def l5 : List Char := ['p','o','s','i','t','i','o','n',' ','f','e','n',' ','r','n','b','q','k','b','n','r','/','p','p','p','p','p','p','p','p','/','8','/','8','/','8','/','8','/','P','P','P','P','P','P','P','P','/','R','N','B','Q','K','B','N','R',' ','w',' ','K','Q','k','q',' ','-',' ','4',' ','3']

def script2 : List (List Char) := [l1, l2, l5, l2]

/-- the start position with the counters as after `Nf3 Nf6 Ng1 Ng8`. -/
def cstart : Board := { Board.startpos with halfmove := 4, fullmove := 3 }

def UC (q : Board) : Prop := q = Board.startpos ∨ q = cstart

theorem base_l5 : positionBase (splitWs l5) = some ([], cstart) := by decide +kernel
theorem moves_l5 : movesAfter (splitWs l5) = none := by decide +kernel
theorem head_l5 : (splitWs l5).head? = some kwPosition := by decide +kernel

theorem script2_visited (mg : MoveGenerator) (q : Board) (h : visited mg script2 Board.startpos q) : UC q := by
  obtain ⟨k5, tl5, hk5⟩ : ∃ k tl, splitWs l5 = k :: tl := by
    cases hs : splitWs l5 with
    | nil => have := head_l5; rw [hs] at this; cases this
    | cons k tl => exact ⟨k, tl, rfl⟩
  have hk5' : k5 = kwPosition := by
    have := head_l5; rw [hk5] at this; simpa using this
  subst hk5'
  have pb1 : ∀ q, positionBoards mg (splitWs l1) q → q = Board.startpos := by
    intro q hq; unfold positionBoards at hq; rw [base_l1] at hq; simp only [moves_l1] at hq; exact hq
  have pn1 : ∀ b, positionNext mg (splitWs l1) b = Board.startpos := by
    intro b; unfold positionNext; rw [base_l1]; simp only [moves_l1]
  have pb5 : ∀ q, positionBoards mg (splitWs l5) q → q = cstart := by
    intro q hq; unfold positionBoards at hq; rw [base_l5] at hq; simp only [moves_l5] at hq; exact hq
  have pn5 : ∀ b, positionNext mg (splitWs l5) b = cstart := by
    intro b; unfold positionNext; rw [base_l5]; simp only [moves_l5]
  simp only [script2, visited] at h
  rcases h with h | h | h | h | h
  · rw [split_l1, cmdBoards_position, ← split_l1] at h
    exact Or.inl (pb1 q h)
  · rw [split_l1, cmdNext_position, ← split_l1, pn1, split_l2, cmdBoards_go, ← split_l2, depth_l2] at h
    exact Or.inl (within_zero h)
  · rw [split_l1, cmdNext_position, ← split_l1, pn1, split_l2, cmdNext_go, hk5, cmdBoards_position, ← hk5] at h
    exact Or.inr (pb5 q h)
  · rw [split_l1, cmdNext_position, ← split_l1, pn1, split_l2, cmdNext_go, hk5, cmdNext_position, ← hk5, pn5,
      cmdBoards_go, ← split_l2, depth_l2] at h
    exact Or.inr (within_zero h)
  · exact h.elim

/-- every key table hashes any two boards of `UC` alike … -/
theorem UC_hashed_alike (k : ZKeys) (p q : Board) (hp : UC p) (hq : UC q) : hash k p = hash k q := by
  have hc : hash k cstart = hash k Board.startpos := rfl
  rcases hp with rfl | rfl <;> rcases hq with rfl | rfl
  · rfl
  · exact hc.symm
  · exact hc
  · rfl

/-- … so none is collision-free on `UC`. -/
theorem UC_not_injective (k : ZKeys) : ¬ ∀ p q, UC p → UC q → hash k p = hash k q → p = q := by
  intro h
  have := h cstart Board.startpos (Or.inr rfl) (Or.inl rfl) rfl
  exact absurd (congrArg Board.halfmove this) (by decide)

end Flounder.KeySim.Example
