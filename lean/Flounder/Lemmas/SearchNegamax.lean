/-
  C05 helpers, part 4: `negamax` / `negamaxLoop`.
  Equation lemmas, frame (sticky stop flag, monotone deeper-hit counter, untouched repetition stack),
  the probe analysis, the loop invariant and the main induction on depth.
-/
import Flounder.Lemmas.SearchQuiesce

namespace Flounder.Search
open Flounder Gen

section negamax
variable {P : Type} (G : Game P)

/-! ### equation lemmas -/

theorem negamaxLoop_nil (rec : P → Nat → Int → Int → SearchState → Option SearchResult × SearchState)
    (p : P) (depth ply : Nat) (β : Int) (acc : LoopAcc) (s : SearchState) :
    negamaxLoop G rec p depth ply β [] acc s = (some acc, s) := rfl

theorem negamaxLoop_cons (rec : P → Nat → Int → Int → SearchState → Option SearchResult × SearchState)
    (p : P) (depth ply : Nat) (β : Int) (mv : Move) (rest : List Move) (acc : LoopAcc) (s : SearchState) :
    negamaxLoop G rec p depth ply β (mv :: rest) acc s =
      if stopFlag s = true then (some acc, polled s)
      else
        match rec (G.play p mv) (ply + 1) (-β) (-acc.alpha) (polled s) with
        | (none, s) => (none, s)
        | (some r, s) =>
          if max acc.alpha (-r.score) ≥ β then
            (some ⟨max acc.alpha (-r.score),
                if -r.score > acc.best.score then ⟨-r.score, some mv⟩ else acc.best⟩,
              if mv.kind = .quiet then (s.storeKiller mv ply).recordCutoff mv depth else s)
          else negamaxLoop G rec p depth ply β rest
            ⟨max acc.alpha (-r.score), if -r.score > acc.best.score then ⟨-r.score, some mv⟩ else acc.best⟩ s :=
  rfl

/-- depth 0 after a table miss: quiescence. -/
def leafResult (qfuel : Nat) (p : P) (α β : Int) (s : SearchState) : Option SearchResult × SearchState :=
  match quiesce G qfuel p α β s with
  | (none, s) => (none, s)
  | (some v, s) => (some ⟨v, none⟩, s)

/-- the end of an inner node: poll, then cache unless interrupted. -/
def finishNode (p : P) (d1 : Nat) (α β : Int) (acc : LoopAcc) (s : SearchState) :
    Option SearchResult × SearchState :=
  if stopFlag s = true then (some acc.best, polled s)
  else
    let t := (polled s).tt.store (G.hash p) acc.best.score acc.best.bestMove d1 (determineBound acc.best.score α β)
    (some acc.best, { (polled s) with tt := t })

/-- depth ≥ 1 after a table miss. -/
def innerResult (rec : P → Nat → Int → Int → SearchState → Option SearchResult × SearchState)
    (d : Nat) (p : P) (ply : Nat) (α β : Int) (ttMove : Option Move) (s : SearchState) :
    Option SearchResult × SearchState :=
  match G.moves p with
  | [] =>
    if G.inCheck p then (some ⟨-CHECKMATE_SCORE + ((d + 1 : Nat) : Int), none⟩, s) else (some ⟨0, none⟩, s)
  | m0 :: _ =>
    match negamaxLoop G rec p (d + 1) ply β (orderMoves G s p (G.moves p) ttMove ply)
        ⟨α, ⟨NEGATIVE_INFINITY, some ((orderMoves G s p (G.moves p) ttMove ply).headD m0)⟩⟩ s with
    | (none, s) => (none, s)
    | (some acc, s) => finishNode G p (d + 1) α β acc s

theorem negamax_zero (qfuel : Nat) (p : P) (ply : Nat) (α β : Int) (s : SearchState) :
    negamax G qfuel 0 p ply α β s =
      if (decide (ply > 0) && s.incrementNodes.isRepetition (G.hash p)) = true then
        (some ⟨0, none⟩, s.incrementNodes)
      else
        match probeTT G s.incrementNodes p 0 α β with
        | (some cached, _, s) => (some cached, s)
        | (none, _, s) => leafResult G qfuel p α β s := by
  rw [negamax]
  rfl

theorem negamax_succ (qfuel d : Nat) (p : P) (ply : Nat) (α β : Int) (s : SearchState) :
    negamax G qfuel (d + 1) p ply α β s =
      if (decide (ply > 0) && s.incrementNodes.isRepetition (G.hash p)) = true then
        (some ⟨0, none⟩, s.incrementNodes)
      else
        match probeTT G s.incrementNodes p (d + 1) α β with
        | (some cached, _, s) => (some cached, s)
        | (none, ttMove, s) => innerResult G (negamax G qfuel d) d p ply α β ttMove s := by
  rw [negamax]
  rfl

/-! ### the probe -/

/-- the state after counting a usable entry. -/
def counted (s : SearchState) (e : Entry) (depth : Nat) : SearchState :=
  if e.depth > depth then { s with deeperHits := s.deeperHits + 1 }
  else { s with sameDepthHits := s.sameDepthHits + 1 }

/-- a probe misses (state untouched) or returns a key-verified entry that is at least as deep as
    requested and whose bound type permits the cut. -/
theorem probeTT_cases (s : SearchState) (p : P) (depth : Nat) (α β : Int) :
    ((probeTT G s p depth α β).1 = none ∧ (probeTT G s p depth α β).2.2 = s) ∨
    ∃ e, s.tt.retrieve (G.hash p) = some e ∧ depth ≤ e.depth ∧
      (probeTT G s p depth α β).1 = some ⟨e.eval, e.bestMove⟩ ∧
      (e.bounds = .exact ∨ (e.bounds = .lower ∧ max α e.eval ≥ β) ∨ (e.bounds = .upper ∧ α ≥ min β e.eval)) ∧
      (probeTT G s p depth α β).2.2 = counted s e depth := by
  unfold probeTT
  cases hr : s.tt.retrieve (G.hash p) with
  | none => exact Or.inl ⟨rfl, rfl⟩
  | some e =>
    simp only
    by_cases hd : e.depth < depth
    · rw [if_pos hd]; exact Or.inl ⟨rfl, rfl⟩
    · rw [if_neg hd]
      cases hb : e.bounds with
      | exact => exact Or.inr ⟨e, rfl, by omega, rfl, Or.inl hb, rfl⟩
      | lower =>
        simp only
        by_cases hc : max α e.eval ≥ β
        · rw [if_pos hc]; exact Or.inr ⟨e, rfl, by omega, rfl, Or.inr (Or.inl ⟨hb, hc⟩), rfl⟩
        · rw [if_neg hc]; exact Or.inl ⟨rfl, rfl⟩
      | upper =>
        simp only
        by_cases hc : α ≥ min β e.eval
        · rw [if_pos hc]; exact Or.inr ⟨e, rfl, by omega, rfl, Or.inr (Or.inr ⟨hb, hc⟩), rfl⟩
        · rw [if_neg hc]; exact Or.inl ⟨rfl, rfl⟩

theorem counted_frame (s : SearchState) (e : Entry) (depth : Nat) : Frame s (counted s e depth) := by
  unfold counted; split
  · exact ⟨id, Nat.le_succ _, rfl, fun a b => ⟨a, b⟩⟩
  · exact ⟨id, Nat.le_refl _, rfl, fun a b => ⟨a, b⟩⟩

theorem counted_tt (s : SearchState) (e : Entry) (depth : Nat) : (counted s e depth).tt = s.tt := by
  unfold counted; split <;> rfl

theorem counted_deeper (s : SearchState) (e : Entry) (depth : Nat)
    (h : (counted s e depth).deeperHits = s.deeperHits) : ¬ e.depth > depth := by
  unfold counted at h; split at h
  · simp at h
  · assumption

theorem probeTT_frame (s : SearchState) (p : P) (depth : Nat) (α β : Int) :
    Frame s (probeTT G s p depth α β).2.2 := by
  rcases probeTT_cases G s p depth α β with ⟨_, h⟩ | ⟨e, _, _, _, _, h⟩
  · rw [h]; exact Frame.refl _
  · rw [h]; exact counted_frame _ _ _

/-! ### frames -/

theorem negamaxLoop_frame (rec : P → Nat → Int → Int → SearchState → Option SearchResult × SearchState)
    (hrec : ∀ q ply a b s, Frame s (rec q ply a b s).2) (p : P) (depth ply : Nat) (β : Int) :
    ∀ (ms : List Move) (acc : LoopAcc) (s : SearchState),
      Frame s (negamaxLoop G rec p depth ply β ms acc s).2 := by
  intro ms
  induction ms with
  | nil => intro acc s; exact Frame.refl _
  | cons mv rest ih =>
    intro acc s
    rw [negamaxLoop_cons]
    split
    · exact (qframe_polled s).frame
    · have h := hrec (G.play p mv) (ply + 1) (-β) (-acc.alpha) (polled s)
      rcases hres : rec (G.play p mv) (ply + 1) (-β) (-acc.alpha) (polled s) with ⟨ro, s2⟩
      rw [hres] at h
      have h02 : Frame s s2 := (qframe_polled s).frame.trans h
      cases ro with
      | none => exact h02
      | some r =>
        simp only
        split
        · refine h02.trans ?_
          simp only
          split
          · exact ((qframe_storeKiller _ _ _).trans (qframe_recordCutoff _ _ _)).frame
          · exact Frame.refl _
        · exact h02.trans (ih _ _)

theorem finishNode_frame (p : P) (d1 : Nat) (α β : Int) (acc : LoopAcc) (s : SearchState) :
    Frame s (finishNode G p d1 α β acc s).2 := by
  unfold finishNode
  split
  · exact (qframe_polled s).frame
  · exact (qframe_polled s).frame.trans ⟨id, Nat.le_refl _, rfl, fun a b => ⟨a, b⟩⟩

theorem leafResult_qframe (qfuel : Nat) (p : P) (α β : Int) (s : SearchState) :
    QFrame s (leafResult G qfuel p α β s).2 := by
  unfold leafResult
  have h := quiesce_frame G qfuel p α β s
  rcases hq : quiesce G qfuel p α β s with ⟨ro, s2⟩
  rw [hq] at h
  cases ro <;> exact h

theorem innerResult_frame (rec : P → Nat → Int → Int → SearchState → Option SearchResult × SearchState)
    (hrec : ∀ q ply a b s, Frame s (rec q ply a b s).2) (d : Nat) (p : P) (ply : Nat) (α β : Int)
    (ttMove : Option Move) (s : SearchState) : Frame s (innerResult G rec d p ply α β ttMove s).2 := by
  unfold innerResult
  split
  · split <;> exact Frame.refl _
  · rename_i m0 tl hm
    have h := negamaxLoop_frame G rec hrec p (d + 1) ply β (orderMoves G s p (G.moves p) ttMove ply)
      ⟨α, ⟨NEGATIVE_INFINITY, some ((orderMoves G s p (G.moves p) ttMove ply).headD m0)⟩⟩ s
    rcases hl : negamaxLoop G rec p (d + 1) ply β (orderMoves G s p (G.moves p) ttMove ply)
      ⟨α, ⟨NEGATIVE_INFINITY, some ((orderMoves G s p (G.moves p) ttMove ply).headD m0)⟩⟩ s with ⟨ro, s2⟩
    rw [hl] at h
    cases ro with
    | none => exact h
    | some acc => exact h.trans (finishNode_frame G p (d + 1) α β acc s2)

theorem negamax_frame (qfuel : Nat) : ∀ (d : Nat) (p : P) (ply : Nat) (α β : Int) (s : SearchState),
    Frame s (negamax G qfuel d p ply α β s).2 := by
  intro d
  induction d with
  | zero =>
    intro p ply α β s
    rw [negamax_zero]
    split
    · exact (qframe_incrementNodes s).frame
    · have h := probeTT_frame G s.incrementNodes p 0 α β
      rcases hp : probeTT G s.incrementNodes p 0 α β with ⟨ro, mv, s1⟩
      rw [hp] at h
      have h01 := (qframe_incrementNodes s).frame.trans h
      cases ro with
      | none => exact h01.trans (leafResult_qframe G qfuel p α β s1).frame
      | some r => exact h01
  | succ d ih =>
    intro p ply α β s
    rw [negamax_succ]
    split
    · exact (qframe_incrementNodes s).frame
    · have h := probeTT_frame G s.incrementNodes p (d + 1) α β
      rcases hp : probeTT G s.incrementNodes p (d + 1) α β with ⟨ro, mv, s1⟩
      rw [hp] at h
      have h01 := (qframe_incrementNodes s).frame.trans h
      cases ro with
      | none => exact h01.trans (innerResult_frame G _ ih d p ply α β mv s1)
      | some r => exact h01

end negamax
end Flounder.Search
