/-
  C10 — soundness of the Nat-level checker `checkSquare` w.r.t. the `UInt64` model of src/magic.rs.
-/
import Flounder.Lemmas.MagicDefs
import Flounder.Lemmas.Bits

namespace Flounder.MagicProof
open Flounder Flounder.Gen

/-! ### `UInt64` ↔ `Nat` basics -/

theorem bitN_lt (s : Nat) : bitN s < 2 ^ 64 := by
  unfold bitN
  exact Nat.pow_lt_pow_right (by decide) (Nat.mod_lt _ (by decide))

theorem sqBB_toNat (s : Nat) : (sqBB s).toNat = bitN s := by
  unfold sqBB
  rw [UInt64.toNat_shiftLeft]
  have h1 : (s.toUInt64).toNat % 64 = s % 64 := by
    show (UInt64.ofNat s).toNat % 64 = s % 64
    rw [UInt64.toNat_ofNat']
    omega
  rw [h1]
  show 1 <<< (s % 64) % 2 ^ 64 = bitN s
  rw [Nat.one_shiftLeft]
  exact Nat.mod_eq_of_lt (bitN_lt s)

theorem and_bitN (n s : Nat) : n &&& bitN s = if n.testBit (s % 64) then bitN s else 0 := by
  unfold bitN
  apply Nat.eq_of_testBit_eq
  intro i
  rw [Nat.testBit_and, Nat.testBit_two_pow]
  by_cases h : s % 64 = i
  · subst h
    cases hb : n.testBit (s % 64) <;> simp
  · cases hb : n.testBit (s % 64) <;> simp [h]

theorem hasSq_eq_testBit (occ : UInt64) (s : Nat) : hasSq occ s = occ.toNat.testBit (s % 64) := by
  unfold hasSq
  have h : (occ &&& sqBB s != 0) = ((occ &&& sqBB s).toNat != 0) := by
    by_cases hx : occ &&& sqBB s = 0
    · rw [hx]; rfl
    · have h2 : (occ &&& sqBB s).toNat ≠ 0 := fun h' => hx (UInt64.toNat_inj.mp h')
      have h3 : (occ &&& sqBB s != 0) = true := by simpa using hx
      have h4 : ((occ &&& sqBB s).toNat != 0) = true := by simpa using h2
      rw [h3, h4]
  rw [h, UInt64.toNat_and, sqBB_toNat, and_bitN]
  cases hb : occ.toNat.testBit (s % 64)
  · simp
  · have := bitN_lt s
    have h3 : bitN s ≠ 0 := by unfold bitN; exact Nat.ne_of_gt (Nat.pow_pos (by decide))
    simp [h3]

theorem and_bitN_of_hasSq (occ : UInt64) (s : Nat) :
    occ.toNat &&& bitN s = if hasSq occ s then bitN s else 0 := by
  rw [and_bitN, hasSq_eq_testBit]

/-! ### the ray walks as list functions -/

def orU : List Nat → UInt64
  | [] => 0
  | s :: rest => sqBB s ||| orU rest

/-- walk with blockers along a list of squares: up to and including the first blocker. -/
def rayWalkU : List Nat → UInt64 → UInt64
  | [], _ => 0
  | s :: rest, occ => sqBB s ||| (if hasSq occ s then 0 else rayWalkU rest occ)

theorem orU_toNat (L : List Nat) : (orU L).toNat = orN L := by
  induction L with
  | nil => rfl
  | cons s rest ih => simp only [orU, orN, UInt64.toNat_or, sqBB_toNat, ih]

theorem walkRay_block (cond : Int → Int → Bool) (dr df : Int) (occ : UInt64) :
    ∀ (fuel : Nat) (r f : Int) (m : UInt64),
      walkRay cond dr df occ true fuel r f m = m ||| rayWalkU (raySquares cond dr df fuel r f) occ := by
  intro fuel
  induction fuel with
  | zero => intro r f m; simp [walkRay, raySquares, rayWalkU]
  | succ n ih =>
    intro r f m
    unfold walkRay raySquares
    by_cases hc : cond r f = true
    · simp only [hc, if_true, Bool.true_and, rayWalkU]
      by_cases hb : hasSq occ (r * 8 + f).toNat = true
      · have hb' : (occ &&& sqBB (r * 8 + f).toNat != 0) = true := hb
        simp only [hb', hb, if_true, UInt64.or_zero]
      · have hb2 : hasSq occ (r * 8 + f).toNat = false := by simpa using hb
        have hb' : (occ &&& sqBB (r * 8 + f).toNat != 0) = false := hb2
        simp only [hb', hb2, Bool.false_eq_true, if_false, ih, UInt64.or_assoc]
    · have hc' : cond r f = false := by simpa using hc
      simp [hc', rayWalkU]

theorem walkRay_noblock (cond : Int → Int → Bool) (dr df : Int) (occ : UInt64) :
    ∀ (fuel : Nat) (r f : Int) (m : UInt64),
      walkRay cond dr df occ false fuel r f m = m ||| orU (raySquares cond dr df fuel r f) := by
  intro fuel
  induction fuel with
  | zero => intro r f m; simp [walkRay, raySquares, orU]
  | succ n ih =>
    intro r f m
    unfold walkRay raySquares
    by_cases hc : cond r f = true
    · simp only [hc, if_true, Bool.false_and, Bool.false_eq_true, if_false, orU, ih, UInt64.or_assoc]
    · have hc' : cond r f = false := by simpa using hc
      simp [hc', orU]

/-! ### `gen` covers every occupancy of a ray -/

theorem gen_complete (occ : UInt64) : ∀ (R : List Nat),
    (occ.toNat &&& orN R.dropLast, (rayWalkU R occ).toNat) ∈ gen R := by
  intro R
  induction R with
  | nil => simp [gen, orN, rayWalkU]
  | cons s rest ih =>
    cases rest with
    | nil =>
      simp [gen, orN, rayWalkU, sqBB_toNat]
    | cons t rest =>
      have hdl : (s :: t :: rest).dropLast = s :: (t :: rest).dropLast := rfl
      rw [hdl]
      simp only [gen, orN, rayWalkU, List.mem_flatMap]
      refine ⟨_, ih, ?_⟩
      rw [Nat.and_or_distrib_left, and_bitN_of_hasSq]
      by_cases hb : hasSq occ s = true
      · simp [hb, sqBB_toNat]
      · have hb2 : hasSq occ s = false := by simpa using hb
        simp [hb2, sqBB_toNat, rayWalkU]

theorem gen_bound : ∀ (R : List Nat) (p : Nat × Nat), p ∈ gen R → p.2 < 2 ^ 64 := by
  intro R
  induction R with
  | nil => intro p hp; simp [gen] at hp; subst hp; decide
  | cons s rest ih =>
    cases rest with
    | nil => intro p hp; simp [gen] at hp; subst hp; exact bitN_lt s
    | cons t rest =>
      intro p hp
      simp only [gen, List.mem_flatMap] at hp
      obtain ⟨q, hq, hp⟩ := hp
      have := ih q hq
      simp at hp
      rcases hp with rfl | rfl
      · exact Nat.or_lt_two_pow (bitN_lt s) this
      · exact bitN_lt s

theorem mem_prod {P Q : List (Nat × Nat)} {p q : Nat × Nat} (hp : p ∈ P) (hq : q ∈ Q) :
    (p.1 ||| q.1, p.2 ||| q.2) ∈ prod P Q := by
  unfold prod
  rw [List.mem_flatMap]
  exact ⟨p, hp, List.mem_map.mpr ⟨q, hq, rfl⟩⟩

theorem prod_bound {P Q : List (Nat × Nat)} (hP : ∀ p ∈ P, p.2 < 2 ^ 64) (hQ : ∀ q ∈ Q, q.2 < 2 ^ 64) :
    ∀ x ∈ prod P Q, x.2 < 2 ^ 64 := by
  intro x hx
  unfold prod at hx
  rw [List.mem_flatMap] at hx
  obtain ⟨p, hp, hx⟩ := hx
  rw [List.mem_map] at hx
  obtain ⟨q, hq, rfl⟩ := hx
  exact Nat.or_lt_two_pow (hP p hp) (hQ q hq)

/-! ### the collision table -/

def slot (T k : Nat) : Nat := (T >>> (128 * k)) % 2 ^ 128

theorem slot_update (T k v j : Nat) (h0 : slot T k = 0) (hv : v < 2 ^ 128) :
    slot (T ||| (v <<< (128 * k))) j = if j = k then v else slot T j := by
  apply Nat.eq_of_testBit_eq
  intro i
  have hvi : ∀ m, 128 ≤ m → v.testBit m = false := fun m hm =>
    Nat.testBit_lt_two_pow (Nat.lt_of_lt_of_le hv (Nat.pow_le_pow_right (by decide) hm))
  by_cases hjk : j = k
  · subst hjk
    have h0i : (slot T j).testBit i = false := by rw [h0]; simp
    simp only [slot, Nat.testBit_mod_two_pow, Nat.testBit_shiftRight] at h0i
    simp only [slot, if_true, Nat.testBit_mod_two_pow, Nat.testBit_shiftRight, Nat.testBit_or,
      Nat.testBit_shiftLeft]
    by_cases hi : i < 128
    · simp only [hi, decide_true, Bool.true_and] at h0i ⊢
      rw [h0i]
      have h1 : 128 * j + i ≥ 128 * j := by omega
      have h2 : 128 * j + i - 128 * j = i := by omega
      simp [h2]
    · have := hvi i (by omega)
      simp [hi, this]
  · simp only [slot, if_neg hjk, Nat.testBit_mod_two_pow, Nat.testBit_shiftRight, Nat.testBit_or,
      Nat.testBit_shiftLeft]
    by_cases hi : i < 128
    · by_cases hge : 128 * j + i ≥ 128 * k
      · have := hvi (128 * j + i - 128 * k) (by omega)
        simp [this]
      · simp [hge]
    · simp [hi]

def Good (mg sh size : Nat) (P : List (Nat × Nat)) : Prop :=
  ∀ p ∈ P, idxN mg sh p.1 < size ∧ ∀ q ∈ P, idxN mg sh p.1 = idxN mg sh q.1 → p.2 = q.2

def Inv (mg sh size T : Nat) (S : List (Nat × Nat)) : Prop :=
  ∀ p ∈ S, idxN mg sh p.1 < size ∧ slot T (idxN mg sh p.1) = p.2 + 1

theorem stepT_eq (mg sh size T o w : Nat) :
    stepT mg sh size T o w =
      if idxN mg sh o < size then
        if slot T (idxN mg sh o) = 0 then T ||| ((w + 1) <<< (128 * idxN mg sh o))
        else if slot T (idxN mg sh o) = w + 1 then T else 0
      else 0 := rfl

theorem stepT_inv (mg sh size T o w : Nat) (S : List (Nat × Nat)) (hw : w < 2 ^ 64)
    (hne : stepT mg sh size T o w ≠ 0) (hinv : Inv mg sh size T S) :
    Inv mg sh size (stepT mg sh size T o w) ((o, w) :: S) := by
  rw [stepT_eq] at hne ⊢
  have hw' : w + 1 < 2 ^ 128 := by
    have : (2:Nat) ^ 64 < 2 ^ 128 := by decide
    omega
  by_cases hk : idxN mg sh o < size
  · simp only [hk, if_true] at hne ⊢
    by_cases hc : slot T (idxN mg sh o) = 0
    · simp only [hc, if_true] at hne ⊢
      intro p hp
      rcases List.mem_cons.mp hp with rfl | hp
      · refine ⟨hk, ?_⟩
        rw [slot_update T _ _ _ hc hw']; simp
      · obtain ⟨h1, h2⟩ := hinv p hp
        refine ⟨h1, ?_⟩
        rw [slot_update T _ _ _ hc hw']
        by_cases he : idxN mg sh p.1 = idxN mg sh o
        · rw [he, hc] at h2; omega
        · simp [he, h2]
    · simp only [hc, if_false] at hne ⊢
      by_cases hc2 : slot T (idxN mg sh o) = w + 1
      · simp only [hc2, if_true] at hne ⊢
        intro p hp
        rcases List.mem_cons.mp hp with rfl | hp
        · exact ⟨hk, hc2⟩
        · exact hinv p hp
      · simp [hc2] at hne
  · simp [hk] at hne

theorem run_sound (mg sh size : Nat) : ∀ (P : List (Nat × Nat)) (T : Nat) (S : List (Nat × Nat)),
    (∀ p ∈ P, p.2 < 2 ^ 64) → run mg sh size P T = true → Inv mg sh size T S →
    ∃ T', ∀ p, (p ∈ P ∨ p ∈ S) → idxN mg sh p.1 < size ∧ slot T' (idxN mg sh p.1) = p.2 + 1 := by
  intro P
  induction P with
  | nil =>
    intro T S _ _ hinv
    refine ⟨T, fun p hp => ?_⟩
    rcases hp with hp | hp
    · cases hp
    · exact hinv p hp
  | cons a P ih =>
    intro T S hb hrun hinv
    unfold run at hrun
    simp only at hrun
    by_cases h0 : stepT mg sh size T a.1 a.2 = 0
    · simp [h0] at hrun
    · simp only [h0, if_false] at hrun
      have hinv' := stepT_inv mg sh size T a.1 a.2 S (hb a (List.mem_cons_self)) h0 hinv
      obtain ⟨T', hT'⟩ := ih _ _ (fun p hp => hb p (List.mem_cons_of_mem _ hp)) hrun hinv'
      refine ⟨T', fun p hp => hT' p ?_⟩
      rcases hp with hp | hp
      · rcases List.mem_cons.mp hp with rfl | hp
        · exact Or.inr (List.mem_cons_self)
        · exact Or.inl hp
      · exact Or.inr (List.mem_cons_of_mem _ hp)

theorem run_good (mg sh size : Nat) (P : List (Nat × Nat)) (hb : ∀ p ∈ P, p.2 < 2 ^ 64)
    (hrun : run mg sh size P 0 = true) : Good mg sh size P := by
  obtain ⟨T', hT'⟩ := run_sound mg sh size P 0 [] hb hrun (fun p hp => by cases hp)
  intro p hp
  obtain ⟨h1, h2⟩ := hT' p (Or.inl hp)
  refine ⟨h1, fun q hq he => ?_⟩
  obtain ⟨_, h4⟩ := hT' q (Or.inl hq)
  rw [he] at h2
  omega

/-! ### `occupancyBoard` enumerates exactly the subsets of the mask -/

def obStep (index : Nat) (M : UInt64) (acc : UInt64 × Nat) (sq : Nat) : UInt64 × Nat :=
  if M &&& sqBB sq != 0 then
    (if index &&& (1 <<< acc.2) == 0 then acc.1 &&& ~~~(sqBB sq) else acc.1, acc.2 + 1)
  else acc

theorem occupancyBoard_eq (i : Nat) (M : UInt64) :
    occupancyBoard i M = ((List.range 64).foldl (obStep i M) (M, 0)).1 := rfl

theorem and_one_shiftLeft (i c : Nat) : (i &&& (1 <<< c) == 0) = !i.testBit c := by
  rw [Nat.one_shiftLeft]
  have h : i &&& 2 ^ c = if i.testBit c then 2 ^ c else 0 := by
    apply Nat.eq_of_testBit_eq
    intro j
    rw [Nat.testBit_and, Nat.testBit_two_pow]
    by_cases h : c = j
    · subst h; cases hb : i.testBit c <;> simp
    · cases hb : i.testBit c <;> simp [h]
  rw [h]
  cases hb : i.testBit c
  · simp
  · simp

theorem obStep_of_mem (i : Nat) (M acc : UInt64) (c s : Nat) (h : hasSq M s = true) :
    obStep i M (acc, c) s = (if i.testBit c then acc else acc &&& ~~~(sqBB s), c + 1) := by
  have h' : (M &&& sqBB s != 0) = true := h
  unfold obStep
  simp only [h', if_true, and_one_shiftLeft]
  cases i.testBit c <;> simp

theorem obStep_of_not_mem (i : Nat) (M acc : UInt64) (c s : Nat) (h : hasSq M s = false) :
    obStep i M (acc, c) s = (acc, c) := by
  have h' : (M &&& sqBB s != 0) = false := h
  unfold obStep
  simp [h']

theorem ob_subset (i : Nat) (M : UInt64) : ∀ (L : List Nat) (acc : UInt64) (c t : Nat), t < 64 →
    hasSq (L.foldl (obStep i M) (acc, c)).1 t = true → hasSq acc t = true := by
  intro L
  induction L with
  | nil => intro acc c t _ h; exact h
  | cons s L ih =>
    intro acc c t ht h
    rw [List.foldl_cons] at h
    cases hm : hasSq M s
    · rw [obStep_of_not_mem i M acc c s hm] at h
      exact ih acc c t ht h
    · rw [obStep_of_mem i M acc c s hm] at h
      have := ih _ _ t ht h
      cases hb : i.testBit c
      · simp only [hb, Bool.false_eq_true, if_false] at this
        rw [hasSq_and _ _ _ ht] at this
        simp at this
        exact this.1
      · simpa [hb] using this

def cntM (M : UInt64) (L : List Nat) : Nat := (L.filter (hasSq M)).length

theorem ob_surj (M : UInt64) : ∀ (L : List Nat), L.Nodup → (∀ s ∈ L, s < 64) →
    ∀ (acc : UInt64) (c : Nat) (o : UInt64),
      (∀ s, s < 64 → hasSq o s = true → hasSq acc s = true) →
      (∀ s, s < 64 → ¬(s ∈ L ∧ hasSq M s = true) → hasSq o s = hasSq acc s) →
      ∃ j, j < 2 ^ cntM M L ∧ ∀ i, (∀ t, t < cntM M L → i.testBit (c + t) = j.testBit t) →
        (L.foldl (obStep i M) (acc, c)).1 = o := by
  intro L
  induction L with
  | nil =>
    intro _ _ acc c o _ h2
    refine ⟨0, by simp [cntM], fun i _ => ?_⟩
    apply bb_ext
    intro s hs
    exact (h2 s hs (by simp)).symm
  | cons s L ih =>
    intro hnd hlt acc c o h1 h2
    have hsL : s ∉ L := (List.nodup_cons.mp hnd).1
    have hndL : L.Nodup := (List.nodup_cons.mp hnd).2
    have hltL : ∀ t ∈ L, t < 64 := fun t ht => hlt t (List.mem_cons_of_mem _ ht)
    have hs : s < 64 := hlt s List.mem_cons_self
    cases hm : hasSq M s
    · -- `s` is not a mask bit: nothing happens
      have hcnt : cntM M (s :: L) = cntM M L := by simp [cntM, hm]
      obtain ⟨j, hj, hJ⟩ := ih hndL hltL acc c o h1 (fun t ht hn => h2 t ht (by
        intro ⟨hmem, hMt⟩
        rcases List.mem_cons.mp hmem with rfl | hmem
        · rw [hm] at hMt; cases hMt
        · exact hn ⟨hmem, hMt⟩))
      refine ⟨j, by rw [hcnt]; exact hj, fun i hi => ?_⟩
      rw [List.foldl_cons, obStep_of_not_mem i M acc c s hm]
      exact hJ i (by rw [hcnt] at hi; exact hi)
    · have hcnt : cntM M (s :: L) = cntM M L + 1 := by simp [cntM, hm]
      -- the accumulator after this step, as dictated by the target `o`
      let acc' : UInt64 := if hasSq o s then acc else acc &&& ~~~(sqBB s)
      have hacc' : ∀ t, t < 64 → hasSq acc' t = (hasSq acc t && (hasSq o s || !decide (s = t))) := by
        intro t ht
        show hasSq (if hasSq o s then acc else acc &&& ~~~(sqBB s)) t = _
        cases hos : hasSq o s
        · simp [hasSq_and _ _ _ ht, hasSq_not _ _ ht, hasSq_sqBB s t hs ht]
        · simp
      obtain ⟨j, hj, hJ⟩ := ih hndL hltL acc' (c + 1) o
        (by
          intro t ht hot
          rw [hacc' t ht, h1 t ht hot]
          by_cases hst : s = t
          · subst hst; simp [hot]
          · simp [hst])
        (by
          intro t ht hn
          rw [hacc' t ht]
          by_cases hst : s = t
          · subst hst
            cases hos : hasSq o s
            · simp
            · simp [h1 s hs hos]
          · have := h2 t ht (by
              intro ⟨hmem, hMt⟩
              rcases List.mem_cons.mp hmem with rfl | hmem
              · exact hst rfl
              · exact hn ⟨hmem, hMt⟩)
            simp [hst, this])
      refine ⟨2 * j + (if hasSq o s then 1 else 0), ?_, fun i hi => ?_⟩
      · rw [hcnt, Nat.pow_succ]
        cases hasSq o s <;> simp <;> omega
      · rw [List.foldl_cons, obStep_of_mem i M acc c s hm]
        have hbit : i.testBit c = hasSq o s := by
          have := hi 0 (by rw [hcnt]; omega)
          rw [Nat.add_zero, Nat.testBit_zero] at this
          rw [this]
          cases hasSq o s <;> simp <;> omega
        rw [hbit]
        apply hJ i
        intro t ht
        have := hi (t + 1) (by rw [hcnt]; omega)
        rw [show c + 1 + t = c + (t + 1) by omega, this, Nat.testBit_succ]
        congr 1
        cases hasSq o s <;> simp <;> omega

theorem nodup_range64 : (List.range 64).Nodup := List.nodup_range

theorem occupancyBoard_subset (i : Nat) (M : UInt64) (t : Nat) (ht : t < 64)
    (h : hasSq (occupancyBoard i M) t = true) : hasSq M t = true :=
  ob_subset i M (List.range 64) M 0 t ht h

theorem occupancyBoard_surj (M o : UInt64) (h : ∀ s, s < 64 → hasSq o s = true → hasSq M s = true) :
    ∃ i, i < 2 ^ cntM M (List.range 64) ∧ occupancyBoard i M = o := by
  obtain ⟨j, hj, hJ⟩ := ob_surj M (List.range 64) nodup_range64 (fun s hs => List.mem_range.mp hs) M 0 o h
    (by
      intro s hs hn
      have hM : hasSq M s = false := by
        cases hM : hasSq M s
        · rfl
        · exact absurd ⟨List.mem_range.mpr hs, hM⟩ hn
      rw [hM]
      cases ho : hasSq o s
      · rfl
      · rw [h s hs ho] at hM; cases hM)
  exact ⟨j, hj, hJ j (fun t _ => by rw [Nat.zero_add])⟩

/-! ### the table build -/


theorem build_inv (idx : Nat → Nat) (val : Nat → UInt64) (size : Nat) : ∀ n,
    (∀ i, i < n → idx i < size) → (∀ i j, i < n → j < n → idx i = idx j → val i = val j) →
    ((List.range n).foldl (fun (t : Array UInt64) i => t.setIfInBounds (idx i) (val i))
        (Array.replicate size 0)).size = size ∧
    ∀ i, i < n → ((List.range n).foldl (fun (t : Array UInt64) i => t.setIfInBounds (idx i) (val i))
        (Array.replicate size 0)).getD (idx i) 0 = val i := by
  intro n
  induction n with
  | zero => intro _ _; exact ⟨by simp, fun i hi => by omega⟩
  | succ n ih =>
    intro h1 h2
    obtain ⟨hs, hg⟩ := ih (fun i hi => h1 i (by omega)) (fun i j hi hj => h2 i j (by omega) (by omega))
    rw [List.range_succ, List.foldl_append]
    simp only [List.foldl_cons, List.foldl_nil]
    refine ⟨by rw [Array.size_setIfInBounds]; exact hs, fun i hi => ?_⟩
    have hlt : idx i < size := h1 i hi
    rw [Array.getD_eq_getD_getElem?, Array.getElem?_setIfInBounds]
    by_cases he : idx n = idx i
    · have := h2 n i (by omega) hi he
      simp [he, hs, hlt, this]
    · have hin : i < n := by
        rcases Nat.lt_succ_iff_lt_or_eq.mp hi with h | h
        · exact h
        · subst h; exact absurd rfl he
      have := hg i hin
      rw [Array.getD_eq_getD_getElem?] at this
      simp [he, this]

/-! ### linking the model to the checker -/


theorem attackMask_block (b : Bool) (sq : Nat) (occ : UInt64) :
    attackMask b sq occ true =
      rayWalkU (raysOf b sq).1 occ ||| rayWalkU (raysOf b sq).2.1 occ |||
        rayWalkU (raysOf b sq).2.2.1 occ ||| rayWalkU (raysOf b sq).2.2.2 occ := by
  cases b
  · simp [attackMask, rookAttackMask, raysOf, walkRay_block]
  · simp [attackMask, bishopAttackMask, raysOf, walkRay_block]

theorem attackMask_noblock (b : Bool) (sq : Nat) (occ : UInt64) :
    attackMask b sq occ false =
      (orU (raysOf b sq).1 ||| orU (raysOf b sq).2.1 ||| orU (raysOf b sq).2.2.1 |||
        orU (raysOf b sq).2.2.2) &&& ~~~(edgeMask (sq / 8) (sq % 8)) := by
  cases b
  · simp [attackMask, rookAttackMask, raysOf, walkRay_noblock]
  · simp [attackMask, bishopAttackMask, raysOf, walkRay_noblock]

theorem u64_toNat (n : Nat) (h : n < 2 ^ 64) : (u64 n).toNat = n := by
  show (UInt64.ofNat n).toNat = n
  rw [UInt64.toNat_ofNat']; exact Nat.mod_eq_of_lt h

theorem edgeMask_toNat (r f : Nat) : (edgeMask r f).toNat = edgeN r f := by
  unfold edgeMask edgeN
  have h1 := u64_toNat RANK_1 (by decide)
  have h8 := u64_toNat RANK_8 (by decide)
  have ha := u64_toNat FILE_A (by decide)
  have hh := u64_toNat FILE_H (by decide)
  split <;> split <;> simp only [UInt64.toNat_or, h1, h8, ha, hh]

theorem magicIndex_eq (b : Bool) (sq : Nat) (o : UInt64) :
    magicIndex b sq o = idxN (magicN b sq) (shN b sq) o.toNat := by
  unfold magicIndex idxN magicN shN magicOf
  rw [UInt64.toNat_shiftRight, UInt64.toNat_mul]
  show (o.toNat * (UInt64.ofNat _).toNat % 2 ^ 64) >>> ((UInt64.ofNat _).toNat % 64) = _
  rw [UInt64.toNat_ofNat', UInt64.toNat_ofNat']

theorem cntM_eq (M : UInt64) : cntM M (List.range 64) = popcountN M.toNat := by
  unfold cntM popcountN
  congr 1
  apply List.filter_congr
  intro s hs
  have hs : s < 64 := List.mem_range.mp hs
  rw [hasSq_eq_testBit, Nat.mod_eq_of_lt hs]


/-! ### soundness -/


/-- the enumerated (occupancy, attack set) pairs of a square. -/
def pairsOf (b : Bool) (sq : Nat) : List (Nat × Nat) :=
  prod (prod (prod (gen (raysOf b sq).1) (gen (raysOf b sq).2.1)) (gen (raysOf b sq).2.2.1))
    (gen (raysOf b sq).2.2.2)

theorem force_eq {α : Type} (n : Nat) (k : Nat → α) : force n k = k n := by
  unfold force; cases n <;> rfl

theorem checkSquare_iff (b : Bool) (sq : Nat) (h : checkSquare b sq = true) :
    (attackMask b sq 0 false).toNat =
      (orN (raysOf b sq).1.dropLast ||| orN (raysOf b sq).2.1.dropLast |||
        orN (raysOf b sq).2.2.1.dropLast ||| orN (raysOf b sq).2.2.2.dropLast) ∧
    relevantBits b sq = popcountN (attackMask b sq 0 false).toNat ∧
    run (magicN b sq) (shN b sq) (tableSize b) (pairsOf b sq) 0 = true := by
  unfold checkSquare at h
  simp only [force_eq, Bool.and_eq_true, beq_iff_eq] at h
  obtain ⟨⟨h1, h2⟩, h3⟩ := h
  have hm : (attackMask b sq 0 false).toNat =
      (orN (raysOf b sq).1 ||| orN (raysOf b sq).2.1 ||| orN (raysOf b sq).2.2.1 |||
        orN (raysOf b sq).2.2.2) &&& (18446744073709551615 - edgeN (sq / 8) (sq % 8)) := by
    rw [attackMask_noblock]
    simp only [UInt64.toNat_and, UInt64.toNat_or, UInt64.toNat_not, orU_toNat, edgeMask_toNat]
    rfl
  rw [hm]
  exact ⟨h1, h2, h3⟩

/-- every occupancy, restricted to the mask, appears in the enumeration together with its walk. -/
theorem mem_pairsOf (b : Bool) (sq : Nat) (h : checkSquare b sq = true) (occ : UInt64) :
    ((occ &&& attackMask b sq 0 false).toNat, (attackMask b sq occ true).toNat) ∈ pairsOf b sq := by
  obtain ⟨hm, _, _⟩ := checkSquare_iff b sq h
  rw [UInt64.toNat_and, hm, attackMask_block]
  simp only [Nat.and_or_distrib_left, UInt64.toNat_or]
  exact mem_prod (mem_prod (mem_prod (gen_complete occ _) (gen_complete occ _)) (gen_complete occ _))
    (gen_complete occ _)

theorem pairsOf_bound (b : Bool) (sq : Nat) : ∀ p ∈ pairsOf b sq, p.2 < 2 ^ 64 :=
  prod_bound (prod_bound (prod_bound (gen_bound _) (gen_bound _)) (gen_bound _)) (gen_bound _)

theorem and_mask_idem (a m : UInt64) : (a &&& m) &&& m = a &&& m := by
  rw [UInt64.and_assoc, UInt64.and_self]

/-- **soundness of the checker**. -/
theorem checkSquare_sound (b : Bool) (sq : Nat) (h : checkSquare b sq = true) (occ : UInt64) :
    (buildSquareTable b sq).getD (magicIndex b sq (occ &&& attackMask b sq 0 false)) 0 =
      attackMask b sq occ true := by
  obtain ⟨_, hbits, hrun⟩ := checkSquare_iff b sq h
  have hgood := run_good _ _ _ _ (pairsOf_bound b sq) hrun
  generalize hM : attackMask b sq 0 false = M at *
  -- the masked occupancy is one of the enumerated subsets
  have hsub : ∀ s, s < 64 → hasSq (occ &&& M) s = true → hasSq M s = true := by
    intro s hs hh; rw [hasSq_and _ _ _ hs] at hh; simp at hh; exact hh.2
  obtain ⟨i, hi, hocc⟩ := occupancyBoard_surj M (occ &&& M) hsub
  rw [cntM_eq, ← hbits] at hi
  -- facts about every writer
  have hmemW : ∀ j, ((occupancyBoard j M).toNat, (attackMask b sq (occupancyBoard j M) true).toNat) ∈
      pairsOf b sq := by
    intro j
    have := mem_pairsOf b sq h (occupancyBoard j M)
    rw [hM] at this
    have hsubj : occupancyBoard j M &&& M = occupancyBoard j M := by
      apply bb_ext
      intro s hs
      rw [hasSq_and _ _ _ hs]
      cases hj : hasSq (occupancyBoard j M) s
      · rfl
      · rw [occupancyBoard_subset j M s hs hj]; rfl
    rw [hsubj] at this
    exact this
  have hinv := build_inv (fun j => magicIndex b sq (occupancyBoard j M))
    (fun j => attackMask b sq (occupancyBoard j M) true) (tableSize b) (1 <<< relevantBits b sq)
    (by
      intro j _
      show magicIndex b sq (occupancyBoard j M) < tableSize b
      rw [magicIndex_eq]
      exact (hgood _ (hmemW j)).1)
    (by
      intro j k _ _ he
      simp only [magicIndex_eq] at he
      exact UInt64.toNat_inj.mp ((hgood _ (hmemW j)).2 _ (hmemW k) he))
  have hT : buildSquareTable b sq =
      (List.range (1 <<< relevantBits b sq)).foldl (fun (t : Array UInt64) j =>
        t.setIfInBounds (magicIndex b sq (occupancyBoard j M))
          (attackMask b sq (occupancyBoard j M) true)) (Array.replicate (tableSize b) 0) := by
    unfold buildSquareTable; rw [hM]
  rw [hT]
  have := hinv.2 i (by rw [Nat.one_shiftLeft]; exact hi)
  simp only [hocc] at this
  rw [this]
  -- mask-irrelevance of the walk, from the no-collision check
  have h1 := mem_pairsOf b sq h occ
  have h2 := mem_pairsOf b sq h (occ &&& M)
  rw [hM] at h1 h2
  rw [and_mask_idem] at h2
  exact UInt64.toNat_inj.mp ((hgood _ h2).2 _ h1 rfl)


end Flounder.MagicProof
