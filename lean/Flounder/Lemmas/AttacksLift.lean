/-
  C01, layer L2 — pure mailbox facts about attacks: how `manAttacks` / `attacked` depend on the board
  (only through the squares strictly between attacker and target), what lifting the mover's king off the
  board changes (nothing, unless the king is in check), and `inCheckOf` with a unique king.
-/
import Flounder.Lemmas.C01Interfaces
import Flounder.Lemmas.AttacksGeom

namespace Flounder.Spec
open Flounder

/-! ### `liftKing` -/

theorem liftKing_apply (bd : Nat → Option Man) (c : Color) (s : Nat) :
    liftKing bd c s = if bd s = some (c, .king) then none else bd s := rfl

theorem liftKing_of_ne {bd : Nat → Option Man} {c : Color} {s : Nat} (h : bd s ≠ some (c, .king)) :
    liftKing bd c s = bd s := by rw [liftKing_apply, if_neg h]

theorem liftKing_king {bd : Nat → Option Man} {c : Color} {s : Nat} (h : bd s = some (c, .king)) :
    liftKing bd c s = none := by rw [liftKing_apply, if_pos h]

theorem liftKing_none {bd : Nat → Option Man} {c : Color} {s : Nat} (h : bd s = none) :
    liftKing bd c s = none := by rw [liftKing_apply, h]; simp

theorem liftKing_some {bd : Nat → Option Man} {c : Color} {s : Nat} {x : Man} (h : liftKing bd c s = some x) :
    bd s = some x := by
  rw [liftKing_apply] at h
  split at h
  · cases h
  · exact h

theorem liftKing_other {bd : Nat → Option Man} {c : Color} {s : Nat} {p : Piece} (h : bd s = some (c.other, p)) :
    liftKing bd c s = some (c.other, p) := by
  rw [liftKing_of_ne, h]
  rw [h]
  intro h'
  exact Color.other_ne c (congrArg Prod.fst (Option.some.inj h'))

/-! ### the walks -/

theorem between_go_ne (t : Nat) : ∀ (n cur u : Nat), u ∈ strictlyBetween.go t n cur → u ≠ t := by
  intro n
  induction n with
  | zero => intro cur u hu; simp [strictlyBetween.go] at hu
  | succ n ih =>
    intro cur u hu
    unfold strictlyBetween.go at hu
    simp only [] at hu
    split at hu
    · cases hu
    · rename_i hne
      rcases List.mem_cons.1 hu with h | h
      · rw [h]; simpa using hne
      · exact ih _ u h

/-- the target is never on the walk. -/
theorem between_ne_right {s t u : Nat} (hu : u ∈ strictlyBetween s t) : u ≠ t := between_go_ne t 7 s u hu

structure WalkFacts (s t u : Nat) : Prop where
  diagL : diagonal s u = diagonal s t
  orthL : orthogonal s u = orthogonal s t
  diagR : diagonal u t = diagonal s t
  orthR : orthogonal u t = orthogonal s t
  pre : ∀ v, v ∈ strictlyBetween s u → v ∈ strictlyBetween s t
  suf : ∀ v, v ∈ strictlyBetween u t → v ∈ strictlyBetween s t

theorem walk_facts {s t : Nat} (hs : s < 64) (ht : t < 64) (ha : (diagonal s t || orthogonal s t) = true) :
    s ∉ strictlyBetween s t ∧ ∀ u, u ∈ strictlyBetween s t → WalkFacts s t u := by
  have h := prefixCheck_ok
  unfold prefixCheck at h
  simp only [List.all_eq_true, List.mem_range] at h
  have h := h s hs t ht
  rw [ha] at h
  simp only [Bool.not_true, Bool.false_or, Bool.and_eq_true, Bool.not_eq_true', List.all_eq_true, beq_iff_eq,
    subL_iff] at h
  obtain ⟨h1, h2⟩ := h
  refine ⟨by simpa using h1, fun u hu => ?_⟩
  obtain ⟨⟨⟨⟨⟨a, b⟩, c⟩, d⟩, e⟩, f⟩ := h2 u hu
  exact ⟨a, b, c, d, e, f⟩

/-! ### `manAttacks` reads the board on the walk only -/

theorem pathClear_iff {bd : Nat → Option Man} {s t : Nat} :
    pathClear bd s t = true ↔ ∀ u, u ∈ strictlyBetween s t → bd u = none := by
  unfold pathClear
  rw [List.all_eq_true]
  constructor
  · intro h u hu; simpa using h u hu
  · intro h u hu; rw [h u hu]; rfl

/-- the line a slider needs between `s` and `t` (`false` for the leapers). -/
def lineOf : Piece → Nat → Nat → Bool
  | .bishop, s, t => diagonal s t
  | .rook, s, t => orthogonal s t
  | .queen, s, t => diagonal s t || orthogonal s t
  | _, _, _ => false

def isSlider : Piece → Bool
  | .bishop | .rook | .queen => true
  | _ => false

theorem manAttacks_slider {bd : Nat → Option Man} {c : Color} {p : Piece} (hp : isSlider p = true) (s t : Nat) :
    manAttacks bd c p s t = (lineOf p s t && pathClear bd s t) := by
  cases p <;> first | rfl | cases hp

theorem manAttacks_leaper {bd : Nat → Option Man} (bd' : Nat → Option Man) {c : Color} {p : Piece}
    (hp : isSlider p = false) (s t : Nat) : manAttacks bd c p s t = manAttacks bd' c p s t := by
  cases p <;> first | rfl | cases hp

theorem lineOf_aligned {p : Piece} {s t : Nat} (h : lineOf p s t = true) : (diagonal s t || orthogonal s t) = true := by
  cases p <;> simp only [lineOf] at h <;> first | cases h | simp [h] | simpa using h

theorem lineOf_congr {p : Piece} {s t s' t' : Nat} (hd : diagonal s' t' = diagonal s t)
    (ho : orthogonal s' t' = orthogonal s t) : lineOf p s' t' = lineOf p s t := by
  cases p <;> simp only [lineOf, hd, ho]

theorem manAttacks_self (bd : Nat → Option Man) (c : Color) (p : Piece) {s : Nat} (hs : s < 64) :
    manAttacks bd c p s s = false := by
  have h := irreflCheck_ok
  unfold irreflCheck at h
  simp only [List.all_eq_true, List.mem_range, Bool.and_eq_true, Bool.not_eq_true'] at h
  obtain ⟨⟨⟨⟨⟨h1, h2⟩, h3⟩, h4⟩, h5⟩, h6⟩ := h s hs
  cases p
  · cases c
    · exact h5
    · exact h6
  · exact h3
  · simp only [manAttacks, h1, Bool.false_and]
  · simp only [manAttacks, h2, Bool.false_and]
  · simp only [manAttacks, h1, h2, Bool.false_and, Bool.or_self]
  · exact h4

theorem manAttacks_ne {bd : Nat → Option Man} {c : Color} {p : Piece} {s t : Nat} (hs : s < 64)
    (h : manAttacks bd c p s t = true) : s ≠ t := by
  intro he
  subst he
  rw [manAttacks_self bd c p hs] at h
  cases h

/-- an attack survives a change of the board that keeps the walk clear. -/
theorem manAttacks_mono {bd bd' : Nat → Option Man} {c : Color} {p : Piece} {s t : Nat}
    (h : manAttacks bd c p s t = true)
    (hp : (diagonal s t || orthogonal s t) = true → (∀ v, v ∈ strictlyBetween s t → bd v = none) →
      ∀ u, u ∈ strictlyBetween s t → bd' u = none) :
    manAttacks bd' c p s t = true := by
  cases hsl : isSlider p
  · rw [manAttacks_leaper bd hsl]; exact h
  · rw [manAttacks_slider hsl] at h ⊢
    rw [Bool.and_eq_true] at h ⊢
    exact ⟨h.1, pathClear_iff.2 (hp (lineOf_aligned h.1) (pathClear_iff.1 h.2))⟩

/-- `attacked` is monotone in the (attacker, attack) pairs. -/
theorem attacked_mono {bd bd' : Nat → Option Man} {c : Color} {t : Nat}
    (hmen : ∀ s, s < 64 → ∀ p, bd s = some (c, p) → manAttacks bd c p s t = true →
      bd' s = some (c, p) ∧ manAttacks bd' c p s t = true)
    (h : attacked bd c t = true) : attacked bd' c t = true := by
  obtain ⟨s, hs, p, h1, h2⟩ := attacked_eq_true.1 h
  obtain ⟨h3, h4⟩ := hmen s hs p h1 h2
  exact attacked_eq_true.2 ⟨s, hs, p, h3, h4⟩

theorem bool_eq_of_imp {a b : Bool} (h1 : a = true → b = true) (h2 : b = true → a = true) : a = b := by
  cases a <;> cases b <;> simp_all

/-! ### lifting the king -/

section lift
variable {bd : Nat → Option Man} {c : Color} {k : Nat}

/-- an attack of the other side on the real board is an attack on the lifted board. -/
theorem attacked_lift_of (t : Nat) (h : attacked bd c.other t = true) :
    attacked (liftKing bd c) c.other t = true := by
  refine attacked_mono (fun s _ p h1 h2 => ⟨liftKing_other h1, manAttacks_mono h2 ?_⟩) h
  intro _ hc u hu
  exact liftKing_none (hc u hu)

/-- an attack on the lifted board is an attack on the real board, or reaches the (unique) king. -/
theorem manAttacks_of_lift (hu : ∀ s, s < 64 → bd s = some (c, .king) → s = k) {c' : Color} {p : Piece}
    {s t : Nat} (hs : s < 64) (ht : t < 64) (h : manAttacks (liftKing bd c) c' p s t = true) :
    manAttacks bd c' p s t = true ∨ (k < 64 ∧ manAttacks bd c' p s k = true) := by
  cases hsl : isSlider p
  · left; rw [manAttacks_leaper (liftKing bd c) hsl]; exact h
  · rw [manAttacks_slider hsl, Bool.and_eq_true] at h
    obtain ⟨hline, hpath⟩ := h
    have ha := lineOf_aligned hline
    have hpath := pathClear_iff.1 hpath
    by_cases hk : k ∈ strictlyBetween s t
    · right
      have hk64 := strictlyBetween_lt hs ht hk
      refine ⟨hk64, ?_⟩
      have wf := (walk_facts hs ht ha).2 k hk
      rw [manAttacks_slider hsl, Bool.and_eq_true]
      refine ⟨by rw [lineOf_congr wf.diagL wf.orthL]; exact hline, pathClear_iff.2 ?_⟩
      intro v hv
      have hvk : v ≠ k := between_ne_right hv
      have hv64 := strictlyBetween_lt hs hk64 hv
      have := hpath v (wf.pre v hv)
      rwa [liftKing_of_ne (fun h' => hvk (hu v hv64 h'))] at this
    · left
      rw [manAttacks_slider hsl, Bool.and_eq_true]
      refine ⟨hline, pathClear_iff.2 ?_⟩
      intro v hv
      have hvk : v ≠ k := fun h' => hk (h' ▸ hv)
      have hv64 := strictlyBetween_lt hs ht hv
      have := hpath v hv
      rwa [liftKing_of_ne (fun h' => hvk (hu v hv64 h'))] at this

/-- attacks ON the king's own square do not see the difference. -/
theorem attacked_lift_king (hu : ∀ s, s < 64 → bd s = some (c, .king) → s = k) (hk : k < 64) :
    attacked (liftKing bd c) c.other k = attacked bd c.other k := by
  apply bool_eq_of_imp
  · refine attacked_mono (fun s hs p h1 h2 => ⟨liftKing_some h1, ?_⟩)
    rcases manAttacks_of_lift hu hs hk h2 with h | ⟨_, h⟩ <;> exact h
  · exact attacked_lift_of k

/-- when the king is not in check, lifting it changes no attack at all. -/
theorem attacked_lift_of_safe (hu : ∀ s, s < 64 → bd s = some (c, .king) → s = k)
    (hsafe : attacked bd c.other k = false) {t : Nat} (ht : t < 64) :
    attacked (liftKing bd c) c.other t = attacked bd c.other t := by
  apply bool_eq_of_imp
  · refine attacked_mono (fun s hs p h1 h2 => ⟨liftKing_some h1, ?_⟩)
    rcases manAttacks_of_lift hu hs ht h2 with h | ⟨hk, h⟩
    · exact h
    · have : attacked bd c.other k = true := attacked_eq_true.2 ⟨s, hs, p, liftKing_some h1, h⟩
      rw [hsafe] at this; cases this
  · exact attacked_lift_of t

end lift

/-! ### check with a unique king -/

theorem inCheckOf_unique {bd : Nat → Option Man} {c : Color} {k : Nat} (hk : k < 64) (hb : bd k = some (c, .king))
    (hu : ∀ s, s < 64 → bd s = some (c, .king) → s = k) : inCheckOf bd c = attacked bd c.other k := by
  cases h : attacked bd c.other k
  · exact inCheckOf_eq_false.2 (fun k' hk' hb' => by rw [hu k' hk' hb']; exact h)
  · unfold inCheckOf
    exact List.any_eq_true.2 ⟨k, mem_kingSquares.2 ⟨hk, hb⟩, h⟩

theorem kingSquares_unique {bd : Nat → Option Man} {c : Color} {k : Nat} (hk : k < 64) (hb : bd k = some (c, .king))
    (hu : ∀ s, s < 64 → bd s = some (c, .king) → s = k) : kingSquares bd c = [k] := by
  have hlen : (kingSquares bd c).length = 1 := kingSquares_length_eq_one.2 ⟨k, hk, hb, hu⟩
  have hmem : k ∈ kingSquares bd c := mem_kingSquares.2 ⟨hk, hb⟩
  match hl : kingSquares bd c, hlen with
  | [x], _ =>
    rw [hl] at hmem
    rw [List.mem_singleton.1 hmem]

end Flounder.Spec
